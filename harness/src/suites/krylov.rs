//! Suite "krylov": the four iterative solvers of ohsl::Sparse<f64> (C08, C09).
//!
//! A case names one system, one solver and one call: either an explicit small integer system
//! (`A`, `b`; the TLC-generated 2x2 cases) or a generated one (`fam`, `n`, `seed`: the system is a
//! deterministic function of these three fields).  `mode` selects what is measured:
//!   "c08"  the implication "Ok(k) => x finite, true relative residual <= tol (+ drift), k <= budget",
//!          budget 0 leaves x untouched; hook-free observation of the iterates by re-running the
//!          solver with budgets 1..k (prefix closure), which yields max_j ||x_j|| for the drift;
//!   "c09"  convergence within the iteration bound, agreement with the dense direct solution, exact
//!          initial guess / zero right-hand side accepted as solved.
//! The true residual is computed from a dense copy assembled here from the triplets (never from the
//! Sparse object) in double-double arithmetic.
use crate::dd::DD;
use crate::util::*;
use ohsl::{Matrix, Sparse, Vector};
use rand::rngs::StdRng;
use rand::seq::SliceRandom;
use rand::Rng;
use serde_json::{json, Value};

const EPS: f64 = f64::EPSILON;

pub struct Sys {
    pub n: usize,
    pub trip: Vec<(usize, usize, f64)>,
    pub b: Vec<f64>,
    pub x0: Vec<f64>,
    /// provable upper bound of the 2-norm condition number (0 = none claimed)
    pub kap: f64,
    /// provable upper bound of ||A^-1||_2 (0 = none claimed)
    pub ainv: f64,
    /// exact solution when the case carries one (TLC's rational iterate), else None
    pub xref: Option<Vec<f64>>,
}

// ------------------------------------------------------------------ reference arithmetic
fn dense_of(s: &Sys) -> Vec<Vec<f64>> { let mut a = vec![vec![0.0; s.n]; s.n]; for &(i, j, v) in &s.trip { a[i][j] += v; } a }
/// power of two that brings m to order 1 (so that squares neither overflow nor underflow); 1 for 0 / non-finite
fn pscale(m: f64) -> f64 { if m > 0.0 && m.is_finite() { 2f64.powi(-(m.log2().floor() as i32).clamp(-1000, 1000)) } else { 1.0 } }
fn scaled_norm_dd(v: &[DD]) -> f64 {
    let m = v.iter().fold(0.0f64, |m, x| m.max(x.hi.abs()));
    if !(m > 0.0) { return 0.0; }
    if !m.is_finite() { return f64::INFINITY; }
    let sc = pscale(m);
    let mut s = DD::ZERO; for x in v { let y = x.mulf(sc); s = s.add(y.mul(y)); }
    s.sqrt().to_f64() / sc
}
/// ||v||_2 in double-double, safe at every scale (the code under test squares unscaled entries; the reference must not)
fn norm2_dd(v: &[f64]) -> f64 { if v.iter().any(|x| x.is_nan()) { return f64::NAN; } scaled_norm_dd(&v.iter().map(|x| DD::from(*x)).collect::<Vec<DD>>()) }
/// ||b - A x||_2 from the dense copy, double-double
fn true_res(a: &[Vec<f64>], b: &[f64], x: &[f64]) -> f64 {
    let mut rs = Vec::with_capacity(b.len());
    for i in 0..b.len() {
        let mut r = DD::from(b[i]);
        for j in 0..x.len() { if a[i][j] != 0.0 { r = r.sub(DD::prod(a[i][j], x[j])); } }
        if r.hi.is_nan() { return f64::NAN; }
        rs.push(r);
    }
    scaled_norm_dd(&rs)
}
fn frob(a: &[Vec<f64>]) -> f64 { norm2_dd(&a.iter().flatten().cloned().collect::<Vec<f64>>()) }
fn max_row_nnz(a: &[Vec<f64>]) -> usize { a.iter().map(|r| r.iter().filter(|v| **v != 0.0).count()).max().unwrap_or(0) }
fn all_finite(x: &[f64]) -> bool { x.iter().all(|v| v.is_finite()) }
fn jbits(x: &[f64]) -> Value { Value::from(x.iter().map(|v| bits(*v)).collect::<Vec<String>>()) }
/// FNV-1a over the bit patterns: a 16-hex-digit fingerprint of a vector (bit identity of long vectors)
fn xhash(x: &[f64]) -> String {
    let mut h: u64 = 0xcbf29ce484222325;
    for v in x { for byte in v.to_bits().to_le_bytes() { h ^= byte as u64; h = h.wrapping_mul(0x100000001b3); } }
    format!("{:016x}", h)
}

// ------------------------------------------------------------------ the call under test
pub struct CallOut { pub panic: bool, pub ok: bool, pub k: i64, pub err: f64 }
/// one solver call on a live Sparse object (the object is not rebuilt: internal state, if any, carries over)
fn call_on(a: &Sparse<f64>, b: &[f64], kind: &str, itol: usize, x: &mut Vec<f64>, budget: usize, tol: f64) -> CallOut {
    let bv = Vector::create(b.to_vec());
    let mut xv = Vector::create(x.clone());
    let r = guarded(|| match kind {
        "cg" => a.solve_cg(&bv, &mut xv, budget, tol),
        "bicg" => a.solve_bicg(&bv, &mut xv, budget, tol, itol),
        "bicgstab" => a.solve_bicgstab(&bv, &mut xv, budget, tol),
        "qmr" => a.solve_qmr(&bv, &mut xv, budget, tol),
        other => { eprintln!("TOOL-ERROR unknown solver kind {}", other); std::process::exit(2) }
    });
    *x = xv.vec.clone();
    match r {
        Ok(Ok(k)) => CallOut { panic: false, ok: true, k: (k as i64).min(SAT), err: f64::NAN },
        Ok(Err(e)) => CallOut { panic: false, ok: false, k: 0, err: e },
        Err(_) => CallOut { panic: true, ok: false, k: 0, err: f64::NAN },
    }
}
/// one solver call on a matrix freshly assembled from the triplets
fn call(s: &Sys, kind: &str, itol: usize, x: &mut Vec<f64>, budget: usize, tol: f64) -> CallOut {
    let n = s.n;
    if budget > 50_000_000 {
        // With an (all but) unlimited budget a solver that never meets its stopping test would run for ever: the call is made on a
        // watchdog thread; a call that has not returned after 10 s is reported like a panic ("no answer") and the thread is abandoned
        // (the process ends with main).  After three such calls the remaining ones are not started.
        static HUNG: std::sync::atomic::AtomicUsize = std::sync::atomic::AtomicUsize::new(0);
        if HUNG.load(std::sync::atomic::Ordering::Relaxed) >= 3 { return CallOut { panic: true, ok: false, k: 0, err: f64::NAN }; }
        let (trip0, b, kind_s, x0) = (s.trip.clone(), s.b.clone(), kind.to_string(), x.clone());
        let (tx, rx) = std::sync::mpsc::channel();
        std::thread::spawn(move || {
            let mut trip = trip0; let mut xx = x0;
            let out = match guarded(|| Sparse::<f64>::from_triplets(n, n, &mut trip)) { Ok(a) => call_on(&a, &b, &kind_s, itol, &mut xx, budget, tol), Err(_) => CallOut { panic: true, ok: false, k: 0, err: f64::NAN } };
            let _ = tx.send((out, xx));
        });
        return match rx.recv_timeout(std::time::Duration::from_secs(10)) {
            Ok((o, xx)) => { *x = xx; o }
            Err(_) => { HUNG.fetch_add(1, std::sync::atomic::Ordering::Relaxed); CallOut { panic: true, ok: false, k: 0, err: f64::NAN } }
        };
    }
    let mut trip = s.trip.clone();
    match guarded(|| Sparse::<f64>::from_triplets(n, n, &mut trip)) {
        Ok(a) => call_on(&a, &s.b, kind, itol, x, budget, tol),
        Err(_) => CallOut { panic: true, ok: false, k: 0, err: f64::NAN },
    }
}
type Runner<'a> = &'a mut dyn FnMut(&mut Vec<f64>, usize) -> CallOut;

// ------------------------------------------------------------------ systems
fn sgn(rng: &mut StdRng) -> f64 { if rng.gen_bool(0.5) { 1.0 } else { -1.0 } }
/// off-diagonal positions i < j of a symmetric pattern
fn pattern(rng: &mut StdRng, n: usize) -> Vec<(usize, usize)> {
    let mut p = vec![];
    if n < 2 { return p; }
    match rng.gen_range(0..8) {
        0 => {}
        1 => { for i in 0..n - 1 { p.push((i, i + 1)); } }
        2 => { let w = rng.gen_range(2..=5usize.min(n - 1).max(2)); for i in 0..n { for d in 1..=w { if i + d < n { p.push((i, i + d)); } } } }
        3 => { let pr = (3.0 / n as f64).min(1.0); for i in 0..n { for j in i + 1..n { if rng.gen_bool(pr) { p.push((i, j)); } } } }
        4 => { for i in 0..n { for j in i + 1..n { p.push((i, j)); } } }
        5 => { for j in 1..n { p.push((0, j)); } }
        6 => { for i in 0..n { for j in i + 1..n { if rng.gen_bool(0.3) { p.push((i, j)); } } } }
        _ => { let mut perm: Vec<usize> = (0..n).collect(); perm.shuffle(rng); for i in 0..n { let j = perm[i]; if i < j { p.push((i, j)); } else if j < i && !p.contains(&(j, i)) { p.push((j, i)); } } p.sort(); p.dedup(); }
    }
    p
}
/// unsymmetric positions derived from a symmetric pattern
fn unsym(rng: &mut StdRng, p: &[(usize, usize)], keep: f64) -> Vec<(usize, usize)> {
    let mut q = vec![];
    for &(i, j) in p { if rng.gen_bool(keep) { q.push((i, j)); } if rng.gen_bool(keep) { q.push((j, i)); } }
    q
}
fn order_triplets(rng: &mut StdRng, t: &mut Vec<(usize, usize, f64)>) {
    match rng.gen_range(0..4) { 0 => t.shuffle(rng), 1 => t.sort_by(|a, b| (a.1, a.0).cmp(&(b.1, b.0))), 2 => { t.sort_by(|a, b| (a.0, a.1).cmp(&(b.0, b.1))); t.reverse(); } _ => t.shuffle(rng) }
}
fn matvec_dense(a: &[Vec<f64>], x: &[f64]) -> Vec<f64> { a.iter().map(|r| r.iter().zip(x).map(|(p, q)| p * q).sum()).collect() }
fn pow10(rng: &mut StdRng, lo: f64, hi: f64) -> f64 { 10f64.powf(rng.gen_range(lo..=hi)) }

/// row sums of the absolute off-diagonal entries and the diagonal, from the triplets
fn gersh(n: usize, t: &[(usize, usize, f64)]) -> (Vec<f64>, Vec<f64>, Vec<f64>) {
    let mut d = vec![0.0; n]; let mut r = vec![0.0; n]; let mut c = vec![0.0; n];
    for &(i, j, v) in t { if i == j { d[i] += v; } else { r[i] += v.abs(); c[j] += v.abs(); } }
    (d, r, c)
}
/// provable conditioning bounds: symmetric positive definite by Gershgorin, else by row dominance
fn cond_bounds(n: usize, t: &[(usize, usize, f64)], spd: bool) -> (f64, f64) {
    let (d, r, c) = gersh(n, t);
    let up = 1.0 + 1e-9;
    let lo = (0..n).map(|i| d[i].abs() - r[i] * up).fold(f64::INFINITY, f64::min);
    let loc0 = (0..n).map(|i| d[i].abs() - c[i] * up).fold(f64::INFINITY, f64::min);
    if !(lo > 0.0) && (spd || !(loc0 > 0.0)) { return (0.0, 0.0); }
    if spd {
        let hi = (0..n).map(|i| d[i] + r[i] * up).fold(0.0, f64::max);
        (hi / lo * up, up / lo)
    } else {
        // row dominance bounds ||A^-1||_inf <= 1/lo_r, column dominance ||A^-1||_1 <= 1/lo_c; ||M||_2 <= sqrt(||M||_1 ||M||_inf)
        // and ||M||_2 <= sqrt(n) ||M||_inf, sqrt(n) ||M||_1
        let ninf = (0..n).map(|i| d[i].abs() + r[i] * up).fold(0.0, f64::max);
        let n1 = (0..n).map(|i| d[i].abs() + c[i] * up).fold(0.0, f64::max);
        let loc = (0..n).map(|i| d[i].abs() - c[i] * up).fold(f64::INFINITY, f64::min);
        let sn = (n as f64).sqrt();
        let ainv = if lo > 0.0 && loc > 0.0 { up / (lo * loc).sqrt() } else if lo > 0.0 { sn / lo * up } else { sn / loc * up };
        ((ninf * n1).sqrt() * ainv * up, ainv)
    }
}
/// condition bounds of a dense matrix: SPD (symmetric, positive diagonal, Gershgorin) when it applies, else dominance
fn cond_dense(a: &[Vec<f64>]) -> (f64, f64, bool) {
    let n = a.len();
    let mut t = vec![]; for i in 0..n { for j in 0..n { if a[i][j] != 0.0 { t.push((i, j, a[i][j])); } } }
    let sym = (0..n).all(|i| (0..n).all(|j| a[i][j] == a[j][i])) && (0..n).all(|i| a[i][i] > 0.0);
    if sym { let (k, ai) = cond_bounds(n, &t, true); if k > 0.0 { return (k, ai, true); } }
    let (k, ai) = cond_bounds(n, &t, false);
    (k, ai, false)
}
fn trip_of(a: &[Vec<f64>]) -> Vec<(usize, usize, f64)> {
    let n = a.len(); let mut t = vec![]; for i in 0..n { for j in 0..n { if a[i][j] != 0.0 { t.push((i, j, a[i][j])); } } } t
}

/// Structured small-integer systems (C08 implication only): matrices on which the Krylov recurrences hit EXACT
/// breakdowns (rho, xi, delta, epsilon, omega, p.q exactly zero) - triangular / block triangular, rows or columns
/// holding only the diagonal entry, diag(+1,-1,..), skew, permutations, nilpotent shifts, singular blocks - with
/// right-hand sides e_k, e_i + e_j, ones, A e_k.  Fields: st (shape), n, seed, rhs ("ek" | "e2" | "ones" | "aek"), rk, rk2,
/// guess ("zero" | "int").
pub const SHAPES: [&str; 14] = ["upper", "lower", "upper_bi", "blocktri", "rowdiag", "coldiag", "pm", "pm_off", "skew", "perm", "nilshift", "shift_plus", "singblock", "arrow_lower"];
fn build_struct(case: &Value) -> Sys {
    let n = getu(case, "n"); let st = gets(case, "st");
    let mut rng = rng(geti(case, "seed") as u64, 11); let rng = &mut rng;
    let mut a = vec![vec![0.0f64; n]; n];
    let small = |rng: &mut StdRng| -> f64 { sgn(rng) * rng.gen_range(1..=3) as f64 };
    let diag = |rng: &mut StdRng| -> f64 { rng.gen_range(2..=5) as f64 };
    match st {
        "upper" => { for i in 0..n { a[i][i] = diag(rng); for j in i + 1..n { if rng.gen_bool(0.7) { a[i][j] = small(rng); } } } }
        "lower" => { for i in 0..n { a[i][i] = diag(rng); for j in 0..i { if rng.gen_bool(0.7) { a[i][j] = small(rng); } } } }
        "upper_bi" => { for i in 0..n { a[i][i] = diag(rng); if i + 1 < n { a[i][i + 1] = small(rng); } } }
        "blocktri" => { let h = (n / 2).max(1); for i in 0..n { for j in 0..n { if (i < h) == (j < h) || i < h { if i == j { a[i][j] = diag(rng) + 4.0; } else if rng.gen_bool(0.8) { a[i][j] = small(rng); } } } } }
        // a full dominant matrix in which row k (resp. column k) holds only its diagonal entry
        "rowdiag" | "coldiag" => { let k = rng.gen_range(0..n);
            for i in 0..n { for j in 0..n { a[i][j] = if i == j { 3.0 * n as f64 + diag(rng) } else if rng.gen_bool(0.8) { small(rng) } else { 0.0 }; } }
            for t in 0..n { if t != k { if st == "rowdiag" { a[k][t] = 0.0; } else { a[t][k] = 0.0; } } }
            if n > 1 { let t = (k + 1) % n; if st == "rowdiag" { a[t][k] = small(rng); } else { a[k][t] = small(rng); } } }
        "pm" => { let sc = rng.gen_range(1..=4) as f64; for i in 0..n { a[i][i] = if i % 2 == 0 { sc } else { -sc }; } }
        "pm_off" => { for i in 0..n { a[i][i] = if i % 2 == 0 { 1.0 } else { -1.0 } * rng.gen_range(1..=3) as f64; if i + 1 < n { let v = small(rng); a[i][i + 1] = v; a[i + 1][i] = v; } } }
        "skew" => { for i in 0..n { for j in i + 1..n { if rng.gen_bool(0.7) { let v = small(rng); a[i][j] = v; a[j][i] = -v; } } if rng.gen_bool(0.3) { a[i][i] = 1.0; } } }
        "perm" => { let mut p: Vec<usize> = (0..n).collect(); if rng.gen_bool(0.5) { p.rotate_left(1); } else { p.shuffle(rng); } for i in 0..n { a[i][p[i]] = if rng.gen_bool(0.5) { 1.0 } else { small(rng) }; } }
        "nilshift" => { for i in 0..n.saturating_sub(1) { a[i][i + 1] = 1.0; } }
        "shift_plus" => { let d = [0.0, 1.0, 2.0, -1.0][rng.gen_range(0..4)]; for i in 0..n { a[i][i] = d; a[i][(i + 1) % n] += if rng.gen_bool(0.5) { 1.0 } else { -1.0 }; } }
        "singblock" => { for i in 0..n { a[i][i] = diag(rng); } let i = rng.gen_range(0..n); let j = (i + 1) % n; let v = small(rng); a[i][i] = v; a[i][j] = v; a[j][i] = v; a[j][j] = v; }
        "arrow_lower" => { for i in 0..n { a[i][i] = diag(rng); a[i][0] = if i == 0 { a[0][0] } else { small(rng) }; } }
        other => { eprintln!("TOOL-ERROR unknown structured shape {}", other); std::process::exit(2) }
    }
    if rng.gen_bool(0.3) { let e = 2f64.powi(rng.gen_range(-6..=6)); for r in a.iter_mut() { for v in r.iter_mut() { *v *= e; } } }
    let mut trip = trip_of(&a); order_triplets(rng, &mut trip);
    let (rk, rk2) = (getu(case, "rk") % n, getu(case, "rk2") % n);
    let unit = |k: usize| -> Vec<f64> { (0..n).map(|i| if i == k { 1.0 } else { 0.0 }).collect() };
    let b: Vec<f64> = match gets(case, "rhs") {
        "ek" => unit(rk),
        "e2" => { let mut v = unit(rk); v[rk2] += if rk2 == rk { 0.0 } else { 1.0 }; v }
        "ones" => vec![1.0; n],
        _ => matvec_dense(&a, &unit(rk)),
    };
    let x0: Vec<f64> = if gets(case, "guess") == "zero" { vec![0.0; n] } else { (0..n).map(|_| rng.gen_range(-2..=2) as f64).collect() };
    Sys { n, trip, b, x0, kap: 0.0, ainv: 0.0, xref: None }
}

/// Systems with known eigenvectors for the "one-step collapse" class (C08 implication only): a step of the iteration can
/// shrink the residual by many orders of magnitude at once when the current residual is (almost) an eigenvector.
/// Fields: es (shape), n, seed, bm (right-hand-side mode), de (delta = 10^-de), guess ("zero" | "small").
///   shapes: diag, sym (Householder Q D Q^T), tri2 / gen2 (2x2 nonsymmetric, real eigenvalues), tri (3..4 triangular),
///           blocks (block diagonal of nonsymmetric 2x2 blocks; b lives in one block)
///   bm: "sum"  b = v_i + delta v_j;  "sum3"  b = v_i + v_j + delta v_k;
///       "perp" b = (part of v_j orthogonal to v_i) + delta v_i   (then the residual after the first half step is almost v_i)
pub const EIG_SHAPES: [&str; 6] = ["diag", "sym", "tri2", "gen2", "tri", "blocks"];
fn build_eig(case: &Value) -> Sys {
    let es = gets(case, "es"); let mut n = getu(case, "n");
    let mut rng = rng(geti(case, "seed") as u64, 13); let rng = &mut rng;
    if es == "tri2" || es == "gen2" { n = 2; } else if es == "blocks" { n = 2 * (n / 2).max(1); } else if es == "tri" { n = n.clamp(3, 4); }
    let mut a = vec![vec![0.0f64; n]; n];
    // eigenvector list (columns), filled per shape
    let mut vs: Vec<Vec<f64>> = vec![];
    let unit = |k: usize| -> Vec<f64> { (0..n).map(|i| if i == k { 1.0 } else { 0.0 }).collect() };
    let lam = |rng: &mut StdRng| -> f64 { [1.0, 2.0, 3.0, 5.0, 0.5, 7.0, -2.0, 4.0][rng.gen_range(0..8)] * if rng.gen_bool(0.3) { rng.gen_range(0.5..=1.5) } else { 1.0 } };
    let tri_block = |rng: &mut StdRng, a: &mut Vec<Vec<f64>>, o: usize, vs: &mut Vec<Vec<f64>>, n: usize| {
        // [[l1, c], [0, l2]] or its transpose: eigenvectors e1 and (c, l2 - l1)
        let l1 = [1.0, 2.0, 3.0, 0.5][rng.gen_range(0..4)]; let mut l2 = [2.0, 3.0, 5.0, 4.0][rng.gen_range(0..4)]; if l2 == l1 { l2 += 1.0; }
        let c = [1.0, -1.0, 2.0, 0.5, 3.0][rng.gen_range(0..5)];
        let lower = rng.gen_bool(0.4);
        a[o][o] = l1; a[o + 1][o + 1] = l2; if lower { a[o + 1][o] = c; } else { a[o][o + 1] = c; }
        let mut v1 = vec![0.0; n]; let mut v2 = vec![0.0; n];
        if lower { v1[o + 1] = 1.0; v2[o] = l1 - l2; v2[o + 1] = c; } else { v1[o] = 1.0; v2[o] = c; v2[o + 1] = l2 - l1; }
        vs.push(v1); vs.push(v2);
    };
    match es {
        "diag" => { for i in 0..n { a[i][i] = lam(rng) + i as f64 * 0.25; vs.push(unit(i)); } }
        "sym" => { let u: Vec<f64> = { let v: Vec<f64> = (0..n).map(|_| rng.gen_range(-1.0..=1.0)).collect(); let nr = norm2_dd(&v); v.iter().map(|x| x / nr).collect() };
            let q: Vec<Vec<f64>> = (0..n).map(|i| (0..n).map(|j| (if i == j { 1.0 } else { 0.0 }) - 2.0 * u[i] * u[j]).collect()).collect();
            let d: Vec<f64> = (0..n).map(|i| lam(rng).abs() + i as f64 * 0.25).collect();
            for i in 0..n { for j in 0..n { a[i][j] = (0..n).map(|k| q[i][k] * d[k] * q[j][k]).sum(); } }
            for i in 0..n { for j in 0..i { a[i][j] = a[j][i]; } }
            for k in 0..n { vs.push((0..n).map(|i| q[i][k]).collect()); } }
        "tri2" => { tri_block(rng, &mut a, 0, &mut vs, n); }
        "gen2" => { // V Lambda V^-1 with V = [[1, p], [q, 1]], p q != 1, small integers: exact entries
            let (p, q) = ([1.0, 2.0, -1.0, 0.5][rng.gen_range(0..4)], [0.0, 0.5, -0.5, 0.25][rng.gen_range(0..4)]);
            let det = 1.0 - p * q; let (l1, l2) = ([1.0, 2.0, 3.0][rng.gen_range(0..3)], [4.0, 5.0, 7.0][rng.gen_range(0..3)]);
            a[0][0] = (l1 - l2 * p * q) / det; a[0][1] = (l2 - l1) * p / det; a[1][0] = (l1 - l2) * q / det; a[1][1] = (l2 - l1 * p * q) / det;
            vs.push(vec![1.0, q]); vs.push(vec![p, 1.0]); }
        "tri" => { for i in 0..n { a[i][i] = (i + 1) as f64 * [1.0, 1.5, 2.0][rng.gen_range(0..3)]; for j in i + 1..n { a[i][j] = [1.0, -1.0, 0.5, 2.0][rng.gen_range(0..4)]; } }
            // eigenvector k by back substitution on (A - l_k I) v = 0 with v_k = 1, v_i = 0 for i > k
            for k in 0..n { let mut v = vec![0.0; n]; v[k] = 1.0; for i in (0..k).rev() { let s: f64 = (i + 1..=k).map(|j| a[i][j] * v[j]).sum(); v[i] = s / (a[k][k] - a[i][i]); } vs.push(v); } }
        "blocks" => { for bk in 0..n / 2 { tri_block(rng, &mut a, 2 * bk, &mut vs, n); } }
        other => { eprintln!("TOOL-ERROR unknown eig shape {}", other); std::process::exit(2) }
    }
    if rng.gen_bool(0.3) { let e = 2f64.powi(rng.gen_range(-8..=8)); for r in a.iter_mut() { for v in r.iter_mut() { *v *= e; } } }
    let m = vs.len();
    // eigenvectors i, j from the same 2x2 block where blocks matter; k anywhere
    let i = rng.gen_range(0..m); let j = if es == "blocks" { i ^ 1 } else { (i + 1 + rng.gen_range(0..m - 1)) % m }; let k = rng.gen_range(0..m);
    let delta = 10f64.powi(-(geti(case, "de") as i32)) * [1.0, 3.7, 0.6][rng.gen_range(0..3)];
    let dot = |x: &Vec<f64>, y: &Vec<f64>| -> f64 { x.iter().zip(y).map(|(p, q)| p * q).sum() };
    let mut b: Vec<f64> = match gets(case, "bm") {
        "sum" => (0..n).map(|t| vs[i][t] + delta * vs[j][t]).collect(),
        "sum3" => (0..n).map(|t| vs[i][t] + vs[j][t] + delta * vs[k][t]).collect(),
        _ => { let c = dot(&vs[j], &vs[i]) / dot(&vs[i], &vs[i]); (0..n).map(|t| vs[j][t] - c * vs[i][t] + delta * vs[i][t]).collect() }
    };
    let bs = 10f64.powi(geti(case, "rhs_e") as i32); for v in b.iter_mut() { *v *= bs; }
    let x0: Vec<f64> = if gets(case, "guess") == "zero" { vec![0.0; n] } else { (0..n).map(|_| rng.gen_range(-1.0..=1.0) * delta * bs).collect() };
    let mut trip = trip_of(&a); order_triplets(rng, &mut trip);
    Sys { n, trip, b, x0, kap: 0.0, ainv: 0.0, xref: None }
}

/// Independent decimal scales for the three arguments (C08 implication only): A = 10^ae * A0 (A0 well conditioned, strictly
/// dominant, SPD or nonsymmetric), b = 10^be * random, x0 = 10^xe * random (never zero).  The generator keeps A*x0, b, the
/// solution and the squares of ||b|| and tol*||b|| inside the normal range, so that the unmodified solvers' own norms are exact.
fn build_scales(case: &Value) -> Sys {
    let n = getu(case, "n");
    let mut rng = rng(geti(case, "seed") as u64, 14); let rng = &mut rng;
    let spd = gets(case, "base") == "spd";
    let sa = 10f64.powi(geti(case, "ae") as i32);
    let mut a = vec![vec![0.0f64; n]; n];
    let th = rng.gen_range(0.1..=0.4);
    for i in 0..n { a[i][i] = rng.gen_range(1.0..=4.0); }
    for i in 0..n { for j in i + 1..n { if j == i + 1 || rng.gen_bool(0.2) {
        let v = sgn(rng) * rng.gen_range(0.3..=1.0) * th * a[i][i].min(a[j][j]) / 3.0;
        a[i][j] = v; a[j][i] = if spd { v } else { sgn(rng) * rng.gen_range(0.3..=1.0) * th * a[i][i].min(a[j][j]) / 3.0 }; } } }
    for r in a.iter_mut() { for v in r.iter_mut() { *v *= sa; } }
    let sb = 10f64.powi(geti(case, "be") as i32); let sx = 10f64.powi(geti(case, "xe") as i32);
    let b: Vec<f64> = (0..n).map(|_| sgn(rng) * rng.gen_range(0.2..=1.0) * sb).collect();
    let x0: Vec<f64> = (0..n).map(|_| sgn(rng) * rng.gen_range(0.2..=1.0) * sx).collect();
    let mut trip = trip_of(&a); order_triplets(rng, &mut trip);
    Sys { n, trip, b, x0, kap: 0.0, ainv: 0.0, xref: None }
}

pub fn build(case: &Value) -> Sys {
    let guess = gets(case, "guess").to_string();
    if case.get("A").is_some() {
        // explicit integer system (TLC cases): A = {r, c, d}, b = [ints], optional exact solution xs = [[n,d],..]
        let n = getu(&case["A"], "r"); let d = ivec(&case["A"]["d"]);
        let mut trip = vec![]; for i in 0..n { for j in 0..n { if d[i * n + j] != 0 { trip.push((i, j, d[i * n + j] as f64)); } } }
        let b: Vec<f64> = ivec(&case["b"]).iter().map(|v| *v as f64).collect();
        let xref = case.get("xs").map(|v| v.as_array().unwrap().iter().map(|q| rat_from(q).to_f64()).collect::<Vec<f64>>());
        let (kap, ainv) = cond_bounds(n, &trip, true);
        let x0 = if guess == "exact" { xref.clone().unwrap() } else { vec![0.0; n] };
        return Sys { n, trip, b, x0, kap, ainv, xref };
    }
    let fam = gets(case, "fam").to_string();
    if fam == "struct" { return build_struct(case); }
    if fam == "eig" { return build_eig(case); }
    if fam == "tie" { return build_tie(case); }
    if fam == "scales" { return build_scales(case); }
    let n = getu(case, "n");
    let mut rng = rng(geti(case, "seed") as u64, 7);
    let rng = &mut rng;
    let pat = pattern(rng, n);
    let mut trip: Vec<(usize, usize, f64)> = vec![];
    let mut spd = false; let mut claim = false;
    let mut xint: Option<Vec<f64>> = None;
    let mut xscale = 0.0f64;    // scale of the integer solution (random guesses are drawn on the scale of the solution)
    match fam.as_str() {
        // SPD = D + S, |S| row sums <= theta * d_ii  (kappa <= 12 / kappa <= 1000)
        "spd" | "spd3" => {
            spd = true; claim = true;
            let (ratio, thmax) = if fam == "spd" { (4.0f64, 0.5) } else { (250.0f64, 0.6) };
            let mut d: Vec<f64> = (0..n).map(|_| ratio.powf(rng.gen_range(0.0..=1.0))).collect();
            if n >= 2 && rng.gen_bool(0.5) { d[0] = 1.0; d[n - 1] = ratio; }
            let th = rng.gen_range(0.05..=thmax);
            let mut deg = vec![0usize; n]; for &(i, j) in &pat { deg[i] += 1; deg[j] += 1; }
            let sc = if rng.gen_bool(0.5) { 1.0 } else { pow10(rng, -3.0, 3.0) };
            for i in 0..n { trip.push((i, i, d[i] * sc)); }
            for &(i, j) in &pat { let v = sgn(rng) * rng.gen_range(0.2..=1.0) * th * (d[i] / deg[i] as f64).min(d[j] / deg[j] as f64) * sc; trip.push((i, j, v)); trip.push((j, i, v)); }
        }
        // strictly row diagonally dominant, nonsymmetric, dominance ratio <= 0.4, diagonal of either sign
        "dd" => {
            claim = true;
            let q = unsym(rng, &pat, 0.7);
            let mixed = rng.gen_bool(0.5);
            let d: Vec<f64> = (0..n).map(|_| rng.gen_range(1.0..=10.0) * if mixed { sgn(rng) } else { 1.0 }).collect();
            let th = rng.gen_range(0.05..=0.4);
            let mut deg = vec![0usize; n]; for &(i, _) in &q { deg[i] += 1; }
            let sc = if rng.gen_bool(0.5) { 1.0 } else { pow10(rng, -3.0, 3.0) };
            for i in 0..n { trip.push((i, i, d[i] * sc)); }
            for &(i, j) in &q { trip.push((i, j, sgn(rng) * rng.gen_range(0.2..=1.0) * th * d[i].abs() / deg[i] as f64 * sc)); }
        }
        // nonsymmetric (mostly) strictly dominant matrices whose row sums equal their column sums, or whose pattern is symmetric
        // while the values are not: circulants, D + constant-weight cyclic shifts, D + weighted permutations, skew part + dominant
        // diagonal, symmetric-pattern / nonsymmetric-values; one symmetric (SPD) circulant sub-family for CG
        "rcs" => {
            claim = true;
            let mut a = vec![vec![0.0f64; n]; n];
            let th = rng.gen_range(0.05..=0.4);
            let sub = if n < 3 { 3 } else { geti(case, "sub") % 7 };
            let mixed = sub != 6 && rng.gen_bool(0.3);
            let dconst = rng.gen_range(1.0..=10.0);
            let d: Vec<f64> = (0..n).map(|_| (if matches!(sub, 0 | 5 | 6) { dconst } else { rng.gen_range(1.0..=10.0) }) * if mixed && !matches!(sub, 0 | 5) { sgn(rng) } else { 1.0 }).collect();
            let dmin = d.iter().fold(f64::INFINITY, |m, v| m.min(v.abs()));
            let nw = rng.gen_range(1..=3usize);
            let fr: Vec<f64> = { let v: Vec<f64> = (0..nw).map(|_| rng.gen_range(0.2..=1.0)).collect(); let t: f64 = v.iter().sum(); v.iter().map(|x| x / t).collect() };
            let mut deg = vec![0usize; n]; for &(i, j) in &pat { deg[i] += 1; deg[j] += 1; }
            match sub {
                0 | 1 => { for t in 0..nw { let sh = rng.gen_range(1..n); let w = sgn(rng) * fr[t] * th * dmin; for i in 0..n { a[i][(i + sh) % n] += w; } } }
                2 => { for t in 0..nw { let mut p: Vec<usize> = (0..n).collect(); p.shuffle(rng); let w = sgn(rng) * fr[t] * th * dmin; for i in 0..n { if p[i] != i { a[i][p[i]] += w; } } } }
                3 => { for &(i, j) in &pat { a[i][j] = sgn(rng) * rng.gen_range(0.2..=1.0) * th * d[i].abs() / deg[i] as f64; a[j][i] = sgn(rng) * rng.gen_range(0.2..=1.0) * th * d[j].abs() / deg[j] as f64; } }
                4 => { for &(i, j) in &pat { let v = sgn(rng) * rng.gen_range(0.2..=1.0) * th * (d[i].abs() / deg[i] as f64).min(d[j].abs() / deg[j] as f64); a[i][j] = v; a[j][i] = -v; } }
                5 => { for t in 0..nw { let sh = rng.gen_range(1..n); let w = sgn(rng) * fr[t] * th * dmin / 2.0; for i in 0..n { a[i][(i + sh) % n] += w; a[(i + sh) % n][i] -= w; } } }
                _ => { for t in 0..nw { let sh = rng.gen_range(1..n); let w = sgn(rng) * fr[t] * th * dmin / 2.0; for i in 0..n { a[i][(i + sh) % n] += w; a[(i + sh) % n][i] += w; } } }
            }
            // a permutation with a fixed point (sub 2) was skipped there, so the row/column sums of the off-diagonal part stay equal only
            // up to those entries; the diagonal carries the rest
            let sc = if rng.gen_bool(0.5) { 1.0 } else { pow10(rng, -3.0, 3.0) };
            for i in 0..n { a[i][i] += d[i]; for j in 0..n { a[i][j] *= sc; } }
            if sub == 6 { for i in 0..n { for j in 0..i { a[i][j] = a[j][i]; } } }     // exactly symmetric (the sums above may differ by an ulp)
            spd = (0..n).all(|i| a[i][i] > 0.0 && (0..n).all(|j| a[i][j] == a[j][i]));
            trip = trip_of(&a);
        }
        // strongly non-normal, strictly dominant upwind stencils: tridiag(-a, d, -c) with a/c = ra, d = a + c + margin
        // ("tri"), the same plus second off-diagonals -a/4, -c/4 ("penta"), and the 5-point upwind convection-diffusion stencil on an
        // nx x ny grid (west -(1+p), east -1, south -(1+q), north -1, diagonal 4 + p + q + margin; p = ra - 1, q = rb - 1) ("grid")
        "upw" => {
            claim = true;
            let mg = geti(case, "mg10") as f64 / 10.0;
            let ra = geti(case, "ra") as f64;
            let mut a = vec![vec![0.0f64; n]; n];
            match gets(case, "shape") {
                "tri" => { let c = 1.0; let lo = ra * c; for i in 0..n { a[i][i] = lo + c + mg; if i > 0 { a[i][i - 1] = -lo; } if i + 1 < n { a[i][i + 1] = -c; } } }
                "penta" => { let c = 1.0; let lo = ra * c; for i in 0..n { a[i][i] = 1.25 * (lo + c) + mg; if i > 0 { a[i][i - 1] = -lo; } if i + 1 < n { a[i][i + 1] = -c; } if i > 1 { a[i][i - 2] = -lo / 4.0; } if i + 2 < n { a[i][i + 2] = -c / 4.0; } } }
                "grid" => { let nx = getu(case, "nx"); let ny = n / nx; let p = ra - 1.0; let q = geti(case, "rb") as f64 - 1.0;
                    for iy in 0..ny { for ix in 0..nx { let r = iy * nx + ix; a[r][r] = 4.0 + p + q + mg;
                        if ix > 0 { a[r][r - 1] = -(1.0 + p); } if ix + 1 < nx { a[r][r + 1] = -1.0; }
                        if iy > 0 { a[r][r - nx] = -(1.0 + q); } if iy + 1 < ny { a[r][r + nx] = -1.0; } } } }
                other => { eprintln!("TOOL-ERROR unknown upwind shape {}", other); std::process::exit(2) }
            }
            if geti(case, "flip") == 1 { let old = a.clone(); for i in 0..n { for j in 0..n { a[i][j] = old[j][i]; } } }     // downwind-ordered twin (transpose)
            let sc = if rng.gen_bool(0.5) { 1.0 } else { pow10(rng, -3.0, 3.0) };
            for r in a.iter_mut() { for v in r.iter_mut() { *v *= sc; } }
            trip = trip_of(&a);
        }
        // integer-valued (times a power of two) dominant systems with an integer solution: A x* = b holds exactly in f64
        "spdi" | "ddi" => {
            claim = true; spd = fam == "spdi";
            let q: Vec<(usize, usize)> = if spd { pat.iter().flat_map(|&(i, j)| [(i, j), (j, i)]).collect() } else { unsym(rng, &pat, 0.7) };
            let mut off: Vec<(usize, usize, f64)> = vec![];
            if spd { for &(i, j) in &pat { let v = sgn(rng) * rng.gen_range(1..=2) as f64; off.push((i, j, v)); off.push((j, i, v)); } }
            else { for &(i, j) in &q { off.push((i, j, sgn(rng) * rng.gen_range(1..=2) as f64)); } }
            let mut rs = vec![0.0; n]; for &(i, _, v) in &off { rs[i] += v.abs(); }
            let e = 2f64.powi(rng.gen_range(-10..=10));
            let mixed = !spd && rng.gen_bool(0.5);
            for i in 0..n { let dv = 2.0 * rs[i] + rng.gen_range(1..=4) as f64; trip.push((i, i, dv * e * if mixed { sgn(rng) } else { 1.0 })); }
            for &(i, j, v) in &off { trip.push((i, j, v * e)); }
            let f = 2f64.powi(rng.gen_range(-10..=10));
            xscale = 9.0 * f;
            xint = Some((0..n).map(|_| rng.gen_range(-9..=9) as f64 * f).collect());
        }
        // ---- families for the C08 implication only ----
        "indef" => {   // symmetric, diagonal of both signs, not dominant
            let th = rng.gen_range(0.5..=3.0);
            for i in 0..n { trip.push((i, i, sgn(rng) * rng.gen_range(1.0..=4.0))); }
            let mut deg = vec![0usize; n]; for &(i, j) in &pat { deg[i] += 1; deg[j] += 1; }
            for &(i, j) in &pat { let v = sgn(rng) * rng.gen_range(0.2..=1.0) * th / (deg[i].min(deg[j]) as f64).sqrt(); trip.push((i, j, v)); trip.push((j, i, v)); }
        }
        "nonsym" => {  // general sparse, no dominance
            for i in 0..n { trip.push((i, i, rng.gen_range(-1.0..=1.0))); }
            for &(i, j) in &unsym(rng, &pat, 0.8) { trip.push((i, j, rng.gen_range(-1.0..=1.0))); }
        }
        "ill" => {
            match rng.gen_range(0..3) {
                0 => { // graded SPD, kappa about 10^g
                    let g = rng.gen_range(4.0..=12.0);
                    let d: Vec<f64> = (0..n).map(|i| 10f64.powf(-g * i as f64 / (n.max(2) - 1) as f64)).collect();
                    let mut deg = vec![0usize; n]; for &(i, j) in &pat { deg[i] += 1; deg[j] += 1; }
                    for i in 0..n { trip.push((i, i, d[i])); }
                    for &(i, j) in &pat { let v = sgn(rng) * 0.3 * (d[i] / deg[i] as f64).min(d[j] / deg[j] as f64); trip.push((i, j, v)); trip.push((j, i, v)); }
                }
                1 => { for i in 0..n { for j in 0..n { trip.push((i, j, 1.0 / (i + j + 1) as f64)); } } }   // Hilbert
                _ => { // dominant matrix with graded column scaling (nonsymmetric, ill-conditioned)
                    let g = rng.gen_range(4.0..=12.0);
                    let cs: Vec<f64> = (0..n).map(|j| 10f64.powf(-g * j as f64 / (n.max(2) - 1) as f64)).collect();
                    let q = unsym(rng, &pat, 0.7);
                    let mut deg = vec![0usize; n]; for &(i, _) in &q { deg[i] += 1; }
                    for i in 0..n { trip.push((i, i, rng.gen_range(1.0..=4.0) * cs[i])); }
                    for &(i, j) in &q { trip.push((i, j, sgn(rng) * 0.4 / deg[i] as f64 * cs[j])); }
                }
            }
        }
        "sing" => {   // exactly singular, integer entries
            let mut a = vec![vec![0.0f64; n]; n];
            match rng.gen_range(0..4) {
                0 => { // graph Laplacian (positive semidefinite, null space = constants)
                    for &(i, j) in &pat { let w = rng.gen_range(1..=3) as f64; a[i][j] -= w; a[j][i] -= w; a[i][i] += w; a[j][j] += w; } }
                v => {
                    for i in 0..n { a[i][i] = rng.gen_range(3..=9) as f64 * if rng.gen_bool(0.3) { -1.0 } else { 1.0 }; }
                    for &(i, j) in &unsym(rng, &pat, 0.7) { a[i][j] = sgn(rng) * rng.gen_range(1..=2) as f64; }
                    let i = rng.gen_range(0..n); let j = if n > 1 { (i + 1 + rng.gen_range(0..n - 1)) % n } else { i };
                    if v == 1 || n == 1 { for c in 0..n { a[i][c] = 0.0; } }                       // zero row
                    else if v == 2 { for c in 0..n { a[j][c] = a[i][c]; } }                         // duplicate row
                    else { for r in 0..n { a[r][j] = a[r][i]; } }                                   // duplicate column
                }
            }
            for i in 0..n { for j in 0..n { if a[i][j] != 0.0 { trip.push((i, j, a[i][j])); } } }
        }
        other => { eprintln!("TOOL-ERROR unknown family {}", other); std::process::exit(2) }
    }
    order_triplets(rng, &mut trip);
    let (kap, ainv) = if claim { cond_bounds(n, &trip, spd) } else { (0.0, 0.0) };
    let tmp = Sys { n, trip, b: vec![], x0: vec![], kap, ainv, xref: None };
    let a = dense_of(&tmp);
    // right-hand side: zero, or A x* for a solution of the requested scale, or random of the requested scale
    let rhs = gets(case, "rhs");
    let scale = 10f64.powi(geti(case, "rhs_e") as i32);
    let xstar: Vec<f64> = match &xint { Some(x) => x.clone(), None => (0..n).map(|_| rng.gen_range(-1.0..=1.0) * scale).collect() };
    let b: Vec<f64> = match rhs { "zero" => vec![0.0; n], "rand" if xint.is_none() => (0..n).map(|_| rng.gen_range(-1.0..=1.0) * scale).collect(),
        "ones" if xint.is_none() => vec![scale; n],
        "sin" if xint.is_none() => (0..n).map(|k| ((k + 1) as f64 * std::f64::consts::PI / (n + 1) as f64).sin() * scale).collect(),
        "e1" if xint.is_none() => (0..n).map(|k| if k == 0 { scale } else { 0.0 }).collect(), _ => matvec_dense(&a, &xstar) };
    // random guesses are drawn on the scale of the solution: ||b||_inf over the geometric mean of |a_ii| for a random
    // right-hand side, the scale of x* otherwise
    let xs = if xint.is_some() { xscale } else if matches!(rhs, "rand" | "ones" | "sin" | "e1") {
        let dg: Vec<f64> = (0..n).map(|i| a[i][i].abs()).filter(|v| *v > 0.0).collect();
        let gm = if dg.is_empty() { 1.0 } else { (dg.iter().map(|v| v.ln()).sum::<f64>() / dg.len() as f64).exp() };
        b.iter().fold(0.0f64, |m, v| m.max(v.abs())) / gm
    } else { scale };
    let x0: Vec<f64> = match guess.as_str() {
        "zero" => vec![0.0; n],
        "exact" => if rhs == "zero" { vec![0.0; n] } else { xstar.clone() },
        // a guess at distance 10^gd (in units of the solution's scale) from the solution
        "far" => { let g = xs * 10f64.powi(geti(case, "gd") as i32); (0..n).map(|_| sgn(rng) * rng.gen_range(0.3..=1.0) * g).collect() }
        // zero right-hand side: the solver's test is absolute (||r|| <= tol), so the guess is scaled to give ||r0|| of order <= 1
        _ => { let g = if rhs == "zero" { pow10(rng, -3.0, 0.0) / a.iter().flatten().fold(f64::MIN_POSITIVE, |m, v| m.max(v.abs())) / (n as f64).sqrt() } else { xs };
               (0..n).map(|_| rng.gen_range(-1.0..=1.0) * g).collect() }
    };
    Sys { b, x0, ..tmp }
}

/// non-normality index of an upwind case: n * log10(a/c) / 2 (0 for every other family)
fn upw_index(case: &Value) -> f64 {
    if gets(case, "fam") != "upw" || gets(case, "shape") == "grid" { return 0.0; }
    geti(case, "n") as f64 * (geti(case, "ra") as f64).log10() / 2.0
}
/// neighbouring f64 (o = +1 / -1) of a positive finite value
fn ulp_step(x: f64, o: i64) -> f64 { if o == 0 || !(x > 0.0) || !x.is_finite() { x } else { f64::from_bits((x.to_bits() as i64 + o) as u64) } }
/// tolerance of a case: {m, e} = m * 10^-e;  {p2: k, ulp: o} = 2^-k moved by o units in the last place;  {bits: "hex"} = that f64
fn tol_of(case: &Value) -> f64 {
    let t = &case["tol"];
    if let Some(h) = t.get("bits").and_then(|v| v.as_str()) { return f64::from_bits(u64::from_str_radix(h, 16).unwrap_or(0)); }
    if t.get("p2").is_some() { return ulp_step(2f64.powi(-(geti(t, "p2") as i32)), t.get("ulp").and_then(|v| v.as_i64()).unwrap_or(0)); }
    geti(t, "m") as f64 / 10f64.powi(geti(t, "e") as i32)
}
/// iteration budget of a case: an integer, or one of the extreme legal values "umax", "umax1", "u32max", "i64max"
fn budget_of(case: &Value) -> usize {
    match case["budget"].as_str() { Some("umax") => usize::MAX, Some("umax1") => usize::MAX - 1, Some("u32max") => u32::MAX as usize, Some("i64max") => i64::MAX as usize,
        Some(o) => { eprintln!("TOOL-ERROR unknown budget {}", o); std::process::exit(2) } None => getu(case, "budget") }
}
fn tol_exp(case: &Value) -> i64 { match case["tol"].get("e").and_then(|v| v.as_i64()) { Some(e) => e, None => { let t = tol_of(case); if t > 0.0 && t.is_finite() { (-t.log10()).floor() as i64 } else { 0 } } } }

// ------------------------------------------------------------------ exec
fn base_event(case: &Value, op: &str, s: &Sys) -> Value {
    json!({"op": op, "cid": geti(case, "cid"), "kind": gets(case, "kind"), "itol": geti(case, "itol"), "n": s.n,
           "fam": if case.get("A").is_some() { "tlc2x2" } else { gets(case, "fam") }, "guess": gets(case, "guess"), "tole": tol_exp(case)})
}

fn exec_c08(case: &Value, s: &Sys, run: Runner, out: &mut Out) {
    let tol = tol_of(case); let budget = budget_of(case);
    let a = dense_of(s);
    let mut x = s.x0.clone();
    let r = run(&mut x, budget);
    let fin = all_finite(&x);
    let mut e = base_event(case, "solve", s);
    e["budget"] = json!(budget.min(SAT as usize)); e["budget_s"] = json!(case["budget"].as_str().unwrap_or("int")); e["panic"] = json!(r.panic); e["ok"] = json!(r.ok); e["k"] = json!(r.k);
    e["x_finite"] = json!(fin); e["xh"] = json!(xhash(&x));
    if budget == 0 { e["xb_pre"] = jbits(&s.x0); e["xb_post"] = jbits(&x); }
    // hook-free observation of the iterates: budgets 1..k from the same guess
    let mut maxx = norm2_dd(&s.x0).max(if fin { norm2_dd(&x) } else { 0.0 });
    let mut pe: Option<Value> = None;
    if r.ok && r.k >= 1 {
        let kk = (r.k as usize).min(1200);
        let mut oks = vec![]; let mut ks = vec![]; let mut xhk = String::new();
        for j in 1..=kk {
            let mut xj = s.x0.clone();
            let rj = run(&mut xj, j);
            oks.push(rj.ok); ks.push(rj.k);
            if all_finite(&xj) { maxx = maxx.max(norm2_dd(&xj)); } else { maxx = f64::INFINITY; }
            if j == kk { xhk = xhash(&xj); }
        }
        let mut p = base_event(case, "prefix", s);
        p["k"] = json!(r.k); p["oks"] = json!(oks); p["ks"] = json!(ks); p["xh_k"] = json!(xhk); p["xh"] = json!(xhash(&x));
        pe = Some(p);
    }
    let nb0 = norm2_dd(&s.b); let nb = if nb0 == 0.0 { 1.0 } else { nb0 };
    let p = max_row_nnz(&a) as f64;
    let res = if fin { true_res(&a, &s.b, &x) } else { f64::INFINITY };
    let drift = 8.0 * (p + 10.0) * (r.k.max(1) as f64) * EPS * (frob(&a) * maxx + nb0) / nb;
    e["res_units"] = json!(if r.ok { units((res / nb - tol).max(0.0), drift) } else { 0 });
    // informative only (never compared): how far the true residual is from the tolerance, in 1/1000
    e["res_permille"] = json!(if r.ok && fin { units(res / nb, tol / 1000.0) } else { 0 });
    out.ev(e);
    if let Some(p) = pe { out.ev(p); }
}

fn exec_c09(case: &Value, s: &Sys, run: Runner, out: &mut Out) {
    let kind = gets(case, "kind"); let tol = tol_of(case); let budget = budget_of(case);
    let a = dense_of(s);
    let n = s.n;
    let mut x = s.x0.clone();
    let r = run(&mut x, budget);
    let fin = all_finite(&x);
    let bzero = s.b.iter().all(|v| *v == 0.0); let gzero = s.x0.iter().all(|v| *v == 0.0);
    if gets(case, "guess") == "exact" && !bzero {
        let mut e = base_event(case, "exact", s);
        e["panic"] = json!(r.panic); e["ok"] = json!(r.ok); e["k"] = json!(r.k); e["xb_pre"] = jbits(&s.x0); e["xb_post"] = jbits(&x);
        // the premise, measured independently: the guess solves the system (true residual exactly zero)
        e["res0_zero"] = json!(true_res(&a, &s.b, &s.x0) == 0.0);
        out.ev(e); return;
    }
    if bzero && gzero {
        let mut e = base_event(case, "zero", s);
        e["panic"] = json!(r.panic); e["ok"] = json!(r.ok); e["k"] = json!(r.k); e["x_finite"] = json!(fin); e["xb_post"] = jbits(&x);
        out.ev(e); return;
    }
    // general convergence event
    let nb0 = norm2_dd(&s.b); let nb = if nb0 == 0.0 { 1.0 } else { nb0 };
    let r0 = true_res(&a, &s.b, &s.x0);
    let ratio = (r0 / nb).max(1.0);
    let sk = s.kap.sqrt();
    let cgb = (1.5 * (sk / 2.0) * (2.0 * sk * ratio / tol).ln()).ceil() + 5.0;
    // reference solution: TLC's exact rational one if the case carries it, else the dense direct solver
    let xd: Vec<f64> = match &s.xref { Some(v) => v.clone(), None => {
        let mut m = Matrix::<f64>::new(n, n, 0.0); for i in 0..n { for j in 0..n { m[(i, j)] = a[i][j]; } }
        match guarded(|| m.solve_basic(&Vector::create(s.b.clone()))) { Ok(v) => v.vec.clone(), Err(_) => vec![f64::NAN; n] } } };
    let diff: Vec<f64> = (0..n).map(|i| x[i] - xd[i]).collect();
    let nxd = norm2_dd(&xd);
    let agree = if !fin { SAT } else if bzero { units(norm2_dd(&x), 4.0 * s.ainv * tol + f64::MIN_POSITIVE) }
                else { units(norm2_dd(&diff) / nxd, 4.0 * s.kap * tol + 64.0 * n as f64 * s.kap * EPS) };
    let mut e = base_event(case, "conv", s);
    e["budget"] = json!(budget.min(SAT as usize)); e["budget_s"] = json!(case["budget"].as_str().unwrap_or("int")); e["panic"] = json!(r.panic); e["ok"] = json!(r.ok); e["k"] = json!(r.k); e["x_finite"] = json!(fin);
    e["cgb"] = json!(if cgb.is_finite() && cgb < SAT as f64 { cgb as i64 } else { SAT });
    e["kap"] = json!(units(s.kap, 1.0)); e["agree_units"] = json!(agree);
    e["claimed"] = json!(s.kap > 0.0);
    // parameter window of the known finding "two-sided Lanczos solvers on strongly non-normal upwind stencils": tridiag(-a, d, -c)
    // with (a/c)^(n/2) >= 10^14.2 (the similarity that symmetrises the stencil has condition number (a/c)^((n-1)/2) ~ 1/eps)
    e["harsh"] = json!(upw_index(case) >= 14.2 && gets(case, "shape") == "tri");
    // classifies one failure mode for known_findings.json: not Ok although the iteration stagnated with a true relative
    // residual within 100 x of a tolerance <= 5e-11 (attainable-accuracy stall), as opposed to divergence / breakdown / slow convergence
    // (on the strongly non-normal family "upw" the stall level is higher: observed 1.6e-10 and 2.0e-10 at tol = 1e-10)
    let tol_near = if gets(case, "fam") == "upw" { 2.0e-10 } else { 5.0e-11 };
    e["near"] = json!(!r.ok && !r.panic && fin && tol <= tol_near && true_res(&a, &s.b, &x) / nb <= 100.0 * tol);
    if gets(case, "fam") == "upw" {      // the parameters of the stencil travel with the event (narrow keys for known findings)
        for f in ["shape", "rhs"] { e[f] = json!(gets(case, f)); }
        for f in ["ra", "rb", "mg10", "flip", "rhs_e"] { e[f] = json!(geti(case, f)); }
    }
    out.ev(e);
    // budget ladder (metamorphic, no a-priori count): the generous run answered Ok(k); the iteration is deterministic and the budget
    // only truncates it, so budget k and k+1 must answer Ok(k) with the bit-identical x, and budget k-1 must answer Err
    if r.ok && !r.panic {
        let k = r.k.max(0) as usize;
        let mut l = base_event(case, "ladder", s);
        l["k"] = json!(r.k); l["xh"] = json!(xhash(&x));
        let mut xa = s.x0.clone(); let ra = run(&mut xa, k);
        let mut xb = s.x0.clone(); let rb = run(&mut xb, k + 1);
        l["ok_k"] = json!(ra.ok); l["k_k"] = json!(ra.k); l["xh_k"] = json!(xhash(&xa));
        l["ok_k1"] = json!(rb.ok); l["k_k1"] = json!(rb.k); l["xh_k1"] = json!(xhash(&xb));
        let below = if k >= 1 { let mut xc = s.x0.clone(); run(&mut xc, k - 1).ok } else { false };
        l["ok_km1"] = json!(below);
        out.ev(l);
    }
    // conformance notes (not guards): the exact iterates of TLC's rational CG against the real CG / BiCG iterates
    if let (Some(it), true) = (case.get("iters"), matches!(kind, "cg" | "bicg")) {
        let its = it.as_array().unwrap();
        for (j, xj_exact) in its.iter().enumerate() {
            let want: Vec<f64> = xj_exact.as_array().unwrap().iter().map(|q| rat_from(q).to_f64()).collect();
            let mut xj = s.x0.clone();
            let _ = run(&mut xj, j + 1);
            let d: Vec<f64> = (0..n).map(|i| xj[i] - want[i]).collect();
            let mut ie = base_event(case, "iter", s);
            ie["j"] = json!(j + 1); ie["kx"] = json!(its.len());
            ie["iter_units"] = json!(if all_finite(&xj) { units(norm2_dd(&d), 1e-12 * norm2_dd(&want).max(1.0)) } else { SAT });
            out.ev(ie);
        }
    }
}

// ------------------------------------------------------------------ ties with the user-supplied tolerance
/// (a) dyadic construction: A = 2^sa * blockdiag over m blocks of diag(1 - e, 1 + e) (order per block from the seed), b = 2^sb * (+-1, .., +-1),
/// x0 = 0, e = 2^-ek: alpha = 2^-sa exactly, the first residual is 2^sb * (+-e, -+e, ..) exactly and its norm relative to |b| is e bit for bit
/// (BiCGSTAB: the half-step residual; CG / BiCG: the end-of-iteration residual).  The case sets tol = e or one of its two neighbours.
fn build_tie(case: &Value) -> Sys {
    let m = getu(case, "m").max(1); let n = 2 * m;
    let mut rng = rng(geti(case, "seed") as u64, 16); let rng = &mut rng;
    let e = 2f64.powi(-(geti(case, "ek") as i32)); let sa = 2f64.powi(geti(case, "sa") as i32); let sb = 2f64.powi(geti(case, "sb") as i32);
    let mut trip = vec![]; let mut b = vec![0.0; n];
    for k in 0..m { let flip = rng.gen_bool(0.5); let (d0, d1) = if flip { (1.0 + e, 1.0 - e) } else { (1.0 - e, 1.0 + e) };
        trip.push((2 * k, 2 * k, d0 * sa)); trip.push((2 * k + 1, 2 * k + 1, d1 * sa)); b[2 * k] = sgn(rng) * sb; b[2 * k + 1] = sgn(rng) * sb; }
    order_triplets(rng, &mut trip);
    Sys { n, trip, b, x0: vec![0.0; n], kap: 0.0, ainv: 0.0, xref: None }
}
/// half-step residuals |s|/|b| of the first iterations of BiCGSTAB, recomputed through the public API (multiply, dot, norm_2, vector
/// arithmetic) with the operation order of solve_bicgstab, so that the values are bit-identical to the solver's internal ones
fn bicgstab_half_steps(s: &Sys, kmax: usize) -> Vec<f64> {
    let mut trip = s.trip.clone(); let n = s.n;
    let r = guarded(|| {
        let a = Sparse::<f64>::from_triplets(n, n, &mut trip);
        let b = Vector::create(s.b.clone()); let x = Vector::create(s.x0.clone());
        let mut out = vec![];
        let mut normb = b.norm_2();
        let mut r = b.clone() - a.multiply(&x);
        let rtilde = r.clone();
        if normb == 0.0 { normb = 1.0; }
        let mut p = Vector::new(n, 0.0); let mut v = Vector::new(n, 0.0);
        let (mut rho_2, mut alpha, mut omega) = (1.0f64, 1.0f64, 1.0f64);
        for i in 1..=kmax {
            let rho_1 = rtilde.dot(&r);
            if rho_1 == 0.0 { break; }
            if i == 1 { p = r.clone(); } else { let beta = (rho_1 / rho_2) * (alpha / omega); p = r.clone() + beta * (p.clone() - omega * v.clone()); }
            let phat = p.clone();
            v = a.multiply(&phat);
            alpha = rho_1 / rtilde.dot(&v);
            let sv = r.clone() - v.clone() * alpha;
            out.push(sv.norm_2() / normb);
            let shat = sv.clone();
            let t = a.multiply(&shat);
            omega = t.dot(&sv) / t.dot(&t);
            r = sv - t * omega;
            rho_2 = rho_1;
            if omega == 0.0 || !omega.is_finite() { break; }
        }
        out
    });
    r.unwrap_or_default()
}
/// (b) feedback ties: Err(resid_k) of a run with budget k and a tiny tolerance is the end-of-iteration residual the code itself
/// computed; (c) BiCGSTAB half-step residuals from the mirror above.  Each such value t within 1e-12..1e-2 (at most three per case)
/// is used as the tolerance, together with its two neighbouring f64, with budgets k-1, k, k+1 and 1000; every call is an ordinary
/// C08 "solve" event (Ok => true residual <= tol + drift, count <= budget).
fn exec_tie(case: &Value, out: &mut Out) {
    let s = build(case);
    let (kind, itol) = (gets(case, "kind").to_string(), getu(case, "itol"));
    let mut rng = rng(geti(case, "seed") as u64, 17); let rng = &mut rng;
    let inr = |t: f64| t.is_finite() && t >= 1e-12 && t <= 1e-2;
    let mut tols: Vec<(f64, usize)> = vec![];
    for k in 1..=8usize { let mut x = s.x0.clone(); let r = call(&s, &kind, itol, &mut x, k, 1e-300); if r.ok || r.panic || !r.err.is_finite() { break; } if inr(r.err) { tols.push((r.err, k)); } }
    let mut halves: Vec<(f64, usize)> = if kind == "bicgstab" { bicgstab_half_steps(&s, 8).into_iter().enumerate().filter(|(_, h)| inr(*h)).map(|(i, h)| (h, i + 1)).collect() } else { vec![] };
    tols.shuffle(rng); halves.shuffle(rng);
    let mut pick: Vec<(f64, usize)> = halves.into_iter().take(2).collect();
    let room = 3 - pick.len(); pick.extend(tols.into_iter().take(room));
    for (t, k) in pick { for o in [0i64, 1, -1] {
        let tv = ulp_step(t, o);
        let budgets: Vec<usize> = if o == 0 { vec![k.saturating_sub(1), k, k + 1, 1000] } else { vec![k, 1000] };
        for budget in budgets {
            let mut sc = case.clone(); sc["mode"] = json!("c08"); sc["tol"] = json!({"bits": bits(tv)}); sc["budget"] = json!(budget);
            let mut run = |x: &mut Vec<f64>, bud: usize| call(&s, &kind, itol, x, bud, tv);
            exec_c08(&sc, &s, &mut run, out);
        }
    } }
}

// ------------------------------------------------------------------ sequences on one Sparse object
/// position of entry (i, j) in the CSC arrays of the live object (read through its public fields)
fn csc_pos(a: &Sparse<f64>, i: usize, j: usize) -> Option<usize> { (a.col_start[j]..a.col_start[j + 1]).find(|&k| a.row_index[k] == i) }
/// CSC arrays of a dense matrix, assembled here (column by column, rows ascending)
fn csc_of(d: &[Vec<f64>]) -> (Vec<f64>, Vec<usize>, Vec<usize>) {
    let n = d.len(); let (mut val, mut ri, mut cs) = (vec![], vec![], vec![0usize]);
    for j in 0..n { for i in 0..n { if d[i][j] != 0.0 { val.push(d[i][j]); ri.push(i); } } cs.push(val.len()); }
    (val, ri, cs)
}
/// one in-place mutation of the live object, mirrored independently on the dense copy; every mutation keeps strict dominance
fn mutate(live: &mut Sparse<f64>, dense: &mut Vec<Vec<f64>>, m0: &str, rng: &mut StdRng) {
    let n = dense.len();
    let symmetric = (0..n).all(|i| (0..n).all(|j| dense[i][j] == dense[j][i]));
    let offs: Vec<(usize, usize)> = (0..n).flat_map(|i| (0..n).map(move |j| (i, j))).filter(|&(i, j)| i != j && dense[i][j] != 0.0).collect();
    let zeros: Vec<(usize, usize)> = (0..n).flat_map(|i| (0..n).map(move |j| (i, j))).filter(|&(i, j)| i != j && dense[i][j] == 0.0 && dense[j][i] == 0.0).collect();
    let mut m = m0;
    if matches!(m, "over_off" | "val_off") && offs.is_empty() { m = if m == "over_off" { "over_diag" } else { "val_diag" }; }
    if m == "new" && zeros.is_empty() { m = "over_diag"; }
    let slack = |a: &Vec<Vec<f64>>, i: usize| -> f64 { a[i][i].abs() - (0..n).filter(|&j| j != i).map(|j| a[i][j].abs()).sum::<f64>() };
    // direct write of one coefficient through the public field `val`
    let poke = |live: &mut Sparse<f64>, i: usize, j: usize, v: f64| { if let Some(k) = csc_pos(live, i, j) { live.val[k] = v; } };
    match m {
        "over_diag" => { let i = rng.gen_range(0..n); let v = dense[i][i] * rng.gen_range(1.5..=3.0); let _ = guarded(|| live.insert(i, i, v)); dense[i][i] = v; }
        "over_off" => { let (i, j) = offs[rng.gen_range(0..offs.len())]; let v = dense[i][j] * rng.gen_range(-0.9..=0.9);
            let _ = guarded(|| live.insert(i, j, v)); dense[i][j] = v;
            if symmetric { let _ = guarded(|| live.insert(j, i, v)); dense[j][i] = v; } }
        "new" => { let (i, j) = zeros[rng.gen_range(0..zeros.len())]; let v = sgn(rng) * rng.gen_range(0.1..=0.4) * slack(dense, i).min(slack(dense, j)).max(0.0);
            let _ = guarded(|| live.insert(i, j, v)); dense[i][j] = v;
            if symmetric { let _ = guarded(|| live.insert(j, i, v)); dense[j][i] = v; } }
        "scale" => { let f = rng.gen_range(0.25..=4.0); let _ = guarded(|| live.scale(&f)); for r in dense.iter_mut() { for v in r.iter_mut() { *v *= f; } } }
        "transpose" => { if let Ok(t) = guarded(|| live.transpose()) { *live = t; } let old = dense.clone(); for i in 0..n { for j in 0..n { dense[i][j] = old[j][i]; } } }
        // ---- writes through the public fields ----
        "val_diag" => { let i = rng.gen_range(0..n); let v = dense[i][i] * rng.gen_range(1.5..=3.0); poke(live, i, i, v); dense[i][i] = v; }
        "val_off" => { let (i, j) = offs[rng.gen_range(0..offs.len())]; let v = dense[i][j] * rng.gen_range(-0.9..=0.9); poke(live, i, j, v); dense[i][j] = v;
            if symmetric { poke(live, j, i, v); dense[j][i] = v; } }
        "val_scale" | "val_flip" => { let f = if m == "val_flip" { -1.0 } else { rng.gen_range(0.25..=4.0) }; for v in live.val.iter_mut() { *v *= f; } for r in dense.iter_mut() { for v in r.iter_mut() { *v *= f; } } }
        // pairs (i,j),(j,i) both present get the smaller magnitude on both sides (symmetric there, dominance kept)
        "val_sym" => { for i in 0..n { for j in i + 1..n { if dense[i][j] != 0.0 && dense[j][i] != 0.0 { let v = if dense[i][j].abs() <= dense[j][i].abs() { dense[i][j] } else { dense[j][i] };
            poke(live, i, j, v); poke(live, j, i, v); dense[i][j] = v; dense[j][i] = v; } } } }
        // the upper triangle is halved: a symmetric matrix becomes nonsymmetric
        "val_nonsym" => { for i in 0..n { for j in i + 1..n { if dense[i][j] != 0.0 { let v = dense[i][j] * 0.5; poke(live, i, j, v); dense[i][j] = v; } } } }
        // consistent rewrite of val, row_index, col_start (and nonzero): the transpose with halved off-diagonal entries
        "rewrite" => { let old = dense.clone(); for i in 0..n { for j in 0..n { dense[i][j] = if i == j { old[i][i] } else { 0.5 * old[j][i] }; } }
            let (val, ri, cs) = csc_of(dense); live.nonzero = val.len(); live.val = val; live.row_index = ri; live.col_start = cs; }
        other => { eprintln!("TOOL-ERROR unknown mutator {}", other); std::process::exit(2) }
    }
}
/// One Sparse object lives through: round 0 (products and/or solves), then per round one in-place mutation
/// (insert overwriting an existing diagonal / off-diagonal entry, insert of a new entry, scale, re-binding to transpose())
/// followed by a solve with every applicable solver.  The dense matrix is tracked here independently from the
/// operations and every solve is judged against the CURRENT dense matrix with the usual C08 / C09 guards.
fn exec_seq(case: &Value, out: &mut Out) {
    let c09 = gets(case, "mode") == "seq09";
    let nobj = if case.get("alt").and_then(|v| v.as_bool()).unwrap_or(false) { 2 } else { 1 };
    // one or two objects of the same size (two: solves alternate between them, mutations hit them in turn)
    let mut objs: Vec<(Sparse<f64>, Vec<Vec<f64>>)> = vec![];
    let mut n = 0;
    for o in 0..nobj {
        let mut c = case.clone(); c["seed"] = json!((geti(case, "seed") + 7919 * o as i64) % (1i64 << 30));
        let s0 = build(&c); n = s0.n;
        let mut trip = s0.trip.clone();
        match guarded(|| Sparse::<f64>::from_triplets(n, n, &mut trip)) { Ok(a) => objs.push((a, dense_of(&s0))), Err(_) => { eprintln!("TOOL-ERROR from_triplets panicked on a generated system"); std::process::exit(2) } }
    }
    let mut rng = rng(geti(case, "seed") as u64, 12); let rng = &mut rng;
    let muts: Vec<String> = case["muts"].as_array().unwrap().iter().map(|m| m.as_str().unwrap().to_string()).collect();
    let warm = gets(case, "warm");
    for round in 0..=muts.len() {
        if round > 0 { let t = (round - 1) % nobj; let (live, dense) = &mut objs[t]; mutate(live, dense, &muts[round - 1], rng); }
        else if warm == "none" { continue; }                    // reverse order: the first solve comes after the first mutation
        else if warm == "mul" {
            for (live, _) in objs.iter() { let v = Vector::create((0..n).map(|_| rng.gen_range(-1.0..=1.0)).collect());
                let _ = guarded(|| { let _ = live.multiply(&v); let _ = live.transpose_multiply(&v); }); }
            continue;
        }
        for oi in 0..nobj {
            let (live, dense) = &objs[(oi + round) % nobj];
            let (kap, ainv, spd) = cond_dense(dense);
            let scale = 10f64.powi(geti(case, "rhs_e") as i32);
            let xstar: Vec<f64> = (0..n).map(|_| rng.gen_range(-1.0..=1.0) * scale).collect();
            let b = matvec_dense(dense, &xstar);
            for (kind, itol) in KINDS {
                if kind == "cg" && !spd { continue; }
                let guess = if rng.gen_bool(0.5) { "zero" } else { "random" };
                let x0: Vec<f64> = if guess == "zero" { vec![0.0; n] } else { (0..n).map(|_| rng.gen_range(-1.0..=1.0) * scale).collect() };
                let cur = Sys { n, trip: trip_of(dense), b: b.clone(), x0, kap, ainv, xref: None };
                let tol = rand_tol(rng, 3, 11);
                let budget = if c09 { 2000 } else { [n, 2 * n, 1000, 1000][rng.gen_range(0..4)] };
                let sc = json!({"cid": geti(case, "cid"), "kind": kind, "itol": itol, "tol": tol, "budget": budget, "guess": guess, "fam": gets(case, "fam"), "mode": gets(case, "mode")});
                let tolf = tol_of(&sc);
                let mut run = |x: &mut Vec<f64>, bud: usize| call_on(live, &b, kind, itol as usize, x, bud, tolf);
                if c09 { exec_c09(&sc, &cur, &mut run, out); } else { exec_c08(&sc, &cur, &mut run, out); }
            }
        }
    }
}

/// KRYLOV_DUMP=1 (budgets 0..12) or KRYLOV_DUMP=b1,b2,..: print the system of each executed case and the raw results
/// for those budgets (debugging aid for replays)
fn dump(case: &Value, s: &Sys) {
    eprintln!("case {}", case);
    for r in dense_of(s) { eprintln!("  A {:?}", r); }
    eprintln!("  b {:?}\n  x0 {:?}\n  kap {:e} ainv {:e}", s.b, s.x0, s.kap, s.ainv);
    let a = dense_of(s);
    let spec = std::env::var("KRYLOV_DUMP").unwrap_or_default();
    let budgets: Vec<usize> = if spec.contains(',') { spec.split(',').filter_map(|t| t.trim().parse().ok()).collect() } else { (0..=12).collect() };
    for j in budgets {
        let mut trip = s.trip.clone(); let mut xv = Vector::create(s.x0.clone()); let bv = Vector::create(s.b.clone());
        let (kind, itol, tol) = (gets(case, "kind"), getu(case, "itol"), tol_of(case));
        let r = guarded(|| { let m = Sparse::<f64>::from_triplets(s.n, s.n, &mut trip); match kind { "cg" => m.solve_cg(&bv, &mut xv, j, tol), "bicg" => m.solve_bicg(&bv, &mut xv, j, tol, itol), "bicgstab" => m.solve_bicgstab(&bv, &mut xv, j, tol), _ => m.solve_qmr(&bv, &mut xv, j, tol) } });
        eprintln!("  budget {} -> {:?}  true res {:e}  x {:?}", j, r, true_res(&a, &s.b, &xv.vec), xv.vec);
    }
}

pub fn exec(case: &Value, out: &mut Out) {
    if gets(case, "mode").starts_with("seq") { return exec_seq(case, out); }
    if gets(case, "mode") == "tie08" { return exec_tie(case, out); }
    let s = build(case);
    if std::env::var("KRYLOV_DUMP").is_ok() { dump(case, &s); }
    let (kind, itol, tol) = (gets(case, "kind").to_string(), getu(case, "itol"), tol_of(case));
    let mut run = |x: &mut Vec<f64>, budget: usize| call(&s, &kind, itol, x, budget, tol);
    match gets(case, "mode") {
        "c08" => exec_c08(case, &s, &mut run, out),
        "c09" => exec_c09(case, &s, &mut run, out),
        "seq08" | "seq09" => exec_seq(case, out),
        m => { eprintln!("TOOL-ERROR unknown krylov mode {}", m); std::process::exit(2) }
    }
}

// ------------------------------------------------------------------ case generation
const KINDS: [(&str, i64); 5] = [("cg", 1), ("bicg", 1), ("bicg", 2), ("bicgstab", 1), ("qmr", 1)];

fn rand_tol(rng: &mut StdRng, emin: i64, emax: i64) -> Value {
    // m * 10^-e within [1e-emax, 1e-emin]
    let e = rng.gen_range(emin..=emax); let m = if e == emin { 1 } else { [1, 2, 5][rng.gen_range(0..3)] };
    json!({"m": m, "e": e})
}

/// right-hand-side scale 10^e: mostly 1e-8..1e8, one case in six at an extreme scale ("right-hand sides of any scale";
/// the stopping tests are relative, so a solver must behave identically at 1e-30 and at 1e30)
fn rhs_exp(rng: &mut StdRng) -> i64 { if rng.gen_range(0..6) == 0 { [-30i64, -24, -18, -16, -12, 12, 16, 20, 30][rng.gen_range(0..9)] } else { rng.gen_range(-8..=8) } }

fn gen_c08(quick: bool, rng: &mut StdRng, push: &mut dyn FnMut(Value)) {
    let fams = ["spd", "dd", "indef", "nonsym", "ill", "sing", "spd3", "spdi", "ddi"];
    let ncases = if quick { 4500 } else { 45000 };
    for i in 0..ncases {
        let fam = fams[i % fams.len()];
        let (kind, itol) = KINDS[(i / fams.len()) % 5];
        // every order 1..60 comes round for every (family, solver); small orders get extra weight
        let n = if i % 3 == 2 { rng.gen_range(1..=8usize) } else { 1 + (i / (fams.len() * 5)) % 60 };
        let n = if fam == "ill" && rng.gen_bool(0.3) { n.min(12) } else { n };
        let budget = match rng.gen_range(0..8) { 0 => 0, 1 => 1, 2 => 2, 3 | 4 => n, 5 | 6 => 2 * n, _ => 1000 };
        let rhs = match rng.gen_range(0..8) { 0 => "zero", 1 | 2 | 3 => "rand", _ => "ax" };
        let guess = ["zero", "random", "exact"][rng.gen_range(0..3)];
        push(json!({"mode": "c08", "fam": fam, "n": n, "seed": rng.gen_range(0..1i64 << 30), "kind": kind, "itol": itol, "budget": budget,
                    "tol": rand_tol(rng, 2, 12), "rhs": rhs, "rhs_e": rhs_exp(rng), "guess": guess}));
    }
}

/// structured breakdown-prone systems: every shape x orders 2..5 (+ one larger) x right-hand sides e_k (every k), e_i + e_j, ones,
/// A e_k x every solver variant; budgets >= 2
fn gen_struct(quick: bool, rng: &mut StdRng, push: &mut dyn FnMut(Value)) {
    for rep in 0..(if quick { 1 } else { 6 }) {
        for st in SHAPES {
            let big = rng.gen_range(6..=10usize);
            for n in [2usize, 3, 4, 5, big] {
                let mut rhss: Vec<(&str, usize, usize)> = (0..n).map(|k| ("ek", k, 0)).collect();
                rhss.push(("e2", rng.gen_range(0..n), rng.gen_range(0..n))); rhss.push(("ones", 0, 0)); rhss.push(("aek", rng.gen_range(0..n), 0));
                let seed = rng.gen_range(0..1i64 << 30);      // one matrix per (shape, n): every right-hand side and solver sees the same A
                for (rhs, rk, rk2) in rhss {
                    for (kind, itol) in KINDS {
                        let budget = [2, n.max(2), 2 * n, 1000][rng.gen_range(0..4)];
                        let guess = if rng.gen_range(0..3) == 0 { "int" } else { "zero" };
                        push(json!({"mode": "c08", "fam": "struct", "st": st, "n": n, "seed": if rep == 0 || rng.gen_bool(0.5) { seed } else { rng.gen_range(0..1i64 << 30) },
                                    "kind": kind, "itol": itol, "budget": budget, "tol": rand_tol(rng, 2, 12), "rhs": rhs, "rk": rk, "rk2": rk2, "guess": guess}));
                    }
                }
            }
        }
    }
}

/// strongly non-normal upwind stencils (C09 convergence clause, BiCG / BiCGSTAB / QMR).  Strict window: index n*log10(a/c)/2 <= 13.6
/// (half of the cases within 6 orders of the top of the window); plus a few cases in the window of the known finding (index >= 14.2)
fn gen_upw(quick: bool, rng: &mut StdRng, push: &mut dyn FnMut(Value)) {
    let ratios = [3i64, 4, 5, 8];
    let rhss = ["ones", "sin", "ones", "sin", "e1", "rand"];
    let n_strict = if quick { 700 } else { 8000 };
    let n_harsh = if quick { 40 } else { 400 };
    for i in 0..(n_strict + n_harsh) {
        let (kind, itol) = KINDS[1 + i % 4];
        let ra = ratios[(i / 4) % 4];
        let lg = (ra as f64).log10();
        let harsh = i >= n_strict;
        let shape = if harsh { "tri" } else { ["tri", "tri", "penta", "grid"][(i / 16) % 4] };
        let mut c = json!({"mode": "c09", "fam": "upw", "shape": shape, "ra": ra, "rb": ([1, 3, 8][rng.gen_range(0..3)]), "mg10": ([10, 5, 1][rng.gen_range(0..3)]), "flip": rng.gen_range(0..2),
                           "seed": rng.gen_range(0..1i64 << 30), "kind": kind, "itol": itol, "budget": 2000, "tol": rand_tol(rng, 6, 10),
                           "rhs": (rhss[rng.gen_range(0..rhss.len())]), "rhs_e": rng.gen_range(-8..=8), "guess": if rng.gen_range(0..5) < 3 { "zero" } else { "random" }, "nx": 0});
        if shape == "grid" {
            let nx = rng.gen_range(3..=8usize); let ny = rng.gen_range((25 + nx - 1) / nx..=60 / nx);
            c["nx"] = json!(nx); c["n"] = json!(nx * ny);
        } else if harsh {
            let nmin = (28.4 / lg).ceil() as usize;          // index >= 14.2
            c["n"] = json!(rng.gen_range(nmin.min(60)..=60)); c["rhs"] = json!(["ones", "sin"][rng.gen_range(0..2)]); c["guess"] = json!("zero");
        } else {
            let nmax = ((27.2 / lg).floor() as usize).min(60).max(30);      // index <= 13.6
            let n = if rng.gen_bool(0.5) { rng.gen_range(nmax.saturating_sub(6).max(30)..=nmax) } else { rng.gen_range(30..=nmax) };
            c["n"] = json!(n);
        }
        push(c);
    }
}

/// one-step-collapse family: every shape x right-hand-side mode x delta 1e-4..1e-13 x solver variant, small tolerances
fn gen_eig(quick: bool, rng: &mut StdRng, push: &mut dyn FnMut(Value)) {
    for _rep in 0..(if quick { 1 } else { 6 }) {
        for es in EIG_SHAPES { for bm in ["sum", "sum3", "perp"] { for de in 4..=13i64 { for (kind, itol) in KINDS {
            // the nonsymmetric 2x2 shapes (where one step can collapse an O(1) residual) get three extra matrices at small tolerances
            let extra = if matches!(es, "tri2" | "gen2" | "blocks") { 3 } else { 0 };
            for rep in 0..=extra { for guess in ["zero", "small"] {
                if guess == "small" && rng.gen_bool(0.5) { continue; }
                push(json!({"mode": "c08", "fam": "eig", "es": es, "bm": bm, "de": de, "n": rng.gen_range(2..=6), "seed": rng.gen_range(0..1i64 << 30), "kind": kind, "itol": itol,
                            "budget": ([2, 10, 1000][rng.gen_range(0..3)]), "tol": if rep == 0 { rand_tol(rng, 6, 12) } else { rand_tol(rng, 9, 12) }, "rhs_e": ([0, 0, -5, 7][rng.gen_range(0..4)]), "guess": guess}));
            } }
        } } } }
    }
}

/// independent scales of x0, A and b: every admissible triple of decimal exponents x solver variant
fn gen_scales(quick: bool, rng: &mut StdRng, push: &mut dyn FnMut(Value)) {
    let ex = [-170i64, -120, -80, -30, 0, 30, 80, 120, 150];
    let eb = [-120i64, -80, -30, 0, 30, 80, 120];
    for _rep in 0..(if quick { 1 } else { 5 }) {
        for xe in ex { for ae in ex { for be in eb {
            // A*x0 and the solution 10^(be-ae) stay normal numbers, and so does ||A|| * ||x|| used by the drift unit
            if (ae + xe).abs() > 280 || (be - ae).abs() > 280 { continue; }
            for (kind, itol) in KINDS {
                if quick && rng.gen_range(0..2) == 0 { continue; }
                push(json!({"mode": "c08", "fam": "scales", "base": (["spd", "dd"][rng.gen_range(0..2)]), "n": rng.gen_range(3..=12), "seed": rng.gen_range(0..1i64 << 30), "xe": xe, "ae": ae, "be": be,
                            "kind": if kind == "cg" { "cg" } else { kind }, "itol": itol, "budget": ([50, 200, 1000][rng.gen_range(0..3)]), "tol": rand_tol(rng, 3, 12), "guess": "scaled"}));
            }
        } } }
    }
}

/// C09 accuracy clause with initial guesses far from the solution (distance 1e3, 1e6, 1e9 in units of the solution's scale):
/// the stopping test is relative to |b|, not to |r0|.  The tolerance is kept >= 1e-12 x distance (below that the true residual
/// is limited by the rounding of A*x0, not by the solver).
fn gen_far(quick: bool, rng: &mut StdRng, push: &mut dyn FnMut(Value)) {
    let fams = ["spd", "dd", "rcs", "spd3"];
    for i in 0..(if quick { 900 } else { 9000 }) {
        let fam = fams[i % 4];
        let sub = rng.gen_range(0..7i64);
        let spd = fam.starts_with("spd") || (fam == "rcs" && sub == 6);
        let (kind, itol) = if spd { KINDS[(i / 4) % 5] } else { KINDS[1 + (i / 4) % 4] };
        let gd = [3i64, 6, 9][(i / 20) % 3];
        let n = if fam == "rcs" { rng.gen_range(3..=60usize) } else { rng.gen_range(1..=60usize) };
        // solve_qmr cannot reduce the residual by more than about 1e-12 |r0| (the attainable-accuracy stall recorded in known_findings.json):
        // for QMR the reduction asked for is kept <= 1e-10 (distance 1e7 instead of 1e9)
        let q = kind == "qmr";
        let gd = if q && gd == 9 { 7 } else { gd };
        let tol = match gd { 3 => rand_tol(rng, 3, if q { 7 } else { 9 }), 6 => rand_tol(rng, 3, if q { 4 } else { 6 }), _ => json!({"m": 1, "e": 3}) };
        push(json!({"mode": "c09", "fam": fam, "sub": sub, "n": n, "seed": rng.gen_range(0..1i64 << 30), "kind": kind, "itol": itol, "budget": 2000,
                    "tol": tol, "rhs": (["rand", "ax"][rng.gen_range(0..2)]), "rhs_e": rng.gen_range(-8..=8), "guess": "far", "gd": gd}));
    }
}

/// ties with the tolerance: (a) dyadic constructions for every solver variant, tol = 2^-ek and its neighbours, budgets 1, 2, 3, 1000;
/// (b, c) feedback ties on small well-conditioned systems with zero and random guesses (mode tie08)
fn gen_tie(quick: bool, rng: &mut StdRng, push: &mut dyn FnMut(Value)) {
    for _rep in 0..(if quick { 1 } else { 4 }) {
        for ek in [7i64, 8, 10, 13, 17, 20, 24, 27, 30, 33, 36, 39] { for m in 1..=4i64 { for (kind, itol) in KINDS {
            let seed = rng.gen_range(0..1i64 << 30); let (sa, sb) = (rng.gen_range(-20..=20), rng.gen_range(-20..=20));
            for ulp in [0i64, 1, -1] { for budget in [2i64, 3, 1000] {
                if ulp != 0 && budget == 3 { continue; }
                push(json!({"mode": "c08", "fam": "tie", "m": m, "ek": ek, "sa": sa, "sb": sb, "seed": seed, "kind": kind, "itol": itol, "budget": budget,
                            "tol": {"p2": ek, "ulp": ulp}, "guess": "zero"}));
            } }
        } } }
    }
    let fams = ["spd", "dd", "rcs", "nonsym"];
    for i in 0..(if quick { 160 } else { 1600 }) {
        let (kind, itol) = if i % 2 == 0 { ("bicgstab", 1) } else { KINDS[(i / 2) % 5] };
        push(json!({"mode": "tie08", "fam": fams[i % 4], "sub": rng.gen_range(0..6), "n": rng.gen_range(2..=12), "seed": rng.gen_range(0..1i64 << 30), "kind": kind, "itol": itol, "budget": 1000,
                    "tol": {"m": 1, "e": 8}, "rhs": (["rand", "ax"][rng.gen_range(0..2)]), "rhs_e": rng.gen_range(-8..=8), "guess": (["zero", "random"][rng.gen_range(0..2)])}));
    }
}

/// sequences on one Sparse object (mode seq08 / seq09): two in-place mutations, all solvers after each
fn gen_seq(quick: bool, mode: &str, rng: &mut StdRng, push: &mut dyn FnMut(Value)) {
    let muts = ["over_diag", "over_off", "new", "scale", "transpose", "val_diag", "val_off", "val_scale", "val_flip", "val_sym", "val_nonsym", "rewrite"];
    let fams = ["spd", "dd", "rcs"];
    for i in 0..(if quick { 240 } else { 2400 }) {
        let n = if i % 2 == 0 { rng.gen_range(3..=8usize) } else { rng.gen_range(3..=40usize) };
        // round 0: solves ("solve"), products only ("mul"), or nothing ("none": the first solve follows the first mutation); one case in five
        // runs two objects of the same size in alternation
        let warm = ["solve", "solve", "mul", "none", "solve"][i % 5];
        push(json!({"mode": mode, "fam": fams[i % 3], "sub": rng.gen_range(0..7), "n": n, "seed": rng.gen_range(0..1i64 << 30), "warm": warm, "alt": (i % 5 == 4),
                    "muts": [muts[i % 12], muts[(i / 12 + 5 * i + 3) % 12]], "rhs": "ax", "rhs_e": rng.gen_range(-8..=8), "guess": "zero",
                    "kind": "bicg", "itol": 1, "budget": 2000, "tol": {"m": 1, "e": 8}}));
    }
}
/// extreme but legal iteration budgets on small well-posed systems, every solver variant
fn gen_bigbudget(mode: &str, rng: &mut StdRng, push: &mut dyn FnMut(Value)) {
    for rep in 0..3 { for bs in ["umax", "umax1", "u32max", "i64max"] { for (kind, itol) in KINDS {
        let fam = if kind == "cg" || rep == 0 { "spd" } else { "dd" };
        push(json!({"mode": mode, "fam": fam, "n": rng.gen_range(1..=12), "seed": rng.gen_range(0..1i64 << 30), "kind": kind, "itol": itol, "budget": bs,
                    "tol": rand_tol(rng, 3, 10), "rhs": (["rand", "ax"][rng.gen_range(0..2)]), "rhs_e": rng.gen_range(-8..=8), "guess": (["zero", "random"][rng.gen_range(0..2)])}));
    } } }
}

fn gen_c09(quick: bool, rng: &mut StdRng, push: &mut dyn FnMut(Value)) {
    let fams = ["spd", "dd", "spd3", "spdi", "ddi", "rcs"];
    let ncases = if quick { 5000 } else { 50000 };
    for i in 0..ncases {
        let fam = fams[i % fams.len()];
        let spd = fam.starts_with("spd");
        // CG only on SPD systems; the other solvers on every family (SPD = D + S with theta < 1 is strictly dominant too)
        let (kind, itol) = if spd { KINDS[(i / fams.len()) % 5] } else { KINDS[1 + (i / fams.len()) % 4] };
        let n = if i % 4 == 3 { rng.gen_range(1..=6usize) } else { 1 + (i / (fams.len() * 5)) % 60 };
        // equal row/column-sum family: order >= 3; sub-family 6 is the symmetric (SPD) circulant, the only one CG is run on
        let sub = rng.gen_range(0..7i64);
        let n = if fam == "rcs" { n.max(3) } else { n };
        let (kind, itol) = if fam == "rcs" { if sub == 6 { KINDS[(i / fams.len()) % 5] } else { KINDS[1 + (i / fams.len()) % 4] } } else { (kind, itol) };
        let int = fam.ends_with('i');
        let rhs = if rng.gen_range(0..10) == 0 { "zero" } else if rng.gen_bool(0.5) { "rand" } else { "ax" };
        // the integer families serve the exact-guess / zero-start clauses only: on integer data BiCG and QMR can hit an
        // exact Lanczos breakdown (probability zero on real-valued data), which is not what the convergence clause is about
        let guess = if int { "exact" } else { ["zero", "random"][rng.gen_range(0..2)] };
        push(json!({"mode": "c09", "fam": fam, "sub": sub, "n": n, "seed": rng.gen_range(0..1i64 << 30), "kind": kind, "itol": itol, "budget": 2000,
                    "tol": rand_tol(rng, 3, 12), "rhs": rhs, "rhs_e": rhs_exp(rng), "guess": guess}));
    }
}

/// tier = "quick" | "thorough", optionally suffixed ":c08" / ":c09" to generate one mode only
pub fn gen(tier: &str, seed: u64, out: &mut Out) {
    let (t, mode) = match tier.split_once(':') { Some((a, b)) => (a, b), None => (tier, "") };
    let quick = t == "quick";
    let mut cid = 0i64;
    let mut cases: Vec<Value> = vec![];
    { let mut push = |mut c: Value| { cid += 1; c["cid"] = json!(cid); c["suite"] = json!("krylov"); cases.push(c); };
      if mode != "c09" && mode != "upw" && mode != "far" { let mut r = rng(seed, 8); gen_c08(quick, &mut r, &mut push); gen_struct(quick, &mut r, &mut push); gen_seq(quick, "seq08", &mut r, &mut push); gen_eig(quick, &mut r, &mut push); gen_scales(quick, &mut r, &mut push); gen_tie(quick, &mut r, &mut push); gen_bigbudget("c08", &mut r, &mut push); }
      if mode == "upw" { let mut r = rng(seed, 10); gen_upw(quick, &mut r, &mut push); }
      else if mode == "far" { let mut r = rng(seed, 15); gen_far(quick, &mut r, &mut push); }
      else if mode != "c08" { let mut r = rng(seed, 9); gen_c09(quick, &mut r, &mut push); gen_seq(quick, "seq09", &mut r, &mut push); let mut r = rng(seed, 10); gen_upw(quick, &mut r, &mut push); let mut r = rng(seed, 15); gen_far(quick, &mut r, &mut push); gen_bigbudget("c09", &mut r, &mut push); } }
    for c in &cases { out.raw(c); }
}
