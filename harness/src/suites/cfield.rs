//! Suite "cfield": ohsl::Complex<T> arithmetic, compound assignment, identities, equality and order (C13).
//! Case kinds:
//!   "triple": z, w, v as exact Gaussian rationals {re:[n,d], im:[n,d]} (TLC-enumerated or random); run on
//!             Complex<Rat>, and on Complex<f64> when every component is dyadic (exact in f64);
//!   "rank3":  z, w, v with integer components k, mapped to f64 by the strictly increasing table `rank_val`
//!             (0, +-1e-100 .. +-1e100, with two adjacent floats) - ordering on NaN-free f64 triples;
//!   "wide":   z, w as f64 bit patterns (hex), magnitudes 1e-100..1e100, zero parts, purely real/imaginary:
//!             error of every result against the double-double value in units of eps*|exact| (normwise),
//!             bit patterns of the assignment forms against the binary forms.
use crate::dd::{CDD, DD};
use crate::rat::Rat;
use crate::util::*;
use ohsl::{Complex, Number, One, Signed, Zero};
use rand::rngs::StdRng;
use rand::Rng;
use serde_json::{json, Value};
use std::cmp::Ordering;

const EPS: f64 = f64::EPSILON;

// ------------------------------------------------------------------ projections
fn jcr(z: &Complex<Rat>) -> Value { json!({"re": jrat(z.real), "im": jrat(z.imag)}) }
/// exact rational value of an f64 ([n, 2^k]); [BAD, 1] when it does not fit TLC's integers
fn f2r(x: f64) -> Value {
    if !x.is_finite() { return json!([BAD, 1]); }
    let mut y = x; let mut d: i64 = 1;
    for _ in 0..30 {
        if y == y.trunc() { return if y.abs() < SAT as f64 { json!([y as i64, d]) } else { json!([BAD, 1]) }; }
        y *= 2.0; d *= 2;
    }
    json!([BAD, 1])
}
fn jcf(z: &Complex<f64>) -> Value { json!({"re": f2r(z.real), "im": f2r(z.imag)}) }
fn cbits(z: &Complex<f64>) -> String { format!("{}{}", bits(z.real), bits(z.imag)) }
fn cx_rat(v: &Value) -> Complex<Rat> { Complex::new(rat_from(&v["re"]), rat_from(&v["im"])) }
fn is_dyadic(r: Rat) -> bool { r.d > 0 && (r.d & (r.d - 1)) == 0 && r.d <= 1 << 20 }
fn cx_f64(z: &Complex<Rat>) -> Complex<f64> { Complex::new(z.real.to_f64(), z.imag.to_f64()) }
fn from_hex(v: &Value) -> f64 { f64::from_bits(u64::from_str_radix(v.as_str().unwrap_or("0"), 16).unwrap_or(0)) }

/// strictly increasing embedding of the ranks -10..10 into f64 (rank 0 = 0.0); ranks 5 and 6 are adjacent floats
pub fn rank_val(k: i64) -> f64 {
    const T: [f64; 10] = [1e-100, 1e-30, 1e-3, 0.5, 1.0, 1.0 + f64::EPSILON, 1.5, 1e3, 1e30, 1e100];
    if k == 0 { 0.0 } else { let m = T[((k.abs() - 1) as usize).min(9)]; if k < 0 { -m } else { m } }
}

// ------------------------------------------------------------------ the calls under test (generic in the component type)
pub struct Res<T> { op: &'static str, panic: bool, r: Option<Complex<T>>, rb: Option<Complex<T>>, rs: Option<T> }
fn res<T>(op: &'static str, f: impl FnOnce() -> (Option<Complex<T>>, Option<Complex<T>>, Option<T>)) -> Res<T> {
    match guarded(f) { Ok((r, rb, rs)) => Res { op, panic: false, r, rb, rs }, Err(_) => Res { op, panic: true, r: None, rb: None, rs: None } }
}
/// every operator variant of Complex<T> on the pair (z, w); the real scalar is w.real
fn pair_ops<T: Clone + Number + Signed + Send + Sync>(z: &Complex<T>, w: &Complex<T>) -> Vec<Res<T>> {
    let s = w.real.clone();
    let mut v = Vec::new();
    v.push(res("add", || (Some(z.clone() + w.clone()), None, None)));
    v.push(res("sub", || (Some(z.clone() - w.clone()), None, None)));
    v.push(res("mul", || (Some(z.clone() * w.clone()), None, None)));
    v.push(res("div", || (Some(z.clone() / w.clone()), None, None)));
    v.push(res("neg", || (Some(-z.clone()), None, None)));
    v.push(res("conj", || (Some(z.conj()), None, None)));
    v.push(res("abs_sqr", || (None, None, Some(z.abs_sqr()))));
    v.push(res("add_r", || (Some(z.clone() + s.clone()), None, None)));
    v.push(res("sub_r", || (Some(z.clone() - s.clone()), None, None)));
    v.push(res("mul_r", || (Some(z.clone() * s.clone()), None, None)));
    v.push(res("div_r", || (Some(z.clone() / s.clone()), None, None)));
    // compound assignment forms, each with its binary counterpart evaluated by the real operator
    v.push(res("add_assign", || { let mut a = z.clone(); a += w.clone(); (Some(a), Some(z.clone() + w.clone()), None) }));
    v.push(res("sub_assign", || { let mut a = z.clone(); a -= w.clone(); (Some(a), Some(z.clone() - w.clone()), None) }));
    v.push(res("mul_assign", || { let mut a = z.clone(); a *= w.clone(); (Some(a), Some(z.clone() * w.clone()), None) }));
    v.push(res("div_assign", || { let mut a = z.clone(); a /= w.clone(); (Some(a), Some(z.clone() / w.clone()), None) }));
    v.push(res("add_assign_r", || { let mut a = z.clone(); a += s.clone(); (Some(a), Some(z.clone() + s.clone()), None) }));
    v.push(res("sub_assign_r", || { let mut a = z.clone(); a -= s.clone(); (Some(a), Some(z.clone() - s.clone()), None) }));
    v.push(res("mul_assign_r", || { let mut a = z.clone(); a *= s.clone(); (Some(a), Some(z.clone() * s.clone()), None) }));
    v.push(res("div_assign_r", || { let mut a = z.clone(); a /= s.clone(); (Some(a), Some(z.clone() / s.clone()), None) }));
    v
}
/// zero(), one() and the six identity expressions that must return z
fn ident_ops<T: Clone + Number + Signed + Send + Sync>(z: &Complex<T>) -> Result<(Complex<T>, Complex<T>, Vec<Complex<T>>), String> {
    guarded(|| {
        let zero = Complex::<T>::zero(); let one = Complex::<T>::one();
        let same = vec![z.clone() + zero.clone(), zero.clone() + z.clone(), z.clone() - zero.clone(),
                        z.clone() * one.clone(), one.clone() * z.clone(), z.clone() / one.clone()];
        (zero, one, same)
    })
}
fn cmp_name(o: Option<Ordering>) -> &'static str { match o { Some(Ordering::Less) => "lt", Some(Ordering::Equal) => "eq", Some(Ordering::Greater) => "gt", None => "none" } }
fn cmp3<T: Clone + Number + PartialOrd + Send + Sync>(z: &Complex<T>, w: &Complex<T>, v: &Complex<T>, e: &mut Value) {
    let r = guarded(|| (cmp_name(z.partial_cmp(w)), cmp_name(w.partial_cmp(z)), cmp_name(w.partial_cmp(v)), cmp_name(z.partial_cmp(v)),
                        z < w, z == w, z > w, z <= w, z >= w, z != w));
    match r {
        Ok((a, b, c, d, lt, eq, gt, le, ge, ne)) => { e["panic"] = json!(false); e["c_zw"] = json!(a); e["c_wz"] = json!(b); e["c_wv"] = json!(c); e["c_zv"] = json!(d);
            e["lt"] = json!(lt); e["eq"] = json!(eq); e["gt"] = json!(gt); e["le"] = json!(le); e["ge"] = json!(ge); e["ne"] = json!(ne); }
        Err(_) => { e["panic"] = json!(true); for k in ["c_zw", "c_wz", "c_wv", "c_zv"] { e[k] = json!("none"); } for k in ["lt", "eq", "gt", "le", "ge", "ne"] { e[k] = json!(false); } }
    }
}

// ------------------------------------------------------------------ double-double reference for the f64 instance
fn cdd(z: &Complex<f64>) -> CDD { CDD::from(z.real, z.imag) }
/// exactly rounded-to-double-double value of the field operation (independent of the code under test)
fn reference(op: &str, z: &Complex<f64>, w: &Complex<f64>) -> CDD {
    let (a, b) = (cdd(z), cdd(w)); let s = DD::from(w.real);
    match op {
        "add" | "add_assign" => a.add(b),
        "sub" | "sub_assign" => a.sub(b),
        "mul" | "mul_assign" => a.mul(b),
        "div" | "div_assign" => a.div(b),
        "neg" => CDD { re: a.re.neg(), im: a.im.neg() },
        "conj" => CDD { re: a.re, im: a.im.neg() },
        "abs_sqr" => CDD { re: a.re.mul(a.re).add(a.im.mul(a.im)), im: DD::ZERO },
        "add_r" | "add_assign_r" => CDD { re: a.re.add(s), im: a.im },
        "sub_r" | "sub_assign_r" => CDD { re: a.re.sub(s), im: a.im },
        "mul_r" | "r_mul" | "mul_assign_r" => CDD { re: a.re.mul(s), im: a.im.mul(s) },
        "div_r" | "div_assign_r" => CDD { re: a.re.div(s), im: a.im.div(s) },
        _ => CDD::ZERO,
    }
}
/// normwise error of `got` in units of eps * |exact|
fn err_units(got: &Complex<f64>, exact: CDD) -> i64 {
    if !(got.real.is_finite() && got.imag.is_finite()) { return SAT; }
    let dr = DD::from(got.real).sub(exact.re).to_f64(); let di = DD::from(got.imag).sub(exact.im).to_f64();
    units(dr.hypot(di), EPS * exact.abs())
}

/// componentwise scales (S_re, S_im) of the textbook formula: the a-priori bound of each result component is a
/// small multiple of eps * S.  Products: |ac|+|bd|, |ad|+|bc|; quotients: the same over |w|^2 (roles swapped);
/// single-rounding operations: the exact component itself.
fn comp_scales(op: &str, z: &Complex<f64>, w: &Complex<f64>, exact: CDD) -> (f64, f64) {
    let (a, b, c, d) = (z.real.abs(), z.imag.abs(), w.real.abs(), w.imag.abs());
    match op {
        "mul" | "mul_assign" => (a * c + b * d, a * d + b * c),
        "div" | "div_assign" => { let den = c * c + d * d; ((a * c + b * d) / den, (b * c + a * d) / den) }
        _ => (exact.re.to_f64().abs(), exact.im.to_f64().abs()),
    }
}
/// error of one component in units of eps * s; a component whose unit lies below the normal range (underflow
/// region, outside the stated non-overflowing domain) is not judged
fn comp_units(got: f64, exact: DD, s: f64) -> i64 {
    if !got.is_finite() { return SAT; }
    if !s.is_finite() { return 0; }
    if s > 0.0 && EPS * s < 1e-290 { return 0; }
    units(DD::from(got).sub(exact).to_f64().abs(), EPS * s)
}
const COMP_OPS: [&str; 17] = ["add", "sub", "mul", "div", "add_r", "sub_r", "mul_r", "div_r", "r_mul", "add_assign", "sub_assign", "mul_assign",
                              "div_assign", "add_assign_r", "sub_assign_r", "mul_assign_r", "div_assign_r"];

// ------------------------------------------------------------------ event emission
fn emit_pair_rat(z: &Complex<Rat>, w: &Complex<Rat>, cid: i64, out: &mut Out) {
    for r in pair_ops(z, w) {
        let mut e = json!({"op": r.op, "ty": "rat", "exact": true, "cid": cid, "panic": r.panic, "z": jcr(z), "w": jcr(w), "units": 0});
        let dummy = Complex::new(Rat::int(BAD), Rat::int(BAD));
        if r.op == "abs_sqr" { e["rs"] = jrat(r.rs.unwrap_or(Rat::int(BAD))); } else { e["r"] = jcr(r.r.as_ref().unwrap_or(&dummy)); }
        if r.op.contains("assign") { e["rb"] = jcr(r.rb.as_ref().unwrap_or(&dummy)); }
        out.ev(e);
    }
    let mut e = json!({"op": "ident", "ty": "rat", "exact": true, "cid": cid, "z": jcr(z)});
    match ident_ops(z) {
        Ok((zero, one, same)) => { e["panic"] = json!(false); e["zero"] = jcr(&zero); e["one"] = jcr(&one); e["same"] = Value::from(same.iter().map(jcr).collect::<Vec<_>>()); }
        Err(_) => { e["panic"] = json!(true); e["zero"] = jcr(z); e["one"] = jcr(z); e["same"] = json!([]); }
    }
    out.ev(e);
}
/// f64 instance; `exact` = the operands are small dyadic rationals (logged, results compared exactly where representable)
fn emit_pair_f64(z: &Complex<f64>, w: &Complex<f64>, exact: bool, cid: i64, out: &mut Out) {
    let mut rs = pair_ops(z, w);
    // f64 * Complex<f64>: the real scalar on the left
    let s = w.real; let zz = *z;
    rs.push(res("r_mul", move || (Some(s * zz), None, None)));
    for r in rs {
        // wz / sz: the divisor (complex w / real scalar w.real) is zero - division is then outside the stated domain
        let mut e = json!({"op": r.op, "ty": "f64", "exact": exact, "cid": cid, "panic": r.panic, "zb": cbits(z), "wb": cbits(w),
                           "wz": w.real == 0.0 && w.imag == 0.0, "sz": w.real == 0.0});
        if exact { e["z"] = jcf(z); e["w"] = jcf(w); }
        let nan = Complex::new(f64::NAN, f64::NAN);
        let refv = reference(r.op, z, w);
        if r.op == "abs_sqr" {
            let g = r.rs.unwrap_or(f64::NAN);
            if exact { e["rs"] = f2r(g); }
            e["units"] = json!(err_units(&Complex::new(g, 0.0), refv));
        } else {
            let g = r.r.unwrap_or(nan);
            if exact { e["r"] = jcf(&g); }
            e["units"] = json!(err_units(&g, refv));
            if COMP_OPS.contains(&r.op) {
                let (sr, si) = comp_scales(r.op, z, w, refv);
                e["cu_re"] = json!(comp_units(g.real, refv.re, sr)); e["cu_im"] = json!(comp_units(g.imag, refv.im, si));
            }
            if r.op.contains("assign") {
                let gb = r.rb.unwrap_or(nan);
                if exact { e["rb"] = jcf(&gb); }
                e["ba"] = json!(cbits(&g)); e["bb"] = json!(cbits(&gb));
            }
        }
        out.ev(e);
    }
    let mut e = json!({"op": "ident", "ty": "f64", "exact": exact, "cid": cid, "bz": cbits(z)});
    match ident_ops(z) {
        Ok((zero, one, same)) => { e["panic"] = json!(false); e["bzero"] = json!(cbits(&zero)); e["bone"] = json!(cbits(&one)); e["same"] = Value::from(same.iter().map(cbits).collect::<Vec<_>>()); }
        Err(_) => { e["panic"] = json!(true); e["bzero"] = json!(""); e["bone"] = json!(""); e["same"] = json!([]); }
    }
    out.ev(e);
}

// ------------------------------------------------------------------ soak: call-count dependence
/// n guarded calls of one operation on four fixed inexact operand pairs (no per-call logging); every result is compared
/// bit for bit with what the FIRST call on the same operands returned.  One summary event per operation.
fn soak_one(name: &str, n: usize, cid: i64, out: &mut Out, f: &dyn Fn(usize) -> (u64, u64)) {
    let mut first: [Option<(u64, u64)>; 4] = [None; 4];
    let (mut panics, mut diffs, mut first_bad) = (0i64, 0i64, -1i64);
    for k in 0..n {
        match guarded(|| f(k % 4)) {
            Ok(r) => match first[k % 4] { None => first[k % 4] = Some(r), Some(r0) => if r0 != r { diffs += 1; if first_bad < 0 { first_bad = k as i64; } } },
            Err(_) => { panics += 1; if first_bad < 0 { first_bad = k as i64; } }
        }
    }
    out.ev(json!({"op": "soak", "ty": "f64", "name": name, "cid": cid, "n": n as i64, "panics": panics, "diffs": diffs, "first_bad": first_bad}));
}
const SOAK_OPS: [&str; 29] = ["add", "sub", "mul", "div", "neg", "conj", "abs_sqr", "add_r", "sub_r", "mul_r", "div_r", "r_mul",
    "add_assign", "sub_assign", "mul_assign", "div_assign", "add_assign_r", "sub_assign_r", "mul_assign_r", "div_assign_r",
    "eq", "ne", "lt", "le", "gt", "ge", "partial_cmp", "zero", "one"];
fn soak_all(n: usize, cid: i64, out: &mut Out) {
    // general (inexact) f64 operands: no product, quotient or sum of them is exactly representable
    // (deterministic search: only pairs for which neither (z/w)*w nor (z*w)/w reproduces z bit for bit are used, so that
    //  a self-check of the form q*w == z cannot hold on any of them)
    let mut zs = [Complex::new(0.0, 0.0); 4]; let mut ws = zs; let (mut found, mut t) = (0usize, 0.0f64);
    while found < 4 {
        t += 1.0;
        let z = Complex::new(1.1 + 0.37 * t, 3.3 - 0.91 * t * t * 1e-1); let w = Complex::new(0.7 - 0.13 * t, -2.1 + 0.057 * t);
        let (q, p) = (z / w, z * w);
        let ne = |a: Complex<f64>, b: Complex<f64>| a.real != b.real && a.imag != b.imag;
        if ne(q * w, z) && ne(p / w, z) && ne(w * q, z) { zs[found] = z; ws[found] = w; found += 1; }
    }
    // comparison operands: a general pair, a second one, a tie in the real part only, and equal operands
    let cw = [ws[0], ws[1], Complex::new(zs[2].real, ws[2].imag), zs[3]];
    let cb = |z: Complex<f64>| (z.real.to_bits(), z.imag.to_bits());
    let bb = |b: bool| (b as u64, 0u64);
    for name in SOAK_OPS {
        let f: Box<dyn Fn(usize) -> (u64, u64)> = match name {
            "add" => Box::new(|k| cb(zs[k] + ws[k])), "sub" => Box::new(|k| cb(zs[k] - ws[k])),
            "mul" => Box::new(|k| cb(zs[k] * ws[k])), "div" => Box::new(|k| cb(zs[k] / ws[k])),
            "neg" => Box::new(|k| cb(-zs[k])), "conj" => Box::new(|k| cb(zs[k].conj())), "abs_sqr" => Box::new(|k| (zs[k].abs_sqr().to_bits(), 0)),
            "add_r" => Box::new(|k| cb(zs[k] + ws[k].real)), "sub_r" => Box::new(|k| cb(zs[k] - ws[k].real)),
            "mul_r" => Box::new(|k| cb(zs[k] * ws[k].real)), "div_r" => Box::new(|k| cb(zs[k] / ws[k].real)), "r_mul" => Box::new(|k| cb(ws[k].real * zs[k])),
            "add_assign" => Box::new(|k| { let mut a = zs[k]; a += ws[k]; cb(a) }), "sub_assign" => Box::new(|k| { let mut a = zs[k]; a -= ws[k]; cb(a) }),
            "mul_assign" => Box::new(|k| { let mut a = zs[k]; a *= ws[k]; cb(a) }), "div_assign" => Box::new(|k| { let mut a = zs[k]; a /= ws[k]; cb(a) }),
            "add_assign_r" => Box::new(|k| { let mut a = zs[k]; a += ws[k].real; cb(a) }), "sub_assign_r" => Box::new(|k| { let mut a = zs[k]; a -= ws[k].real; cb(a) }),
            "mul_assign_r" => Box::new(|k| { let mut a = zs[k]; a *= ws[k].real; cb(a) }), "div_assign_r" => Box::new(|k| { let mut a = zs[k]; a /= ws[k].real; cb(a) }),
            "eq" => Box::new(|k| bb(zs[k] == cw[k])), "ne" => Box::new(|k| bb(zs[k] != cw[k])), "lt" => Box::new(|k| bb(zs[k] < cw[k])),
            "le" => Box::new(|k| bb(zs[k] <= cw[k])), "gt" => Box::new(|k| bb(zs[k] > cw[k])), "ge" => Box::new(|k| bb(zs[k] >= cw[k])),
            "partial_cmp" => Box::new(|k| (match zs[k].partial_cmp(&cw[k]) { Some(Ordering::Less) => 1, Some(Ordering::Equal) => 2, Some(Ordering::Greater) => 3, None => 0 }, 0)),
            "zero" => Box::new(|_| cb(Complex::<f64>::zero())), _ => Box::new(|_| cb(Complex::<f64>::one())),
        };
        soak_one(name, n, cid, out, &*f);
    }
    out.ev(json!({"op": "soak_end", "ty": "f64", "cid": cid, "names": SOAK_OPS.to_vec()}));
}

pub fn exec(case: &Value, out: &mut Out) {
    let cid = geti(case, "cid");
    match gets(case, "kind") {
        "triple" => {
            let (z, w, v) = (cx_rat(&case["z"]), cx_rat(&case["w"]), cx_rat(&case["v"]));
            let full = case["full"].as_bool().unwrap_or(true);
            let dy = [&z, &w, &v].iter().all(|c| is_dyadic(c.real) && is_dyadic(c.imag));
            let mut e = json!({"op": "cmp3", "ty": "rat", "exact": true, "cid": cid, "z": jcr(&z), "w": jcr(&w), "v": jcr(&v)});
            cmp3(&z, &w, &v, &mut e); out.ev(e);
            if full { emit_pair_rat(&z, &w, cid, out); }
            if dy {
                let (zf, wf, vf) = (cx_f64(&z), cx_f64(&w), cx_f64(&v));
                let mut e = json!({"op": "cmp3", "ty": "f64", "exact": true, "cid": cid, "z": jcr(&z), "w": jcr(&w), "v": jcr(&v)});
                cmp3(&zf, &wf, &vf, &mut e); out.ev(e);
                if full { emit_pair_f64(&zf, &wf, true, cid, out); }
            }
        }
        "rank3" => {
            let rk = |v: &Value| -> (i64, i64) { (geti(v, "re"), geti(v, "im")) };
            let (z, w, v) = (rk(&case["z"]), rk(&case["w"]), rk(&case["v"]));
            let f = |p: (i64, i64)| Complex::new(rank_val(p.0), rank_val(p.1));
            let j = |p: (i64, i64)| json!({"re": [p.0, 1], "im": [p.1, 1]});
            let mut e = json!({"op": "cmp3", "ty": "f64", "exact": true, "ranks": true, "cid": cid, "z": j(z), "w": j(w), "v": j(v)});
            cmp3(&f(z), &f(w), &f(v), &mut e); out.ev(e);
        }
        "wide" => {
            let z = Complex::new(from_hex(&case["zb"][0]), from_hex(&case["zb"][1]));
            let w = Complex::new(from_hex(&case["wb"][0]), from_hex(&case["wb"][1]));
            emit_pair_f64(&z, &w, false, cid, out);
        }
        "soak" => soak_all(geti(case, "n") as usize, cid, out),
        k => { eprintln!("TOOL-ERROR unknown cfield case kind {}", k); std::process::exit(2) }
    }
}

// ------------------------------------------------------------------ case generation (impl -> spec)
fn rand_rat(rng: &mut StdRng, dyadic: bool) -> Value {
    let d: i64 = if dyadic { [1, 1, 2, 4][rng.gen_range(0..4)] } else { rng.gen_range(1..=4) };
    let n: i64 = if rng.gen_bool(0.15) { 0 } else { rng.gen_range(-9..=9) };
    jrat(Rat::new(n as i128, d as i128))
}
fn rand_cx(rng: &mut StdRng, dyadic: bool) -> Value { json!({"re": rand_rat(rng, dyadic), "im": rand_rat(rng, dyadic)}) }
/// an f64 of magnitude 1e-100..1e100 (random sign, log-uniform), or exactly zero
fn wide_f64(rng: &mut StdRng, pzero: f64) -> f64 {
    if rng.gen_bool(pzero) { return 0.0; }
    let e: f64 = rng.gen_range(-100.0..100.0); let m: f64 = rng.gen_range(1.0..10.0);
    let x = (m * 10f64.powf(e)).clamp(1e-100, 1e100);
    if rng.gen_bool(0.5) { -x } else { x }
}
fn wide_cx(rng: &mut StdRng, shape: u32) -> [String; 2] {
    // shape: 0 general, 1 zero parts likely, 2 purely real, 3 purely imaginary, 4 components of very different size
    let (re, im) = match shape {
        1 => (wide_f64(rng, 0.3), wide_f64(rng, 0.3)),
        2 => (wide_f64(rng, 0.0), 0.0),
        3 => (0.0, wide_f64(rng, 0.0)),
        4 => { let a = wide_f64(rng, 0.0); let k: f64 = rng.gen_range(-3.0..3.0); ((a), (a * 10f64.powf(k) * rng.gen_range(0.5..2.0)).clamp(-1e100, 1e100)) }
        _ => (wide_f64(rng, 0.0), wide_f64(rng, 0.0)),
    };
    // magnitudes below 1e-100 (from the clamp of shape 4) are raised to the stated range
    let fix = |x: f64| if x != 0.0 && x.abs() < 1e-100 { 1e-100f64.copysign(x) } else { x };
    [bits(fix(re)), bits(fix(im))]
}

pub fn gen(tier: &str, seed: u64, out: &mut Out) {
    let quick = tier == "quick";
    let mut rng = rng(seed, 13);
    let mut cid = 0i64;
    let mut push = |out: &mut Out, mut c: Value| { cid += 1; c["cid"] = json!(cid); c["suite"] = json!("cfield"); out.raw(&c); };
    // (a) random Gaussian rationals (every operator variant on (z, w), order on (z, w, v)); half of them dyadic -> f64 twin
    for k in 0..(if quick { 120 } else { 1500 }) {
        let dy = k % 2 == 0;
        let z = rand_cx(&mut rng, dy);
        // equal operands / equal real parts are the interesting cases of the order
        let w = match rng.gen_range(0..7) { 0 => z.clone(), 1 => json!({"re": z["re"], "im": rand_rat(&mut rng, dy)}), 2 => json!({"re": rand_rat(&mut rng, dy), "im": z["im"]}), _ => rand_cx(&mut rng, dy) };
        let v = match rng.gen_range(0..7) { 0 => w.clone(), 1 => json!({"re": w["re"], "im": rand_rat(&mut rng, dy)}), 2 => json!({"re": rand_rat(&mut rng, dy), "im": w["im"]}), _ => rand_cx(&mut rng, dy) };
        push(out, json!({"kind": "triple", "z": z, "w": w, "v": v, "full": true}));
    }
    // (b) order on NaN-free f64 triples over the whole magnitude range (rank embedding)
    for _ in 0..(if quick { 600 } else { 8000 }) {
        let mut p = || -> Value { json!({"re": rng.gen_range(-10..=10), "im": rng.gen_range(-10..=10)}) };
        let z = p(); let mut w = p(); let mut v = p();
        match rng.gen_range(0..6) { 0 => w["re"] = z["re"].clone(), 1 => w = z.clone(), 2 => w["im"] = z["im"].clone(), _ => {} }
        match rng.gen_range(0..6) { 0 => v["re"] = w["re"].clone(), 1 => v = w.clone(), 2 => v["im"] = w["im"].clone(), _ => {} }
        push(out, json!({"kind": "rank3", "z": z, "w": w, "v": v}));
    }
    // (c) f64 components of magnitude 1e-100..1e100
    for k in 0..(if quick { 160 } else { 4000 }) {
        let zs = (k % 5) as u32; let ws = ((k / 5) % 5) as u32;
        let z = wide_cx(&mut rng, zs); let w = wide_cx(&mut rng, ws);
        if w[0] == bits(0.0) && w[1] == bits(0.0) && k % 2 == 0 { continue; }      // a zero divisor only now and then
        // equal operands now and then (z op= z through a clone)
        if k % 9 == 4 { push(out, json!({"kind": "wide", "zb": z.clone(), "wb": z})); continue; }
        push(out, json!({"kind": "wide", "zb": z, "wb": w}));
    }
    // (s) call-count dependence: 2^20 + 64 consecutive calls of every operation (counts 255..257, 65535..65537 on the way)
    push(out, json!({"kind": "soak", "n": (1 << 20) + 64}));
    // (d) components of very different magnitude (ratios 1e-6 .. 1e-20, either component, either or both operands):
    //     the small component of a product / quotient must be accurate on its own (componentwise units)
    let hex = |re: f64, im: f64| -> [String; 2] { [bits(re), bits(im)] };
    for (z, w) in [((1.1, 3.3e-12), (0.7, -2.1e-12)), ((3.0, 0.0), (2.0, 1e-10)), ((1.0, 1e-20), (1.0, 0.0)), ((1e-20, 1.0), (0.0, 1.0)),
                   ((2.5, -1e-15), (2.5, -1e-15)), ((1e-9, 4.0), (3.0, 1e-13))] {
        push(out, json!({"kind": "wide", "zb": hex(z.0, z.1), "wb": hex(w.0, w.1)}));
    }
    let skew = |rng: &mut StdRng, mode: u32| -> [String; 2] {
        let base = 10f64.powf(rng.gen_range(-30.0..30.0)) * rng.gen_range(1.0..10.0);
        let ratio = 10f64.powf(-rng.gen_range(6.0..20.0)) * rng.gen_range(1.0..10.0);
        let sg = |rng: &mut StdRng, x: f64| if rng.gen_bool(0.5) { -x } else { x };
        match mode { 0 => hex(sg(rng, base), sg(rng, base * ratio)), 1 => hex(sg(rng, base * ratio), sg(rng, base)),
                     2 => hex(sg(rng, base), 0.0), 3 => hex(0.0, sg(rng, base)),
                     _ => { let f: f64 = rng.gen_range(0.1..10.0); hex(sg(rng, base), sg(rng, base * f)) } }
    };
    for k in 0..(if quick { 150 } else { 3000 }) {
        let (zm, wm) = ((k % 5) as u32, ((k / 5) % 5) as u32);
        if zm >= 2 && wm >= 2 { continue; }                       // at least one skewed operand
        let z = skew(&mut rng, zm); let w = if k % 11 == 3 { z.clone() } else { skew(&mut rng, wm) };
        push(out, json!({"kind": "wide", "zb": z, "wb": w}));
    }
}
