//! Suite "guards" (C20): every checked entry point of ohsl on every size/index tuple enumerated by
//! spec/MC_Guards.tla (kind "call"), clone/mutation interleavings enumerated by spec/MC_Ohsl.tla
//! (kind "clone") and random workspace sessions (kind "session").
//! An operand/result is projected to {"v": [dims..., integer values...], "h": 16-hex FNV-1a hash of the
//! dims and of the IEEE bit patterns} - "bit-for-bit unchanged" is equality of both.
use crate::util::*;
use ohsl::{Banded, Cmplx, Matrix, Mesh1D, Mesh2D, Newton, Polynomial, Sparse, Tridiagonal, Vector};
use rand::Rng;
use serde_json::{json, Value};
use std::collections::BTreeSet;
use std::sync::Mutex;

type V = Vector<f64>;
type M = Matrix<f64>;
type B = Banded<f64>;
type T3 = Tridiagonal<f64>;
type S = Sparse<f64>;
type M1 = Mesh1D<f64, f64>;
type M2 = Mesh2D<f64>;
type Pl = Polynomial<f64>;

static SEEN: Mutex<BTreeSet<String>> = Mutex::new(BTreeSet::new());

// ------------------------------------------------------------------ projections
fn pj(dims: &[usize], xs: &[f64]) -> Value {
    let mut h: u64 = 0xcbf29ce484222325;
    let mut eat = |w: u64| { for b in w.to_le_bytes() { h ^= b as u64; h = h.wrapping_mul(0x100000001b3); } };
    let mut v: Vec<i64> = Vec::with_capacity(dims.len() + xs.len());
    for d in dims { eat(*d as u64 ^ 0xD1D1_0000_0000_0000); v.push(if (*d as i64) < SAT && (*d as i64) >= 0 { *d as i64 } else { BAD }); }
    for x in xs { eat(x.to_bits()); v.push(if x.is_finite() && *x == x.trunc() && x.abs() < SAT as f64 { *x as i64 } else { BAD }); }
    let mut o = json!({"v": v, "h": format!("{:016x}", h)});
    if INEX.load(std::sync::atomic::Ordering::Relaxed) {
        // bit patterns as 16-hex strings; the sign of a zero and NaN payloads are not demanded
        o["x"] = Value::from(xs.iter().map(|x| if *x == 0.0 { bits(0.0) } else if x.is_nan() { bits(f64::NAN) } else { bits(*x) }).collect::<Vec<String>>());
    }
    o
}
static VSEED: std::sync::atomic::AtomicU64 = std::sync::atomic::AtomicU64::new(1);
static PAT: Mutex<String> = Mutex::new(String::new());
static INEX: std::sync::atomic::AtomicBool = std::sync::atomic::AtomicBool::new(false);
pub trait P { fn p(&self) -> Value; }
impl P for f64 { fn p(&self) -> Value { pj(&[], &[*self]) } }
impl P for usize { fn p(&self) -> Value { pj(&[*self], &[]) } }
impl P for () { fn p(&self) -> Value { pj(&[], &[]) } }
impl P for Cmplx { fn p(&self) -> Value { pj(&[], &[self.real, self.imag]) } }
impl P for V { fn p(&self) -> Value { pj(&[self.size()], &self.vec) } }
impl P for Vector<usize> { fn p(&self) -> Value { pj(&[self.size()], &self.vec.iter().map(|x| *x as f64).collect::<Vec<f64>>()) } }
impl P for Vector<Cmplx> { fn p(&self) -> Value { let mut xs = vec![]; for z in &self.vec { xs.push(z.real); xs.push(z.imag); } pj(&[self.size()], &xs) } }
fn mat_xs(m: &M) -> Vec<f64> { let mut xs = vec![]; for i in 0..m.rows() { for j in 0..m.cols() { xs.push(m[(i, j)]); } } xs }
impl P for M { fn p(&self) -> Value { pj(&[self.rows(), self.cols()], &mat_xs(self)) } }
impl P for B { fn p(&self) -> Value { let c = self.compact(); pj(&[self.size(), self.size_below(), self.size_above(), c.rows(), c.cols()], &mat_xs(c)) } }
impl P for T3 { fn p(&self) -> Value {
    let (a, b, c) = (self.subdiagonal(), self.maindiagonal(), self.superdiagonal());
    let mut xs = a.vec.clone(); xs.extend(&b.vec); xs.extend(&c.vec);
    pj(&[self.size(), a.size(), b.size(), c.size()], &xs) } }
impl P for Tridiagonal<Cmplx> { fn p(&self) -> Value {
    let mut xs = vec![];
    for d in [self.subdiagonal(), self.maindiagonal(), self.superdiagonal()] { for z in &d.vec { xs.push(z.real); xs.push(z.imag); } }
    pj(&[self.size(), self.subdiagonal().size(), self.maindiagonal().size(), self.superdiagonal().size()], &xs) } }
impl P for S { fn p(&self) -> Value {
    let mut xs = self.val.clone(); xs.extend(self.row_index.iter().map(|x| *x as f64)); xs.extend(self.col_start.iter().map(|x| *x as f64));
    pj(&[self.rows, self.cols, self.nonzero, self.val.len(), self.row_index.len(), self.col_start.len()], &xs) } }
impl P for M1 { fn p(&self) -> Value {
    let nodes = self.nodes(); let mut xs = nodes.vec.clone(); let mut dims = vec![self.nnodes(), self.nvars()];
    for k in 0..self.nnodes() { dims.push(self[k].size()); xs.extend(&self[k].vec); }
    pj(&dims, &xs) } }
impl P for M2 { fn p(&self) -> Value {
    let (nx, ny) = self.nnodes(); let mut xs = self.xnodes().vec.clone(); xs.extend(&self.ynodes().vec);
    let mut dims = vec![nx, ny, self.nvars()];
    for i in 0..nx { for j in 0..ny { dims.push(self[(i, j)].size()); xs.extend(&self[(i, j)].vec); } }
    pj(&dims, &xs) } }
impl P for Pl { fn p(&self) -> Value { let xs: Vec<f64> = (0..self.size()).map(|i| self[i]).collect(); pj(&[self.size()], &xs) } }
impl P for Option<f64> { fn p(&self) -> Value { match self { Some(x) => pj(&[1], &[*x]), None => pj(&[0], &[]) } } }
impl P for Result<usize, f64> { fn p(&self) -> Value { match self { Ok(n) => pj(&[1, *n], &[]), Err(e) => pj(&[0], &[*e]) } } }
impl P for Result<usize, &'static str> { fn p(&self) -> Value { match self { Ok(n) => pj(&[1, *n], &[]), Err(_) => pj(&[0], &[]) } } }
impl P for Vec<(usize, usize, f64)> { fn p(&self) -> Value { let mut xs = vec![]; for t in self { xs.push(t.0 as f64); xs.push(t.1 as f64); xs.push(t.2); } pj(&[self.len()], &xs) } }
impl<A: P, C: P> P for (A, C) { fn p(&self) -> Value { json!({"v": [self.0.p()["v"].clone(), self.1.p()["v"].clone()], "h": format!("{}{}", self.0.p()["h"].as_str().unwrap(), self.1.p()["h"].as_str().unwrap())}) } }
impl P for Newton<f64> { fn p(&self) -> Value { let (a, b, c, d) = self.parameters(); pj(&[c], &[a, b, d]) } }

// ------------------------------------------------------------------ control of operand construction
/// prep/old: how the receiver is AGED (built at the old size, brought to the tuple's size by a size-changing
/// operation); rhs/sc/mixed: operand VARIANT (second operand content, scalar code, entries with negatives, 0, -0.0)
#[derive(Clone, Default)]
struct Ctl { prep: String, old: Vec<usize>, rhs: String, sc: usize, mixed: bool }
static CTL: Mutex<Option<Ctl>> = Mutex::new(None);
static PREPS: Mutex<BTreeSet<String>> = Mutex::new(BTreeSet::new());
fn ctl() -> Ctl { CTL.lock().unwrap().clone().unwrap_or_default() }
fn aged(ty: &str) -> Option<Ctl> { let c = ctl(); if c.prep.starts_with(ty) { PREPS.lock().unwrap().insert(c.prep.clone()); Some(c) } else { None } }
const MIX: [f64; 8] = [-3.0, 0.0, -0.0, 2.0, -1.0, 5.0, -0.0, 4.0];
fn el(s: i64, k: usize) -> f64 { if ctl().mixed { MIX[(k + s as usize) % 8] } else { (s + k as i64) as f64 } }
fn scal(default: f64) -> f64 { match ctl().sc { 0 => default, 1 => 0.0, 2 => -0.0, 3 => 1.0, 4 => -1.0, 5 => 2.0, _ => 0.5 } }
fn alias() -> bool { ctl().rhs == "alias" }
fn rhs_kind() -> String { ctl().rhs }

// ------------------------------------------------------------------ operands (integer data, determined by the sizes)
fn vecf(n: usize, s: i64) -> V { Vector::create((0..n).map(|k| el(s, k)).collect()) }
fn matf(r: usize, c: usize, s: i64) -> M { let mut m = M::new(r, c, 0.0); for i in 0..r { for j in 0..c { m[(i, j)] = el(s, i * c + j); } } m }
/// strictly diagonally dominant (no zero pivot, nonsingular)
fn matdd(r: usize, c: usize) -> M { let mut m = M::new(r, c, 0.0); for i in 0..r { for j in 0..c { m[(i, j)] = if i == j { 16.0 + i as f64 } else { 1.0 + ((i + 2 * j) % 2) as f64 }; } } m }
fn band(n: usize, m1: usize, m2: usize, s: i64) -> B {
    let mut b = B::new(n, m1, m2, 0.0);
    let mixed = ctl().mixed;
    for i in 0..n { for j in 0..n { if j <= i + m2 && i <= j + m1 { b[(i, j)] = if mixed { el(s, i * n + j) } else if i == j { 32.0 + (s + i as i64) as f64 } else { 1.0 + ((s as usize + i + 2 * j) % 3) as f64 }; } } }
    b
}
fn tri(n: usize, s: i64) -> T3 {
    if n == 0 { return T3::empty(); }
    let mixed = ctl().mixed;
    T3::with_vecs((0..n - 1).map(|k| el(s, k)).collect(), (0..n).map(|k| if mixed { el(s + 3, k) } else { (16 + s + k as i64) as f64 }).collect(), (0..n - 1).map(|k| el(s + 2, k)).collect())
}
/// square: symmetric positive definite tridiagonal pattern; otherwise diagonal entries plus a corner
fn sparse(r: usize, c: usize) -> S {
    let mut t: Vec<(usize, usize, f64)> = vec![];
    for i in 0..r.min(c) { t.push((i, i, 8.0 + i as f64)); if i + 1 < r.min(c) { t.push((i + 1, i, 1.0)); t.push((i, i + 1, 1.0)); } }
    if r > 0 && c > 0 && r != c { t.push((r - 1, c - 1, 3.0)); t.dedup_by(|a, b| a.0 == b.0 && a.1 == b.1); }
    S::from_triplets(r, c, &mut t)
}
fn mesh1(nn: usize, nv: usize) -> M1 { let mut m = M1::new(vecf(nn, 0), nv); for k in 0..nn { for v in 0..nv { m[k][v] = (1 + k * nv + v) as f64; } } m }
fn mesh2(nx: usize, ny: usize, nv: usize) -> M2 { let mut m = M2::new(vecf(nx, 0), vecf(ny, 10), nv); for i in 0..nx { for j in 0..ny { for v in 0..nv { m[(i, j)][v] = (1 + (i * ny + j) * nv + v) as f64; } } } m }
fn poly(len: usize, s: i64) -> Pl { Pl::new((0..len).map(|k| el(s, k)).collect()) }
fn cvec(n: usize, s: i64) -> Vector<Cmplx> { Vector::create((0..n).map(|k| Cmplx::new((s + k as i64) as f64, (k as i64 - s) as f64)).collect()) }
// ------------------------------------------------------------------ aged receivers: old size -> size-changing operation -> new size
// (loops are counted, never "while size() > n": a stale size must not hang the harness; the content is then
//  rewritten through in-range raw index writes so that it equals the fresh operand's)
fn a_vec(n: usize, s: i64) -> V {
    let c = match aged("vec.") { Some(c) => c, None => return vecf(n, s) };
    let o = c.old[0]; let mut v = vecf(o, s + 50);
    match c.prep.as_str() {
        "vec.resize" => v.resize(n),
        "vec.pop_push" => { for _ in n..o { v.pop(); } for _ in o..n { v.push(0.0); } }
        "vec.clear" => v.clear(),
        _ => { v.clear(); for _ in 0..n { v.insert(0, 0.0); } }
    }
    for k in 0..n { v[k] = el(s, k); }
    v
}
fn a_mat(r: usize, c: usize, s: i64, dd: bool) -> M {
    let f = if dd { matdd(r, c) } else { matf(r, c, s) };
    let ct = match aged("mat.") { Some(ct) => ct, None => return f };
    let (or, oc) = (ct.old[0], ct.old[1]); let mut m = matf(or, oc, s + 50);
    match ct.prep.as_str() {
        "mat.resize" => m.resize(r, c),
        "mat.delete_row" => { for k in r..or { m.delete_row(if k % 2 == 0 { 0 } else { m.rows() - 1 }); } }
        "mat.transpose_in_place" => m.transpose_in_place(),
        "mat.clear" => m.clear(),
        // same rows*cols throughout: 1 x rc -> rc x 1 -> c x r -> r x c
        "mat.reshape_chain" => { m.resize(r * c, 1); m.resize(c, r); m.resize(r, c); }
        _ => { m.clear(); m.resize(r, c); }
    }
    for i in 0..r { for j in 0..c { m[(i, j)] = f[(i, j)]; } }
    m
}
fn a_band(n: usize, m1: usize, m2: usize, s: i64) -> B {
    let f = band(n, m1, m2, s);
    let c = match aged("band.") { Some(c) => c, None => return f };
    let mut b = band(c.old[0], c.old[1], c.old[2], s + 50);
    b.resize(n, m1, m2); b.fill(0.0);
    for i in 0..n { for j in 0..n { if j <= i + m2 && i <= j + m1 { b[(i, j)] = f[(i, j)]; } } }
    b
}
fn a_tri(n: usize, s: i64) -> T3 {
    let f = tri(n, s);
    let c = match aged("tri.") { Some(c) => c, None => return f };
    let mut t = tri(c.old[0], s + 50);
    t.resize(n);
    for i in 0..n { t[(i, i)] = f[(i, i)]; if i + 1 < n { t[(i, i + 1)] = f[(i, i + 1)]; t[(i + 1, i)] = f[(i + 1, i)]; } }
    t
}
fn a_sparse(r: usize, c: usize) -> S {
    let ct = match aged("sparse.") { Some(ct) => ct, None => return sparse(r, c) };
    if ct.prep == "sparse.transpose" { return sparse(c, r).transpose(); }
    if ct.prep == "sparse.transpose2" { return sparse(r, c).transpose().transpose(); }
    let mut a = sparse(r, c);
    if r > 0 && c > 0 { a.insert(r - 1, 0, 5.0); a.insert(0, c - 1, 5.0); a.insert(0, 0, 9.0); a.insert(r / 2, c / 2, 7.0); }
    a
}
fn a_poly(len: usize, s: i64) -> Pl {
    let c = match aged("poly.") { Some(c) => c, None => return poly(len, s) };
    let o = c.old[0];
    let mut p = match c.prep.as_str() {
        "poly.push" => { let mut p = poly(o, s + 50); for _ in o..len { p.coeffs().push(0.0); } p }
        "poly.pop" => { let mut p = poly(o, s + 50); for _ in len..o { p.coeffs().pop(); } p }
        "poly.pop_push" => { let mut p = poly(o, s + 50); p.coeffs().pop(); p.coeffs().push(0.0); p }
        _ => { let mut d: Vec<f64> = (0..len).map(|k| 1.0 + k as f64).collect(); for _ in len..o { d.push(0.0); } let mut p = Pl::new(d); p.trim(); p }
    };
    for k in 0..len { p[k] = el(s, k); }
    p
}
fn scratch(name: &str) -> String {
    let d = format!("{}/../out/C20", env!("CARGO_MANIFEST_DIR")); std::fs::create_dir_all(&d).unwrap(); format!("{}/{}", d, name)
}
fn mesh_file(nn: usize, nv: usize, f: &dyn Fn(usize, usize) -> i64) -> String {
    let path = scratch("mesh1_read.txt"); let mut txt = String::new();
    for k in 0..nn { txt += &format!("{}", k); for v in 0..nv { txt += &format!(" {}", f(k, v)); } txt += "\n"; }
    std::fs::write(&path, txt).unwrap(); path
}
fn a_mesh1(nn: usize, nv: usize) -> M1 {
    let c = match aged("mesh1.") { Some(c) => c, None => return mesh1(nn, nv) };
    let mut m = mesh1(c.old[0], nv);
    m.read(&mesh_file(nn, nv, &|k, v| (1 + k * nv + v) as i64));
    m
}

// ------------------------------------------------------------------ second operands of the variants
fn rhs_vec(a: &V, n: usize, s: i64) -> V { match rhs_kind().as_str() {
    "same" | "alias" if a.size() == n => V::create(a.vec.clone()), "zero" => V::create(vec![0.0; n]), "eye" => V::create(vec![1.0; n]), _ => vecf(n, s) } }
fn rhs_mat(r: usize, c: usize, s: i64, sa: i64) -> M { match rhs_kind().as_str() {
    "same" | "alias" => matf(r, c, sa), "zero" => M::new(r, c, 0.0), "eye" => { let mut m = M::new(r, c, 0.0); for i in 0..r.min(c) { m[(i, i)] = 1.0; } m } _ => matf(r, c, s) } }
fn rhs_band(n: usize, m1: usize, m2: usize, s: i64, sa: i64) -> B { match rhs_kind().as_str() {
    "same" | "alias" => band(n, m1, m2, sa), "zero" => B::new(n, m1, m2, 0.0), "eye" => { let mut b = B::new(n, m1, m2, 0.0); for i in 0..n { b[(i, i)] = 1.0; } b } _ => band(n, m1, m2, s) } }
fn rhs_tri(n: usize, s: i64, sa: i64) -> T3 { if n == 0 { return T3::empty(); } match rhs_kind().as_str() {
    "same" | "alias" => tri(n, sa), "zero" => T3::with_vecs(vec![0.0; n - 1], vec![0.0; n], vec![0.0; n - 1]), "eye" => T3::with_vecs(vec![0.0; n - 1], vec![1.0; n], vec![0.0; n - 1]), _ => tri(n, s) } }
fn rhs_poly(len: usize, s: i64, sa: i64) -> Pl { match rhs_kind().as_str() {
    "same" | "alias" => poly(len, sa), "zero" => Pl::new(vec![0.0; len]), "eye" => Pl::new((0..len).map(|k| if k == 0 { 1.0 } else { 0.0 }).collect()), _ => poly(len, s) } }

fn cmat_xs(m: &Matrix<Cmplx>) -> Vec<f64> { let mut xs = vec![]; for i in 0..m.rows() { for j in 0..m.cols() { xs.push(m[(i, j)].real); xs.push(m[(i, j)].imag); } } xs }
impl P for Matrix<Cmplx> { fn p(&self) -> Value { pj(&[self.rows(), self.cols()], &cmat_xs(self)) } }
impl P for Banded<Cmplx> { fn p(&self) -> Value { let c = self.compact(); pj(&[self.size(), self.size_below(), self.size_above(), c.rows(), c.cols()], &cmat_xs(c)) } }
impl P for Polynomial<Cmplx> { fn p(&self) -> Value { let mut xs = vec![]; for i in 0..self.size() { xs.push(self[i].real); xs.push(self[i].imag); } pj(&[self.size()], &xs) } }
impl P for Result<(Pl, Pl), &'static str> { fn p(&self) -> Value { match self { Ok(qr) => qr.p(), Err(_) => pj(&[0], &[]) } } }
impl P for Result<f64, f64> { fn p(&self) -> Value { match self { Ok(x) => pj(&[1], &[*x]), Err(x) => pj(&[0], &[*x]) } } }
impl P for (f64, f64, usize, f64) { fn p(&self) -> Value { pj(&[self.2], &[self.0, self.1, self.3]) } }

// ------------------------------------------------------------------ recording one group on one tuple
struct Rec { g: String, forms: Vec<Value> }
impl Rec {
    /// br: projections of the borrowed operands before/after (logged when the call returned);
    /// tg: projection of the target object before/after (logged when the call panicked)
    fn push(&mut self, f: &str, r: Result<Value, String>, br: Option<(Vec<Value>, Vec<Value>)>, tg: Option<(Value, Value)>) {
        let mut o = json!({"f": f, "panic": r.is_err()});
        match r {
            Ok(v) => { o["res"] = v; if let Some((a, b)) = br { o["pre"] = Value::from(a); o["post"] = Value::from(b); } }
            Err(_) => { if let Some((a, b)) = tg { o["opre"] = a; o["opost"] = b; } }
        }
        SEEN.lock().unwrap().insert(format!("{}.{}", self.g, f));
        self.forms.push(o);
    }
}
/// a form whose operands `[$o, ...]` are borrowed: they are projected before and after the call
macro_rules! bref { ($rec:expr, $f:expr, [$($o:expr),*], $call:expr) => {{
    let pre = vec![$($o.p()),*];
    let r = guarded(|| $call).map(|x| x.p());
    let post = vec![$($o.p()),*];
    $rec.push($f, r, Some((pre, post)), None);
}} }
/// a consuming form (or constructor): only the outcome and the result
macro_rules! own { ($rec:expr, $f:expr, $call:expr) => {{ let r = guarded(|| $call).map(|x| x.p()); $rec.push($f, r, None, None); }} }
/// a mutating accessor on the target `$obj`: its projection before/after matters when the call panics
macro_rules! tgt { ($rec:expr, $f:expr, $obj:expr, $call:expr) => {{
    let pre = $obj.p();
    let r = guarded(|| { $call; });
    let post = $obj.p();
    $rec.push($f, r.map(|_| post.clone()), None, Some((pre, post)));
}} }

// ------------------------------------------------------------------ the entry points, by group
fn call_vec(rec: &mut Rec, op: &str, u: &[usize]) -> bool {
    let a = a_vec(u[0], 1);
    match op {
        "vec.add" | "vec.sub" => {
            let b = rhs_vec(&a, u[1], 20); let add = op == "vec.add"; let bb = if alias() { &a } else { &b };
            bref!(rec, "ref", [a, bb], if add { &a + bb } else { &a - bb });
            let a2 = a.clone(); bref!(rec, "mix", [bb], if add { a2 + bb } else { a2 - bb });
            own!(rec, "own", if add { a.clone() + b.clone() } else { a.clone() - b.clone() });
        }
        "vec.add_assign" => { let b = rhs_vec(&a, u[1], 20); let mut x = a.clone(); own!(rec, "own", { x += b.clone(); x }); }
        "vec.sub_assign" => { let b = rhs_vec(&a, u[1], 20); let mut x = a.clone(); own!(rec, "own", { x -= b.clone(); x }); }
        "vec.dot" => { let b = rhs_vec(&a, u[1], 20); let bb = if alias() { &a } else { &b }; bref!(rec, "method", [a, bb], a.dot(bb)); }
        "vec.dot_f64" => { let b = rhs_vec(&a, u[1], 20); let bb = if alias() { &a } else { &b }; bref!(rec, "method", [a, bb], a.dot_f64(bb)); }
        "vec.sum_slice" => bref!(rec, "method", [a], a.sum_slice(u[1], u[2])),
        "vec.product_slice" => bref!(rec, "method", [a], a.product_slice(u[1], u[2])),
        "vec.index_get" => bref!(rec, "method", [a], a[u[1]]),
        "vec.index_set" => { let mut x = a; tgt!(rec, "method", x, x[u[1]] = 99.0); }
        "vec.swap" => { let mut x = a; tgt!(rec, "method", x, x.swap(u[1], u[2])); }
        "vec.insert" => { let mut x = a; tgt!(rec, "method", x, x.insert(u[1], 99.0)); }
        "vec.pop" => { let mut x = a; tgt!(rec, "method", x, x.pop()); }
        "vec.sum" => bref!(rec, "method", [a], a.sum()),
        "vec.product" => bref!(rec, "method", [a], a.product()),
        "vec.abs" => { let x = -a; bref!(rec, "method", [x], x.abs()); }
        "vec.norm_1" => bref!(rec, "method", [a], a.norm_1()),
        "vec.norm_2" => bref!(rec, "method", [a], a.norm_2()),
        "vec.norm_p" => bref!(rec, "method", [a], a.norm_p(3.0)),
        "vec.norm_inf" => bref!(rec, "method", [a], a.norm_inf()),
        "vec.find" => bref!(rec, "method", [a], a.find(1.0)),
        "vec.clone" => bref!(rec, "method", [a], a.clone()),
        "vec.conj" => { let z = cvec(u[0], 1); bref!(rec, "method", [z], z.conj()); }
        "vec.real" => { let z = cvec(u[0], 1); bref!(rec, "method", [z], z.real()); }
        _ => return false,
    }
    true
}

fn call_mat(rec: &mut Rec, op: &str, u: &[usize]) -> bool {
    let a = a_mat(u[0], u[1], 1, false);
    match op {
        "mat.add" | "mat.sub" => {
            let b = rhs_mat(u[2], u[3], 40, 1); let add = op == "mat.add"; let bb = if alias() { &a } else { &b };
            bref!(rec, "ref", [a, bb], if add { &a + bb } else { &a - bb });
            own!(rec, "own", if add { a.clone() + b.clone() } else { a.clone() - b.clone() });
        }
        "mat.add_assign" | "mat.sub_assign" => {
            let b = rhs_mat(u[2], u[3], 40, 1); let add = op == "mat.add_assign"; let bb = if alias() { &a } else { &b };
            let mut x = a.clone(); bref!(rec, "ref", [bb], { if add { x += bb } else { x -= bb }; x });
            let mut y = a.clone(); own!(rec, "own", { if add { y += b.clone() } else { y -= b.clone() }; y });
        }
        "mat.matmul" => { let b = rhs_mat(u[2], u[3], 40, 1); let bb = if alias() { &a } else { &b }; bref!(rec, "ref", [a, bb], &a * bb); own!(rec, "own", a.clone() * b.clone()); }
        "mat.matvec" => {
            let v = rhs_vec(&V::empty(), u[2], 3);
            bref!(rec, "ref", [a, v], &a * &v); own!(rec, "own", a.clone() * v.clone()); bref!(rec, "method", [a, v], a.multiply(&v));
        }
        "mat.get_row" => bref!(rec, "method", [a], a.get_row(u[2])),
        "mat.get_col" => bref!(rec, "method", [a], a.get_col(u[2])),
        "mat.delete_row" => { let mut x = a; tgt!(rec, "method", x, x.delete_row(u[2])); }
        "mat.fill_row" => { let mut x = a; tgt!(rec, "method", x, x.fill_row(u[2], 99.0)); }
        "mat.fill_col" => { let mut x = a; tgt!(rec, "method", x, x.fill_col(u[2], 99.0)); }
        "mat.set_row" => { let mut x = a; tgt!(rec, "method", x, x.set_row(u[2], vecf(u[3], 70))); }
        "mat.set_col" => { let mut x = a; tgt!(rec, "method", x, x.set_col(u[2], vecf(u[3], 70))); }
        "mat.swap_rows" => { let mut x = a; tgt!(rec, "method", x, x.swap_rows(u[2], u[3])); }
        "mat.solve_basic" => { let mut x = a_mat(u[0], u[1], 1, true); let b = vecf(u[2], 1); bref!(rec, "method", [b], x.solve_basic(&b)); }
        "mat.solve_lu" => { let mut x = a_mat(u[0], u[1], 1, true); let b = vecf(u[2], 1); bref!(rec, "method", [b], x.solve_lu(&b)); }
        "mat.lu_decomp_in_place" => { let mut x = a_mat(u[0], u[1], 1, true); own!(rec, "method", { let r = x.lu_decomp_in_place(); (x, r) }); }
        "mat.determinant" => { let x = a_mat(u[0], u[1], 1, true); bref!(rec, "method", [x], x.determinant()); }
        "mat.inverse" => { let x = a_mat(u[0], u[1], 1, true); bref!(rec, "method", [x], x.inverse()); }
        "mat.neg" => { bref!(rec, "ref", [a], -&a); own!(rec, "own", -(a.clone())); }
        "mat.mul_scalar" => { let k = scal(3.0); bref!(rec, "ref", [a], &a * k); own!(rec, "own", a.clone() * k); }
        "mat.div_scalar" => { let k = scal(2.0); bref!(rec, "ref", [a], &a / k); own!(rec, "own", a.clone() / k); }
        "mat.transpose" => bref!(rec, "method", [a], a.transpose()),
        "mat.norm_1" => bref!(rec, "method", [a], a.norm_1()),
        "mat.norm_inf" => bref!(rec, "method", [a], a.norm_inf()),
        "mat.norm_p" => bref!(rec, "method", [a], a.norm_p(3.0)),
        "mat.norm_frob" => bref!(rec, "method", [a], a.norm_frob()),
        "mat.norm_max" => bref!(rec, "method", [a], a.norm_max()),
        "mat.clone" => bref!(rec, "method", [a], a.clone()),
        _ => return false,
    }
    true
}

fn call_band(rec: &mut Rec, op: &str, u: &[usize], t: &[i64]) -> bool {
    let a = a_band(u[0], u[1], u[2], 1);
    match op {
        "band.add" | "band.sub" => {
            let b = rhs_band(u[3], u[4], u[5], 5, 1); let add = op == "band.add"; let bb = if alias() { &a } else { &b };
            bref!(rec, "ref", [a, bb], if add { &a + bb } else { &a - bb });
            own!(rec, "own", if add { a.clone() + b.clone() } else { a.clone() - b.clone() });
        }
        "band.add_assign" | "band.sub_assign" => {
            let b = rhs_band(u[3], u[4], u[5], 5, 1); let add = op == "band.add_assign"; let bb = if alias() { &a } else { &b };
            let mut x = a.clone(); bref!(rec, "ref", [bb], { if add { x += bb } else { x -= bb }; x });
            let mut y = a.clone(); own!(rec, "own", { if add { y += b.clone() } else { y -= b.clone() }; y });
        }
        "band.matvec" => { let v = rhs_vec(&V::empty(), u[3], 3); bref!(rec, "ref", [a, v], &a * &v); own!(rec, "own", a.clone() * v.clone()); }
        "band.solve" => { let v = vecf(u[3], 3); bref!(rec, "method", [a, v], a.solve(&v)); }
        "band.fill_band" => { let mut x = a; tgt!(rec, "method", x, x.fill_band(t[3] as isize, 99.0)); }
        "band.neg" => { bref!(rec, "ref", [a], -&a); own!(rec, "own", -(a.clone())); }
        "band.mul_scalar" => { let k = scal(3.0); bref!(rec, "ref", [a], &a * k); own!(rec, "own", a.clone() * k); }
        "band.div_scalar" => { let k = scal(2.0); bref!(rec, "ref", [a], &a / k); own!(rec, "own", a.clone() / k); }
        "band.det" => bref!(rec, "method", [a], a.det()),
        "band.clone" => bref!(rec, "method", [a], a.clone()),
        _ => return false,
    }
    true
}

fn ctri(n: usize) -> Tridiagonal<Cmplx> {
    if n == 0 { return Tridiagonal::<Cmplx>::empty(); }
    Tridiagonal::with_vectors(cvec(n - 1, 1), cvec(n, 20), cvec(n - 1, 3))
}
fn call_tri(rec: &mut Rec, op: &str, u: &[usize]) -> bool {
    match op {
        "tri.with_vectors" => own!(rec, "own", T3::with_vectors(vecf(u[0], 1), vecf(u[1], 20), vecf(u[2], 3))),
        "tri.with_vecs" => own!(rec, "own", T3::with_vecs(vecf(u[0], 1).vec, vecf(u[1], 20).vec, vecf(u[2], 3).vec)),
        "tri.add" => own!(rec, "own", a_tri(u[0], 1) + rhs_tri(u[1], 5, 1)),
        "tri.sub" => own!(rec, "own", a_tri(u[0], 1) - rhs_tri(u[1], 5, 1)),
        "tri.matvec" => { let a = a_tri(u[0], 1); let v = rhs_vec(&V::empty(), u[1], 3); bref!(rec, "ref", [a, v], &a * &v); own!(rec, "own", a.clone() * v.clone()); }
        "tri.solve" => { let a = a_tri(u[0], 1); let v = vecf(u[1], 3); bref!(rec, "method", [a, v], a.solve(&v)); }
        "tri.index_get" => { let a = a_tri(u[0], 1); bref!(rec, "method", [a], a[(u[1], u[2])]); }
        "tri.index_set" => { let mut a = a_tri(u[0], 1); tgt!(rec, "method", a, a[(u[1], u[2])] = 99.0); }
        "tri.det" => { let a = a_tri(u[0], 1); bref!(rec, "method", [a], a.det()); }
        "tri.convert" => { let a = a_tri(u[0], 1); bref!(rec, "method", [a], a.convert()); }
        "tri.transpose" => { let a = a_tri(u[0], 1); bref!(rec, "method", [a], a.transpose()); }
        "tri.conj" => { let a = ctri(u[0]); bref!(rec, "method", [a], a.conj()); }
        "tri.clone" => { let a = a_tri(u[0], 1); bref!(rec, "method", [a], a.clone()); }
        _ => return false,
    }
    true
}

fn call_sparse(rec: &mut Rec, op: &str, u: &[usize]) -> bool {
    let (r, c) = (u[0], u[1]);
    match op {
        "sparse.from_triplets" => {
            // valid diagonal fillers around the probed entry (i, j)
            let mut ts: Vec<(usize, usize, f64)> = vec![];
            for k in 0..r.min(c) { if (k, k) != (u[2], u[3]) { ts.push((k, k, 1.0 + k as f64)); } }
            ts.insert(ts.len() / 2, (u[2], u[3], 7.0));
            own!(rec, "own", S::from_triplets(r, c, &mut ts));
        }
        "sparse.get" => { let a = a_sparse(r, c); bref!(rec, "method", [a], a.get(u[2], u[3])); }
        "sparse.insert" => { let mut a = a_sparse(r, c); tgt!(rec, "method", a, a.insert(u[2], u[3], 99.0)); }
        "sparse.multiply" => { let a = a_sparse(r, c); let v = vecf(u[2], 3); bref!(rec, "method", [a, v], a.multiply(&v)); }
        "sparse.transpose_multiply" => { let a = a_sparse(r, c); let v = vecf(u[2], 3); bref!(rec, "method", [a, v], a.transpose_multiply(&v)); }
        "sparse.solve_cg" | "sparse.solve_bicgstab" | "sparse.solve_qmr" | "sparse.solve_bicg" => {
            let a = a_sparse(r, c); let b = vecf(u[2], 1); let mut x = V::new(u[3], 0.0);
            let itol = 1 + u[2] % 2;
            bref!(rec, "method", [a, b], { let res = match op {
                "sparse.solve_cg" => a.solve_cg(&b, &mut x, 50, 1.0e-10),
                "sparse.solve_bicgstab" => a.solve_bicgstab(&b, &mut x, 50, 1.0e-10),
                "sparse.solve_qmr" => a.solve_qmr(&b, &mut x, 50, 1.0e-10),
                _ => a.solve_bicg(&b, &mut x, 50, 1.0e-10, itol) }; (res, x) });
        }
        "sparse.col_index" => { let a = a_sparse(r, c); bref!(rec, "method", [a], a.col_index()); }
        "sparse.to_triplets" => { let a = a_sparse(r, c); bref!(rec, "method", [a], a.to_triplets()); }
        "sparse.to_dense" => { let a = a_sparse(r, c); bref!(rec, "method", [a], a.to_dense()); }
        "sparse.transpose" => { let a = a_sparse(r, c); bref!(rec, "method", [a], a.transpose()); }
        _ => return false,
    }
    true
}

fn call_mesh(rec: &mut Rec, op: &str, u: &[usize]) -> bool {
    match op {
        "mesh1.set_nodes_vars" => { let mut m = a_mesh1(u[0], u[1]); tgt!(rec, "method", m, m.set_nodes_vars(u[2], vecf(u[3], 70))); }
        "mesh1.get_nodes_vars" => { let m = a_mesh1(u[0], u[1]); bref!(rec, "method", [m], m.get_nodes_vars(u[2])); }
        "mesh1.index_get" => { let m = a_mesh1(u[0], u[1]); bref!(rec, "method", [m], V::create(m[u[2]].vec.clone())); }
        "mesh1.index_set" => { let mut m = a_mesh1(u[0], u[1]); tgt!(rec, "method", m, if u[1] >= 1 { m[u[2]][0] = 99.0 } else { m[u[2]] = V::empty() }); }
        "mesh2.set_nodes_vars" => { let mut m = mesh2(u[0], u[1], u[2]); tgt!(rec, "method", m, m.set_nodes_vars(u[3], u[4], vecf(u[5], 70))); }
        "mesh2.get_nodes_vars" => { let m = mesh2(u[0], u[1], 2); bref!(rec, "method", [m], m.get_nodes_vars(u[2], u[3])); }
        "mesh2.cross_section_xnode" => { let m = mesh2(u[0], u[1], 2); bref!(rec, "method", [m], m.cross_section_xnode(u[2])); }
        "mesh2.cross_section_ynode" => { let m = mesh2(u[0], u[1], 2); bref!(rec, "method", [m], m.cross_section_ynode(u[2])); }
        "mesh2.var_as_matrix" => { let m = mesh2(u[0], u[1], u[2]); bref!(rec, "method", [m], m.var_as_matrix(u[3])); }
        "mesh1.get_interpolated_vars" => { let m = a_mesh1(u[0], u[1]); bref!(rec, "method", [m], m.get_interpolated_vars(0.5)); }
        "mesh1.trapezium" => { let m = a_mesh1(u[0], u[1]); bref!(rec, "method", [m], m.trapezium(0)); }
        "mesh1.nodes" => { let m = a_mesh1(u[0], u[1]); bref!(rec, "method", [m], m.nodes()); }
        "mesh2.trapezium" => { let m = mesh2(u[0], u[1], 1); bref!(rec, "method", [m], m.trapezium(0)); }
        "mesh2.square_trapezium" => { let m = mesh2(u[0], u[1], 1); bref!(rec, "method", [m], m.square_trapezium(0)); }
        "mesh2.nodes" => { let m = mesh2(u[0], u[1], 1); bref!(rec, "method", [m], (m.xnodes(), m.ynodes())); }
        _ => return false,
    }
    true
}

fn call_poly(rec: &mut Rec, op: &str, u: &[usize]) -> bool {
    let p = a_poly(u[0], 1);
    match op {
        "poly.index_get" => bref!(rec, "method", [p], p[u[1]]),
        "poly.index_set" => { let mut x = p; tgt!(rec, "method", x, x[u[1]] = 99.0); }
        "poly.roots_f64" => bref!(rec, "method", [p], p.roots(u[0] % 2 == 0)),
        "poly.roots_cx" => { let z = Polynomial::<Cmplx>::new(cvec(u[0], 1).vec); bref!(rec, "method", [z], z.roots(u[0] % 2 == 1)); }
        "poly.add" => { let q = rhs_poly(u[1], 9, 1); let qq = if alias() { &p } else { &q }; bref!(rec, "ref", [p, qq], &p + qq); own!(rec, "own", p.clone() + q.clone()); }
        "poly.sub" => { let q = rhs_poly(u[1], 9, 1); let qq = if alias() { &p } else { &q }; bref!(rec, "ref", [p, qq], &p - qq); own!(rec, "own", p.clone() - q.clone()); }
        "poly.mul" => { let q = rhs_poly(u[1], 9, 1); let qq = if alias() { &p } else { &q }; bref!(rec, "ref", [p, qq], &p * qq); own!(rec, "own", p.clone() * q.clone()); }
        "poly.neg" => { bref!(rec, "ref", [p], -&p); own!(rec, "own", -(p.clone())); }
        "poly.mul_scalar" => { let k = scal(3.0); bref!(rec, "ref", [p], &p * k); own!(rec, "own", p.clone() * k); }
        "poly.eval" => bref!(rec, "method", [p], p.eval(2.0)),
        "poly.derivative" => bref!(rec, "method", [p], p.derivative()),
        "poly.derivative_n" => bref!(rec, "method", [p], p.derivative_n(2.min(u[0].saturating_sub(1)))),
        "poly.derivative_at" => bref!(rec, "method", [p], p.derivative_at(2.0, 1.min(u[0].saturating_sub(1)))),
        "poly.polydiv" => { let q = poly(u[1], 2); bref!(rec, "method", [p, q], p.polydiv(&q)); }
        "poly.degree" => bref!(rec, "method", [p], p.degree()),
        "poly.clone" => bref!(rec, "method", [p], p.clone()),
        _ => return false,
    }
    true
}

fn call_newton(rec: &mut Rec, op: &str, u: &[usize]) -> bool {
    let nw = Newton::<f64>::new(u[0] as f64);
    match op {
        "newton.parameters" => bref!(rec, "method", [nw], nw.parameters()),
        "newton.solve" => bref!(rec, "method", [nw], nw.solve(&|x: f64| x * x - 2.0)),
        _ => return false,
    }
    true
}

/// execute every form of group `g` on tuple `t`
fn call(g: &str, t: &[i64], c: Ctl) -> Vec<Value> {
    *CTL.lock().unwrap() = Some(c);
    let u: Vec<usize> = t.iter().map(|x| if *x < 0 { usize::MAX / 4 } else { *x as usize }).collect();
    let mut rec = Rec { g: g.to_string(), forms: vec![] };
    let pat = PAT.lock().unwrap().clone();
    INEX.store(pat.starts_with("inexact"), std::sync::atomic::Ordering::Relaxed);
    if let Some(rest) = pat.strip_prefix("inexact") {
        let (cx, sd) = match rest.strip_prefix('c') { Some(n) => (true, n.parse::<u64>().unwrap_or(1)), None => (false, rest.parse::<u64>().unwrap_or(1)) };
        let sd = sd + 1000 * VSEED.load(std::sync::atomic::Ordering::Relaxed);
        let ok = if cx { inexact_call::<Cmplx>(&mut rec, g, &u, sd + 100) } else { inexact_call::<f64>(&mut rec, g, &u, sd) };
        if !ok { eprintln!("TOOL-ERROR guards: no inexact binding for group {}", g); std::process::exit(2) }
        return rec.forms;
    }
    let ok = match g.split('.').next().unwrap_or("") {
        "vec" => call_vec(&mut rec, g, &u), "mat" => call_mat(&mut rec, g, &u), "band" => call_band(&mut rec, g, &u, t),
        "tri" => call_tri(&mut rec, g, &u), "sparse" => call_sparse(&mut rec, g, &u),
        "mesh1" | "mesh2" => call_mesh(&mut rec, g, &u), "poly" => call_poly(&mut rec, g, &u), "newton" => call_newton(&mut rec, g, &u),
        _ => false };
    if !ok { eprintln!("TOOL-ERROR guards: no harness binding for entry point group {}", g); std::process::exit(2) }
    rec.forms
}

pub fn exec(case: &Value, out: &mut Out) {
    let cid = geti(case, "cid");
    match gets(case, "kind") {
        "call" => {
            let g = gets(case, "op"); let t = ivec(&case["t"]);
            // a panic OUTSIDE the guarded calls (building or projecting a well-formed operand) is data too:
            // the event then carries no forms and the trace specification rejects it
            let c = Ctl { prep: gets(case, "prep").to_string(), old: ivec(&case["old"]).iter().map(|x| *x as usize).collect(), rhs: gets(case, "rhs").to_string(),
                          sc: case.get("sc").and_then(|v| v.as_u64()).unwrap_or(0) as usize, mixed: gets(case, "pat") == "mixed" };
            let var = json!({"prep": case.get("prep").cloned().unwrap_or(json!("")), "old": case.get("old").cloned().unwrap_or(json!([])), "rhs": case.get("rhs").cloned().unwrap_or(json!("other")), "sc": c.sc, "pat": case.get("pat").cloned().unwrap_or(json!("plain"))});
            *PAT.lock().unwrap() = gets(case, "pat").to_string();
            VSEED.store(case.get("vseed").and_then(|v| v.as_u64()).unwrap_or(1), std::sync::atomic::Ordering::Relaxed);
            match guarded(|| call(g, &t, c)) {
                Ok(forms) => out.ev(json!({"op": "call", "g": g, "t": t, "accept": case["accept"], "forms": forms, "var": var, "cid": cid})),
                Err(msg) => out.ev(json!({"op": "call", "g": g, "t": t, "accept": case["accept"], "forms": [], "crash": msg, "var": var, "cid": cid})),
            }
        }
        // the entry points executed so far by this process (the driver puts this case last)
        "coverage" => { let seen: Vec<String> = SEEN.lock().unwrap().iter().cloned().collect(); let preps: Vec<String> = PREPS.lock().unwrap().iter().cloned().collect(); out.ev(json!({"op": "coverage", "seen": seen, "preps": preps, "cid": cid})); }
        // a TLC-enumerated interleaving: create the value (id 1), clone it (id 2), then the mutations of either
        "clone" => {
            let mut steps = vec![json!({"act": "create", "oid": 1, "init": case["init"]}), json!({"act": "clone", "oid": 2, "src": 1})];
            for st in case["steps"].as_array().unwrap() { steps.push(json!({"act": "mutate", "oid": st["who"], "o": st["o"]})); }
            exec_session(&json!({"cid": cid, "steps": steps}), out)
        }
        "session" => exec_session(case, out),
        k => { eprintln!("TOOL-ERROR guards: unknown case kind {}", k); std::process::exit(2) }
    }
}

// ================================================================== by-reference vs consuming forms on INEXACT data
/// element types of the inexact family: f64 and Complex<f64>
trait Gx: Copy + ohsl::Number + ohsl::Signed + PartialOrd + std::fmt::Debug + Send + Sync + 'static { fn mk(a: f64, b: f64) -> Self; }
impl Gx for f64 { fn mk(a: f64, _b: f64) -> f64 { a } }
impl Gx for Cmplx { fn mk(a: f64, b: f64) -> Cmplx { Cmplx::new(a, b) } }
fn mix64(mut z: u64) -> u64 { z = z.wrapping_add(0x9E3779B97F4A7C15); z = (z ^ (z >> 30)).wrapping_mul(0xBF58476D1CE4E5B9); z = (z ^ (z >> 27)).wrapping_mul(0x94D049BB133111EB); z ^ (z >> 31) }
/// a generic inexact value determined by (seed, stream, index): tenths, thirds, random significands, magnitudes 1e-8..1e8
fn gval(seed: u64, s: u64, k: usize) -> f64 {
    let h = mix64(seed.wrapping_mul(1_000_003) ^ s.wrapping_mul(7919) ^ ((k as u64) << 20));
    let sig = 1.0 + ((h >> 11) as f64) / ((1u64 << 53) as f64); let sign = if h & 1 == 0 { 1.0 } else { -1.0 };
    match (h >> 1) % 5 {
        0 => sign * ((k + 1 + (s % 7) as usize) as f64) / 10.0,
        1 => sign * ((k + 1) as f64) / 3.0,
        2 => sign * sig,
        3 => sign * sig * 10f64.powi(((h >> 4) % 17) as i32 - 8),
        _ => sign * (0.7 + (k as f64) * 1.2),
    }
}
fn gx<T: Gx>(seed: u64, s: u64, k: usize) -> T { T::mk(gval(seed, s, k), gval(seed, s + 500, k)) }
fn gvec<T: Gx>(sd: u64, n: usize, s: u64) -> Vector<T> { Vector::create((0..n).map(|k| gx::<T>(sd, s, k)).collect()) }
fn gmat<T: Gx>(sd: u64, r: usize, c: usize, s: u64) -> Matrix<T> { let mut m = Matrix::<T>::new(r, c, T::mk(0.0, 0.0)); for i in 0..r { for j in 0..c { m[(i, j)] = gx::<T>(sd, s, i * c + j); } } m }
fn gband<T: Gx>(sd: u64, n: usize, m1: usize, m2: usize, s: u64) -> Banded<T> {
    let mut b = Banded::<T>::new(n, m1, m2, T::mk(0.0, 0.0));
    for i in 0..n { for j in 0..n { if j <= i + m2 && i <= j + m1 { b[(i, j)] = gx::<T>(sd, s, i * n + j); } } } b
}
fn gpoly<T: Gx>(sd: u64, len: usize, s: u64) -> Polynomial<T> { Polynomial::new((0..len).map(|k| gx::<T>(sd, s, k)).collect()) }
fn gtri<T: Gx>(sd: u64, n: usize, s: u64) -> Tridiagonal<T> {
    if n == 0 { return Tridiagonal::<T>::empty(); }
    Tridiagonal::with_vectors(gvec::<T>(sd, n - 1, s), gvec::<T>(sd, n, s + 1), gvec::<T>(sd, n - 1, s + 2))
}

/// every form of a paired group on the same inexact operands (results carry their bit patterns: pj in INEX mode)
fn inexact_call<T: Gx>(rec: &mut Rec, op: &str, u: &[usize], sd: u64) -> bool
where Vector<T>: P, Matrix<T>: P, Banded<T>: P, Polynomial<T>: P, Tridiagonal<T>: P {
    let k: T = gx::<T>(sd, 99, 3);
    match op {
        "vec.add" | "vec.sub" => { let (a, b) = (gvec::<T>(sd, u[0], 1), gvec::<T>(sd, u[1], 2)); let add = op == "vec.add";
            bref!(rec, "ref", [a, b], if add { &a + &b } else { &a - &b });
            let a2 = a.clone(); bref!(rec, "mix", [b], if add { a2 + &b } else { a2 - &b });
            own!(rec, "own", if add { a.clone() + b.clone() } else { a.clone() - b.clone() }); }
        "mat.add" | "mat.sub" => { let (a, b) = (gmat::<T>(sd, u[0], u[1], 1), gmat::<T>(sd, u[2], u[3], 2)); let add = op == "mat.add";
            bref!(rec, "ref", [a, b], if add { &a + &b } else { &a - &b }); own!(rec, "own", if add { a.clone() + b.clone() } else { a.clone() - b.clone() }); }
        "mat.add_assign" | "mat.sub_assign" => { let (a, b) = (gmat::<T>(sd, u[0], u[1], 1), gmat::<T>(sd, u[2], u[3], 2)); let add = op == "mat.add_assign";
            let mut x = a.clone(); bref!(rec, "ref", [b], { if add { x += &b } else { x -= &b }; x });
            let mut y = a.clone(); own!(rec, "own", { if add { y += b.clone() } else { y -= b.clone() }; y }); }
        "mat.matmul" => { let (a, b) = (gmat::<T>(sd, u[0], u[1], 1), gmat::<T>(sd, u[2], u[3], 2)); bref!(rec, "ref", [a, b], &a * &b); own!(rec, "own", a.clone() * b.clone()); }
        "mat.matvec" => { let (a, v) = (gmat::<T>(sd, u[0], u[1], 1), gvec::<T>(sd, u[2], 2));
            bref!(rec, "ref", [a, v], &a * &v); own!(rec, "own", a.clone() * v.clone()); bref!(rec, "method", [a, v], a.multiply(&v)); }
        "mat.neg" => { let a = gmat::<T>(sd, u[0], u[1], 1); bref!(rec, "ref", [a], -&a); own!(rec, "own", -(a.clone())); }
        "mat.mul_scalar" => { let a = gmat::<T>(sd, u[0], u[1], 1); bref!(rec, "ref", [a], &a * k); own!(rec, "own", a.clone() * k); }
        "mat.div_scalar" => { let a = gmat::<T>(sd, u[0], u[1], 1); bref!(rec, "ref", [a], &a / k); own!(rec, "own", a.clone() / k); }
        "band.add" | "band.sub" => { let (a, b) = (gband::<T>(sd, u[0], u[1], u[2], 1), gband::<T>(sd, u[3], u[4], u[5], 2)); let add = op == "band.add";
            bref!(rec, "ref", [a, b], if add { &a + &b } else { &a - &b }); own!(rec, "own", if add { a.clone() + b.clone() } else { a.clone() - b.clone() }); }
        "band.add_assign" | "band.sub_assign" => { let (a, b) = (gband::<T>(sd, u[0], u[1], u[2], 1), gband::<T>(sd, u[3], u[4], u[5], 2)); let add = op == "band.add_assign";
            let mut x = a.clone(); bref!(rec, "ref", [b], { if add { x += &b } else { x -= &b }; x });
            let mut y = a.clone(); own!(rec, "own", { if add { y += b.clone() } else { y -= b.clone() }; y }); }
        "band.matvec" => { let (a, v) = (gband::<T>(sd, u[0], u[1], u[2], 1), gvec::<T>(sd, u[3], 2)); bref!(rec, "ref", [a, v], &a * &v); own!(rec, "own", a.clone() * v.clone()); }
        "band.neg" => { let a = gband::<T>(sd, u[0], u[1], u[2], 1); bref!(rec, "ref", [a], -&a); own!(rec, "own", -(a.clone())); }
        "band.mul_scalar" => { let a = gband::<T>(sd, u[0], u[1], u[2], 1); bref!(rec, "ref", [a], &a * k); own!(rec, "own", a.clone() * k); }
        "band.div_scalar" => { let a = gband::<T>(sd, u[0], u[1], u[2], 1); bref!(rec, "ref", [a], &a / k); own!(rec, "own", a.clone() / k); }
        "tri.matvec" => { let (a, v) = (gtri::<T>(sd, u[0], 1), gvec::<T>(sd, u[1], 5)); bref!(rec, "ref", [a, v], &a * &v); own!(rec, "own", a.clone() * v.clone()); }
        "poly.add" => { let (p, q) = (gpoly::<T>(sd, u[0], 1), gpoly::<T>(sd, u[1], 2)); bref!(rec, "ref", [p, q], &p + &q); own!(rec, "own", p.clone() + q.clone()); }
        "poly.sub" => { let (p, q) = (gpoly::<T>(sd, u[0], 1), gpoly::<T>(sd, u[1], 2)); bref!(rec, "ref", [p, q], &p - &q); own!(rec, "own", p.clone() - q.clone()); }
        "poly.mul" => { let (p, q) = (gpoly::<T>(sd, u[0], 1), gpoly::<T>(sd, u[1], 2)); bref!(rec, "ref", [p, q], &p * &q); own!(rec, "own", p.clone() * q.clone()); }
        "poly.neg" => { let p = gpoly::<T>(sd, u[0], 1); bref!(rec, "ref", [p], -&p); own!(rec, "own", -(p.clone())); }
        "poly.mul_scalar" => { let p = gpoly::<T>(sd, u[0], 1); bref!(rec, "ref", [p], &p * k); own!(rec, "own", p.clone() * k); }
        _ => return false,
    }
    true
}

// ================================================================== workspace sessions (Ohsl.tla)
enum Obj { Vec(V), Poly(Pl), Mat(M), Band(B), Tri(T3), Sparse(S), Mesh1(M1), Mesh2(M2) }
fn fi(x: f64) -> i64 { if x.is_finite() && x == x.trunc() && x.abs() < SAT as f64 { x as i64 } else { BAD } }
fn jval(k: &str, r: usize, c: usize, d: Vec<i64>, a: usize, b: usize) -> Value { json!({"k": k, "m": {"r": r, "c": c, "d": d}, "a": a, "b": b}) }

/// the mathematical content of a real object as the tagged value of Ohsl.tla
fn val(o: &Obj) -> Value {
    match o {
        Obj::Vec(v) => jval("vec", v.size(), 1, v.vec.iter().map(|x| fi(*x)).collect(), 0, 0),
        Obj::Poly(p) => jval("poly", p.size(), 1, (0..p.size()).map(|i| fi(p[i])).collect(), 0, 0),
        Obj::Mat(m) => jval("mat", m.rows(), m.cols(), mat_xs(m).iter().map(|x| fi(*x)).collect(), 0, 0),
        Obj::Band(b) => { let (n, m1, m2) = (b.size(), b.size_below(), b.size_above()); let mut d = vec![];
            for i in 0..n { for j in 0..n { d.push(if j <= i + m2 && i <= j + m1 { fi(b[(i, j)]) } else { 0 }); } }
            jval("band", n, n, d, m1, m2) }
        Obj::Tri(t) => { let n = t.size(); let mut d = vec![];
            for i in 0..n { for j in 0..n { d.push(if i <= j + 1 && j <= i + 1 { fi(t[(i, j)]) } else { 0 }); } }
            jval("tri", n, n, d, 0, 0) }
        Obj::Sparse(s) => { let mut d = vec![0i64; s.rows * s.cols]; let mut bad = s.col_start.len() != s.cols + 1;
            if !bad { for j in 0..s.cols { for k in s.col_start[j]..s.col_start[j + 1] {
                if k >= s.val.len() || k >= s.row_index.len() || s.row_index[k] >= s.rows { bad = true; continue; }
                let q = s.row_index[k] * s.cols + j; d[q] = if d[q] == 0 { fi(s.val[k]) } else { BAD }; } } }
            if bad { d.iter_mut().for_each(|x| *x = BAD); }
            jval("sparse", s.rows, s.cols, d, 0, 0) }
        Obj::Mesh1(m) => { let (nn, nv) = (m.nnodes(), m.nvars()); let mut d = vec![];
            for k in 0..nn { for v in 0..nv { d.push(if v < m[k].size() { fi(m[k][v]) } else { BAD }); } }
            jval("mesh1", nn, nv, d, 0, 0) }
        Obj::Mesh2(m) => { let ((nx, ny), nv) = (m.nnodes(), m.nvars()); let mut d = vec![];
            for i in 0..nx { for j in 0..ny { for v in 0..nv { d.push(if v < m[(i, j)].size() { fi(m[(i, j)][v]) } else { BAD }); } } }
            jval("mesh2", nx * ny, nv, d, nx, ny) }
    }
}
fn build(init: &Value) -> Obj {
    let m = &init["m"]; let (r, c) = (getu(m, "r"), getu(m, "c")); let d: Vec<f64> = ivec(&m["d"]).iter().map(|x| *x as f64).collect();
    let (a, b) = (getu(init, "a"), getu(init, "b"));
    match gets(init, "k") {
        "vec" => Obj::Vec(V::create(d)),
        "poly" => Obj::Poly(Pl::new(d)),
        "mat" => Obj::Mat(f64mat_from(m)),
        "band" => { let mut x = B::new(r, a, b, 0.0); for i in 0..r { for j in 0..r { if j <= i + b && i <= j + a { x[(i, j)] = d[i * r + j]; } } } Obj::Band(x) }
        "tri" => { if r == 0 { return Obj::Tri(T3::empty()); }
            Obj::Tri(T3::with_vecs((0..r - 1).map(|i| d[(i + 1) * r + i]).collect(), (0..r).map(|i| d[i * r + i]).collect(), (0..r - 1).map(|i| d[i * r + i + 1]).collect())) }
        "sparse" => { let mut ts = vec![]; for i in 0..r { for j in 0..c { if d[i * c + j] != 0.0 { ts.push((i, j, d[i * c + j])); } } } Obj::Sparse(S::from_triplets(r, c, &mut ts)) }
        "mesh1" => { let mut x = M1::new(vecf(r, 0), c); for k in 0..r { for v in 0..c { x[k][v] = d[k * c + v]; } } Obj::Mesh1(x) }
        "mesh2" => { let mut x = M2::new(vecf(a, 0), vecf(b, 10), c); for i in 0..a { for j in 0..b { for v in 0..c { x[(i, j)][v] = d[(i * b + j) * c + v]; } } } Obj::Mesh2(x) }
        k => { eprintln!("TOOL-ERROR guards: unknown kind {}", k); std::process::exit(2) }
    }
}
fn bad_op(k: &str, op: &str) -> ! { eprintln!("TOOL-ERROR guards: operation {} not bound for kind {}", op, k); std::process::exit(2) }

/// Mutate(id, o): `other` is the live object borrowed by "add_obj"
fn mutate(obj: &mut Obj, o: &Value, other: Option<&Obj>) {
    let op = gets(o, "op"); let x = || geti(o, "x") as f64; let s = || geti(o, "s") as f64;
    let (i, j) = (o.get("i").and_then(|v| v.as_u64()).unwrap_or(0) as usize, o.get("j").and_then(|v| v.as_u64()).unwrap_or(0) as usize);
    match obj {
        Obj::Vec(v) => match op { "set" => v[i] = x(), "push" => v.push(x()), "pop" => { v.pop(); } "swap" => v.swap(i, getu(o, "i2")),
            "scale" => *v *= s(), "shift" => *v += s(), "clear" => v.clear(),
            "resize" => v.resize(getu(o, "nr")), "insert" => v.insert(i, x()),
            "add_obj" => { if let Some(Obj::Vec(w)) = other { *v += w.clone(); } else { panic!("add_obj: the borrowed object is missing (an earlier step failed)") } } _ => bad_op("vec", op) },
        Obj::Poly(p) => match op { "set" => p[i] = x(), "push" => p.coeffs().push(x()), "pop" => { p.coeffs().pop(); } "scale" => { let q = &*p * s(); *p = q; } "trim" => p.trim(), _ => bad_op("poly", op) },
        Obj::Mat(m) => match op { "add_obj" => { if let Some(Obj::Mat(w)) = other { *m += w; } else { panic!("add_obj: the borrowed object is missing (an earlier step failed)") } }
            _ => { if crate::suites::dense::step::<f64>(m, o).panic { panic!("dense step panicked"); } } },
        Obj::Band(b) => match op { "set" => b[(i, j)] = x(), "fill" => b.fill(x()), "fill_band" => b.fill_band(geti(o, "off") as isize, x()), "scale" => *b *= s(),
            "resize_fill" => { b.resize(getu(o, "nr"), i, j); b.fill(x()); }
            "add_obj" => { if let Some(Obj::Band(w)) = other { *b += w; } else { panic!("add_obj: the borrowed object is missing (an earlier step failed)") } } _ => bad_op("band", op) },
        Obj::Tri(t) => match op { "set" => t[(i, j)] = x(), "transpose_in_place" => t.transpose_in_place(), "scale" => *t *= s(), "shift" => *t += s(), "resize" => t.resize(getu(o, "nr")), _ => bad_op("tri", op) },
        Obj::Sparse(a) => match op { "set" => a.insert(i, j, x()), "scale" => a.scale(&s()), _ => bad_op("sparse", op) },
        Obj::Mesh1(m) => match op { "set_row" => m.set_nodes_vars(i, f64vec_from(&o["v"])), "set" => m[i][j] = x(),
            "read" => { let d = ivec(&o["b"]["d"]); let nv = getu(&o["b"], "c"); m.read(&mesh_file(getu(&o["b"], "r"), nv, &|k, v| d[k * nv + v])); }
            _ => bad_op("mesh1", op) },
        Obj::Mesh2(m) => match op { "set_row" => m.set_nodes_vars(i, j, f64vec_from(&o["v"])), "fill" => m.assign(x()), _ => bad_op("mesh2", op) },
    }
}

/// Convert(src, o): a new object produced by a &self method (the source is only borrowed)
fn convert(src: &Obj, o: &Value) -> Obj {
    let op = gets(o, "op"); let (i, j) = (o.get("i").and_then(|v| v.as_u64()).unwrap_or(0) as usize, o.get("j").and_then(|v| v.as_u64()).unwrap_or(0) as usize);
    match (src, op) {
        (Obj::Vec(v), "clone") => Obj::Vec(v.clone()), (Obj::Poly(p), "clone") => Obj::Poly(p.clone()), (Obj::Mat(m), "clone") => Obj::Mat(m.clone()),
        (Obj::Band(b), "clone") => Obj::Band(b.clone()), (Obj::Tri(t), "clone") => Obj::Tri(t.clone()),
        (Obj::Tri(t), "tri.convert") => Obj::Mat(t.convert()), (Obj::Tri(t), "tri.transpose") => Obj::Tri(t.transpose()),
        (Obj::Sparse(a), "sparse.to_dense") => Obj::Mat(a.to_dense()), (Obj::Sparse(a), "sparse.transpose") => Obj::Sparse(a.transpose()),
        (Obj::Mat(m), "mat.transpose") => Obj::Mat(m.transpose()), (Obj::Mat(m), "mat.get_row") => Obj::Vec(m.get_row(i)),
        (Obj::Mesh1(m), "mesh1.get_nodes_vars") => Obj::Vec(m.get_nodes_vars(i)),
        (Obj::Mesh2(m), "mesh2.cross_section_xnode") => Obj::Mesh1(m.cross_section_xnode(i)),
        (Obj::Mesh2(m), "mesh2.cross_section_ynode") => Obj::Mesh1(m.cross_section_ynode(j)),
        (Obj::Mesh2(m), "mesh2.var_as_matrix") => Obj::Mat(m.var_as_matrix(i)),
        (Obj::Poly(p), "poly.derivative") => Obj::Poly(p.derivative()),
        _ => bad_op("convert", op),
    }
}

/// Observe: by-reference operators / &self methods on live objects; results are dropped, a panic is data
fn observe(ws: &std::collections::BTreeMap<i64, Obj>, o: &Value) {
    let ids = ivec(&o["ids"]); let a = ws.get(&ids[0]); let b = ids.get(1).and_then(|k| ws.get(k)); let w = geti(o, "w");
    match (a, b) {
        (Some(Obj::Vec(x)), Some(Obj::Vec(y))) => { if w % 2 == 0 { let _ = x + y; let _ = x.dot(y); } else { let _ = x - y; let _ = x.dot_f64(y); } }
        (Some(Obj::Mat(x)), Some(Obj::Mat(y))) => { match w % 3 { 0 => { let _ = x + y; } 1 => { let _ = x * y; } _ => { let _ = x - y; } } }
        (Some(Obj::Mat(x)), Some(Obj::Vec(y))) => { if w % 2 == 0 { let _ = x * y; } else { let _ = x.multiply(y); } }
        (Some(Obj::Band(x)), Some(Obj::Band(y))) => { if w % 2 == 0 { let _ = x + y; } else { let _ = x - y; } }
        (Some(Obj::Band(x)), Some(Obj::Vec(y))) => { if w % 2 == 0 { let _ = x * y; } else { let _ = x.solve(y); } }
        (Some(Obj::Tri(x)), Some(Obj::Vec(y))) => { if w % 2 == 0 { let _ = x * y; } else { let _ = x.solve(y); } }
        (Some(Obj::Sparse(x)), Some(Obj::Vec(y))) => { match w % 3 { 0 => { let _ = x.multiply(y); } 1 => { let _ = x.transpose_multiply(y); } _ => { let mut z = y.clone(); let _ = x.solve_bicgstab(y, &mut z, 5, 1.0e-8); } } }
        (Some(Obj::Poly(x)), Some(Obj::Poly(y))) => { match w % 3 { 0 => { let _ = x + y; } 1 => { let _ = x * y; } _ => { let _ = x.polydiv(y); } } }
        (Some(Obj::Vec(x)), _) => { let _ = x.norm_1(); let _ = x.abs(); let _ = x.sum_slice(0, w as usize % 4); }
        (Some(Obj::Mat(x)), _) => { let _ = x.transpose(); let _ = -x; let _ = x.get_col(w as usize % 4); let _ = x.determinant(); }
        (Some(Obj::Band(x)), _) => { let _ = -x; let _ = x * 2.0; let _ = x.det(); }
        (Some(Obj::Tri(x)), _) => { let _ = x.transpose(); let _ = x[(0, 0)]; let _ = x.det(); let _ = x.convert(); }
        (Some(Obj::Sparse(x)), _) => { let _ = x.to_triplets(); let _ = x.col_index(); let _ = x.get(w as usize % 4, 0); }
        (Some(Obj::Mesh1(x)), _) => { let _ = x.nodes(); let _ = x.get_nodes_vars(w as usize % 4); let _ = x.trapezium(0); }
        (Some(Obj::Mesh2(x)), _) => { let _ = x.var_as_matrix(0); let _ = x.get_nodes_vars(w as usize % 4, 0); let _ = x.trapezium(0); }
        (Some(Obj::Poly(x)), _) => { let _ = x.degree(); let _ = -x; let _ = x.eval(2.0); let _ = x.roots(false); }
        (None, _) => {}
    }
}

fn exec_session(case: &Value, out: &mut Out) {
    let cid = geti(case, "cid");
    let mut ws: std::collections::BTreeMap<i64, Obj> = std::collections::BTreeMap::new();
    for (k, st) in case["steps"].as_array().unwrap().iter().enumerate() {
        let act = gets(st, "act"); let id = st.get("oid").and_then(|v| v.as_i64()).unwrap_or(0); let src = st.get("src").and_then(|v| v.as_i64()).unwrap_or(0);
        let r: Result<(), String> = match act {
            "create" => guarded(|| build(&st["init"])).map(|o| { ws.insert(id, o); }),
            "clone" | "convert" => { let o = if act == "clone" { json!({"op": "clone"}) } else { st["o"].clone() };
                match ws.get(&src) { Some(s) => guarded(|| convert(s, &o)).map(|n| { ws.insert(id, n); }), None => Ok(()) } }
            "mutate" => match ws.remove(&id) {
                Some(mut obj) => { let other = st["o"].get("src").and_then(|v| v.as_i64()).and_then(|q| ws.get(&q));
                    let r = guarded(|| mutate(&mut obj, &st["o"], other)); ws.insert(id, obj); r }
                None => Ok(()) },
            "observe" => guarded(|| observe(&ws, &st["o"])),
            "drop" => { ws.remove(&id); Ok(()) }
            a => { eprintln!("TOOL-ERROR guards: unknown session act {}", a); std::process::exit(2) }
        };
        // a projection that panics (an accessor failing on a well-formed object) yields an empty list: rejected by the spec
        let objs: Vec<Value> = guarded(|| ws.iter().map(|(i, o)| json!({"oid": i, "val": val(o)})).collect()).unwrap_or_default();
        let mut e = st.clone();
        e["op"] = json!("sess"); e["start"] = json!(k == 0); e["panic"] = json!(r.is_err()); e["objs"] = Value::from(objs); e["cid"] = json!(cid); e["k"] = json!(k);
        out.ev(e);
    }
}

// ------------------------------------------------------------------ random workspace sessions
#[derive(Clone)]
struct Sh { k: &'static str, r: usize, c: usize, a: usize, b: usize, d: Vec<i64> }   // d: coefficients (polynomials only: trim depends on them)
fn rv(rng: &mut rand::rngs::StdRng) -> i64 { rng.gen_range(-9..=9) }
fn rand_init(rng: &mut rand::rngs::StdRng) -> (Value, Sh) {
    let kinds = ["vec", "poly", "mat", "band", "tri", "sparse", "mesh1", "mesh2"]; let k = kinds[rng.gen_range(0..8)];
    let n = rng.gen_range(1..=4usize);
    let (r, c, a, b) = match k { "vec" | "poly" => (rng.gen_range(0..=5), 1, 0, 0), "mat" | "sparse" => (rng.gen_range(1..=4), rng.gen_range(1..=4), 0, 0),
        "band" => (n, n, rng.gen_range(0..n), rng.gen_range(0..n)), "tri" => (n, n, 0, 0), "mesh1" => (rng.gen_range(1..=4), rng.gen_range(1..=3), 0, 0),
        _ => { let (nx, ny) = (rng.gen_range(1..=3usize), rng.gen_range(1..=3usize)); (nx * ny, rng.gen_range(1..=2), nx, ny) } };
    let mut d = vec![];
    for i in 0..r { for j in 0..c {
        let inb = match k { "band" => j <= i + b && i <= j + a, "tri" => i <= j + 1 && j <= i + 1, "sparse" => rng.gen_bool(0.5), _ => true };
        d.push(if inb { rv(rng) } else { 0 }); } }
    let dd = if k == "poly" { d.clone() } else { vec![] };
    (jval(k, r, c, d, a, b), Sh { k, r, c, a, b, d: dd })
}
/// one random in-range mutation of an object of shape `sh` (peers: ids of same-shaped objects of the same kind)
fn rand_mut(rng: &mut rand::rngs::StdRng, sh: &mut Sh, peers: &[i64], adds: &mut u32) -> Option<Value> {
    let (r, c) = (sh.r, sh.c); let pick = rng.gen_range(0..8);
    let add_obj = |rng: &mut rand::rngs::StdRng, adds: &mut u32| -> Option<Value> { if peers.is_empty() || *adds >= 6 { None } else { *adds += 1; Some(json!({"op": "add_obj", "src": peers[rng.gen_range(0..peers.len())]})) } };
    match sh.k {
        "vec" | "poly" => match pick {
            0 | 1 => { sh.r += 1; let x = if sh.k == "poly" && rng.gen_bool(0.5) { 0 } else { rv(rng) }; if sh.k == "poly" { sh.d.push(x); } Some(json!({"op": "push", "x": x})) }
            2 => { if r == 0 { return None; } sh.r -= 1; sh.d.pop(); Some(json!({"op": "pop"})) }
            3 | 4 => { if r == 0 { return None; } let (i, x) = (rng.gen_range(0..r), if rng.gen_bool(0.3) { 0 } else { rv(rng) }); if sh.k == "poly" { sh.d[i] = x; } Some(json!({"op": "set", "i": i, "x": x})) }
            5 => { for x in sh.d.iter_mut() { *x = -*x; } Some(json!({"op": "scale", "s": -1})) }
            6 => { if sh.k == "poly" || r == 0 { return None; } if rng.gen_bool(0.5) { Some(json!({"op": "swap", "i": rng.gen_range(0..r), "i2": rng.gen_range(0..r)})) } else { Some(json!({"op": "shift", "s": rv(rng)})) } }
            _ => { if sh.k == "poly" { if r == 0 { return None; } while sh.d.len() > 1 && *sh.d.last().unwrap() == 0 { sh.d.pop(); } sh.r = sh.d.len(); return Some(json!({"op": "trim"})); }
                   match rng.gen_range(0..4) { 0 => { sh.r = 0; Some(json!({"op": "clear"})) } 1 => { sh.r = rng.gen_range(0..=5); Some(json!({"op": "resize", "nr": sh.r})) }
                       2 => { sh.r += 1; Some(json!({"op": "insert", "i": rng.gen_range(0..=r), "x": rv(rng)})) } _ => add_obj(rng, adds) } } },
        "mat" => match pick {
            0 => { if r * c == 0 { return None; } Some(json!({"op": "set", "i": rng.gen_range(0..r), "j": rng.gen_range(0..c), "x": rv(rng)})) }
            1 => { if r == 0 { return None; } Some(json!({"op": "set_row", "i": rng.gen_range(0..r), "v": (0..c).map(|_| rv(rng)).collect::<Vec<i64>>()})) }
            2 => { if c == 0 { return None; } Some(json!({"op": "set_col", "j": rng.gen_range(0..c), "v": (0..r).map(|_| rv(rng)).collect::<Vec<i64>>()})) }
            3 => { std::mem::swap(&mut sh.r, &mut sh.c); Some(json!({"op": "transpose_in_place"})) }
            4 => { if rng.gen_bool(0.5) { Some(json!({"op": "mul_assign", "s": -1})) } else { Some(json!({"op": "add_scalar_assign", "s": rv(rng)})) } }
            5 => { if r == 0 { return None; } if rng.gen_bool(0.5) { Some(json!({"op": "swap_rows", "i": rng.gen_range(0..r), "i2": rng.gen_range(0..r)})) } else { Some(json!({"op": "fill_row", "i": rng.gen_range(0..r), "x": rv(rng)})) } }
            6 => { let q = rng.gen_range(0..4);
                   if q == 0 && r > 0 { sh.r -= 1; Some(json!({"op": "delete_row", "i": rng.gen_range(0..r)})) }
                   else if q == 1 && rng.gen_bool(0.3) { sh.r = 0; sh.c = 0; Some(json!({"op": "clear"})) }
                   else if q < 3 { sh.r = rng.gen_range(0..=4); sh.c = rng.gen_range(0..=4); Some(json!({"op": "resize", "nr": sh.r, "nc": sh.c})) } else { Some(json!({"op": "fill_band", "off": rng.gen_range(-2..=2), "x": rv(rng)})) } }
            _ => add_obj(rng, adds) },
        "band" => match pick {
            0 | 1 => { let i = rng.gen_range(0..r); let lo = i.saturating_sub(sh.a); let hi = (i + sh.b).min(r - 1); Some(json!({"op": "set", "i": i, "j": rng.gen_range(lo..=hi), "x": rv(rng)})) }
            2 => Some(json!({"op": "fill", "x": rv(rng)})),
            3 | 4 => Some(json!({"op": "fill_band", "off": rng.gen_range(-(sh.a as i64)..=(sh.b as i64)), "x": rv(rng)})),
            5 => Some(json!({"op": "scale", "s": -1})),
            6 => { // half of the band resizes keep n and m1 + m2 and change only the split (or nothing)
                   if rng.gen_bool(0.5) { let tot = sh.a + sh.b; sh.a = rng.gen_range(0..=tot).min(r - 1); sh.b = (tot - sh.a).min(r - 1); }
                   else { let n = rng.gen_range(1..=4usize); sh.r = n; sh.c = n; sh.a = rng.gen_range(0..n); sh.b = rng.gen_range(0..n); }
                   Some(json!({"op": "resize_fill", "nr": sh.r, "i": sh.a, "j": sh.b, "x": rv(rng)})) }
            _ => add_obj(rng, adds) },
        "tri" => match pick {
            0 | 1 | 2 => { let i = rng.gen_range(0..r); let lo = i.saturating_sub(1); let hi = (i + 1).min(r - 1); Some(json!({"op": "set", "i": i, "j": rng.gen_range(lo..=hi), "x": rv(rng)})) }
            3 | 4 => Some(json!({"op": "transpose_in_place"})),
            5 => Some(json!({"op": "scale", "s": -1})),
            6 => { let n = rng.gen_range(1..=4usize); sh.r = n; sh.c = n; Some(json!({"op": "resize", "nr": n})) }
            _ => Some(json!({"op": "shift", "s": rv(rng)})) },
        "sparse" => if pick < 6 { Some(json!({"op": "set", "i": rng.gen_range(0..r), "j": rng.gen_range(0..c), "x": rv(rng)})) } else { { let sc = [-1i64, 0, 1][rng.gen_range(0..3)]; Some(json!({"op": "scale", "s": sc})) } },
        "mesh1" => if pick == 7 { let nn = rng.gen_range(1..=5usize); sh.r = nn; Some(json!({"op": "read", "b": {"r": nn, "c": c, "d": (0..nn * c).map(|_| rv(rng)).collect::<Vec<i64>>()}})) } else if pick < 4 { Some(json!({"op": "set_row", "i": rng.gen_range(0..r), "v": (0..c).map(|_| rv(rng)).collect::<Vec<i64>>()})) } else { Some(json!({"op": "set", "i": rng.gen_range(0..r), "j": rng.gen_range(0..c), "x": rv(rng)})) },
        _ => if pick < 6 { Some(json!({"op": "set_row", "i": rng.gen_range(0..sh.a), "j": rng.gen_range(0..sh.b), "v": (0..c).map(|_| rv(rng)).collect::<Vec<i64>>()})) } else { Some(json!({"op": "fill", "x": rv(rng)})) },
    }
}
/// a random conversion of an object of shape sh: (operation, shape of the new object)
fn rand_conv(rng: &mut rand::rngs::StdRng, sh: &Sh, derivs: &mut u32) -> Option<(Value, Sh)> {
    let (r, c) = (sh.r, sh.c);
    match sh.k {
        "tri" => if rng.gen_bool(0.5) { Some((json!({"op": "tri.convert"}), Sh { k: "mat", r, c, a: 0, b: 0, d: vec![] })) } else { Some((json!({"op": "tri.transpose"}), sh.clone())) },
        "sparse" => if rng.gen_bool(0.5) { Some((json!({"op": "sparse.to_dense"}), Sh { k: "mat", r, c, a: 0, b: 0, d: vec![] })) } else { Some((json!({"op": "sparse.transpose"}), Sh { k: "sparse", r: c, c: r, a: 0, b: 0, d: vec![] })) },
        "mat" => if r > 0 && rng.gen_bool(0.5) { Some((json!({"op": "mat.get_row", "i": rng.gen_range(0..r)}), Sh { k: "vec", r: c, c: 1, a: 0, b: 0, d: vec![] })) } else { Some((json!({"op": "mat.transpose"}), Sh { k: "mat", r: c, c: r, a: 0, b: 0, d: vec![] })) },
        "mesh1" => Some((json!({"op": "mesh1.get_nodes_vars", "i": rng.gen_range(0..r)}), Sh { k: "vec", r: c, c: 1, a: 0, b: 0, d: vec![] })),
        "mesh2" => match rng.gen_range(0..3) {
            0 => Some((json!({"op": "mesh2.cross_section_xnode", "i": rng.gen_range(0..sh.a)}), Sh { k: "mesh1", r: sh.b, c, a: 0, b: 0, d: vec![] })),
            1 => Some((json!({"op": "mesh2.cross_section_ynode", "j": rng.gen_range(0..sh.b)}), Sh { k: "mesh1", r: sh.a, c, a: 0, b: 0, d: vec![] })),
            _ => Some((json!({"op": "mesh2.var_as_matrix", "i": rng.gen_range(0..c)}), Sh { k: "mat", r: sh.a, c: sh.b, a: 0, b: 0, d: vec![] })) },
        "poly" => { if r == 0 || *derivs >= 3 { return None; } *derivs += 1; let d: Vec<i64> = (1..r).map(|i| i as i64 * sh.d[i]).collect(); Some((json!({"op": "poly.derivative"}), Sh { k: "poly", r: r - 1, c: 1, a: 0, b: 0, d })) }
        _ => None,
    }
}

pub fn gen(tier: &str, seed: u64, out: &mut Out) {
    let quick = tier == "quick";
    let mut rng = rng(seed, 20);
    let nsess = if quick { 12 } else { 150 };
    for cid in 1..=nsess {
        let mut live: std::collections::BTreeMap<i64, Sh> = std::collections::BTreeMap::new();
        let mut next = 1i64; let mut steps: Vec<Value> = vec![]; let (mut adds, mut derivs) = (0u32, 0u32);
        while steps.len() < 200 {
            let ids: Vec<i64> = live.keys().cloned().collect();
            let p = rng.gen_range(0..100);
            if ids.is_empty() || (p < 12 && ids.len() < 6) {
                let (init, sh) = rand_init(&mut rng); steps.push(json!({"act": "create", "oid": next, "init": init})); live.insert(next, sh); next += 1; continue;
            }
            let id = ids[rng.gen_range(0..ids.len())]; let sh = live[&id].clone();
            if p < 24 {
                if ids.len() >= 6 || !matches!(sh.k, "vec" | "poly" | "mat" | "band" | "tri") { continue; }
                steps.push(json!({"act": "clone", "oid": next, "src": id})); live.insert(next, sh); next += 1;
            } else if p < 64 {
                let peers: Vec<i64> = live.iter().filter(|(q, s)| **q != id && s.k == sh.k && s.r == sh.r && s.c == sh.c && s.a == sh.a && s.b == sh.b).map(|(q, _)| *q).collect();
                let mut nsh = sh.clone();
                if let Some(o) = rand_mut(&mut rng, &mut nsh, &peers, &mut adds) { steps.push(json!({"act": "mutate", "oid": id, "o": o})); live.insert(id, nsh); }
            } else if p < 82 {
                let mut two = vec![id]; if rng.gen_bool(0.6) { two.push(ids[rng.gen_range(0..ids.len())]); }
                steps.push(json!({"act": "observe", "o": {"ids": two, "w": rng.gen_range(0..12)}}));
            } else if p < 94 {
                if ids.len() >= 6 { continue; }
                if let Some((o, nsh)) = rand_conv(&mut rng, &sh, &mut derivs) { steps.push(json!({"act": "convert", "oid": next, "src": id, "o": o})); live.insert(next, nsh); next += 1; }
            } else { steps.push(json!({"act": "drop", "oid": id})); live.remove(&id); }
        }
        out.raw(&json!({"cid": cid, "suite": "guards", "kind": "session", "steps": steps}));
    }
}
