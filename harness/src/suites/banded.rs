//! Suite "banded": ohsl::Banded against its dense twin (C04).
//!   kind "hist": a history of index / fill / arithmetic / product operations on integer data (exact in every
//!                element type); every event carries the whole compact storage before and after the call.
//!   kind "lu"  : det / solve / product / index on one matrix.  Rat: exact outcome (determinant as [n,d], solution
//!                as integers xs over a common denominator L).  f64 / Complex: error units against
//!                double-double references (the bound itself lives in Trace_Banded.tla).
use crate::dd::{CDD, DD};
use crate::rat::Rat;
use crate::util::*;
use ohsl::{Banded, Cmplx, Vector};
use rand::rngs::StdRng;
use rand::Rng;
use serde_json::{json, Value};

/// element types of the banded / tridiagonal suites
pub trait BE: Elem + PartialOrd + Send + Sync + 'static {
    fn from_f(re: f64, im: f64) -> Self;
    fn to_c(&self) -> (f64, f64);
}
impl BE for f64 { fn from_f(re: f64, _im: f64) -> f64 { re } fn to_c(&self) -> (f64, f64) { (*self, 0.0) } }
impl BE for Cmplx { fn from_f(re: f64, im: f64) -> Cmplx { Cmplx::new(re, im) } fn to_c(&self) -> (f64, f64) { (self.real, self.imag) } }
impl BE for Rat {
    fn from_f(re: f64, _im: f64) -> Rat { if re != re.trunc() || re.abs() > 1e15 { tool_error("non-integer entry for Rat") } Rat::int(re as i64) }
    fn to_c(&self) -> (f64, f64) { (self.to_f64(), 0.0) }
}
pub fn tool_error(s: &str) -> ! { eprintln!("TOOL-ERROR {}", s); std::process::exit(2) }

/// scalar from JSON: an integer or {m, e} (= m * 2^e); optional imaginary twin
pub fn scal<T: BE>(re: &Value, im: Option<&Value>) -> T {
    match (re.as_i64(), im.map(|v| v.as_i64())) {
        (Some(a), None) => T::from_ri(a, 0),
        (Some(a), Some(Some(b))) => T::from_ri(a, b),
        _ => T::from_f(fval(re), im.map(fval).unwrap_or(0.0)),
    }
}
/// an f64 from JSON: integer, {m, e}, or one of the special values "nan", "inf", "-inf", "max", "-max", "-0" (floats only)
pub fn fval(v: &Value) -> f64 {
    match v.as_str() { Some("nan") => f64::NAN, Some("inf") => f64::INFINITY, Some("-inf") => f64::NEG_INFINITY, Some("max") => f64::MAX, Some("-max") => -f64::MAX, Some("-0") => -0.0,
        Some(o) => tool_error(&format!("unknown special value {}", o)),
        // {m, e}: m * 2^e applied in pieces (a single powi would overflow or underflow for |e| beyond ~1020)
        None => if let Some(n) = v.as_i64() { n as f64 } else { scale2(v["m"].as_i64().unwrap_or_else(|| tool_error("bad scalar")) as f64, v["e"].as_i64().unwrap_or(0)) } }
}
/// the same band with special (string) values replaced by 0: what TLC gets to see (only padding slots may be special)
fn tlc_mat(m: &Value) -> Value { json!({"r": m["r"], "c": m["c"], "d": m["d"].as_array().unwrap().iter().map(|x| if x.is_string() { json!(0) } else { x.clone() }).collect::<Vec<Value>>()}) }
/// are all IN-BAND entries of this part plain integers?
fn inband_ints(bj: &Value, key: &str) -> bool {
    let (n, m1, m2) = (getu(bj, "n"), getu(bj, "m1"), getu(bj, "m2")); let mm = m1 + m2 + 1;
    match bj.get(key) { None => true, Some(c) => { let d = c["d"].as_array().unwrap(); (0..n).all(|i| (0..mm).all(|k| !(i + k >= m1 && i + k < n + m1) || d[i * mm + k].is_i64())) } }
}
pub fn vec_of<T: BE>(re: &Value, im: Option<&Value>) -> Vector<T> {
    let a = re.as_array().unwrap_or_else(|| tool_error("vector expected"));
    Vector::create(a.iter().enumerate().map(|(k, x)| scal::<T>(x, im.map(|v| &v[k]))).collect())
}

// ------------------------------------------------------------------ construction / projection
/// Build a Banded<T> whose WHOLE compact storage (padding included) is prescribed, through the public API only:
/// a slot that is padding in geometry (m1, m2) is an in-band entry in geometry (0, mm-1) (upper-left corner) or
/// (mm-1, 0) (lower-right corner); `resize` to the same storage shape keeps the contents.
pub fn build<T: BE>(n: usize, m1: usize, m2: usize, slot: &dyn Fn(usize, usize) -> T) -> Banded<T> {
    let mm = m1 + m2 + 1;
    let mut b = Banded::<T>::new(n, 0, mm - 1, T::from_ri(0, 0));
    for i in 0..n { for c in 0..mm { if i + c < m1 { b[(i, i + c)] = slot(i, c); } } }
    b.resize(n, mm - 1, 0);
    for i in 0..n { for c in 0..mm { if i + c >= n + m1 { b[(i, i + c + 1 - mm)] = slot(i, c); } } }
    b.resize(n, m1, m2);
    for i in 0..n { for c in 0..mm { if i + c >= m1 && i + c < n + m1 { b[(i, i + c - m1)] = slot(i, c); } } }
    b
}
/// does the whole storage (padding included) equal the prescription?
fn storage_is<T: BE>(b: &Banded<T>, n: usize, m1: usize, m2: usize, slot: &dyn Fn(usize, usize) -> T) -> bool {
    let mm = m1 + m2 + 1;
    if b.size() != n || b.size_below() != m1 || b.size_above() != m2 || b.compact().rows() != n || b.compact().cols() != mm { return false; }
    let same = |x: T, y: T| { let (a, b) = (x.to_c(), y.to_c()); T::NAME == "rat" && x == y || T::NAME != "rat" && a.0.to_bits() == b.0.to_bits() && a.1.to_bits() == b.1.to_bits() };   // (NaN-safe, -0.0 is not 0.0)
    for i in 0..n { for c in 0..mm { if !same(b.compact()[(i, c)], slot(i, c)) { return false; } } }
    true
}
/// the plain construction: new(n, m1, m2, fill) + in-band assignment (padding = fill everywhere)
pub fn build_plain<T: BE>(n: usize, m1: usize, m2: usize, fill: T, slot: &dyn Fn(usize, usize) -> T) -> Banded<T> {
    let mut b = Banded::<T>::new(n, m1, m2, fill);
    for i in 0..n { for j in 0..n { if in_band(n, m1, m2, i, j) { b[(i, j)] = slot(i, m1 + j - i); } } }
    b
}
/// from {"n","m1","m2","c":{r,c,d}[,"ci":{...}]}
pub fn band_from<T: BE>(bj: &Value) -> Banded<T> { band_from2::<T>(bj).0 }
/// (matrix, plainly built twin, "arbitrary" | "uniform"): the matrix carries the prescribed padding when the
/// re-interpretation trick reproduces the whole storage, otherwise it is the plainly built one
pub fn band_from2<T: BE>(bj: &Value) -> (Banded<T>, Banded<T>, &'static str) {
    let (n, m1, m2) = (getu(bj, "n"), getu(bj, "m1"), getu(bj, "m2"));
    let mm = m1 + m2 + 1;
    let d = bj["c"]["d"].as_array().unwrap_or_else(|| tool_error("band.c.d missing"));
    let di = bj.get("ci").map(|v| v["d"].as_array().unwrap());
    if d.len() != n * mm { tool_error("band.c has the wrong size"); }
    let slot = |i: usize, c: usize| scal::<T>(&d[i * mm + c], di.map(|x| &x[i * mm + c]));
    // fill value of the plain twin: the first padding slot of the case (7 if there is none)
    let mut fill = T::from_ri(7, 0);
    'f: for i in 0..n { for c in 0..mm { if !(i + c >= m1 && i + c < n + m1) { fill = slot(i, c); break 'f; } } }
    let plain = build_plain::<T>(n, m1, m2, fill, &slot);
    match guarded(|| build::<T>(n, m1, m2, &slot)) {
        Ok(b) if storage_is(&b, n, m1, m2, &slot) => (b, plain, "arbitrary"),
        _ => (plain.clone(), plain, "uniform"),
    }
}
pub fn jband<T: Elem>(b: &Banded<T>, w: Part) -> Value { json!({"n": b.size(), "m1": b.size_below(), "m2": b.size_above(), "c": jmat(b.compact(), w)}) }
fn im_band(bj: &Value) -> Value {
    let z = json!({"r": bj["c"]["r"], "c": bj["c"]["c"], "d": vec![0i64; bj["c"]["d"].as_array().unwrap().len()]});
    json!({"n": bj["n"], "m1": bj["m1"], "m2": bj["m2"], "c": bj.get("ci").map(tlc_mat).unwrap_or(z)})
}
fn in_band(n: usize, m1: usize, m2: usize, i: usize, j: usize) -> bool { i < n && j < n && j <= i + m2 && i <= j + m1 }

/// construct the operand of a case (a panic is data) and log what was built next to what was asked for
fn construct<T: BE>(case: &Value, out: &mut Out) -> Option<Banded<T>> {
    let cid = geti(case, "cid"); let bj = &case["band"];
    let ints = |k: &str| inband_ints(bj, k);
    match guarded(|| band_from2::<T>(bj)) {
        Ok((m, plain, padding)) => { if ints("c") && ints("ci") { for w in 0..(if T::CX { 2 } else { 1 }) {
                       let want = if w == 0 { json!({"n": bj["n"], "m1": bj["m1"], "m2": bj["m2"], "c": tlc_mat(&bj["c"])}) } else { im_band(bj) };
                       out.ev(json!({"op": "built", "ty": T::NAME, "cid": cid, "k": -1, "panic": false, "padding": padding, "part": if w == 0 { "re" } else { "im" }, "post": jband(&plain, if w == 0 { Part::Re } else { Part::Im }), "want": want})); } }
                   Some(m) }
        Err(msg) => { out.ev(json!({"op": "built", "ty": T::NAME, "cid": cid, "k": -1, "panic": true, "msg": msg})); None }
    }
}

// ------------------------------------------------------------------ histories
enum Res<T> { None, B(Banded<T>), V(Vector<T>), S(T), Dims(usize, usize, usize), D(Vec<(i64, i64)>), Det(T), X(Vector<T>) }

fn argx<T: BE>(op: &Value, k: &str) -> T { let ki = format!("{}i", k); scal::<T>(&op[k], if T::CX { op.get(&ki) } else { None }) }

fn step<T: BE>(m: &mut Banded<T>, op: &Value) -> Result<Res<T>, String> {
    let name = gets(op, "op").to_string();
    let own = gets(op, "form") == "own";
    guarded(|| {
        match name.as_str() {
            "dense" => { let n = m.size(); let mut d = vec![(0i64, 0i64); n * n];
                for i in 0..n { for j in 0..n { if in_band(n, m.size_below(), m.size_above(), i, j) { d[i * n + j] = m[(i, j)].to_ri(); } } } Res::D(d) }
            "get" => Res::S(m[(getu(op, "i"), getu(op, "j"))]),
            "dims" => Res::Dims(m.size(), m.size_below(), m.size_above()),
            "clone" => Res::B(m.clone()),
            "new" => { *m = Banded::<T>::new(getu(op, "n"), getu(op, "m1"), getu(op, "m2"), argx::<T>(op, "x")); Res::None }
            "set" => { m[(getu(op, "i"), getu(op, "j"))] = argx::<T>(op, "x"); Res::None }
            "fill" => { m.fill(argx::<T>(op, "x")); Res::None }
            "fill_band" => { m.fill_band(geti(op, "kb") as isize, argx::<T>(op, "x")); Res::None }
            "neg" => Res::B(if own { -(m.clone()) } else { -&*m }),
            "add" => { let b = band_from::<T>(&op["b"]); Res::B(if own { m.clone() + b } else { &*m + &b }) }
            "sub" => { let b = band_from::<T>(&op["b"]); Res::B(if own { m.clone() - b } else { &*m - &b }) }
            "mul_scalar" => Res::B(if own { m.clone() * argx::<T>(op, "s") } else { &*m * argx::<T>(op, "s") }),
            "div_scalar" => Res::B(if own { m.clone() / argx::<T>(op, "s") } else { &*m / argx::<T>(op, "s") }),
            "add_assign" => { let b = band_from::<T>(&op["b"]); if own { *m += b } else { *m += &b } Res::None }
            "sub_assign" => { let b = band_from::<T>(&op["b"]); if own { *m -= b } else { *m -= &b } Res::None }
            "mul_assign" => { *m *= argx::<T>(op, "s"); Res::None }
            "div_assign" => { *m /= argx::<T>(op, "s"); Res::None }
            "add_scalar_assign" => { *m += argx::<T>(op, "s"); Res::None }
            "sub_scalar_assign" => { *m -= argx::<T>(op, "s"); Res::None }
            "matvec" => { let v = vec_of::<T>(&op["v"], if T::CX { op.get("vi") } else { None }); Res::V(if own { m.clone() * v } else { &*m * &v }) }
            "resize" => { m.resize(getu(op, "n"), getu(op, "m1"), getu(op, "m2")); Res::None }
            "empty" => { *m = Banded::<T>::empty(); Res::None }
            // assignment of EVERY in-band entry through IndexMut (one event)
            "set_all" => { let n = m.size(); let d = op["vals"]["d"].as_array().unwrap(); let di = op.get("valsi").map(|v| v["d"].as_array().unwrap());
                for i in 0..n { for j in 0..n { if in_band(n, m.size_below(), m.size_above(), i, j) { m[(i, j)] = scal::<T>(&d[i * n + j], if T::CX { di.map(|x| &x[i * n + j]) } else { None }); } } } Res::None }
            "det" => Res::Det(m.det()),
            // the same calls on a clone of the object (a clone shares nothing with the original but its value)
            "clone_det" => Res::Det(m.clone().det()),
            "clone_solve" => { let b = vec_of::<T>(&op["b"], if T::CX { op.get("bi") } else { None }); Res::X(m.clone().solve(&b)) }
            "solve" => { let b = vec_of::<T>(&op["b"], if T::CX { op.get("bi") } else { None }); Res::X(m.solve(&b)) }
            other => tool_error(&format!("unknown banded op {}", other)),
        }
    })
}

fn zeros_like(v: &Value) -> Value { Value::from(vec![0i64; v.as_array().map(|a| a.len()).unwrap_or(0)]) }

fn run_hist<T: BE>(case: &Value, out: &mut Out) { run_hist_from::<T>(case, out, 0) }
fn run_hist_from<T: BE>(case: &Value, out: &mut Out, k0: usize) { run_on::<T>(None, case, out, k0); }
/// a second object built in one of several ways ("plain", "resized": grown from a 1 x 1 matrix, "clone": a clone whose original is dropped)
fn aux_build<T: BE>(b: &Value, how: &str) -> Banded<T> {
    match how {
        "resized" => { let (n, m1, m2) = (getu(b, "n"), getu(b, "m1"), getu(b, "m2")); let src = band_from::<T>(b);
            let mut a = Banded::<T>::new(1, 0, 0, T::from_ri(5, 0)); a.resize(n, m1, m2);
            for i in 0..n { for j in 0..n { if in_band(n, m1, m2, i, j) { a[(i, j)] = src[(i, j)]; } } } a }
        "clone" => { let o = band_from::<T>(b); let c = o.clone(); drop(o); c }
        _ => band_from::<T>(b),
    }
}
/// the history of `case` on the object `m0` (or on the object the case prescribes); returns the object
fn run_on<T: BE>(m0: Option<Banded<T>>, case: &Value, out: &mut Out, k0: usize) -> Option<Banded<T>> {
    let cid = geti(case, "cid");
    let mut m = match m0 { Some(m) => m, None => match if k0 == 0 { construct::<T>(case, out) } else { guarded(|| band_from::<T>(&case["band"])).ok() } { Some(m) => m, None => return None } };
    let mut aux: Option<Banded<T>> = None; let mut snap = [Value::Null, Value::Null];
    for (k, op) in case["ops"].as_array().unwrap().iter().enumerate() {
        let k = k + k0;
        // ---- a second, persistent object: Clone::clone_from in both directions, independence, ==
        match gets(op, "op") {
            "aux_new" => { aux = guarded(|| aux_build::<T>(&op["b"], gets(op, "how"))).ok(); if let Some(a) = &aux { snap = [jband(a, Part::Re), jband(a, Part::Im)]; } continue; }
            "on_aux" => { if let Some(a) = aux.take() { let sub = json!({"cid": cid, "kind": "hist", "ops": op["ops"]}); aux = run_on::<T>(Some(a), &sub, out, 1000 * (k + 1)); if let Some(a) = &aux { snap = [jband(a, Part::Re), jband(a, Part::Im)]; } } continue; }
            name @ ("clone_from" | "clone_into" | "aux_same" | "reclone" | "eq") => {
                let seq = gets(case, "kind") == "seq";
                let pre = [jband(&m, Part::Re), jband(&m, Part::Im)];
                let mut extra: Vec<(&str, [Value; 2])> = vec![]; let mut flags: Vec<(&str, Value)> = vec![];
                let r = guarded(|| match name {
                    "clone_from" => { let a = aux.as_ref().unwrap_or_else(|| tool_error("no aux")); extra.push(("b", [jband(a, Part::Re), jband(a, Part::Im)])); m.clone_from(a); extra.push(("bpost", [jband(a, Part::Re), jband(a, Part::Im)])); }
                    "clone_into" => { let a = aux.as_mut().unwrap_or_else(|| tool_error("no aux")); a.clone_from(&m); snap = [jband(a, Part::Re), jband(a, Part::Im)]; extra.push(("rb", snap.clone())); }
                    "aux_same" => { let a = aux.as_ref().unwrap_or_else(|| tool_error("no aux")); extra.push(("rb", [jband(a, Part::Re), jband(a, Part::Im)])); extra.push(("want", snap.clone())); }
                    "reclone" => { let c = m.clone(); let old = std::mem::replace(&mut m, c); drop(old); }
                    _ => { let o = match gets(op, "with") { "clone" => m.clone(), "entry" => { let mut c = m.clone(); let (i, j) = (getu(op, "i"), getu(op, "j")); c[(i, j)] = c[(i, j)] + T::from_ri(1, 0); c } _ => band_from::<T>(&op["b"]) };
                        extra.push(("b", [jband(&o, Part::Re), jband(&o, Part::Im)])); flags.push(("r", json!(m == o))); flags.push(("rne", json!(m != o))); }
                });
                let post = [jband(&m, Part::Re), jband(&m, Part::Im)];
                if name == "eq" {   // one event with both parts
                    let mut e = json!({"op": name, "ty": T::NAME, "cid": cid, "k": k, "panic": r.is_err(), "pre": pre[0], "post": post[0], "with": op["with"]});
                    if seq { e["seq"] = json!(true); }
                    if T::CX { e["prei"] = pre[1].clone(); }
                    for (key, v) in &extra { e[*key] = v[0].clone(); if T::CX { let ki = format!("{}i", key); e[ki.as_str()] = v[1].clone(); } }
                    for (key, v) in &flags { e[*key] = v.clone(); }
                    if r.is_err() { e["b"] = pre[0].clone(); if T::CX { e["bi"] = pre[1].clone(); } e["r"] = json!(false); e["rne"] = json!(false); }
                    out.ev(e); continue;
                }
                for w in 0..(if T::CX { 2 } else { 1 }) {
                    let mut e = json!({"op": name, "ty": T::NAME, "cid": cid, "k": k, "panic": r.is_err(), "pre": pre[w], "post": post[w], "part": if w == 0 { "re" } else { "im" }});
                    if seq { e["seq"] = json!(true); }
                    for key in ["b", "bpost", "rb", "want"] { e[key] = post[w].clone(); }      // (fields the trace spec may look at must exist)
                    for (key, v) in &extra { e[*key] = v[w].clone(); }
                    out.ev(e);
                }
                continue;
            }
            _ => {}
        }
        // a DIFFERENT object on the same thread, in the middle of the history: its own (stand-alone) events
        if gets(op, "op") == "other" { let mut sub = op["case"].clone(); sub["cid"] = json!(cid); run_hist_from::<T>(&sub, out, 1000 * (k + 1)); continue; }
        let name = match gets(op, "op") { "clone_solve" => "solve", "clone_det" => "det", s => s };
        let pre = [jband(&m, Part::Re), jband(&m, Part::Im)];
        let r = step(&mut m, op);
        let post = [jband(&m, Part::Re), jband(&m, Part::Im)];
        let panic = r.is_err();
        let res = r.unwrap_or(Res::None);
        let seq = gets(case, "kind") == "seq";
        let base = |w: usize| -> Value { let mut e = json!({"op": name, "ty": T::NAME, "cid": cid, "k": k, "panic": panic, "pre": pre[w], "post": post[w], "part": if w == 0 { "re" } else { "im" }});
            if seq { e["seq"] = json!(true); } e };
        // determinant / solve on the CURRENT state of the object (sequences): exact for Rat, units for floats
        if name == "det" || name == "solve" {
            let mut e = base(0); if let Some(m) = e.as_object_mut() { m.remove("post"); m.remove("part"); }
            let n = getu(&pre[0], "n");
            if name == "solve" && op["b"].as_array().map(|a| a.len()).unwrap_or(n) != n {
                // right-hand side of another size: the call must refuse, whatever the element type
                e["b"] = op["b"].clone(); e["xs"] = Value::from(vec![BAD; n]); e["L"] = json!(BAD); out.ev(e); continue;
            }
            if T::NAME == "rat" {
                if name == "det" { e["rq"] = match &res { Res::Det(d) => rat_of(d), _ => json!([BAD, 1]) }; }
                else { let (xs, l) = match &res { Res::X(x) => jxs(common_den(&x.vec.iter().map(rat_val).collect::<Vec<Rat>>(), LIM), n), _ => jxs(None, n) }; e["b"] = op["b"].clone(); e["xs"] = xs; e["L"] = l; }
                out.ev(e);
            } else {
                // reference from the logged projection of the current state (the trace spec ties it to the model state)
                let mut bj = pre[0].clone(); bj["ci"] = pre[1]["c"].clone();
                let dc = dense_case(&bj);
                let bc: Vec<(f64, f64)> = if name == "solve" { vec_of::<T>(&op["b"], if T::CX { op.get("bi") } else { None }).vec.iter().map(|x| x.to_c()).collect() } else { vec![(0.0, 0.0); n] };
                let (du, su, singular) = float_units(&dc, &bc, if let Res::Det(d) = &res { Some(d.to_c()) } else { None }, if let Res::X(x) = &res { Some(x.vec.iter().map(|v| v.to_c()).collect()) } else { None });
                if T::CX { e["prei"] = pre[1].clone(); } e["n"] = json!(n); e["cxf"] = json!(T::CX);
                if name == "det" { e["op"] = json!("det_units"); e["units"] = json!(du); out.ev(e); }
                else if !singular { e["op"] = json!("solve_units"); e["units"] = json!(su); out.ev(e); }
            }
            continue;
        }
        // bilinear operations on complex data: one event with both parts
        if T::CX && name == "matvec" {
            let mut e = base(0); e["op"] = json!("matvec_cx"); e["prei"] = pre[1].clone();
            e["v"] = op["v"].clone(); e["vi"] = op.get("vi").cloned().unwrap_or_else(|| zeros_like(&op["v"]));
            if let Res::V(v) = &res { e["rre"] = jvec(v, Part::Re); e["rim"] = jvec(v, Part::Im); } else { e["rre"] = json!([]); e["rim"] = json!([]); }
            out.ev(e); continue;
        }
        if T::CX && matches!(name, "mul_scalar" | "mul_assign") && op.get("si").and_then(|v| v.as_i64()).unwrap_or(0) != 0 {
            let mut e = base(0); e["op"] = json!("scale_cx"); e["src"] = json!(name); e["prei"] = pre[1].clone(); e["s"] = op["s"].clone(); e["si"] = op["si"].clone();
            match &res { Res::B(b) => { e["rb"] = jband(b, Part::Re); e["rbi"] = jband(b, Part::Im); } _ => { e["rb"] = post[0].clone(); e["rbi"] = post[1].clone(); } }
            out.ev(e); continue;
        }
        if T::CX && matches!(name, "div_scalar" | "div_assign") && op.get("si").and_then(|v| v.as_i64()).unwrap_or(0) != 0 {
            let mut e = base(0); e["op"] = json!("div_cx"); e["src"] = json!(name); e["prei"] = pre[1].clone(); e["s"] = op["s"].clone(); e["si"] = op["si"].clone();
            match &res { Res::B(b) => { e["rb"] = jband(b, Part::Re); e["rbi"] = jband(b, Part::Im); } _ => { e["rb"] = post[0].clone(); e["rbi"] = post[1].clone(); } }
            out.ev(e); continue;
        }
        let parts = if T::CX && name != "dims" { 2 } else { 1 };
        for w in 0..parts {
            let pw = if w == 0 { Part::Re } else { Part::Im };
            let mut e = base(w);
            for key in ["i", "j", "kb", "n", "m1", "m2", "form"] { if let Some(v) = op.get(key) { e[key] = v.clone(); } }
            if name == "resize" { e["n2"] = op["n"].clone(); }
            if name == "set_all" { e["vals"] = if w == 0 { op["vals"].clone() } else { op.get("valsi").cloned().unwrap_or_else(|| json!({"r": op["vals"]["r"], "c": op["vals"]["c"], "d": vec![0i64; op["vals"]["d"].as_array().unwrap().len()]})) }; }
            // value arguments: the imaginary twin sees the imaginary parts; a real scalar FACTOR acts on both parts alike
            let factor = matches!(name, "mul_scalar" | "div_scalar" | "mul_assign" | "div_assign");
            if let Some(v) = op.get("x") { e["x"] = if w == 0 { v.clone() } else { op.get("xi").cloned().unwrap_or(json!(0)) }; }
            if let Some(v) = op.get("s") { e["s"] = if w == 0 || factor { v.clone() } else { op.get("si").cloned().unwrap_or(json!(0)) }; }
            if let Some(v) = op.get("v") { e["v"] = if w == 0 { v.clone() } else { op.get("vi").cloned().unwrap_or_else(|| zeros_like(v)) }; }
            if let Some(b) = op.get("b") { e["b"] = if w == 0 { json!({"n": b["n"], "m1": b["m1"], "m2": b["m2"], "c": b["c"]}) } else { im_band(b) }; }
            match &res {
                Res::B(b) => e["rb"] = jband(b, pw),
                Res::V(v) => e["rv"] = jvec(v, pw),
                Res::S(x) => e["ri"] = json!(part(x.to_ri(), pw)),
                Res::Dims(a, b, c) => { e["rn"] = json!(a); e["rm1"] = json!(b); e["rm2"] = json!(c); }
                Res::D(d) => { let n = m.size(); e["rm"] = json!({"r": n, "c": n, "d": d.iter().map(|p| part(*p, pw)).collect::<Vec<i64>>()}); }
                Res::None | Res::Det(_) | Res::X(_) => {}
            }
            if panic {   // fields the trace spec may look at must exist
                match name { "get" => e["ri"] = json!(BAD), "matvec" => e["rv"] = json!([]), "dense" => e["rm"] = json!({"r": 0, "c": 0, "d": []}),
                    "dims" => { e["rn"] = json!(BAD); e["rm1"] = json!(BAD); e["rm2"] = json!(BAD); }
                    "clone" | "neg" | "add" | "sub" | "mul_scalar" | "div_scalar" => e["rb"] = post[w].clone(), _ => {} }
            }
            out.ev(e);
        }
    }
    Some(m)
}

// ------------------------------------------------------------------ references (trusted measurement code)
/// exact rational solution of a dense system by Gauss-Jordan elimination (independent of the code under test);
/// None if singular
pub fn exact_solve(a: &[Vec<Rat>], b: &[Rat]) -> Option<Vec<Rat>> {
    let n = a.len(); let mut m: Vec<Vec<Rat>> = a.iter().enumerate().map(|(i, r)| { let mut r = r.clone(); r.push(b[i]); r }).collect();
    for k in 0..n {
        let p = (k..n).find(|&r| !m[r][k].is_zero())?; m.swap(k, p);
        let pv = m[k][k]; for j in k..=n { m[k][j] = m[k][j] / pv; }
        for i in 0..n { if i != k && !m[i][k].is_zero() { let f = m[i][k]; for j in k..=n { let t = m[k][j] * f; m[i][j] = m[i][j] - t; } } }
    }
    Some((0..n).map(|i| m[i][n]).collect())
}
/// the fraction-free determinant exactly as Banded.tla's DetFF evaluates it; also reports the largest
/// intermediate magnitude (so that generators can keep TLC inside its 32-bit integers)
pub fn bareiss(a: &[Vec<i128>]) -> (i128, i128) {
    let n = a.len(); if n == 0 { return (1, 1); }
    let mut m: Vec<Vec<i128>> = a.to_vec(); let mut prev: i128 = 1; let mut sgn: i128 = 1; let mut big: i128 = 0;
    for k in 0..n.saturating_sub(1) {
        let p = match (k..n).find(|&r| m[r][k] != 0) { Some(p) => p, None => return (0, big) };
        if p != k { m.swap(k, p); sgn = -sgn; }
        for i in k + 1..n { for j in k + 1..n {
            let t1 = m[i][j] * m[k][k]; let t2 = m[i][k] * m[k][j]; let d = t1 - t2;
            big = big.max(t1.abs()).max(t2.abs()).max(d.abs());
            m[i][j] = d / prev; }
            m[i][k] = 0; }
        prev = m[k][k];
    }
    (sgn * m[n - 1][n - 1], big)
}
/// x = xs / L with L the least common denominator; None if something exceeds `lim`
pub fn common_den(x: &[Rat], lim: i128) -> Option<(Vec<i64>, i64)> {
    let mut l: i128 = 1;
    for r in x { let g = { let (mut a, mut b) = (l, r.d); while b != 0 { let t = a % b; a = b; b = t; } a }; l = l / g * r.d; if l > lim { return None; } }
    let mut xs = vec![]; for r in x { let v = r.n * (l / r.d); if v.abs() > lim { return None; } xs.push(v as i64); }
    Some((xs, l as i64))
}
pub const LIM: i128 = 1 << 24;
fn jxs(x: Option<(Vec<i64>, i64)>, n: usize) -> (Value, Value) { match x { Some((xs, l)) => (Value::from(xs), json!(l)), None => (Value::from(vec![BAD; n]), json!(BAD)) } }

/// Gaussian elimination with partial pivoting in complex double-double: (determinant, min |pivot|, solution of A x = b)
pub fn ref_gepp(a: &[Vec<CDD>], b: &[CDD]) -> (CDD, f64, Vec<CDD>) {
    let n = a.len(); let mut m: Vec<Vec<CDD>> = a.to_vec(); let mut r: Vec<CDD> = b.to_vec();
    let mut det = CDD::from(1.0, 0.0); let mut minp = f64::INFINITY;
    for k in 0..n {
        let mut p = k; for i in k + 1..n { if m[i][k].abs() > m[p][k].abs() { p = i; } }
        if p != k { m.swap(k, p); r.swap(k, p); det = CDD::ZERO.sub(det); }
        let pv = m[k][k]; minp = minp.min(pv.abs()); det = det.mul(pv);
        if pv.abs() == 0.0 { continue; }
        for i in k + 1..n { let f = m[i][k].div(pv); if f.abs() == 0.0 { continue; } for j in k..n { let t = f.mul(m[k][j]); m[i][j] = m[i][j].sub(t); } let t = f.mul(r[k]); r[i] = r[i].sub(t); }
    }
    let mut x = vec![CDD::ZERO; n];
    if minp > 0.0 { for i in (0..n).rev() { let mut s = r[i]; for j in i + 1..n { s = s.sub(m[i][j].mul(x[j])); } x[i] = s.div(m[i][i]); } }
    (det, minp, x)
}
fn cabs(p: (f64, f64)) -> f64 { p.0.hypot(p.1) }
/// P^T |L||U| of the LU factorisation with partial pivoting in double-double (rows in the order of A); None when a pivot choice
/// is ambiguous (two candidates within 1e-6 relative: another correct tie-break could take the other row) or a pivot is zero.
/// Whoever exchanges rows by magnitude obtains these factors up to rounding, and then |b - A x| <= gamma_3n |L||U||x|
/// componentwise (Higham, Thm 9.4) - a bound WITHOUT the worst-case growth 2^(n-1).  (A banded matrix is its dense twin:
/// the candidates below the band are zeros.)
pub fn ref_absprod(a: &[Vec<CDD>]) -> Option<Vec<Vec<f64>>> {
    let n = a.len(); let mut m: Vec<Vec<CDD>> = a.to_vec(); let mut perm: Vec<usize> = (0..n).collect();
    for k in 0..n {
        let mut p = k; let mut best = m[k][k].abs(); let mut second = 0.0f64;
        for i in k + 1..n { let v = m[i][k].abs(); if v > best { second = best; best = v; p = i; } else if v > second { second = v; } }
        if !(best > 0.0) || !best.is_finite() || second > best * (1.0 - 1e-6) { return None; }
        if p != k { m.swap(k, p); perm.swap(k, p); }
        let pv = m[k][k];
        for i in k + 1..n { let f = m[i][k].div(pv); m[i][k] = f; if f.abs() != 0.0 { for j in k + 1..n { let t = f.mul(m[k][j]); m[i][j] = m[i][j].sub(t); } } }
    }
    let mut out = vec![vec![0.0f64; n]; n];
    for i in 0..n { for j in 0..n { let mut s = if i <= j { m[i][j].abs() } else { 0.0 }; for k in 0..i.min(j + 1) { s += m[i][k].abs() * m[k][j].abs(); } out[perm[i]][j] = s; } }
    if out.iter().flatten().all(|v| v.is_finite()) { Some(out) } else { None }
}
/// componentwise residual of x in units of eps * (|L||U||x|)_i, maximum over the rows; residual accumulated in double-double
pub fn sharp_units(a: &[Vec<(f64, f64)>], x: &[(f64, f64)], b: &[(f64, f64)]) -> Option<i64> {
    let n = a.len(); let ac: Vec<Vec<CDD>> = a.iter().map(|r| r.iter().map(|p| CDD::from(p.0, p.1)).collect()).collect();
    let lu = ref_absprod(&ac)?;
    if x.iter().any(|p| !p.0.is_finite() || !p.1.is_finite()) { return Some(SAT); }
    let mut worst = 0i64;
    for i in 0..n {
        let mut s = CDD::ZERO.sub(CDD::from(b[i].0, b[i].1));
        for j in 0..n { if a[i][j] != (0.0, 0.0) { s = s.add(ac[i][j].mul(CDD::from(x[j].0, x[j].1))); } }
        let den: f64 = (0..n).map(|k| lu[i][k] * cabs(x[k])).sum(); let r = s.abs();
        if r != 0.0 { worst = worst.max(units(r, f64::EPSILON * den)); }
    }
    Some(worst)
}
/// a value of type T times 2^k (exact power-of-two rescaling; floats only)
pub fn sc<T: BE>(x: T, k: i64) -> T { if k == 0 { x } else { let c = x.to_c(); T::from_f(scale2(c.0, k), scale2(c.1, k)) } }
/// x * 2^k, exactly (unless the result itself leaves the f64 range); the factor is applied in pieces of at most 2^+-1000
pub fn scale2(x: f64, k: i64) -> f64 { let mut x = x; let mut k = k; while k != 0 { let s = k.clamp(-1000, 1000); x *= (2.0f64).powi(s as i32); k -= s; } x }
/// backward error of x for A x = b in units of eps * (|A|_inf |x|_inf + |b|_inf); residual accumulated in double-double
pub fn backward_units(a: &[Vec<(f64, f64)>], x: &[(f64, f64)], b: &[(f64, f64)]) -> i64 {
    let n = a.len(); let mut rmax = 0.0f64; let mut an = 0.0f64;
    if x.iter().any(|p| !p.0.is_finite() || !p.1.is_finite()) { return SAT; }
    for i in 0..n {
        let mut s = CDD::ZERO.sub(CDD::from(b[i].0, b[i].1)); let mut rs = 0.0;
        for j in 0..n { if a[i][j] != (0.0, 0.0) { s = s.add(CDD::from(a[i][j].0, a[i][j].1).mul(CDD::from(x[j].0, x[j].1))); rs += cabs(a[i][j]); } }
        rmax = rmax.max(s.abs()); an = an.max(rs);
    }
    let xn = x.iter().map(|p| cabs(*p)).fold(0.0, f64::max); let bn = b.iter().map(|p| cabs(*p)).fold(0.0, f64::max);
    units(rmax, f64::EPSILON * (an * xn + bn))
}

/// (determinant units, solve units, reference says singular) for a float result against double-double references;
/// a missing result (panic) counts as saturated
fn float_units(dc: &[Vec<(f64, f64)>], bc: &[(f64, f64)], det: Option<(f64, f64)>, sol: Option<Vec<(f64, f64)>>) -> (i64, i64, bool) {
    let n = dc.len();
    let a: Vec<Vec<CDD>> = dc.iter().map(|r| r.iter().map(|p| CDD::from(p.0, p.1)).collect()).collect();
    let (rdet, minp, _) = ref_gepp(&a, &bc.iter().map(|p| CDD::from(p.0, p.1)).collect::<Vec<CDD>>());
    let amax = dc.iter().flatten().map(|p| cabs(*p)).fold(0.0, f64::max);
    // determinant: unit = eps * sqrt(n) * prod_i max(|row_i|_2, max|a|)  (multilinearity of det in the rows)
    let mut unit = f64::EPSILON * (n as f64).sqrt();
    for r in dc { let r2 = r.iter().map(|p| p.0 * p.0 + p.1 * p.1).sum::<f64>().sqrt(); unit *= r2.max(amax); }
    let du = match det { Some((re, im)) => { if re.is_finite() && im.is_finite() { units(CDD::from(re, im).sub(rdet).abs(), unit) } else { SAT } } None => SAT };
    let su = match sol { Some(x) => backward_units(dc, &x, bc), None => SAT };
    (du, su, !(minp > 1e-9 * amax))
}

// ------------------------------------------------------------------ det / solve / product on one matrix
/// dense twin of the case's matrix (from the case JSON, never through the object under test)
fn dense_case(bj: &Value) -> Vec<Vec<(f64, f64)>> {
    let (n, m1, m2) = (getu(bj, "n"), getu(bj, "m1"), getu(bj, "m2")); let mm = m1 + m2 + 1;
    let d = bj["c"]["d"].as_array().unwrap(); let di = bj.get("ci").map(|v| v["d"].as_array().unwrap());
    (0..n).map(|i| (0..n).map(|j| if in_band(n, m1, m2, i, j) { let c = m1 + j - i; (fval(&d[i * mm + c]), di.map(|x| fval(&x[i * mm + c])).unwrap_or(0.0)) } else { (0.0, 0.0) }).collect()).collect()
}

fn run_lu<T: BE>(case: &Value, out: &mut Out) {
    let cid = geti(case, "cid");
    let n = getu(&case["band"], "n");
    // exponent sweep (exact modes): the matrix actually built is 2^xa * A (in-band entries), the right-hand side 2^xb * b; the
    // events speak about the integer system A x = b (the solution is rescaled by exactly 2^(xa - xb), det by 2^(-n xa))
    let xa = case.get("xa").and_then(|v| v.as_i64()).unwrap_or(0); let xb = case.get("xb").and_then(|v| v.as_i64()).unwrap_or(0);
    let scase = if xa == 0 && xb == 0 { case.clone() } else { let mut c = case.clone(); let z = vec![0i64; n];
        if let Some(o) = c.as_object_mut() { o.remove("ea"); o.remove("eb"); }
        scale_case(&mut c, xa, xb, &z, &z); if let Some(o) = c.as_object_mut() { o.remove("ea"); o.remove("eb"); } c };
    let m = match construct::<T>(&scase, out) { Some(m) => m, None => return };
    let b = vec_of::<T>(&scase["b"], if T::CX { scase.get("bi") } else { None });
    let exact = T::NAME == "rat" || gets(case, "mode") == "exact";
    let nodet = case.get("nodet").is_some();
    let mut k = 0usize;
    let emit = |out: &mut Out, k: &mut usize, mut e: Value| { e["ty"] = json!(T::NAME); e["cid"] = json!(cid); e["k"] = json!(*k); *k += 1; out.ev(e); };
    let dc: Vec<Vec<(f64, f64)>> = dense_case(&case["band"]);
    let bc: Vec<(f64, f64)> = b.vec.iter().map(|x| x.to_c()).collect();
    let det = guarded(|| m.det()).map(|d| sc(d, -xa * n as i64));
    let sol = guarded(|| m.solve(&b)).map(|x| Vector::create(x.vec.iter().map(|v| sc(*v, xa - xb)).collect()));
    if T::CX && gets(case, "mode") == "exact" {
        // Gaussian-integer data on which every complex float operation of the elimination is exact: judged over Gaussian rationals
        let pre = json!({"n": case["band"]["n"], "m1": case["band"]["m1"], "m2": case["band"]["m2"], "c": case["band"]["c"]}); let prei = im_band(&case["band"]);
        let bi = case.get("bi").cloned().unwrap_or_else(|| zeros_like(&case["b"]));
        let (rq, rqi) = match det.as_ref().ok().and_then(to_rat2) { Some((a, b)) => (jrat(a), jrat(b)), None => (json!([BAD, 1]), json!([BAD, 1])) };
        if !nodet { emit(out, &mut k, json!({"op": "det_cx", "pre": pre, "prei": prei, "panic": det.is_err(), "rq": rq, "rqi": rqi})); }
        let conv: Option<Vec<(Rat, Rat)>> = sol.as_ref().ok().and_then(|x| x.vec.iter().map(to_rat2).collect());
        let (xs, xsi, l) = match conv.and_then(|v| cx_common_den(&v, LIM)) { Some((a, b, l)) => (Value::from(a), Value::from(b), json!(l)), None => (Value::from(vec![BAD; n]), Value::from(vec![BAD; n]), json!(BAD)) };
        emit(out, &mut k, json!({"op": "solve_cx", "pre": pre, "prei": prei, "b": case["b"], "bi": bi, "panic": sol.is_err(), "xs": xs, "xsi": xsi, "L": l, "msg": sol.as_ref().err().cloned().unwrap_or_default()}));
    } else if exact {
        // the operand of these two events is the matrix the CASE prescribes (generators keep its determinant and
        // solution inside TLC's integers); that the object under test holds exactly these in-band entries is the "built" event
        let pre = json!({"n": case["band"]["n"], "m1": case["band"]["m1"], "m2": case["band"]["m2"], "c": case["band"]["c"]});
        let rq = match det.as_ref().ok().and_then(as_rat) { Some(q) => jrat(q), None => json!([BAD, 1]) };
        if !nodet { emit(out, &mut k, json!({"op": "det", "pre": pre, "panic": det.is_err(), "rq": rq})); }
        let (xs, l) = match sol.as_ref().ok().and_then(|x| x.vec.iter().map(as_rat).collect::<Option<Vec<Rat>>>()) { Some(v) => jxs(common_den(&v, LIM), n), None => jxs(None, n) };
        emit(out, &mut k, json!({"op": "solve", "pre": pre, "b": case["b"], "panic": sol.is_err(), "xs": xs, "L": l, "msg": sol.as_ref().err().cloned().unwrap_or_default()}));
    } else {
        // extreme magnitudes: the case says A = A0 * 2^ea, b = b0 * 2^eb.  The error measures are invariant under such
        // uniform scalings, so they are evaluated on the descaled data (A0, b0, x * 2^(ea-eb), det * 2^(-n ea)) - exact
        // power-of-two rescalings, no overflow or underflow inside the measurement
        let ea = case.get("ea").and_then(|v| v.as_i64()).unwrap_or(0); let eb = case.get("eb").and_then(|v| v.as_i64()).unwrap_or(0);
        let sc = |p: (f64, f64), k: i64| (scale2(p.0, k), scale2(p.1, k));
        let dc: Vec<Vec<(f64, f64)>> = dc.iter().map(|r| r.iter().map(|p| sc(*p, -ea)).collect()).collect();
        let bc: Vec<(f64, f64)> = bc.iter().map(|p| sc(*p, -eb)).collect();
        // beyond |n ea| = 900 the determinant itself leaves the f64 range; row / column graded cases are judged on solve only
        let det_ok = case.get("dete").and_then(|v| v.as_i64()).unwrap_or(ea * n as i64).abs() <= 900 && case.get("graded").is_none();
        let (du, su, singular) = float_units(&dc, &bc, det.as_ref().ok().map(|d| sc(d.to_c(), -ea * n as i64)), sol.as_ref().ok().map(|x| x.vec.iter().map(|v| sc(v.to_c(), ea - eb)).collect()));
        let singular = singular && case.get("regular").is_none();     // "regular": nonsingular by construction (graded scalings of a regular matrix)
        if det_ok { emit(out, &mut k, json!({"op": "det_units", "n": n, "cxf": T::CX, "panic": det.is_err(), "units": if det.is_ok() { du } else { SAT }, "singular": singular})); }
        // solve: only where the reference elimination meets no (nearly) zero pivot
        if !singular { emit(out, &mut k, json!({"op": "solve_units", "n": n, "cxf": T::CX, "panic": sol.is_err(), "units": if sol.is_ok() { su } else { SAT }})); }
        // growth adversaries: the componentwise bound with the reference factors |L||U| (no worst-case growth in the guard)
        if case.get("sharp").is_some() {
            let cu = match &sol { Ok(x) => sharp_units(&dc, &x.vec.iter().map(|v| sc(v.to_c(), ea - eb)).collect::<Vec<_>>(), &bc), Err(_) => Some(SAT) };
            match cu { Some(u) => emit(out, &mut k, json!({"op": "solve_sharp", "n": n, "cxf": T::CX, "panic": sol.is_err(), "cunits": u})),
                       None => emit(out, &mut k, json!({"op": "solve_sharp", "n": n, "cxf": T::CX, "panic": sol.is_err(), "cunits": 0, "noref": true})) }
        }
    }
    // product and index on the same matrix (integer data only)
    let ints = |b: &Value| inband_ints(b, "c") && inband_ints(b, "ci");
    if ints(&case["band"]) && case.get("aux").and_then(|v| v.as_bool()) != Some(false) {
        let v = case.get("v").cloned().unwrap_or_else(|| Value::from((1..=n as i64).map(|k| 2 * k - 3).collect::<Vec<i64>>()));
        let vi = case.get("vi").cloned().unwrap_or_else(|| zeros_like(&v));
        let sub = json!({"cid": cid, "band": case["band"], "ops": [{"op": "matvec", "form": if cid % 2 == 0 { "own" } else { "ref" }, "v": v, "vi": vi}, {"op": "dense"}, {"op": "dims"}]});
        run_hist_from::<T>(&sub, out, k);
    }
}
/// exact rational value of a result: a Rat itself, or a float that is a (real) dyadic rational
fn as_rat<T: BE>(x: &T) -> Option<Rat> { let any: &dyn std::any::Any = x; if let Some(r) = any.downcast_ref::<Rat>() { return Some(*r); } let (re, im) = x.to_c(); if im != 0.0 { return None; } f64_to_rat(re) }
fn rat_val<T: BE>(x: &T) -> Rat { let any: &dyn std::any::Any = x; *any.downcast_ref::<Rat>().unwrap_or_else(|| tool_error("exact branch needs Rat")) }
fn rat_of<T: BE>(x: &T) -> Value { jrat(rat_val(x)) }

// ---- CPU affinity (the crate may size its work by num_cpus::get(), which follows the affinity mask of the calling thread)
pub fn get_affinity() -> Vec<usize> {
    unsafe { let mut set: libc::cpu_set_t = std::mem::zeroed();
        if libc::sched_getaffinity(0, std::mem::size_of::<libc::cpu_set_t>(), &mut set) != 0 { return vec![0]; }
        (0..libc::CPU_SETSIZE as usize).filter(|c| libc::CPU_ISSET(*c, &set)).collect() }
}
pub fn set_affinity(cpus: &[usize]) -> bool {
    unsafe { let mut set: libc::cpu_set_t = std::mem::zeroed(); libc::CPU_ZERO(&mut set); for c in cpus { libc::CPU_SET(*c, &mut set); }
        libc::sched_setaffinity(0, std::mem::size_of::<libc::cpu_set_t>(), &set) == 0 }
}
/// restores the mask even if something below unwinds
pub struct RestoreAffinity(pub Vec<usize>);
impl Drop for RestoreAffinity { fn drop(&mut self) { set_affinity(&self.0); } }
/// a case with "cpus": k runs with the process restricted to k CPUs (the mask is restored afterwards); the events are the
/// same as without the restriction and are validated by the same trace specification
pub fn narrowed(case: &Value) -> Option<RestoreAffinity> {
    let k = case.get("cpus").and_then(|v| v.as_u64())? as usize;
    let orig = get_affinity(); let k = k.max(1).min(orig.len());
    let off = geti(case, "cid").max(0) as usize % orig.len();
    let cpus: Vec<usize> = (0..k).map(|j| orig[(off + j) % orig.len()]).collect();
    if !set_affinity(&cpus) { tool_error("sched_setaffinity failed"); }
    Some(RestoreAffinity(orig))
}

pub fn exec(case: &Value, out: &mut Out) {
    let _guard = narrowed(case);
    let hist = matches!(gets(case, "kind"), "hist" | "seq");
    match (gets(case, "ty"), hist) {
        ("rat", true) => run_hist::<Rat>(case, out), ("f64", true) => run_hist::<f64>(case, out), ("cx", true) => run_hist::<Cmplx>(case, out),
        ("rat", false) => run_lu::<Rat>(case, out), ("f64", false) => run_lu::<f64>(case, out), ("cx", false) => run_lu::<Cmplx>(case, out),
        (t, _) => tool_error(&format!("unknown type {}", t)),
    }
}

// ------------------------------------------------------------------ case generation
const TYS: [&str; 3] = ["rat", "f64", "cx"];
/// a scalar m * 2^e as JSON
fn js(m: i64, e: i32) -> Value { if e == 0 { json!(m) } else { json!({"m": m, "e": e}) } }
fn nz(rng: &mut StdRng, v: i64) -> i64 { let x = rng.gen_range(1..=v.max(1)); if rng.gen_bool(0.5) { x } else { -x } }

/// in-band entries (mantissa, exponent) of one value family; `v` bounds the magnitudes, `fl` allows non-integers
fn family(rng: &mut StdRng, n: usize, m1: usize, m2: usize, fam: usize, v: i64, fl: bool) -> Vec<Vec<(i64, i32)>> {
    let mut a = vec![vec![(0i64, 0i32); n]; n];
    let inb = |i: usize, j: usize| in_band(n, m1, m2, i, j);
    for i in 0..n { for j in 0..n { if !inb(i, j) { continue; }
        a[i][j] = match fam {
            0 => (rng.gen_range(1..=v), 0),                                                        // strictly positive (what the tests use)
            1 => (rng.gen_range(-v..=v), 0),                                                       // mixed signs, zeros
            2 => if i == j { (-rng.gen_range(1..=v), 0) } else { (rng.gen_range(-v..=v), 0) },     // negative diagonal
            3 => if i == j { (0, 0) } else if i == j + 1 || (m1 == 0 && j == i + 1) { (nz(rng, v), 0) } else { (rng.gen_range(-v..=v), 0) },   // zero diagonal, nonzero sub-diagonal
            4 => if i == j { (-rng.gen_range((v / 2 + 1).min(v)..=v), 0) }                                           // tiny positive sub-diagonal under an O(1) negative diagonal
                 else if i == j + 1 { if fl { (rng.gen_range(1..=9), -45) } else { (1, 0) } }
                 else if fl { (rng.gen_range(-4..=4), -3) } else { (rng.gen_range(-1..=1), 0) },
            5 => (rng.gen_range(-1..=1), 0),                                                       // small entries: often singular
            _ => (rng.gen_range(-(1i64 << 20)..=(1i64 << 20)), -rng.gen_range(10..=20)),           // general reals
        };
    } }
    a
}
fn to_i128(a: &[Vec<(i64, i32)>]) -> Vec<Vec<i128>> { a.iter().map(|r| r.iter().map(|p| p.0 as i128).collect()).collect() }
fn rand_pad(rng: &mut StdRng) -> i64 { match rng.gen_range(0..4) { 0 => 0, 1 => rng.gen_range(-99..=99), 2 => 7, _ => rng.gen_range(-9..=9) } }
/// band JSON from dense in-band entries, padding slots drawn at random (arbitrary values)
fn band_json(rng: &mut StdRng, n: usize, m1: usize, m2: usize, a: &[Vec<(i64, i32)>], pad_exp: i32) -> Value {
    let mm = m1 + m2 + 1; let mut d = vec![];
    for i in 0..n { for c in 0..mm { let j = i as isize + c as isize - m1 as isize;
        if j >= 0 && (j as usize) < n { let p = a[i][j as usize]; d.push(js(p.0, p.1)); } else { let p = rand_pad(rng); d.push(js(p, if p != 0 && rng.gen_bool(0.3) { pad_exp } else { 0 })); } } }
    json!({"n": n, "m1": m1, "m2": m2, "c": {"r": n, "c": mm, "d": d}})
}
/// can TLC decide this exact case inside 32-bit integers?  (same algorithms as the trace specification)
pub fn fits_tlc(a: &[Vec<i128>], b: &[i64]) -> bool {
    let (det, big) = bareiss(a);
    if big >= (1 << 30) || det.abs() >= (1 << 30) { return false; }
    if det == 0 { return true; }
    let ar: Vec<Vec<Rat>> = a.iter().map(|r| r.iter().map(|x| Rat::int(*x as i64)).collect()).collect();
    let br: Vec<Rat> = b.iter().map(|x| Rat::int(*x)).collect();
    match exact_solve(&ar, &br) { Some(x) => common_den(&x, LIM).is_some(), None => false }
}

fn rand_band_int(rng: &mut StdRng, n: usize, m1: usize, m2: usize, lo: i64, hi: i64) -> Value {
    let mm = m1 + m2 + 1; let mut d = vec![];
    for i in 0..n { for c in 0..mm { let j = i as isize + c as isize - m1 as isize;
        d.push(if j >= 0 && (j as usize) < n { rng.gen_range(lo..=hi) } else { rand_pad(rng) }); } }
    json!({"n": n, "m1": m1, "m2": m2, "c": {"r": n, "c": mm, "d": d}})
}
fn with_im(rng: &mut StdRng, mut b: Value, lo: i64, hi: i64) -> Value {
    let len = b["c"]["d"].as_array().unwrap().len();
    b["ci"] = json!({"r": b["c"]["r"], "c": b["c"]["c"], "d": (0..len).map(|_| rng.gen_range(lo..=hi)).collect::<Vec<i64>>()}); b
}

/// one history touching every operation (integer data, magnitudes stay far below 2^30)
fn hist_ops(rng: &mut StdRng, n: usize, m1: usize, m2: usize, cx: bool, len: usize) -> Vec<Value> {
    let mut ops = vec![json!({"op": "dims"}), json!({"op": "dense"})];
    let inband = |rng: &mut StdRng| -> (usize, usize) { loop { let i = rng.gen_range(0..n); let j = rng.gen_range(0..n); if in_band(n, m1, m2, i, j) { return (i, j); } } };
    let mut scale_budget = 3;
    let mut picks: Vec<usize> = (0..20).collect();
    for t in 0..len {
        let pick = if t < 20 { let k = rng.gen_range(0..picks.len()); picks.swap_remove(k) } else { rng.gen_range(0..20) };
        let form = if rng.gen_bool(0.5) { "own" } else { "ref" };
        let mut o = match pick {
            0 => { let (i, j) = inband(rng); json!({"op": "get", "i": i, "j": j}) }
            1 => { let i = rng.gen_range(0..n); let j = rng.gen_range(0..n); json!({"op": "get", "i": i, "j": j}) }       // possibly off the band
            2 | 3 => { let (i, j) = inband(rng); json!({"op": "set", "i": i, "j": j, "x": rng.gen_range(-9..=9), "xi": rng.gen_range(-9..=9)}) }
            4 => json!({"op": "fill_band", "kb": rng.gen_range(-(m1 as i64)..=(m2 as i64)), "x": rng.gen_range(-9..=9), "xi": rng.gen_range(-9..=9)}),
            5 => json!({"op": "neg", "form": form}),
            6 => json!({"op": "add", "form": form, "b": rand_band_int(rng, n, m1, m2, -9, 9)}),
            7 => json!({"op": "sub", "form": form, "b": rand_band_int(rng, n, m1, m2, -9, 9)}),
            8 => json!({"op": "add_assign", "form": form, "b": rand_band_int(rng, n, m1, m2, -9, 9)}),
            9 => json!({"op": "sub_assign", "form": form, "b": rand_band_int(rng, n, m1, m2, -9, 9)}),
            10 => { let (s, si) = if cx && rng.gen_bool(0.6) { [(0i64, 1i64), (0, -1), (0, 2), (-1, 0)][rng.gen_range(0..4)] } else { (rng.gen_range(-3..=3), rng.gen_range(-3..=3)) };
                    json!({"op": "mul_scalar", "form": form, "s": s, "si": si}) }
            11 => { let (s, si) = if cx { [(0i64, 1i64), (0, -1), (-1, 0), (1, 0)][rng.gen_range(0..4)] } else { (if rng.gen_bool(0.5) { 1 } else { -1 }, 0) };
                    json!({"op": "div_scalar", "form": form, "s": s, "si": si}) }
            12 => { if scale_budget == 0 { json!({"op": "clone"}) } else { scale_budget -= 1; json!({"op": "mul_assign", "s": ([-2i64, 2, 3, -1][rng.gen_range(0..4)]), "si": rng.gen_range(-1..=1)}) } }
            13 => { let (s, si) = if cx { [(0i64, 1i64), (0, -1), (-1, 0), (1, 0)][rng.gen_range(0..4)] } else { (if rng.gen_bool(0.5) { 1 } else { -1 }, 0) };
                    json!({"op": "div_assign", "s": s, "si": si}) }
            14 => json!({"op": "add_scalar_assign", "s": rng.gen_range(-9..=9), "si": rng.gen_range(-9..=9)}),
            15 => json!({"op": "sub_scalar_assign", "s": rng.gen_range(-9..=9), "si": rng.gen_range(-9..=9)}),
            16 | 17 => json!({"op": "matvec", "form": form, "v": rand_vec_json(rng, n, -5, 5), "vi": rand_vec_json(rng, n, -5, 5)}),
            18 => json!({"op": "clone"}),
            _ => json!({"op": "dense"}),
        };
        if cx { if let Some(b) = o.get("b").cloned() { o["b"] = with_im(rng, b, -9, 9); } }
        else { for k in ["xi", "si", "vi"] { if let Some(m) = o.as_object_mut() { m.remove(k); } } }
        ops.push(o);
    }
    // exact scalar division on multiples, whole-matrix fill, fresh construction with a padding-filling value
    let s = [2i64, -2, 3, 5][rng.gen_range(0..4)];
    ops.push(json!({"op": "fill", "x": s * rng.gen_range(-4..=4), "xi": s * rng.gen_range(-4..=4)}));
    ops.push(json!({"op": "mul_assign", "s": s}));
    if cx { ops.push(json!({"op": "mul_assign", "s": 2})); ops.push(json!({"op": "div_scalar", "form": "own", "s": 0, "si": 2})); ops.push(json!({"op": "div_assign", "s": 0, "si": -2})); ops.push(json!({"op": "mul_assign", "s": 0, "si": 1})); }
    ops.push(json!({"op": "div_scalar", "form": "ref", "s": s}));
    ops.push(json!({"op": "div_assign", "s": s}));
    ops.push(json!({"op": "new", "n": n, "m1": m1, "m2": m2, "x": rng.gen_range(-9..=9), "xi": rng.gen_range(-9..=9)}));
    ops.push(json!({"op": "dense"}));
    if !cx { for o in ops.iter_mut() { if let Some(m) = o.as_object_mut() { m.remove("xi"); m.remove("si"); } } }
    ops
}

pub fn gen(tier: &str, seed: u64, out: &mut Out) {
    let quick = tier == "quick";
    if std::env::var("BAND_DEBUG").is_ok() { std::panic::set_hook(Box::new(|i| eprintln!("{}", i))); }
    let mut rng = rng(seed, 4);
    let mut cid = 0i64;
    let mut push = |out: &mut Out, mut c: Value| { cid += 1; c["cid"] = json!(cid); c["suite"] = json!("banded"); out.raw(&c); };
    let mut t = 0usize;
    // every (n, m1, m2) with 1 <= n <= 10, 0 <= m1, m2 < n : 385 triples
    for n in 1..=10usize { for m1 in 0..n { for m2 in 0..n {
        t += 1;
        // (a) histories
        let tys: Vec<&str> = if quick { vec![TYS[t % 3]] } else { TYS.to_vec() };
        for ty in tys { for _rep in 0..(if quick { 1 } else { 2 }) {
            let cx = ty == "cx";
            let mut band = rand_band_int(&mut rng, n, m1, m2, -9, 9); if cx { band = with_im(&mut rng, band, -9, 9); }
            let ops = hist_ops(&mut rng, n, m1, m2, cx, if quick { 8 } else { 24 });
            push(out, json!({"kind": "hist", "ty": ty, "band": band, "ops": ops}));
        } }
        // (b) det / solve / product for every value family
        // (family 7, Complex only: every entry exactly on the real or on the imaginary axis)
        for fam in 0..8usize { for rep in 0..(if quick { 1 } else { 3 }) {
            let tys: Vec<&str> = if fam == 7 { vec!["cx"] } else if quick { vec![TYS[(t + fam + rep) % 3]] } else { TYS.to_vec() };
            let famx = if fam == 7 { 1 } else { fam };
            for ty in tys {
                if fam == 6 && ty == "rat" { continue; }
                let fl = ty != "rat";
                let bvec: Vec<i64> = (0..n).map(|_| rng.gen_range(-9..=9)).collect();
                let mut v = 9i64; let mut tries = 0;
                let mut a = loop {
                    let mut a = family(&mut rng, n, m1, m2, famx, v, fl);
                    if fam == 5 {   // singular family: insist on determinant zero (zero column as a fallback)
                        let mut t2 = 0; while bareiss(&to_i128(&a)).0 != 0 && t2 < 6 { a = family(&mut rng, n, m1, m2, fam, v, fl); t2 += 1; }
                        if bareiss(&to_i128(&a)).0 != 0 { let k = rng.gen_range(0..n); for i in 0..n { a[i][k] = (0, 0); } }
                    }
                    if fl || fits_tlc(&to_i128(&a), &bvec) { break a; }
                    tries += 1; if tries % 3 == 0 && v > 1 { v = (v + 1) / 2; }
                    if tries > 40 { break (0..n).map(|i| (0..n).map(|j| if i == j { (1, 0) } else { (0, 0) }).collect()).collect(); }
                };
                // imaginary parts: same family drawn again (so that magnitudes, not signs of the real part, decide)
                let mut ai = if ty == "cx" { family(&mut rng, n, m1, m2, if fam == 3 || fam == 5 { fam } else { 1 }, 9, false) } else { vec![] };
                if fam == 7 { for i in 0..n { for j in 0..n { if rng.gen_bool(0.5) { a[i][j] = (0, 0); if ai[i][j].0 == 0 && in_band(n, m1, m2, i, j) { ai[i][j] = (nz(&mut rng, 9), 0); } } else { ai[i][j] = (0, 0); } } } }
                let mut band = band_json(&mut rng, n, m1, m2, &a, if fl && fam != 7 { -7 } else { 0 });
                let mut case = json!({"kind": "lu", "ty": ty, "fam": fam, "b": bvec});
                let intdata = a.iter().flatten().all(|p| p.1 == 0) && band["c"]["d"].as_array().unwrap().iter().all(|x| x.is_i64());
                if ty == "cx" {
                    let bi = band_json(&mut rng, n, m1, m2, &ai, 0);
                    band["ci"] = bi["c"].clone();
                    case["bi"] = rand_vec_json(&mut rng, n, -9, 9);
                }
                if intdata { case["v"] = rand_vec_json(&mut rng, n, -5, 5); if ty == "cx" { case["vi"] = rand_vec_json(&mut rng, n, -5, 5); } }
                if quick && (t + fam) % 2 == 1 && fam != 7 { case["aux"] = json!(false); }      // quick: product / reads on every second of these cases
                case["band"] = band;
                push(out, case);
            }
        } }
        // (c) graded pivot candidates inside the search window (floats; needs at least two rows below the diagonal)
        if m1 >= 2 && n >= 3 {
            let ks: Vec<usize> = if quick { vec![t % (n - 2), (t / 3 + 1) % (n - 2)] } else { (0..n - 2).collect() };
            for (q, k) in ks.iter().enumerate() { for cx in [false, true] {
                let variants: Vec<usize> = if quick { vec![if q == 0 { 0 } else { 1 + (t + cx as usize) % 2 }] } else { vec![0, 1, 2] };
                for variant in variants {
                    let mut case = graded_case(&mut rng, n, m1, m2, *k, cx, variant);
                    for _ in 0..20 { if solvable(&case) { break; } case = graded_case(&mut rng, n, m1, m2, *k, cx, variant); }
                    if solvable(&case) { push(out, case); }
                }
            } }
        }
    } } }
    // (e) extreme magnitudes: every n, entries uniformly scaled by 2^+-60, 2^+-200, 2^+-400 (and row / column graded)
    for n in 1..=10usize {
        let mut geos: Vec<(usize, usize)> = vec![(0, 0)];
        if n >= 2 { geos = vec![(1, 1), (n - 1, n - 1), (1, 0)]; }
        if n >= 3 { geos = vec![(1, 1), (n - 1, n - 1), (2, 1), (rng.gen_range(0..n), rng.gen_range(0..n))]; }
        if quick && geos.len() > 2 { let off = rng.gen_range(0..geos.len()); geos = vec![geos[off], geos[(off + 1) % geos.len()]]; }
        for (m1, m2) in geos { let mut v = vec![]; scaled_cases(&mut rng, n, m1, m2, quick, &mut v); for c in v { push(out, c); } }
    }
    { let mut sink = |c: Value| push(out, c); exact_and_sweep(&mut rng, quick, seed, &mut sink); }
    // (m) the std-trait forms: Clone::clone_from between objects of every relation of geometries, ==, clone-and-drop
    { let mut sink = |c: Value| push(out, c); clonefrom_cases(&mut rng, quick, &mut sink); }
    // (l) growth adversaries for banded partial pivoting (floats), judged by the growth-free componentwise bound
    { let mut sink = |c: Value| push(out, c); growth_cases(&mut rng, quick, &mut sink); }
    // (j) binary operations on operands that agree in every aggregate a storage check could see but differ in geometry
    { let mut sink = |c: Value| push(out, c); mismatch_cases(&mut rng, quick, &mut sink); }
    // (k) what a refused call leaves behind: the same object, a clone and another object right after it
    { let mut sink = |c: Value| push(out, c); poison_cases(&mut rng, quick, &mut sink); }
    // (i) the product for sizes beyond the number of CPUs (n up to 40), both forms, all element types; and a sample of the
    //     small-n battery re-run with the process restricted to 1, 2 and 3 CPUs
    { let mut t = 0usize;
      let mut sizes: Vec<usize> = vec![17, 24, 33, 40]; for _ in 0..(if quick { 2 } else { 16 }) { sizes.push(rng.gen_range(11..=40)); }
      for n in sizes { for rep in 0..(if quick { 2 } else { 4 }) { t += 1;
        let (m1, m2) = match rep % 4 { 0 => (rng.gen_range(0..4.min(n)), rng.gen_range(0..4.min(n))), 1 => (rng.gen_range(0..n), rng.gen_range(0..n)), 2 => (n - 1, rng.gen_range(0..3)), _ => (rng.gen_range(0..3), n - 1) };
        let ty = TYS[t % 3]; let cx = ty == "cx";
        let mut band = rand_band_int(&mut rng, n, m1, m2, -9, 9); if cx { band = with_im(&mut rng, band, -9, 9); }
        let mv = |rng: &mut StdRng, form: &str| { let mut o = json!({"op": "matvec", "form": form, "v": rand_vec_json(rng, n, -5, 5)}); if cx { o["vi"] = rand_vec_json(rng, n, -5, 5); } o };
        let ops = vec![json!({"op": "dims"}), mv(&mut rng, "ref"), mv(&mut rng, "own"), json!({"op": "add_scalar_assign", "s": 1}), mv(&mut rng, "ref"), json!({"op": "dense"})];
        let mut c = json!({"kind": "hist", "fam": "large-n", "ty": ty, "band": band, "ops": ops});
        if rep % 2 == 1 { c["cpus"] = json!(1 + t % 3); }
        push(out, c);
      } }
      for k in 0..(if quick { 36 } else { 240 }) {
        let n = rng.gen_range(2..=10usize); let m1 = rng.gen_range(0..n); let m2 = rng.gen_range(0..n); let ty = TYS[k % 3]; let cx = ty == "cx";
        let mut band = rand_band_int(&mut rng, n, m1, m2, -9, 9); if cx { band = with_im(&mut rng, band, -9, 9); }
        let ops = hist_ops(&mut rng, n, m1, m2, cx, 8);
        push(out, json!({"kind": "hist", "fam": "narrowed", "cpus": 1 + (k / 3) % 3, "ty": ty, "band": band, "ops": ops}));
      }
    }
    // (h) one object resized to a different geometry: systematically the pairs with the SAME number of storage slots but a
    //     different storage shape, pairs that only move the split m1 / m2, and Banded::empty() followed by resize
    { let geos = geometries(); let slots = |g: &(usize, usize, usize)| (g.0 * (g.1 + g.2 + 1), g.0, g.1 + g.2 + 1);
      let mut same_slots = vec![]; let mut split_only = vec![];
      for a in &geos { for b in &geos { if a == b { continue; } let (sa, sb) = (slots(a), slots(b));
          if sa.0 == sb.0 && (sa.1, sa.2) != (sb.1, sb.2) { same_slots.push((*a, *b)); } else if (sa.1, sa.2) == (sb.1, sb.2) { split_only.push((*a, *b)); } } }
      let pick = |rng: &mut StdRng, v: &mut Vec<((usize, usize, usize), (usize, usize, usize))>, k: usize| { for i in (1..v.len()).rev() { v.swap(i, rng.gen_range(0..=i)); } v.truncate(k); };
      if quick { pick(&mut rng, &mut same_slots, 90); pick(&mut rng, &mut split_only, 24); } else { pick(&mut rng, &mut split_only, 400); }
      let mut t = 0usize;
      for (a, b) in same_slots.iter().chain(split_only.iter()) { t += 1; push(out, reshape_case(&mut rng, *a, *b, TYS[t % 3], false)); }
      for k in 0..(if quick { 12 } else { 120 }) { let g = geos[rng.gen_range(0..geos.len())]; push(out, reshape_case(&mut rng, (1, 0, 0), g, TYS[k % 3], true)); }
    }
    // (g) non-finite / extreme values in the slots OUTSIDE the matrix (floats): NaN, +-inf, +-f64::MAX (overflowing to inf under
    //     `*= 4`), -0.0; in-band entries ordinary.  det / solve / product / reads must not notice.
    { let specials = ["nan", "inf", "-inf", "max", "-max", "-0"]; let mut t = 0usize;
      for n in 2..=10usize { for m1 in 0..n { for m2 in 0..n { if m1 + m2 == 0 { continue; } t += 1;
        if quick && t % 3 != 0 { continue; }
        let cx = (t / 2) % 2 == 1; let sp = specials[(t / 4) % 6]; let sp2 = specials[(t / 4 + 1 + t % 3) % 6];
        let mut band = rand_band_int(&mut rng, n, m1, m2, -9, 9); if cx { band = with_im(&mut rng, band, -9, 9); }
        let mm = m1 + m2 + 1;
        for i in 0..n { for c in 0..mm { if !(i + c >= m1 && i + c < n + m1) { band["c"]["d"][i * mm + c] = json!(sp); if cx { band["ci"]["d"][i * mm + c] = json!(if rng.gen_bool(0.5) { sp2 } else { sp }); } } } }
        let pr = |rng: &mut StdRng, ops: &mut Vec<Value>| { ops.push(json!({"op": "det"})); let mut o = json!({"op": "solve", "b": rand_vec_json(rng, n, -5, 5)}); if cx { o["bi"] = rand_vec_json(rng, n, -5, 5); } ops.push(o);
            let mut mv = json!({"op": "matvec", "form": if rng.gen_bool(0.5) { "own" } else { "ref" }, "v": rand_vec_json(rng, n, -3, 3)}); if cx { mv["vi"] = rand_vec_json(rng, n, -3, 3); } ops.push(mv); ops.push(json!({"op": "dense"})); };
        let mut ops = vec![]; pr(&mut rng, &mut ops);
        ops.push(json!({"op": "mul_assign", "s": 4})); pr(&mut rng, &mut ops);
        ops.push(json!({"op": "sub_scalar_assign", "s": 1})); pr(&mut rng, &mut ops);
        push(out, json!({"kind": "seq", "fam": "special-padding", "special": sp, "ty": if cx { "cx" } else { "f64" }, "band": band, "ops": ops}));
      } } } }
    // (f) Gaussian-integer systems with purely imaginary pivots, judged exactly over Gaussian rationals (Complex)
    for n in 1..=10usize { for rep in 0..(if quick { 6 } else { 30 }) {
        let w = if n >= 8 { 2 } else { 4 }; let p = rng.gen_range(0..n.min(w)); let q = rng.gen_range(0..n.min(w));
        for _ in 0..80 { if let Some(c) = gauss_case(&mut rng, n, p, q, rep % 2 == 1) { push(out, c); break; } }
    } }
    // (d) sequences on one object: det / solve / product / reads before and after EVERY mutating operation
    for n in 1..=10usize {
        let mut geos: Vec<(usize, usize)> = vec![(0, 0)];
        if n >= 2 { geos = vec![(1, 1), (1, 0), (0, 1)]; }
        if n >= 3 { geos = vec![(1, 1), (2, 1), (1, 2), (rng.gen_range(0..n), rng.gen_range(0..n))]; }
        if quick { let keep = if n >= 3 { 2 } else { 1 }; let off = rng.gen_range(0..geos.len()); geos = (0..keep).map(|i| geos[(off + i) % geos.len()]).collect(); }
        for (m1, m2) in geos { for ty in TYS { for _rep in 0..(if quick { 1 } else { 3 }) {
            let mut mag = 3i64; let mut best = seq_case(&mut rng, n, m1, m2, ty, mag);
            for tries in 0..12 { if best.1 >= 0.8 { break; } if tries % 2 == 1 && mag > 1 { mag -= 1; } let c = seq_case(&mut rng, n, m1, m2, ty, mag); if c.1 > best.1 { best = c; } }
            push(out, best.0);
        } } }
    }
}
// keep DD in the public surface of this module for the tridiagonal suite
pub fn dd_from(x: f64) -> DD { DD::from(x) }

// ------------------------------------------------------------------ sequences on ONE object (stale internal state)
/// integer simulation of the compact storage, used ONLY to keep the generated magnitudes inside what TLC can
/// decide exactly (never for a verdict)
struct Sim { n: usize, m1: usize, m2: usize, c: Vec<Vec<i128>> }
impl Sim {
    fn from_band(b: &Value) -> Sim { let (n, m1, m2) = (getu(b, "n"), getu(b, "m1"), getu(b, "m2")); let mm = m1 + m2 + 1; let d = ivec(&b["c"]["d"]);
        Sim { n, m1, m2, c: (0..n).map(|i| (0..mm).map(|c| d[i * mm + c] as i128).collect()).collect() } }
    fn mm(&self) -> usize { self.m1 + self.m2 + 1 }
    fn dense(&self) -> Vec<Vec<i128>> { (0..self.n).map(|i| (0..self.n).map(|j| if in_band(self.n, self.m1, self.m2, i, j) { self.c[i][self.m1 + j - i] } else { 0 }).collect()).collect() }
    fn apply(&mut self, op: &Value) {
        let mm = self.mm(); let x = op.get("x").and_then(|v| v.as_i64()).unwrap_or(0) as i128; let s = op.get("s").and_then(|v| v.as_i64()).unwrap_or(1) as i128;
        let all = |c: &mut Vec<Vec<i128>>, f: &dyn Fn(i128, usize, usize) -> i128| { for i in 0..c.len() { for k in 0..c[i].len() { c[i][k] = f(c[i][k], i, k); } } };
        let bd: Vec<i128> = op.get("b").map(|b| ivec(&b["c"]["d"]).iter().map(|v| *v as i128).collect()).unwrap_or_default();
        match gets(op, "op") {
            "set" => { let (i, j) = (getu(op, "i"), getu(op, "j")); self.c[i][self.m1 + j - i] = x; }
            "fill" => all(&mut self.c, &|_, _, _| x),
            "fill_band" => { let col = (self.m1 as i64 + geti(op, "kb")) as usize; for i in 0..self.n { self.c[i][col] = x; } }
            "add_assign" => all(&mut self.c, &|v, i, k| v + bd[i * mm + k]),
            "sub_assign" => all(&mut self.c, &|v, i, k| v - bd[i * mm + k]),
            "mul_assign" => all(&mut self.c, &|v, _, _| v * s),
            "div_assign" => if s != 0 { all(&mut self.c, &|v, _, _| v / s) },
            "add_scalar_assign" => all(&mut self.c, &|v, _, _| v + s),
            "sub_scalar_assign" => all(&mut self.c, &|v, _, _| v - s),
            "empty" => { self.c = vec![]; self.n = 0; self.m1 = 0; self.m2 = 0; }
            "set_all" => { let d = ivec(&op["vals"]["d"]); for i in 0..self.n { for j in 0..self.n { if in_band(self.n, self.m1, self.m2, i, j) { self.c[i][self.m1 + j - i] = d[i * self.n + j] as i128; } } } }
            "resize" => { let (n, m1, m2) = (getu(op, "n"), getu(op, "m1"), getu(op, "m2")); let mm2 = m1 + m2 + 1; let mm = if self.c.is_empty() { 0 } else { mm };
                let old = std::mem::take(&mut self.c); self.c = (0..n).map(|i| (0..mm2).map(|k| if i < old.len() && k < mm { old[i][k] } else { 0 }).collect()).collect();
                self.n = n; self.m1 = m1; self.m2 = m2; }
            _ => {}
        }
    }
}
/// Complex data: two thirds of the slots are put exactly on the real or on the imaginary axis
fn on_axes(rng: &mut StdRng, band: &mut Value) {
    let len = band["c"]["d"].as_array().unwrap().len();
    for k in 0..len { match rng.gen_range(0..3) { 0 => band["c"]["d"][k] = json!(0), 1 => band["ci"]["d"][k] = json!(0), _ => {} } }
}
/// probes after every mutation: det, solve, product, all in-band reads (det / solve only where TLC can decide them)
fn probes(rng: &mut StdRng, sim: &Sim, exact: bool, cx: bool, ops: &mut Vec<Value>) -> bool {
    let n = sim.n; let b: Vec<i64> = (0..n).map(|_| rng.gen_range(-5..=5)).collect();
    let fit = !exact || fits_tlc(&sim.dense(), &b);
    if fit { ops.push(json!({"op": "det"})); let mut o = json!({"op": "solve", "b": b}); if cx { o["bi"] = rand_vec_json(rng, n, -5, 5); } ops.push(o); }
    let mut mv = json!({"op": "matvec", "form": if rng.gen_bool(0.5) { "own" } else { "ref" }, "v": rand_vec_json(rng, n, -3, 3)}); if cx { mv["vi"] = rand_vec_json(rng, n, -3, 3); }
    ops.push(mv); ops.push(json!({"op": "dense"}));
    fit
}
/// one sequence: probes, then EVERY mutating operation of the type, each followed by the probes again
fn seq_case(rng: &mut StdRng, n: usize, m1: usize, m2: usize, ty: &str, mag: i64) -> (Value, f64) {
    let cx = ty == "cx"; let exact = ty == "rat";
    let mut band = rand_band_int(rng, n, m1, m2, -mag, mag); if cx { band = with_im(rng, band, -mag, mag); on_axes(rng, &mut band); }
    let mut sim = Sim::from_band(&band);
    let mut ops = vec![]; let (mut fitn, mut tot) = (0usize, 0usize);
    let mut probe = |rng: &mut StdRng, sim: &Sim, ops: &mut Vec<Value>| { tot += 1; if probes(rng, sim, exact, cx, ops) { fitn += 1; } };
    probe(rng, &sim, &mut ops);
    let mut order: Vec<usize> = (0..14).collect(); for i in (1..order.len()).rev() { order.swap(i, rng.gen_range(0..=i)); }
    let small = |rng: &mut StdRng| -> i64 { let v = rng.gen_range(1..=mag.max(1)); if rng.gen_bool(0.5) { v } else { -v } };
    for pick in order {
        let (cn, cm1, cm2) = (sim.n, sim.m1, sim.m2);
        let inb = |rng: &mut StdRng| -> (usize, usize) { loop { let i = rng.gen_range(0..cn); let j = rng.gen_range(0..cn); if in_band(cn, cm1, cm2, i, j) { return (i, j); } } };
        let mut batch: Vec<Value> = match pick {
            0 | 1 => { let (i, j) = inb(rng); vec![json!({"op": "set", "i": i, "j": j, "x": small(rng), "xi": small(rng)})] }
            2 => vec![json!({"op": "fill_band", "kb": rng.gen_range(-(cm1 as i64)..=(cm2 as i64)), "x": small(rng), "xi": small(rng)})],
            3 => vec![json!({"op": "add_assign", "form": "ref", "b": rand_band_int(rng, cn, cm1, cm2, -2, 2)})],
            4 => vec![json!({"op": "add_assign", "form": "own", "b": rand_band_int(rng, cn, cm1, cm2, -2, 2)})],
            5 => vec![json!({"op": "sub_assign", "form": "ref", "b": rand_band_int(rng, cn, cm1, cm2, -2, 2)})],
            6 => vec![json!({"op": "sub_assign", "form": "own", "b": rand_band_int(rng, cn, cm1, cm2, -2, 2)})],
            7 => if cx { let z = [(0i64, 1i64), (0, -1), (0, 2), (-1, 0)][rng.gen_range(0..4)]; vec![json!({"op": "mul_assign", "s": z.0, "si": z.1, "keepsi": true})] }
                 else { vec![json!({"op": "mul_assign", "s": ([2i64, -2, 3][rng.gen_range(0..3)])})] },
            8 => if cx { let z = [(0i64, 2i64), (0, -2)][rng.gen_range(0..2)]; let w = [(0i64, 1i64), (0, -1), (-1, 0)][rng.gen_range(0..3)];      // exact divisions by 2i, -2i, i, -i, -1
                     vec![json!({"op": "mul_assign", "s": 2}), json!({"op": "div_assign", "s": z.0, "si": z.1, "keepsi": true}), json!({"op": "div_assign", "s": w.0, "si": w.1, "keepsi": true})] }
                 else { let s = [2i64, -2, 3][rng.gen_range(0..3)]; vec![json!({"op": "mul_assign", "s": s}), json!({"op": "div_assign", "s": s})] },   // exact division
            9 => vec![json!({"op": "add_scalar_assign", "s": small(rng), "si": small(rng)})],
            10 => vec![json!({"op": "sub_scalar_assign", "s": small(rng), "si": small(rng)})],
            11 => { let n2 = rng.gen_range(1..=(cn + 1).min(10)); let a = rng.gen_range(0..n2); let b = rng.gen_range(0..n2);
                    let mut v = vec![json!({"op": "resize", "n": n2, "m1": a, "m2": b})]; for i in 0..n2 { v.push(json!({"op": "set", "i": i, "j": i, "x": small(rng), "xi": small(rng), "quiet": true})); } v }
            12 => { let mut v = vec![json!({"op": "fill", "x": small(rng), "xi": small(rng)})]; for i in 0..cn { v.push(json!({"op": "set", "i": i, "j": i, "x": small(rng) * 3, "xi": small(rng), "quiet": true})); } v }
            _ => vec![json!({"op": "sub_scalar_assign", "s": small(rng), "si": small(rng)})],
        };
        for o in batch.iter_mut() {
            if cx { if let Some(b) = o.get("b").cloned() { o["b"] = with_im(rng, b, -2, 2); } } else if let Some(m) = o.as_object_mut() { m.remove("xi"); m.remove("si"); }
            let quiet = o.get("quiet").is_some(); if let Some(m) = o.as_object_mut() { m.remove("quiet"); m.remove("keepsi"); }
            sim.apply(o); ops.push(o.clone());
            if !quiet { probe(rng, &sim, &mut ops); }      // probes after every mutation
        }
        if matches!(pick, 11 | 12) { probe(rng, &sim, &mut ops); }   // ... and again once the diagonal has been rewritten
    }
    (json!({"kind": "seq", "ty": ty, "band": band, "ops": ops}), fitn as f64 / tot.max(1) as f64)
}

// ------------------------------------------------------------------ graded pivot candidates (floats, m1 >= 2)
/// A matrix whose pivot column `k` holds, in the rows k..min(k+m1, n-1) of the search window, candidates of
/// magnitudes 1, 2^-60, 2^-120, ... in a prescribed order; the columns before k carry nothing below the diagonal,
/// so the window reaches step k untouched.  Partial pivoting BY MAGNITUDE picks the O(1) candidate and the
/// backward error stays at rounding level; any rule that picks another nonzero candidate (last / first one that
/// beats the diagonal, second largest, ...) meets multipliers of 2^60 and loses the solution.
/// variant 0: diagonal zero / smallest, largest right below it, middle candidate last (the stale-maximum case);
/// variant 1: diagonal smallest, middle first, largest last; variant 2: random order.
fn graded_case(rng: &mut StdRng, n: usize, m1: usize, m2: usize, k: usize, cx: bool, variant: usize) -> Value {
    let mm = m1 + m2 + 1; let hi = (k + m1).min(n - 1); let w = hi - k + 1;      // window rows k..=hi
    let mut level: Vec<i32> = (0..w).map(|t| -60 * t as i32).collect();          // exponents 0, -60, -120, ...
    match variant {      // level[] is sorted by decreasing magnitude; w >= 3
        0 => { let mut v = vec![level[w - 1], level[0]]; v.extend(level[1..w - 1].iter()); level = v; }        // smallest, largest, ..., second smallest
        1 => { let mut v = vec![level[w - 1]]; v.extend(level[1..w - 1].iter()); v.push(level[0]); level = v; }  // smallest, second largest, ..., largest
        _ => { for i in (1..w).rev() { level.swap(i, rng.gen_range(0..=i)); } }
    }
    let zero_diag = variant == 0 && rng.gen_bool(0.5);
    let ent = |rng: &mut StdRng, e: i32| -> Value { let m = rng.gen_range(1i64..=9) * if rng.gen_bool(0.5) { 1 } else { -1 }; json!({"m": m, "e": e}) };
    let mut d = vec![]; let mut di = vec![];
    for i in 0..n { for c in 0..mm {
        let j = i as isize + c as isize - m1 as isize;
        let (re, im) = if j < 0 || j as usize >= n { (json!(rand_pad(rng)), json!(rand_pad(rng))) } else { let j = j as usize;
            if j < k && i > j { (json!(0), json!(0)) }                                     // nothing below the diagonal before column k
            else if j == k && i >= k && i <= hi { if i == k && zero_diag { (json!(0), json!(0)) } else { let e = level[i - k];
                // Complex: candidates often lie exactly on an axis; the largest one is exactly on the NEGATIVE imaginary axis half of the time
                let neg_im = |rng: &mut StdRng| json!({"m": -rng.gen_range(1i64..=9), "e": e});
                if cx && ((e == 0 && rng.gen_bool(0.5)) || rng.gen_bool(0.25)) { (json!(0), neg_im(rng)) }
                else if cx && rng.gen_bool(0.3) { (json!(0), ent(rng, e)) }
                else if cx && rng.gen_bool(0.3) { (ent(rng, e), json!(0)) }
                else { (ent(rng, e), if rng.gen_bool(0.7) { ent(rng, e) } else { json!(0) }) } } }
            else if i == j { (json!(rng.gen_range(5i64..=9) * if rng.gen_bool(0.5) { 1 } else { -1 }), json!(rng.gen_range(-4i64..=4))) }
            else { (ent(rng, -2), ent(rng, -2)) } };
        d.push(re); di.push(im);
    } }
    let mut band = json!({"n": n, "m1": m1, "m2": m2, "c": {"r": n, "c": mm, "d": d}});
    let mut case = json!({"kind": "lu", "fam": "graded", "step": k, "variant": variant, "ty": if cx { "cx" } else { "f64" }, "b": rand_vec_json(rng, n, -9, 9)});
    if cx { band["ci"] = json!({"r": n, "c": mm, "d": di}); case["bi"] = rand_vec_json(rng, n, -9, 9); }
    case["band"] = band; case
}
/// is the reference elimination of this float case free of (nearly) zero pivots?  (so that exec will judge solve)
fn solvable(case: &Value) -> bool {
    let dc = dense_case(&case["band"]); let n = dc.len();
    let a: Vec<Vec<CDD>> = dc.iter().map(|r| r.iter().map(|p| CDD::from(p.0, p.1)).collect()).collect();
    let (_, minp, _) = ref_gepp(&a, &vec![CDD::ZERO; n]);
    let amax = dc.iter().flatten().map(|p| cabs(*p)).fold(0.0, f64::max);
    minp > 1e-6 * amax
}

// ------------------------------------------------------------------ extreme magnitudes (floats)
/// v * 2^k as JSON ({m, e}); zero stays zero
pub fn jscale(v: &Value, k: i64) -> Value {
    if let Some(m) = v.as_i64() { if m == 0 || k == 0 { json!(m) } else { json!({"m": m, "e": k}) } }
    else { let m = v["m"].as_i64().unwrap(); if m == 0 { json!(0) } else { json!({"m": m, "e": v["e"].as_i64().unwrap() + k}) } }
}
/// Scale a float "lu" case: A := 2^ea * D_r A D_c, b := 2^eb * D_r b with D_r = diag(2^rowe), D_c = diag(2^cole)
/// (in-band entries only; padding keeps its O(1) values).  ea / eb are recorded in the case: exec descales by them.
fn scale_case(case: &mut Value, ea: i64, eb: i64, rowe: &[i64], cole: &[i64]) {
    let (n, m1, m2) = (getu(&case["band"], "n"), getu(&case["band"], "m1"), getu(&case["band"], "m2")); let mm = m1 + m2 + 1;
    for key in ["c", "ci"] { if case["band"].get(key).is_none() { continue; }
        let d: Vec<Value> = case["band"][key]["d"].as_array().unwrap().clone(); let mut nd = vec![];
        for i in 0..n { for c in 0..mm { let v = &d[i * mm + c]; let j = i as isize + c as isize - m1 as isize;
            nd.push(if j >= 0 && (j as usize) < n { jscale(v, ea + rowe[i] + cole[j as usize]) } else { v.clone() }); } }
        case["band"][key]["d"] = Value::from(nd); }
    for key in ["b", "bi"] { if let Some(b) = case.get(key).cloned() { case[key] = Value::from(b.as_array().unwrap().iter().enumerate().map(|(i, v)| jscale(v, eb + rowe[i])).collect::<Vec<Value>>()); } }
    case["ea"] = json!(ea); case["eb"] = json!(eb);
    let gsum: i64 = rowe.iter().sum::<i64>() + cole.iter().sum::<i64>();
    case["gsum"] = json!(gsum); case["dete"] = json!(ea * n as i64 + gsum);       // det(A) = 2^dete * det(A0)
    if let Some(m) = case.as_object_mut() { m.remove("v"); m.remove("vi"); }
}
/// regular base matrices for the scaled family: mixed signs / zero diagonal under nonzero sub-diagonal / general reals
fn scaled_cases(rng: &mut StdRng, n: usize, m1: usize, m2: usize, quick: bool, out: &mut Vec<Value>) {
    let scales: [i64; 6] = [-400, -200, -60, 60, 200, 400];
    for cx in [false, true] { for (q, ea) in scales.iter().enumerate() {
        if quick && (q + n + m1 + cx as usize) % 2 == 1 && ea.abs() != 400 && ea.abs() != 200 { continue; }
        // base case, regular by the reference elimination
        let mut base = Value::Null;
        for _ in 0..30 {
            let fam = [1usize, 3, 6, 2][rng.gen_range(0..4)];
            let a = family(rng, n, m1, m2, fam, 9, true);
            let mut band = band_json(rng, n, m1, m2, &a, 0);
            let mut c = json!({"kind": "lu", "fam": "scaled", "base": fam, "ty": if cx { "cx" } else { "f64" }, "b": rand_vec_json(rng, n, -9, 9)});
            if cx { let ai = family(rng, n, m1, m2, if fam == 3 { 3 } else { 1 }, 9, false); band["ci"] = band_json(rng, n, m1, m2, &ai, 0)["c"].clone(); c["bi"] = rand_vec_json(rng, n, -9, 9); }
            c["band"] = band;
            if solvable(&c) { base = c; break; }
        }
        if base.is_null() { continue; }
        // right-hand side: solution O(1) (eb = ea) or as extreme as the matrix (eb = 2 ea)
        // (Complex: b * pivot must stay representable for the naive complex quotient, so "as extreme" stops at 2^+-200)
        let eb = if (q + n) % 2 == 0 || (cx && ea.abs() > 200) { *ea } else { 2 * *ea };
        let mut c = base.clone(); scale_case(&mut c, *ea, eb, &vec![0; n], &vec![0; n]); c["regular"] = json!(true); out.push(c);
        // row- or column-graded by 2^-200 .. 2^200 on top of a moderate uniform scale (Gaussian elimination with partial
        // pivoting cannot overflow: multipliers are bounded by 1)
        if ea.abs() == 60 || (!quick && ea.abs() == 200) {
            let ea2 = if ea.abs() == 60 { *ea } else { 0 };
            let g: Vec<i64> = (0..n).map(|_| [0i64, -60, -200, 200, 60][rng.gen_range(0..5)]).collect(); let z = vec![0i64; n];
            let mut c = base.clone(); if *ea > 0 { scale_case(&mut c, ea2, ea2, &g, &z); c["graded"] = json!("rows"); } else { scale_case(&mut c, ea2, ea2, &z, &g); c["graded"] = json!("cols"); }
            c["regular"] = json!(true); out.push(c);
        }
    } }
}

// ------------------------------------------------------------------ Gaussian integers / Gaussian rationals (exact complex checks)
/// an f64 as an exact rational (dyadic); None if it does not fit
pub fn f64_to_rat(x: f64) -> Option<Rat> {
    if !x.is_finite() { return None; }
    if x == 0.0 { return Some(Rat::int(0)); }
    let bits = x.to_bits(); let neg = (bits >> 63) != 0; let ex = ((bits >> 52) & 0x7ff) as i64; let frac = bits & ((1u64 << 52) - 1);
    let (mut m, mut e) = if ex == 0 { (frac as i128, -1074i64) } else { ((frac | (1u64 << 52)) as i128, ex - 1075) };
    while m % 2 == 0 { m /= 2; e += 1; }
    if neg { m = -m; }
    if e >= 0 { if e > 60 { return None; } Some(Rat::new(m << e, 1)) } else { if -e > 60 { return None; } Some(Rat::new(m, 1i128 << (-e))) }
}
/// both parts of a value as exact rationals
pub fn to_rat2<T: BE>(x: &T) -> Option<(Rat, Rat)> { let (re, im) = x.to_c(); Some((f64_to_rat(re)?, f64_to_rat(im)?)) }
/// (xs + i xsi) / L with one common denominator for all real and imaginary parts
pub fn cx_common_den(x: &[(Rat, Rat)], lim: i128) -> Option<(Vec<i64>, Vec<i64>, i64)> {
    let all: Vec<Rat> = x.iter().flat_map(|p| [p.0, p.1]).collect();
    let (v, l) = common_den(&all, lim)?;
    Some((v.iter().step_by(2).cloned().collect(), v.iter().skip(1).step_by(2).cloned().collect(), l))
}
/// Gaussian rational
#[derive(Clone, Copy)]
pub struct GR { pub re: Rat, pub im: Rat }
impl GR {
    pub fn int(a: i64, b: i64) -> GR { GR { re: Rat::int(a), im: Rat::int(b) } }
    pub fn is_zero(&self) -> bool { self.re.is_zero() && self.im.is_zero() }
    pub fn sub(self, o: GR) -> GR { GR { re: self.re - o.re, im: self.im - o.im } }
    pub fn mul(self, o: GR) -> GR { GR { re: self.re * o.re - self.im * o.im, im: self.re * o.im + self.im * o.re } }
    pub fn div(self, o: GR) -> GR { let d = o.re * o.re + o.im * o.im; GR { re: (self.re * o.re + self.im * o.im) / d, im: (self.im * o.re - self.re * o.im) / d } }
}
/// exact solution of a dense Gaussian-integer system (independent of the code under test); None if singular
pub fn gr_solve(a: &[Vec<(i64, i64)>], b: &[(i64, i64)]) -> Option<Vec<(Rat, Rat)>> {
    let n = a.len(); let mut m: Vec<Vec<GR>> = a.iter().enumerate().map(|(i, r)| { let mut r: Vec<GR> = r.iter().map(|p| GR::int(p.0, p.1)).collect(); r.push(GR::int(b[i].0, b[i].1)); r }).collect();
    for k in 0..n {
        let p = (k..n).find(|&r| !m[r][k].is_zero())?; m.swap(k, p);
        let pv = m[k][k]; for j in k..=n { m[k][j] = m[k][j].div(pv); }
        for i in 0..n { if i != k && !m[i][k].is_zero() { let f = m[i][k]; for j in k..=n { let t = m[k][j].mul(f); m[i][j] = m[i][j].sub(t); } } }
    }
    Some((0..n).map(|i| (m[i][n].re, m[i][n].im)).collect())
}
/// the fraction-free determinant over Gaussian integers exactly as Banded.tla's CDetFF evaluates it, with the largest
/// intermediate magnitude (to keep TLC inside its 32-bit integers)
pub fn cbareiss(a: &[Vec<(i128, i128)>]) -> ((i128, i128), i128) {
    let n = a.len(); if n == 0 { return ((1, 0), 1); }
    let mut m = a.to_vec(); let mut prev = (1i128, 0i128); let mut neg = false; let mut big = 0i128;
    let mut mul = |x: (i128, i128), y: (i128, i128), big: &mut i128| { let t = [x.0 * y.0, x.1 * y.1, x.0 * y.1, x.1 * y.0]; for v in t { *big = (*big).max(v.abs()); } let r = (t[0] - t[1], t[2] + t[3]); *big = (*big).max(r.0.abs()).max(r.1.abs()); r };
    for k in 0..n.saturating_sub(1) {
        let p = match (k..n).find(|&r| m[r][k] != (0, 0)) { Some(p) => p, None => return ((0, 0), big) };
        if p != k { m.swap(k, p); neg = !neg; }
        for i in k + 1..n { for j in k + 1..n {
            let t1 = mul(m[i][j], m[k][k], &mut big); let t2 = mul(m[i][k], m[k][j], &mut big); let d = (t1.0 - t2.0, t1.1 - t2.1);
            let nn = prev.0 * prev.0 + prev.1 * prev.1; let q0 = d.0 * prev.0 + d.1 * prev.1; let q1 = d.1 * prev.0 - d.0 * prev.1;
            for v in [d.0 * prev.0, d.1 * prev.1, d.1 * prev.0, d.0 * prev.1] { big = big.max(v.abs()); }
            big = big.max(d.0.abs()).max(d.1.abs()).max(q0.abs()).max(q1.abs()).max(nn);
            m[i][j] = (q0 / nn, q1 / nn); }
            m[i][k] = (0, 0); }
        prev = m[k][k];
    }
    let d = m[n - 1][n - 1]; (if neg { (-d.0, -d.1) } else { d }, big)
}
/// can TLC decide this exact Gaussian-integer case?
pub fn fits_tlc_cx(a: &[Vec<(i64, i64)>], b: &[(i64, i64)]) -> bool {
    let ai: Vec<Vec<(i128, i128)>> = a.iter().map(|r| r.iter().map(|p| (p.0 as i128, p.1 as i128)).collect()).collect();
    let (det, big) = cbareiss(&ai);
    if big >= (1 << 30) { return false; }
    if det == (0, 0) { return true; }
    match gr_solve(a, b) { Some(x) => cx_common_den(&x, LIM).is_some(), None => false }
}

/// Gaussian units and near-units whose squared modulus is a power of two: dividing a Gaussian dyadic number by one of
/// them is exact in binary floating point.  The imaginary axis (negative half included) is over-represented.
pub const PIVOTS: [(i64, i64); 16] = [(0, 1), (0, -1), (0, 2), (0, -2), (0, 4), (0, -4), (0, -1), (0, -2), (1, 0), (-1, 0), (2, 0), (-2, 0), (1, 1), (1, -1), (-1, 1), (-1, -1)];
/// a small Gaussian integer, mostly on one of the axes
pub fn gint(rng: &mut StdRng, v: i64) -> (i64, i64) { match rng.gen_range(0..5) { 0 | 1 => (0, rng.gen_range(-v..=v)), 2 | 3 => (rng.gen_range(-v..=v), 0), _ => (rng.gen_range(-v..=v), rng.gen_range(-v..=v)) } }
fn cmul(a: (i64, i64), b: (i64, i64)) -> (i64, i64) { (a.0 * b.0 - a.1 * b.1, a.0 * b.1 + a.1 * b.0) }
/// Complex case on which every float operation of the banded elimination is exact: A = P (2L) U with U upper band q
/// (diagonal from PIVOTS, Gaussian-integer rows), 2L lower band p with diagonal 2 and entries of modulus <= sqrt 2 (so the
/// true pivot is strictly the largest candidate and every multiplier is a Gaussian half-integer), P exchanging disjoint
/// adjacent row pairs (so that row exchanges do take place).  Pivots 2 u_kk are often purely imaginary.
fn gauss_case(rng: &mut StdRng, n: usize, p: usize, q: usize, swaps: bool) -> Option<Value> {
    let halves: [(i64, i64); 9] = [(0, 0), (1, 0), (-1, 0), (0, 1), (0, -1), (1, 1), (1, -1), (-1, 1), (-1, -1)];
    let mut l2 = vec![vec![(0i64, 0i64); n]; n]; let mut u = vec![vec![(0i64, 0i64); n]; n];
    for i in 0..n { for j in 0..n {
        if i == j { l2[i][j] = (2, 0); u[i][j] = PIVOTS[rng.gen_range(0..PIVOTS.len())]; }
        else if i > j && i - j <= p { l2[i][j] = halves[rng.gen_range(0..9)]; }
        else if j > i && j - i <= q { u[i][j] = gint(rng, 2); }
    } }
    let mut a = vec![vec![(0i64, 0i64); n]; n];
    for i in 0..n { for j in 0..n { let mut s = (0i64, 0i64); for k in 0..n { let t = cmul(l2[i][k], u[k][j]); s = (s.0 + t.0, s.1 + t.1); } a[i][j] = s; } }
    let mut b: Vec<(i64, i64)> = (0..n).map(|_| gint(rng, 5)).collect();
    if swaps { let mut k = 0; while k + 1 < n { if rng.gen_bool(0.5) { a.swap(k, k + 1); b.swap(k, k + 1); k += 2; } else { k += 1; } } }
    let (mut m1, mut m2) = (0usize, 0usize);
    for i in 0..n { for j in 0..n { if a[i][j] != (0, 0) { if i > j { m1 = m1.max(i - j); } else { m2 = m2.max(j - i); } } } }
    if swaps { m1 = (m1 + 1).min(n - 1).max(m1); }      // (room for the fill-in is part of the storage anyway)
    if !fits_tlc_cx(&a, &b) { return None; }
    let mm = m1 + m2 + 1; let (mut d, mut di) = (vec![], vec![]);
    for i in 0..n { for c in 0..mm { let j = i as isize + c as isize - m1 as isize;
        if j >= 0 && (j as usize) < n { d.push(a[i][j as usize].0); di.push(a[i][j as usize].1); } else { d.push(rand_pad(rng)); di.push(rand_pad(rng)); } } }
    Some(json!({"kind": "lu", "ty": "cx", "mode": "exact", "fam": "gauss", "swaps": swaps,
        "band": {"n": n, "m1": m1, "m2": m2, "c": {"r": n, "c": mm, "d": d}, "ci": {"r": n, "c": mm, "d": di}},
        "b": b.iter().map(|p| p.0).collect::<Vec<i64>>(), "bi": b.iter().map(|p| p.1).collect::<Vec<i64>>(),
        "v": rand_vec_json(rng, n, -3, 3), "vi": rand_vec_json(rng, n, -3, 3)}))
}

// ------------------------------------------------------------------ one object taken to a DIFFERENT geometry
/// all (n, m1, m2) with n <= 10
fn geometries() -> Vec<(usize, usize, usize)> { let mut v = vec![]; for n in 1..=10usize { for m1 in 0..n { for m2 in 0..n { v.push((n, m1, m2)); } } } v }
/// resize (optionally from Banded::empty()) to `to`, fill(0), assignment of EVERY in-band entry through IndexMut, then every observer
fn reshape_case(rng: &mut StdRng, from: (usize, usize, usize), to: (usize, usize, usize), ty: &str, via_empty: bool) -> Value {
    let cx = ty == "cx"; let (n, m1, m2) = to;
    let mut band = rand_band_int(rng, from.0, from.1, from.2, -2, 2); if cx { band = with_im(rng, band, -9, 9); }
    // target entries (Rat: kept inside what TLC can decide)
    let mut v = 5i64; let mut tries = 0; let bvec: Vec<i64> = (0..n).map(|_| rng.gen_range(-5..=5)).collect();
    let a = loop { let a = family(rng, n, m1, m2, 1, v, false);
        if ty != "rat" || fits_tlc(&to_i128(&a), &bvec) { break a; }
        tries += 1; if tries % 3 == 0 && v > 1 { v = (v + 1) / 2; }
        if tries > 40 { break (0..n).map(|i| (0..n).map(|j| if i == j { (1, 0) } else { (0, 0) }).collect()).collect(); } };
    let mut ops = vec![];
    // (a first factorisation of the old shape; Rat: only where TLC can decide it)
    if via_empty { ops.push(json!({"op": "empty"})); }
    else if ty != "rat" || fits_tlc(&Sim::from_band(&band).dense(), &vec![0; from.0]) { ops.push(json!({"op": "det"})); } else { ops.push(json!({"op": "dense"})); }
    ops.push(json!({"op": "resize", "n": n, "m1": m1, "m2": m2}));
    ops.push(json!({"op": "fill", "x": 0, "xi": 0}));
    let vals: Vec<i64> = (0..n * n).map(|k| a[k / n][k % n].0).collect(); let valsi: Vec<i64> = (0..n * n).map(|k| if in_band(n, m1, m2, k / n, k % n) { rng.gen_range(-3i64..=3) } else { 0 }).collect();
    let mut sa = json!({"op": "set_all", "vals": {"r": n, "c": n, "d": vals}}); if cx { sa["valsi"] = json!({"r": n, "c": n, "d": valsi}); } ops.push(sa);
    ops.push(json!({"op": "dense"})); ops.push(json!({"op": "dims"}));
    for _ in 0..3 { let i = rng.gen_range(0..n); let j = rng.gen_range(0..n); ops.push(json!({"op": "get", "i": i, "j": j})); }
    ops.push(json!({"op": "matvec", "form": "ref", "v": rand_vec_json(rng, n, -3, 3), "vi": rand_vec_json(rng, n, -3, 3)}));
    ops.push(json!({"op": "matvec", "form": "own", "v": rand_vec_json(rng, n, -3, 3), "vi": rand_vec_json(rng, n, -3, 3)}));
    ops.push(json!({"op": "det"})); ops.push(json!({"op": "solve", "b": bvec, "bi": rand_vec_json(rng, n, -5, 5)}));
    let other = |rng: &mut StdRng| { let b = rand_band_int(rng, n, m1, m2, -9, 9); if cx { with_im(rng, b, -9, 9) } else { b } };
    ops.push(json!({"op": "neg", "form": "ref"})); ops.push(json!({"op": "add", "form": "ref", "b": other(rng)})); ops.push(json!({"op": "sub", "form": "own", "b": other(rng)}));
    ops.push(json!({"op": "mul_scalar", "form": "ref", "s": 2})); ops.push(json!({"op": "clone"}));
    ops.push(json!({"op": "add_assign", "form": "ref", "b": other(rng)})); ops.push(json!({"op": "dense"}));
    if !cx { for o in ops.iter_mut() { if let Some(m) = o.as_object_mut() { for k in ["xi", "vi", "bi"] { m.remove(k); } } } }
    json!({"kind": "seq", "fam": "reshape", "ty": ty, "band": band, "ops": ops})
}

// ------------------------------------------------------------------ exact integer LU with "awkward" pivots; exponent sweep
/// pivots whose reciprocal is not a dyadic number
const ODD_PIVOTS: [i64; 10] = [49, 51, 98, 103, 147, 196, 97, 201, 112, 7];
/// Integer band system on which the compact elimination is exact in f64: A = P (4L) U, U upper band q with diagonal pivots
/// (+-1, +-2, up to `nodd` from ODD_PIVOTS), 4L lower band p with diagonal 4 and entries in {0, +-1, +-2} (multipliers
/// 0, +-1/4, +-1/2: the true pivot is strictly the largest candidate), P exchanging disjoint adjacent rows; integer solution
/// x, b = A x.  Every intermediate of the elimination and of both substitutions is an integer.
fn exact_lu(rng: &mut StdRng, n: usize, p: usize, q: usize, swaps: bool, nodd: usize, mag: i64) -> (Vec<Vec<i64>>, Vec<i64>, usize, usize) {
    let pm = |rng: &mut StdRng, v: i64| -> i64 { if rng.gen_bool(0.5) { v } else { -v } };
    let mut l4 = vec![vec![0i64; n]; n]; let mut u = vec![vec![0i64; n]; n];
    for i in 0..n { for j in 0..n {
        if i == j { l4[i][j] = 4; let b = if rng.gen_bool(0.3) { 2 } else { 1 }; u[i][j] = pm(rng, b); }
        else if i > j && i - j <= p { l4[i][j] = [0i64, 1, -1, 2, -2, 1, -2][rng.gen_range(0..7)]; }
        else if j > i && j - i <= q { u[i][j] = rng.gen_range(-mag..=mag); }
    } }
    for _ in 0..nodd { let k = rng.gen_range(0..n); let v = ODD_PIVOTS[rng.gen_range(0..ODD_PIVOTS.len())]; u[k][k] = pm(rng, v); }
    let mut a = vec![vec![0i64; n]; n];
    for i in 0..n { for j in 0..n { a[i][j] = (0..n).map(|k| l4[i][k] * u[k][j]).sum(); } }
    let x: Vec<i64> = (0..n).map(|_| rng.gen_range(-mag.max(1)..=mag.max(1))).collect();
    let mut b: Vec<i64> = (0..n).map(|i| (0..n).map(|j| a[i][j] * x[j]).sum()).collect();
    if swaps { let mut k = 0; while k + 1 < n { if rng.gen_bool(0.5) { a.swap(k, k + 1); b.swap(k, k + 1); k += 2; } else { k += 1; } } }
    let (mut m1, mut m2) = (0usize, 0usize);
    for i in 0..n { for j in 0..n { if a[i][j] != 0 { if i > j { m1 = m1.max(i - j); } else { m2 = m2.max(j - i); } } } }
    (a, b, m1, m2)
}
fn lu_case(rng: &mut StdRng, a: &[Vec<i64>], b: &[i64], m1: usize, m2: usize, ty: &str, fam: &str) -> Value {
    let n = a.len(); let mm = m1 + m2 + 1; let mut d = vec![];
    for i in 0..n { for c in 0..mm { let j = i as isize + c as isize - m1 as isize; d.push(if j >= 0 && (j as usize) < n { a[i][j as usize] } else { rand_pad(rng) }); } }
    let mut c = json!({"kind": "lu", "ty": ty, "mode": "exact", "fam": fam, "band": {"n": n, "m1": m1, "m2": m2, "c": {"r": n, "c": mm, "d": d}}, "b": b});
    // Complex: the determinant is judged only where the fraction-free elimination over Gaussian integers stays inside TLC's integers
    if ty == "cx" { let ai: Vec<Vec<(i128, i128)>> = a.iter().map(|r| r.iter().map(|x| (*x as i128, 0i128)).collect()).collect(); if cbareiss(&ai).1 >= (1 << 30) { c["nodet"] = json!(true); } }
    c
}
fn exact_and_sweep(rng: &mut StdRng, quick: bool, seed: u64, push: &mut dyn FnMut(Value)) {
    // (j) awkward pivots (f64 exact, also Rat and Complex)
    for n in 1..=8usize { for rep in 0..(if quick { 4 } else { 20 }) {
        for t in 0..60 { let w = if n >= 6 { 2 } else { 3 }; let (pp, qq) = (if n >= 2 { rng.gen_range(1..n.min(w).max(2)) } else { 0 }, rng.gen_range(0..n.min(w))); let (a, b, m1, m2) = exact_lu(rng, n, pp, qq, rep % 2 == 1, if t < 30 { 2 } else { 1 }, 3);
            let ai: Vec<Vec<i128>> = a.iter().map(|r| r.iter().map(|x| *x as i128).collect()).collect();
            if fits_tlc(&ai, &b) && m1 < n && m2 < n { let tys: Vec<&str> = if quick { vec!["f64", TYS[(rep + n) % 3]] } else { TYS.to_vec() };
                for ty in tys { let mut c = lu_case(rng, &a, &b, m1, m2, ty, "odd-pivots"); if quick && rep % 2 == 0 { c["aux"] = json!(false); } push(c); } break; } }
    } }
    // (k) exponent sweep over the whole f64 exponent axis (subnormal pivots included); Complex where its own quotient stays in range
    let step = if quick { 8 } else { 1 }; let phase = ((seed / 3) % step as u64) as i64;
    let mut idx = 0usize; let mut k = -1070 + phase;
    while k <= 1020 { idx += 1;
        for (variant, cx) in [(0usize, false), (1, false), (0, true), (1, true)] {
            if cx && (k < -530 || k > 500 || (quick && idx % 2 == 1)) { continue; }
            let n = if variant == 1 { 1 } else { 2 + idx % 5 };
            for t in 0..60 { let mag = if t < 20 { 2 } else { 1 };
                let (pp, qq) = (if n >= 2 { rng.gen_range(1..n.min(3).max(2)) } else { 0 }, rng.gen_range(0..n.min(3))); let (a, b, m1, m2) = exact_lu(rng, n, pp, qq, idx % 3 == 0, 0, mag);
                let mx = a.iter().flatten().chain(b.iter()).map(|x| x.abs()).max().unwrap_or(1).max(1); let bits = 64 - (mx as u64).leading_zeros() as i64 + 3;
                let both = idx % 2 == 0 || k.abs() > 1000;
                if !(k + bits <= 1022 && k >= -1072 && (both || (-k + bits <= 1022 && -k - bits >= -1060))) { continue; }
                let mut c = lu_case(rng, &a, &b, m1, m2, if cx { "cx" } else { "f64" }, "sweep"); c["xa"] = json!(k); c["xb"] = json!(if both { k } else { 0 }); c["aux"] = json!(false);
                // det = +-4^n prod(u) * 2^(n k)
                let kn = k * n as i64; if kn + 2 * n as i64 + 6 > 1022 || kn < -1070 || (cx && (kn < -530 || kn > 500)) { c["nodet"] = json!(true); }
                push(c); break; }
        }
        // (finer grid in the subnormal range and next to the overflow threshold)
        k += if k < -1016 || k >= 996 { (step as i64).min(2) } else { step as i64 };
    }
}

// ------------------------------------------------------------------ operands of different geometry; refused calls and what follows
/// Partners of (n, m1, m2) for a binary operation: first the ones with the same n and the same m1 + m2 but another split
/// (identical storage shape), then the same number of slots with another n, then one bandwidth / the size off by one.
fn partners(n: usize, m1: usize, m2: usize) -> (Vec<(usize, usize, usize)>, usize) {
    let mut v = vec![]; let s = m1 + m2;
    for p in 0..n { if p <= s && s - p < n && p != m1 { v.push((n, p, s - p)); } }
    let first = v.len();
    let slots = n * (s + 1);
    for n2 in 1..=12usize { if n2 != n && slots % n2 == 0 { let mm = slots / n2; for p in 0..n2 { if mm >= p + 1 && mm - 1 - p < n2 { v.push((n2, p, mm - 1 - p)); } } } }
    if m1 + 1 < n { v.push((n, m1 + 1, m2)); } if m1 > 0 { v.push((n, m1 - 1, m2)); }
    if m2 + 1 < n { v.push((n, m1, m2 + 1)); } if m2 > 0 { v.push((n, m1, m2 - 1)); }
    if m1 > 0 && m2 > 0 { v.push((n, m1 - 1, m2 - 1)); } if m1 + 1 < n && m2 + 1 < n { v.push((n, m1 + 1, m2 + 1)); }
    v.push((n + 1, m1, m2)); if n > 1 && m1 + 1 < n && m2 + 1 < n { v.push((n - 1, m1, m2)); }
    (v, first)
}
fn mismatch_cases(rng: &mut StdRng, quick: bool, push: &mut dyn FnMut(Value)) {
    let names = ["add", "sub", "add_assign", "sub_assign"]; let mut t = 0usize;
    for n in 1..=(if quick { 7usize } else { 8 }) { for m1 in 0..n { for m2 in 0..n {
        let (mut ps, first) = partners(n, m1, m2);
        if quick { let mut rest = ps.split_off(first.min(ps.len())); ps.truncate(4); for _ in 0..3 { if !rest.is_empty() { let k = rng.gen_range(0..rest.len()); ps.push(rest.swap_remove(k)); } } }
        let tys: Vec<&str> = if quick { vec![TYS[(t + n) % 3]] } else { TYS.to_vec() };
        for ty in tys { let cx = ty == "cx";
            let mut band = rand_band_int(rng, n, m1, m2, -9, 9); if cx { band = with_im(rng, band, -9, 9); }
            let mut ops = vec![];
            for (q, p) in ps.iter().enumerate() { t += 1;
                let nzb = |rng: &mut StdRng| { let mut b = rand_band_int(rng, p.0, p.1, p.2, 1, 9); if cx { b = with_im(rng, b, -9, 9); } b };
                // in quick, one operation per partner (all four on the partners of identical storage shape)
                let which: Vec<usize> = if !quick || q < first.min(2) { vec![0, 1, 2, 3] } else { vec![t % 4] };
                for w in which { ops.push(json!({"op": names[w], "form": if (t + w) % 2 == 0 { "own" } else { "ref" }, "b": nzb(rng)})); }
                if q % 3 == 0 { ops.push(json!({"op": "dense"})); }
            }
            let mut same = rand_band_int(rng, n, m1, m2, -9, 9); if cx { same = with_im(rng, same, -9, 9); }
            ops.push(json!({"op": "add_assign", "form": "ref", "b": same})); ops.push(json!({"op": "dense"}));
            push(json!({"kind": "hist", "fam": "mismatch", "ty": ty, "band": band, "ops": ops}));
        }
    } } }
}
/// zero the slots of column k (both parts)
fn zero_column(band: &mut Value, k: usize) {
    let (n, m1, mm) = (getu(band, "n"), getu(band, "m1"), getu(&band["c"], "c"));
    for part in ["c", "ci"] { if band.get(part).is_none() { continue; }
        for i in 0..n { for c in 0..mm { if i + c == k + m1 { band[part]["d"][i * mm + c] = json!(0); } } } }
}
fn dense_of(band: &Value) -> Vec<Vec<i128>> { Sim::from_band(band).dense() }
/// Sequences around refused calls.  The object starts SINGULAR (column k is zero: no pivot candidate at step k - the first,
/// a middle and the last step; n = 1: the zero entry); det / solve, a right-hand side of another size and out-of-range
/// accessors are followed at once by the same calls again, by the calls on a clone and on other objects, by mutators that
/// keep the matrix singular and by the assignment that repairs it (then solve and det must be right), and back.
fn poison_cases(rng: &mut StdRng, quick: bool, push: &mut dyn FnMut(Value)) {
    let mut t = 0usize;
    for n in 1..=(if quick { 6usize } else { 9 }) {
        let mut steps = vec![0usize, n / 2, n - 1]; steps.dedup();
        for &k in &steps { for rep in 0..(if quick { 1 } else { 3 }) { t += 1;
            let tys: Vec<&str> = if quick { let a = TYS[t % 3]; if a == "rat" { vec!["rat"] } else { vec![a, "rat"] } } else { TYS.to_vec() };
            for ty in tys { let cx = ty == "cx"; let exact = ty == "rat";
                let mut made = None;
                for _try in 0..60 {
                    let (m1, m2) = if n == 1 { (0, 0) } else { (rng.gen_range(0..n.min(4)), rng.gen_range(0..n.min(4))) };
                    let mut band = rand_band_int(rng, n, m1, m2, -3, 3); if cx { band = with_im(rng, band, -2, 2); }
                    zero_column(&mut band, k);
                    // the repairing assignment: an in-band entry (i, k) and values v, v2 that make the (real part of the) matrix regular
                    let rows: Vec<usize> = (0..n).filter(|i| in_band(n, m1, m2, *i, k)).collect();
                    let i = rows[rng.gen_range(0..rows.len())];
                    let mut a = dense_of(&band); let b: Vec<i64> = (0..n).map(|_| rng.gen_range(-5..=5)).collect();
                    let v = [1i64, -1, 2, 3][rng.gen_range(0..4)]; let v2 = [-2i64, 5, 1][rng.gen_range(0..3)];
                    a[i][k] = v as i128; let d1 = bareiss(&a).0; let a1 = a.clone();
                    let mut a2: Vec<Vec<i128>> = dense_of(&band).iter().map(|r| r.iter().map(|x| 2 * x).collect()).collect(); a2[i][k] = v2 as i128; let d2 = bareiss(&a2).0;
                    if d1 == 0 || d2 == 0 { continue; }
                    if exact && !(fits_tlc(&a1, &b) && fits_tlc(&a2, &b) && fits_tlc(&dense_of(&band).iter().map(|r| r.iter().map(|x| 2 * x).collect()).collect::<Vec<Vec<i128>>>(), &b)) { continue; }
                    made = Some((m1, m2, band, i, v, v2, b)); break;
                }
                let (m1, m2, band, i, v, v2, b) = match made { Some(x) => x, None => continue };
                let bi = rand_vec_json(rng, n, -5, 5);
                let solve = |name: &str, len: usize| -> Value { let mut bb = b.clone(); bb.resize(len, 1); let mut o = json!({"op": name, "b": bb}); if cx { let mut z: Vec<Value> = bi.as_array().unwrap().clone(); z.resize(len, json!(1)); o["bi"] = Value::from(z); } o };
                let set = |x: i64| -> Value { if cx { json!({"op": "set", "i": i, "j": k, "x": x, "xi": 0}) } else { json!({"op": "set", "i": i, "j": k, "x": x}) } };
                // other objects: a regular one (identity-like diagonal plus band noise is checked by the trace spec itself) and a singular one
                let other = |rng: &mut StdRng, singular: bool| -> Value {
                    let n2 = rng.gen_range(1..=4usize); let (p, q) = (rng.gen_range(0..n2), rng.gen_range(0..n2));
                    let mut o = rand_band_int(rng, n2, p, q, -2, 2); if cx { o = with_im(rng, o, -2, 2); }
                    if singular { zero_column(&mut o, n2 - 1); }
                    let b2: Vec<i64> = (0..n2).map(|_| rng.gen_range(-5..=5)).collect();
                    let mut sv = json!({"op": "solve", "b": b2}); if cx { sv["bi"] = rand_vec_json(rng, n2, -5, 5); }
                    let fit = !exact || fits_tlc(&dense_of(&o), &b2);
                    let ops = if fit { vec![sv.clone(), json!({"op": "det"}), sv, json!({"op": "dense"})] } else { vec![json!({"op": "dense"})] };
                    json!({"op": "other", "case": {"kind": "hist", "ty": ty, "band": o, "ops": ops}}) };
                let mut ops = vec![];
                // singular object: refused (or whatever) solve, then everything again
                ops.extend([solve("solve", n), solve("solve", n), json!({"op": "det"}), solve("clone_solve", n), json!({"op": "clone_det"}), json!({"op": "dense"}), json!({"op": "dims"})]);
                ops.extend([solve("solve", n + 1), solve("solve", n), json!({"op": "det"})]);
                if n > 1 { ops.extend([solve("solve", n - 1), json!({"op": "det"})]); }
                ops.extend([json!({"op": "get", "i": n, "j": n}), set(7).as_object().map(|m| { let mut m = m.clone(); m.insert("i".into(), json!(n)); m.insert("j".into(), json!(n)); Value::Object(m) }).unwrap(), json!({"op": "det"}), solve("solve", n)]);
                ops.push(other(rng, false)); ops.push(solve("solve", n)); ops.push(other(rng, true)); ops.push(json!({"op": "det"}));
                // mutators that keep it singular
                ops.extend([set(0), solve("solve", n), json!({"op": "det"})]);
                // repaired: now everything must be right - and stay right
                ops.extend([set(v), json!({"op": "det"}), solve("solve", n), solve("solve", n), solve("clone_solve", n), solve("solve", n + 1), solve("solve", n), json!({"op": "dense"})]);
                // broken again, scaled (still singular), repaired with another value
                ops.extend([set(0), solve("solve", n), json!({"op": "det"}), solve("solve", n), json!({"op": "mul_assign", "s": 2}), solve("solve", n), json!({"op": "det"})]);
                ops.push(other(rng, true));
                ops.extend([set(v2), solve("solve", n), json!({"op": "det"}), json!({"op": "clone_det"}), json!({"op": "dense"})]);
                let _ = (m1, m2, rep);
                push(json!({"kind": "seq", "fam": "poison", "step": k, "ty": ty, "band": band, "ops": ops}));
            }
        } }
    }
}

// ------------------------------------------------------------------ growth adversaries for banded partial pivoting
/// a float as {m, e} with a 24-bit significand
fn jfl(v: f64) -> Value { if v == 0.0 { return json!(0); } let e = v.abs().log2().floor() as i32 - 23; json!({"m": (v / (2.0f64).powi(e)).round() as i64, "e": e}) }
/// Banded analogue of the graded Wilkinson family: in every column the diagonal is the smallest candidate (zero or tiny), the
/// first sub-diagonal entry is about 1 and the k-th candidate is rho times the previous one (rho in 1.5 .. 16; signs mixed),
/// all with inexact noise; the upper band is wide (m2 = n - 1) and carries the last one or two columns of O(1) entries (or a
/// full band of small noise as well), so that multipliers larger than 1 compound along the elimination.  Pivoting on the
/// largest candidate keeps every multiplier below 1; keeping an earlier, smaller row costs a factor of up to rho^(m1-1) per step.
fn growth_cases(rng: &mut StdRng, quick: bool, push: &mut dyn FnMut(Value)) {
    let rhos = [1.5f64, 2.0, 4.0, 7.9, 8.1, 16.0]; let mut t = 0usize;
    for n in 8..=12usize { for m1 in 2..=4usize { for (q, rho) in rhos.iter().enumerate() { for variant in 0..4usize { t += 1;
        for rep in 0..(if quick { 1 } else { 2 }) {
        let cx = (t + rep) % 2 == 1; let m2 = n - 1; let mm = m1 + m2 + 1;
        let noise = |rng: &mut StdRng| 1.0 + 0.03 * (rng.gen_range(-1000..=1000) as f64 / 1000.0);
        let neg = t % 3 != 0;      // deeper candidates of the opposite sign: the eliminations add up in the last columns
        let mut a = vec![vec![0.0f64; n]; n];
        for j in 0..n { for i in j..n.min(j + m1 + 1) {
            a[i][j] = if i == j { if variant == 3 { 0.0 } else { [0.0, 0.05, -0.2][(t + j) % 3] * noise(rng) } } else { let g = (if variant == 3 { if i == j + 1 { 1.0 } else { *rho } } else { rho.powi((i - j - 1) as i32) }) * noise(rng);   // (variant 3: all deeper candidates about rho)
             if i > j + 1 && neg { -g } else { g } };
        } }
        let lastcols = if variant == 1 { 2 } else { 1 };
        for i in 0..n { for j in (n - lastcols)..n { if j > i || (j == n - 1 && i == n - 1) { a[i][j] = (1.0 / 3.0 + 0.01 * i as f64) * noise(rng); } } }
        if variant == 2 { for i in 0..n { for j in i + 1..n - 1 { a[i][j] = 0.02 * (noise(rng) - 1.0) * 30.0; } } }
        // complex: every entry turned by a phase of its own column and row (magnitudes unchanged)
        let ph = [(1.0f64, 0.0f64), (0.0, 1.0), (0.6, 0.8), (-0.8, 0.6), (0.0, -1.0)];
        let x0: Vec<(f64, f64)> = (0..n).map(|j| (1.0 + 0.1 * j as f64, if cx { 0.3 - 0.05 * j as f64 } else { 0.0 })).collect();
        let (mut d, mut di) = (vec![], vec![]); let mut ac = vec![vec![(0.0f64, 0.0f64); n]; n];
        for i in 0..n { for c in 0..mm { let j = i as isize + c as isize - m1 as isize;
            if j >= 0 && (j as usize) < n { let j = j as usize; let p = if cx { ph[(2 * i + 3 * j + q) % 5] } else { (1.0, 0.0) };
                let (re, im) = (jfl(a[i][j] * p.0), jfl(a[i][j] * p.1)); ac[i][j] = (fval(&re), fval(&im)); d.push(re); di.push(im); }
            else { d.push(json!(rand_pad(rng))); di.push(json!(0)); } } }
        let b: Vec<(f64, f64)> = (0..n).map(|i| { let mut s = (0.0, 0.0); for j in 0..n { s.0 += ac[i][j].0 * x0[j].0 - ac[i][j].1 * x0[j].1; s.1 += ac[i][j].0 * x0[j].1 + ac[i][j].1 * x0[j].0; } s }).collect();
        let mut band = json!({"n": n, "m1": m1, "m2": m2, "c": {"r": n, "c": mm, "d": d}});
        let mut case = json!({"kind": "lu", "ty": if cx { "cx" } else { "f64" }, "fam": "growth", "rho": rho, "variant": variant, "sharp": true, "regular": true, "graded": true, "aux": false,
            "b": b.iter().map(|p| jfl(p.0)).collect::<Vec<Value>>()});
        if cx { band["ci"] = json!({"r": n, "c": mm, "d": di}); case["bi"] = Value::from(b.iter().map(|p| jfl(p.1)).collect::<Vec<Value>>()); }
        case["band"] = band;
        push(case);
        }
    } } } }
}

// ------------------------------------------------------------------ Clone::clone_from, PartialEq, clone-and-drop
/// One object led through a chain of `clone_from` calls whose sources stand in every relation to its current geometry: the same
/// geometry, the same storage shape with another split, the same number of slots with another n, larger, smaller, n = 1 and
/// back; sources built plainly, grown by resize, or cloned from a dropped original; the target fresh, mutated or resized just
/// before.  After every call: the observers on the target and on the source, a write to one and a look at the other (both
/// ways), clone_from in the opposite direction, == / != against a clone, a clone with one entry changed and an object with the
/// same storage but another split.
fn clonefrom_cases(rng: &mut StdRng, quick: bool, push: &mut dyn FnMut(Value)) {
    let mut t = 0usize;
    for n in 1..=(if quick { 5usize } else { 7 }) { for m1 in 0..n { for m2 in 0..n { for rep in 0..(if quick { 1 } else { 3 }) { t += 1;
        let ty = TYS[(t + rep) % 3]; let cx = ty == "cx"; let exact = ty == "rat";
        let mk = |rng: &mut StdRng, g: (usize, usize, usize)| { let mut b = rand_band_int(rng, g.0, g.1, g.2, -3, 3); if cx { b = with_im(rng, b, -3, 3); } b };
        let band = mk(rng, (n, m1, m2));
        // the chain of source geometries
        let (ps, first) = partners(n, m1, m2);
        let mut chain: Vec<(usize, usize, usize)> = vec![(n, m1, m2)];
        if first > 0 { chain.push(ps[rng.gen_range(0..first)]); chain.push((n, m1, m2)); }
        let slots: Vec<&(usize, usize, usize)> = ps[first..].iter().filter(|p| p.0 != n && p.0 * (p.1 + p.2 + 1) == n * (m1 + m2 + 1)).collect();
        if !slots.is_empty() { chain.push(*slots[rng.gen_range(0..slots.len())]); }
        chain.push((n + 2, (m1 + 1).min(n + 1), m2)); chain.push((n, m2, m1)); chain.push((1, 0, 0)); chain.push((n, m1, m2));
        if quick && chain.len() > 6 { let k = rng.gen_range(1..chain.len() - 2); chain.remove(k); }
        let mut ops = vec![json!({"op": "dims"}), json!({"op": "dense"})];
        let mut cur = (n, m1, m2);
        for (q, g) in chain.iter().enumerate() {
            let src = mk(rng, *g);
            // the target: as it is, mutated, or resized (to the source's storage shape with another split where there is one)
            match (q + t) % 3 { 1 => ops.push(json!({"op": "mul_assign", "s": 2})),
                2 => { let (p2, f2) = partners(g.0, g.1, g.2); let to = if f2 > 0 { p2[0] } else { *g }; ops.push(json!({"op": "resize", "n": to.0, "m1": to.1, "m2": to.2})); cur = to; } _ => {} }
            let _ = cur;
            ops.push(json!({"op": "aux_new", "b": src, "how": (["plain", "resized", "clone"][(q + rep + t) % 3])}));
            ops.push(json!({"op": "clone_from"})); cur = *g;
            let (gn, g1, g2) = *g;
            let obs = |rng: &mut StdRng, full: bool| -> Vec<Value> { let mut v = vec![json!({"op": "dims"}), json!({"op": "dense"})];
                let mut mv = json!({"op": "matvec", "form": if rng.gen_bool(0.5) { "own" } else { "ref" }, "v": rand_vec_json(rng, gn, -3, 3)}); if cx { mv["vi"] = rand_vec_json(rng, gn, -3, 3); } v.push(mv);
                let b: Vec<i64> = (0..gn).map(|_| rng.gen_range(-5..=5)).collect();
                if full && (!exact || fits_tlc(&dense_of(&src), &b)) { v.push(json!({"op": "det"})); let mut o = json!({"op": "solve", "b": b}); if cx { o["bi"] = rand_vec_json(rng, gn, -5, 5); } v.push(o); }
                v };
            ops.extend(obs(rng, true));
            ops.push(json!({"op": "on_aux", "ops": obs(rng, true)}));
            // independence, both ways
            let (i, j) = loop { let i = rng.gen_range(0..gn); let j = rng.gen_range(0..gn); if in_band(gn, g1, g2, i, j) { break (i, j); } };
            let mut st = json!({"op": "set", "i": i, "j": j, "x": 7}); if cx { st["xi"] = json!(-7); }
            ops.push(st.clone()); ops.push(json!({"op": "aux_same"}));
            st["x"] = json!(-6); ops.push(json!({"op": "on_aux", "ops": [st, {"op": "dense"}]})); ops.push(json!({"op": "dense"}));
            // == / !=
            ops.push(json!({"op": "eq", "with": "clone"})); ops.push(json!({"op": "eq", "with": "entry", "i": i, "j": j}));
            let (p2, f2) = partners(gn, g1, g2);
            if f2 > 0 { let o = p2[rng.gen_range(0..f2)]; let mut b = mk(rng, o); if (q + t) % 2 == 0 { b = src.clone(); b["m1"] = json!(o.1); b["m2"] = json!(o.2); } ops.push(json!({"op": "eq", "with": "other", "b": b})); }
            // the opposite direction: a second object of the NEXT geometry of the chain takes a copy of this one
            let nx = chain[(q + 1) % chain.len()];
            ops.push(json!({"op": "aux_new", "b": mk(rng, nx), "how": (["clone", "plain", "resized"][(q + t) % 3])}));
            ops.push(json!({"op": "clone_into"})); ops.push(json!({"op": "on_aux", "ops": obs(rng, false)}));
            ops.push(json!({"op": "mul_assign", "s": -1})); ops.push(json!({"op": "aux_same"}));
            ops.push(json!({"op": "reclone"})); ops.push(json!({"op": "dense"}));
        }
        if !cx { for o in ops.iter_mut() { if let Some(m) = o.as_object_mut() { m.remove("xi"); } } }
        push(json!({"kind": "seq", "fam": "clone-from", "ty": ty, "band": band, "ops": ops}));
    } } } }
}
