//! Suite "roots": Polynomial<f64>::roots / Polynomial<Cmplx>::roots (C10).
//! A case gives the coefficients (integers "re"/"im" for TLC-generated cases, f64 bit patterns "a"/"ai" otherwise),
//! the refinement flag and - when known - the true roots.  One event per call with integer measurements:
//! count, finiteness, normwise backward error (Horner in double-double) in units of 1e-6, matching distance to the
//! true roots in units of 1e-6*scale, the returned values rounded to Gaussian integers.
use crate::dd::{CDD, DD};
use crate::util::*;
use ohsl::{Cmplx, Polynomial, Vector};
use rand::rngs::StdRng;
use rand::Rng;
use serde_json::{json, Value};

fn hexf(s: &Value) -> f64 { f64::from_bits(u64::from_str_radix(s.as_str().unwrap_or("0"), 16).unwrap_or_else(|_| { eprintln!("TOOL-ERROR bad f64 bits {}", s); std::process::exit(2) })) }
fn hexvec(v: &[f64]) -> Value { Value::from(v.iter().map(|x| json!(bits(*x))).collect::<Vec<Value>>()) }
fn fvec(v: Option<&Value>) -> Vec<f64> {
    match v.and_then(|x| x.as_array()) { None => vec![], Some(a) => a.iter().map(|x| if let Some(i) = x.as_i64() { i as f64 } else { hexf(x) }).collect() }
}
fn lead_nz3(a: &[(f64, f64)]) -> bool { a.len() == 4 && (a[3].0 != 0.0 || a[3].1 != 0.0) }
fn round_i(x: f64) -> i64 { if x.is_finite() && x.abs() < 1e9 { x.round() as i64 } else { BAD } }

/// |p(z)| by Horner in complex double-double
fn horner_abs(a: &[(f64, f64)], z: (f64, f64)) -> f64 {
    let zz = CDD::from(z.0, z.1);
    let mut s = CDD::ZERO;
    for c in a.iter().rev() { s = s.mul(zz).add(CDD::from(c.0, c.1)); }
    s.abs()
}

/// Calls that the crate refuses (panic or Err), each under guarded(), in every element type: whatever they leave behind on this thread
/// must not influence the calls that follow.
pub fn refuse(kind: &str) {
    let _ = guarded(|| match kind {
        "deg0" => { let _ = Polynomial::<f64>::new(vec![7.0]).roots(false); }
        "deg0cx" => { let _ = Polynomial::<Cmplx>::new(vec![Cmplx::new(0.0, 2.0)]).roots(true); }
        "empty" => { let _ = Polynomial::<f64>::new(vec![]).roots(false); }
        "zero" => { let _ = Polynomial::<Cmplx>::new(vec![Cmplx::new(0.0, 0.0)]).roots(false); }
        "index" => { let p = Polynomial::<f64>::new(vec![1.0, 2.0]); let _ = p[5]; }
        "evalempty" => { let _ = Polynomial::<f64>::new(vec![]).eval(1.0); let _ = 0; }
        _ => { let _ = Polynomial::<f64>::new(vec![3.0, 1.0]).polydiv(&Polynomial::<f64>::new(vec![])); }
    });
    if kind == "deg0" { let _ = guarded(|| Polynomial::<Cmplx>::new(vec![Cmplx::new(1.0, 1.0)]).roots(false)); }
}

pub fn exec(case: &Value, out: &mut Out) {
    if case.get("steps").is_some() { return exec_seq(case, out); }
    if let Some(k) = case.get("poison").and_then(|v| v.as_str()) {
        // a refused call, IMMEDIATELY followed on this thread by an ordinary one - and once more
        refuse(k);
        let mut c = case.clone(); c.as_object_mut().unwrap().remove("poison");
        c["rep"] = json!(1); exec(&c, out); c["rep"] = json!(2); exec(&c, out);
        return;
    }
    let ty = gets(case, "ty"); let refine = case["refine"].as_bool().unwrap_or(false);
    let (re, im) = if case.get("re").is_some() { (fvec(case.get("re")), fvec(case.get("im"))) } else { (fvec(case.get("a")), fvec(case.get("ai"))) };
    let a: Vec<(f64, f64)> = re.iter().enumerate().map(|(k, x)| (*x, if ty == "cx" { im.get(k).cloned().unwrap_or(0.0) } else { 0.0 })).collect();
    let res: Result<Vector<Cmplx>, String> = if ty == "cx" {
        let p = Polynomial::<Cmplx>::new(a.iter().map(|x| Cmplx::new(x.0, x.1)).collect()); guarded(|| p.roots(refine))
    } else {
        let p = Polynomial::<f64>::new(a.iter().map(|x| x.0).collect()); guarded(|| p.roots(refine))
    };
    log_roots(case, out, ty, refine, &a, res, &|_| {});
}

/// measure one call against the coefficients `a` and write the event(s)
fn log_roots(case: &Value, out: &mut Out, ty: &str, refine: bool, a: &[(f64, f64)], res: Result<Vector<Cmplx>, String>, extra: &dyn Fn(&mut Value)) {
    let deg = a.len() as i64 - 1;
    // true roots (optional)
    let (tr, ti) = if case.get("rre").is_some() { (fvec(case.get("rre")), fvec(case.get("rim"))) } else { (fvec(case.get("tr")), fvec(case.get("tri"))) };
    let exact = case.get("rre").is_some();
    let sep = case["sep"].as_bool().unwrap_or(false) && tr.len() == a.len().saturating_sub(1) && !tr.is_empty();
    let mut e = json!({"op": "roots", "ty": ty, "cid": geti(case, "cid"), "refine": refine, "deg": deg, "lead_nz": a.last().map(|x| x.0 != 0.0 || x.1 != 0.0).unwrap_or(false),
                       "panic": false, "count": 0, "finite": false, "be_units": SAT, "be_e15": SAT, "sep": sep, "match_units": SAT, "match_e12": SAT, "exact": exact,
                       "zr": [], "zi": [], "rre": if exact { case["rre"].clone() } else { json!([]) }, "rim": if exact { case["rim"].clone() } else { json!([]) },
                       "cls": case.get("cls").cloned().unwrap_or(json!("tlc")), "chk": "all"});
    match res {
        Err(_) => { e["panic"] = json!(true); }
        Ok(z) => {
            let zs: Vec<(f64, f64)> = z.vec.iter().map(|c| (c.real, c.imag)).collect();
            e["count"] = json!(zs.len());
            e["finite"] = json!(zs.iter().all(|c| c.0.is_finite() && c.1.is_finite()));
            e["zr"] = json!(zs.iter().map(|c| round_i(c.0)).collect::<Vec<i64>>()); e["zi"] = json!(zs.iter().map(|c| round_i(c.1)).collect::<Vec<i64>>());
            // normwise backward error
            let amax = a.iter().map(|c| c.0.hypot(c.1)).fold(0.0, f64::max);
            let mut be = 0.0f64;
            for c in &zs {
                let m = c.0.hypot(c.1).max(1.0).powi(deg.max(0) as i32);
                let v = horner_abs(&a, *c) / (amax * m);
                if !v.is_finite() { be = f64::INFINITY; } else if v > be { be = v; }
            }
            if zs.is_empty() { be = 0.0; }
            e["be_units"] = json!(units(be, 1e-6)); e["be_e15"] = json!(units(be, 1e-15));
            // one-to-one correspondence with the true roots: nearest returned value of each true root, must be a bijection
            if sep && zs.len() == tr.len() {
                let scale = tr.iter().zip(ti.iter()).map(|(x, y)| x.hypot(*y)).fold(1.0, f64::max);
                let mut used = vec![false; zs.len()]; let mut worst = 0.0f64; let mut ok = true;
                for k in 0..tr.len() {
                    let mut best = f64::INFINITY; let mut bi = usize::MAX;
                    for (i, c) in zs.iter().enumerate() { let d = (c.0 - tr[k]).hypot(c.1 - ti[k]); if d < best { best = d; bi = i; } }
                    if bi == usize::MAX || used[bi] { ok = false; break; }
                    used[bi] = true; if best > worst { worst = best; }
                }
                if ok { e["match_units"] = json!(units(worst / scale, 1e-6)); e["match_e12"] = json!(units(worst / scale, 1e-12)); }
            }
        }
    }
    // the input classes of the known finding (Laguerre cycling on (near-)symmetric root configurations: binomials a*x^n + c, shifted
    // binomials a*((x-c)^n - rho^n), polynomials dominated by a few coefficients; degree >= 4) are reported as two events, so that the
    // finding is keyed to the accuracy clauses alone: chk = "shape" (panic/count/finite), "be" (backward error), "match" (one-to-one)
    // A second class: a cubic with a root exactly at zero, polished (deg = 3, a0 = 0, refine): only the matching clause is affected.
    let lag = deg >= 4 && matches!(gets(case, "cls"), "binomial" | "ring" | "sparse" | "coeffs");
    let zp = deg == 3 && refine && a[0].0 == 0.0 && a[0].1 == 0.0;
    // Cubics: discriminating quantities of Cardano's formula, computed from the INPUT with the formulae of the specification
    //   d0 = b^2 - 3ac, d1 = 2b^3 - 9abc + 27a^2 d, R = -27 a^2 dis (= d1^2 - 4 d0^3), s = principal sqrt(R), base = (d1 +- s)/2.
    // `cancel`: the documented sign rule (minus iff d1 < 0 in the lexicographic order) selects the branch in which d1 and s cancel
    //   (|chosen| < 1e-6 |other|) - the class of the recorded finding D13; everything else on the cubic path is strict.
    // `amp_e`: decimal exponent of the amplification sum|terms of dis| / |dis| (cancellation of the discriminant for near-multiple roots),
    //   which selects the backward-error guard of the unrefined cubic path in Roots.tla.
    let mut cancel = false;
    if deg == 3 && lead_nz3(a) {
        let c = |k: usize| Cmplx::new(a[k].0, a[k].1);
        let (ca_, cb, cc, cd) = (c(3), c(2), c(1), c(0));
        let (a2, b2, c2, d2) = (ca_ * ca_, cb * cb, cc * cc, cd * cd);
        let terms = [18. * ca_ * cb * cc * cd, -4. * cb * b2 * cd, b2 * c2, -4. * ca_ * c2 * cc, -27. * a2 * d2];
        let dis = 18. * ca_ * cb * cc * cd - 4. * cb * b2 * cd + b2 * c2 - 4. * ca_ * c2 * cc - 27. * a2 * d2;
        let d0 = b2 - 3. * ca_ * cc;
        let d1 = 2. * b2 * cb - 9. * ca_ * cb * cc + 27. * a2 * cd;
        let sq = (-27. * ca_ * ca_ * dis).sqrt();
        let minus = d1 < Cmplx::new(0.0, 0.0);
        let (chosen, other) = if minus { (d1 - sq, d1 + sq) } else { (d1 + sq, d1 - sq) };
        cancel = chosen.abs() < 1e-6 * other.abs() && !(d0 == Cmplx::new(0.0, 0.0) && d1 == Cmplx::new(0.0, 0.0));
        let tsum: f64 = terms.iter().map(|t| t.abs()).sum();
        let amp = if dis.abs() > 0.0 { tsum / dis.abs() } else { f64::INFINITY };
        e["amp_e"] = json!(if amp.is_finite() { (amp.log10().floor() as i64).clamp(0, 30) } else { 99 });
        e["cancel"] = json!(cancel);
        e["d1re_s"] = json!(if d1.real > 0.0 { 1 } else if d1.real < 0.0 { -1 } else { 0 });
        e["d1im_s"] = json!(if d1.imag > 0.0 { 1 } else if d1.imag < 0.0 { -1 } else { 0 });
        // which square root came out: +1 if s is on the side of d1 (Re(conj(d1) s) > 0), -1 opposite, 0 undecided
        let side = (Cmplx::new(d1.real, -d1.imag) * sq).real;
        e["s_side"] = json!(if side > 0.0 { 1 } else if side < 0.0 { -1 } else { 0 });
        let (m0, m1) = (d0.abs().powi(3), d1.abs().powi(2));
        e["d0d1_e"] = json!(if m0 > 0.0 && m1 > 0.0 { ((m0 / m1).log10().floor() as i64).clamp(-40, 40) } else if m0 == 0.0 { -99 } else { 99 });
    }
    let ca = deg == 3 && !refine && cancel;
    let fam = if lag { "lagcycle" } else if zp { "zeropolish" } else if ca { "cardanoaxis" } else { "" };
    e["fam"] = json!(fam);
    extra(&mut e);
    // the recorded D16 instances (explicit degree-8 polynomials, field pid8 = coefficient list) are also reported clause by clause
    if let Some(pid) = case.get("pid8") { e["pid8"] = pid.clone(); }
    if !fam.is_empty() || case.get("pid8").is_some() { for chk in ["shape", "be"] { let mut s = e.clone(); s["chk"] = json!(chk); out.ev(s); } e["chk"] = json!("match"); }
    out.ev(e);
}

// ------------------------------------------------------------------ case generation
type C = (f64, f64);
/// coefficients of lead * prod (x - r_i), expanded in complex double-double and rounded once
fn expand(lead: C, roots: &[C]) -> Vec<C> {
    let mut p: Vec<CDD> = vec![CDD::from(lead.0, lead.1)];
    for r in roots {
        let rr = CDD::from(r.0, r.1);
        let mut np = vec![CDD::ZERO; p.len() + 1];
        for k in 0..p.len() { np[k + 1] = np[k + 1].add(p[k]); np[k] = np[k].sub(rr.mul(p[k])); }
        p = np;
    }
    p.iter().map(|c| (c.re.to_f64(), c.im.to_f64())).collect()
}
/// absolute condition of the roots relative to the scale: max_i sum_k |a_k||r_i|^k / (|a_n| prod_{j != i} |r_i - r_j|) / scale
fn condition(a: &[C], roots: &[C]) -> f64 {
    let scale = roots.iter().map(|r| r.0.hypot(r.1)).fold(1.0, f64::max);
    let an = a[a.len() - 1].0.hypot(a[a.len() - 1].1);
    let mut worst = 0.0f64;
    for (i, r) in roots.iter().enumerate() {
        let ar = r.0.hypot(r.1);
        let mut s = 0.0; let mut pw = 1.0; for c in a { s += c.0.hypot(c.1) * pw; pw *= ar; }
        let mut d = an; for (j, q) in roots.iter().enumerate() { if i != j { d *= (r.0 - q.0).hypot(r.1 - q.1); } }
        let k = if d > 0.0 { s / d / scale } else { f64::INFINITY };
        if k > worst { worst = k; }
    }
    worst
}
fn unif(rng: &mut StdRng, lo: f64, hi: f64) -> f64 { lo + (hi - lo) * rng.gen::<f64>() }
fn in_disc(rng: &mut StdRng, rad: f64) -> C { loop { let x = unif(rng, -rad, rad); let y = unif(rng, -rad, rad); if x * x + y * y <= rad * rad { return (x, y); } } }
/// close a root list under conjugation (real-coefficient polynomials): take roots until n are there
fn real_closed(rng: &mut StdRng, n: usize, mut pick: impl FnMut(&mut StdRng) -> C) -> Vec<C> {
    let mut v = vec![];
    while v.len() < n {
        if n - v.len() >= 2 && rng.gen_bool(0.6) { let r = pick(rng); v.push(r); v.push((r.0, -r.1)); }
        else { let r = pick(rng); v.push((if rng.gen_bool(0.5) { r.0 } else { r.0.hypot(r.1) * if r.0 < 0.0 { -1.0 } else { 1.0 } }, 0.0)); }
    }
    v
}

pub fn gen(tier: &str, seed: u64, out: &mut Out) {
    let quick = tier == "quick";
    let mut rng = rng(seed, 10);
    let mut cid = 0i64;
    let mut push = |out: &mut Out, mut c: Value| { cid += 1; c["cid"] = json!(cid); c["suite"] = json!("roots"); out.raw(&c); };
    // emit one polynomial (given by roots) for both refinement settings
    let emit = |out: &mut Out, push: &mut dyn FnMut(&mut Out, Value), rng: &mut StdRng, cls: &str, cx: bool, lead: C, roots: &[C], allow_sep: bool| {
        let mut a = expand(lead, roots);
        // coefficients that vanish mathematically come out as rounding noise of the expansion: make them exact zeros
        let top = a.iter().map(|c| c.0.hypot(c.1)).fold(0.0, f64::max);
        for c in a.iter_mut() { if c.0.hypot(c.1) < 1e-13 * top { *c = (0.0, 0.0); } }
        if a.iter().any(|c| !c.0.is_finite() || !c.1.is_finite()) { return; }
        // the property's domain: coefficient magnitudes within a ratio of 1e6 (exact zeros allowed)
        let mx = a.iter().map(|c| c.0.hypot(c.1)).fold(0.0, f64::max); let mn = a.iter().map(|c| c.0.hypot(c.1)).filter(|x| *x > 0.0).fold(f64::INFINITY, f64::min);
        if !(mx / mn <= 1e6) { return; }
        let distinct = (0..roots.len()).all(|i| (0..i).all(|j| roots[i] != roots[j]));
        let sep = allow_sep && distinct && condition(&a, roots) <= 1e3;
        let _ = rng;
        for refine in [false, true] {
            let mut c = json!({"ty": if cx { "cx" } else { "f64" }, "refine": refine, "cls": cls, "sep": sep,
                               "a": hexvec(&a.iter().map(|c| c.0).collect::<Vec<f64>>()),
                               "tr": hexvec(&roots.iter().map(|c| c.0).collect::<Vec<f64>>()), "tri": hexvec(&roots.iter().map(|c| c.1).collect::<Vec<f64>>())});
            if cx { c["ai"] = hexvec(&a.iter().map(|c| c.1).collect::<Vec<f64>>()); }
            push(out, c);
        }
    };
    // ---- fixed regression inputs
    push(out, json!({"ty": "f64", "refine": false, "cls": "d4", "sep": false, "a": hexvec(&[0.0, 0.0, 1.0]), "tr": hexvec(&[0.0, 0.0]), "tri": hexvec(&[0.0, 0.0])}));
    push(out, json!({"ty": "f64", "refine": true, "cls": "d4", "sep": false, "a": hexvec(&[0.0, 0.0, -3.5]), "tr": hexvec(&[0.0, 0.0]), "tri": hexvec(&[0.0, 0.0])}));
    let c8 = -1.5549740084041903f64;
    push(out, json!({"ty": "f64", "refine": true, "cls": "d8", "sep": false, "a": hexvec(&[0.0, c8, -2.0 * c8, c8])}));
    // D16 (recorded by input, not by family): degree-8 (anti-)palindromic polynomials (x^n +- 1)(x +- 1)^2(x -+ 1) on which roots(false)
    // returns a value near 0; both settings, both element types; the refined runs stay strict
    for a in [[-1i64, -2, -1, 0, 0, 0, 1, 2, 1], [1, 2, 1, 0, 0, 0, -1, -2, -1], [-3, 3, 3, -3, 0, -3, 3, 3, -3], [3, -3, -3, 3, 0, -3, 3, 3, -3], [2, 2, -2, -2, 0, 2, 2, -2, -2]] {
        let pid = a.iter().map(|x| x.to_string()).collect::<Vec<String>>().join(",");
        let af: Vec<f64> = a.iter().map(|x| *x as f64).collect();
        for ty in ["f64", "cx"] { for refine in [false, true] {
            push(out, json!({"ty": ty, "refine": refine, "cls": "d16", "sep": false, "pid8": pid, "a": hexvec(&af), "ai": hexvec(&[0.0; 9])})); } }
    }
    // the documented representative of the known finding: (x - 1)^6 - 1e-6 (roots 1 + 0.1*exp(2 pi i k/6)), with polishing
    for refine in [false, true] { push(out, json!({"ty": "f64", "refine": refine, "cls": "ring", "sep": false, "a": hexvec(&[0.999999, -6.0, 15.0, -20.0, 15.0, -6.0, 1.0])})); }
    // degree 0 and the empty polynomial: rejected
    for ty in ["f64", "cx"] { for refine in [false, true] {
        push(out, json!({"ty": ty, "refine": refine, "cls": "deg0", "sep": false, "a": hexvec(&[unif(&mut rng, -3.0, 3.0)]), "ai": hexvec(&[1.0])}));
        push(out, json!({"ty": ty, "refine": refine, "cls": "deg0", "sep": false, "a": hexvec(&[0.0]), "ai": hexvec(&[0.0])}));
        push(out, json!({"ty": ty, "refine": refine, "cls": "empty", "sep": false, "a": [], "ai": []}));
    } }
    // vanishing leading coefficient: outside the property (anything accepted), exercised for the record
    for ty in ["f64", "cx"] { push(out, json!({"ty": ty, "refine": false, "cls": "leadzero", "sep": false, "a": hexvec(&[1.0, 2.0, 0.0]), "ai": hexvec(&[0.0, 0.0, 0.0])})); }
    let reps = if quick { 3 } else { 60 };
    for n in 1..=12usize { for rep in 0..reps { for cx in [false, true] {
        let lead_mag = 10f64.powf(unif(&mut rng, -2.0, 2.0)) * if rng.gen_bool(0.5) { 1.0 } else { -1.0 };
        let lead: C = if cx { let t = unif(&mut rng, 0.0, 6.28); (lead_mag * t.cos(), lead_mag * t.sin()) } else { (lead_mag, 0.0) };
        let mk = |rng: &mut StdRng, pick: &mut dyn FnMut(&mut StdRng) -> C| -> Vec<C> { if cx { (0..n).map(|_| pick(rng)).collect() } else { real_closed(rng, n, |r| pick(r)) } };
        // 1 random roots in a disc of radius 2
        let r = mk(&mut rng, &mut |r| in_disc(r, 2.0)); emit(out, &mut push, &mut rng, "disc", cx, lead, &r, true);
        // 2 roots equally spaced on a circle (perfectly conditioned): centred at the origin ("circle"), or with a shifted centre ("ring")
        for shifted in [false, true] {
          let rho = 10f64.powf(unif(&mut rng, -0.4, 0.4)); let th = if cx { unif(&mut rng, 0.0, 1.0) } else { [0.0, 0.5][rng.gen_range(0..2)] };
          let cen: C = if !shifted { (0.0, 0.0) } else if cx { let c = in_disc(&mut rng, 2.0); (c.0 * rho, c.1 * rho) } else { (unif(&mut rng, -2.0, 2.0) * rho, 0.0) };
          let r: Vec<C> = (0..n).map(|k| { let t = 2.0 * std::f64::consts::PI * (k as f64 + th) / n as f64; (cen.0 + rho * t.cos(), cen.1 + rho * t.sin()) }).collect();
          // conjugate symmetry must be exact for the real case: mirror explicitly
          let r: Vec<C> = if cx { r } else { let mut v: Vec<C> = vec![]; for c in &r { if c.1.abs() < 1e-9 * rho { v.push((c.0, 0.0)); } else if c.1 > 0.0 { v.push(*c); v.push((c.0, -c.1)); } } v };
          if r.len() == n { emit(out, &mut push, &mut rng, if n < 4 { "circle" } else if shifted { "ring" } else { "binomial" }, cx, lead, &r, true); } }
        // 3 clusters: a centre plus multiples of delta
        { let delta = [1e-3, 1e-2, 1e-1][rng.gen_range(0..3)]; let cen = in_disc(&mut rng, 1.5); let mut k = 0.0;
          let r = mk(&mut rng, &mut |r| { k += 1.0; if r.gen_bool(0.7) { (cen.0 + k * delta, cen.1) } else { in_disc(r, 2.0) } }); emit(out, &mut push, &mut rng, "cluster", cx, lead, &r, false); }
        // 4 multiplicities: few distinct values
        { let m = rng.gen_range(1..=3usize); let vals: Vec<C> = (0..m).map(|_| { let c = in_disc(&mut rng, 2.0); if rng.gen_bool(0.3) { (c.0.round(), c.1.round()) } else { c } }).collect();
          let r = mk(&mut rng, &mut |r| vals[r.gen_range(0..m)]); emit(out, &mut push, &mut rng, "multiple", cx, lead, &r, false); }
        // 5 roots at zero (vanishing constant / low coefficients)
        { let z = rng.gen_range(1..=n.min(3)); let mut r = mk(&mut rng, &mut |r| in_disc(r, 2.0)); for k in 0..z { r[k] = (0.0, 0.0); }
          if !cx { // keep conjugate closure: rebuild the tail
              let tail = real_closed(&mut rng, n - z, |r| in_disc(r, 2.0)); r = vec![(0.0, 0.0); z]; r.extend(tail); }
          let double = rng.gen_bool(0.4) && n >= 3 && (cx || r[n - 1].1 == 0.0 && r[n - 2].1 == 0.0);
          if double { r[n - 1] = (r[n - 2].0.round().max(1.0), 0.0); r[n - 2] = r[n - 1]; }
          emit(out, &mut push, &mut rng, "zero", cx, lead, &r, z == 1 && !double); }
        // 6 purely imaginary roots / vanishing inner coefficients: x^n - c and even polynomials
        { let c = 10f64.powf(unif(&mut rng, -2.0, 2.0)); let rho = c.powf(1.0 / n as f64);
          let th = [0.0, 0.5][rng.gen_range(0..2)];
          let r: Vec<C> = (0..n).map(|k| { let t = 2.0 * std::f64::consts::PI * (k as f64 + th) / n as f64; (rho * t.cos(), rho * t.sin()) }).collect();
          // x^n -/+ c given directly by its coefficients (inner coefficients exactly zero); true roots only approximately known -> not `sep`
          let mut a = vec![0.0f64; n + 1]; a[n] = lead.0; a[0] = if th == 0.0 { -c * lead.0 } else { c * lead.0 }; let _ = r;
          for refine in [false, true] { let mut cs = json!({"ty": if cx { "cx" } else { "f64" }, "refine": refine, "cls": if n < 4 { "circle" } else { "binomial" }, "sep": false, "a": hexvec(&a)});
              if cx { let mut ai = vec![0.0f64; n + 1]; ai[n] = lead.1; ai[0] = unif(&mut rng, -1.0, 1.0) * c; cs["ai"] = hexvec(&ai); } push(out, cs); }
          let im: Vec<C> = if cx { (0..n).map(|_| (0.0, unif(&mut rng, -2.0, 2.0))).collect() } else { let mut v = vec![]; while v.len() + 2 <= n { let y = unif(&mut rng, 0.1, 2.0); v.push((0.0, y)); v.push((0.0, -y)); } if v.len() < n { v.push((0.0, 0.0)); } v };
          emit(out, &mut push, &mut rng, "imaginary", cx, lead, &im, true); }
        // 7 root magnitudes spread over decades, coefficient ratio capped at 1e6
        { for _ in 0..20 { let r = mk(&mut rng, &mut |r| { let m = 10f64.powf(unif(r, -1.0, 1.0)); let t = unif(r, 0.0, 6.28); (m * t.cos(), m * t.sin()) });
              let a = expand(lead, &r); let mx = a.iter().map(|c| c.0.hypot(c.1)).fold(0.0, f64::max); let mn = a.iter().map(|c| c.0.hypot(c.1)).filter(|x| *x > 0.0).fold(f64::INFINITY, f64::min);
              if mx / mn <= 1e6 { emit(out, &mut push, &mut rng, "scaled", cx, lead, &r, true); break; } } }
        // 8 random coefficients of mixed sign and scale (ratio up to 1e6); roots unknown.  "coeffs": all coefficients nonzero; "sparse": some inner ones vanish
        for sparse in [false, true] {
          let a: Vec<f64> = (0..=n).map(|k| if sparse && k < n && rng.gen_bool(0.2) { 0.0 } else { (1.0 + rng.gen::<f64>()) * 10f64.powf(unif(&mut rng, -2.8, 2.8)) * if rng.gen_bool(0.5) { 1.0 } else { -1.0 } }).collect();
          let ai: Vec<f64> = (0..=n).map(|k| if a[k] == 0.0 { 0.0 } else { unif(&mut rng, -1.0, 1.0) * a[k].abs() }).collect();
          let cls = if sparse && n >= 4 { "sparse" } else { "coeffs" };
          for refine in [false, true] { let mut cs = json!({"ty": if cx { "cx" } else { "f64" }, "refine": refine, "cls": cls, "sep": false, "a": hexvec(&a)}); if cx { cs["ai"] = hexvec(&ai); } push(out, cs); } }
        // 9 small integer coefficients
        { let a: Vec<f64> = (0..=n).map(|k| if k == n { [1.0, -1.0, 2.0, -3.0][rng.gen_range(0..4)] } else { rng.gen_range(-5..=5i64) as f64 }).collect();
          let ai: Vec<f64> = (0..=n).map(|_| rng.gen_range(-3..=3i64) as f64).collect();
          for refine in [false, true] { let mut cs = json!({"ty": if cx { "cx" } else { "f64" }, "refine": refine, "cls": "intcoef", "sep": false, "a": hexvec(&a)}); if cx { cs["ai"] = hexvec(&ai); } push(out, cs); } }
        let _ = rep;
    } } }
    // 10 the class of D8: c * x * (x - r)^2 and c * x^k * (x - r)^m with refinement
    for _ in 0..(if quick { 30 } else { 400 }) {
        let c = unif(&mut rng, -3.0, 3.0); let r = [1.0, -1.0, 2.0, 0.5, unif(&mut rng, -2.0, 2.0)][rng.gen_range(0..5)];
        let k = rng.gen_range(1..=2usize); let m = rng.gen_range(1..=3usize);
        let mut roots: Vec<C> = vec![(0.0, 0.0); k]; roots.extend(vec![(r, 0.0); m]);
        if c != 0.0 { emit(out, &mut push, &mut rng, "zero_multiple", false, (c, 0.0), &roots, false); }
    }
    gen_special_low(quick, &mut rng, out, &mut push);
    gen_small_integer(quick, seed, out, &mut push);
    gen_cardano_axes(quick, out, &mut push);
    gen_poison(quick, seed, out, &mut push);
    gen_compositions(quick, seed, out, &mut push);
    gen_sequences(quick, &mut rng, out, &mut push);
    let _ = DD::ZERO;
}

// ------------------------------------------------------------------ special values in the closed-form paths (degree 1..3)
/// one coefficient of a given kind (0 zero, 1 purely real, 2 purely imaginary, 3 general complex) and decimal exponent
fn coef_kind(rng: &mut StdRng, kind: usize, ex: f64) -> C {
    let m = |rng: &mut StdRng| (1.0 + 0.4 * rng.gen::<f64>()) * 10f64.powf(ex) * if rng.gen_bool(0.5) { 1.0 } else { -1.0 };
    match kind { 0 => (0.0, 0.0), 1 => (m(rng), 0.0), 2 => (0.0, m(rng)), _ => { let t = unif(rng, 0.2, 1.37); let r = m(rng); (r * t.cos(), r * t.sin() * if rng.gen_bool(0.5) { 1.0 } else { -1.0 }) } }
}
/// Every combination of {zero, real, imaginary, general} coefficients in every position of a linear, quadratic and cubic polynomial,
/// magnitudes spread by up to 1e6 in both directions, both refinement settings, real and complex element type.  Roots unknown: count,
/// finiteness and the (per-path) backward-error guard are checked.
fn gen_special_low(quick: bool, rng: &mut StdRng, out: &mut Out, push: &mut dyn FnMut(&mut Out, Value)) {
    let exps = [-2.9f64, 0.0, 2.9];
    let mut emit = |out: &mut Out, cx: bool, cls: &str, a: &[C]| {
        for refine in [false, true] {
            let mut c = json!({"ty": if cx { "cx" } else { "f64" }, "refine": refine, "cls": cls, "sep": false, "a": hexvec(&a.iter().map(|c| c.0).collect::<Vec<f64>>())});
            if cx { c["ai"] = hexvec(&a.iter().map(|c| c.1).collect::<Vec<f64>>()); }
            push(out, c);
        }
    };
    let reps = if quick { 1 } else { 5 };
    for rep in 0..reps {
        for cx in [false, true] {
            let lead_kinds: Vec<usize> = if cx { vec![1, 2, 3] } else { vec![1] };
            let kinds: Vec<usize> = if cx { vec![0, 1, 2, 3] } else { vec![0, 1] };
            // degree 1 and 2: every kind combination x every exponent combination
            for &ka in &lead_kinds { for &kb in &kinds { for &eb in &exps {
                let a1 = [coef_kind(rng, kb, eb), coef_kind(rng, ka, 0.0)]; emit(out, cx, "special1", &a1);
                for &kc in &kinds { for &ec in &exps {
                    // exponents are relative to the leading coefficient: the overall ratio stays below 1.4 * 10^5.8 < 1e6
                    let (eb2, ec2) = (eb, ec);
                    let a2 = [coef_kind(rng, kc, ec2), coef_kind(rng, kb, eb2), coef_kind(rng, ka, 0.0)]; emit(out, cx, "special2", &a2);
                } }
            } } }
            // dominant middle coefficient (|b|^2 >> |4ac|: the branch of the stable formula matters), b real or imaginary, several sign patterns
            for &ka in &lead_kinds { for &kb in &kinds { if kb == 0 || kb == 3 { continue; } for &kc in &kinds { if kc == 0 { continue; } for &ec in &[-2.9f64, -1.0, 0.0] { for _ in 0..3 {
                let a2 = [coef_kind(rng, kc, ec), coef_kind(rng, kb, 2.9), coef_kind(rng, ka, 0.0)]; emit(out, cx, "special2", &a2);
            } } } } }
            // degree 3: every kind combination, a few exponent triples each
            let ntrip = if quick { if cx { 2 } else { 6 } } else { 6 };
            for &ka in &lead_kinds { for &kb in &kinds { for &kc in &kinds { for &kd in &kinds { for t in 0..ntrip {
                let mut e = [exps[rng.gen_range(0..3)], exps[rng.gen_range(0..3)], exps[rng.gen_range(0..3)]];
                if t == 0 { e = [0.0, 0.0, 0.0]; }
                let lo = e.iter().cloned().fold(0.0, f64::min); let hi = e.iter().cloned().fold(0.0, f64::max);
                let _ = (lo, hi);
                let a3 = [coef_kind(rng, kd, e[2]), coef_kind(rng, kc, e[1]), coef_kind(rng, kb, e[0]), coef_kind(rng, ka, 0.0)]; emit(out, cx, "special3", &a3);
            } } } } }
        }
        let _ = rep;
    }
}

// ------------------------------------------------------------------ sequences on ONE object (no stale internal state)
/// The same Polynomial object is observed (roots with either flag, repeatedly), mutated through every mutator (IndexMut, coeffs()[i] = v,
/// coeffs().push / pop, trim) and observed again; every call is judged against the CURRENT coefficients, which the harness tracks
/// independently from the case (`synced` = the object's own coefficients agree with that model).
trait SeqObj { fn set(&mut self, i: usize, v: C); fn cset(&mut self, i: usize, v: C); fn push(&mut self, v: C); fn pop(&mut self); fn trim_(&mut self); fn roots_(&self, r: bool) -> Vector<Cmplx>; fn proj(&self) -> Vec<C>; }
impl SeqObj for Polynomial<f64> {
    fn set(&mut self, i: usize, v: C) { self[i] = v.0; } fn cset(&mut self, i: usize, v: C) { self.coeffs()[i] = v.0; } fn push(&mut self, v: C) { self.coeffs().push(v.0); }
    fn pop(&mut self) { self.coeffs().pop(); } fn trim_(&mut self) { self.trim(); } fn roots_(&self, r: bool) -> Vector<Cmplx> { self.roots(r) }
    fn proj(&self) -> Vec<C> { (0..self.size()).map(|i| (self[i], 0.0)).collect() } }
impl SeqObj for Polynomial<Cmplx> {
    fn set(&mut self, i: usize, v: C) { self[i] = Cmplx::new(v.0, v.1); } fn cset(&mut self, i: usize, v: C) { self.coeffs()[i] = Cmplx::new(v.0, v.1); } fn push(&mut self, v: C) { self.coeffs().push(Cmplx::new(v.0, v.1)); }
    fn pop(&mut self) { self.coeffs().pop(); } fn trim_(&mut self) { self.trim(); } fn roots_(&self, r: bool) -> Vector<Cmplx> { self.roots(r) }
    fn proj(&self) -> Vec<C> { (0..self.size()).map(|i| (self[i].real, self[i].imag)).collect() } }

fn run_seq<P: SeqObj>(case: &Value, out: &mut Out, obj: &mut P, ty: &str, mut model: Vec<C>) {
    let cxt = ty == "cx";
    for (k, st) in case["steps"].as_array().unwrap().iter().enumerate() {
        let v = || -> C { (hexf(&st["v"]), if cxt { hexf(&st["vi"]) } else { 0.0 }) };
        match gets(st, "op") {
            "set" => { let i = getu(st, "i"); obj.set(i, v()); model[i] = v(); }
            "cset" => { let i = getu(st, "i"); obj.cset(i, v()); model[i] = v(); }
            "push" => { obj.push(v()); model.push(v()); }
            "pop" => { obj.pop(); model.pop(); }
            "trim" => { obj.trim_(); while model.len() > 1 && model[model.len() - 1] == (0.0, 0.0) { model.pop(); } }
            "roots" => {
                let refine = st["refine"].as_bool().unwrap_or(false);
                let res = guarded(|| obj.roots_(refine));
                let synced = obj.proj() == model;
                log_roots(case, out, ty, refine, &model, res, &|e| { e["step"] = json!(k); e["synced"] = json!(synced); });
            }
            o => { eprintln!("TOOL-ERROR unknown roots step {}", o); std::process::exit(2) }
        }
    }
}
fn exec_seq(case: &Value, out: &mut Out) {
    let ty = gets(case, "ty"); let (re, im) = (fvec(case.get("a")), fvec(case.get("ai")));
    let a: Vec<C> = re.iter().enumerate().map(|(k, x)| (*x, if ty == "cx" { im.get(k).cloned().unwrap_or(0.0) } else { 0.0 })).collect();
    if ty == "cx" { let mut p = Polynomial::<Cmplx>::new(a.iter().map(|x| Cmplx::new(x.0, x.1)).collect()); run_seq(case, out, &mut p, ty, a); }
    else { let mut p = Polynomial::<f64>::new(a.iter().map(|x| x.0).collect()); run_seq(case, out, &mut p, ty, a); }
}
fn gen_sequences(quick: bool, rng: &mut StdRng, out: &mut Out, push: &mut dyn FnMut(&mut Out, Value)) {
    let reps = if quick { 2 } else { 25 };
    for n in 2..=5usize { for cx in [false, true] { for r0 in [false, true] { for rep in 0..reps {
        // start from a well-conditioned polynomial (random roots in a disc), then change coefficients moderately
        let lead: C = if cx { (unif(rng, 0.5, 2.0), unif(rng, -1.0, 1.0)) } else { (unif(rng, 0.5, 2.0) * if rng.gen_bool(0.5) { 1.0 } else { -1.0 }, 0.0) };
        let roots: Vec<C> = if cx { (0..n).map(|_| in_disc(rng, 2.0)).collect() } else { real_closed(rng, n, |r| in_disc(r, 2.0)) };
        let mut cur = expand(lead, &roots); if !cx { for c in cur.iter_mut() { c.1 = 0.0; } }
        let a0 = cur.clone();
        let mut steps: Vec<Value> = vec![];
        let obs = |steps: &mut Vec<Value>, flags: &[bool]| { for f in flags { steps.push(json!({"op": "roots", "refine": f})); } };
        let newval = |rng: &mut StdRng, old: C| -> C { let s = -unif(rng, 1.5, 2.5); let t = unif(rng, 0.3, 0.9); if cx { (s * old.0 - t, s * old.1 + t) } else { (s * old.0 - t, 0.0) } };
        let stepv = |op: &str, i: Option<usize>, v: C| -> Value { let mut s = json!({"op": op, "v": bits(v.0), "vi": bits(v.1)}); if let Some(i) = i { s["i"] = json!(i); } s };
        obs(&mut steps, &[r0, r0, !r0, r0]);
        // the mutators in a rotating order
        let order = [[0usize, 1, 2, 3], [1, 2, 3, 0], [2, 0, 1, 3], [3, 1, 0, 2]][(n + rep) % 4];
        for m in order {
            match m {
                0 => { let i = rng.gen_range(0..cur.len() - 1); let v = newval(rng, cur[i]); cur[i] = v; steps.push(stepv("set", Some(i), v)); }
                1 => { let i = rng.gen_range(0..cur.len() - 1); let v = newval(rng, cur[i]); cur[i] = v; steps.push(stepv("cset", Some(i), v)); }
                2 => { let v = newval(rng, cur[cur.len() - 1]); cur.push(v); steps.push(stepv("push", None, v)); }
                _ => { if cur.len() > 3 { cur.pop(); steps.push(json!({"op": "pop"})); } else { let i = 0; let v = newval(rng, cur[i]); cur[i] = v; steps.push(stepv("set", Some(i), v)); } }
            }
            obs(&mut steps, &[r0, !r0, r0]);
        }
        // leading coefficient set to zero through IndexMut (outside the property while it lasts), then trim
        let l = cur.len() - 1; cur[l] = (0.0, 0.0); steps.push(stepv("set", Some(l), (0.0, 0.0))); obs(&mut steps, &[r0]);
        cur.pop(); steps.push(json!({"op": "trim"})); obs(&mut steps, &[r0, !r0]);
        let mut c = json!({"ty": if cx { "cx" } else { "f64" }, "cls": "seq", "sep": false, "a": hexvec(&a0.iter().map(|c| c.0).collect::<Vec<f64>>()), "steps": steps});
        if cx { c["ai"] = hexvec(&a0.iter().map(|c| c.1).collect::<Vec<f64>>()); }
        push(out, c);
    } } } }
}

// ------------------------------------------------------------------ small-integer polynomials (exact cycles / symmetric configurations of the iteration)
/// Independent reference roots of a real- or Gaussian-integer-coefficient polynomial: Aberth-Ehrlich iteration in f64, polished by Newton steps
/// with Horner in complex double-double.  Returns None unless every root is verified (|p(z)| tiny in double-double) and the roots are simple.
fn reference_roots(a: &[C]) -> Option<Vec<C>> {
    let n = a.len() - 1; if n == 0 { return None; }
    let cm = |x: C, y: C| (x.0 * y.0 - x.1 * y.1, x.0 * y.1 + x.1 * y.0);
    let cd = |x: C, y: C| { let d = y.0 * y.0 + y.1 * y.1; ((x.0 * y.0 + x.1 * y.1) / d, (x.1 * y.0 - x.0 * y.1) / d) };
    let an = a[n]; let amax = a.iter().map(|c| c.0.hypot(c.1)).fold(0.0, f64::max);
    let rad = 1.0 + a[..n].iter().map(|c| c.0.hypot(c.1)).fold(0.0, f64::max) / an.0.hypot(an.1);
    let mut z: Vec<C> = (0..n).map(|k| { let t = 2.0 * std::f64::consts::PI * (k as f64 + 0.35) / n as f64 + 0.4; (0.6 * rad * t.cos(), 0.6 * rad * t.sin()) }).collect();
    for _ in 0..400 {
        let mut moved = 0.0f64;
        for i in 0..n {
            let (mut p, mut d) = ((0.0, 0.0), (0.0, 0.0));
            for c in a.iter().rev() { d = { let t = cm(d, z[i]); (t.0 + p.0, t.1 + p.1) }; p = { let t = cm(p, z[i]); (t.0 + c.0, t.1 + c.1) }; }
            if p == (0.0, 0.0) { continue; }
            if d == (0.0, 0.0) { z[i] = (z[i].0 + 1e-3 * rad, z[i].1 + 1e-3 * rad); moved = 1.0; continue; }
            let w = cd(p, d);
            let mut sum = (0.0, 0.0);
            for j in 0..n { if j != i { let q = cd((1.0, 0.0), (z[i].0 - z[j].0, z[i].1 - z[j].1)); sum = (sum.0 + q.0, sum.1 + q.1); } }
            let den = { let t = cm(w, sum); (1.0 - t.0, -t.1) };
            let dz = cd(w, den);
            if !dz.0.is_finite() || !dz.1.is_finite() { return None; }
            z[i] = (z[i].0 - dz.0, z[i].1 - dz.1); moved = moved.max(dz.0.hypot(dz.1));
        }
        if moved < 1e-15 * rad { break; }
    }
    // Newton polishing in double-double and verification
    for zi in z.iter_mut() {
        for _ in 0..3 {
            let zz = CDD::from(zi.0, zi.1); let (mut p, mut d) = (CDD::ZERO, CDD::ZERO);
            for c in a.iter().rev() { d = d.mul(zz).add(p); p = p.mul(zz).add(CDD::from(c.0, c.1)); }
            if d.abs() == 0.0 { return None; }
            let w = p.div(d); *zi = (zi.0 - w.re.to_f64(), zi.1 - w.im.to_f64());
        }
        let m = zi.0.hypot(zi.1).max(1.0).powi(n as i32);
        if !(horner_abs(a, *zi) / (amax * m) <= 1e-14) { return None; }
    }
    let scale = z.iter().map(|r| r.0.hypot(r.1)).fold(1.0, f64::max);
    for i in 0..n { for j in 0..i { if (z[i].0 - z[j].0).hypot(z[i].1 - z[j].1) < 1e-2 * scale { return None; } } }
    Some(z)
}
fn pmul_i(a: &[i64], b: &[i64]) -> Vec<i64> { let mut r = vec![0i64; a.len() + b.len() - 1]; for (i, x) in a.iter().enumerate() { for (j, y) in b.iter().enumerate() { r[i + j] += x * y; } } r }
/// all coefficient lists of the given length over -3..3 with non-zero last entry, in a fixed order; `idx` selects one
fn nth_small(len: usize, mut idx: u64) -> Vec<i64> {
    let mut v = vec![0i64; len];
    for k in 0..len - 1 { v[k] = (idx % 7) as i64 - 3; idx /= 7; }
    v[len - 1] = [1i64, -1, 2, -2, 3, -3][(idx % 6) as usize]; v
}
fn count_small(len: usize) -> u64 { 6 * 7u64.pow(len as u32 - 1) }

fn gen_small_integer(quick: bool, seed: u64, out: &mut Out, push: &mut dyn FnMut(&mut Out, Value)) {
    let mut rng = rng(seed, 110);
    let rng = &mut rng;
    // one integer polynomial: both refine settings; Polynomial<f64> and (cxalso) Polynomial<Cmplx>; reference roots decide `sep`
    let mut emit = |out: &mut Out, cls: &str, a: &[i64], ai: Option<&[i64]>, cxalso: bool| {
        if a.len() < 2 || (a[a.len() - 1] == 0 && ai.map(|v| v[a.len() - 1] == 0).unwrap_or(true)) { return; }
        let ac: Vec<C> = a.iter().enumerate().map(|(k, x)| (*x as f64, ai.map(|v| v[k] as f64).unwrap_or(0.0))).collect();
        let refr = reference_roots(&ac);
        let sep = refr.as_ref().map(|r| condition(&ac, r) <= 1e3).unwrap_or(false);
        let tys: Vec<bool> = if ai.is_some() { vec![true] } else if cxalso { vec![false, true] } else { vec![false] };
        for cx in tys { for refine in [false, true] {
            let mut c = json!({"ty": if cx { "cx" } else { "f64" }, "refine": refine, "cls": cls, "sep": sep, "a": hexvec(&ac.iter().map(|c| c.0).collect::<Vec<f64>>())});
            if cx { c["ai"] = hexvec(&ac.iter().map(|c| c.1).collect::<Vec<f64>>()); }
            if let (true, Some(r)) = (sep, refr.as_ref()) { c["tr"] = hexvec(&r.iter().map(|c| c.0).collect::<Vec<f64>>()); c["tri"] = hexvec(&r.iter().map(|c| c.1).collect::<Vec<f64>>()); }
            push(out, c);
        } }
    };
    let small = |rng: &mut StdRng, len: usize| -> Vec<i64> { let n = count_small(len); nth_small(len, rng.gen_range(0..n)) };
    let nz = |rng: &mut StdRng| [1i64, -1, 2, -2, 3, -3][rng.gen_range(0..6)];
    // (a1) (a*x^3 + b) * (quadratic or cubic), (a2) (a*x^k + b) * q(x) for k = 2..5, deg q = 1..3 (total degree 5..6 mostly)
    let n1 = if quick { 350 } else { 6000 };
    for i in 0..n1 {
        let k = if i % 2 == 0 { 3 } else { [2usize, 4, 5, 3][(i / 2) % 4] };
        let mut f = vec![0i64; k + 1]; f[0] = nz(rng); f[k] = nz(rng);
        // total degree 5..6 (k = 2: degree 5)
        let dq = match k { 3 => 2 + (i / 2) % 2, 2 => 3, 4 => 1 + (i / 8) % 2, _ => 1 };
        let q = small(rng, dq + 1);
        emit(out, "axkb", &pmul_i(&f, &q), None, i % 3 == 0);
    }
    // (a3) palindromic and anti-palindromic polynomials, degree 4..6 (degree 8 is left out: see the report on (x^n +- 1)(x +- 1)^2(x -+ 1))
    for i in 0..(if quick { 120 } else { 2500 }) {
        let n = 4 + i % 3; let half = small(rng, n / 2 + 1);
        let anti = (i / 3) % 2 == 1;
        let mut a = vec![0i64; n + 1];
        for j in 0..=n / 2 { let c = half[n / 2 - j]; a[n - j] = c; a[j] = if anti { -c } else { c }; }
        if anti && n % 2 == 0 { a[n / 2] = 0; }
        emit(out, "palin", &a, None, i % 3 == 0);
    }
    // (a4) polynomials in x^2 or x^3 times a linear factor
    for i in 0..(if quick { 120 } else { 2500 }) {
        // (c0 + c1 x^2 + c2 x^4)(d0 + d1 x): degree 5;  c0 + c1 x^2 + c2 x^4 + c3 x^6 and c0 + c1 x^3 + c2 x^6: degree 6
        let (m, terms, with_lin) = [(2usize, 2usize, true), (2, 3, false), (3, 2, false)][i % 3];
        let c = small(rng, terms + 1); let mut g = vec![0i64; m * terms + 1]; for (j, x) in c.iter().enumerate() { g[m * j] = *x; }
        let lin = if with_lin { vec![rng.gen_range(-3..=3i64), nz(rng)] } else { vec![1i64] };
        emit(out, "xpow", &pmul_i(&g, &lin), None, i % 3 == 0);
    }
    // Gaussian-integer variants of (a1): (a*x^3 + b) * q with b, q Gaussian integers (Polynomial<Cmplx> only)
    for _ in 0..(if quick { 60 } else { 1500 }) {
        let q = small(rng, 3); let qi = [rng.gen_range(-2..=2i64), rng.gen_range(-2..=2i64), 0];
        let (a3, b, bi) = (nz(rng), nz(rng), rng.gen_range(-3..=3i64));
        // (a3 x^3 + (b + i bi)) * (q + i qi)
        let mut re = vec![0i64; 6]; let mut im = vec![0i64; 6];
        for j in 0..3 { re[j] += b * q[j] - bi * qi[j]; im[j] += b * qi[j] + bi * q[j]; re[j + 3] += a3 * q[j]; im[j + 3] += a3 * qi[j]; }
        emit(out, "axkb", &re, Some(&im), true);
    }
    // (b) all quintics with coefficients in -3..3 (thorough), a seeded sample of them (quick); a sample of the sextics
    let n5 = count_small(6);
    if quick { for _ in 0..1500 { let a = nth_small(6, rng.gen_range(0..n5)); emit(out, "enum5", &a, None, false); } }
    else { for idx in 0..n5 { let a = nth_small(6, idx); emit(out, "enum5", &a, None, false); } }
    let n6 = count_small(7);
    for _ in 0..(if quick { 500 } else { 40000 }) { let a = nth_small(7, rng.gen_range(0..n6)); emit(out, "enum6", &a, None, false); }
}

// ------------------------------------------------------------------ Cardano sign / branch sub-classes (deterministic)
/// Cubics whose Cardano quantity d1 = 2b^3 - 9abc + 27a^2 d lies EXACTLY on an axis: Re(d1) = 0 with Im(d1) of both signs, Im(d1) = 0 with
/// Re(d1) of both signs; d0 = b^2 - 3ac tiny (|d0|^3 << |d1|^2) in all eight directions, zero, or moderate; both refinement settings;
/// complex and real coefficients.  Which of these the recorded finding D13 covers is decided per event by the logged field `cancel`.
fn gen_cardano_axes(quick: bool, out: &mut Out, push: &mut dyn FnMut(&mut Out, Value)) {
    let dirs: [C; 8] = [(1.0, 1.0), (1.0, -1.0), (-1.0, 1.0), (-1.0, -1.0), (1.0, 0.0), (-1.0, 0.0), (0.0, 1.0), (0.0, -1.0)];
    let eps: Vec<f64> = if quick { vec![1e-4, 3e-5, 1e-2, 0.0] } else { vec![1e-4, 3e-5, 2e-4, 1e-6, 1e-2, 0.3, 0.0] };
    let ts: Vec<f64> = if quick { vec![1.0, 2.5] } else { vec![1.0, 2.5, 0.7, 40.0] };
    let mut emit = |out: &mut Out, cx: bool, a: [C; 4]| {
        for refine in [false, true] {
            let mut c = json!({"ty": if cx { "cx" } else { "f64" }, "refine": refine, "cls": "cardano", "sep": false, "a": hexvec(&a.iter().map(|c| c.0).collect::<Vec<f64>>())});
            if cx { c["ai"] = hexvec(&a.iter().map(|c| c.1).collect::<Vec<f64>>()); }
            push(out, c);
        } };
    for lead in [(1.0, 0.0), (-2.0, 0.0), (0.0, 1.0)] { for &t in &ts { for daxis in [(0.0, 1.0), (0.0, -1.0), (1.0, 0.0), (-1.0, 0.0)] { for &e in &eps { for u in dirs {
        if e == 0.0 && u != dirs[0] { continue; }
        // a x^3 + e*u x + t*daxis   (b = 0: d1 = 27 a^2 d exactly on an axis, d0 = -3 a c)
        emit(out, true, [(t * daxis.0, t * daxis.1), (e * u.0, e * u.1), (0.0, 0.0), lead]);
    } } } } }
    // b purely imaginary, c = 0, d purely imaginary: d1 = 2b^3 + 27a^2 d purely imaginary, d0 = b^2 real
    for &t in &ts { for sb in [1.0, -1.0] { for sd in [1.0, -1.0] { for beta in [1e-2, 3e-2, 0.5] {
        emit(out, true, [(0.0, sd * t), (0.0, 0.0), (0.0, sb * beta), (1.0, 0.0)]);
    } } } }
    // real coefficients: d1 real of both signs, d0 tiny of both signs
    for lead in [1.0, -2.0] { for &t in &ts { for sd in [1.0, -1.0] { for &e in &eps { for sc in [1.0, -1.0] {
        if e == 0.0 && sc < 0.0 { continue; }
        emit(out, false, [(sd * t, 0.0), (sc * e, 0.0), (0.0, 0.0), (lead, 0.0)]);
        emit(out, true, [(sd * t, 0.0), (sc * e, 0.0), (0.0, 0.0), (lead, 0.0)]);
    } } } } }
}

// ------------------------------------------------------------------ state left behind by a refused call
/// Every refusing call (degree 0, empty, all-zero, index out of range, eval of the empty polynomial, polydiv by the empty polynomial), immediately
/// followed on the same thread by ordinary roots() calls of every degree 1..8 (both settings, both element types), twice; judged as usual.
fn gen_poison(quick: bool, seed: u64, out: &mut Out, push: &mut dyn FnMut(&mut Out, Value)) {
    let mut rng = rng(seed, 111); let rng = &mut rng;
    for rep in 0..(if quick { 1 } else { 6 }) { for kind in ["deg0", "deg0cx", "empty", "zero", "index", "evalempty", "divempty"] { for n in 1..=8usize { for cx in [false, true] {
        let lead: C = if cx { (unif(rng, 0.5, 2.0), unif(rng, -1.0, 1.0)) } else { (unif(rng, 0.5, 2.0), 0.0) };
        // well separated roots: integers-ish points on a grid, jittered
        let mut roots: Vec<C> = vec![];
        if cx { for k in 0..n { roots.push(((k as f64) - 3.5 + unif(rng, -0.2, 0.2), ((k * 3 % 5) as f64) - 2.0 + unif(rng, -0.2, 0.2))); } }
        else { let mut k = 0; while roots.len() < n { if n - roots.len() >= 2 && k % 2 == 0 { let r = ((k as f64) * 0.8 - 2.0, 1.0 + 0.5 * k as f64); roots.push(r); roots.push((r.0, -r.1)); } else { roots.push(((k as f64) - 3.0 + unif(rng, -0.2, 0.2), 0.0)); } k += 1; } }
        let mut a = expand(lead, &roots); if !cx { for c in a.iter_mut() { c.1 = 0.0; } }
        let sep = condition(&a, &roots) <= 1e3;
        for refine in [false, true] {
            let mut c = json!({"ty": if cx { "cx" } else { "f64" }, "refine": refine, "cls": "poison", "poison": kind, "sep": sep, "a": hexvec(&a.iter().map(|c| c.0).collect::<Vec<f64>>()),
                               "tr": hexvec(&roots.iter().map(|c| c.0).collect::<Vec<f64>>()), "tri": hexvec(&roots.iter().map(|c| c.1).collect::<Vec<f64>>())});
            if cx { c["ai"] = hexvec(&a.iter().map(|c| c.1).collect::<Vec<f64>>()); }
            push(out, c);
        }
        let _ = rep;
    } } } }
}

// ------------------------------------------------------------------ compositions q(x^k)
/// p(x) = q(x^k), k = 2, 3, 4, inner q of degree 2..4 (total degree <= 12) taken from the classes that are hard for the closed forms
/// (Cardano sub-classes incl. perfect cube + constant in eight directions, quadratics with q = 0 / tiny discriminant / dominant middle
/// coefficient, near-multiple roots) and random q; real and complex coefficients; both settings.  Judged by the rules of the OUTER degree's
/// path; roots matched against independent reference roots when these are simple and well conditioned.  Strict.
fn gen_compositions(quick: bool, seed: u64, out: &mut Out, push: &mut dyn FnMut(&mut Out, Value)) {
    let mut rng = rng(seed, 112); let rng = &mut rng;
    let dirs: [C; 8] = [(1.0, 0.0), (-1.0, 0.0), (0.0, 1.0), (0.0, -1.0), (1.0, 1.0), (1.0, -1.0), (-1.0, 1.0), (-1.0, -1.0)];
    let cm = |x: C, y: C| -> C { (x.0 * y.0 - x.1 * y.1, x.0 * y.1 + x.1 * y.0) };
    let mut inner: Vec<Vec<C>> = vec![];
    // perfect cube + constant: a (y + s)^3 + t*dir
    for (a, s_) in [((1.0, 0.0), (1.0, 0.0)), ((2.0, 0.0), (-0.5, 0.0)), ((1.0, 0.0), (0.0, 1.0)), ((0.0, 1.0), (0.5, 0.5))] { for (j, d) in dirs.iter().enumerate() {
        let t = [2.0, 5.0, 0.7][j % 3]; let s2 = cm(s_, s_); let s3 = cm(s2, s_);
        let c0 = cm(a, s3); inner.push(vec![(c0.0 + t * d.0, c0.1 + t * d.1), cm(a, (3.0 * s2.0, 3.0 * s2.1)), cm(a, (3.0 * s_.0, 3.0 * s_.1)), a]);
    } }
    // Cardano axis sub-classes y^3 + e*u*y + t*axis with a MODERATE linear term (with a tiny one the composition x^(3k) + e u x^k + t is a
    // near-binomial, i.e. an instance of the recorded finding D10 - the unchanged crate returns non-roots there - and is therefore left out)
    for d in &dirs[0..4] { for u in dirs { inner.push(vec![(2.5 * d.0, 2.5 * d.1), (0.7 * u.0, 0.7 * u.1), (0.0, 0.0), (1.0, 0.0)]); } }
    // quadratics: q = 0 (double root at 0), b = 0, tiny discriminant, dominant middle coefficient (real and imaginary)
    for d in dirs { inner.push(vec![(0.0, 0.0), (0.0, 0.0), d]); inner.push(vec![d, (0.0, 0.0), (1.0, 0.0)]);
        inner.push(vec![(1.0 + 1e-6 * d.0, 1e-6 * d.1), (-2.0, 0.0), (1.0, 0.0)]); inner.push(vec![(d.0 * 1e-2, d.1 * 1e-2), (0.0, 300.0), (1.0, 0.0)]); inner.push(vec![(1e-2, 0.0), (300.0 * d.0, 300.0 * d.1), (1.0, 0.0)]); }
    // near-multiple and random inner polynomials (from roots), degree 2..4
    for i in 0..(if quick { 24 } else { 400 }) { let n = 2 + i % 3; let cxq = i % 2 == 0;
        let roots: Vec<C> = if i % 4 < 2 { let c = in_disc(rng, 1.5); (0..n).map(|j| (c.0 + 1e-3 * j as f64, if cxq { c.1 } else { 0.0 })).collect() }
                            else if cxq { (0..n).map(|_| in_disc(rng, 2.0)).collect() } else { real_closed(rng, n, |r| in_disc(r, 2.0)) };
        let mut q = expand((unif(rng, 0.5, 2.0), 0.0), &roots); if !cxq { for c in q.iter_mut() { c.1 = 0.0; } } inner.push(q); }
    let nfixed = inner.len() - (if quick { 24 } else { 400 });
    for (idx, q) in inner.iter().enumerate() { for k in [2usize, 3, 4] {
        let dq = q.len() - 1; if dq * k > 12 { continue; }
        // random inner polynomials only up to total degree 8: at degree 12 (q(x^4), q cubic) the unchanged crate hits further instances of D10
        if idx >= nfixed && dq * k > 8 { continue; }
        if quick && (idx + k) % 2 == 1 && dq * k > 6 { continue; }
        let mut a = vec![(0.0, 0.0); dq * k + 1]; for (j, c) in q.iter().enumerate() { a[j * k] = *c; }
        let real = a.iter().all(|c| c.1 == 0.0);
        let refr = reference_roots(&a); let sep = refr.as_ref().map(|r| condition(&a, r) <= 1e3).unwrap_or(false);
        for cx in if real { vec![false, true] } else { vec![true] } { for refine in [false, true] {
            let mut c = json!({"ty": if cx { "cx" } else { "f64" }, "refine": refine, "cls": "compose", "sep": sep, "a": hexvec(&a.iter().map(|c| c.0).collect::<Vec<f64>>())});
            if cx { c["ai"] = hexvec(&a.iter().map(|c| c.1).collect::<Vec<f64>>()); }
            if let (true, Some(r)) = (sep, refr.as_ref()) { c["tr"] = hexvec(&r.iter().map(|c| c.0).collect::<Vec<f64>>()); c["tri"] = hexvec(&r.iter().map(|c| c.1).collect::<Vec<f64>>()); }
            push(out, c);
        } }
    } }
}
