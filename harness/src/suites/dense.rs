//! Suite "dense": ohsl::Matrix editing / algebra histories (C03, parts of C20).
use crate::util::*;
use ohsl::{Matrix, Vector};
use rand::rngs::StdRng;
use rand::Rng;
use serde_json::{json, Value};

pub struct StepOut<T> { pub panic: bool, pub rm: Option<Matrix<T>>, pub rv: Option<Vector<T>>, pub ri: Option<i64>, pub units: Option<i64> }
impl<T> StepOut<T> { fn none() -> Self { StepOut { panic: false, rm: None, rv: None, ri: None, units: None } } }

fn arg_mat<T: ElemBase>(op: &Value) -> Matrix<T> { mat_from::<T>(&op["b"], if T::CX { op.get("bi") } else { None }) }
fn arg_vec<T: ElemBase>(op: &Value) -> Vector<T> { vec_from::<T>(&op["v"], if T::CX { op.get("vi") } else { None }) }
fn arg_x<T: ElemBase>(op: &Value, k: &str) -> T { let ki = format!("{}i", k); T::from_ri(geti(op, k), if T::CX { op.get(&ki).and_then(|v| v.as_i64()).unwrap_or(0) } else { 0 }) }

/// apply one operation (by name) to the real matrix (signed element types: adds negation)
pub fn step<T: Elem>(m: &mut Matrix<T>, op: &Value) -> StepOut<T> {
    if gets(op, "op") == "neg" {
        let own = gets(op, "form") == "own";
        let mut o = StepOut::none();
        match guarded(|| if own { -(m.clone()) } else { -&*m }) { Ok(x) => o.rm = Some(x), Err(_) => o.panic = true }
        return o;
    }
    if gets(op, "op") == "neg_assign" {
        // the live object itself is consumed; the result takes its place
        let mut o = StepOut::none();
        if guarded(|| { let old = std::mem::replace(m, Matrix::<T>::empty()); *m = -old; }).is_err() { o.panic = true }
        return o;
    }
    step_base(m, op)
}
/// every operation that needs no sign (also instantiated at the unsigned integer types)
pub fn step_base<T: ElemBase>(m: &mut Matrix<T>, op: &Value) -> StepOut<T> {
    let name = gets(op, "op").to_string();
    let own = gets(op, "form") == "own";
    let into = gets(op, "form") == "into";
    let mut o = StepOut::none();
    let r = guarded(|| {
        let mut o = StepOut::<T>::none();
        match name.as_str() {
            "set_row" => m.set_row(getu(op, "i"), arg_vec::<T>(op)),
            "set_col" => m.set_col(getu(op, "j"), arg_vec::<T>(op)),
            "delete_row" => m.delete_row(getu(op, "i")),
            "swap_rows" => m.swap_rows(getu(op, "i"), getu(op, "i2")),
            "swap_elem" => m.swap_elem(getu(op, "i"), getu(op, "j"), getu(op, "i2"), getu(op, "j2")),
            "set" => m[(getu(op, "i"), getu(op, "j"))] = arg_x::<T>(op, "x"),
            "resize" => m.resize(getu(op, "nr"), getu(op, "nc")),
            "transpose_in_place" => m.transpose_in_place(),
            "clear" => m.clear(),
            "fill" => m.fill(arg_x::<T>(op, "x")),
            "fill_diag" => m.fill_diag(arg_x::<T>(op, "x")),
            "fill_band" => m.fill_band(match gets(op, "offx") { "min" => isize::MIN, "min1" => isize::MIN + 1, "max" => isize::MAX, "max1" => isize::MAX - 1, _ => geti(op, "off") as isize }, arg_x::<T>(op, "x")),
            // Clone::clone_from into the live object from a matrix of another (or the same) shape
            "clone_from" => { let b = arg_mat::<T>(op); m.clone_from(&b) }
            // PartialEq against a matrix with the SAME row-major data but (possibly) another shape, against a clone, and against a clone with one entry changed
            "eq_reshape" => { let (nr, nc) = (getu(op, "nr"), getu(op, "nc")); let mut o2 = Matrix::<T>::new(nr, nc, T::from_ri(0, 0)); let c = m.cols().max(1);
                for k in 0..(nr * nc).min(m.rows() * m.cols()) { o2[(k / nc.max(1), k % nc.max(1))] = m[(k / c, k % c)]; }
                let eq = *m == o2; let ne = *m != o2; let cl = m.clone(); let eqc = *m == cl && !(*m != cl);
                o.ri = Some((eq as i64) + 2 * (ne as i64) + 4 * (eqc as i64)); }
            "fill_tridiag" => m.fill_tridiag(arg_x::<T>(op, "lo"), arg_x::<T>(op, "di"), arg_x::<T>(op, "up")),
            "fill_row" => m.fill_row(getu(op, "i"), arg_x::<T>(op, "x")),
            "fill_col" => m.fill_col(getu(op, "j"), arg_x::<T>(op, "x")),
            // form "into": the live object is moved into the by-value operator and replaced by the result
            "add_assign" => { let b = arg_mat::<T>(op); if into { let old = std::mem::replace(m, Matrix::<T>::empty()); *m = old + b } else if own { *m += b } else { *m += &b } }
            "sub_assign" => { let b = arg_mat::<T>(op); if into { let old = std::mem::replace(m, Matrix::<T>::empty()); *m = old - b } else if own { *m -= b } else { *m -= &b } }
            "mul_assign" => if into { let old = std::mem::replace(m, Matrix::<T>::empty()); *m = old * arg_x::<T>(op, "s") } else { *m *= arg_x::<T>(op, "s") },
            "div_assign" => if into { let old = std::mem::replace(m, Matrix::<T>::empty()); *m = old / arg_x::<T>(op, "s") } else { *m /= arg_x::<T>(op, "s") },
            "matmul_assign" => { let b = arg_mat::<T>(op); let old = std::mem::replace(m, Matrix::<T>::empty()); *m = old * b }
            "add_scalar_assign" => *m += arg_x::<T>(op, "s"),
            "sub_scalar_assign" => *m -= arg_x::<T>(op, "s"),
            "get_row" => o.rv = Some(m.get_row(getu(op, "i"))),
            "get_col" => o.rv = Some(m.get_col(getu(op, "j"))),
            "get" => { let v = m[(getu(op, "i"), getu(op, "j"))]; o.rm = Some({ let mut t = Matrix::<T>::new(1, 1, T::from_ri(0, 0)); t[(0, 0)] = v; t }); }
            "rows" => o.ri = Some(m.rows() as i64),
            "cols" => o.ri = Some(m.cols() as i64),
            "numel" => o.ri = Some(m.numel() as i64),
            "clone" => o.rm = Some(m.clone()),
            "transpose" => o.rm = Some(m.transpose()),
            "add" => { let b = arg_mat::<T>(op); o.rm = Some(if own { m.clone() + b } else { &*m + &b }) }
            "sub" => { let b = arg_mat::<T>(op); o.rm = Some(if own { m.clone() - b } else { &*m - &b }) }
            "mul_scalar" => o.rm = Some(if own { m.clone() * arg_x::<T>(op, "s") } else { &*m * arg_x::<T>(op, "s") }),
            "div_scalar" => o.rm = Some(if own { m.clone() / arg_x::<T>(op, "s") } else { &*m / arg_x::<T>(op, "s") }),
            "matmul" => { let b = arg_mat::<T>(op); o.rm = Some(if own { m.clone() * b } else { &*m * &b }) }
            "matvec" => { let v = arg_vec::<T>(op); o.rv = Some(match gets(op, "form") { "own" => m.clone() * v, "method" => m.multiply(&v), _ => &*m * &v }) }
            // aliasing: the SAME object on both sides of a by-reference operator
            "add_self" => o.rm = Some(&*m + &*m),
            "sub_self" => o.rm = Some(&*m - &*m),
            "matmul_self" => o.rm = Some(&*m * &*m),
            "eye" => o.rm = Some(Matrix::<T>::eye(getu(op, "n"))),
            "new" => o.rm = Some(Matrix::<T>::new(getu(op, "nr"), getu(op, "nc"), arg_x::<T>(op, "x"))),
            other => { eprintln!("TOOL-ERROR unknown dense op {}", other); std::process::exit(2) }
        }
        o
    });
    match r { Ok(x) => o = x, Err(_) => o.panic = true }
    o
}

/// f64-only operations (norms)
fn step_f64(m: &Matrix<f64>, op: &Value) -> Option<StepOut<f64>> {
    let name = gets(op, "op");
    let mut o = StepOut::none();
    let f2 = |x: f64| -> i64 { if x == x.trunc() && x.abs() < SAT as f64 { x as i64 } else { BAD } };
    match name {
        "norm_1" => o.ri = Some(f2(m.norm_1())),
        "norm_inf" => o.ri = Some(f2(m.norm_inf())),
        "norm_max" => o.ri = Some(f2(m.norm_max())),
        "lmul_scalar" => o.rm = Some((geti(op, "s") as f64) * m.clone()),
        "empty" => o.rm = Some(Matrix::<f64>::empty()),
        "norm_units" => {
            // independent evaluation of the entrywise p-norm
            let p = geti(op, "p") as f64;
            let got = if geti(op, "frob") == 1 { m.norm_frob() } else { m.norm_p(p) };
            let p = if geti(op, "frob") == 1 { 2.0 } else { p };
            let mut s = 0.0f64; let mut mx = 0.0f64;
            for i in 0..m.rows() { for j in 0..m.cols() { mx = mx.max(m[(i, j)].abs()); } }
            if mx > 0.0 { for i in 0..m.rows() { for j in 0..m.cols() { s += (m[(i, j)].abs() / mx).powf(p); } } }
            let want = if mx > 0.0 { mx * s.powf(1.0 / p) } else { 0.0 };
            let n = (m.rows() * m.cols()).max(1) as f64;
            // sum^(1/p): the rounding of the exponent 1/p is amplified by |ln sum| = p |ln want| (inherent in the definition)
            let w = want.abs().max(f64::MIN_POSITIVE);
            o.units = Some(units((got - want).abs(), (16.0 * (n + 1.0) + 2.0 * w.ln().abs()) * f64::EPSILON * w));
        }
        _ => return None,
    }
    Some(o)
}

fn event_for<T: ElemBase>(op: &Value, w: Part, pre: Option<&Value>, post: &Value, so: &StepOut<T>, cid: i64, k: usize) -> Value {
    let mut e = op.clone();
    if w == Part::Im {
        // imaginary twin: swap the imaginary arguments in
        let mult = matches!(gets(&e, "op"), "mul_assign" | "div_assign" | "mul_scalar" | "div_scalar");
        for key in ["x", "lo", "di", "up", "s", "v", "b"] {
            if mult && key == "s" { continue; }   // real scalar factor: same on both parts
            let ki = format!("{}i", key);
            if e.get(key).is_some() {
                let iv = e.get(&ki).cloned();
                e[key] = match iv { Some(v) => v, None => match &e[key] {
                    Value::Array(a) => Value::from(vec![0i64; a.len()]),
                    Value::Object(_) => json!({"r": e[key]["r"], "c": e[key]["c"], "d": vec![0i64; e[key]["d"].as_array().unwrap().len()]}),
                    _ => json!(0) } };
            }
        }
        if gets(&e, "op") == "eye" { let n = e["n"].clone(); e["op"] = json!("new"); e["nr"] = n.clone(); e["nc"] = n; e["x"] = json!(0); }
    }
    e["ty"] = json!(T::NAME); e["cid"] = json!(cid); e["k"] = json!(k); e["part"] = json!(if w == Part::Re { "re" } else { "im" });
    if let Some(p) = pre { e["pre"] = p.clone(); }
    e["post"] = post.clone();
    e["panic"] = json!(so.panic);
    if let Some(m) = &so.rm { if gets(op, "op") == "get" { e["ri"] = json!(part(m[(0, 0)].to_ri(), w)); } else { e["rm"] = jmat(m, w); } }
    if let Some(v) = &so.rv { e["rv"] = jvec(v, w); }
    if let Some(i) = so.ri { e["ri"] = json!(i); }
    if let Some(u) = so.units { e["units"] = json!(u); }
    e
}

fn as_col(v: &Value) -> Value { json!({"r": v.as_array().unwrap().len(), "c": 1, "d": v}) }

pub fn run<T: Elem>(case: &Value, out: &mut Out) { run_with::<T>(case, out, step::<T>) }
pub fn run_with<T: ElemBase>(case: &Value, out: &mut Out, step: fn(&mut Matrix<T>, &Value) -> StepOut<T>) {
    let cid = geti(case, "cid");
    let mut m1 = mat_from::<T>(&case["init"], if T::CX { case.get("initi") } else { None });
    // an optional SECOND live object, used alternately with the first (operations carrying "obj": 2)
    let mut m2 = if case.get("init2").is_some() { mat_from::<T>(&case["init2"], None) } else { Matrix::<T>::empty() };
    let mut seen = [false, false];
    for (k, op) in case["ops"].as_array().unwrap().iter().enumerate() {
        let obj = if op.get("obj").and_then(|v| v.as_i64()) == Some(2) { 2usize } else { 1 };
        let m = if obj == 2 { &mut m2 } else { &mut m1 };
        let first = !seen[obj - 1]; seen[obj - 1] = true;
        let name = gets(op, "op");
        let pre_re = jmat(&*m, Part::Re); let pre_im = jmat(&*m, Part::Im);
        // f64-only norms
        if matches!(name, "norm_1" | "norm_inf" | "norm_max" | "norm_units" | "lmul_scalar" | "empty") {
            if T::NAME == "f64" {
                // on the REAL object (not a copy rebuilt from its projection): hidden storage must not leak into a norm
                let mf: &Matrix<f64> = (&*m as &dyn std::any::Any).downcast_ref::<Matrix<f64>>().expect("f64 matrix");
                let so = match guarded(|| step_f64(mf, op).unwrap()) { Ok(s) => s, Err(_) => { let mut s = StepOut::none(); s.panic = true; s } };
                out.ev(event_for::<f64>(op, Part::Re, if first { Some(&pre_re) } else { None }, &pre_re, &so, cid, k));
            }
            continue;
        }
        let so = step(m, op);
        let consumed = matches!(name, "neg_assign" | "matmul_assign") || gets(op, "form") == "into";
        if so.panic && consumed { *m = mat_from::<T>(&pre_re, if T::CX { Some(&pre_im) } else { None }); }   // the moved object is gone: continue from the operand
        let post_re = jmat(&*m, Part::Re); let post_im = jmat(&*m, Part::Im);
        let bilinear = matches!(name, "matmul" | "matvec" | "matmul_self" | "matmul_assign");
        if T::CX && bilinear {
            // one event carrying both parts: (A+iB)(C+iD)
            let (c, d) = if name == "matmul_self" { (pre_re.clone(), pre_im.clone()) } else if name == "matmul" || name == "matmul_assign" { (op["b"].clone(), op.get("bi").cloned().unwrap_or_else(|| json!({"r": op["b"]["r"], "c": op["b"]["c"], "d": vec![0i64; op["b"]["d"].as_array().unwrap().len()]}))) }
                         else { (as_col(&op["v"]), as_col(&op.get("vi").cloned().unwrap_or_else(|| Value::from(vec![0i64; op["v"].as_array().unwrap().len()])))) };
            let mut e = json!({"op": "matmul_cx", "src": name, "ty": "cx", "cid": cid, "k": k, "a": pre_re, "b": pre_im, "c": c, "d": d, "panic": so.panic, "post": post_re});
            e["pre"] = pre_re.clone();
            if let Some(rm) = &so.rm { e["rre"] = jmat(rm, Part::Re); e["rim"] = jmat(rm, Part::Im); }
            if let Some(rv) = &so.rv { e["rre"] = as_col(&jvec(rv, Part::Re)); e["rim"] = as_col(&jvec(rv, Part::Im)); }
            if name == "matmul_assign" && !so.panic { e["rre"] = post_re.clone(); e["rim"] = post_im.clone(); }
            if so.panic { e["rre"] = json!({"r": 0, "c": 0, "d": []}); e["rim"] = e["rre"].clone(); }
            out.ev(e);
            // keep the imaginary history in step with a neutral event
            let mut e2 = json!({"op": "clone", "ty": "cx", "cid": cid, "k": k, "part": "im", "panic": false, "post": post_im, "rm": post_im});
            e2["pre"] = if name == "matmul_assign" { post_im.clone() } else { pre_im.clone() };
            e2["hist"] = json!("im"); out.ev(e2);
            continue;
        }
        let mut e = event_for(op, Part::Re, if first { Some(&pre_re) } else { None }, &post_re, &so, cid, k);
        if T::CX { e["hist"] = json!("re"); e["pre"] = pre_re.clone(); }
        out.ev(e);
        if T::CX && !matches!(name, "rows" | "cols" | "numel") {
            let mut e = event_for(op, Part::Im, Some(&pre_im), &post_im, &so, cid, k);
            e["hist"] = json!("im"); out.ev(e);
        }
    }
}

pub fn exec(case: &Value, out: &mut Out) {
    match gets(case, "ty") { "rat" => run::<crate::rat::Rat>(case, out), "f64" => run::<f64>(case, out), "i64" => run::<i64>(case, out), "cx" => run::<ohsl::Cmplx>(case, out),
        "u32" => run_with::<u32>(case, out, step_base::<u32>), "f32" => run::<f32>(case, out), "i32" => run::<i32>(case, out), "f64bits" => run_bits(case, out), "f64scale" => run_scale(case, out), "f64soak" => run_soak(case, out),
        t => { eprintln!("TOOL-ERROR unknown type {}", t); std::process::exit(2) } }
}

// ------------------------------------------------------------------ f64 entrywise operations, bit for bit
/// a general f64 from a seeded generator: random significands, decimal fractions, thirds, specials
fn genf(rng: &mut StdRng, class: usize) -> f64 {
    match class % 6 {
        0 => (rng.gen_range(-999i64..=999) as f64) / 10.0,
        1 => (rng.gen_range(-99i64..=99) as f64) / 3.0,
        2 => rng.gen_range(-1.0f64..1.0) * (2.0f64).powi(rng.gen_range(-30..=30)),
        3 => [0.0, -0.0, 1.0, -1.0, 0.5, 3.0, 0.1, 1e-3, 1e6, 7.0][rng.gen_range(0..10)],
        4 => rng.gen_range(-9i64..=9) as f64,
        _ => rng.gen_range(1.0f64..2.0) * [1.0, -1.0][rng.gen_range(0..2)],
    }
}
/// bits with the sign of a zero dropped (the definition fixes the value, not the sign of a zero)
fn zbits(x: f64) -> String { bits(if x == 0.0 { 0.0 } else { x }) }
fn jbits(m: &Matrix<f64>) -> Value { let mut d = vec![]; for i in 0..m.rows() { for j in 0..m.cols() { d.push(Value::from(zbits(m[(i, j)]))); } } Value::from(d) }
/// Every entrywise operator of Matrix<f64> on general (inexact) values: each result entry must be the ONE
/// IEEE operation of the definition applied to the operand entries, bit for bit.
pub fn run_bits(case: &Value, out: &mut Out) {
    let cid = geti(case, "cid"); let (r, c) = (getu(case, "r"), getu(case, "c"));
    let mut rng = rng(geti(case, "vseed") as u64, 77);
    let class = getu(case, "class");
    let mut a = Matrix::<f64>::new(r, c, 0.0); let mut b = Matrix::<f64>::new(r, c, 0.0);
    for i in 0..r { for j in 0..c { a[(i, j)] = genf(&mut rng, class + i + j); b[(i, j)] = genf(&mut rng, class + 2 * i + j + 1); } }
    let s = match getu(case, "sk") { 0 => 3.0, 1 => 10.0, 2 => 0.1, 3 => 7.0, 4 => 1.0 / 3.0, 5 => -5.0, 6 => 0.75, 7 => 1e-3, 8 => 4.0, 9 => -1.0, 10 => 1.0, _ => { let x = genf(&mut rng, class); if x == 0.0 { 1.5 } else { x } } };
    let names = ["add", "sub", "neg", "mul_scalar", "lmul_scalar", "div_scalar", "add_assign", "sub_assign", "mul_assign", "div_assign", "add_scalar_assign", "sub_scalar_assign"];
    for (k, name) in names.iter().enumerate() { for form in ["ref", "own"] {
        let assign = name.ends_with("_assign");
        if form == "own" && matches!(*name, "lmul_scalar" | "mul_assign" | "div_assign" | "add_scalar_assign" | "sub_scalar_assign") { continue; }
        let f: fn(f64, f64, f64) -> f64 = match *name { "add" | "add_assign" => |x, y, _| x + y, "sub" | "sub_assign" => |x, y, _| x - y, "neg" => |x, _, _| -x,
            "mul_scalar" | "lmul_scalar" | "mul_assign" => |x, _, s| x * s, "div_scalar" | "div_assign" => |x, _, s| x / s, "add_scalar_assign" => |x, _, s| x + s, _ => |x, _, s| x - s };
        let mut want = Matrix::<f64>::new(r, c, 0.0); for i in 0..r { for j in 0..c { want[(i, j)] = f(a[(i, j)], b[(i, j)], s); } }
        let own = form == "own";
        let mut live = a.clone();
        let res = guarded(|| -> Matrix<f64> { match *name {
            "add" => if own { live.clone() + b.clone() } else { &live + &b }, "sub" => if own { live.clone() - b.clone() } else { &live - &b },
            "neg" => if own { -(live.clone()) } else { -&live }, "mul_scalar" => if own { live.clone() * s } else { &live * s }, "lmul_scalar" => s * live.clone(),
            "div_scalar" => if own { live.clone() / s } else { &live / s },
            "add_assign" => { if own { live += b.clone() } else { live += &b }; live.clone() } "sub_assign" => { if own { live -= b.clone() } else { live -= &b }; live.clone() }
            "mul_assign" => { live *= s; live.clone() } "div_assign" => { live /= s; live.clone() }
            "add_scalar_assign" => { live += s; live.clone() } _ => { live -= s; live.clone() } } });
        let (panic, got, gr, gc) = match &res { Ok(m) => (false, jbits(m), m.rows(), m.cols()), Err(_) => (true, json!([]), 0, 0) };
        // the operand of a non-assigning form must be left as it was
        let keep = assign || jbits(&live) == jbits(&a);
        out.ev(json!({"op": "ew_bits", "name": name, "form": form, "ty": "f64", "cid": cid, "k": k, "r": r, "c": c, "gr": gr, "gc": gc, "panic": panic, "keep": keep,
            "got": got, "want": jbits(&want), "sbits": bits(s)}));
    } }
}

// ------------------------------------------------------------------ the whole exponent axis
fn jmat_descaled(m: &Matrix<f64>, sc: f64) -> Value {
    let mut d = Vec::new(); for i in 0..m.rows() { for j in 0..m.cols() { d.push(f64::to_ri(&(m[(i, j)] / sc)).0); } }
    json!({"r": m.rows(), "c": m.cols(), "d": d})
}
/// Small-integer operands scaled by 2^k: every operation is exactly homogeneous, so the descaled result must be the
/// integer result of the model (events in the ordinary format, pre = the integer operand).
pub fn run_scale(case: &Value, out: &mut Out) {
    let cid = geti(case, "cid"); let k = geti(case, "k") as i32; let sc = (2.0f64).powi(k);
    let base = f64mat_from(&case["base"]); let (r, c) = (base.rows(), base.cols());
    let mut a = base.clone(); for i in 0..r { for j in 0..c { a[(i, j)] = base[(i, j)] * sc; } }
    let pre = jmat(&base, Part::Re);
    let f2 = |x: f64| -> i64 { f64::to_ri(&(x / sc)).0 };
    let mut kk = 0usize;
    let mut emit = |out: &mut Out, mut e: Value, a: &Matrix<f64>, panic: bool| { e["ty"] = json!("f64"); e["cid"] = json!(cid); e["k"] = json!(kk); kk += 1; e["pre"] = pre.clone(); e["post"] = jmat_descaled(a, sc); e["panic"] = json!(panic); e["exp"] = json!(k); out.ev(e); };
    for name in ["norm_1", "norm_inf", "norm_max"] {
        let v = guarded(|| match name { "norm_1" => a.norm_1(), "norm_inf" => a.norm_inf(), _ => a.norm_max() });
        emit(out, json!({"op": name, "ri": v.as_ref().map(|x| f2(*x)).unwrap_or(BAD)}), &a, v.is_err());
    }
    for p in [1i64, 2, 3] {
        // the definition's own intermediates (p-th powers and their sum) must stay inside the normal range
        if (k.unsigned_abs() as i64) * p > 900 { continue; }
        for frob in [0i64, 1] { if frob == 1 && p != 2 { continue; }
            let op = json!({"op": "norm_units", "p": p, "frob": frob});
            let so = guarded(|| step_f64(&a, &op).unwrap());
            let mut e = op.clone(); if let Ok(s) = &so { e["units"] = json!(s.units.unwrap()); } else { e["units"] = json!(SAT); }
            emit(out, e, &a, so.is_err()); }
    }
    let x = f64vec_from(&case["x"]); let b = f64mat_from(&case["b"]);
    let v = guarded(|| &a * &x); emit(out, json!({"op": "matvec", "form": "ref", "v": case["x"], "rv": v.as_ref().map(|v| Value::from(v.vec.iter().map(|t| f2(*t)).collect::<Vec<i64>>())).unwrap_or(json!([]))}), &a, v.is_err());
    let m = guarded(|| &a * &b); emit(out, json!({"op": "matmul", "form": "ref", "b": case["b"], "rm": m.as_ref().map(|m| jmat_descaled(m, sc)).unwrap_or(json!({"r": 0, "c": 0, "d": []}))}), &a, m.is_err());
    // both factors scaled in opposite directions: the product is the integer product itself
    let mut bs = b.clone(); let isc = (2.0f64).powi(-k); for i in 0..bs.rows() { for j in 0..bs.cols() { bs[(i, j)] = b[(i, j)] * isc; } }
    let m = guarded(|| a.clone() * bs.clone()); emit(out, json!({"op": "matmul", "form": "own", "b": case["b"], "rm": m.as_ref().map(|m| jmat(m, Part::Re)).unwrap_or(json!({"r": 0, "c": 0, "d": []}))}), &a, m.is_err());
    let m = guarded(|| &a + &a); emit(out, json!({"op": "add_self", "rm": m.as_ref().map(|m| jmat_descaled(m, sc)).unwrap_or(json!({"r": 0, "c": 0, "d": []}))}), &a, m.is_err());
    let m = guarded(|| -&a); emit(out, json!({"op": "neg", "form": "ref", "rm": m.as_ref().map(|m| jmat_descaled(m, sc)).unwrap_or(json!({"r": 0, "c": 0, "d": []}))}), &a, m.is_err());
    let m = guarded(|| a.transpose()); emit(out, json!({"op": "transpose", "rm": m.as_ref().map(|m| jmat_descaled(m, sc)).unwrap_or(json!({"r": 0, "c": 0, "d": []}))}), &a, m.is_err());
    let m = guarded(|| &a * 3.0); emit(out, json!({"op": "mul_scalar", "form": "ref", "s": 3, "rm": m.as_ref().map(|m| jmat_descaled(m, sc)).unwrap_or(json!({"r": 0, "c": 0, "d": []}))}), &a, m.is_err());
    let m = guarded(|| &a / sc); emit(out, json!({"op": "clone", "rm": m.as_ref().map(|m| jmat(m, Part::Re)).unwrap_or(json!({"r": 0, "c": 0, "d": []}))}), &a, m.is_err());   // A*2^k / 2^k = A
}

// ------------------------------------------------------------------ call-count independence
/// n calls of each operation on fixed inexact operands inside one process and thread; every call must return what the first did
pub fn run_soak(case: &Value, out: &mut Out) {
    let cid = geti(case, "cid"); let n = getu(case, "n");
    let mut a = Matrix::<f64>::new(3, 2, 0.0); let mut b = Matrix::<f64>::new(2, 3, 0.0);
    for i in 0..3 { for j in 0..2 { a[(i, j)] = 0.1 * (1 + 2 * i + j) as f64 - 0.35; b[(j, i)] = 1.0 / (3 + i + 4 * j) as f64; } }
    let x = Vector::<f64>::create(vec![0.3, -0.7]);
    let names = ["transpose", "matmul", "matmul_own", "matvec", "norm_1", "norm_inf", "norm_max", "norm_frob", "norm_p3", "add", "sub", "neg", "mul_scalar", "div_scalar", "clone", "get_row", "get_col", "edit_cycle"];
    for (k, name) in names.iter().enumerate() {
        let call = |a: &Matrix<f64>| -> Vec<u64> {
            let mb = |m: Matrix<f64>| -> Vec<u64> { let mut v = vec![m.rows() as u64, m.cols() as u64]; for i in 0..m.rows() { for j in 0..m.cols() { v.push(m[(i, j)].to_bits()); } } v };
            match *name {
                "transpose" => mb(a.transpose()), "matmul" => mb(a * &b), "matmul_own" => mb(a.clone() * b.clone()), "matvec" => (a * &x).vec.iter().map(|t| t.to_bits()).collect(),
                "norm_1" => vec![a.norm_1().to_bits()], "norm_inf" => vec![a.norm_inf().to_bits()], "norm_max" => vec![a.norm_max().to_bits()], "norm_frob" => vec![a.norm_frob().to_bits()], "norm_p3" => vec![a.norm_p(3.0).to_bits()],
                "add" => mb(a + a), "sub" => mb(a.clone() - b.transpose()), "neg" => mb(-a), "mul_scalar" => mb(a * 0.7), "div_scalar" => mb(a / 0.7), "clone" => mb(a.clone()),
                "get_row" => a.get_row(2).vec.iter().map(|t| t.to_bits()).collect(), "get_col" => a.get_col(1).vec.iter().map(|t| t.to_bits()).collect(),
                _ => { let mut m = a.clone(); m.transpose_in_place(); m.resize(4, 4); m.swap_rows(0, 1); m.delete_row(3); m.fill_diag(0.3); m *= 1.7; m += 0.1; mb(m) }
            } };
        let first = guarded(|| call(&a));
        let (mut panics, mut diffs, mut firstbad) = (if first.is_err() { 1i64 } else { 0 }, 0i64, 0i64);
        let first = first.unwrap_or_default();
        for i in 1..n { match guarded(|| call(&a)) { Ok(v) => if v != first { diffs += 1; if firstbad == 0 { firstbad = i as i64; } }, Err(_) => { panics += 1; if firstbad == 0 { firstbad = i as i64; } } } }
        out.ev(json!({"op": "soak", "name": name, "ty": "f64", "cid": cid, "k": k, "n": n, "panics": panics.min(SAT), "diffs": diffs.min(SAT), "first": firstbad}));
    }
}

// ------------------------------------------------------------------ case generation
const TYS: [&str; 4] = ["rat", "f64", "cx", "i64"];

fn small(rng: &mut StdRng) -> i64 { rng.gen_range(-9..=9) }
fn idx(rng: &mut StdRng, n: usize, allow_bad: bool) -> i64 { if allow_bad && rng.gen_bool(0.12) { (n + rng.gen_range(0..3)) as i64 } else if n == 0 { 0 } else { rng.gen_range(0..n) as i64 } }

/// one random operation valid for a matrix of (tracked) shape r x c; returns the op and the new shape
fn rand_op(rng: &mut StdRng, r: usize, c: usize, cx: bool, f64ty: bool, doublings: &mut u32, bad: bool) -> (Value, usize, usize) {
    loop {
        let pick = rng.gen_range(0..46);
        let mut o: Value;
        let (mut nr, mut nc) = (r, c);
        match pick {
            0 => { let i = idx(rng, r, bad); let len = if bad && rng.gen_bool(0.1) { c + 1 } else { c }; o = json!({"op": "set_row", "i": i, "v": rand_vec_json(rng, len, -9, 9)}); if cx { o["vi"] = rand_vec_json(rng, len, -9, 9); } }
            1 => { let j = idx(rng, c, bad); let len = if bad && rng.gen_bool(0.1) { r + 1 } else { r }; o = json!({"op": "set_col", "j": j, "v": rand_vec_json(rng, len, -9, 9)}); if cx { o["vi"] = rand_vec_json(rng, len, -9, 9); } }
            2 => { let i = idx(rng, r, bad); o = json!({"op": "delete_row", "i": i}); if (i as usize) < r { nr = r - 1; } }
            3 => { o = json!({"op": "swap_rows", "i": idx(rng, r, bad), "i2": idx(rng, r, bad)}); }
            4 => { if r == 0 || c == 0 { continue; } o = json!({"op": "swap_elem", "i": idx(rng, r, false), "j": idx(rng, c, false), "i2": idx(rng, r, false), "j2": idx(rng, c, false)}); }
            5 | 6 => { if r == 0 || c == 0 { continue; } o = json!({"op": "set", "i": idx(rng, r, false), "j": idx(rng, c, false), "x": small(rng)}); if cx { o["xi"] = json!(small(rng)); } }
            7 | 8 => { nr = rng.gen_range(0..=8); nc = rng.gen_range(0..=8); o = json!({"op": "resize", "nr": nr, "nc": nc}); }
            9 | 10 => { o = json!({"op": "transpose_in_place"}); nr = c; nc = r; }
            11 => { if rng.gen_bool(0.7) { continue; } o = json!({"op": "clear"}); nr = 0; nc = 0; }
            12 => { o = json!({"op": "fill", "x": small(rng)}); if cx { o["xi"] = json!(small(rng)); } }
            13 => { o = json!({"op": "fill_diag", "x": small(rng)}); if cx { o["xi"] = json!(small(rng)); } }
            14 | 15 => { o = json!({"op": "fill_band", "off": rng.gen_range(-9..=9), "x": small(rng)}); if cx { o["xi"] = json!(small(rng)); } }
            16 => { o = json!({"op": "fill_tridiag", "lo": small(rng), "di": small(rng), "up": small(rng)}); if cx { o["loi"] = json!(small(rng)); o["dii"] = json!(small(rng)); o["upi"] = json!(small(rng)); } }
            17 => { o = json!({"op": "fill_row", "i": idx(rng, r, bad), "x": small(rng)}); if cx { o["xi"] = json!(small(rng)); } }
            18 => { o = json!({"op": "fill_col", "j": idx(rng, c, bad), "x": small(rng)}); if cx { o["xi"] = json!(small(rng)); } }
            19 | 20 => { let (br, bc) = if bad && rng.gen_bool(0.1) { (r + 1, c) } else { (r, c) };
                o = json!({"op": if pick == 19 { "add_assign" } else { "sub_assign" }, "form": (["own", "ref", "into"][rng.gen_range(0..3)]), "b": rand_mat_json(rng, br, bc, -9, 9)});
                if cx { o["bi"] = rand_mat_json(rng, br, bc, -9, 9); } }
            21 => { let s = [-1i64, 0, 1, 2, -2][rng.gen_range(0..5)]; if s.abs() == 2 { if *doublings >= 8 { continue; } *doublings += 1; } o = json!({"op": "mul_assign", "s": s, "form": if rng.gen_bool(0.3) { "into" } else { "ref" }}); }
            22 => { o = json!({"op": "div_assign", "s": if rng.gen_bool(0.5) { 1 } else { -1 }, "form": if rng.gen_bool(0.3) { "into" } else { "ref" }}); }
            23 => { o = json!({"op": "add_scalar_assign", "s": small(rng)}); if cx { o["si"] = json!(small(rng)); } }
            24 => { o = json!({"op": "sub_scalar_assign", "s": small(rng)}); if cx { o["si"] = json!(small(rng)); } }
            25 => { o = json!({"op": "get_row", "i": idx(rng, r, bad)}); }
            26 => { o = json!({"op": "get_col", "j": idx(rng, c, bad)}); }
            27 => { if r == 0 || c == 0 { continue; } o = json!({"op": "get", "i": idx(rng, r, false), "j": idx(rng, c, false)}); }
            28 => { o = json!({"op": (["rows", "cols", "numel"][rng.gen_range(0..3)])}); }
            29 => { o = json!({"op": "clone"}); }
            30 => { o = json!({"op": "transpose"}); }
            31 => { o = json!({"op": "neg", "form": if rng.gen_bool(0.5) { "own" } else { "ref" }}); }
            32 | 33 => { let (br, bc) = if bad && rng.gen_bool(0.1) { (r, c + 1) } else { (r, c) };
                o = json!({"op": if pick == 32 { "add" } else { "sub" }, "form": if rng.gen_bool(0.5) { "own" } else { "ref" }, "b": rand_mat_json(rng, br, bc, -9, 9)});
                if cx { o["bi"] = rand_mat_json(rng, br, bc, -9, 9); } }
            34 => { o = json!({"op": "mul_scalar", "form": if rng.gen_bool(0.5) { "own" } else { "ref" }, "s": rng.gen_range(-3..=3)}); }
            35 => { o = json!({"op": "div_scalar", "form": if rng.gen_bool(0.5) { "own" } else { "ref" }, "s": if rng.gen_bool(0.5) { 1 } else { -1 }}); }
            36 | 37 => { let k = if bad && rng.gen_bool(0.1) { c + 1 } else { c }; let c2 = rng.gen_range(0..=8);
                o = json!({"op": "matmul", "form": if rng.gen_bool(0.5) { "own" } else { "ref" }, "b": rand_mat_json(rng, k, c2, -3, 3)});
                if cx { o["bi"] = rand_mat_json(rng, k, c2, -3, 3); } }
            38 | 39 => { let k = if bad && rng.gen_bool(0.1) { c + 1 } else { c };
                o = json!({"op": "matvec", "form": (["own", "ref", "method"][rng.gen_range(0..3)]), "v": rand_vec_json(rng, k, -3, 3)});
                if cx { o["vi"] = rand_vec_json(rng, k, -3, 3); } }
            40 if rng.gen_bool(0.35) => {
                // the live object consumed by a by-value operator (negation, product), the result taking its place
                if rng.gen_bool(0.5) { o = json!({"op": "neg_assign"}); }
                else { if *doublings + 3 > 8 { continue; } *doublings += 3; let k = if bad && rng.gen_bool(0.1) { c + 1 } else { c }; let c2 = rng.gen_range(0..=8);
                    o = json!({"op": "matmul_assign", "b": rand_mat_json(rng, k, c2, -1, 1)}); if cx { o["bi"] = rand_mat_json(rng, k, c2, 0, 0); } if k == c { nc = c2; } }
            }
            40 => { o = if rng.gen_bool(0.4) { json!({"op": "eye", "n": rng.gen_range(0..=8)}) } else { json!({"op": (["add_self", "sub_self", "matmul_self"][rng.gen_range(0..3)])}) }; }
            41 if rng.gen_bool(0.5) => {
                match rng.gen_range(0..3) {
                    0 => { let (br, bc) = (rng.gen_range(0..=8usize), rng.gen_range(0..=8usize)); o = json!({"op": "clone_from", "b": rand_mat_json(rng, br, bc, -9, 9)}); if cx { o["bi"] = rand_mat_json(rng, br, bc, -9, 9); } nr = br; nc = bc; }
                    1 => { let n = r * c; let shapes: Vec<(usize, usize)> = (0..=n.max(1)).flat_map(|a| (0..=n.max(1)).map(move |b| (a, b))).filter(|(a, b)| a * b == n && *a <= 64 && *b <= 64).collect();
                           let (a, b) = shapes[rng.gen_range(0..shapes.len())]; o = json!({"op": "eq_reshape", "nr": a, "nc": b}); }
                    // offsets far outside the matrix (the band is empty); the ends of the isize range are not generated: the property
                    // quantifies over shapes, and the unchanged crate itself overflows in `row + offset` at isize::MAX
                    _ => { let off = [-1000i64, 1000, -64, 64, -536870912, 536870911][rng.gen_range(0..6)] / if rng.gen_bool(0.5) { 1 } else { 4 }; o = json!({"op": "fill_band", "off": off, "x": small(rng)}); if cx { o["xi"] = json!(small(rng)); } }
                }
            }
            41 => { o = json!({"op": "new", "nr": rng.gen_range(0..=8), "nc": rng.gen_range(0..=8), "x": small(rng)}); if cx { o["xi"] = json!(small(rng)); } }
            42 => { if !f64ty { continue; } o = json!({"op": "norm_1"}); }
            43 => { if !f64ty { continue; } o = json!({"op": "norm_inf"}); }
            44 => { if !f64ty { continue; } o = if rng.gen_bool(0.5) { json!({"op": "norm_max"}) } else if rng.gen_bool(0.8) { json!({"op": "lmul_scalar", "s": rng.gen_range(-3..=3)}) } else { json!({"op": "empty"}) }; }
            _ => { if !f64ty { continue; } let frob = rng.gen_bool(0.3); o = json!({"op": "norm_units", "p": rng.gen_range(1..=6), "frob": if frob { 1 } else { 0 }}); }
        }
        return (o, nr, nc);
    }
}

pub fn gen(tier: &str, seed: u64, out: &mut Out) {
    let quick = tier == "quick";
    let mut rng = rng(seed, 3);
    let mut cid = 0i64;
    let mut push = |out: &mut Out, mut c: Value| { cid += 1; c["cid"] = json!(cid); c["suite"] = json!("dense"); out.raw(&c); };
    // (a) every product shape r x k times k x c, 0..8, exhaustively; element type rotates (all four in thorough)
    for r in 0..=8usize { for k in 0..=8usize { for c in 0..=8usize {
        let tys: Vec<&str> = if quick { vec![TYS[(r + k + c) % 4]] } else { TYS.to_vec() };
        for ty in tys {
            let cx = ty == "cx";
            let mut op = json!({"op": "matmul", "form": if (r + c) % 2 == 0 { "ref" } else { "own" }, "b": rand_mat_json(&mut rng, k, c, -5, 5)});
            let mut case = json!({"ty": ty, "init": rand_mat_json(&mut rng, r, k, -5, 5)});
            if cx { op["bi"] = rand_mat_json(&mut rng, k, c, -5, 5); case["initi"] = rand_mat_json(&mut rng, r, k, -5, 5); }
            let mut ops = vec![op];
            // matrix-vector product on the same operand
            let mut mv = json!({"op": "matvec", "form": (["own", "ref", "method"][(r + k) % 3]), "v": rand_vec_json(&mut rng, k, -5, 5)});
            if cx { mv["vi"] = rand_vec_json(&mut rng, k, -5, 5); }
            ops.push(mv);
            case["ops"] = Value::from(ops);
            push(out, case);
        }
    } } }
    // (b) every shape r x c, 0..8: a history touching every operation
    let reps = if quick { 1 } else { 4 };
    for r in 0..=8usize { for c in 0..=8usize { for rep in 0..reps {
        let ty = TYS[(r * 9 + c + rep) % 4]; let cx = ty == "cx";
        let mut case = json!({"ty": ty, "init": rand_mat_json(&mut rng, r, c, -9, 9)});
        if cx { case["initi"] = rand_mat_json(&mut rng, r, c, -9, 9); }
        let (mut cr, mut cc) = (r, c); let mut ops = vec![]; let mut dbl = 0u32;
        for _ in 0..40 { let (o, nr, nc) = rand_op(&mut rng, cr, cc, cx, ty == "f64", &mut dbl, true);
            // keep the shape (so that the whole history exercises THIS shape) except through transposes
            let name = gets(&o, "op"); if matches!(name, "resize" | "clear" | "delete_row") { continue; }
            ops.push(o); cr = nr; cc = nc; }
        case["ops"] = Value::from(ops);
        push(out, case);
    } } }
    // (c) long random histories
    let nh = if quick { 24 } else { 400 };
    for h in 0..nh {
        let ty = TYS[h % 4]; let cx = ty == "cx";
        let (r, c) = (rng.gen_range(0..=8usize), rng.gen_range(0..=8usize));
        let mut case = json!({"ty": ty, "init": rand_mat_json(&mut rng, r, c, -9, 9)});
        if cx { case["initi"] = rand_mat_json(&mut rng, r, c, -9, 9); }
        let (mut cr, mut cc) = (r, c); let mut ops = vec![]; let mut dbl = 0u32;
        let len = rng.gen_range(50..=200);
        for _ in 0..len { let (o, nr, nc) = rand_op(&mut rng, cr, cc, cx, ty == "f64", &mut dbl, true); ops.push(o); cr = nr; cc = nc; }
        case["ops"] = Value::from(ops);
        push(out, case);
    }
    // (e) products with structured operands (identity, unit triangular, elementary, permutation, diagonal, zero) on either side:
    //     a fast path for "special" factors must still be the product
    let special = |rng: &mut StdRng, n: usize, kind: usize| -> Value {
        let mut d = vec![0i64; n * n];
        let perm: Vec<usize> = { let mut p: Vec<usize> = (0..n).collect(); for i in (1..n).rev() { let j = rng.gen_range(0..=i); p.swap(i, j); } p };
        for i in 0..n { for j in 0..n { d[i * n + j] = match kind {
            0 => (i == j) as i64,                                                         // identity
            1 => if i == j { 1 } else if i > j { rng.gen_range(-3..=3) } else { 0 },        // unit lower triangular
            2 => if i == j { 1 } else if i < j { rng.gen_range(-3..=3) } else { 0 },        // unit upper triangular
            3 => if i == j { 1 } else if (i, j) == (n - 1, 0) || (i, j) == (0, n - 1) && n > 2 { 2 } else { 0 },  // elementary-like
            4 => (perm[i] == j) as i64,                                                   // permutation
            5 => if i == j { rng.gen_range(-3..=3) } else { 0 },                            // diagonal
            6 => if i == j { 1 } else if (i + j) % 2 == 1 && i < j { rng.gen_range(1..=3) } else { 0 }, // ones on the diagonal, one zero in every symmetric pair
            _ => 0 } } }
        json!({"r": n, "c": n, "d": d})
    };
    for n in 1..=8usize { for kind in 0..8usize { for side in 0..2 {
        let ty = TYS[(n + kind + side) % 4]; let cx = ty == "cx";
        let other = rng.gen_range(if quick { 1..=4usize } else { 0..=8usize });
        let sp = special(&mut rng, n, kind);
        let (init, b) = if side == 0 { (rand_mat_json(&mut rng, other, n, -5, 5), sp) } else { (sp, rand_mat_json(&mut rng, n, other, -5, 5)) };
        let mut case = json!({"ty": ty, "init": init});
        let mut op = json!({"op": "matmul", "form": if (n + kind) % 2 == 0 { "ref" } else { "own" }, "b": b});
        if cx { case["initi"] = json!({"r": case["init"]["r"], "c": case["init"]["c"], "d": vec![0i64; case["init"]["d"].as_array().unwrap().len()]});
                op["bi"] = json!({"r": op["b"]["r"], "c": op["b"]["c"], "d": vec![0i64; op["b"]["d"].as_array().unwrap().len()]}); }
        let mut ops = vec![op];
        if side == 1 { let mut mv = json!({"op": "matvec", "form": "ref", "v": rand_vec_json(&mut rng, n, -5, 5)}); if cx { mv["vi"] = rand_vec_json(&mut rng, n, -5, 5); } ops.push(mv); ops.push(json!({"op": "matmul_self"})); }
        case["ops"] = Value::from(ops);
        push(out, case);
    } } }
    // (f) all-zero (non-empty) matrices reached in several ways, then every norm: 0, never NaN
    for r in 1..=8usize { for c in 1..=8usize {
        if quick && (r + c) % 3 != 0 && r != c { continue; }
        let zero_first = (r + c) % 2 == 0;
        let init = if zero_first { json!({"r": r, "c": c, "d": vec![0i64; r * c]}) } else { rand_mat_json(&mut rng, r, c, -9, 9) };
        let mut ops: Vec<Value> = vec![];
        if !zero_first { ops.push([json!({"op": "fill", "x": 0}), json!({"op": "mul_assign", "s": 0})][(r + c) % 2 % 2].clone()); ops.push(json!({"op": "sub_self"})); }
        for o in ["norm_1", "norm_inf", "norm_max"] { ops.push(json!({"op": o})); }
        for p in [1, 2, 3, 6] { ops.push(json!({"op": "norm_units", "p": p, "frob": 0})); }
        ops.push(json!({"op": "norm_units", "p": 2, "frob": 1}));
        // a single non-zero entry, then the norms again
        ops.push(json!({"op": "set", "i": r - 1, "j": c - 1, "x": -7}));
        for p in [1, 2, 5] { ops.push(json!({"op": "norm_units", "p": p, "frob": 0})); }
        ops.push(json!({"op": "norm_units", "p": 2, "frob": 1})); ops.push(json!({"op": "norm_max"}));
        push(out, json!({"ty": "f64", "init": init, "ops": ops}));
    } }
    // (f2) LARGE exponents of the entrywise p-norm on matrices whose entries are 0 / +-1 (several entries tie for the maximum):
    //      every |a|^p is exact for every p, so the definition gives (number of non-zeros)^(1/p) without any overflow;
    //      a shortcut "p large => max norm" is wrong by ln(k)/p here (2e-9 at p = 1e9 against a guard of a few hundred eps)
    for r in 1..=8usize { for c in 1..=8usize {
        if quick && (r + 2 * c) % 3 != 0 && r != c { continue; }
        let init = rand_mat_json(&mut rng, r, c, -1, 1);
        let mut ops: Vec<Value> = vec![];
        for p in [7i64, 64, 1000, 1_000_000, 100_000_000, 1_000_000_000] { ops.push(json!({"op": "norm_units", "p": p, "frob": 0})); }
        ops.push(json!({"op": "fill", "x": -1}));
        for p in [33i64, 99_999_999, 100_000_001, 2_000_000_000] { ops.push(json!({"op": "norm_units", "p": p, "frob": 0})); }
        ops.push(json!({"op": "norm_max"}));
        push(out, json!({"ty": "f64", "init": init, "ops": ops}));
    } }
    // (g) every norm and every read-only view after every shape-changing operation (stale storage left behind by
    //     delete_row / resize / clear / transpose must never be counted)
    for r in 1..=8usize { for c in 1..=8usize {
        if quick && (r * 3 + c) % 4 != 0 { continue; }
        let init = rand_mat_json(&mut rng, r, c, -9, 9);
        let norms = |ops: &mut Vec<Value>, rng: &mut StdRng| {
            for o in ["norm_1", "norm_inf", "norm_max", "numel", "rows", "cols", "clone", "transpose"] { ops.push(json!({"op": o})); }
            ops.push(json!({"op": "norm_units", "p": rng.gen_range(1..=4), "frob": 0})); ops.push(json!({"op": "norm_units", "p": 2, "frob": 1}));
            ops.push(json!({"op": "add_self"}));
        };
        let mut ops: Vec<Value> = vec![];
        let (mut cr, mut cc) = (r, c);
        norms(&mut ops, &mut rng);
        // make the LAST row the largest so that a stale copy of it dominates the max norm
        ops.push(json!({"op": "fill_row", "i": cr - 1, "x": 40}));
        for _ in 0..3 { if cr == 0 { break; } let i = rng.gen_range(0..cr); ops.push(json!({"op": "delete_row", "i": i})); cr -= 1; norms(&mut ops, &mut rng); }
        let (nr, nc) = (rng.gen_range(0..=cr + 1), rng.gen_range(0..=cc)); ops.push(json!({"op": "resize", "nr": nr, "nc": nc})); cr = nr; cc = nc; norms(&mut ops, &mut rng);
        let (nr, nc) = (cr + rng.gen_range(0..=2), cc + rng.gen_range(0..=2)); ops.push(json!({"op": "resize", "nr": nr, "nc": nc})); cr = nr; cc = nc; norms(&mut ops, &mut rng);
        if cr > 0 && cc > 0 { ops.push(json!({"op": "fill", "x": -3})); ops.push(json!({"op": "delete_row", "i": 0})); norms(&mut ops, &mut rng); }
        ops.push(json!({"op": "transpose_in_place"})); norms(&mut ops, &mut rng);
        ops.push(json!({"op": "clear"})); norms(&mut ops, &mut rng);
        ops.push(json!({"op": "resize", "nr": 2, "nc": 3})); norms(&mut ops, &mut rng);
        push(out, json!({"ty": "f64", "init": init, "ops": ops}));
    } }
    // (h) unsigned element type (u32): every intermediate of an operation must stay inside the element type, so the
    //     histories keep all entries and results within 0..10^5 and any panic is a mismatch
    for h in 0..(if quick { 40 } else { 600 }) {
        let (r, c) = if h < 16 { (1 + h % 4, 1 + (h / 4) % 4) } else { (rng.gen_range(0..=6usize), rng.gen_range(0..=6usize)) };
        let d: Vec<i64> = (0..r * c).map(|_| rng.gen_range(5..=14)).collect();
        let (mut lo, mut hi, mut cr, mut cc) = (5i64, 14i64, r, c);
        let mut ops: Vec<Value> = vec![];
        let fm = |rng: &mut StdRng| if rng.gen_bool(0.5) { "own" } else { "ref" };
        let fm3 = |rng: &mut StdRng| ["own", "ref", "into"][rng.gen_range(0..3)];
        let matj = |rng: &mut StdRng, r: usize, c: usize, a: i64, b: i64| rand_mat_json(rng, r, c, a, b);
        for step in 0..(if quick { 24 } else { 60 }) {
            let pick = if step < 2 { 0 } else { rng.gen_range(0..24) };
            match pick {
                0 => { let s = rng.gen_range(0..=lo); ops.push(json!({"op": "sub_scalar_assign", "s": s})); lo -= s; hi -= s; }
                1 => { let s = rng.gen_range(0..=9); ops.push(json!({"op": "add_scalar_assign", "s": s})); lo += s; hi += s; }
                2 => { let s = rng.gen_range(0..=3); if hi * s > 50_000 { continue; } ops.push(json!({"op": "mul_assign", "s": s, "form": if rng.gen_bool(0.4) { "into" } else { "ref" }})); lo *= s; hi *= s; }
                3 => { ops.push(json!({"op": "div_assign", "s": 1})); }
                4 => { let b = matj(&mut rng, cr, cc, 0, lo.min(9)); ops.push(json!({"op": "sub_assign", "form": fm3(&mut rng), "b": b})); lo -= lo.min(9); }
                5 => { let b = matj(&mut rng, cr, cc, 0, 9); ops.push(json!({"op": "add_assign", "form": fm3(&mut rng), "b": b})); hi += 9; }
                6 => { let b = matj(&mut rng, cr, cc, 0, lo.min(9)); ops.push(json!({"op": "sub", "form": fm(&mut rng), "b": b})); }
                7 => { let b = matj(&mut rng, cr, cc, 0, 9); ops.push(json!({"op": "add", "form": fm(&mut rng), "b": b})); }
                8 => { let s = rng.gen_range(0..=3); ops.push(json!({"op": "mul_scalar", "form": fm(&mut rng), "s": s})); }
                9 => { ops.push(json!({"op": "div_scalar", "form": fm(&mut rng), "s": 1})); }
                10 => { if hi > 2_000 { continue; } let c2 = rng.gen_range(0..=4usize); let b = matj(&mut rng, cc, c2, 0, 3); ops.push(json!({"op": "matmul", "form": fm(&mut rng), "b": b})); }
                11 => { if hi > 2_000 { continue; } ops.push(json!({"op": "matvec", "form": (["own", "ref", "method"][rng.gen_range(0..3)]), "v": rand_vec_json(&mut rng, cc, 0, 3)})); }
                12 => { ops.push(json!({"op": "transpose_in_place"})); std::mem::swap(&mut cr, &mut cc); }
                13 => { ops.push(json!({"op": (["transpose", "clone", "add_self", "sub_self", "rows", "cols", "numel"][rng.gen_range(0..7)])})); }
                14 => { if cr != cc || hi > 100 { continue; } ops.push(json!({"op": "matmul_self"})); }
                15 => { if cr == 0 { continue; } ops.push(json!({"op": "set_row", "i": rng.gen_range(0..cr), "v": rand_vec_json(&mut rng, cc, lo, lo + 3)})); hi = hi.max(lo + 3); }
                16 => { if cc == 0 { continue; } ops.push(json!({"op": "set_col", "j": rng.gen_range(0..cc), "v": rand_vec_json(&mut rng, cr, lo, lo + 3)})); hi = hi.max(lo + 3); }
                17 => { let x = rng.gen_range(0..=9); ops.push(json!({"op": "fill", "x": x})); lo = x; hi = x; }
                18 => { if cr < 1 { continue; } ops.push(json!({"op": "swap_rows", "i": rng.gen_range(0..cr), "i2": rng.gen_range(0..cr)})); }
                19 => { let (nr, nc) = (rng.gen_range(0..=6usize), rng.gen_range(0..=6usize)); ops.push(json!({"op": "resize", "nr": nr, "nc": nc})); cr = nr; cc = nc; lo = 0; }
                20 => { if cr == 0 { continue; } ops.push(json!({"op": "delete_row", "i": rng.gen_range(0..cr)})); cr -= 1; }
                21 => { if cr == 0 { continue; } ops.push(json!({"op": "get_row", "i": rng.gen_range(0..cr)})); }
                22 => { if cc == 0 { continue; } ops.push(json!({"op": "get_col", "j": rng.gen_range(0..cc)})); }
                _ => { let x = rng.gen_range(lo..=lo + 5); ops.push(json!({"op": "fill_diag", "x": x})); hi = hi.max(x); }
            }
        }
        push(out, json!({"ty": "u32", "init": {"r": r, "c": c, "d": d}, "ops": ops}));
    }
    // (i) Matrix<f64> entrywise operators on general (inexact) values, bit for bit against the single IEEE operation
    let nb = if quick { 60 } else { 1200 };
    for h in 0..nb {
        let (r, c) = if h < 25 { (h % 5, h / 5) } else { (rng.gen_range(1..=5usize), rng.gen_range(1..=5usize)) };
        push(out, json!({"ty": "f64bits", "r": r, "c": c, "class": h % 6, "sk": h % 13, "vseed": rng.gen_range(1..1_000_000i64), "ops": []}));
    }
    // (j) the whole exponent axis: small-integer operands scaled by 2^k, every k (quick: a grid plus the places where
    //     squares and products of two entries leave the range)
    let mut ks: Vec<i64> = if quick { (-1000..=1000).step_by(8).collect() } else { (-1000..=1000).collect() };
    if quick { for t in [255i64, 256, 486, 487, 500, 511, 512, 513, 537, 538, 600, 767, 768, 900, 999] { ks.push(t); ks.push(-t); } }
    for k in ks {
        let (r, c) = (rng.gen_range(1..=4usize), rng.gen_range(1..=4usize)); let c2 = rng.gen_range(1..=3usize);
        push(out, json!({"ty": "f64scale", "k": k, "base": rand_mat_json(&mut rng, r, c, -9, 9), "x": rand_vec_json(&mut rng, c, -5, 5), "b": rand_mat_json(&mut rng, c, c2, -5, 5), "ops": []}));
    }
    // (k) call-count independence (counters, sampled checks, wrap-around of generation marks): 2^16+64 / 2^20+64 calls
    push(out, json!({"ty": "f64soak", "n": if quick { 65_600 } else { 1_048_640 }, "ops": []}));
    // (l) products of two STRUCTURED operands (a fast path keyed on the structure of both factors must still be the product):
    //     symmetric, skew-symmetric, triangular, diagonal, tridiagonal, Toeplitz, circulant, rank one, all ones, and the
    //     transpose of the other factor -- every ordered pair of kinds, orders 2..6
    let structured = |rng: &mut StdRng, n: usize, kind: usize| -> Vec<i64> {
        let mut d = vec![0i64; n * n];
        let t: Vec<i64> = (0..2 * n).map(|_| rng.gen_range(-4..=4)).collect();
        let u: Vec<i64> = (0..n).map(|_| rng.gen_range(-3..=3)).collect(); let w: Vec<i64> = (0..n).map(|_| rng.gen_range(-3..=3)).collect();
        for i in 0..n { for j in 0..n { d[i * n + j] = match kind {
            0 => 0,                                                                                   // filled below: symmetric
            1 => 0,                                                                                   // skew-symmetric
            2 => if j >= i { rng.gen_range(-4..=4) } else { 0 },                                      // upper triangular
            3 => if j <= i { rng.gen_range(-4..=4) } else { 0 },                                      // lower triangular
            4 => if i == j { rng.gen_range(-4..=4) } else { 0 },                                      // diagonal
            5 => if (i as i64 - j as i64).abs() <= 1 { [1, -2, 1][(1 + j as i64 - i as i64) as usize] } else { 0 },   // second difference
            6 => t[n + i - j - 1 + 1 - 1],                                                            // Toeplitz
            7 => t[(n + j - i) % n],                                                                  // circulant
            8 => u[i] * w[j],                                                                         // rank one
            9 => 1,                                                                                   // all ones
            _ => rng.gen_range(-4..=4) } } }
        if kind == 0 || kind == 1 { for i in 0..n { for j in i..n { let v = rng.gen_range(-4..=4); d[i * n + j] = if kind == 1 && i == j { 0 } else { v }; d[j * n + i] = if kind == 1 { -d[i * n + j] } else { v }; } } }
        d
    };
    for n in 2..=6usize { for ka in 0..11usize { for kb in 0..11usize {
        if quick && (n + ka * 3 + kb) % 3 != 0 && !(ka <= 1 && kb <= 1) && !(ka == kb) { continue; }
        let ty = TYS[(n + ka + kb) % 4]; let cx = ty == "cx";
        let a = structured(&mut rng, n, ka);
        // kind 10 for the second operand: the transpose of the first
        let b = if kb == 10 { let mut t = vec![0i64; n * n]; for i in 0..n { for j in 0..n { t[i * n + j] = a[j * n + i]; } } t } else { structured(&mut rng, n, kb) };
        let mut case = json!({"ty": ty, "init": {"r": n, "c": n, "d": a}});
        let mk = |form: &str, b: &Vec<i64>| { let mut o = json!({"op": "matmul", "form": form, "b": {"r": n, "c": n, "d": b}}); if cx { o["bi"] = json!({"r": n, "c": n, "d": vec![0i64; n * n]}); } o };
        if cx { case["initi"] = json!({"r": n, "c": n, "d": vec![0i64; n * n]}); }
        let mut ops = vec![mk("ref", &b), mk("own", &b), json!({"op": "matmul_self"})];
        let mut mv = json!({"op": "matvec", "form": "ref", "v": rand_vec_json(&mut rng, n, -4, 4)}); if cx { mv["vi"] = rand_vec_json(&mut rng, n, -4, 4); } ops.push(mv);
        { let mut o = json!({"op": "add", "form": "ref", "b": {"r": n, "c": n, "d": b}}); if cx { o["bi"] = json!({"r": n, "c": n, "d": vec![0i64; n * n]}); } ops.push(o); }
        ops.push(json!({"op": "transpose"}));
        if !cx { let mut o = json!({"op": "matmul_assign", "b": {"r": n, "c": n, "d": b}}); o["form"] = json!("into"); ops.push(o); ops.push(json!({"op": "transpose"})); }
        case["ops"] = Value::from(ops);
        push(out, case);
    } } }
    // (m) TWO live matrices of the same type used alternately (state shared between instances instead of between calls):
    //     each keeps its own model state in the trace specification; also the element types f32 and i32
    for h in 0..(if quick { 36 } else { 400 }) {
        let ty = ["f64", "rat", "i64", "f32", "i32", "f64"][h % 6];
        let (r, c) = (rng.gen_range(0..=6usize), rng.gen_range(0..=6usize)); let (r2, c2) = if h % 3 == 0 { (r, c) } else { (rng.gen_range(0..=6usize), rng.gen_range(0..=6usize)) };
        let mut case = json!({"ty": ty, "init": rand_mat_json(&mut rng, r, c, -9, 9), "init2": rand_mat_json(&mut rng, r2, c2, -9, 9)});
        let mut sh = [(r, c), (r2, c2)]; let mut dbl = [0u32, 0u32]; let mut ops = vec![];
        for _ in 0..(if quick { 40 } else { 80 }) {
            let o = rng.gen_range(0..2usize);
            let (mut op, nr, nc) = rand_op(&mut rng, sh[o].0, sh[o].1, false, ty == "f64", &mut dbl[o], true);
            if o == 1 { op["obj"] = json!(2); }
            sh[o] = (nr, nc); ops.push(op);
        }
        case["ops"] = Value::from(ops);
        push(out, case);
    }
    // (n) the 40-operation history per shape again for f32 and i32
    for r in 0..=8usize { for c in 0..=8usize {
        if quick && (r + 2 * c) % 5 != 0 { continue; }
        let ty = if (r + c) % 2 == 0 { "f32" } else { "i32" };
        let mut case = json!({"ty": ty, "init": rand_mat_json(&mut rng, r, c, -9, 9)});
        let (mut cr, mut cc) = (r, c); let mut ops = vec![]; let mut dbl = 0u32;
        for _ in 0..40 { let (o, nr, nc) = rand_op(&mut rng, cr, cc, false, false, &mut dbl, true); ops.push(o); cr = nr; cc = nc; }
        case["ops"] = Value::from(ops);
        push(out, case);
    } }
    // (d) exact scalar division on multiples
    for _ in 0..(if quick { 20 } else { 200 }) {
        let ty = TYS[rng.gen_range(0..4)]; let s = [2i64, -2, 3, -3, 5, 7][rng.gen_range(0..6)];
        let (r, c) = (rng.gen_range(0..=6usize), rng.gen_range(0..=6usize));
        let d: Vec<i64> = (0..r * c).map(|_| s * rng.gen_range(-9..=9)).collect();
        let case = json!({"ty": ty, "init": {"r": r, "c": c, "d": d}, "ops": [{"op": "div_scalar", "form": "ref", "s": s}, {"op": "div_scalar", "form": "own", "s": s}, {"op": "div_assign", "s": s}]});
        push(out, case);
    }
}
