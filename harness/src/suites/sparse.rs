//! Suite "sparse": ohsl::Sparse construction / modification histories with all views (C06) and
//! products (C07).  A case is `{suite, cid, ty: "rat"|"f64", prop: "C06"|"C07", steps: [...]}`; steps:
//!   {"op":"from_triplets","arg":{"rows","cols","ts":[[i,j,v],..]}}   {"op":"from_vecs","arg":{"rows","cols","val","ri","cs"}}
//!   {"op":"insert","i","j","v"}   {"op":"scale","a"}   {"op":"transpose"}   {"op":"products","x","y","a"}
//!   {"op":"refuse","what":insert|get|multiply|transpose_multiply|from_triplets|from_vecs_bad, ...}  a call that must be refused
//!   {"op":"gap","x":<operation>,"n"}  n unlogged calls of the operation on small instances (workspace wrap-around)
//! After every construction / modification step the six public fields are projected (`f`); in C06 cases
//! also the four views: get on every position (`gp` present flags, `gv` values), to_triplets (`trip`),
//! to_dense (`dense`), col_index (`ci`).  A products event logs A x, A^T y, transpose() * y,
//! transpose()^T x, <y, A x> and <A^T y, x> (crate's Vector::dot), the products of a scaled copy, a repeated
//! multiply / transpose_multiply on the same object and the crate's dense route to_dense() * x, to_dense()^T * y.  Values are small integers
//! (exact in both element types).  `gen` tiers: "quick" / "thorough" (C06), "quick:c07" / "thorough:c07".
use crate::util::*;
use ohsl::{Sparse, Vector};
use rand::rngs::StdRng;
use rand::seq::SliceRandom;
use rand::Rng;
use serde_json::{json, Value};
use std::collections::BTreeMap;

const VIEW_LIMIT: usize = 64; // a (mutated) object claiming more rows/cols than this is not walked

fn us(x: usize) -> i64 { if (x as u128) < SAT as u128 { x as i64 } else { BAD } }
fn val_i<T: Elem>(x: &T) -> i64 { x.to_ri().0 }

fn jfields<T: Elem>(s: &Sparse<T>) -> Value {
    json!({"rows": us(s.rows), "cols": us(s.cols), "nz": us(s.nonzero),
           "val": s.val.iter().map(val_i).collect::<Vec<i64>>(),
           "ri": s.row_index.iter().map(|x| us(*x)).collect::<Vec<i64>>(),
           "cs": s.col_start.iter().map(|x| us(*x)).collect::<Vec<i64>>()})
}
fn no_fields() -> Value { json!({"rows": 0, "cols": 0, "nz": 0, "val": [], "ri": [], "cs": [0]}) }
fn same_fields(a: &Value, b: &Value) -> bool {
    ["rows", "cols", "nz"].iter().all(|k| a[*k].as_i64() == b[*k].as_i64()) && ["val", "ri", "cs"].iter().all(|k| ivec(&a[*k]) == ivec(&b[*k]))
}

fn triplets_from<T: Elem>(ts: &Value) -> Vec<(usize, usize, T)> {
    ts.as_array().map(|a| a.iter().map(|t| (t[0].as_i64().unwrap().max(0) as usize, t[1].as_i64().unwrap().max(0) as usize, T::from_ri(t[2].as_i64().unwrap(), 0))).collect()).unwrap_or_default()
}
fn usvec(v: &Value) -> Vec<usize> { ivec(v).iter().map(|x| (*x).max(0) as usize).collect() }
fn tvec<T: Elem>(v: &Value) -> Vec<T> { ivec(v).iter().map(|x| T::from_ri(*x, 0)).collect() }
/// vector components are integers, or the string "-0" (negative zero where the element type has one)
fn tvec_z<T: Elem>(v: &Value) -> Vec<T> {
    v.as_array().map(|a| a.iter().map(|x| match x.as_i64() { Some(n) => T::from_ri(n, 0), None => -T::from_ri(0, 0) }).collect()).unwrap_or_default()
}
fn jtv<T: Elem>(v: &Vector<T>) -> Value { Value::from(v.vec.iter().map(val_i).collect::<Vec<i64>>()) }
/// the four views of C06, each call on the real object
fn add_views<T: Elem>(s: &Sparse<T>, e: &mut Value) {
    e["views"] = json!(true);
    let r = guarded(|| {
        if s.rows > VIEW_LIMIT || s.cols > VIEW_LIMIT { panic!("shape out of any generated range"); }
        let (mut gp, mut gv) = (vec![], vec![]);
        for i in 0..s.rows { for j in 0..s.cols {
            match s.get(i, j) { Some(v) => { gp.push(1i64); gv.push(val_i(&v)); } None => { gp.push(0); gv.push(0); } }
        } }
        let trip: Vec<Value> = s.to_triplets().iter().map(|t| json!([us(t.0), us(t.1), val_i(&t.2)])).collect();
        let dense = jmat(&s.to_dense(), Part::Re);
        let ci: Vec<i64> = s.col_index().vec.iter().map(|x| us(*x)).collect();
        (gp, gv, trip, dense, ci)
    });
    match r {
        Ok((gp, gv, trip, dense, ci)) => {
            e["vpanic"] = json!(false);
            e["gp"] = json!({"r": us(s.rows), "c": us(s.cols), "d": gp}); e["gv"] = json!({"r": us(s.rows), "c": us(s.cols), "d": gv});
            e["trip"] = Value::from(trip); e["dense"] = dense; e["ci"] = Value::from(ci);
        }
        Err(_) => {
            e["vpanic"] = json!(true);
            let z = json!({"r": 0, "c": 0, "d": []});
            e["gp"] = z.clone(); e["gv"] = z.clone(); e["dense"] = z; e["trip"] = json!([]); e["ci"] = json!([]);
        }
    }
}

fn products<T: Elem>(s: &Sparse<T>, st: &Value, e: &mut Value) {
    let x = Vector::create(tvec::<T>(&st["x"])); let y = Vector::create(tvec::<T>(&st["y"])); let a = T::from_ri(geti(st, "a"), 0);
    let r = guarded(|| {
        let ax = s.multiply(&x);
        let aty = s.transpose_multiply(&y);
        // the same calls once more on the same object (a second call may take a different internal path)
        let ax2 = s.multiply(&x);
        let aty2 = s.transpose_multiply(&y);
        let t = s.transpose();
        let tax = t.multiply(&y);
        let ttx = t.transpose_multiply(&x);
        let mut s2 = Sparse::from_vecs(s.rows, s.cols, s.val.clone(), s.row_index.clone(), s.col_start.clone());
        s2.scale(&a);
        let sax = s2.multiply(&x);
        let saty = s2.transpose_multiply(&y);
        // both sides of the adjoint identity with the crate's own inner product
        let yax = val_i(&y.dot(&ax));
        let atyx = val_i(&aty.dot(&x));
        // the crate's dense route: to_dense() and Matrix * Vector
        let dm = s.to_dense();
        let dx = dm.multiply(&x);
        let dty = dm.transpose().multiply(&y);
        // battery of vectors with exact zeros (unit vectors, zeros first / last / alternating, a single
        // non-zero entry, all zero, negative zero): every kind of product on each pair
        let mut zr: Vec<Value> = vec![]; let mut zxp: Vec<Value> = vec![]; let mut zyp: Vec<Value> = vec![];
        let empty = vec![];
        let zxs = st.get("zx").and_then(|v| v.as_array()).unwrap_or(&empty);
        let zys = st.get("zy").and_then(|v| v.as_array()).unwrap_or(&empty);
        for (vx, vy) in zxs.iter().zip(zys.iter()) {
            let zx = Vector::create(tvec_z::<T>(vx)); let zy = Vector::create(tvec_z::<T>(vy));
            let (zax, zaty) = (s.multiply(&zx), s.transpose_multiply(&zy));
            zr.push(json!({"ax": jtv(&zax), "aty": jtv(&zaty), "tax": jtv(&t.multiply(&zy)), "ttx": jtv(&t.transpose_multiply(&zx)),
                           "sax": jtv(&s2.multiply(&zx)), "saty": jtv(&s2.transpose_multiply(&zy)),
                           "yax": val_i(&zy.dot(&zax)), "atyx": val_i(&zaty.dot(&zx))}));
            zxp.push(jtv(&zx)); zyp.push(jtv(&zy));
        }
        (yax, atyx, vec![jtv(&ax), jtv(&aty), jtv(&tax), jtv(&ttx), jtv(&sax), jtv(&saty), jtv(&ax2), jtv(&aty2), jtv(&dx), jtv(&dty)], zr, zxp, zyp)
    });
    const KEYS: [&str; 10] = ["ax", "aty", "tax", "ttx", "sax", "saty", "ax2", "aty2", "dx", "dty"];
    match r {
        Ok((yax, atyx, vs, zr, zxp, zyp)) => {
            e["panic"] = json!(false); e["yax"] = json!(yax); e["atyx"] = json!(atyx);
            for (k, v) in KEYS.iter().zip(vs.into_iter()) { e[*k] = v; }
            e["zr"] = Value::from(zr); e["zx"] = Value::from(zxp); e["zy"] = Value::from(zyp);   // logged as integers (-0 -> 0)
        }
        Err(_) => {
            e["panic"] = json!(true); e["yax"] = json!(0); e["atyx"] = json!(0);
            for k in KEYS { e[k] = json!([]); }
            e["zr"] = json!([]); e["zx"] = json!([]); e["zy"] = json!([]);
        }
    }
}

/// "gap" step: `n` calls of operation `x` on SMALL instances (at most 2 rows, 2 columns, 3 entries -- they never
/// touch the slots of a large instance beyond index 1/2) on this thread, nothing logged but the count.  Between
/// two uses of a large instance this realises an exact distance of n + 1 calls of `x`, the situation in which a
/// generation mark / small counter of a per-thread or static workspace wraps around.  x = "all": every operation
/// once per iteration.
fn gap_run<T: Elem>(x: &str, n: u64) -> Result<u64, String> {
    use std::hint::black_box;
    guarded(|| {
        let t = |v: i64| T::from_ri(v, 0);
        let mk = |k: u64| -> Sparse<T> { match k % 3 {
            0 => Sparse::from_vecs(2, 2, vec![t(3), t(-2), t(5)], vec![1, 0, 1], vec![0, 2, 3]),
            1 => Sparse::from_vecs(1, 2, vec![t(4)], vec![0], vec![0, 0, 1]),
            _ => Sparse::from_vecs(2, 1, vec![t(7), t(-1)], vec![0, 1], vec![0, 2]) } };
        let mut smalls: Vec<Sparse<T>> = (0..3).map(mk).collect();
        let xs: Vec<Vector<T>> = smalls.iter().map(|m| Vector::create((0..m.cols).map(|k| t(2 + k as i64)).collect())).collect();
        let ys: Vec<Vector<T>> = smalls.iter().map(|m| Vector::create((0..m.rows).map(|k| t(-3 + 5 * k as i64)).collect())).collect();
        let all = x == "all";
        let mut done = 0u64;
        for it in 0..n {
            let k = (it % 3) as usize;
            if all || x == "transpose" { black_box(smalls[k].transpose()); }
            if all || x == "multiply" { black_box(smalls[k].multiply(&xs[k])); }
            if all || x == "transpose_multiply" { black_box(smalls[k].transpose_multiply(&ys[k])); }
            if all || x == "get" { black_box(smalls[k].get(0, 0)); black_box(smalls[k].get(smalls[k].rows - 1, smalls[k].cols - 1)); }
            if all || x == "to_dense" { black_box(smalls[k].to_dense()); }
            if all || x == "to_triplets" { black_box(smalls[k].to_triplets()); black_box(smalls[k].col_index()); }
            if all || x == "scale" { smalls[k].scale(&t(-1)); }
            if all || x == "insert" { let (i, j) = (smalls[k].row_index[0], 0usize); let j = if smalls[k].col_start[1] > 0 { j } else { 1 }; smalls[k].insert(i, j, t(1 + (it % 7) as i64)); }
            if all || x == "insert_new" { let mut m = mk(it); let (i, j) = if k == 1 { (0, 0) } else if k == 0 { (0, 1) } else { (0, 0) }; if k == 2 { m = mk(1); } m.insert(i, j, t(6)); black_box(m.nonzero); }
            if all || x == "from_triplets" { let mut ts = smalls[k].to_triplets(); ts.reverse(); black_box(Sparse::from_triplets(smalls[k].rows, smalls[k].cols, &mut ts)); }
            done += 1;
        }
        done
    })
}

pub fn run<T: Elem>(case: &Value, out: &mut Out) {
    let cid = geti(case, "cid");
    let prop = if gets(case, "prop") == "C07" { "C07" } else { "C06" };
    let want_views = prop == "C06";
    let exp = case.get("exp").and_then(|v| v.as_array());
    let mut s: Option<Sparse<T>> = None;
    let mut nstate = 0usize;
    let steps = case["steps"].as_array().unwrap_or_else(|| { eprintln!("TOOL-ERROR sparse case without steps: {}", case); std::process::exit(2) });
    for (k, st) in steps.iter().enumerate() {
        let op = gets(st, "op").to_string();
        let mut e = st.clone();
        e["ty"] = json!(T::NAME); e["prop"] = json!(prop); e["cid"] = json!(cid); e["k"] = json!(k);
        if op == "gap" {
            let n = geti(st, "n").max(0) as u64;
            match gap_run::<T>(gets(st, "x"), n) { Ok(d) => { e["done"] = json!(d as i64); e["panic"] = json!(false); } Err(_) => { e["done"] = json!(0); e["panic"] = json!(true); } }
            out.ev(e);
            continue;
        }
        if op == "products" {
            match &s { Some(sp) => products(sp, st, &mut e), None => break }
            out.ev(e);
            continue;
        }
        let mut panicked = false;
        match op.as_str() {
            "from_triplets" => {
                let a = &st["arg"]; let (r, c) = (getu(a, "rows"), getu(a, "cols"));
                let mut ts = triplets_from::<T>(&a["ts"]);
                match guarded(|| Sparse::from_triplets(r, c, &mut ts)) { Ok(sp) => s = Some(sp), Err(_) => { s = None; panicked = true; } }
            }
            "from_vecs" => {
                let a = &st["arg"]; let (r, c) = (getu(a, "rows"), getu(a, "cols"));
                let (val, ri, cs) = (tvec::<T>(&a["val"]), usvec(&a["ri"]), usvec(&a["cs"]));
                match guarded(|| Sparse::from_vecs(r, c, val, ri, cs)) { Ok(sp) => s = Some(sp), Err(_) => { s = None; panicked = true; } }
            }
            "insert" | "scale" | "transpose" => {
                let sp = match s.as_mut() { Some(sp) => sp, None => break };   // no object (constructor panicked): the history ends
                match op.as_str() {
                    "insert" => { let (i, j, v) = (getu(st, "i"), getu(st, "j"), T::from_ri(geti(st, "v"), 0)); if guarded(|| sp.insert(i, j, v)).is_err() { panicked = true; } }
                    "scale" => { let a = T::from_ri(geti(st, "a"), 0); if guarded(|| sp.scale(&a)).is_err() { panicked = true; } }
                    _ => { match guarded(|| sp.transpose()) { Ok(t) => s = Some(t), Err(_) => panicked = true } }
                }
            }
            // a call that must be refused (arguments outside the accepted range), run under guarded(); the object
            // `s` is the same afterwards and is projected / viewed like after any other step
            "refuse" => {
                let sp = match s.as_mut() { Some(sp) => sp, None => break };
                let returned = match gets(st, "what") {
                    "insert" => { let (i, j, v) = (getu(st, "i"), getu(st, "j"), T::from_ri(geti(st, "v"), 0)); guarded(|| sp.insert(i, j, v)).is_ok() }
                    "get" => { let (i, j) = (getu(st, "i"), getu(st, "j")); guarded(|| { std::hint::black_box(sp.get(i, j)); }).is_ok() }
                    "multiply" => { let x = Vector::create(tvec::<T>(&st["x"])); guarded(|| { std::hint::black_box(sp.multiply(&x)); }).is_ok() }
                    "transpose_multiply" => { let x = Vector::create(tvec::<T>(&st["x"])); guarded(|| { std::hint::black_box(sp.transpose_multiply(&x)); }).is_ok() }
                    "from_triplets" => { let a = &st["arg"]; let (r, c) = (getu(a, "rows"), getu(a, "cols")); let mut ts = triplets_from::<T>(&a["ts"]);
                        guarded(|| { std::hint::black_box(Sparse::from_triplets(r, c, &mut ts).nonzero); }).is_ok() }
                    "from_vecs_bad" => { let a = &st["arg"]; let (r, c) = (getu(a, "rows"), getu(a, "cols"));
                        let (val, ri, cs) = (tvec::<T>(&a["val"]), usvec(&a["ri"]), usvec(&a["cs"]));
                        // inconsistent raw arrays: nothing is documented; the malformed temporary is exercised and dropped
                        let m = guarded(|| Sparse::from_vecs(r, c, val, ri, cs));
                        if let Ok(m) = &m {
                            let x = Vector::create(vec![T::from_ri(1, 0); c]);
                            let _ = guarded(|| { std::hint::black_box(m.transpose().nonzero); });
                            let _ = guarded(|| { std::hint::black_box(m.multiply(&x)); });
                            let _ = guarded(|| { std::hint::black_box(m.to_dense()); });
                            let _ = guarded(|| { std::hint::black_box(m.to_triplets()); });
                        }
                        m.is_ok() }
                    other => { eprintln!("TOOL-ERROR unknown refusal {}", other); std::process::exit(2) }
                };
                e["returned"] = json!(returned);
            }
            other => { eprintln!("TOOL-ERROR unknown sparse op {}", other); std::process::exit(2) }
        }
        e["panic"] = json!(panicked);
        e["obj"] = json!(s.is_some());
        e["views"] = json!(false);
        match &s {
            Some(sp) => {
                let f = jfields(sp);
                // informational only: does the storage order agree with the specification's transcription?
                if let Some(x) = exp { if let Some(w) = x.get(nstate) { e["conf"] = json!(if same_fields(&f, w) { 1 } else { 0 }); } }
                e["f"] = f;
                if want_views && !panicked { add_views(sp, &mut e); }
            }
            None => { e["f"] = no_fields(); }
        }
        nstate += 1;
        out.ev(e);
    }
}

pub fn exec(case: &Value, out: &mut Out) {
    match gets(case, "ty") { "rat" => run::<crate::rat::Rat>(case, out), "f64" => run::<f64>(case, out),
        t => { eprintln!("TOOL-ERROR unknown type {}", t); std::process::exit(2) } }
}

// ------------------------------------------------------------------ case generation
const TYS: [&str; 2] = ["rat", "f64"];

/// generator-side bookkeeping of the pattern (only to choose arguments; never an oracle)
struct Track { rows: usize, cols: usize, ent: BTreeMap<(usize, usize), i64>, growth: u32 }

/// non-zero entry value
fn nzval(rng: &mut StdRng) -> i64 { let v = rng.gen_range(1..=9); if rng.gen_bool(0.5) { -v } else { v } }
/// entry value that is an explicit zero now and then: the property fixes the VALUE at every position (every
/// view must report 0 there afterwards), not whether the zero is kept as a stored entry
fn zval(rng: &mut StdRng, p0: f64) -> i64 { if rng.gen_bool(p0) { 0 } else { nzval(rng) } }

/// random duplicate-free pattern with `n` entries (n <= r*c), values random
fn pattern(rng: &mut StdRng, r: usize, c: usize, n: usize) -> Vec<(usize, usize, i64)> {
    let mut all: Vec<(usize, usize)> = (0..r).flat_map(|i| (0..c).map(move |j| (i, j))).collect();
    all.shuffle(rng); all.truncate(n);
    all.into_iter().map(|(i, j)| (i, j, zval(rng, 0.08))).collect()
}
/// pattern confined to the given columns / rows (leaves empty columns and rows at either end)
fn pattern_in(rng: &mut StdRng, rows: &[usize], cols: &[usize], n: usize) -> Vec<(usize, usize, i64)> {
    let mut all: Vec<(usize, usize)> = rows.iter().flat_map(|i| cols.iter().map(move |j| (*i, *j))).collect();
    all.shuffle(rng); all.truncate(n);
    all.into_iter().map(|(i, j)| (i, j, zval(rng, 0.08))).collect()
}
fn jts(ts: &[(usize, usize, i64)]) -> Value { Value::from(ts.iter().map(|t| json!([t.0, t.1, t.2])).collect::<Vec<Value>>()) }
fn ctor_triplets(r: usize, c: usize, ts: &[(usize, usize, i64)]) -> Value { json!({"op": "from_triplets", "arg": {"rows": r, "cols": c, "ts": jts(ts)}}) }
/// well-formed compressed-column arrays of the entry set; the order inside each column is the order in `ts`
fn ctor_vecs(r: usize, c: usize, ts: &[(usize, usize, i64)]) -> Value {
    let (mut val, mut ri, mut cs) = (vec![], vec![], vec![0usize]);
    for j in 0..c { for t in ts.iter().filter(|t| t.1 == j) { val.push(t.2); ri.push(t.0); } cs.push(val.len()); }
    json!({"op": "from_vecs", "arg": {"rows": r, "cols": c, "val": val, "ri": ri, "cs": cs}})
}
fn track_of(r: usize, c: usize, ts: &[(usize, usize, i64)]) -> Track { Track { rows: r, cols: c, ent: ts.iter().map(|t| ((t.0, t.1), t.2)).collect(), growth: 0 } }
/// random constructor step for a random pattern on r x c
fn rand_ctor(rng: &mut StdRng, r: usize, c: usize) -> (Value, Track) {
    let cap = r * c;
    let n = if cap == 0 { 0 } else { match rng.gen_range(0..10) { 0 => 0, 1 => cap, 2 | 3 => rng.gen_range(0..=cap), _ => rng.gen_range(0..=cap.min(2 * (r + c))) } };
    let mut ts = pattern(rng, r, c, n);
    ts.shuffle(rng);
    let st = if rng.gen_bool(0.3) { ctor_vecs(r, c, &ts) } else { ctor_triplets(r, c, &ts) };
    (st, track_of(r, c, &ts))
}
/// pairwise distinct non-zero components
fn distinct_vec(rng: &mut StdRng, n: usize) -> Value {
    let mut pool: Vec<i64> = (-15..=15).filter(|v| *v != 0).collect(); pool.shuffle(rng); pool.truncate(n); Value::from(pool)
}
/// vectors of length n with exact zeros; `kind`: 0.. = zeros first / last / even / odd positions, single non-zero
/// entry, all zero, negative zeros ("-0") mixed with non-zero entries
fn zero_vec(rng: &mut StdRng, n: usize, kind: usize) -> Value {
    let base = ivec(&distinct_vec(rng, n));
    let single = if n > 0 { rng.gen_range(0..n) } else { 0 };
    Value::from((0..n).map(|k| {
        let z = match kind { 0 => k == 0, 1 => k + 1 == n, 2 => k % 2 == 0, 3 => k % 2 == 1, 4 => k != single, 5 => true, _ => k % 3 != 1 };
        if !z { json!(base[k]) } else if kind >= 6 { json!("-0") } else { json!(0) }
    }).collect::<Vec<Value>>())
}
fn unit_vec(n: usize, k: usize, v: i64) -> Value { Value::from((0..n).map(|i| if n > 0 && i == k % n { v } else { 0 }).collect::<Vec<i64>>()) }
/// the battery added to every products probe: e_k for every k (both vectors), then the seven zero patterns
fn zero_battery(rng: &mut StdRng, rows: usize, cols: usize) -> (Value, Value) {
    let (mut zx, mut zy) = (vec![], vec![]);
    for k in 0..rows.max(cols) { let v = if rng.gen_bool(0.5) { 1 } else { nzval(rng) }; zx.push(unit_vec(cols, k, v)); zy.push(unit_vec(rows, k, if v == 1 { 1 } else { nzval(rng) })); }
    for kind in 0..7 { zx.push(zero_vec(rng, cols, kind)); zy.push(zero_vec(rng, rows, kind)); }
    (Value::from(zx), Value::from(zy))
}
fn products_step(rng: &mut StdRng, t: &Track) -> Value {
    let a: i64 = [-3i64, -2, -1, 0, 2, 3][rng.gen_range(0..6)];
    let (zx, zy) = zero_battery(rng, t.rows, t.cols);
    json!({"op": "products", "x": distinct_vec(rng, t.cols), "y": distinct_vec(rng, t.rows), "a": a, "zx": zx, "zy": zy})
}
/// one modification of the given kind (0 insert new, 1 overwrite an existing entry with a DIFFERENT value,
/// 2 scale, 3 transpose); None when the kind is impossible in this state; updates the bookkeeping
fn mod_kind(rng: &mut StdRng, t: &mut Track, kind: u8) -> Option<Value> {
    match kind {
        0 => {
            let free: Vec<(usize, usize)> = (0..t.rows).flat_map(|i| (0..t.cols).map(move |j| (i, j))).filter(|p| !t.ent.contains_key(p)).collect();
            if free.is_empty() { return None; }
            let p = free[rng.gen_range(0..free.len())]; let v = zval(rng, 0.12); t.ent.insert(p, v);
            Some(json!({"op": "insert", "i": p.0, "j": p.1, "v": v}))
        }
        1 => {
            if t.ent.is_empty() { return None; }
            let keys: Vec<(usize, usize)> = t.ent.keys().cloned().collect();
            let p = keys[rng.gen_range(0..keys.len())];
            let old = t.ent[&p];
            let v = loop { let v = zval(rng, 0.25); if v != old { break v; } };
            t.ent.insert(p, v);
            Some(json!({"op": "insert", "i": p.0, "j": p.1, "v": v}))
        }
        2 => { // magnitude growth is bounded so that every number stays far inside 32 bits
            let a = loop { let a = [-1i64, 2, -2, 3, 1, 0][rng.gen_range(0..6)]; if a == 0 && rng.gen_bool(0.6) { continue; } if a.abs() > 1 && t.growth >= 5 { continue; } break a; };
            if a.abs() > 1 { t.growth += 1; }
            for v in t.ent.values_mut() { *v *= a; }
            Some(json!({"op": "scale", "a": a}))
        }
        _ => {
            let e: BTreeMap<(usize, usize), i64> = t.ent.iter().map(|(k, v)| ((k.1, k.0), *v)).collect();
            t.ent = e; std::mem::swap(&mut t.rows, &mut t.cols);
            Some(json!({"op": "transpose"}))
        }
    }
}
/// one random modification
fn rand_mod(rng: &mut StdRng, t: &mut Track) -> Value {
    loop {
        let kind = match rng.gen_range(0..10) { 0..=3 => 0, 4 | 5 => 1, 6 | 7 => 2, _ => 3 };
        if let Some(v) = mod_kind(rng, t, kind) { return v; }
    }
}
/// a fixed skeleton in which every kind of modification is preceded and followed by every other kind:
/// scale and transpose follow inserts of new entries, overwrites follow products on the same object
const SKELETON: [u8; 10] = [0, 2, 0, 3, 1, 1, 2, 3, 0, 1];

/// history centred on explicit zeros: overwrite an existing entry with 0, insert a new 0, scale by 0,
/// transposes in between (a stored zero must survive or vanish consistently), then non-zero values again.
/// `with_products` interleaves products events (C07).
fn zero_history(rng: &mut StdRng, r: usize, c: usize, with_products: bool) -> Vec<Value> {
    let cap = r * c;
    let n = rng.gen_range(1..=cap.min(r + c + 2));
    let mut ts: Vec<(usize, usize, i64)> = pattern(rng, r, c, n).into_iter().map(|t| (t.0, t.1, if t.2 == 0 { 5 } else { t.2 })).collect();
    ts.shuffle(rng);
    let mut t = track_of(r, c, &ts);
    let mut steps = vec![if rng.gen_bool(0.3) { ctor_vecs(r, c, &ts) } else { ctor_triplets(r, c, &ts) }];
    let pr = |rng: &mut StdRng, t: &Track, steps: &mut Vec<Value>| { if with_products { steps.push(products_step(rng, t)); } };
    let tr = |t: &mut Track, steps: &mut Vec<Value>| { let e: BTreeMap<(usize, usize), i64> = t.ent.iter().map(|(k, v)| ((k.1, k.0), *v)).collect(); t.ent = e; std::mem::swap(&mut t.rows, &mut t.cols); steps.push(json!({"op": "transpose"})); };
    let ins = |t: &mut Track, p: (usize, usize), v: i64, steps: &mut Vec<Value>| { t.ent.insert(p, v); steps.push(json!({"op": "insert", "i": p.0, "j": p.1, "v": v})); };
    // overwrite an existing entry with zero
    let keys: Vec<(usize, usize)> = t.ent.keys().cloned().collect();
    let p0 = keys[rng.gen_range(0..keys.len())];
    ins(&mut t, p0, 0, &mut steps); pr(rng, &t, &mut steps);
    if rng.gen_bool(0.5) { tr(&mut t, &mut steps); pr(rng, &t, &mut steps); }
    // a new entry whose value is zero
    let free: Vec<(usize, usize)> = (0..t.rows).flat_map(|i| (0..t.cols).map(move |j| (i, j))).filter(|p| !t.ent.contains_key(p)).collect();
    if !free.is_empty() { let p = free[rng.gen_range(0..free.len())]; ins(&mut t, p, 0, &mut steps); pr(rng, &t, &mut steps); }
    tr(&mut t, &mut steps); pr(rng, &t, &mut steps);
    // a non-zero value over a zero, then everything scaled by zero, then life goes on
    let zs: Vec<(usize, usize)> = t.ent.iter().filter(|(_, v)| **v == 0).map(|(k, _)| *k).collect();
    if !zs.is_empty() && rng.gen_bool(0.6) { let p = zs[rng.gen_range(0..zs.len())]; let v = nzval(rng); ins(&mut t, p, v, &mut steps); pr(rng, &t, &mut steps); }
    if rng.gen_bool(0.5) { for v in t.ent.values_mut() { *v = 0; } steps.push(json!({"op": "scale", "a": 0})); pr(rng, &t, &mut steps); }
    for _ in 0..3 { steps.push(rand_mod(rng, &mut t)); }
    pr(rng, &t, &mut steps);
    steps
}

/// raw compressed-column inputs whose columns are FULL (every row present) or which have a single column /
/// single row, with the rows of each column stored descending, rotated or in random order (never sorted):
/// `kind` 0 = n x 1, 1 = 1 x n, 2 = n x m all columns full, 3 = n x m with some full columns and others partial
fn column_order_case(rng: &mut StdRng, n: usize, m: usize, kind: usize, order: usize) -> (usize, usize, Vec<(usize, usize, i64)>) {
    let (r, c) = match kind { 0 => (n, 1), 1 => (1, n), _ => (n, m) };
    let mut ts: Vec<(usize, usize, i64)> = vec![];
    for j in 0..c {
        let full = kind != 3 || j % 2 == 0;
        let mut rows: Vec<usize> = (0..r).collect();
        if !full { rows.shuffle(rng); let k = rng.gen_range(0..=r); rows.truncate(k); rows.sort(); }
        match order {
            0 => rows.reverse(),                                                     // bottom to top
            1 => { let k = if rows.len() > 1 { rng.gen_range(1..rows.len()) } else { 0 }; rows.rotate_left(k); } // rotated
            _ => rows.shuffle(rng),
        }
        for i in rows { ts.push((i, j, nzval(rng))); }
    }
    (r, c, ts)
}
/// from_vecs on such an input, then overwrite / transpose / overwrite / new entry / scale; products in between for C07
fn column_order_history(rng: &mut StdRng, n: usize, m: usize, kind: usize, order: usize, with_products: bool) -> Vec<Value> {
    let (r, c, ts) = column_order_case(rng, n, m, kind, order);
    let mut t = track_of(r, c, &ts);
    let mut steps = vec![ctor_vecs(r, c, &ts)];
    if with_products { steps.push(products_step(rng, &t)); }
    for kind in [1u8, 1, 3, 1, 0, 2, 3] {
        if let Some(st) = mod_kind(rng, &mut t, kind) { steps.push(st); if with_products { steps.push(products_step(rng, &t)); } }
    }
    steps
}

/// gaps (distance in calls between two uses of the same large instance) at which 8- and 16-bit marks wrap
const GAPS: [u64; 8] = [255, 256, 257, 511, 512, 65535, 65536, 65537];
/// Workspace wrap-around case: a LARGE instance (variant 0: many rows, 1: many columns, 2: full = many entries),
/// and for every operation: use it on the large instance, G - 1 unlogged calls of that operation on small
/// instances (step "gap"), use it on the same large instance again.  C06: every use is a state event with all
/// views; C07: every use is a products probe (scale / insert additionally in-history).
fn gap_case(rng: &mut StdRng, c07: bool, variant: usize, g: u64, maxd: usize) -> Vec<Value> {
    let (r, c) = match variant { 0 => (maxd, 3), 1 => (3, maxd), _ => (maxd, maxd) };
    let n = if variant == 2 { r * c } else { r * c - 4 };
    let mut ts = pattern(rng, r, c, n).into_iter().map(|t| (t.0, t.1, if t.2 == 0 { 4 } else { t.2 })).collect::<Vec<_>>();
    ts.shuffle(rng);
    let mut t = track_of(r, c, &ts);
    let gap = |x: &str| json!({"op": "gap", "x": x, "n": g - 1});
    let cur = |t: &Track, rng: &mut StdRng| { let mut v: Vec<(usize, usize, i64)> = t.ent.iter().map(|(k, v)| (k.0, k.1, *v)).collect(); v.shuffle(rng); v };
    let mut steps = vec![ctor_triplets(r, c, &ts)];
    if c07 {
        steps.push(products_step(rng, &t));
        for x in ["transpose", "multiply", "transpose_multiply", "to_dense", "from_triplets", "all"] { steps.push(gap(x)); steps.push(products_step(rng, &t)); }
        for (x, kind) in [("scale", 2u8), ("insert", 1u8)] {
            for k in 0..2 { if let Some(m) = mod_kind(rng, &mut t, kind) { steps.push(m); steps.push(products_step(rng, &t)); } if k == 0 { steps.push(gap(x)); } }
        }
        // re-binding to transpose() on both sides of a gap
        steps.push(json!({"op": "transpose"})); std::mem::swap(&mut t.rows, &mut t.cols); t.ent = t.ent.iter().map(|(k, v)| ((k.1, k.0), *v)).collect();
        steps.push(json!({"op": "transpose"})); std::mem::swap(&mut t.rows, &mut t.cols); t.ent = t.ent.iter().map(|(k, v)| ((k.1, k.0), *v)).collect();
        steps.push(products_step(rng, &t));
    } else {
        let one = json!({"op": "scale", "a": 1});
        // transpose: the same large instance is rebuilt from its raw arrays before each transpose
        for k in 0..2 { let v = cur(&t, rng); steps.push(ctor_vecs(t.rows, t.cols, &v)); steps.push(json!({"op": "transpose"})); if k == 0 { steps.push(gap("transpose")); } }
        { let v = cur(&t, rng); steps.push(ctor_vecs(t.rows, t.cols, &v)); }
        for x in ["get", "to_dense", "to_triplets"] { steps.push(one.clone()); steps.push(gap(x)); steps.push(one.clone()); }
        for (x, kind) in [("scale", 2u8), ("insert", 1u8), ("insert_new", 0u8)] {
            if let Some(m) = mod_kind(rng, &mut t, kind) { steps.push(m); steps.push(gap(x)); }
            if let Some(m) = mod_kind(rng, &mut t, kind) { steps.push(m); }
        }
        for k in 0..2 { let v = cur(&t, rng); steps.push(ctor_triplets(t.rows, t.cols, &v)); if k == 0 { steps.push(gap("from_triplets")); } }
        steps.push(gap("all"));
        { let v = cur(&t, rng); steps.push(ctor_triplets(t.rows, t.cols, &v)); }
        steps.push(json!({"op": "transpose"})); std::mem::swap(&mut t.rows, &mut t.cols); t.ent = t.ent.iter().map(|(k, v)| ((k.1, k.0), *v)).collect();
        for kind in [1u8, 2, 0] { if let Some(m) = mod_kind(rng, &mut t, kind) { steps.push(m); } }
    }
    steps
}

/// number of kinds of refused calls produced by `refuse_step`
const REFUSALS: usize = 19;
/// a call that must be refused on an object of the tracked shape: 0-2 insert out of range (row / col / both),
/// 3-11 from_triplets with one bad triplet (row / col / both out of range) at the first / middle / last list
/// position after 0, 1 or many valid ones, 12-13 get out of range, 14-17 multiply / transpose_multiply with a
/// vector one too long / one too short, 18 from_vecs with inconsistent arrays
fn refuse_step(rng: &mut StdRng, t: &Track, kind: usize) -> Value {
    let (r, c) = (t.rows, t.cols);
    let inr = |rng: &mut StdRng, n: usize| if n == 0 { 0 } else { rng.gen_range(0..n) };
    match kind {
        0 => json!({"op": "refuse", "what": "insert", "i": r, "j": inr(rng, c), "v": nzval(rng)}),
        1 => json!({"op": "refuse", "what": "insert", "i": inr(rng, r), "j": c, "v": nzval(rng)}),
        2 => json!({"op": "refuse", "what": "insert", "i": r + rng.gen_range(0..2usize), "j": c + rng.gen_range(0..2usize), "v": nzval(rng)}),
        3..=11 => {
            let (bad, pos) = ((kind - 3) % 3, (kind - 3) / 3);
            let (fr, fc) = if rng.gen_bool(0.5) { (r, c) } else { (rng.gen_range(1..=8usize), rng.gen_range(1..=8usize)) };
            let cap = fr * fc;
            let nvalid = match rng.gen_range(0..3) { 0 => 0, 1 => 1.min(cap), _ => if cap == 0 { 0 } else { rng.gen_range(1..=cap) } };
            let mut ts = pattern(rng, fr, fc, nvalid); ts.shuffle(rng);
            let b = match bad { 0 => (fr, inr(rng, fc), nzval(rng)), 1 => (inr(rng, fr), fc, nzval(rng)), _ => (fr, fc, nzval(rng)) };
            let at = match pos { 0 => 0, 1 => ts.len() / 2, _ => ts.len() };
            ts.insert(at, b);
            json!({"op": "refuse", "what": "from_triplets", "arg": {"rows": fr, "cols": fc, "ts": jts(&ts)}})
        }
        12 => json!({"op": "refuse", "what": "get", "i": r, "j": inr(rng, c)}),
        13 => json!({"op": "refuse", "what": "get", "i": inr(rng, r), "j": c}),
        14 => json!({"op": "refuse", "what": "multiply", "x": distinct_vec(rng, c + 1)}),
        15 => json!({"op": "refuse", "what": "multiply", "x": distinct_vec(rng, if c > 0 { c - 1 } else { 2 })}),
        16 => json!({"op": "refuse", "what": "transpose_multiply", "x": distinct_vec(rng, r + 1)}),
        17 => json!({"op": "refuse", "what": "transpose_multiply", "x": distinct_vec(rng, if r > 0 { r - 1 } else { 2 })}),
        _ => {
            let (fr, fc) = (rng.gen_range(1..=6usize), rng.gen_range(1..=6usize));
            let nn = rng.gen_range(1..=fr * fc); let mut ts = pattern(rng, fr, fc, nn); ts.shuffle(rng);
            let mut st = ctor_vecs(fr, fc, &ts);
            let a = st["arg"].as_object_mut().unwrap();
            let mut val = ivec(&a["val"]); let mut ri = ivec(&a["ri"]); let mut cs = ivec(&a["cs"]);
            match rng.gen_range(0..4) { 0 => { val.pop(); } 1 => { ri[0] = fr as i64 + 1; } 2 => { cs[fc] += 2; } _ => { cs.swap(0, fc); } }
            json!({"op": "refuse", "what": "from_vecs_bad", "arg": {"rows": fr, "cols": fc, "val": val, "ri": ri, "cs": cs}})
        }
    }
}
/// "poison" history: after every refused call (run under guarded, same thread) the SAME object is observed
/// (views / products: it must still be the unchanged matrix), then a fresh assembly of the same shape, one of a
/// different shape and an insert sequence follow -- each judged as usual (a fault may heal after one call).
fn poison_case(rng: &mut StdRng, c07: bool, maxd: usize, first_kind: usize, nkinds: usize) -> Vec<Value> {
    let (r, c) = (rng.gen_range(1..=maxd), rng.gen_range(1..=maxd));
    let (st, mut t) = rand_ctor(rng, r, c);
    let mut steps = vec![st];
    let pr = |rng: &mut StdRng, t: &Track, steps: &mut Vec<Value>| { if c07 { steps.push(products_step(rng, t)); } };
    pr(rng, &t, &mut steps);
    for q in 0..nkinds {
        steps.push(refuse_step(rng, &t, (first_kind + q) % REFUSALS));
        pr(rng, &t, &mut steps);                                                   // (a) the same object
        if rng.gen_bool(0.4) { steps.push(rand_mod(rng, &mut t)); pr(rng, &t, &mut steps); }   //     ... and it still works
        // (b) fresh assembly of the same shape, (c) of another shape, then an insert sequence
        let (sr, sc) = (t.rows, t.cols);
        for (ar, ac) in [(sr, sc), (rng.gen_range(1..=maxd), rng.gen_range(1..=maxd))] {
            let n = rng.gen_range(1..=(ar * ac).min(ar + ac + 3));
            let mut ts: Vec<(usize, usize, i64)> = pattern(rng, ar, ac, n); ts.shuffle(rng);
            steps.push(if rng.gen_bool(0.75) { ctor_triplets(ar, ac, &ts) } else { ctor_vecs(ar, ac, &ts) });
            t = track_of(ar, ac, &ts);
            pr(rng, &t, &mut steps);
        }
        for _ in 0..2 { if let Some(m) = mod_kind(rng, &mut t, 0) { steps.push(m); pr(rng, &t, &mut steps); } }
    }
    steps
}

fn permutations(n: usize) -> Vec<Vec<usize>> {
    fn go(cur: &mut Vec<usize>, used: &mut Vec<bool>, out: &mut Vec<Vec<usize>>) {
        if cur.len() == used.len() { out.push(cur.clone()); return; }
        for i in 0..used.len() { if !used[i] { used[i] = true; cur.push(i); go(cur, used, out); cur.pop(); used[i] = false; } }
    }
    let mut out = vec![]; let mut cur = Vec::with_capacity(n); let mut used = vec![false; n];
    go(&mut cur, &mut used, &mut out); out
}

fn gen_c06(quick: bool, seed: u64, out: &mut Out) {
    let mut rng = rng(seed, 6);
    let mut cid = 0i64;
    let mut push = |out: &mut Out, ty: &str, steps: Vec<Value>| { cid += 1; out.raw(&json!({"suite": "sparse", "cid": cid, "ty": ty, "prop": "C06", "steps": steps})); };
    // (a) every shape 0..8 x 0..8: random pattern in random triplet order, then a short history that also
    //     rebuilds the matrix from its own kind of input
    let reps = if quick { 1 } else { 6 };
    for r in 0..=8usize { for c in 0..=8usize { for rep in 0..reps {
        let ty = TYS[(r + c + rep) % 2];
        let (st, mut t) = rand_ctor(&mut rng, r, c);
        let mut steps = vec![st];
        for _ in 0..6 { steps.push(rand_mod(&mut rng, &mut t)); }
        push(out, ty, steps);
    } } }
    // (b) every permutation of the triplet list for <= 5 entries (patterns with several entries per column,
    //     where the order matters, are forced half of the time), followed by one transpose
    let pats = if quick { 3 } else { 24 };
    for n in 0..=5usize { for p in 0..pats {
        let (r, c) = loop { let r = rng.gen_range(1..=8usize); let c = rng.gen_range(1..=8usize); if r * c >= n && (p % 2 == 1 || r * 2 >= n) { break (r, c); } };
        let ts = if p % 2 == 0 { // at most two columns in use
            let mut cols: Vec<usize> = (0..c).collect(); cols.shuffle(&mut rng); cols.truncate(2.min(c)); let rows: Vec<usize> = (0..r).collect();
            pattern_in(&mut rng, &rows, &cols, n)
        } else { pattern(&mut rng, r, c, n) };
        for (q, perm) in permutations(ts.len()).into_iter().enumerate() {
            let pts: Vec<(usize, usize, i64)> = perm.iter().map(|k| ts[*k]).collect();
            push(out, TYS[(p + q) % 2], vec![ctor_triplets(r, c, &pts), json!({"op": "transpose"})]);
        }
    } }
    // (c) raw compressed-column arrays: every within-column order is a permutation of the entry list;
    //     empty columns / rows at either end
    for _ in 0..(if quick { 60 } else { 600 }) {
        let r = rng.gen_range(0..=8usize); let c = rng.gen_range(0..=8usize);
        let rows: Vec<usize> = if r > 2 && rng.gen_bool(0.5) { (1..r - 1).collect() } else { (0..r).collect() };
        let cols: Vec<usize> = if c > 2 && rng.gen_bool(0.5) { (1..c - 1).collect() } else { (0..c).collect() };
        let cap = rows.len() * cols.len();
        let n = if cap == 0 { 0 } else { rng.gen_range(0..=cap) };
        let mut ts = pattern_in(&mut rng, &rows, &cols, n); ts.shuffle(&mut rng);
        let mut t = track_of(r, c, &ts);
        let mut steps = vec![ctor_vecs(r, c, &ts)];
        for _ in 0..3 { steps.push(rand_mod(&mut rng, &mut t)); }
        push(out, TYS[rng.gen_range(0..2)], steps);
    }
    // (d) special patterns: empty, full, one full column / row, diagonal, first/last column only
    for r in 1..=8usize { for c in [1usize, 2, 5, 8] {
        let full: Vec<(usize, usize, i64)> = pattern(&mut rng, r, c, r * c);
        let diag: Vec<(usize, usize, i64)> = (0..r.min(c)).map(|k| (k, k, nzval(&mut rng))).collect();
        let lastcol: Vec<(usize, usize, i64)> = { let mut v: Vec<(usize, usize, i64)> = (0..r).map(|i| (i, c - 1, nzval(&mut rng))).collect(); v.shuffle(&mut rng); v };
        let firstrow: Vec<(usize, usize, i64)> = { let mut v: Vec<(usize, usize, i64)> = (0..c).map(|j| (0, j, nzval(&mut rng))).collect(); v.shuffle(&mut rng); v };
        for (n, ts) in [vec![], full, diag, lastcol, firstrow].into_iter().enumerate() {
            if quick && (r + c + n) % 3 != 0 { continue; }
            let mut t = track_of(r, c, &ts);
            let mut steps = vec![if n % 2 == 0 { ctor_triplets(r, c, &ts) } else { ctor_vecs(r, c, &ts) }];
            for _ in 0..4 { steps.push(rand_mod(&mut rng, &mut t)); }
            push(out, TYS[(r + n) % 2], steps);
        }
    } }
    // (e) histories of 50 operations (with an occasional fresh construction in the middle)
    for h in 0..(if quick { 40 } else { 400 }) {
        let (r, c) = (rng.gen_range(0..=8usize), rng.gen_range(0..=8usize));
        let (st, mut t) = rand_ctor(&mut rng, r, c);
        let mut steps = vec![st];
        for _ in 0..50 {
            if rng.gen_bool(0.03) { let (r2, c2) = (rng.gen_range(0..=8usize), rng.gen_range(0..=8usize)); let (st, nt) = rand_ctor(&mut rng, r2, c2); steps.push(st); t = nt; }
            else { steps.push(rand_mod(&mut rng, &mut t)); }
        }
        push(out, TYS[h % 2], steps);
    }
    // (f) explicit zeros: overwrite with 0, new 0 entry, scale by 0, zero values in constructor inputs
    for h in 0..(if quick { 80 } else { 800 }) {
        let (r, c) = (rng.gen_range(1..=8usize), rng.gen_range(1..=8usize));
        let steps = zero_history(&mut rng, r, c, false);
        push(out, TYS[h % 2], steps);
    }
    // (g) raw arrays with full columns / a single column / a single row in descending, rotated and random row
    //     order, at the largest size (8) and smaller ones; every view after construction, overwrite, transpose
    let sizes = if quick { vec![8usize, 3] } else { vec![8usize, 7, 5, 3, 2] };
    for n in sizes { for kind in 0..4usize { for order in 0..3usize { for rep in 0..(if quick { 1 } else { 4 }) {
        let m = if rep % 2 == 0 { 8 } else { rng.gen_range(2..=8usize) };
        let steps = column_order_history(&mut rng, n, m, kind, order, false);
        push(out, TYS[(kind + order + rep) % 2], steps);
    } } } }
    // (h) workspace wrap-around: large instance, G - 1 small ones, the same large instance again, per operation
    for variant in 0..3usize { for (gi, g) in GAPS.iter().enumerate() {
        let steps = gap_case(&mut rng, false, variant, *g, 8);
        push(out, if *g > 1000 { "f64" } else { TYS[(variant + gi) % 2] }, steps);
    } }
    // (i) poison sequences: refused calls (every kind) followed by observation of the same object and fresh assemblies
    for h in 0..(if quick { 57 } else { 570 }) {
        let steps = poison_case(&mut rng, false, 8, (h * 3) % REFUSALS, 3);
        push(out, TYS[h % 2], steps);
    }
}

fn gen_c07(quick: bool, seed: u64, out: &mut Out) {
    let mut rng = rng(seed, 7);
    let mut cid = 0i64;
    let mut push = |out: &mut Out, ty: &str, steps: Vec<Value>| { cid += 1; out.raw(&json!({"suite": "sparse", "cid": cid, "ty": ty, "prop": "C07", "steps": steps})); };
    // (a) every shape 0..10 x 0..10: products on the fresh matrix, then the skeleton insert-new / scale /
    //     insert-new / transpose / overwrite / overwrite / scale / transpose / insert-new / overwrite with a
    //     products event (same object) before and after every step
    let reps = if quick { 2 } else { 8 };
    for r in 0..=10usize { for c in 0..=10usize { for rep in 0..reps {
        let ty = TYS[(r + c + rep) % 2];
        let (st, mut t) = rand_ctor(&mut rng, r, c);
        let mut steps = vec![st, products_step(&mut rng, &t)];
        let off = rng.gen_range(0..SKELETON.len());
        for k in 0..(if quick { 6 } else { SKELETON.len() }) {
            if let Some(m) = mod_kind(&mut rng, &mut t, SKELETON[(k + off) % SKELETON.len()]) { steps.push(m); steps.push(products_step(&mut rng, &t)); }
        }
        push(out, ty, steps);
    } } }
    // (b) special patterns (empty, full, diagonal, a single column / row, empty border) with several vectors
    for r in 1..=10usize { for c in [1usize, 3, 6, 10] {
        let full: Vec<(usize, usize, i64)> = pattern(&mut rng, r, c, r * c);
        let diag: Vec<(usize, usize, i64)> = (0..r.min(c)).map(|k| (k, k, nzval(&mut rng))).collect();
        let lastcol: Vec<(usize, usize, i64)> = (0..r).map(|i| (i, c - 1, nzval(&mut rng))).collect();
        let firstrow: Vec<(usize, usize, i64)> = (0..c).map(|j| (0, j, nzval(&mut rng))).collect();
        let inner: Vec<(usize, usize, i64)> = if r > 2 && c > 2 { let rows: Vec<usize> = (1..r - 1).collect(); let cols: Vec<usize> = (1..c - 1).collect(); let n = rows.len() * cols.len(); pattern_in(&mut rng, &rows, &cols, n) } else { vec![] };
        for (n, mut ts) in [vec![], full, diag, lastcol, firstrow, inner].into_iter().enumerate() {
            if quick && (r + c + n) % 3 != 0 { continue; }
            ts.shuffle(&mut rng);
            let mut t = track_of(r, c, &ts);
            let mut steps = vec![if n % 2 == 0 { ctor_triplets(r, c, &ts) } else { ctor_vecs(r, c, &ts) }];
            for _ in 0..2 { steps.push(products_step(&mut rng, &t)); }
            steps.push(json!({"op": "transpose"})); { let e: BTreeMap<(usize, usize), i64> = t.ent.iter().map(|(k, v)| ((k.1, k.0), *v)).collect(); t.ent = e; std::mem::swap(&mut t.rows, &mut t.cols); }
            steps.push(products_step(&mut rng, &t));
            push(out, TYS[(r + n) % 2], steps);
        }
    } }
    // (c) longer histories with a products event after every modification
    for h in 0..(if quick { 30 } else { 300 }) {
        let (r, c) = (rng.gen_range(0..=10usize), rng.gen_range(0..=10usize));
        let (st, mut t) = rand_ctor(&mut rng, r, c);
        let mut steps = vec![st, products_step(&mut rng, &t)];
        for _ in 0..30 { steps.push(rand_mod(&mut rng, &mut t)); steps.push(products_step(&mut rng, &t)); }
        push(out, TYS[h % 2], steps);
    }
    // (d) explicit zeros in the matrix (overwrite with 0, new 0 entry, scale by 0) with products in between
    for h in 0..(if quick { 40 } else { 400 }) {
        let (r, c) = (rng.gen_range(1..=10usize), rng.gen_range(1..=10usize));
        let steps = zero_history(&mut rng, r, c, true);
        push(out, TYS[h % 2], steps);
    }
    // (e) raw arrays with full columns / a single column / a single row in descending, rotated and random row
    //     order at the largest size (10) and smaller ones, products after construction and after every step
    let sizes = if quick { vec![10usize, 4] } else { vec![10usize, 9, 8, 6, 4, 2] };
    for n in sizes { for kind in 0..4usize { for order in 0..3usize { for rep in 0..(if quick { 1 } else { 4 }) {
        let m = if rep % 2 == 0 { 10 } else { rng.gen_range(2..=10usize) };
        let steps = column_order_history(&mut rng, n, m, kind, order, true);
        push(out, TYS[(kind + order + rep) % 2], steps);
    } } } }
    // (f) workspace wrap-around: products probe on a large instance, G - 1 small calls, the same probe again
    for variant in 0..3usize { for (gi, g) in GAPS.iter().enumerate() {
        let steps = gap_case(&mut rng, true, variant, *g, 10);
        push(out, if *g > 1000 { "f64" } else { TYS[(variant + gi) % 2] }, steps);
    } }
    // (g) poison sequences: refused calls followed by products on the same object and on fresh assemblies
    for h in 0..(if quick { 57 } else { 570 }) {
        let steps = poison_case(&mut rng, true, 10, (h * 3) % REFUSALS, 3);
        push(out, TYS[h % 2], steps);
    }
}

pub fn gen(tier: &str, seed: u64, out: &mut Out) {
    let quick = tier.starts_with("quick");
    if tier.ends_with(":c07") { gen_c07(quick, seed, out) } else { gen_c06(quick, seed, out) }
}
