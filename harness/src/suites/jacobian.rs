//! Suite "jacobian": Mat64::jacobian and Matrix::<Cmplx>::jacobian_cmplx (C18).
//! The user closure is the observation point: it records every point it is called at.
//!  kind "affine": x -> M x + c on dyadic data (M, c multiples of 2^-ms, x and delta multiples of 2^-xs):
//!     every float operation of the closure and of the code under test is exact, so the evaluation points
//!     and the returned matrix are logged as scaled integers and decided exactly by Trace_Jacobian.
//!  kind "smooth": nonlinear maps with known derivatives; the error of every entry is logged in units of
//!     8*(delta*M2 + eps*G/delta) (forward-difference truncation + rounding theorem, see `smooth_units`).
use crate::util::*;
use crate::dd::{CDD, DD};
use ohsl::{Cmplx, Mat64, Matrix, Vec64, Vector};
use rand::Rng;
use serde_json::{json, Value};
use std::cell::RefCell;

const EPS: f64 = f64::EPSILON;

fn pow2(e: i64) -> f64 { (2.0f64).powi(e as i32) }
/// v * 2^s as an exact integer below 2^30, else BAD
fn scaled(v: f64, s: i64) -> i64 { let t = v * pow2(s); if t.is_finite() && t == t.trunc() && t.abs() < SAT as f64 { t as i64 } else { BAD } }
fn hexf(v: &Value) -> f64 { f64::from_bits(u64::from_str_radix(v.as_str().unwrap_or("7ff8000000000000"), 16).unwrap()) }
fn jhex(x: f64) -> Value { json!(bits(x)) }
fn zeros_like(v: &Value) -> Value { match v { Value::Array(a) => Value::from(vec![0i64; a.len()]), Value::Object(_) => json!({"r": v["r"], "c": v["c"], "d": vec![0i64; v["d"].as_array().unwrap().len()]}), _ => json!(0) } }

// ------------------------------------------------------------------ affine, exact
fn exec_affine(case: &Value, out: &mut Out) {
    let cid = geti(case, "cid");
    let cx = gets(case, "ty") == "cx";
    let (m, n) = (getu(case, "m"), getu(case, "n"));
    let (ms, xs) = (geti(case, "ms"), geti(case, "xs"));
    let dsc = geti(case, "dsc");
    let delta = dsc as f64 / pow2(xs);
    let zm = zeros_like(&case["M"]); let zc = zeros_like(&case["c"]); let zx = zeros_like(&case["x"]);
    let (mi_j, ci_j, xi_j) = (case.get("Mi").unwrap_or(&zm), case.get("ci").unwrap_or(&zc), case.get("xi").unwrap_or(&zx));
    let mre = ivec(&case["M"]["d"]); let mim = ivec(&mi_j["d"]);
    let cre = ivec(&case["c"]); let cim = ivec(ci_j);
    let xre = ivec(&case["x"]); let xim = ivec(xi_j);
    let sm = 1.0 / pow2(ms); let sx = 1.0 / pow2(xs);
    // kind "quad": f_i = s_i * x_{p_i}^2 (s_i = +-1) on dyadic data chosen so that both squares are exact: the forward quotient is
    // EXACTLY s_i (2 x_j + delta) for j = p_i and 0 elsewhere (a central stencil gives 2 x_j, a clamped step another number)
    let quad = gets(case, "kind") == "quad";
    let qp: Vec<usize> = ivec(&case["p"]).iter().map(|v| *v as usize).collect(); let qs = ivec(&case["s"]);
    // optional second term and coefficient i: f_i = s_i u_i (x_p^2 - x_q^2), u_i in {1, i} (q = -1: no second term)
    let qq: Vec<i64> = { let v = ivec(&case["q"]); if v.len() == m { v } else { vec![-1; m] } };
    let qu: Vec<i64> = { let v = ivec(&case["u"]); if v.len() == m { v } else { vec![0; m] } };
    let js = if quad { xs } else { ms };       // scale of the logged result
    let nz: Vec<usize> = ivec(&case["nz"]).iter().map(|v| *v as usize).collect();     // coordinates that are -0.0
    let xval = |v: i64, j: usize| -> f64 { if v == 0 && nz.contains(&j) { -0.0 } else { v as f64 * sx } };
    let nzi: Vec<usize> = ivec(&case["nzi"]).iter().map(|v| *v as usize).collect();   // coordinates whose imaginary part is -0.0
    let xival = |v: i64, j: usize| -> f64 { if v == 0 && nzi.contains(&j) { -0.0 } else { v as f64 * sx } };
    // LARGE OFFSETS: constants c_r = cm_r * 2^ck_r (complex: + i cmi_r 2^cki_r) override c; M is then integer (ms = 0).  The case is constructed
    // so that c + M (x + delta e_j) is exactly representable (one ulp of f may be as large as delta); verified below in integer arithmetic
    let big = case.get("ck").is_some();
    let (cm, ck, cmi, cki) = (ivec(&case["cm"]), ivec(&case["ck"]), ivec(&case["cmi"]), ivec(&case["cki"]));
    let cval = |i: usize| -> f64 { if big { cm[i] as f64 * pow2(ck[i]) } else { cre[i] as f64 * sm } };
    let cival = |i: usize| -> f64 { if big && cmi.len() == m { cmi[i] as f64 * pow2(cki[i]) } else if big { 0.0 } else { cim[i] as f64 * sm } };
    // exact value of component i at the point p (integers: units of 2^-xs), real and imaginary part
    let exact = |i: usize, pr: &[i128], pi: &[i128]| -> (i128, i128) {
        let mut re: i128 = (cm[i] as i128) << (ck[i] + xs) as u32; let mut im: i128 = if cmi.len() == m { (cmi[i] as i128) << (cki[i] + xs) as u32 } else { 0 };
        for j in 0..n { let (a, b) = (mre[i * n + j] as i128, if mim.len() == m * n { mim[i * n + j] as i128 } else { 0 }); re += a * pr[j] - b * pi[j]; im += a * pi[j] + b * pr[j]; }
        (re, im) };
    let legal = |pr: &[i128], pi: &[i128]| -> bool { let d: Vec<usize> = (0..n).filter(|j| pr[*j] != xre[*j] as i128 || pi[*j] != if cx { xim[*j] as i128 } else { 0 }).collect();
        d.is_empty() || (d.len() == 1 && pr[d[0]] - xre[d[0]] as i128 == dsc as i128 && pi[d[0]] == if cx { xim[d[0]] as i128 } else { 0 }) };
    let toint = |v: f64| -> Option<i128> { let s = v * pow2(xs); if s.is_finite() && s == s.trunc() { Some(s as i128) } else { None } };
    let verify = |vals: &[(f64, f64)], pr: &[Option<i128>], pi: &[Option<i128>]| {
        if !big || pr.iter().chain(pi.iter()).any(|v| v.is_none()) { return; }
        let (pr, pi): (Vec<i128>, Vec<i128>) = (pr.iter().map(|v| v.unwrap()).collect(), pi.iter().map(|v| v.unwrap()).collect());
        if !legal(&pr, &pi) { return; }
        for i in 0..m { let (re, im) = exact(i, &pr, &pi);
            if toint(vals[i].0) != Some(re) || toint(vals[i].1) != Some(im) { eprintln!("TOOL-ERROR jacobian big-offset case {} is not exactly representable (component {})", cid, i); std::process::exit(2); } }
    };
    let mut e = json!({"op": if quad { "jac_quad" } else { "jac_affine" }, "cid": cid, "ty": gets(case, "ty"), "m": m, "n": n, "ms": ms, "xs": xs, "dsc": dsc,
                       "M": case["M"], "x": case["x"]});
    if quad { e["p"] = case["p"].clone(); e["s"] = case["s"].clone(); e["q"] = Value::from(qq.clone()); e["u"] = Value::from(qu.clone()); e["M"] = json!({"r": 0, "c": 0, "d": []}); }
    if !cx {
        let pts: RefCell<Vec<Vec<f64>>> = RefCell::new(vec![]);
        let f = |x: Vec64| -> Vec64 {
            pts.borrow_mut().push(x.vec.clone());
            let mut r = Vec64::new(m, 0.0);
            if quad { for i in 0..m { let v = x[qp[i].min(x.size() - 1)]; let mut val = v * v;
                if qq[i] >= 0 { let w = x[(qq[i] as usize).min(x.size() - 1)]; val = val - w * w; } r[i] = qs[i] as f64 * val; } return r; }
            for i in 0..m { let mut s = 0.0; for j in 0..x.size().min(n) { s += (mre[i * n + j] as f64 * sm) * x[j]; } r[i] = s + cval(i); }
            if x.size() == n { verify(&(0..m).map(|i| (r[i], 0.0)).collect::<Vec<_>>(), &x.vec.iter().map(|v| toint(*v)).collect::<Vec<_>>(), &vec![Some(0); n]); }
            r
        };
        let x0 = Vec64::create(xre.iter().enumerate().map(|(j, v)| xval(*v, j)).collect());
        let res = guarded(|| Mat64::jacobian(x0, &f, delta));
        let p = pts.borrow();
        e["pts"] = Value::from(p.iter().map(|q| Value::from(q.iter().map(|v| scaled(*v, xs)).collect::<Vec<i64>>())).collect::<Vec<Value>>());
        match res {
            Ok(j) => { let mut d = vec![]; for i in 0..j.rows() { for k in 0..j.cols() { d.push(scaled(j[(i, k)], js)); } }
                       e["jac"] = json!({"r": j.rows(), "c": j.cols(), "d": d}); e["panic"] = json!(false); }
            Err(_) => { e["jac"] = json!({"r": 0, "c": 0, "d": []}); e["panic"] = json!(true); }
        }
    } else {
        let pts: RefCell<Vec<Vec<Cmplx>>> = RefCell::new(vec![]);
        let f = |x: Vector<Cmplx>| -> Vector<Cmplx> {
            pts.borrow_mut().push(x.vec.clone());
            let mut r = Vector::<Cmplx>::new(m, Cmplx::new(0.0, 0.0));
            if quad { for i in 0..m { let v = x[qp[i].min(x.size() - 1)]; let mut val = v * v;
                if qq[i] >= 0 { let w = x[(qq[i] as usize).min(x.size() - 1)]; val = val - w * w; }
                val = val * (qs[i] as f64); if qu[i] == 1 { val = val * Cmplx::new(0.0, 1.0); } r[i] = val; } return r; }
            for i in 0..m { let mut s = Cmplx::new(0.0, 0.0);
                for j in 0..x.size().min(n) { s = s + Cmplx::new(mre[i * n + j] as f64 * sm, mim[i * n + j] as f64 * sm) * x[j]; }
                r[i] = s + Cmplx::new(cval(i), cival(i)); }
            if x.size() == n { verify(&(0..m).map(|i| (r[i].real, r[i].imag)).collect::<Vec<_>>(), &x.vec.iter().map(|v| toint(v.real)).collect::<Vec<_>>(), &x.vec.iter().map(|v| toint(v.imag)).collect::<Vec<_>>()); }
            r
        };
        let x0 = Vector::<Cmplx>::create((0..n).map(|j| Cmplx::new(xval(xre[j], j), xival(xim[j], j))).collect());
        let res = guarded(|| Matrix::<Cmplx>::jacobian_cmplx(x0, &f, delta));
        let p = pts.borrow();
        e["pts"] = Value::from(p.iter().map(|q| Value::from(q.iter().map(|v| scaled(v.real, xs)).collect::<Vec<i64>>())).collect::<Vec<Value>>());
        e["ptsi"] = Value::from(p.iter().map(|q| Value::from(q.iter().map(|v| scaled(v.imag, xs)).collect::<Vec<i64>>())).collect::<Vec<Value>>());
        e["Mi"] = if quad { json!({"r": 0, "c": 0, "d": []}) } else { mi_j.clone() }; e["xi"] = xi_j.clone();
        match res {
            Ok(j) => { let (mut d, mut di) = (vec![], vec![]);
                       for i in 0..j.rows() { for k in 0..j.cols() { d.push(scaled(j[(i, k)].real, js)); di.push(scaled(j[(i, k)].imag, js)); } }
                       e["jac"] = json!({"r": j.rows(), "c": j.cols(), "d": d}); e["jaci"] = json!({"r": j.rows(), "c": j.cols(), "d": di}); e["panic"] = json!(false); }
            Err(_) => { e["jac"] = json!({"r": 0, "c": 0, "d": []}); e["jaci"] = e["jac"].clone(); e["panic"] = json!(true); }
        }
    }
    if case["lg"].as_bool().unwrap_or(false) { let s = summarise(&e); out.ev(s); return; }
    out.ev(e);
}

/// Large shapes: the exact check is carried out here in integer arithmetic on the scaled integers of the event (dyadic data: every entry and
/// every point is an exact integer after scaling) and only its outcome is logged: number of wrong entries, the first one (i, j, got, want, part),
/// number of illegal evaluation points, coverage, and the shape.  Trace_Jacobian demands wrong = 0, pbad = 0, cover, shape = (m, n).
fn summarise(e: &Value) -> Value {
    let (m, n) = (getu(e, "m"), getu(e, "n")); let cx = gets(e, "ty") == "cx"; let quad = gets(e, "op") == "jac_quad";
    let dsc = geti(e, "dsc");
    let x = ivec(&e["x"]); let xi = if cx { ivec(&e["xi"]) } else { vec![0; n] };
    let (r, c) = (getu(&e["jac"], "r"), getu(&e["jac"], "c"));
    let jre = ivec(&e["jac"]["d"]); let jim = if cx { ivec(&e["jaci"]["d"]) } else { vec![0; jre.len()] };
    let (mre, mim) = (ivec(&e["M"]["d"]), if cx { ivec(&e["Mi"]["d"]) } else { vec![] });
    let (p, s, q, u) = (ivec(&e["p"]), ivec(&e["s"]), ivec(&e["q"]), ivec(&e["u"]));
    let want = |i: usize, j: usize| -> (i64, i64) {
        if !quad { return (mre[i * n + j], if cx && mim.len() == m * n { mim[i * n + j] } else { 0 }); }
        let cf = s[i] * ((if p[i] == j as i64 { 1 } else { 0 }) - (if q[i] == j as i64 { 1 } else { 0 }));
        let (re, im) = (cf * (2 * x[j] + dsc), cf * 2 * xi[j]);
        if u[i] == 1 { (-im, re) } else { (re, im) } };
    let (mut wrong, mut first) = (0i64, json!([]));
    if r == m && c == n && jre.len() == m * n { for i in 0..m { for j in 0..n {
        let (wr, wi) = want(i, j); let (gr, gi) = (jre[i * n + j], jim[i * n + j]);
        if gr != wr || gi != wi { wrong += 1; if wrong == 1 { first = json!([i, j, gr, wr, gi, wi]); } } } } } else { wrong = (m * n) as i64 + 1; }
    let pts = e["pts"].as_array().cloned().unwrap_or_default(); let ptsi = e.get("ptsi").and_then(|v| v.as_array()).cloned().unwrap_or_default();
    let (mut pbad, mut base, mut seen) = (0i64, false, vec![false; n]);
    for (k, pt) in pts.iter().enumerate() {
        let pr = ivec(pt); let pi = if cx && k < ptsi.len() { ivec(&ptsi[k]) } else { vec![0; n] };
        if pr.len() != n || pi.len() != n { pbad += 1; continue; }
        let d: Vec<usize> = (0..n).filter(|j| pr[*j] != x[*j] || pi[*j] != xi[*j]).collect();
        if d.is_empty() { base = true; } else if d.len() == 1 && pr[d[0]] - x[d[0]] == dsc && pi[d[0]] == xi[d[0]] { seen[d[0]] = true; } else { pbad += 1; }
    }
    json!({"op": "jac_big", "src": e["op"], "cid": e["cid"], "ty": e["ty"], "m": m, "n": n, "r": r, "c": c, "wrong": wrong, "first": first, "pbad": pbad,
           "cover": base && seen.iter().all(|b| *b), "npts": pts.len(), "panic": e["panic"], "dsc": dsc})
}

// ------------------------------------------------------------------ smooth, units
// real:    F_i(x) = sum_j a_ij sin(x_j)  + b_i x_p x_q + c_i exp(x_r / 4)
// complex: F_i(z) = sum_j a_ij z_j^2 / 8 + b_i z_p z_q + c_i exp(z_r / 4)        (p, q, r depend on i)
// coefficients are multiples of 1/16 (integers in the case); evaluation points are f64 bit patterns.
struct Smooth { m: usize, n: usize, a: Vec<Cmplx>, b: Vec<Cmplx>, c: Vec<Cmplx>, p: Vec<usize>, q: Vec<usize>, r: Vec<usize> }
fn cexp4(z: Cmplx) -> Cmplx { let e = (z.real / 4.0).exp(); Cmplx::new(e * (z.imag / 4.0).cos(), e * (z.imag / 4.0).sin()) }
impl Smooth {
    fn from(case: &Value) -> Smooth {
        let cv = |k: &str, ki: &str| -> Vec<Cmplx> { let re = ivec(&case[k]); let im = case.get(ki).map(ivec).unwrap_or_else(|| vec![0; re.len()]);
            re.iter().zip(im.iter()).map(|(x, y)| Cmplx::new(*x as f64 / 16.0, *y as f64 / 16.0)).collect() };
        let uv = |k: &str| -> Vec<usize> { ivec(&case[k]).iter().map(|x| *x as usize).collect() };
        Smooth { m: getu(case, "m"), n: getu(case, "n"), a: cv("a", "ai"), b: cv("b", "bi"), c: cv("c", "ci"), p: uv("p"), q: uv("q"), r: uv("r") }
    }
    fn real(&self, x: &[f64]) -> Vec<f64> {
        (0..self.m).map(|i| { let mut s = 0.0; for j in 0..self.n { s += self.a[i * self.n + j].real * x[j].sin(); }
            s + self.b[i].real * x[self.p[i]] * x[self.q[i]] + self.c[i].real * (x[self.r[i]] / 4.0).exp() }).collect()
    }
    fn dreal(&self, x: &[f64], i: usize, j: usize) -> f64 {
        let mut d = self.a[i * self.n + j].real * x[j].cos();
        if j == self.p[i] { d += self.b[i].real * x[self.q[i]]; }
        if j == self.q[i] { d += self.b[i].real * x[self.p[i]]; }
        if j == self.r[i] { d += self.c[i].real / 4.0 * (x[j] / 4.0).exp(); }
        d
    }
    fn cplx(&self, z: &[Cmplx]) -> Vec<Cmplx> {
        (0..self.m).map(|i| { let mut s = Cmplx::new(0.0, 0.0); for j in 0..self.n { s = s + self.a[i * self.n + j] * z[j] * z[j] / 8.0; }
            s + self.b[i] * z[self.p[i]] * z[self.q[i]] + self.c[i] * cexp4(z[self.r[i]]) }).collect()
    }
    fn dcplx(&self, z: &[Cmplx], i: usize, j: usize) -> Cmplx {
        let mut d = self.a[i * self.n + j] * z[j] / 4.0;
        if j == self.p[i] { d = d + self.b[i] * z[self.q[i]]; }
        if j == self.q[i] { d = d + self.b[i] * z[self.p[i]]; }
        if j == self.r[i] { d = d + self.c[i] * cexp4(z[j]) / 4.0; }
        d
    }
    /// the unit of entry (i,j): 8 * (delta*M2 + eps*G/delta).  Theorem: with h = fl(x_j+delta) - x_j,
    /// |Q - dF| <= |dF| |h-delta|/delta + h^2 M2/(2 delta) + (two evaluations, each in error by at most K eps F)/delta + eps |Q|,
    /// |h - delta| <= eps (|x_j| + delta); K = n + 3 real (sum of n + 2 terms, each term within 1.5 ulp), doubled for complex.
    /// Bounds valid for |x_j| <= 4 + delta (|z_j| <= 4 sqrt 2 + delta), delta <= 1/16.
    fn unit(&self, cx: bool, i: usize, j: usize, xj: f64, delta: f64) -> f64 {
        let aij = self.a[i * self.n + j].abs(); let b = self.b[i].abs(); let c = self.c[i].abs();
        let asum: f64 = (0..self.n).map(|k| self.a[i * self.n + k].abs()).sum();
        let (m2, f, m1, k) = if !cx { (aij + 2.0 * b + c, asum + 17.0 * b + 3.0 * c, aij + 9.0 * b + c, (2 * self.n + 6) as f64) }
                             else { (aij / 4.0 + 2.0 * b + c, 4.3 * asum + 34.0 * b + 3.0 * c, 1.5 * aij + 12.0 * b + c, (4 * self.n + 12) as f64) };
        let g = k * f + (xj + 2.0 * delta) * m1;
        8.0 * (delta * m2 + EPS * g / delta)
    }
}

fn exec_smooth(case: &Value, out: &mut Out) {
    let cid = geti(case, "cid");
    let cx = gets(case, "ty") == "cx";
    // kind "sq": f_i = s_i * x_{p_i}^2, general (non-dyadic) x and delta: tight oracle.  With h = fl(x_j + delta) - x_j (exact) the
    // exact forward quotient of the evaluated points is Q* = s (2 x_j h + h^2) / delta (double-double); the code may deviate from it only by
    // the rounding of the two squares, the subtraction and the division: |Q - Q*| <= (about) 1.1 eps (|x_j| + |h|)^2 / delta (real; a complex square has four products and two
    // sums: about 3 eps |z|^2 / delta).  Unit: 4 eps |f| / delta (real), 12 eps |f| / delta (complex).
    let sq = gets(case, "kind") == "sq";
    let qp: Vec<usize> = ivec(&case["p"]).iter().map(|v| *v as usize).collect(); let qs = ivec(&case["s"]);
    let s = Smooth::from(case);
    let (m, n) = (s.m, s.n);
    let delta = hexf(&case["delta"]);
    let xre: Vec<f64> = case["x"].as_array().unwrap().iter().map(hexf).collect();
    let xim: Vec<f64> = case.get("xi").and_then(|v| v.as_array()).map(|a| a.iter().map(hexf).collect()).unwrap_or_else(|| vec![0.0; n]);
    let base: Vec<Cmplx> = (0..n).map(|j| Cmplx::new(xre[j], if cx { xim[j] } else { 0.0 })).collect();
    let pts: RefCell<Vec<Vec<Cmplx>>> = RefCell::new(vec![]);
    // result as complex entries
    let res: Result<(usize, usize, Vec<Cmplx>), String> = if !cx {
        let f = |x: Vec64| -> Vec64 { pts.borrow_mut().push(x.vec.iter().map(|v| Cmplx::new(*v, 0.0)).collect());
            if sq { return Vec64::create((0..m).map(|i| { let v = x[qp[i].min(x.size() - 1)]; qs[i] as f64 * (v * v) }).collect()); }
            Vec64::create(s.real(&x.vec)) };
        guarded(|| Mat64::jacobian(Vec64::create(xre.clone()), &f, delta)).map(|j| { let mut d = vec![]; for i in 0..j.rows() { for k in 0..j.cols() { d.push(Cmplx::new(j[(i, k)], 0.0)); } } (j.rows(), j.cols(), d) })
    } else {
        let f = |z: Vector<Cmplx>| -> Vector<Cmplx> { pts.borrow_mut().push(z.vec.clone());
            if sq { return Vector::<Cmplx>::create((0..m).map(|i| { let v = z[qp[i].min(z.size() - 1)]; (v * v) * (qs[i] as f64) }).collect()); }
            Vector::<Cmplx>::create(s.cplx(&z.vec)) };
        guarded(|| Matrix::<Cmplx>::jacobian_cmplx(Vector::<Cmplx>::create(base.clone()), &f, delta)).map(|j| { let mut d = vec![]; for i in 0..j.rows() { for k in 0..j.cols() { d.push(j[(i, k)]); } } (j.rows(), j.cols(), d) })
    };
    // evaluation discipline, measured
    let p = pts.borrow();
    let slack = |j: usize| 8.0 * EPS * (base[j].abs() + delta);
    let (mut far, mut dunits, mut seen_base, mut seen) = (0i64, 0i64, false, vec![false; n]);
    for q in p.iter() {
        if q.len() != n { far = SAT; continue; }
        let off: Vec<usize> = (0..n).filter(|j| !((q[*j] - base[*j]).abs() <= slack(*j))).collect();
        far = far.max(off.len() as i64);
        if off.is_empty() { seen_base = true; }
        if off.len() == 1 { let j = off[0]; seen[j] = true; dunits = dunits.max(units((q[j] - base[j] - Cmplx::new(delta, 0.0)).abs(), slack(j))); }
    }
    let cover = seen_base && seen.iter().all(|b| *b);
    // sq: the tight oracle, entry by entry
    let sq_want = |i: usize, j: usize| -> (Cmplx, f64) {
        // another variable: exactly 0 in exact arithmetic; the restore of x_{p_i} (if it was perturbed earlier) may be off by one ulp of
        // x + delta, which moves f_i by at most 2 eps |x| (|x| + delta) (+ the rounding of the squares): unit 8 eps (|x_p| + delta)^2 / delta
        if qp[i] != j { let a = base[qp[i]].abs() + delta; return (Cmplx::new(0.0, 0.0), (if cx { 24.0 } else { 8.0 }) * EPS * a * a / delta); }
        let z = base[j]; let h = (z.real + delta) - z.real;           // exact (Sterbenz / small exponent gap is not needed: computed in dd below)
        let hd = DD::from(z.real + delta).sub(DD::from(z.real)); let _ = h;
        let zz = CDD::from(z.real, z.imag); let hh = CDD { re: hd, im: DD::ZERO };
        let two = CDD::from(2.0, 0.0);
        let num = two.mul(zz).mul(hh).add(hh.mul(hh));
        let q = num.div(CDD::from(delta, 0.0));
        let sg = qs[i] as f64;
        let fmag = (z.abs() + hd.to_f64().abs()) * (z.abs() + hd.to_f64().abs());
        (Cmplx::new(sg * q.re.to_f64(), sg * q.im.to_f64()), (if cx { 12.0 } else { 4.0 }) * EPS * fmag.max(f64::MIN_POSITIVE) / delta)
    };
    let mut e = json!({"op": if sq { "jac_sq" } else { "jac_smooth" }, "cid": cid, "ty": gets(case, "ty"), "m": m, "n": n, "far": far, "dunits": dunits, "cover": cover, "npts": p.len()});
    match res {
        Ok((r, c, d)) => {
            let (mut u, mut uppm) = (0i64, 0i64);
            if r == m && c == n { for i in 0..m { for j in 0..n {
                let (want, un) = if sq { sq_want(i, j) } else { (if cx { s.dcplx(&base, i, j) } else { Cmplx::new(s.dreal(&xre, i, j), 0.0) }, s.unit(cx, i, j, base[j].abs(), delta)) };
                u = u.max(units((d[i * n + j] - want).abs(), un));
                uppm = uppm.max(units((d[i * n + j] - want).abs(), un * 1.0e-6));   // calibration only: error in millionths of the unit
            } } }
            e["r"] = json!(r); e["c"] = json!(c); e["units"] = json!(u); e["uppm"] = json!(uppm); e["panic"] = json!(false);
        }
        Err(_) => { e["r"] = json!(0); e["c"] = json!(0); e["units"] = json!(0); e["uppm"] = json!(0); e["panic"] = json!(true); }
    }
    out.ev(e);
}

pub fn exec(case: &Value, out: &mut Out) {
    match gets(case, "kind") { "affine" | "quad" => exec_affine(case, out), "smooth" | "sq" => exec_smooth(case, out),
        k => { eprintln!("TOOL-ERROR unknown jacobian case kind {}", k); std::process::exit(2) } }
}

// ------------------------------------------------------------------ case generation
type R = rand::rngs::StdRng;
/// special evaluation points, cycled systematically: 1 exact zeros (+0.0 and -0.0), 2 all negative, 3 all coordinates equal,
/// 4 the map ignores some variables (zero columns: perturbing them leaves f bit-for-bit unchanged), 5 = 1 + 4, 0 random
fn special_ints(rng: &mut R, feat: usize, x: &mut Vec<i64>, unit: i64, nz: &mut Vec<i64>) {
    let n = x.len();
    match feat {
        1 | 5 => { for j in 0..n { if rng.gen_bool(0.6) || n == 1 { x[j] = 0; if rng.gen_bool(0.5) { nz.push(j as i64); } } } }
        2 => { for j in 0..n { x[j] = -x[j].abs(); if x[j] == 0 { x[j] = -unit; } } }
        3 => { let v = x[0]; for j in 0..n { x[j] = v; } }
        _ => {}
    }
}
/// the variables a map ignores (features 4, 5): at least one, and - when n > 1 - not all
fn ignored(rng: &mut R, feat: usize, n: usize) -> Vec<usize> {
    if feat != 4 && feat != 5 { return vec![]; }
    if n == 1 { return vec![0]; }
    let mut v: Vec<usize> = (0..n).filter(|_| rng.gen_bool(0.4)).collect();
    if v.is_empty() { v.push(rng.gen_range(0..n)); }
    if v.len() == n { v.remove(rng.gen_range(0..n)); }
    v
}
fn zero_cols(m: &mut Value, cols: &[usize]) { let c = m["c"].as_u64().unwrap() as usize; let r = m["r"].as_u64().unwrap() as usize;
    for i in 0..r { for j in cols { m["d"][i * c + *j] = json!(0); } } }
/// coordinates that coincide with the step: +-delta, +-2 delta, +-delta/2 (complex: also (+-delta, +-0), (0, +-delta), (+-delta, +-delta)) in
/// random positions (every position over the cases), -delta most often: x_j + delta is then exactly 0.  Integers in units of 2^-xs.
fn coincide_ints(rng: &mut R, x: &mut Vec<i64>, xi: Option<&mut Vec<i64>>, dsc: i64, nz: &mut Vec<i64>, nzi: &mut Vec<i64>) {
    let n = x.len(); let force = rng.gen_range(0..n);
    let mut im = xi;
    for j in 0..n { if j != force && !rng.gen_bool(0.6) { continue; }
        let half = if dsc % 2 == 0 { dsc / 2 } else { dsc };
        x[j] = match rng.gen_range(0..10) { 0 | 1 | 2 => -dsc, 3 => dsc, 4 => 2 * dsc, 5 => -2 * dsc, 6 => half, 7 => -half, 8 => 0, _ => -dsc };
        nz.retain(|v| *v != j as i64); if x[j] == 0 && rng.gen_bool(0.5) { nz.push(j as i64); }
        if let Some(v) = im.as_deref_mut() { v[j] = match rng.gen_range(0..6) { 0 | 1 => 0, 2 => { nzi.push(j as i64); 0 } 3 => dsc, 4 => -dsc, _ => 0 }; }
    }
}
fn coincide_f(rng: &mut R, x: &mut Vec<f64>, xi: Option<&mut Vec<f64>>, delta: f64) {
    let n = x.len(); let force = rng.gen_range(0..n);
    let mut im = xi;
    for j in 0..n { if j != force && !rng.gen_bool(0.6) { continue; }
        x[j] = match rng.gen_range(0..10) { 0 | 1 | 2 => -delta, 3 => delta, 4 => 2.0 * delta, 5 => -2.0 * delta, 6 => 0.5 * delta, 7 => -0.5 * delta, 8 => 0.0, _ => -delta };
        if let Some(v) = im.as_deref_mut() { v[j] = match rng.gen_range(0..6) { 0 | 1 => 0.0, 2 => -0.0, 3 => delta, 4 => -delta, _ => 0.0 }; }
    }
}
/// shapes for the exactly / tightly computable quadratic maps: 1x1, 1xn, nx1 and a few general ones
fn quad_shapes() -> Vec<(usize, usize)> { let mut v = vec![(1, 1)]; for n in 2..=6 { v.push((1, n)); v.push((n, 1)); } v.extend([(2, 2), (2, 3), (3, 2), (4, 6), (6, 4), (5, 5)]); v }

pub fn gen(tier: &str, seed: u64, out: &mut Out) {
    let quick = tier == "quick";
    let mut rng = rng(seed, 18);
    let mut cid = 0i64;
    let mut push = |out: &mut Out, mut c: Value| { cid += 1; c["cid"] = json!(cid); c["suite"] = json!("jacobian"); out.raw(&c); };
    // (a) affine maps, all shapes 1..6 x 1..6, both element types, every k = 4..26; M, c multiples of 1/16 in [-4,4],
    //     x multiples of 1/64 in [-4,4]; points and delta are logged in units of 2^-26 (|x| + delta < 2^3 -> < 2^29).
    let mut kk = rng.gen_range(0..23i64);
    let mut feat = rng.gen_range(0..6usize);
    let mut cfeat = rng.gen_range(0..4usize);
    let mut coin = rng.gen_range(0..3usize);
    let reps = if quick { 3 } else { 46 };
    for m in 1..=6usize { for n in 1..=6usize { for ty in ["f64", "cx"] { for _ in 0..reps {
        let k = 4 + kk % 23; kk += 1; feat = (feat + 1) % 6;
        let xs = 26i64;
        let xr = |rng: &mut R| -> Vec<i64> { (0..n).map(|_| { let e: i64 = if rng.gen_bool(0.15) { [-256i64, 256, 0][rng.gen_range(0..3)] } else { rng.gen_range(-256..=256) }; e << 20 }).collect() };
        let mut x = xr(&mut rng); let mut nz = vec![];
        special_ints(&mut rng, feat, &mut x, 1 << 20, &mut nz);
        let ign = ignored(&mut rng, feat, n);
        let mut mm = rand_mat_json(&mut rng, m, n, -64, 64); zero_cols(&mut mm, &ign);
        let mut c = json!({"kind": "affine", "ty": ty, "m": m, "n": n, "ms": 4, "xs": xs, "k": k, "dsc": 1i64 << (26 - k), "feat": feat, "nz": nz,
                           "M": mm, "c": rand_vec_json(&mut rng, m, -64, 64), "x": x});
        if ty == "cx" { let mut mi = rand_mat_json(&mut rng, m, n, -64, 64); zero_cols(&mut mi, &ign); c["Mi"] = mi; c["ci"] = rand_vec_json(&mut rng, m, -64, 64);
            let mut xi = xr(&mut rng); let mut nzi = vec![]; special_ints(&mut rng, if feat == 3 { 3 } else { 0 }, &mut xi, 1 << 20, &mut nzi); c["xi"] = Value::from(xi);
            // genuinely complex coefficients at exactly real (1) / purely imaginary (2) points where the value is exactly real / imaginary,
            // and points with only some imaginary parts zero (3): the imaginary part of the derivative must survive
            cfeat = (cfeat + 1) % 4;
            if cfeat == 1 || cfeat == 2 {
                // quarter-integers: M parts multiples of 1/4, the point multiples of 1/4, so that the cancelling constant is a multiple of 1/16
                let q4 = |rng: &mut R, len: usize| -> Vec<i64> { (0..len).map(|_| 4 * rng.gen_range(-16..=16i64)).collect() };
                let mut mre = q4(&mut rng, m * n); let mut mim = q4(&mut rng, m * n);
                for i in 0..m { for j in &ign { mre[i * n + *j] = 0; mim[i * n + *j] = 0; } }
                if mim.iter().all(|v| *v == 0) { mim[0] = 4; }
                let xq: Vec<i64> = (0..n).map(|j| if c["x"][j].as_i64().unwrap() == 0 && feat % 4 == 1 { 0 } else { rng.gen_range(-16..=16i64) }).collect();   // point = xq / 4
                let dotq = |row: &[i64]| -> i64 { (0..n).map(|j| row[j] / 4 * xq[j]).sum() };            // (M/16 . xq/4) in sixteenths
                let free = rand_vec_json(&mut rng, m, -64, 64);
                if cfeat == 1 { // real point: Im f = Mi x + ci = 0
                    c["x"] = Value::from(xq.iter().map(|v| v << 24).collect::<Vec<i64>>()); c["xi"] = Value::from(vec![0i64; n]);
                    c["ci"] = Value::from((0..m).map(|i| -dotq(&mim[i * n..(i + 1) * n])).collect::<Vec<i64>>()); c["c"] = free;
                } else {        // imaginary point i y: Re f = -Mi y + c = 0
                    c["xi"] = Value::from(xq.iter().map(|v| v << 24).collect::<Vec<i64>>()); c["x"] = Value::from(vec![0i64; n]);
                    c["c"] = Value::from((0..m).map(|i| dotq(&mim[i * n..(i + 1) * n])).collect::<Vec<i64>>()); c["ci"] = free;
                }
                c["M"] = json!({"r": m, "c": n, "d": mre}); c["Mi"] = json!({"r": m, "c": n, "d": mim}); c["nz"] = json!([]); c["cfeat"] = json!(cfeat);
            } else if cfeat == 3 { let mut xi = ivec(&c["xi"]); for j in 0..n { if j % 2 == 0 || rng.gen_bool(0.3) { xi[j] = 0; } } c["xi"] = Value::from(xi); c["cfeat"] = json!(3); }
        }
        coin = (coin + 1) % 3;
        if coin == 0 && !matches!(c["cfeat"].as_i64(), Some(1) | Some(2)) {
            let mut x = ivec(&c["x"]); let mut nz = ivec(&c["nz"]); let mut nzi = vec![]; let dsc = 1i64 << (26 - k);
            if ty == "cx" { let mut xi = ivec(&c["xi"]); coincide_ints(&mut rng, &mut x, Some(&mut xi), dsc, &mut nz, &mut nzi); c["xi"] = Value::from(xi); }
            else { coincide_ints(&mut rng, &mut x, None, dsc, &mut nz, &mut nzi); }
            c["x"] = Value::from(x); c["nz"] = Value::from(nz); c["nzi"] = Value::from(nzi); c["coin"] = json!(true);
        }
        push(out, c);
    } } } }
    // (a'') affine maps whose matrix mixes O(1) entries (multiples of 1/16, |.| <= 1) with SMALL non-zero entries +-2^-e, e = 8..24 (as far as
    //       exactness allows: e + k <= 46), both signs, at every delta = 2^-k, k = 4..26; M, c and the result in units of 2^-24, coarse points
    //       (multiples of 1/4, |x| <= 2) so that every row sum still fits 53 bits.  The exact expectation is M[i][j]: no entry may be lost.
    let reps = if quick { 1 } else { 12 };
    for m in 1..=6usize { for n in 1..=6usize { for ty in ["f64", "cx"] { for _ in 0..reps {
        let k = 4 + kk % 23; kk += 1; feat = (feat + 1) % 6;
        let emax = 24.min(46 - k);
        let ent = |rng: &mut R| -> i64 { if rng.gen_bool(0.5) { let e = rng.gen_range(8..=emax); (if rng.gen_bool(0.5) { 1 } else { -1 }) * (1i64 << (24 - e)) } else { rng.gen_range(-16..=16i64) << 20 } };
        let mat = |rng: &mut R| -> Value { json!({"r": m, "c": n, "d": (0..m * n).map(|_| ent(rng)).collect::<Vec<i64>>()}) };
        let xr = |rng: &mut R| -> Vec<i64> { (0..n).map(|_| rng.gen_range(-8..=8i64) << 24).collect() };
        let cv = |rng: &mut R| -> Vec<i64> { (0..m).map(|_| rng.gen_range(-16..=16i64) << 20).collect() };
        let mut x = xr(&mut rng); let mut nz = vec![];
        special_ints(&mut rng, feat, &mut x, 1 << 24, &mut nz);
        let mut c = json!({"kind": "affine", "ty": ty, "m": m, "n": n, "ms": 24, "xs": 26, "k": k, "dsc": 1i64 << (26 - k), "feat": feat, "small": true, "nz": nz,
                           "M": mat(&mut rng), "c": cv(&mut rng), "x": x});
        if ty == "cx" { c["Mi"] = mat(&mut rng); c["ci"] = Value::from(cv(&mut rng)); let mut xi = xr(&mut rng); if rng.gen_bool(0.3) { for v in xi.iter_mut() { *v = 0; } } c["xi"] = Value::from(xi); }
        push(out, c);
    } } } }
    // (a3) LARGE OFFSETS: f = c + M x with integer M (|entries| <= 4, many +-1), points multiples of 1/2 in [-4,4], delta = 2^-s (s = 4..26) and
    //      constants c_r = +-m 2^K: K = 51 - s - j, j = 0 (one ulp of f_r equals delta: an entry +-1 changes f_r by exactly one ulp), 1, 2, 4, 8, ...;
    //      every value c + M (x + delta e_j) is exactly representable (checked in integer arithmetic by the harness): the Jacobian is M exactly
    let reps = if quick { 1 } else { 12 };
    for m in 1..=6usize { for n in 1..=6usize { for ty in ["f64", "cx"] { for _ in 0..reps {
        let k = 4 + kk % 23; kk += 1;
        let ent = |rng: &mut R| -> i64 { match rng.gen_range(0..6) { 0 | 1 => 1, 2 => -1, 3 => 0, _ => rng.gen_range(-4..=4i64) } };
        let mat = |rng: &mut R| -> Value { json!({"r": m, "c": n, "d": (0..m * n).map(|_| ent(rng)).collect::<Vec<i64>>()}) };
        let xr = |rng: &mut R| -> Vec<i64> { (0..n).map(|_| rng.gen_range(-8..=8i64) << 25).collect() };
        let cst = |rng: &mut R| -> (Vec<i64>, Vec<i64>) { let mut ms = vec![]; let mut ks = vec![];
            for _ in 0..m { let j = [0i64, 0, 0, 1, 2, 4, 8, 16, 24][rng.gen_range(0..9)]; let kx = (51 - k - j).max(0);
                let mant = if j == 0 { [2i64, 3][rng.gen_range(0..2)] } else { [1i64, 3, 5, 7][rng.gen_range(0..4)] };
                ms.push(if rng.gen_bool(0.5) { mant } else { -mant }); ks.push(kx); } (ms, ks) };
        let (cm, ck) = cst(&mut rng);
        let mut c = json!({"kind": "affine", "ty": ty, "m": m, "n": n, "ms": 0, "xs": 26, "k": k, "dsc": 1i64 << (26 - k), "big": true, "nz": [],
                           "M": mat(&mut rng), "c": vec![0i64; m], "cm": cm, "ck": ck, "x": xr(&mut rng)});
        if ty == "cx" { let (cmi, cki) = cst(&mut rng); c["Mi"] = mat(&mut rng); c["ci"] = Value::from(vec![0i64; m]); c["cmi"] = Value::from(cmi); c["cki"] = Value::from(cki); c["xi"] = Value::from(xr(&mut rng)); }
        push(out, c);
    } } } }
    // (a') exactly computable NON-affine maps: f_i = s_i x_{p_i}^2, x multiples of 1/16 (|x| <= 4 for k <= 23, |x| <= 1/2 for k = 24..26:
    //      both squares exact), so the forward quotient is exactly s_i (2 x_j + delta); all k, both element types, special points
    let reps = if quick { 4 } else { 46 };
    let mut qv = rng.gen_range(0..4usize);
    for (m, n) in quad_shapes() { for ty in ["f64", "cx"] { for _ in 0..reps {
        let k = 4 + kk % 23; kk += 1; feat = (feat + 1) % 6;
        // variants: 0 plain; 1 tiny points (x = +-2^-12 .. 2^-20: the increments of f are below 1e-12); 2 two-term components x_p^2 - x_q^2 with
        // coefficients 1 / i; 3 (complex) real point with all |x_j| equal and coefficient i: the value is exactly 0 (real), the derivative is not
        qv = (qv + 1) % 4;
        let two = (qv == 2 || qv == 3) && n >= 1;
        let lim: i64 = if two { if k <= 23 { 32 } else { 4 } } else if k <= 23 { 64 } else { 8 };
        let xr = |rng: &mut R| -> Vec<i64> { (0..n).map(|_| if qv == 1 { (if rng.gen_bool(0.5) { 1i64 } else { -1 }) << rng.gen_range(6..=14) } else { rng.gen_range(-lim..=lim) << 22 }).collect() };
        let mut x = xr(&mut rng); let mut nz = vec![];
        if qv != 1 { special_ints(&mut rng, feat, &mut x, 1 << 22, &mut nz); }
        if qv == 3 { let v = if x[0] == 0 { 1i64 << 22 } else { x[0].abs() }; for j in 0..n { x[j] = if rng.gen_bool(0.5) { v } else { -v }; } nz.clear(); }
        let ign = ignored(&mut rng, feat, n);
        let live: Vec<usize> = (0..n).filter(|j| !ign.contains(j) || n == 1).collect();
        let p: Vec<usize> = (0..m).map(|_| live[rng.gen_range(0..live.len())]).collect();
        let s: Vec<i64> = (0..m).map(|_| if rng.gen_bool(0.5) { 1 } else { -1 }).collect();
        let q: Vec<i64> = (0..m).map(|_| if two && (qv == 3 || rng.gen_bool(0.7)) { live[rng.gen_range(0..live.len())] as i64 } else { -1 }).collect();
        let u: Vec<i64> = (0..m).map(|i| if ty == "cx" && two && (q[i] >= 0 || qv == 2) && rng.gen_bool(0.6) { 1 } else { 0 }).collect();
        let u: Vec<i64> = if qv == 3 { (0..m).map(|i| if q[i] >= 0 { u[i] } else { 0 }).collect() } else { u };
        let mut c = json!({"kind": "quad", "ty": ty, "m": m, "n": n, "ms": 0, "xs": 26, "k": k, "dsc": 1i64 << (26 - k), "feat": feat, "qv": qv, "nz": nz, "x": x, "p": p, "s": s, "q": q, "u": u});
        if ty == "cx" { c["xi"] = if qv == 3 { Value::from(vec![0i64; n]) } else { Value::from(xr(&mut rng)) }; }
        coin = (coin + 1) % 3;
        if coin == 0 && qv != 3 {
            let mut x = ivec(&c["x"]); let mut nz = ivec(&c["nz"]); let mut nzi = vec![]; let dsc = 1i64 << (26 - k);
            if ty == "cx" { let mut xi = ivec(&c["xi"]); coincide_ints(&mut rng, &mut x, Some(&mut xi), dsc, &mut nz, &mut nzi); c["xi"] = Value::from(xi); }
            else { coincide_ints(&mut rng, &mut x, None, dsc, &mut nz, &mut nzi); }
            c["x"] = Value::from(x); c["nz"] = Value::from(nz); c["nzi"] = Value::from(nzi); c["coin"] = json!(true);
        }
        push(out, c);
    } } }
    // (a4) LARGE and extreme-aspect shapes ("for every m and n"): n in {31, 32, 33, 34, 40, 64, 65} x m in {1, n, 2n}; tall m x n with
    //      m in {8n-1, 8n, 8n+1, 16n, 100} for n = 1..6; wide 2 x n up to n = 65; affine (exact) and quadratic families, both element types;
    //      the exact entry-by-entry / point-by-point check is summarised by the harness (event jac_big)
    let mut shapes: Vec<(usize, usize)> = vec![];
    for n in [31usize, 32, 33, 34, 40, 64, 65] { for m in [1, n, 2 * n] { shapes.push((m, n)); } shapes.push((2, n)); }
    for n in 1..=6usize { for m in [8 * n - 1, 8 * n, 8 * n + 1, 16 * n, 100] { shapes.push((m, n)); } }
    for n in [7usize, 12, 16] { shapes.push((1, n)); shapes.push((2, n)); }
    for rep in 0..(if quick { 1 } else { 4 }) { for (m, n) in shapes.iter() { for ty in ["f64", "cx"] {
        let (m, n) = (*m, *n); let _ = rep;
        // affine, M and c multiples of 1/16, x multiples of 1/64
        let k = 4 + kk % 23; kk += 1;
        let xr = |rng: &mut R, sh: u32, lim: i64| -> Vec<i64> { (0..n).map(|_| rng.gen_range(-lim..=lim) << sh).collect() };
        let mut c = json!({"kind": "affine", "ty": ty, "m": m, "n": n, "ms": 4, "xs": 26, "k": k, "dsc": 1i64 << (26 - k), "lg": true, "nz": [],
                           "M": rand_mat_json(&mut rng, m, n, -64, 64), "c": rand_vec_json(&mut rng, m, -64, 64), "x": xr(&mut rng, 20, 256)});
        if ty == "cx" { c["Mi"] = rand_mat_json(&mut rng, m, n, -64, 64); c["ci"] = rand_vec_json(&mut rng, m, -64, 64); c["xi"] = Value::from(xr(&mut rng, 20, 256)); }
        push(out, c);
        // quadratic, one or two variables per component, coefficient 1 or i
        let k = 4 + kk % 23; kk += 1;
        let lim: i64 = if k <= 23 { 32 } else { 4 };
        let p: Vec<usize> = (0..m).map(|i| if rng.gen_bool(0.5) { i % n } else { rng.gen_range(0..n) }).collect();
        let s: Vec<i64> = (0..m).map(|_| if rng.gen_bool(0.5) { 1 } else { -1 }).collect();
        let q: Vec<i64> = (0..m).map(|_| if rng.gen_bool(0.4) { rng.gen_range(0..n) as i64 } else { -1 }).collect();
        let u: Vec<i64> = (0..m).map(|_| if ty == "cx" && rng.gen_bool(0.4) { 1 } else { 0 }).collect();
        let mut c = json!({"kind": "quad", "ty": ty, "m": m, "n": n, "ms": 0, "xs": 26, "k": k, "dsc": 1i64 << (26 - k), "lg": true, "nz": [], "x": xr(&mut rng, 22, lim), "p": p, "s": s, "q": q, "u": u});
        if ty == "cx" { c["xi"] = Value::from(xr(&mut rng, 22, lim)); }
        push(out, c);
    } } }
    // (b) smooth maps, all shapes, delta = 1e-8 and 2^-k (k = 4..26); the same special points (here as f64 bit patterns)
    let reps = if quick { 2 } else { 24 };
    let special_f = |rng: &mut R, feat: usize, x: &mut Vec<f64>| { let n = x.len(); match feat {
        1 | 5 => { for j in 0..n { if rng.gen_bool(0.6) || n == 1 { x[j] = if rng.gen_bool(0.5) { 0.0 } else { -0.0 }; } } }
        2 => { for j in 0..n { x[j] = -x[j].abs(); } }
        3 => { let v = x[0]; for j in 0..n { x[j] = v; } }
        _ => {} } };
    for m in 1..=6usize { for n in 1..=6usize { for ty in ["f64", "cx"] { for rep in 0..reps {
        let delta = if rep % 2 == 0 { 1.0e-8 } else { let k = 4 + kk % 23; kk += 1; pow2(-k) };
        feat = (feat + 1) % 6;
        let ign = ignored(&mut rng, feat, n);
        let live: Vec<usize> = (0..n).filter(|j| !ign.contains(j) || n == 1).collect();
        let co = |rng: &mut R, len: usize| -> Vec<i64> { (0..len).map(|_| rng.gen_range(-32..=32)).collect() };
        let coa = |rng: &mut R| -> Vec<i64> { (0..m * n).map(|q| if ign.contains(&(q % n)) { 0 } else { rng.gen_range(-32..=32) }).collect() };
        let ix = |rng: &mut R| -> Vec<i64> { (0..m).map(|_| live[rng.gen_range(0..live.len())] as i64).collect() };
        let pt = |rng: &mut R| -> Vec<f64> { (0..n).map(|_| if rng.gen_bool(0.1) { [-4.0, 4.0, 0.0][rng.gen_range(0..3)] } else { rng.gen_range(-4.0..=4.0) }).collect() };
        let hx = |v: &Vec<f64>| -> Vec<Value> { v.iter().map(|x| jhex(*x)).collect() };
        let mut x = pt(&mut rng); special_f(&mut rng, feat, &mut x);
        let mut c = json!({"kind": "smooth", "ty": ty, "m": m, "n": n, "delta": jhex(delta), "feat": feat, "a": coa(&mut rng), "b": co(&mut rng, m), "c": co(&mut rng, m),
                           "p": ix(&mut rng), "q": ix(&mut rng), "r": ix(&mut rng), "x": hx(&x)});
        if ty == "cx" { c["ai"] = Value::from(coa(&mut rng)); c["bi"] = Value::from(co(&mut rng, m)); c["ci"] = Value::from(co(&mut rng, m));
            let mut xi = pt(&mut rng); special_f(&mut rng, if feat == 3 { 3 } else { 0 }, &mut xi); c["xi"] = Value::from(hx(&xi)); }
        coin = (coin + 1) % 3;
        if coin == 0 {
            let mut xx = x.clone();
            if ty == "cx" { let mut xi: Vec<f64> = c["xi"].as_array().unwrap().iter().map(hexf).collect(); coincide_f(&mut rng, &mut xx, Some(&mut xi), delta); c["xi"] = Value::from(hx(&xi)); }
            else { coincide_f(&mut rng, &mut xx, None, delta); }
            c["x"] = Value::from(hx(&xx)); c["coin"] = json!(true);
        }
        push(out, c);
    } } } }
    // (b') f_i = s_i x_{p_i}^2 at general points with delta = 1e-8 (and now and then 2^-k): tight oracle in units of eps |f| / delta;
    //      half of the points lie in [-0.1, 0.1] (exact 0.0 / -0.0 included), where a central stencil (2x instead of 2x + delta) is off by >= 1 unit
    let reps = if quick { 5 } else { 30 };
    for (m, n) in quad_shapes() { for ty in ["f64", "cx"] { for rep in 0..reps {
        let delta = if rep % 3 != 2 { 1.0e-8 } else { let k = 10 + kk % 17; kk += 1; pow2(-k) };
        feat = (feat + 1) % 6;
        let small = rep % 2 == 0;
        let pt = |rng: &mut R| -> Vec<f64> { (0..n).map(|_| if small { rng.gen_range(-0.1..=0.1) } else { rng.gen_range(-4.0..=4.0) }).collect() };
        let hx = |v: &Vec<f64>| -> Vec<Value> { v.iter().map(|x| jhex(*x)).collect() };
        let mut x = pt(&mut rng); special_f(&mut rng, feat, &mut x);
        if rep % 5 == 4 { for v in x.iter_mut() { *v = (if rng.gen_bool(0.5) { 1.0 } else { -1.0 }) * pow2(-rng.gen_range(12..=20)); } }      // tiny points: f_new - f far below 1e-12
        let ign = ignored(&mut rng, feat, n);
        let live: Vec<usize> = (0..n).filter(|j| !ign.contains(j) || n == 1).collect();
        let p: Vec<usize> = (0..m).map(|_| live[rng.gen_range(0..live.len())]).collect();
        let s: Vec<i64> = (0..m).map(|_| if rng.gen_bool(0.5) { 1 } else { -1 }).collect();
        let mut c = json!({"kind": "sq", "ty": ty, "m": m, "n": n, "delta": jhex(delta), "feat": feat, "x": hx(&x), "p": p, "s": s});
        if ty == "cx" { c["xi"] = Value::from(hx(&pt(&mut rng))); }
        coin = (coin + 1) % 3;
        if coin == 0 {
            let mut xx = x.clone();
            if ty == "cx" { let mut xi: Vec<f64> = c["xi"].as_array().unwrap().iter().map(hexf).collect(); coincide_f(&mut rng, &mut xx, Some(&mut xi), delta); c["xi"] = Value::from(hx(&xi)); }
            else { coincide_f(&mut rng, &mut xx, None, delta); }
            c["x"] = Value::from(hx(&xx)); c["coin"] = json!(true);
        }
        push(out, c);
    } } }
}
