//! Suite "tridiag": ohsl::Tridiagonal against its dense twin (C05).
//!   kind "hist": constructors, index, convert, transpose, arithmetic, products on integer data (exact in every type).
//!   kind "sol" : det / solve / product / convert on one matrix.  The outcome of solve is logged as ok(x) or
//!                panic(message).  mode "exact" (Rat always; floats on data where every operation of the Thomas
//!                algorithm is exact): x as integers xs over a common denominator L.  mode "outcome": only whether
//!                the call refused.  mode "units": backward-error units against double-double references.
use super::banded::{sc, fval, backward_units, common_den, cx_common_den, f64_to_rat, gint, gr_solve, PIVOTS, jscale, scal, scale2, to_rat2, tool_error, vec_of, BE, LIM};
use crate::dd::CDD;
use crate::rat::Rat;
use crate::util::*;
use ohsl::{Cmplx, Tridiagonal, Vector};
use rand::rngs::StdRng;
use rand::Rng;
use serde_json::{json, Value};

// ------------------------------------------------------------------ construction / projection
fn diag_of<T: BE>(tj: &Value, k: &str) -> Vec<T> {
    let ki = format!("{}i", k);
    vec_of::<T>(&tj[k], if T::CX { tj.get(&ki) } else { None }).vec
}
/// from {"n","sub","main","sup"[,"subi","maini","supi"]}; `how` selects the constructor
pub fn tri_from<T: BE>(tj: &Value, how: &str) -> Tridiagonal<T> {
    let (sub, main, sup) = (diag_of::<T>(tj, "sub"), diag_of::<T>(tj, "main"), diag_of::<T>(tj, "sup"));
    match how {
        "vectors" => Tridiagonal::with_vectors(Vector::create(sub), Vector::create(main), Vector::create(sup)),
        "index" => { let n = main.len(); let mut t = Tridiagonal::<T>::new(n);
            for i in 0..n { t[(i, i)] = main[i]; if i + 1 < n { t[(i + 1, i)] = sub[i]; t[(i, i + 1)] = sup[i]; } } t }
        _ => Tridiagonal::with_vecs(sub, main, sup),
    }
}
pub fn jtri<T: Elem>(t: &Tridiagonal<T>, w: Part) -> Value {
    json!({"n": t.size(), "sub": jvec(t.subdiagonal(), w), "main": jvec(t.maindiagonal(), w), "sup": jvec(t.superdiagonal(), w)})
}
fn re_tri(t: &Value) -> Value { json!({"n": t["n"], "sub": t["sub"], "main": t["main"], "sup": t["sup"]}) }
fn zeros_like(v: &Value) -> Value { Value::from(vec![0i64; v.as_array().map(|a| a.len()).unwrap_or(0)]) }
fn im_tri(t: &Value) -> Value {
    json!({"n": t["n"], "sub": t.get("subi").cloned().unwrap_or_else(|| zeros_like(&t["sub"])), "main": t.get("maini").cloned().unwrap_or_else(|| zeros_like(&t["main"])),
           "sup": t.get("supi").cloned().unwrap_or_else(|| zeros_like(&t["sup"]))})
}

/// construct the operand of a case (a panic is data) and log what was built next to what was asked for
fn construct<T: BE>(case: &Value, out: &mut Out) -> Option<Tridiagonal<T>> {
    let cid = geti(case, "cid"); let tj = &case["tri"];
    let ints = ["sub", "main", "sup", "subi", "maini", "supi"].iter().all(|f| tj.get(*f).map(|v| v.as_array().unwrap().iter().all(|x| x.is_i64())).unwrap_or(true));
    match guarded(|| tri_from::<T>(tj, gets(case, "ctor"))) {
        Ok(m) => { if ints { for w in 0..(if T::CX { 2 } else { 1 }) {
                       let want = if w == 0 { re_tri(tj) } else { im_tri(tj) };
                       out.ev(json!({"op": "built", "ctor": gets(case, "ctor"), "ty": T::NAME, "cid": cid, "k": -1, "panic": false, "part": if w == 0 { "re" } else { "im" }, "post": jtri(&m, if w == 0 { Part::Re } else { Part::Im }),
                                     "sub": want["sub"], "main": want["main"], "sup": want["sup"]})); } }
                   Some(m) }
        Err(msg) => { out.ev(json!({"op": "built", "ctor": gets(case, "ctor"), "ty": T::NAME, "cid": cid, "k": -1, "panic": true, "msg": msg})); None }
    }
}
/// dense twin of the case's matrix (from the case JSON, never through the object under test)
fn dense_case(tj: &Value) -> Vec<Vec<(f64, f64)>> {
    let n = getu(tj, "n"); let g = |k: &str, i: usize| -> (f64, f64) { let ki = format!("{}i", k); (f64_from(&tj[k][i]), tj.get(&ki).map(|v| f64_from(&v[i])).unwrap_or(0.0)) };
    (0..n).map(|i| (0..n).map(|j| if i == j { g("main", i) } else if i == j + 1 { g("sub", j) } else if i + 1 == j { g("sup", i) } else { (0.0, 0.0) }).collect()).collect()
}

// ------------------------------------------------------------------ histories
enum Res<T> { None, T(Tridiagonal<T>), V(Vector<T>), S(T), N(usize), Diags(Vector<T>, Vector<T>, Vector<T>), M(ohsl::Matrix<T>), Det(T), X(Vector<T>), D(Vec<(i64, i64)>) }

fn argx<T: BE>(op: &Value, k: &str) -> T { let ki = format!("{}i", k); scal::<T>(&op[k], if T::CX { op.get(&ki) } else { None }) }

/// operations that exist for f64 only (f64 * Tridiagonal)
fn lmul<T: BE>(m: &Tridiagonal<T>, s: i64) -> Tridiagonal<T> {
    let any: &dyn std::any::Any = m;
    let t: &Tridiagonal<f64> = any.downcast_ref().unwrap_or_else(|| tool_error("lmul_f64 needs f64"));
    let r: Tridiagonal<f64> = (s as f64) * t.clone();
    let b: Box<dyn std::any::Any> = Box::new(r);
    *b.downcast::<Tridiagonal<T>>().unwrap()
}

fn step<T: BE>(m: &mut Tridiagonal<T>, op: &Value) -> Result<Res<T>, String> {
    let name = gets(op, "op").to_string();
    let own = gets(op, "form") == "own";
    guarded(|| {
        match name.as_str() {
            "convert" => Res::M(m.convert()),
            "get" => Res::S(m[(getu(op, "i"), getu(op, "j"))]),
            "size" => Res::N(m.size()),
            "diags" => Res::Diags(m.subdiagonal().clone(), m.maindiagonal().clone(), m.superdiagonal().clone()),
            "with_vecs" => { *m = tri_from::<T>(op, "vecs"); Res::None }
            "with_vectors" => { *m = tri_from::<T>(op, "vectors"); Res::None }
            "with_elements" => { *m = Tridiagonal::with_elements(argx::<T>(op, "lo"), argx::<T>(op, "di"), argx::<T>(op, "up"), getu(op, "n")); Res::None }
            "new" => { *m = Tridiagonal::<T>::new(getu(op, "n")); Res::None }
            "clone" => Res::T(m.clone()),
            "set" => { m[(getu(op, "i"), getu(op, "j"))] = argx::<T>(op, "x"); Res::None }
            "transpose_in_place" => { m.transpose_in_place(); Res::None }
            "transpose" => Res::T(m.transpose()),
            "neg" => Res::T(-(m.clone())),
            "add" => Res::T(m.clone() + tri_from::<T>(&op["b"], "vecs")),
            "sub" => Res::T(m.clone() - tri_from::<T>(&op["b"], "vecs")),
            "mul_scalar" => Res::T(m.clone() * argx::<T>(op, "s")),
            "lmul_f64" => Res::T(lmul(m, geti(op, "s"))),
            "div_scalar" => Res::T(m.clone() / argx::<T>(op, "s")),
            "mul_assign" => { *m *= argx::<T>(op, "s"); Res::None }
            "div_assign" => { *m /= argx::<T>(op, "s"); Res::None }
            "add_scalar_assign" => { *m += argx::<T>(op, "s"); Res::None }
            "sub_scalar_assign" => { *m -= argx::<T>(op, "s"); Res::None }
            "matvec" => { let v = vec_of::<T>(&op["v"], if T::CX { op.get("vi") } else { None }); Res::V(if own { m.clone() * v } else { &*m * &v }) }
            "resize" => { m.resize(getu(op, "n")); Res::None }
            "det" => Res::Det(m.det()),
            // the same calls on a clone of the object
            "clone_det" => Res::Det(m.clone().det()),
            "clone_solve" => { let r = vec_of::<T>(&op["r"], if T::CX { op.get("ri") } else { None }); Res::X(m.clone().solve(&r)) }
            "solve" => { let r = vec_of::<T>(&op["r"], if T::CX { op.get("ri") } else { None }); Res::X(m.solve(&r)) }
            // all reads through the index operator
            "dense" => { let n = m.size(); let mut d = vec![(0i64, 0i64); n * n];
                for i in 0..n { for j in i.saturating_sub(1)..(i + 2).min(n) { d[i * n + j] = m[(i, j)].to_ri(); } } Res::D(d) }
            // re-binding: the object is replaced by the result of an operator applied to it
            "rebind_neg" => { let t = std::mem::replace(m, Tridiagonal::empty()); *m = -t; Res::None }
            "rebind_add" => { let t = std::mem::replace(m, Tridiagonal::empty()); *m = t + tri_from::<T>(&op["b"], "vecs"); Res::None }
            "rebind_sub" => { let t = std::mem::replace(m, Tridiagonal::empty()); *m = t - tri_from::<T>(&op["b"], "vecs"); Res::None }
            "rebind_mul" => { let t = std::mem::replace(m, Tridiagonal::empty()); *m = t * argx::<T>(op, "s"); Res::None }
            "rebind_div" => { let t = std::mem::replace(m, Tridiagonal::empty()); *m = t / argx::<T>(op, "s"); Res::None }
            other => tool_error(&format!("unknown tridiag op {}", other)),
        }
    })
}

fn run_hist_from<T: BE>(case: &Value, out: &mut Out, k0: usize) { run_on::<T>(None, case, out, k0); }
/// a second object built in one of several ways ("vecs", "vectors", "index", "resized": grown from a 1 x 1 matrix, "clone": a clone whose original is dropped)
fn aux_build<T: BE>(b: &Value, how: &str) -> Tridiagonal<T> {
    match how {
        "resized" => { let src = tri_from::<T>(b, "vecs"); let n = src.size(); let mut a = Tridiagonal::<T>::new(1); a.resize(n);
            for i in 0..n { for j in i.saturating_sub(1)..(i + 2).min(n) { a[(i, j)] = src[(i, j)]; } } a }
        "clone" => { let o = tri_from::<T>(b, "vecs"); let c = o.clone(); drop(o); c }
        h => tri_from::<T>(b, h),
    }
}
/// the history of `case` on the object `m0` (or on the object the case prescribes); returns the object
fn run_on<T: BE>(m0: Option<Tridiagonal<T>>, case: &Value, out: &mut Out, k0: usize) -> Option<Tridiagonal<T>> {
    let cid = geti(case, "cid");
    let mut m = match m0 { Some(m) => m, None => match if k0 == 0 { construct::<T>(case, out) } else { guarded(|| tri_from::<T>(&case["tri"], gets(case, "ctor"))).ok() } { Some(m) => m, None => return None } };
    let mut aux: Option<Tridiagonal<T>> = None; let mut snap = [Value::Null, Value::Null];
    for (k, op) in case["ops"].as_array().unwrap().iter().enumerate() {
        let k = k + k0;
        // ---- a second, persistent object: Clone::clone_from in both directions, independence
        match gets(op, "op") {
            "aux_new" => { aux = guarded(|| aux_build::<T>(&op["b"], gets(op, "how"))).ok(); if let Some(a) = &aux { snap = [jtri(a, Part::Re), jtri(a, Part::Im)]; } continue; }
            "on_aux" => { if let Some(a) = aux.take() { let mut sub = json!({"cid": cid, "kind": "hist", "ops": op["ops"]}); if let Some(x) = case.get("exact") { sub["exact"] = x.clone(); }
                aux = run_on::<T>(Some(a), &sub, out, 1000 * (k + 1)); if let Some(a) = &aux { snap = [jtri(a, Part::Re), jtri(a, Part::Im)]; } } continue; }
            name @ ("clone_from" | "clone_into" | "aux_same" | "reclone") => {
                let seq = gets(case, "kind") == "seq";
                let pre = [jtri(&m, Part::Re), jtri(&m, Part::Im)];
                let mut extra: Vec<(&str, [Value; 2])> = vec![];
                let r = guarded(|| match name {
                    "clone_from" => { let a = aux.as_ref().unwrap_or_else(|| tool_error("no aux")); extra.push(("b", [jtri(a, Part::Re), jtri(a, Part::Im)])); m.clone_from(a); extra.push(("bpost", [jtri(a, Part::Re), jtri(a, Part::Im)])); }
                    "clone_into" => { let a = aux.as_mut().unwrap_or_else(|| tool_error("no aux")); a.clone_from(&m); snap = [jtri(a, Part::Re), jtri(a, Part::Im)]; extra.push(("rt", snap.clone())); }
                    "aux_same" => { let a = aux.as_ref().unwrap_or_else(|| tool_error("no aux")); extra.push(("rt", [jtri(a, Part::Re), jtri(a, Part::Im)])); extra.push(("want", snap.clone())); }
                    _ => { let c = m.clone(); let old = std::mem::replace(&mut m, c); drop(old); }
                });
                let post = [jtri(&m, Part::Re), jtri(&m, Part::Im)];
                for w in 0..(if T::CX { 2 } else { 1 }) {
                    let mut e = json!({"op": name, "ty": T::NAME, "cid": cid, "k": k, "panic": r.is_err(), "pre": pre[w], "post": post[w], "part": if w == 0 { "re" } else { "im" }});
                    if seq { e["seq"] = json!(true); }
                    for key in ["b", "bpost", "rt", "want"] { e[key] = post[w].clone(); }      // (fields the trace spec may look at must exist)
                    for (key, v) in &extra { e[*key] = v[w].clone(); }
                    out.ev(e);
                }
                continue;
            }
            _ => {}
        }
        // a DIFFERENT object on the same thread, in the middle of the history: its own (stand-alone) events
        if gets(op, "op") == "other" { let mut sub = op["case"].clone(); sub["cid"] = json!(cid); run_hist_from::<T>(&sub, out, 1000 * (k + 1)); continue; }
        let name = match gets(op, "op") { "clone_solve" => "solve", "clone_det" => "det", s => s };
        let exact = T::NAME == "rat" || case.get("exact").and_then(|v| v.as_bool()) == Some(true);   // floats: the generator vouches for exact arithmetic
        let pre = [jtri(&m, Part::Re), jtri(&m, Part::Im)];
        let r = step(&mut m, op);
        let post = if m.size() == 0 { [pre[0].clone(), pre[1].clone()] } else { [jtri(&m, Part::Re), jtri(&m, Part::Im)] };   // (a rebind that panicked leaves the placeholder)
        let panic = r.is_err();
        let r_msg: Option<String> = r.as_ref().err().cloned();
        let res = r.unwrap_or(Res::None);
        let seq = gets(case, "kind") == "seq";
        let base = |w: usize| -> Value { let mut e = json!({"op": name, "ty": T::NAME, "cid": cid, "k": k, "panic": panic, "pre": pre[w], "post": post[w], "part": if w == 0 { "re" } else { "im" }});
            if seq { e["seq"] = json!(true); } e };
        // determinant / solve on the CURRENT state of the object (sequences)
        if name == "det" || name == "solve" {
            let mut e = base(0); if let Some(o) = e.as_object_mut() { o.remove("post"); o.remove("part"); }
            let n = getu(&pre[0], "n");
            if name == "solve" && op["r"].as_array().map(|a| a.len()).unwrap_or(n) != n {
                // right-hand side of another size: the call must refuse, whatever the element type
                e["r"] = op["r"].clone(); out.ev(e); continue;
            }
            if T::CX { e["prei"] = pre[1].clone(); }
            if exact && T::CX {
                // real or Gaussian-integer data on which the complex float arithmetic is exact: judged over Gaussian rationals
                if name == "det" { let (rq, rqi) = match (if let Res::Det(d) = &res { to_rat2(d) } else { None }) { Some((a, b)) => (jrat(a), jrat(b)), None => (json!([BAD, 1]), json!([BAD, 1])) };
                    e["op"] = json!("det_cx"); e["rq"] = rq; e["rqi"] = rqi; }
                else { let msg = r_msg.clone().unwrap_or_default();
                    let conv: Option<Vec<(Rat, Rat)>> = if let Res::X(x) = &res { x.vec.iter().map(to_rat2).collect() } else { None };
                    let (xs, xsi, l) = match conv.and_then(|v| cx_common_den(&v, LIM)) { Some((a, b, l)) => (Value::from(a), Value::from(b), json!(l)), None => (Value::from(vec![BAD; n]), Value::from(vec![BAD; n]), json!(BAD)) };
                    e["op"] = json!("solve_cx"); e["r"] = op["r"].clone(); e["ri"] = op.get("ri").cloned().unwrap_or_else(|| zeros_like(&op["r"]));
                    e["zero"] = json!(panic && mentions_zero(&msg)); e["msg"] = json!(msg); e["xs"] = xs; e["xsi"] = xsi; e["L"] = l; }
                out.ev(e); continue;
            }
            if name == "det" {
                if exact { e["rq"] = match &res { Res::Det(d) => to_rat(d).map(|p| jrat(p.0)).unwrap_or(json!([BAD, 1])), _ => json!([BAD, 1]) }; }
                else {
                    let mut tj = pre[0].clone(); for f in ["sub", "main", "sup"] { let fi = format!("{}i", f); tj[fi.as_str()] = pre[1][f].clone(); }
                    e["op"] = json!("det_units"); e["cxf"] = json!(T::CX); e["n"] = json!(n);
                    e["units"] = json!(det_units_of(&dense_case(&tj), if let Res::Det(d) = &res { Some(d.to_c()) } else { None }));
                }
                out.ev(e);
            } else if exact {
                let msg = match &r_msg { Some(s) => s.clone(), None => String::new() };
                e["r"] = op["r"].clone(); e["msg"] = json!(msg); e["zero"] = json!(panic && mentions_zero(&msg));
                let conv: Option<Vec<(Rat, bool)>> = if let Res::X(x) = &res { x.vec.iter().map(to_rat).collect() } else { None };
                let scaled = conv.and_then(|v| common_den(&v.iter().map(|p| p.0).collect::<Vec<Rat>>(), LIM));
                match scaled { Some((xs, l)) => { e["xs"] = Value::from(xs); e["L"] = json!(l); } None => { e["xs"] = Value::from(vec![BAD; n]); e["L"] = json!(BAD); } }
                e["imzero"] = json!(true);
                out.ev(e);
            } else {
                // floats: backward-error units against the logged current state; the trace spec demands the bound where
                // its model state is strictly diagonally dominant
                let mut tj = pre[0].clone(); for f in ["sub", "main", "sup"] { let fi = format!("{}i", f); tj[fi.as_str()] = pre[1][f].clone(); }
                let dense = dense_case(&tj);
                let rc: Vec<(f64, f64)> = vec_of::<T>(&op["r"], if T::CX { op.get("ri") } else { None }).vec.iter().map(|x| x.to_c()).collect();
                let su = if let Res::X(x) = &res { backward_units(&dense, &x.vec.iter().map(|v| v.to_c()).collect::<Vec<_>>(), &rc) } else { SAT };
                e["op"] = json!("solve_dd"); e["units"] = json!(su); e["cxf"] = json!(T::CX); e["n"] = json!(n);
                out.ev(e);
            }
            continue;
        }
        if T::CX && name == "matvec" {
            let mut e = base(0); e["op"] = json!("matvec_cx"); e["prei"] = pre[1].clone();
            e["v"] = op["v"].clone(); e["vi"] = op.get("vi").cloned().unwrap_or_else(|| zeros_like(&op["v"]));
            if let Res::V(v) = &res { e["rre"] = jvec(v, Part::Re); e["rim"] = jvec(v, Part::Im); } else { e["rre"] = json!([]); e["rim"] = json!([]); }
            out.ev(e); continue;
        }
        if T::CX && matches!(name, "mul_scalar" | "mul_assign" | "rebind_mul") && op.get("si").and_then(|v| v.as_i64()).unwrap_or(0) != 0 {
            let mut e = base(0); e["op"] = json!("scale_cx"); e["src"] = json!(name); e["prei"] = pre[1].clone(); e["s"] = op["s"].clone(); e["si"] = op["si"].clone();
            match &res { Res::T(b) => { e["rt"] = jtri(b, Part::Re); e["rti"] = jtri(b, Part::Im); } _ => { e["rt"] = post[0].clone(); e["rti"] = post[1].clone(); } }
            out.ev(e); continue;
        }
        if T::CX && matches!(name, "div_scalar" | "div_assign" | "rebind_div") && op.get("si").and_then(|v| v.as_i64()).unwrap_or(0) != 0 {
            let mut e = base(0); e["op"] = json!("div_cx"); e["src"] = json!(name); e["prei"] = pre[1].clone(); e["s"] = op["s"].clone(); e["si"] = op["si"].clone();
            match &res { Res::T(b) => { e["rt"] = jtri(b, Part::Re); e["rti"] = jtri(b, Part::Im); } _ => { e["rt"] = post[0].clone(); e["rti"] = post[1].clone(); } }
            out.ev(e); continue;
        }
        let parts = if T::CX && name != "size" { 2 } else { 1 };
        for w in 0..parts {
            let pw = if w == 0 { Part::Re } else { Part::Im };
            let mut e = base(w);
            for key in ["i", "j", "n", "form"] { if let Some(v) = op.get(key) { e[key] = v.clone(); } }
            if name == "resize" { e["n2"] = op["n"].clone(); }
            let factor = matches!(name, "mul_scalar" | "div_scalar" | "mul_assign" | "div_assign" | "lmul_f64" | "rebind_mul" | "rebind_div");
            for key in ["x", "lo", "di", "up", "s", "v", "sub", "main", "sup"] {
                if let Some(v) = op.get(key) {
                    let ki = format!("{}i", key);
                    e[key] = if w == 0 || (factor && key == "s") { v.clone() } else { op.get(&ki).cloned().unwrap_or_else(|| if v.is_array() { zeros_like(v) } else { json!(0) }) };
                }
            }
            if let Some(b) = op.get("b") { e["b"] = if w == 0 { re_tri(b) } else { im_tri(b) }; }
            match &res {
                Res::T(t) => e["rt"] = jtri(t, pw),
                Res::V(v) => e["rv"] = jvec(v, pw),
                Res::S(x) => e["ri"] = json!(part(x.to_ri(), pw)),
                Res::N(a) => e["rn"] = json!(a),
                Res::Diags(a, b, c) => { e["rsub"] = jvec(a, pw); e["rmain"] = jvec(b, pw); e["rsup"] = jvec(c, pw); }
                Res::M(d) => e["rm"] = jmat(d, pw),
                Res::D(d) => { let n = getu(&pre[0], "n"); e["rm"] = json!({"r": n, "c": n, "d": d.iter().map(|p| part(*p, pw)).collect::<Vec<i64>>()}); }
                Res::None | Res::Det(_) | Res::X(_) => {}
            }
            if panic {   // fields the trace spec may look at must exist
                match name { "get" => e["ri"] = json!(BAD), "matvec" => e["rv"] = json!([]), "convert" | "dense" => e["rm"] = json!({"r": 0, "c": 0, "d": []}), "size" => e["rn"] = json!(BAD),
                    "diags" => { e["rsub"] = json!([]); e["rmain"] = json!([]); e["rsup"] = json!([]); }
                    "clone" | "neg" | "add" | "sub" | "mul_scalar" | "div_scalar" | "transpose" | "lmul_f64" => e["rt"] = post[w].clone(), _ => {} }
            }
            out.ev(e);
        }
    }
    Some(m)
}

// ------------------------------------------------------------------ det / solve on one matrix
fn to_rat<T: BE>(x: &T) -> Option<(Rat, bool)> {
    let any: &dyn std::any::Any = x;
    if let Some(r) = any.downcast_ref::<Rat>() { return Some((*r, true)); }
    let (re, im) = x.to_c(); f64_to_rat(re).map(|r| (r, im == 0.0))
}
/// determinant: the recurrence in double-double, error in units of eps * F_n (recurrence on absolute values)
fn det_units_of(dense: &[Vec<(f64, f64)>], det: Option<(f64, f64)>) -> i64 {
    let n = dense.len(); let c = |p: (f64, f64)| CDD::from(p.0, p.1);
    let (mut f0, mut f1) = (CDD::from(1.0, 0.0), c(dense[0][0])); let (mut a0, mut a1) = (1.0f64, c(dense[0][0]).abs());
    for j in 1..n { let f2 = c(dense[j][j]).mul(f1).sub(c(dense[j][j - 1]).mul(c(dense[j - 1][j])).mul(f0));
        let a2 = c(dense[j][j]).abs() * a1 + c(dense[j][j - 1]).abs() * c(dense[j - 1][j]).abs() * a0; f0 = f1; f1 = f2; a0 = a1; a1 = a2; }
    match det { Some((re, im)) => if re.is_finite() && im.is_finite() { units(CDD::from(re, im).sub(f1).abs(), f64::EPSILON * a1) } else { SAT }, None => SAT }
}
fn mentions_zero(msg: &str) -> bool { msg.to_lowercase().contains("zero") }

fn run_sol<T: BE>(case: &Value, out: &mut Out) {
    let cid = geti(case, "cid");
    let n = getu(&case["tri"], "n");
    // exponent sweep (exact modes): the matrix actually built is 2^xa * T, the right-hand side 2^xb * r; the events speak
    // about the integer system T x = r (homogeneity: the solution is rescaled by exactly 2^(xa - xb), det by 2^(-n xa))
    let xa = case.get("xa").and_then(|v| v.as_i64()).unwrap_or(0); let xb = case.get("xb").and_then(|v| v.as_i64()).unwrap_or(0);
    let scase = if xa == 0 && xb == 0 { case.clone() } else { let mut c = case.clone();
        for f in ["sub", "main", "sup", "subi", "maini", "supi"] { if let Some(v) = case["tri"].get(f) { c["tri"][f] = Value::from(v.as_array().unwrap().iter().map(|x| jscale(x, xa)).collect::<Vec<Value>>()); } }
        for f in ["r", "ri"] { if let Some(v) = case.get(f) { c[f] = Value::from(v.as_array().unwrap().iter().map(|x| jscale(x, xb)).collect::<Vec<Value>>()); } } c };
    let m = match construct::<T>(&scase, out) { Some(m) => m, None => return };
    let r = vec_of::<T>(&scase["r"], if T::CX { scase.get("ri") } else { None });
    let mode = if T::NAME == "rat" { "exact" } else { match gets(case, "mode") { "" => "outcome", s => s } };
    let mut k = 0usize;
    let emit = |out: &mut Out, k: &mut usize, mut e: Value| { e["ty"] = json!(T::NAME); e["cid"] = json!(cid); e["k"] = json!(*k); e["mode"] = json!(mode); *k += 1; out.ev(e); };
    let det = guarded(|| m.det()).map(|d| sc(d, -xa * n as i64));
    let sol = guarded(|| m.solve(&r)).map(|x| Vector::create(x.vec.iter().map(|v| sc(*v, xa - xb)).collect()));
    let (panic, msg) = match &sol { Ok(_) => (false, String::new()), Err(s) => (true, s.clone()) };
    let nodet = case.get("nodet").is_some();
    if T::CX && mode == "exact" {
        // Gaussian-integer data on which every complex float operation of the Thomas algorithm is exact: judged over Gaussian rationals
        let (pre, prei) = (re_tri(&case["tri"]), im_tri(&case["tri"]));
        let ri = case.get("ri").cloned().unwrap_or_else(|| zeros_like(&case["r"]));
        let (rq, rqi) = match det.as_ref().ok().and_then(to_rat2) { Some((a, b)) => (jrat(a), jrat(b)), None => (json!([BAD, 1]), json!([BAD, 1])) };
        if !nodet { emit(out, &mut k, json!({"op": "det_cx", "pre": pre, "prei": prei, "panic": det.is_err(), "rq": rq, "rqi": rqi})); }
        let conv: Option<Vec<(Rat, Rat)>> = sol.as_ref().ok().and_then(|x| x.vec.iter().map(to_rat2).collect());
        let (xs, xsi, l) = match conv.and_then(|v| cx_common_den(&v, LIM)) { Some((a, b, l)) => (Value::from(a), Value::from(b), json!(l)), None => (Value::from(vec![BAD; n]), Value::from(vec![BAD; n]), json!(BAD)) };
        emit(out, &mut k, json!({"op": "solve_cx", "pre": pre, "prei": prei, "r": case["r"], "ri": ri, "panic": panic, "msg": msg, "zero": panic && mentions_zero(&msg), "xs": xs, "xsi": xsi, "L": l}));
    } else if mode != "units" {
        // operand = the matrix the CASE prescribes (kept inside TLC's integers by the generators); the "built" event
        // checks that the object under test holds exactly these diagonals
        let pre = re_tri(&case["tri"]);
        // determinant: exact where the arithmetic is (Rat; floats on small integers: every term is an integer below 2^53)
        let rq = match &det { Ok(d) => match to_rat(d) { Some((q, true)) => jrat(q), _ => json!([BAD, 1]) }, Err(_) => json!([BAD, 1]) };
        if !nodet { emit(out, &mut k, json!({"op": "det", "pre": pre, "panic": det.is_err(), "rq": rq})); }
        let mut e = json!({"op": "solve", "pre": pre, "r": case["r"], "panic": panic, "msg": msg, "zero": panic && mentions_zero(&msg)});
        let conv: Option<Vec<(Rat, bool)>> = sol.as_ref().ok().and_then(|x| x.vec.iter().map(to_rat).collect());
        let imzero = conv.as_ref().map(|v| v.iter().all(|p| p.1)).unwrap_or(false);
        let scaled = conv.and_then(|v| common_den(&v.iter().map(|p| p.0).collect::<Vec<Rat>>(), LIM));
        match (mode, scaled) {
            ("exact", Some((xs, l))) => { e["xs"] = Value::from(xs); e["L"] = json!(l); e["imzero"] = json!(imzero); }
            ("exact", None) => { e["xs"] = Value::from(vec![BAD; n]); e["L"] = json!(BAD); e["imzero"] = json!(imzero); }
            _ => { e["op"] = json!("solve_outcome"); e["finite"] = json!(sol.as_ref().map(|x| x.vec.iter().all(|v| { let c = v.to_c(); c.0.is_finite() && c.1.is_finite() })).unwrap_or(true)); }
        }
        emit(out, &mut k, e);
    } else {
        // extreme magnitudes: the case says T = T0 * 2^ea, r = r0 * 2^eb; the error measures are invariant under such uniform
        // scalings and are evaluated on the descaled data (exact power-of-two rescalings, nothing overflows in the measurement)
        let ea = case.get("ea").and_then(|v| v.as_i64()).unwrap_or(0); let eb = case.get("eb").and_then(|v| v.as_i64()).unwrap_or(0);
        let sc = |p: (f64, f64), k: i64| (scale2(p.0, k), scale2(p.1, k));
        let dense: Vec<Vec<(f64, f64)>> = dense_case(&case["tri"]).iter().map(|row| row.iter().map(|p| sc(*p, -ea)).collect()).collect();
        let rc: Vec<(f64, f64)> = r.vec.iter().map(|x| sc(x.to_c(), -eb)).collect();
        let su = match &sol { Ok(x) => backward_units(&dense, &x.vec.iter().map(|v| sc(v.to_c(), ea - eb)).collect::<Vec<_>>(), &rc), Err(_) => SAT };
        emit(out, &mut k, json!({"op": "solve_units", "n": n, "cxf": T::CX, "panic": panic, "units": su, "msg": msg}));
        // determinant: only while 2^(n ea) keeps it inside the f64 range; row / column graded cases are judged on solve only
        if ea.abs() * n as i64 <= 900 && case.get("graded").is_none() {
            let du = det_units_of(&dense, det.as_ref().ok().map(|d| sc(d.to_c(), -ea * n as i64)));
            emit(out, &mut k, json!({"op": "det_units", "n": n, "cxf": T::CX, "panic": det.is_err(), "units": du}));
        }
    }
    // product, conversion, accessors on the same matrix (integer data only)
    let ints = ["sub", "main", "sup", "subi", "maini", "supi"].iter().all(|f| case["tri"].get(*f).map(|v| v.as_array().unwrap().iter().all(|x| x.is_i64())).unwrap_or(true));
    if ints && case.get("aux").and_then(|v| v.as_bool()) != Some(false) {
        let v = case.get("v").cloned().unwrap_or_else(|| Value::from((1..=n as i64).map(|j| 2 * j - 3).collect::<Vec<i64>>()));
        let vi = case.get("vi").cloned().unwrap_or_else(|| zeros_like(&v));
        let sub = json!({"cid": cid, "tri": case["tri"], "ctor": case.get("ctor").cloned().unwrap_or(json!("vecs")), "ops": [{"op": "matvec", "form": if cid % 2 == 0 { "own" } else { "ref" }, "v": v, "vi": vi}, {"op": "convert"}, {"op": "diags"}, {"op": "size"}]});
        run_hist_from::<T>(&sub, out, k);
    }
}

pub fn exec(case: &Value, out: &mut Out) {
    let _guard = super::banded::narrowed(case);        // "cpus": k -> run with the process restricted to k CPUs
    if gets(case, "kind") == "eps" { match gets(case, "ty") { "f64" => run_eps::<f64>(case, out), "cx" => run_eps::<Cmplx>(case, out), t => tool_error(&format!("eps case for type {}", t)) } return; }
    let hist = matches!(gets(case, "kind"), "hist" | "seq");
    match (gets(case, "ty"), hist) {
        ("rat", true) => run_hist_from::<Rat>(case, out, 0), ("f64", true) => run_hist_from::<f64>(case, out, 0), ("cx", true) => run_hist_from::<Cmplx>(case, out, 0),
        ("rat", false) => run_sol::<Rat>(case, out), ("f64", false) => run_sol::<f64>(case, out), ("cx", false) => run_sol::<Cmplx>(case, out),
        (t, _) => tool_error(&format!("unknown type {}", t)),
    }
}

// ------------------------------------------------------------------ case generation
const TYS: [&str; 3] = ["rat", "f64", "cx"];
fn rv(rng: &mut StdRng, n: usize, lo: i64, hi: i64) -> Vec<i64> { (0..n).map(|_| rng.gen_range(lo..=hi)).collect() }
fn tri_json(sub: &[i64], main: &[i64], sup: &[i64]) -> Value { json!({"n": main.len(), "sub": sub, "main": main, "sup": sup}) }
fn rand_tri(rng: &mut StdRng, n: usize, lo: i64, hi: i64, cx: bool) -> Value {
    let mut t = tri_json(&rv(rng, n - 1, lo, hi), &rv(rng, n, lo, hi), &rv(rng, n - 1, lo, hi));
    if cx { t["subi"] = Value::from(rv(rng, n - 1, lo, hi)); t["maini"] = Value::from(rv(rng, n, lo, hi)); t["supi"] = Value::from(rv(rng, n - 1, lo, hi)); }
    t
}
/// leading principal minors by the recurrence, evaluated exactly as Tridiag.tla does; (minors, largest intermediate)
fn minors(sub: &[i64], main: &[i64], sup: &[i64]) -> (Vec<i128>, i128) {
    let n = main.len(); let mut f: Vec<i128> = vec![1, main[0] as i128]; let mut big: i128 = main[0].abs() as i128;
    for j in 2..=n { let t1 = main[j - 1] as i128 * f[j - 1]; let t2 = (sub[j - 2] as i128 * sup[j - 2] as i128) * f[j - 2]; let d = t1 - t2;
        big = big.max(t1.abs()).max(t2.abs()).max(d.abs()); f.push(d); }
    (f, big)
}
/// can TLC decide this exact case inside 32-bit integers?
fn fits_tlc(sub: &[i64], main: &[i64], sup: &[i64], r: &[i64]) -> bool {
    let n = main.len(); let (f, big) = minors(sub, main, sup);
    if big >= (1 << 30) { return false; }
    if f[1..].iter().any(|x| *x == 0) { return true; }        // the model refuses: no solution to check
    let a: Vec<Vec<Rat>> = (0..n).map(|i| (0..n).map(|j| Rat::int(if i == j { main[i] } else if i == j + 1 { sub[j] } else if i + 1 == j { sup[i] } else { 0 })).collect()).collect();
    let b: Vec<Rat> = r.iter().map(|x| Rat::int(*x)).collect();
    match super::banded::exact_solve(&a, &b) { Some(x) => common_den(&x, LIM).is_some(), None => false }
}
/// data on which every operation of the Thomas algorithm is exact in binary floating point: pivots beta_j in
/// {+-1, +-2}, integer ratios gamma_j; `zero_at` = Some(s) makes the pivot of step s vanish (s = 0: leading entry)
fn dyadic(rng: &mut StdRng, n: usize, zero_at: Option<usize>) -> (Vec<i64>, Vec<i64>, Vec<i64>) {
    let mut beta: Vec<i64> = (0..n).map(|_| { let b = if rng.gen_bool(0.25) { 2 } else { 1 }; if rng.gen_bool(0.5) { b } else { -b } }).collect();
    if let Some(s) = zero_at { beta[s] = 0; }
    let g = rv(rng, n.saturating_sub(1), -3, 3); let sub = rv(rng, n.saturating_sub(1), -3, 3);
    let mut main = vec![beta[0]]; let mut sup = vec![];
    for j in 0..n.saturating_sub(1) {
        // after the zero pivot nothing is constrained any more
        let bj = if beta[j] == 0 || zero_at.map(|s| j > s).unwrap_or(false) { 1 } else { beta[j] };
        sup.push(bj * g[j]); main.push(beta[j + 1] + sub[j] * g[j]);
    }
    (sub, main, sup)
}
type G = (i64, i64);
fn gmul(a: G, b: G) -> G { (a.0 * b.0 - a.1 * b.1, a.0 * b.1 + a.1 * b.0) }
/// the Gaussian-integer version of `dyadic`: pivots from PIVOTS (squared modulus a power of two, mostly purely imaginary),
/// Gaussian-integer multipliers; every complex float operation of the Thomas algorithm is exact on these data
fn gauss_dyadic(rng: &mut StdRng, n: usize, zero_at: Option<usize>) -> (Vec<G>, Vec<G>, Vec<G>) {
    let mut beta: Vec<G> = (0..n).map(|_| PIVOTS[rng.gen_range(0..PIVOTS.len())]).collect();
    if let Some(s) = zero_at { beta[s] = (0, 0); }
    let g: Vec<G> = (0..n.saturating_sub(1)).map(|_| gint(rng, 2)).collect(); let sub: Vec<G> = (0..n.saturating_sub(1)).map(|_| gint(rng, 3)).collect();
    let mut main = vec![beta[0]]; let mut sup = vec![];
    for j in 0..n.saturating_sub(1) {
        let bj = if beta[j] == (0, 0) || zero_at.map(|s| j > s).unwrap_or(false) { (1, 0) } else { beta[j] };
        sup.push(gmul(bj, g[j])); let t = gmul(sub[j], g[j]); main.push((beta[j + 1].0 + t.0, beta[j + 1].1 + t.1));
    }
    (sub, main, sup)
}
/// can TLC decide this Gaussian-integer case (complex minors and residual inside 32-bit integers)?
fn fits_tlc_cx(sub: &[G], main: &[G], sup: &[G], r: &[G]) -> bool {
    let n = main.len(); let w = |p: G| (p.0 as i128, p.1 as i128);
    let mut big = 0i128; let mut mul = |a: (i128, i128), b: (i128, i128)| { let t = [a.0 * b.0, a.1 * b.1, a.0 * b.1, a.1 * b.0]; for v in t { big = big.max(v.abs()); } (t[0] - t[1], t[2] + t[3]) };
    let mut f: Vec<(i128, i128)> = vec![(1, 0), w(main[0])];
    for j in 2..=n { let t1 = mul(w(main[j - 1]), f[j - 1]); let ss = mul(w(sub[j - 2]), w(sup[j - 2])); let t2 = mul(ss, f[j - 2]); f.push((t1.0 - t2.0, t1.1 - t2.1)); }
    let fmax = f.iter().map(|p| p.0.abs().max(p.1.abs())).max().unwrap();
    if big.max(fmax) >= (1 << 29) { return false; }
    if f[1..].iter().any(|p| *p == (0, 0)) { return true; }
    let a: Vec<Vec<G>> = (0..n).map(|i| (0..n).map(|j| if i == j { main[i] } else if i == j + 1 { sub[j] } else if i + 1 == j { sup[i] } else { (0, 0) }).collect()).collect();
    match gr_solve(&a, r) { Some(x) => cx_common_den(&x, LIM).is_some(), None => false }
}
fn gtri_json(sub: &[G], main: &[G], sup: &[G]) -> Value {
    let p = |v: &[G], k: usize| -> Vec<i64> { v.iter().map(|x| if k == 0 { x.0 } else { x.1 }).collect() };
    json!({"n": main.len(), "sub": p(sub, 0), "main": p(main, 0), "sup": p(sup, 0), "subi": p(sub, 1), "maini": p(main, 1), "supi": p(sup, 1)})
}
fn fl(rng: &mut StdRng) -> Value { json!({"m": rng.gen_range(-(1i64 << 20)..=(1i64 << 20)), "e": -rng.gen_range(14..=20)}) }

fn hist_ops(rng: &mut StdRng, n: usize, ty: &str, len: usize) -> Vec<Value> {
    let cx = ty == "cx";
    let mut ops = vec![json!({"op": "size"}), json!({"op": "diags"}), json!({"op": "convert"})];
    let mut scale_budget = 3;
    let mut picks: Vec<usize> = (0..22).collect();
    let inband = |rng: &mut StdRng| -> (usize, usize) { let i = rng.gen_range(0..n); let lo = i.saturating_sub(1); let hi = (i + 1).min(n - 1); (i, rng.gen_range(lo..=hi)) };
    for t in 0..len {
        let pick = if t < 22 { let k = rng.gen_range(0..picks.len()); picks.swap_remove(k) } else { rng.gen_range(0..22) };
        let form = if rng.gen_bool(0.5) { "own" } else { "ref" };
        let o = match pick {
            0 => { let (i, j) = inband(rng); json!({"op": "get", "i": i, "j": j}) }
            1 => json!({"op": "get", "i": rng.gen_range(0..n), "j": rng.gen_range(0..n)}),                 // possibly off the band
            2 | 3 => { let (i, j) = inband(rng); json!({"op": "set", "i": i, "j": j, "x": rng.gen_range(-9..=9), "xi": rng.gen_range(-9..=9)}) }
            4 => json!({"op": "transpose_in_place"}),
            5 => json!({"op": "transpose"}),
            6 => json!({"op": "neg"}),
            7 => json!({"op": "add", "b": rand_tri(rng, n, -9, 9, cx)}),
            8 => json!({"op": "sub", "b": rand_tri(rng, n, -9, 9, cx)}),
            9 => { let (s, si) = if cx && rng.gen_bool(0.6) { [(0i64, 1i64), (0, -1), (0, 2), (-1, 0)][rng.gen_range(0..4)] } else { (rng.gen_range(-3..=3), rng.gen_range(-3..=3)) }; json!({"op": "mul_scalar", "s": s, "si": si}) }
            10 => { let (s, si) = if cx { [(0i64, 1i64), (0, -1), (-1, 0), (1, 0)][rng.gen_range(0..4)] } else { (if rng.gen_bool(0.5) { 1 } else { -1 }, 0) }; json!({"op": "div_scalar", "s": s, "si": si}) }
            11 => if scale_budget == 0 { json!({"op": "clone"}) } else { scale_budget -= 1; json!({"op": "mul_assign", "s": ([-2i64, 2, 3, -1][rng.gen_range(0..4)]), "si": rng.gen_range(-1..=1)}) },
            12 => { let (s, si) = if cx { [(0i64, 1i64), (0, -1), (-1, 0), (1, 0)][rng.gen_range(0..4)] } else { (if rng.gen_bool(0.5) { 1 } else { -1 }, 0) }; json!({"op": "div_assign", "s": s, "si": si}) }
            13 => json!({"op": "add_scalar_assign", "s": rng.gen_range(-9..=9), "si": rng.gen_range(-9..=9)}),
            14 => json!({"op": "sub_scalar_assign", "s": rng.gen_range(-9..=9), "si": rng.gen_range(-9..=9)}),
            15 | 16 => json!({"op": "matvec", "form": form, "v": rv(rng, n, -5, 5), "vi": rv(rng, n, -5, 5)}),
            17 => json!({"op": "clone"}),
            18 => if ty == "f64" { json!({"op": "lmul_f64", "s": rng.gen_range(-3..=3)}) } else { json!({"op": "convert"}) },
            19 => { let mut o = rand_tri(rng, n, -9, 9, cx); o["op"] = json!(if rng.gen_bool(0.5) { "with_vecs" } else { "with_vectors" }); o }
            20 => json!({"op": "with_elements", "n": n, "lo": rng.gen_range(-9..=9), "di": rng.gen_range(-9..=9), "up": rng.gen_range(-9..=9), "loi": rng.gen_range(-9..=9), "dii": rng.gen_range(-9..=9), "upi": rng.gen_range(-9..=9)}),
            _ => json!({"op": "diags"}),
        };
        ops.push(o);
    }
    let s = [2i64, -2, 3, 5][rng.gen_range(0..4)];
    ops.push(json!({"op": "new", "n": n})); ops.push(json!({"op": "add_scalar_assign", "s": s * rng.gen_range(-4..=4), "si": s * rng.gen_range(-4..=4)}));
    ops.push(json!({"op": "mul_assign", "s": s}));
    if cx { ops.push(json!({"op": "mul_assign", "s": 2})); ops.push(json!({"op": "div_scalar", "s": 0, "si": 2})); ops.push(json!({"op": "div_assign", "s": 0, "si": -2})); ops.push(json!({"op": "mul_assign", "s": 0, "si": 1})); }
    ops.push(json!({"op": "div_scalar", "s": s})); ops.push(json!({"op": "div_assign", "s": s})); ops.push(json!({"op": "convert"}));
    if !cx { for o in ops.iter_mut() { if let Some(m) = o.as_object_mut() { for k in ["xi", "si", "vi", "loi", "dii", "upi"] { m.remove(k); } } } }
    ops
}

pub fn gen(tier: &str, seed: u64, out: &mut Out) {
    let quick = tier == "quick";
    let mut rng = rng(seed, 5);
    let mut cid = 0i64;
    let mut push = |out: &mut Out, mut c: Value| { cid += 1; c["cid"] = json!(cid); c["suite"] = json!("tridiag"); out.raw(&c); };
    let ctors = ["vecs", "vectors", "index"];
    for n in 1..=12usize {
        // (a) histories: every operation, every element type, all three ways of building the matrix
        for rep in 0..(if quick { 3 } else { 12 }) { for (t, ty) in TYS.iter().enumerate() {
            let mut ops = hist_ops(&mut rng, n, ty, if quick { 10 } else { 30 });
            // operands of another size (same total only by accident): sum, difference and product must refuse
            for n2 in [n + 1, n.saturating_sub(1)] { if n2 == 0 { continue; } let cx = *ty == "cx";
                ops.push(json!({"op": if (rep + n2) % 2 == 0 { "add" } else { "sub" }, "b": rand_tri(&mut rng, n2, 1, 9, cx)}));
                let mut mv = json!({"op": "matvec", "form": if rep % 2 == 0 { "own" } else { "ref" }, "v": rv(&mut rng, n2, -5, 5)}); if cx { mv["vi"] = Value::from(rv(&mut rng, n2, -5, 5)); } ops.push(mv);
                ops.push(json!({"op": "diags"})); }
            push(out, json!({"kind": "hist", "ty": ty, "ctor": ctors[(rep + t + n) % 3], "tri": rand_tri(&mut rng, n, -9, 9, *ty == "cx"), "ops": ops}));
        } }
        // (b) exact solve-or-refuse on general integer data (Rat) incl. zero sub/super-diagonal entries
        for rep in 0..(if quick { 6 } else { 40 }) {
            let mut v = 9i64; let mut tries = 0;
            let (sub, main, sup, r) = loop {
                let mut sub = rv(&mut rng, n - 1, -v, v); let main = rv(&mut rng, n, -v, v); let mut sup = rv(&mut rng, n - 1, -v, v); let r = rv(&mut rng, n, -9, 9);
                if rep % 2 == 1 { for k in 0..n - 1 { if rng.gen_bool(0.3) { sub[k] = 0; } if rng.gen_bool(0.3) { sup[k] = 0; } } }
                if fits_tlc(&sub, &main, &sup, &r) { break (sub, main, sup, r); }
                tries += 1; if tries % 3 == 0 && v > 1 { v = (v + 1) / 2; }
                if tries > 60 { break (vec![0; n - 1], vec![1; n], vec![0; n - 1], r); }
            };
            push(out, json!({"kind": "sol", "ty": "rat", "fam": "general", "ctor": ctors[rep % 3], "tri": tri_json(&sub, &main, &sup), "r": r, "v": rv(&mut rng, n, -5, 5)}));
        }
        // (c) a zero pivot arising at every chosen step s (s = 0: zero on the leading diagonal), and the same
        //     construction without a zero pivot; float arithmetic is exact on these data: all three types, mode exact
        let mut steps: Vec<Option<usize>> = (0..n).map(Some).collect(); steps.push(None); steps.push(None);
        for (q, s) in steps.iter().enumerate() { for rep in 0..(if quick { 1 } else { 4 }) {
            let mut tries = 0;
            let (sub, main, sup, r) = loop { let (sub, main, sup) = dyadic(&mut rng, n, *s); let r = rv(&mut rng, n, -9, 9);
                if fits_tlc(&sub, &main, &sup, &r) || tries > 60 { break (sub, main, sup, r); } tries += 1; };
            if !fits_tlc(&sub, &main, &sup, &r) { continue; }
            let tys: Vec<&str> = if quick { vec![TYS[(q + n) % 3], TYS[(q + n + 1) % 3]] } else { TYS.to_vec() };
            for ty in tys { push(out, json!({"kind": "sol", "ty": ty, "mode": "exact", "fam": if s.is_some() { "zero-pivot" } else { "dyadic" }, "step": s.map(|x| x as i64).unwrap_or(-1),
                "ctor": ctors[(q + rep) % 3], "tri": tri_json(&sub, &main, &sup), "r": r})); }
        } }
        // (c') the same over Gaussian integers (Complex): purely imaginary pivots, zero pivot at a chosen step, judged exactly
        let mut gsteps: Vec<Option<usize>> = vec![None, None, None]; if quick { gsteps.push(Some(rng.gen_range(0..n))); gsteps.push(Some(n - 1)); } else { gsteps.extend((0..n).map(Some)); gsteps.extend([None; 5]); }
        for (q, s) in gsteps.iter().enumerate() {
            let mut found = None;
            for _ in 0..80 { let (sub, main, sup) = gauss_dyadic(&mut rng, n, *s); let r: Vec<G> = (0..n).map(|_| gint(&mut rng, 5)).collect();
                if fits_tlc_cx(&sub, &main, &sup, &r) { found = Some((sub, main, sup, r)); break; } }
            if let Some((sub, main, sup, r)) = found {
                push(out, json!({"kind": "sol", "ty": "cx", "mode": "exact", "fam": if s.is_some() { "gauss-zero-pivot" } else { "gauss" }, "step": s.map(|x| x as i64).unwrap_or(-1), "ctor": ctors[q % 3],
                    "tri": gtri_json(&sub, &main, &sup), "r": r.iter().map(|p| p.0).collect::<Vec<i64>>(), "ri": r.iter().map(|p| p.1).collect::<Vec<i64>>(),
                    "v": rv(&mut rng, n, -3, 3), "vi": rv(&mut rng, n, -3, 3)}));
            }
        }
        // (c'') Complex, diagonally dominant, every entry exactly on the real or on the imaginary axis (integers): backward-error units
        for rep in 0..(if quick { 3 } else { 12 }) {
            let ax = |rng: &mut StdRng, v: i64| -> G { let x = rng.gen_range(1..=v) * if rng.gen_bool(0.5) { 1 } else { -1 }; if rng.gen_bool(0.6) { (0, x) } else { (x, 0) } };
            let sub: Vec<G> = (0..n - 1).map(|_| ax(&mut rng, 4)).collect(); let sup: Vec<G> = (0..n - 1).map(|_| ax(&mut rng, 4)).collect();
            let main: Vec<G> = (0..n).map(|_| { let x = rng.gen_range(10i64..=40) * if rng.gen_bool(0.5) { 1 } else { -1 }; if rep % 3 != 2 { (0, x) } else { (x, 0) } }).collect();
            let r: Vec<G> = (0..n).map(|_| gint(&mut rng, 9)).collect();
            push(out, json!({"kind": "sol", "ty": "cx", "mode": "units", "fam": "axis-dominant", "tri": gtri_json(&sub, &main, &sup),
                "r": r.iter().map(|p| p.0).collect::<Vec<i64>>(), "ri": r.iter().map(|p| p.1).collect::<Vec<i64>>(), "v": rv(&mut rng, n, -3, 3), "vi": rv(&mut rng, n, -3, 3)}));
        }
        // (d) diagonally dominant systems: Rat exact, floats in backward-error units
        for rep in 0..(if quick { 4 } else { 30 }) {
            let ty = TYS[rep % 3];
            if ty == "rat" {
                let mut tries = 0;
                let c = loop { let sub = rv(&mut rng, n - 1, -3, 3); let sup = rv(&mut rng, n - 1, -3, 3); let r = rv(&mut rng, n, -9, 9);
                    let main: Vec<i64> = (0..n).map(|i| { let s = (if i > 0 { sub[i - 1].abs() } else { 0 }) + (if i + 1 < n { sup[i].abs() } else { 0 }) + 1; if rng.gen_bool(0.5) { s } else { -s } }).collect();
                    if fits_tlc(&sub, &main, &sup, &r) || tries > 60 { break (sub, main, sup, r); } tries += 1; };
                if fits_tlc(&c.0, &c.1, &c.2, &c.3) { push(out, json!({"kind": "sol", "ty": "rat", "fam": "dominant", "tri": tri_json(&c.0, &c.1, &c.2), "r": c.3})); }
            } else {
                let cx = ty == "cx";
                let mut t = json!({"n": n, "sub": (0..n - 1).map(|_| fl(&mut rng)).collect::<Vec<Value>>(), "sup": (0..n - 1).map(|_| fl(&mut rng)).collect::<Vec<Value>>()});
                if cx { t["subi"] = Value::from((0..n - 1).map(|_| fl(&mut rng)).collect::<Vec<Value>>()); t["supi"] = Value::from((0..n - 1).map(|_| fl(&mut rng)).collect::<Vec<Value>>()); }
                // |main_i| >= 1.25 * (|sub| + |sup|) + something: off-diagonal entries are below 128 in modulus, so 2^9..2^10 dominates
                let main: Vec<Value> = (0..n).map(|_| json!({"m": (if rng.gen_bool(0.5) { 1 } else { -1 }) * rng.gen_range((1i64 << 19)..=(1i64 << 20)), "e": -10})).collect();
                t["main"] = Value::from(main);
                if cx { t["maini"] = Value::from((0..n).map(|_| fl(&mut rng)).collect::<Vec<Value>>()); }
                let mut c = json!({"kind": "sol", "ty": ty, "mode": "units", "fam": "dominant", "tri": t, "r": (0..n).map(|_| fl(&mut rng)).collect::<Vec<Value>>()});
                if cx { c["ri"] = Value::from((0..n).map(|_| fl(&mut rng)).collect::<Vec<Value>>()); }
                push(out, c);
            }
        }
        // (d') the same diagonally dominant float systems at extreme magnitudes: uniformly scaled by 2^+-60, 2^+-200, 2^+-400
        //      (solution O(1) or as extreme as the matrix), and row- / column-graded by such factors (both keep the dominance)
        for (q, ea) in [-400i64, -200, -60, 60, 200, 400].iter().enumerate() { for cx in [false, true] {
            if quick && (q + n + cx as usize) % 2 == 1 && ea.abs() == 60 { continue; }
            let g = |rng: &mut StdRng, k: usize| -> Vec<Value> { (0..k).map(|_| fl(rng)).collect() };
            let mut t = json!({"n": n, "sub": g(&mut rng, n - 1), "sup": g(&mut rng, n - 1),
                "main": (0..n).map(|_| json!({"m": (if rng.gen_bool(0.5) { 1 } else { -1 }) * rng.gen_range((1i64 << 19)..=(1i64 << 20)), "e": -10})).collect::<Vec<Value>>()});
            let mut r = g(&mut rng, n); let mut ri = g(&mut rng, n);
            if cx { t["subi"] = Value::from(g(&mut rng, n - 1)); t["supi"] = Value::from(g(&mut rng, n - 1)); t["maini"] = Value::from(g(&mut rng, n)); }
            // (Complex: r * pivot must stay representable for the naive complex quotient, so "as extreme" stops at 2^+-200)
            let eb = if (q + n) % 2 == 0 || (cx && ea.abs() > 200) { *ea } else { 2 * *ea };
            let graded = ea.abs() == 60;
            let (rowe, cole): (Vec<i64>, Vec<i64>) = if !graded { (vec![0; n], vec![0; n]) } else {
                let v: Vec<i64> = (0..n).map(|_| [0i64, -60, -200, 200, 60][rng.gen_range(0..5)]).collect(); if *ea > 0 { (v, vec![0; n]) } else { (vec![0; n], v) } };
            let (ea, eb) = if graded { (*ea, *ea) } else { (*ea, eb) };
            let keys: Vec<&str> = if cx { vec!["", "i"] } else { vec![""] };
            for sfx in keys {
                for (name, di, dj) in [("sub", 1usize, 0usize), ("main", 0, 0), ("sup", 0, 1)] { let key = format!("{}{}", name, sfx);
                    let v: Vec<Value> = t[key.as_str()].as_array().unwrap().iter().enumerate().map(|(k, x)| jscale(x, ea + rowe[k + di] + cole[k + dj])).collect(); t[key.as_str()] = Value::from(v); }
            }
            for k in 0..n { r[k] = jscale(&r[k], eb + rowe[k]); ri[k] = jscale(&ri[k], eb + rowe[k]); }
            let mut c = json!({"kind": "sol", "ty": if cx { "cx" } else { "f64" }, "mode": "units", "fam": "scaled-dominant", "ea": ea, "eb": eb, "tri": t, "r": r});
            if cx { c["ri"] = Value::from(ri); }
            if graded { c["graded"] = json!(if ea > 0 { "rows" } else { "cols" }); }
            push(out, c);
        } }
        // (c3) exact dyadic float systems with a pivot 2^-t times smaller than its diagonal entry at a chosen step (real:
        //      t = 30, 52, 53; Complex, purely imaginary pivot: t = 30, 53, 60): regular, so solve must answer, exactly
        if n >= 2 && n <= 6 { for s in 1..n { for (q, (cx, t)) in [(false, 30i64), (false, 52), (false, 53), (true, 30), (true, 53), (true, 60)].iter().enumerate() {
            if quick && (q + s + n) % 3 != 0 && !(*t == 53 && (s + n) % 2 == 0) { continue; }
            for _rep in 0..(if quick { 1 } else { 3 }) { if let Some(c) = eps_case(&mut rng, n, s, *t, *cx) { push(out, c); } }
        } } }
        // (f) a sample of the histories re-run with the process restricted to 1, 2, 3 CPUs (results may not depend on it)
        for rep in 0..(if quick { 1 } else { 4 }) { for (t, ty) in TYS.iter().enumerate() {
            let ops = hist_ops(&mut rng, n, ty, 10);
            push(out, json!({"kind": "hist", "fam": "narrowed", "cpus": 1 + (n + rep + t) % 3, "ty": ty, "ctor": ctors[(rep + t) % 3], "tri": rand_tri(&mut rng, n, -9, 9, *ty == "cx"), "ops": ops}));
        } }
        // (e) sequences on one object: det / solve / product / reads before and after EVERY mutating operation
        for ty in TYS { for _rep in 0..(if quick { 1 } else { 4 }) {
            let mut mag = 3i64; let mut best = seq_case(&mut rng, n, ty, mag);
            for tries in 0..12 { if best.1 >= 0.8 { break; } if tries % 2 == 1 && mag > 1 { mag -= 1; } let c = seq_case(&mut rng, n, ty, mag); if c.1 > best.1 { best = c; } }
            push(out, best.0);
        } }
    }
    { let mut sink = |c: Value| push(out, c); exact_and_sweep(&mut rng, quick, seed, &mut sink); }
    // (m) the std-trait forms: Clone::clone_from between objects of every relation of sizes, clone-and-drop
    { let mut sink = |c: Value| push(out, c); clonefrom_cases(&mut rng, quick, &mut sink); }
    // (k) what a refused call leaves behind: the same object, a clone and another object right after it
    { let mut sink = |c: Value| push(out, c); poison_cases(&mut rng, quick, &mut sink); }
    // (g) the product (and conversion) for sizes beyond the number of CPUs, partly with the process restricted to 1..3 CPUs
    for (t, n) in [17usize, 24, 33, 40].iter().enumerate() { for (q, ty) in TYS.iter().enumerate() {
        let cx = *ty == "cx"; let mv = |rng: &mut StdRng, form: &str| { let mut o = json!({"op": "matvec", "form": form, "v": rv(rng, *n, -5, 5)}); if cx { o["vi"] = Value::from(rv(rng, *n, -5, 5)); } o };
        let ops = vec![json!({"op": "size"}), mv(&mut rng, "ref"), mv(&mut rng, "own"), json!({"op": "transpose_in_place"}), mv(&mut rng, "ref"), json!({"op": "convert"})];
        let mut c = json!({"kind": "hist", "fam": "large-n", "ty": ty, "ctor": "vecs", "tri": rand_tri(&mut rng, *n, -9, 9, cx), "ops": ops});
        if (t + q) % 2 == 1 { c["cpus"] = json!(1 + (t + q) % 3); }
        push(out, c);
    } }
}

// ------------------------------------------------------------------ sequences on ONE object (stale internal state)
/// integer simulation of the three diagonals, used ONLY to keep generated magnitudes inside what TLC can decide
struct Sim { sub: Vec<i64>, main: Vec<i64>, sup: Vec<i64> }
impl Sim {
    fn apply(&mut self, op: &Value) {
        let s = op.get("s").and_then(|v| v.as_i64()).unwrap_or(1); let x = op.get("x").and_then(|v| v.as_i64()).unwrap_or(0);
        let all = |t: &mut Sim, f: &dyn Fn(i64) -> i64| { for v in t.sub.iter_mut().chain(t.main.iter_mut()).chain(t.sup.iter_mut()) { *v = f(*v); } };
        let with = |t: &mut Sim, b: &Value, sg: i64| { let (bs, bm, bp) = (ivec(&b["sub"]), ivec(&b["main"]), ivec(&b["sup"]));
            for k in 0..t.main.len() { t.main[k] += sg * bm[k]; } for k in 0..t.sub.len() { t.sub[k] += sg * bs[k]; t.sup[k] += sg * bp[k]; } };
        match gets(op, "op") {
            "set" => { let (i, j) = (getu(op, "i"), getu(op, "j")); if i == j { self.main[i] = x; } else if i == j + 1 { self.sub[j] = x; } else { self.sup[i] = x; } }
            "transpose_in_place" => std::mem::swap(&mut self.sub, &mut self.sup),
            "resize" => { let n = getu(op, "n"); self.sub = vec![0; n - 1]; self.main = vec![0; n]; self.sup = vec![0; n - 1]; }
            "add_scalar_assign" => all(self, &|v| v + s), "sub_scalar_assign" => all(self, &|v| v - s),
            "mul_assign" | "rebind_mul" => all(self, &|v| v * s), "div_assign" | "rebind_div" => if s != 0 { all(self, &|v| v / s) },
            "rebind_neg" => all(self, &|v| -v),
            "rebind_add" => with(self, &op["b"], 1), "rebind_sub" => with(self, &op["b"], -1),
            _ => {}
        }
    }
}
fn probes(rng: &mut StdRng, sim: &Sim, exact: bool, cx: bool, ops: &mut Vec<Value>) -> bool {
    let n = sim.main.len(); let r = rv(rng, n, -5, 5);
    let fit = !exact || fits_tlc(&sim.sub, &sim.main, &sim.sup, &r);
    if fit { ops.push(json!({"op": "det"})); let mut o = json!({"op": "solve", "r": r}); if cx { o["ri"] = Value::from(rv(rng, n, -5, 5)); } ops.push(o); }
    let mut mv = json!({"op": "matvec", "form": if rng.gen_bool(0.5) { "own" } else { "ref" }, "v": rv(rng, n, -3, 3)}); if cx { mv["vi"] = Value::from(rv(rng, n, -3, 3)); }
    ops.push(mv); ops.push(json!({"op": "dense"})); ops.push(json!({"op": "convert"}));
    fit
}
/// probes, then EVERY mutating operation (and every re-binding through an operator result), each followed by the probes.
/// Float sequences start strictly diagonally dominant and use small updates, so that most states stay dominant.
fn seq_case(rng: &mut StdRng, n: usize, ty: &str, mag: i64) -> (Value, f64) {
    let cx = ty == "cx"; let exact = ty == "rat";
    let mut tri = rand_tri(rng, n, -mag, mag, cx);
    if !exact { let m: Vec<i64> = (0..n).map(|_| rng.gen_range(24i64..=40) * if rng.gen_bool(0.5) { 1 } else { -1 }).collect(); tri["main"] = Value::from(m); }
    if cx {   // two thirds of the off-diagonal entries exactly on an axis; in half of the sequences a purely imaginary dominant diagonal
        for f in ["sub", "sup"] { let fi = format!("{}i", f); for k in 0..n - 1 { match rng.gen_range(0..3) { 0 => tri[f][k] = json!(0), 1 => tri[fi.as_str()][k] = json!(0), _ => {} } } }
        if rng.gen_bool(0.5) { let m = tri["main"].clone(); tri["maini"] = m; tri["main"] = Value::from(vec![0i64; n]); }
    }
    let mut sim = Sim { sub: ivec(&tri["sub"]), main: ivec(&tri["main"]), sup: ivec(&tri["sup"]) };
    let mut ops = vec![]; let (mut fitn, mut tot) = (0usize, 0usize);
    let mut probe = |rng: &mut StdRng, sim: &Sim, ops: &mut Vec<Value>| { tot += 1; if probes(rng, sim, exact, cx, ops) { fitn += 1; } };
    probe(rng, &sim, &mut ops);
    let small = |rng: &mut StdRng| -> i64 { let v = rng.gen_range(1..=mag.max(1)); if rng.gen_bool(0.5) { v } else { -v } };
    let mut order: Vec<usize> = (0..14).collect(); for i in (1..order.len()).rev() { order.swap(i, rng.gen_range(0..=i)); }
    for pick in order {
        let cn = sim.main.len();
        let inb = |rng: &mut StdRng| -> (usize, usize) { let i = rng.gen_range(0..cn); (i, rng.gen_range(i.saturating_sub(1)..=(i + 1).min(cn - 1))) };
        let diag = |rng: &mut StdRng, i: usize, exact: bool| -> Value { let x = if exact { let v = rng.gen_range(1..=mag.max(1)) * 2; if rng.gen_bool(0.5) { v } else { -v } } else { rng.gen_range(24i64..=40) }; json!({"op": "set", "i": i, "j": i, "x": x, "xi": rng.gen_range(-2i64..=2), "quiet": true}) };
        let mut batch: Vec<Value> = match pick {
            0 | 1 => { let (i, j) = inb(rng); vec![json!({"op": "set", "i": i, "j": j, "x": small(rng), "xi": small(rng)})] }
            2 | 3 => vec![json!({"op": "transpose_in_place"})],
            4 => vec![json!({"op": "add_scalar_assign", "s": small(rng), "si": small(rng)})],
            5 => vec![json!({"op": "sub_scalar_assign", "s": small(rng), "si": small(rng)})],
            6 => if cx { let z = [(0i64, 1i64), (0, -1), (0, 2), (-1, 0)][rng.gen_range(0..4)]; vec![json!({"op": "mul_assign", "s": z.0, "si": z.1, "keepsi": true})] }
                 else { vec![json!({"op": "mul_assign", "s": ([2i64, -2, 3][rng.gen_range(0..3)])})] },
            7 => if cx { let z = [(0i64, 2i64), (0, -2)][rng.gen_range(0..2)]; let w = [(0i64, 1i64), (0, -1), (-1, 0)][rng.gen_range(0..3)];
                     vec![json!({"op": "mul_assign", "s": 2}), json!({"op": "div_assign", "s": z.0, "si": z.1, "keepsi": true}), json!({"op": "div_assign", "s": w.0, "si": w.1, "keepsi": true})] }
                 else { let s = [2i64, -2, 3][rng.gen_range(0..3)]; vec![json!({"op": "mul_assign", "s": s}), json!({"op": "div_assign", "s": s})] },
            8 => vec![json!({"op": "rebind_neg"})],
            9 => vec![json!({"op": "rebind_add", "b": rand_tri(rng, cn, -2, 2, cx)})],
            10 => vec![json!({"op": "rebind_sub", "b": rand_tri(rng, cn, -2, 2, cx)})],
            11 => if cx { let z = [(0i64, 1i64), (0, -1), (0, 2), (-1, 0)][rng.gen_range(0..4)]; vec![json!({"op": "rebind_mul", "s": z.0, "si": z.1, "keepsi": true})] }
                  else { vec![json!({"op": "rebind_mul", "s": ([2i64, -2, 3][rng.gen_range(0..3)])})] },
            12 => if cx { let z = [(0i64, 2i64), (0, -2)][rng.gen_range(0..2)]; vec![json!({"op": "rebind_mul", "s": 2}), json!({"op": "rebind_div", "s": z.0, "si": z.1, "keepsi": true})] }
                  else { let s = [2i64, -2, 3][rng.gen_range(0..3)]; vec![json!({"op": "rebind_mul", "s": s}), json!({"op": "rebind_div", "s": s})] },
            _ => { let n2 = rng.gen_range(1..=(cn + 1).min(12)); let mut v = vec![json!({"op": "resize", "n": n2})]; for i in 0..n2 { v.push(diag(rng, i, exact)); }
                   for i in 0..n2.saturating_sub(1) { v.push(json!({"op": "set", "i": i + 1, "j": i, "x": small(rng), "xi": small(rng), "quiet": true})); v.push(json!({"op": "set", "i": i, "j": i + 1, "x": small(rng), "xi": small(rng), "quiet": true})); } v }
        };
        for o in batch.iter_mut() {
            if !cx { if let Some(m) = o.as_object_mut() { m.remove("xi"); m.remove("si"); } }
            let quiet = o.get("quiet").is_some(); if let Some(m) = o.as_object_mut() { m.remove("quiet"); m.remove("keepsi"); }
            sim.apply(o); ops.push(o.clone());
            if !quiet { probe(rng, &sim, &mut ops); }
        }
        if pick == 13 { probe(rng, &sim, &mut ops); }
    }
    (json!({"kind": "seq", "ty": ty, "ctor": (["vecs", "vectors", "index"][rng.gen_range(0..3)]), "tri": tri, "ops": ops}), fitn as f64 / tot.max(1) as f64)
}

// ------------------------------------------------------------------ a pivot that is tiny relative to its diagonal entry (exact dyadic data)
/// polynomial in eps = 2^-t with Gaussian-integer coefficients, by degree: [(re, im), ...]
type Poly = Vec<(i64, i64)>;
fn pjson(p: &Poly) -> Value { Value::from(p.iter().map(|c| json!([c.0, c.1])).collect::<Vec<Value>>()) }
fn pfrom(v: &Value) -> Poly { v.as_array().unwrap().iter().map(|c| (c[0].as_i64().unwrap(), c[1].as_i64().unwrap())).collect() }
/// value of the polynomial at eps = 2^-t as (re, im); None if a part is not exactly representable in f64
fn pval(p: &Poly, t: i64) -> Option<(f64, f64)> {
    let part = |sel: &dyn Fn(&(i64, i64)) -> i64| -> Option<f64> {
        let nz: Vec<usize> = (0..p.len()).filter(|k| sel(&p[*k]) != 0).collect(); if nz.is_empty() { return Some(0.0); }
        let (lo, hi) = (nz[0] as i64, nz[nz.len() - 1] as i64); if (hi - lo) * t > 62 { return None; }
        let mut m: i128 = 0; for k in &nz { m += (sel(&p[*k]) as i128) << ((hi - *k as i64) * t) as u32; }        // value = m * 2^(-t hi)
        let f = m as f64; if f as i128 != m { return None; } Some(scale2(f, -t * hi)) };
    Some((part(&|c| c.0)?, part(&|c| c.1)?))
}
/// v * L * eps^(-K)... : decompose the dyadic number w = v * L * 2^(-t K) into sum_k c_k 2^(-t k), k = 0..=6, |c_k| <= 2^20
fn digits(v: f64, l: i64, kk: i64, t: i64) -> Option<Vec<i64>> {
    if !v.is_finite() { return None; }
    if v == 0.0 { return Some(vec![0; 7]); }
    let bits = v.to_bits(); let neg = (bits >> 63) != 0; let ex = ((bits >> 52) & 0x7ff) as i64; let frac = bits & ((1u64 << 52) - 1);
    let (mut m, mut e) = if ex == 0 { (frac as i128, -1074i64) } else { ((frac | (1u64 << 52)) as i128, ex - 1075) };
    while m % 2 == 0 { m /= 2; e += 1; }
    if neg { m = -m; }
    m *= l as i128; e -= t * kk;                                   // w = m * 2^e
    let mut out = vec![];
    for k in 0..=6i64 {
        // c = round(w / 2^(-t k)) = round(m * 2^(e + t k))
        let sh = e + t * k;
        let c: i128 = if m == 0 { 0 } else if sh >= 0 { if sh > 40 { return None; } m << sh as u32 } else if -sh > 120 { 0 } else { let h = 1i128 << ((-sh - 1) as u32); (m + h) >> (-sh) as u32 };
        if c.abs() > (1 << 20) { return None; }
        // w -= c * 2^(-t k)
        if c != 0 { let ec = -t * k; if ec >= e { if ec - e > 100 { return None; } m -= c << (ec - e) as u32; } else { if e - ec > 70 { return None; } m = (m << (e - ec) as u32) - c; e = ec; } }
        while m != 0 && m % 2 == 0 { m /= 2; e += 1; }
        out.push(c as i64);
    }
    if m != 0 { return None; }
    Some(out)
}
fn run_eps<T: BE>(case: &Value, out: &mut Out) {
    let cid = geti(case, "cid"); let t = geti(case, "t"); let tj = &case["tri"]; let n = getu(tj, "n");
    let polys = |v: &Value| -> Vec<Poly> { v.as_array().unwrap().iter().map(pfrom).collect() };
    let vals = |ps: &Vec<Poly>| -> Vec<T> { ps.iter().map(|p| { let (re, im) = pval(p, t).unwrap_or_else(|| tool_error("eps case: entry not representable")); T::from_f(re, im) }).collect() };
    let (sub, main, sup, r) = (polys(&tj["sub"]), polys(&tj["main"]), polys(&tj["sup"]), polys(&case["r"]));
    let res = guarded(|| { let m = Tridiagonal::with_vecs(vals(&sub), vals(&main), vals(&sup)); m.solve(&Vector::create(vals(&r))) });
    let (panic, msg) = match &res { Ok(_) => (false, String::new()), Err(s) => (true, s.clone()) };
    let (l, kk) = (64i64, 2i64);
    // x_j * L * eps^K as polynomials (real and imaginary digits interleaved into Gaussian coefficients)
    let xs: Option<Vec<Poly>> = res.as_ref().ok().and_then(|x| x.vec.iter().map(|v| { let (re, im) = v.to_c(); let a = digits(re, l, kk, t)?; let b = digits(im, l, kk, t)?; Some(a.iter().zip(b.iter()).map(|(p, q)| (*p, *q)).collect::<Poly>()) }).collect());
    let xsj = match &xs { Some(v) => Value::from(v.iter().map(pjson).collect::<Vec<Value>>()), None => Value::from((0..n).map(|_| json!([[BAD, 0]])).collect::<Vec<Value>>()) };
    out.ev(json!({"op": "solve_eps", "ty": T::NAME, "cid": cid, "k": 0, "t": t, "pre": {"n": n, "sub": tj["sub"], "main": tj["main"], "sup": tj["sup"]}, "r": case["r"],
        "panic": panic, "msg": msg, "zero": panic && mentions_zero(&msg), "xs": xsj, "L": l, "K": kk}));
}

// ---- independent simulations used only to SELECT inputs on which the float elimination is exact
type C = (f64, f64);
fn c_sub(a: C, b: C) -> C { (a.0 - b.0, a.1 - b.1) }
fn c_mul(a: C, b: C) -> C { (a.0 * b.0 - a.1 * b.1, a.0 * b.1 + a.1 * b.0) }
fn c_div(a: C, b: C) -> C { let d = b.0 * b.0 + b.1 * b.1; ((a.0 * b.0 + a.1 * b.1) / d, (a.1 * b.0 - a.0 * b.1) / d) }
/// the Thomas algorithm in f64 (real) or with the textbook complex formulas; every stored value is returned
fn thomas_float(sub: &[C], main: &[C], sup: &[C], r: &[C], cx: bool) -> Option<Vec<C>> {
    let n = main.len(); let mul = |a: C, b: C| if cx { c_mul(a, b) } else { (a.0 * b.0, 0.0) }; let div = |a: C, b: C| if cx { c_div(a, b) } else { (a.0 / b.0, 0.0) };
    let mut stored = vec![]; let mut beta = main[0]; if beta == (0.0, 0.0) { return None; }
    let mut u = vec![(0.0, 0.0); n]; let mut gamma = vec![(0.0, 0.0); n]; u[0] = div(r[0], beta); stored.push(u[0]);
    for j in 1..n { gamma[j] = div(sup[j - 1], beta); beta = c_sub(main[j], mul(sub[j - 1], gamma[j])); if beta == (0.0, 0.0) { return None; }
        u[j] = div(c_sub(r[j], mul(sub[j - 1], u[j - 1])), beta); stored.push(gamma[j]); stored.push(beta); stored.push(u[j]); }
    for j in (0..n.saturating_sub(1)).rev() { let t = mul(gamma[j + 1], u[j + 1]); u[j] = c_sub(u[j], t); stored.push(u[j]); }
    if stored.iter().all(|p| p.0.is_finite() && p.1.is_finite()) { Some(stored) } else { None }
}
/// the same over exact Gaussian rationals
fn thomas_exact(sub: &[super::banded::GR], main: &[super::banded::GR], sup: &[super::banded::GR], r: &[super::banded::GR]) -> Option<Vec<super::banded::GR>> {
    let n = main.len(); let mut stored = vec![]; let mut beta = main[0]; if beta.is_zero() { return None; }
    let z = super::banded::GR::int(0, 0); let mut u = vec![z; n]; let mut gamma = vec![z; n]; u[0] = r[0].div(beta); stored.push(u[0]);
    for j in 1..n { gamma[j] = sup[j - 1].div(beta); beta = main[j].sub(sub[j - 1].mul(gamma[j])); if beta.is_zero() { return None; }
        u[j] = r[j].sub(sub[j - 1].mul(u[j - 1])).div(beta); stored.push(gamma[j]); stored.push(beta); stored.push(u[j]); }
    for j in (0..n.saturating_sub(1)).rev() { let t = gamma[j + 1].mul(u[j + 1]); u[j] = u[j].sub(t); stored.push(u[j]); }
    Some(stored)
}
fn pmul(a: &Poly, b: &Poly) -> Poly { if a.is_empty() || b.is_empty() { return vec![]; } let mut o = vec![(0i64, 0i64); a.len() + b.len() - 1];
    for (i, x) in a.iter().enumerate() { for (j, y) in b.iter().enumerate() { o[i + j].0 += x.0 * y.0 - x.1 * y.1; o[i + j].1 += x.0 * y.1 + x.1 * y.0; } } o }
fn padd(a: &Poly, b: &Poly) -> Poly { (0..a.len().max(b.len())).map(|k| { let x = a.get(k).cloned().unwrap_or((0, 0)); let y = b.get(k).cloned().unwrap_or((0, 0)); (x.0 + y.0, x.1 + y.1) }).collect() }
/// one case: n, tiny pivot a*c*u*eps at step s (u = 1, or i for Complex), everything else ordinary; the right-hand side is T x
/// for a small x; accepted only if an independent float simulation of the elimination reproduces the exact values
fn eps_case(rng: &mut StdRng, n: usize, s: usize, t: i64, cx: bool) -> Option<Value> {
    use super::banded::GR;
    let pm = |rng: &mut StdRng, v: &[i64]| -> i64 { v[rng.gen_range(0..v.len())] * if rng.gen_bool(0.5) { 1 } else { -1 } };
    let u: (i64, i64) = if cx { (0, 1) } else { (1, 0) };
    for _ in 0..4000 {
        let beta: Vec<i64> = (0..n).map(|_| pm(rng, &[1, 1, 2])).collect();
        let a: Vec<i64> = (0..n - 1).map(|j| if j + 1 == s { pm(rng, &[1]) } else { pm(rng, &[1, 2, 3]) }).collect();
        let g: Vec<i64> = (0..n - 1).map(|_| rng.gen_range(-3i64..=3)).collect(); let c = pm(rng, &[1, 2]);
        let konst = |x: i64| -> Poly { vec![(x, 0)] };
        let mut sub: Vec<Poly> = vec![]; let mut main: Vec<Poly> = vec![konst(beta[0])]; let mut sup: Vec<Poly> = vec![];
        for j in 0..n - 1 {
            sub.push(konst(a[j]));
            // pivot polynomial of step j and multiplier g_j
            let bj: Poly = if j == s { vec![(0, 0), (a[s - 1] * c * u.0, a[s - 1] * c * u.1)] } else { konst(beta[j]) };
            let gj: Poly = if j + 1 == s { vec![(c, 0), (-c * u.0, -c * u.1)] } else { konst(g[j]) };
            sup.push(pmul(&bj, &gj));
            let bnext: Poly = if j + 1 == s { vec![(0, 0), (a[s - 1] * c * u.0, a[s - 1] * c * u.1)] } else { konst(beta[j + 1]) };
            main.push(padd(&bnext, &pmul(&konst(a[j]), &gj)));
        }
        let x: Vec<Poly> = (0..n).map(|_| { let v = [0i64, 1, 1, 2, 2, 4][rng.gen_range(0..6)] * if rng.gen_bool(0.5) { 1 } else { -1 }; if cx && rng.gen_bool(0.4) { vec![(0, v)] } else { konst(v) } }).collect();
        let r: Vec<Poly> = (0..n).map(|i| { let mut acc = pmul(&main[i], &x[i]); if i > 0 { acc = padd(&acc, &pmul(&sub[i - 1], &x[i - 1])); } if i + 1 < n { acc = padd(&acc, &pmul(&sup[i], &x[i + 1])); } acc }).collect();
        let fv = |ps: &Vec<Poly>| -> Option<Vec<C>> { ps.iter().map(|p| pval(p, t)).collect() };
        let (fs, fm, fp, fr) = match (fv(&sub), fv(&main), fv(&sup), fv(&r)) { (Some(a), Some(b), Some(c), Some(d)) => (a, b, c, d), _ => continue };
        let ok = guarded(|| {
            let gr = |v: &Vec<C>| -> Option<Vec<GR>> { v.iter().map(|p| Some(GR { re: f64_to_rat(p.0)?, im: f64_to_rat(p.1)? })).collect() };
            let (es, em, ep, er) = (gr(&fs)?, gr(&fm)?, gr(&fp)?, gr(&fr)?);
            let fl = thomas_float(&fs, &fm, &fp, &fr, cx)?; let ex = thomas_exact(&es, &em, &ep, &er)?;
            if fl.len() != ex.len() { return None; }
            for (a, b) in fl.iter().zip(ex.iter()) { if f64_to_rat(a.0)? != b.re || f64_to_rat(a.1)? != b.im { return None; } }
            // the solution must be expressible with the digits the event format offers
            for k in 0..n { let v = fl[fl.len() - 1 - k]; digits(v.0, 64, 2, t)?; digits(v.1, 64, 2, t)?; }
            Some(())
        });
        if !matches!(ok, Ok(Some(()))) { continue; }
        let pj = |ps: &Vec<Poly>| Value::from(ps.iter().map(pjson).collect::<Vec<Value>>());
        return Some(json!({"kind": "eps", "ty": if cx { "cx" } else { "f64" }, "t": t, "step": s, "tri": {"n": n, "sub": pj(&sub), "main": pj(&main), "sup": pj(&sup)}, "r": pj(&r)}));
    }
    None
}

// ------------------------------------------------------------------ exact integer systems with "awkward" pivots; exponent sweep
/// pivots whose reciprocal is not a dyadic number (odd parts 49, 51, 103, 147, 97, 201, 7)
const ODD_PIVOTS: [i64; 10] = [49, 51, 98, 103, 147, 196, 97, 201, 112, 7];
/// Integer tridiagonal system on which the textbook Thomas elimination is exact in f64: pivots beta_j (mostly +-1, +-2, up to
/// `nodd` of them from ODD_PIVOTS), integer multipliers g_j = sup_j / beta_j, integer solution x, r = T x.  `zero_at` = Some(s)
/// makes pivot s vanish by exact cancellation (for s >= 1 against an odd pivot: main_s = sub_{s-1} * sup_{s-1} / beta_{s-1}).
fn exact_tri(rng: &mut StdRng, n: usize, zero_at: Option<usize>, nodd: usize, mag: i64) -> (Vec<i64>, Vec<i64>, Vec<i64>, Vec<i64>) {
    let pm = |rng: &mut StdRng, v: i64| -> i64 { if rng.gen_bool(0.5) { v } else { -v } };
    let mut beta: Vec<i64> = (0..n).map(|_| { let b = if rng.gen_bool(0.3) { 2 } else { 1 }; pm(rng, b) }).collect();
    let mut oddpos: Vec<usize> = vec![]; for _ in 0..nodd { oddpos.push(rng.gen_range(0..n)); }
    if let Some(s) = zero_at { if s >= 1 && nodd > 0 { oddpos.push(s - 1); } }
    for p in oddpos { let v = ODD_PIVOTS[rng.gen_range(0..ODD_PIVOTS.len())]; beta[p] = pm(rng, v); }
    if let Some(s) = zero_at { beta[s] = 0; }
    let nzr = |rng: &mut StdRng| -> i64 { let v = rng.gen_range(1..=mag.max(1)); pm(rng, v) };
    let g: Vec<i64> = (0..n.saturating_sub(1)).map(|j| if zero_at == Some(j + 1) { nzr(rng) } else { rng.gen_range(-mag..=mag) }).collect();
    let sub: Vec<i64> = (0..n.saturating_sub(1)).map(|j| if zero_at == Some(j + 1) { nzr(rng) } else { rng.gen_range(-mag..=mag) }).collect();
    let mut main = vec![beta[0]]; let mut sup = vec![];
    for j in 0..n.saturating_sub(1) {
        let bj = if beta[j] == 0 || zero_at.map(|s| j > s).unwrap_or(false) { 1 } else { beta[j] };
        sup.push(bj * g[j]); main.push(beta[j + 1] + sub[j] * g[j]);
    }
    let x: Vec<i64> = (0..n).map(|_| rng.gen_range(-mag.max(1)..=mag.max(1))).collect();
    let r: Vec<i64> = (0..n).map(|i| main[i] * x[i] + if i > 0 { sub[i - 1] * x[i - 1] } else { 0 } + if i + 1 < n { sup[i] * x[i + 1] } else { 0 }).collect();
    (sub, main, sup, r)
}
/// number of bits of the largest magnitude occurring in the data
fn bits_of(vs: &[&Vec<i64>]) -> i64 { let m = vs.iter().flat_map(|v| v.iter()).map(|x| x.abs()).max().unwrap_or(0); 64 - (m.max(1) as u64).leading_zeros() as i64 }
/// the exact families (c4) and the exponent sweep (c5), written out by gen
fn exact_and_sweep(rng: &mut StdRng, quick: bool, seed: u64, push: &mut dyn FnMut(Value)) {
    let ctors = ["vecs", "vectors", "index"];
    // (c4) awkward pivots: regular systems, and a zero pivot by exact cancellation at every step
    for n in 1..=12usize { let mut steps: Vec<Option<usize>> = vec![None, None]; if quick { steps.push(Some(rng.gen_range(0..n))); steps.push(Some(n - 1)); } else { steps.extend((0..n).map(Some)); steps.extend([None; 4]); }
        for (q, s) in steps.iter().enumerate() {
            let mut found = None;
            for t in 0..80 { let (sub, main, sup, r) = exact_tri(rng, n, *s, if t < 40 { 2 } else { 1 }, 3); if fits_tlc(&sub, &main, &sup, &r) { found = Some((sub, main, sup, r)); break; } }
            if let Some((sub, main, sup, r)) = found {
                let tys: Vec<&str> = if quick { vec!["f64", TYS[(q + n) % 3]] } else { TYS.to_vec() };
                for ty in tys { push(json!({"kind": "sol", "ty": ty, "mode": "exact", "fam": if s.is_some() { "odd-zero-pivot" } else { "odd-pivots" }, "step": s.map(|x| x as i64).unwrap_or(-1),
                    "ctor": ctors[(q + n) % 3], "tri": tri_json(&sub, &main, &sup), "r": r})); }
            }
        }
    }
    // (c5) exponent sweep: T scaled by 2^k for k over the whole f64 exponent axis (subnormal pivots included), the right-hand
    //      side scaled alike (solution unchanged) or not at all (solution scaled by 2^-k); det where 2^(n k) is representable
    let step = if quick { 8 } else { 1 }; let phase = (seed % step as u64) as i64;
    let mut idx = 0usize; let mut k = -1070 + phase;
    while k <= 1020 { idx += 1;
        for (variant, cx) in [(0usize, false), (1, false), (0, true), (1, true)] {
            if cx && (k < -530 || k > 500 || (quick && idx % 2 == 1)) { continue; }
            let n = if variant == 1 { 1 } else { 2 + idx % 5 };
            let mut made = None;
            for t in 0..60 { let mag = if t < 20 { 2 } else { 1 }; let zero = if idx % 7 == 0 && variant == 0 { Some(rng.gen_range(0..n)) } else { None };
                let (sub, main, sup, r) = exact_tri(rng, n, zero, 0, mag);
                let b = bits_of(&[&sub, &main, &sup, &r]) + 3;
                let both = idx % 2 == 0 || k.abs() > 1000;
                // operands, intermediates (integers below 2^b times the scale) and the solution must be representable
                let ok = k + b <= 1022 && k >= -1072 && (both || (-k + b <= 1022 && -k - b >= -1060));
                if ok { made = Some((sub, main, sup, r, both)); break; } }
            if let Some((sub, main, sup, r, both)) = made {
                let mut c = json!({"kind": "sol", "ty": if cx { "cx" } else { "f64" }, "mode": "exact", "fam": "sweep", "xa": k, "xb": if both { k } else { 0 }, "ctor": ctors[idx % 3], "tri": tri_json(&sub, &main, &sup), "r": r, "aux": false});
                let kn = k * n as i64; if kn + 12 > 1022 || kn < -1070 || (cx && (kn < -530 || kn > 500)) { c["nodet"] = json!(true); }
                push(c);
            }
        }
        // (finer grid in the subnormal range and next to the overflow threshold)
        k += if k < -1016 || k >= 996 { (step as i64).min(2) } else { step as i64 };
    }
}

// ------------------------------------------------------------------ refused calls and what follows
/// pivots of the elimination on an exact_tri system (integers by construction)
fn int_pivots(sub: &[i64], main: &[i64], sup: &[i64]) -> Option<Vec<i64>> {
    let mut b = vec![main[0]];
    for j in 1..main.len() { let p = *b.last().unwrap(); if p == 0 || (sub[j - 1] * sup[j - 1]) % p != 0 { return None; } b.push(main[j] - sub[j - 1] * sup[j - 1] / p); }
    if b.iter().any(|x| *x == 0) { None } else { Some(b) }
}
/// Sequences around refused calls (every element type; floats on data where the elimination is exact, so the model decides
/// answer-or-refusal and the exact solution).  The object starts with a zero pivot at step s (first, middle, LAST; n = 1:
/// the zero entry).  A refused solve, a right-hand side of another size and out-of-range accessors are followed at once by the
/// same solve again (must refuse again), by det / observers, by the calls on a clone and on other objects (regular and
/// singular), by mutators that keep the pivot zero (must still refuse) and by the assignment that repairs it (must now
/// return the exact solution, repeatedly), and back.
fn poison_cases(rng: &mut StdRng, quick: bool, push: &mut dyn FnMut(Value)) {
    let ctors = ["vecs", "vectors", "index"]; let mut t = 0usize;
    for n in 1..=(if quick { 8usize } else { 12 }) {
        let mut steps = vec![0usize, n / 2, n - 1]; steps.dedup();
        for &s0 in &steps { for _rep in 0..(if quick { 1 } else { 3 }) { t += 1;
            let tys: Vec<&str> = if quick && s0 + 1 != n { vec![TYS[t % 3]] } else { TYS.to_vec() };
            let mut made = None;
            for tr in 0..200 {
                let (sub, main, sup, r) = exact_tri(rng, n, None, if tr < 80 { 1 } else { 0 }, if tr < 120 { 3 } else { 1 });
                let beta = match int_pivots(&sub, &main, &sup) { Some(b) => b, None => continue };
                let mut sing = main.clone(); sing[s0] -= beta[s0];
                let dbl = |v: &Vec<i64>| -> Vec<i64> { v.iter().map(|x| 2 * x).collect() };
                if !(fits_tlc(&sub, &main, &sup, &r) && fits_tlc(&dbl(&sub), &dbl(&main), &dbl(&sup), &r) && fits_tlc(&sub, &sing, &sup, &r) && fits_tlc(&dbl(&sub), &dbl(&sing), &dbl(&sup), &r)) { continue; }
                made = Some((sub, main, sup, r, sing)); break;
            }
            let (sub, main, sup, r, sing) = match made { Some(x) => x, None => continue };
            for ty in tys { let cx = ty == "cx";
                let solve = |name: &str, len: usize| -> Value { let mut rr = r.clone(); rr.resize(len, 1); json!({"op": name, "r": rr}) };
                let set = |i: usize, x: i64| -> Value { if cx { json!({"op": "set", "i": i, "j": i, "x": x, "xi": 0}) } else { json!({"op": "set", "i": i, "j": i, "x": x}) } };
                let other = |rng: &mut StdRng, zero: Option<usize>, n2: usize| -> Value {
                    for _ in 0..60 { let (a, b, c, r2) = exact_tri(rng, n2, zero, 1, 2);
                        if fits_tlc(&a, &b, &c, &r2) { let sv = json!({"op": "solve", "r": r2});
                            return json!({"op": "other", "case": {"kind": "hist", "exact": true, "ty": ty, "ctor": "vecs", "tri": tri_json(&a, &b, &c), "ops": [sv.clone(), sv.clone(), {"op": "det"}, sv]}}); } }
                    json!({"op": "size"}) };
                let mut ops = vec![];
                ops.extend([solve("solve", n), solve("solve", n), json!({"op": "det"}), solve("clone_solve", n), json!({"op": "clone_det"}), json!({"op": "diags"}), json!({"op": "size"}), json!({"op": "dense"}), solve("solve", n)]);
                ops.extend([solve("solve", n + 1), solve("solve", n)]);
                if n > 1 { ops.extend([solve("solve", n - 1), solve("solve", n)]); }
                ops.extend([json!({"op": "get", "i": n, "j": n}), set(n, 7), solve("solve", n), json!({"op": "det"})]);
                let n2 = rng.gen_range(1..=5usize);
                ops.push(other(rng, None, n2)); ops.push(solve("solve", n));
                ops.push(other(rng, Some(n2 - 1), n2)); ops.push(solve("solve", n));
                ops.push(other(rng, Some(0), n2)); ops.push(solve("solve", n));
                // mutators that keep the pivot zero
                ops.extend([set(s0, sing[s0]), solve("solve", n), solve("solve", n), json!({"op": "mul_assign", "s": 2}), solve("solve", n), solve("solve", n), json!({"op": "det"})]);
                // repaired (the object is now 2 T): exact solution, again and again
                ops.extend([set(s0, 2 * main[s0]), solve("solve", n), solve("solve", n), solve("clone_solve", n), json!({"op": "det"}), solve("solve", n + 1), solve("solve", n), json!({"op": "dense"})]);
                // broken again, negated (still singular), repaired
                ops.extend([set(s0, 2 * sing[s0]), solve("solve", n), solve("solve", n), json!({"op": "det"}), json!({"op": "rebind_neg"}), solve("solve", n), solve("clone_solve", n), solve("solve", n)]);
                ops.push(other(rng, Some(n2 - 1), n2));
                ops.extend([set(s0, -2 * main[s0]), solve("solve", n), json!({"op": "det"}), solve("solve", n), json!({"op": "diags"})]);
                push(json!({"kind": "seq", "fam": "poison", "exact": true, "step": s0, "ty": ty, "ctor": ctors[t % 3], "tri": tri_json(&sub, &sing, &sup), "ops": ops}));
            }
        } }
    }
}

// ------------------------------------------------------------------ Clone::clone_from, clone-and-drop
/// One object led through a chain of `clone_from` calls whose sources are of the same size, larger, smaller, of size 1 and back;
/// sources built in every way (three constructors, grown by resize, cloned from a dropped original); the target fresh, mutated
/// or resized just before.  After every call: all observers, det and solve (exact for every element type: exact_tri data) on
/// the target and on the source, a write to one and a look at the other (both ways), clone_from in the opposite direction.
fn clonefrom_cases(rng: &mut StdRng, quick: bool, push: &mut dyn FnMut(Value)) {
    let hows = ["vecs", "resized", "clone", "vectors", "index"]; let mut t = 0usize;
    let ex = |rng: &mut StdRng, n: usize| -> (Value, Vec<i64>) { for tr in 0..100 { let (a, b, c, r) = exact_tri(rng, n, None, if tr < 50 { 1 } else { 0 }, 2); if fits_tlc(&a, &b, &c, &r) && fits_tlc(&a, &b.iter().map(|x| -x).collect::<Vec<i64>>(), &c, &r) { return (tri_json(&a, &b, &c), r); } }
        (tri_json(&vec![0; n - 1], &vec![1; n], &vec![0; n - 1]), vec![1; n]) };
    for n in 1..=(if quick { 8usize } else { 12 }) { for rep in 0..(if quick { 2 } else { 6 }) { t += 1;
        let ty = TYS[(t + n) % 3]; let cx = ty == "cx";
        let chain = [n, n + 1 + rep % 3, n, if n > 1 { n - 1 } else { 3 }, 1, n + 2, n];
        let (tri, _) = ex(rng, n);
        let mut ops = vec![json!({"op": "size"}), json!({"op": "diags"})];
        for (q, g) in chain.iter().enumerate() {
            let (src, r) = ex(rng, *g);
            match (q + t) % 3 { 1 => ops.push(json!({"op": "mul_assign", "s": 2})), 2 => ops.push(json!({"op": "resize", "n": chain[(q + 2) % chain.len()]})), _ => {} }
            ops.push(json!({"op": "aux_new", "b": src, "how": hows[(q + t) % 5]})); ops.push(json!({"op": "clone_from"}));
            let obs = |rng: &mut StdRng| -> Vec<Value> { let mut mv = json!({"op": "matvec", "form": if rng.gen_bool(0.5) { "own" } else { "ref" }, "v": rv(rng, *g, -3, 3)}); if cx { mv["vi"] = Value::from(rv(rng, *g, -3, 3)); }
                vec![json!({"op": "size"}), json!({"op": "diags"}), json!({"op": "convert"}), json!({"op": "dense"}), mv, json!({"op": "det"}), json!({"op": "solve", "r": r})] };
            ops.extend(obs(rng)); ops.push(json!({"op": "on_aux", "ops": obs(rng)}));
            // independence, both ways (the diagonal entry is replaced by its negative: the data stay exact)
            let i = rng.gen_range(0..*g); let d = src["main"][i].as_i64().unwrap();
            let mut st = json!({"op": "set", "i": i, "j": i, "x": -d}); if cx { st["xi"] = json!(0); }
            ops.push(st.clone()); ops.push(json!({"op": "aux_same"}));
            st["x"] = json!(d + 5); ops.push(json!({"op": "on_aux", "ops": [st, {"op": "diags"}]})); ops.push(json!({"op": "diags"}));
            // the opposite direction: a second object of the NEXT size of the chain takes a copy of this one
            let (nxt, _) = ex(rng, chain[(q + 1) % chain.len()]);
            ops.push(json!({"op": "aux_new", "b": nxt, "how": hows[(q + t + 2) % 5]})); ops.push(json!({"op": "clone_into"}));
            ops.push(json!({"op": "on_aux", "ops": [{"op": "size"}, {"op": "diags"}, {"op": "convert"}]}));
            ops.push(json!({"op": "mul_assign", "s": -1})); ops.push(json!({"op": "aux_same"})); ops.push(json!({"op": "reclone"})); ops.push(json!({"op": "dense"}));
        }
        push(json!({"kind": "seq", "fam": "clone-from", "exact": true, "ty": ty, "ctor": (["vecs", "vectors", "index"][t % 3]), "tri": tri, "ops": ops}));
    } }
}
