//! Suite "poly": ohsl::Polynomial ring operations, evaluation, differentiation (C11).
//! A case is a pair of coefficient lists (p, q) (+ imaginary parts for Cmplx), evaluation points, scalars and
//! a battery name; every public call is one event.  Coefficients are read through the index operator.
use crate::rat::Rat;
use crate::util::*;
use ohsl::{Cmplx, Polynomial};
use rand::rngs::StdRng;
use rand::Rng;
use serde_json::{json, Value};

/// how an element type is written to / read from the integer-only JSON encoding
pub trait Codec {
    type T: Copy + Clone + ohsl::Number + ohsl::Signed + std::fmt::Debug + 'static;
    const TY: &'static str;
    const KIND: &'static str;
    /// decode element k of the list `re` (and of `im` for complex)
    fn dec(re: &Value, im: Option<&Value>) -> Self::T;
    /// encode: (value for key, value for key+"i")
    fn enc(x: &Self::T) -> (Value, Option<Value>);
}
pub struct F64I; pub struct RatI; pub struct RatQ; pub struct CxI;
fn f2i(x: f64) -> i64 { if x.is_finite() && x == x.trunc() && x.abs() < SAT as f64 { x as i64 } else { BAD } }
impl Codec for F64I { type T = f64; const TY: &'static str = "f64"; const KIND: &'static str = "i";
    fn dec(re: &Value, _: Option<&Value>) -> f64 { re.as_i64().unwrap() as f64 }
    fn enc(x: &f64) -> (Value, Option<Value>) { (json!(f2i(*x)), None) } }
impl Codec for RatI { type T = Rat; const TY: &'static str = "rat"; const KIND: &'static str = "i";
    fn dec(re: &Value, _: Option<&Value>) -> Rat { Rat::int(re.as_i64().unwrap()) }
    fn enc(x: &Rat) -> (Value, Option<Value>) { (json!(if x.d == 1 && x.n.abs() < SAT as i128 { x.n as i64 } else { BAD }), None) } }
impl Codec for RatQ { type T = Rat; const TY: &'static str = "ratq"; const KIND: &'static str = "q";
    fn dec(re: &Value, _: Option<&Value>) -> Rat { rat_from(re) }
    fn enc(x: &Rat) -> (Value, Option<Value>) { (jrat(*x), None) } }
impl Codec for CxI { type T = Cmplx; const TY: &'static str = "cx"; const KIND: &'static str = "c";
    fn dec(re: &Value, im: Option<&Value>) -> Cmplx { Cmplx::new(re.as_i64().unwrap() as f64, im.and_then(|v| v.as_i64()).unwrap_or(0) as f64) }
    fn enc(x: &Cmplx) -> (Value, Option<Value>) { (json!(f2i(x.real)), Some(json!(f2i(x.imag)))) } }

fn arr(v: &Value) -> Vec<Value> { v.as_array().cloned().unwrap_or_default() }
pub fn poly_from<C: Codec>(re: &Value, im: Option<&Value>) -> Polynomial<C::T> {
    let a = arr(re); let b = im.map(arr);
    Polynomial::new(a.iter().enumerate().map(|(k, x)| C::dec(x, b.as_ref().and_then(|y| y.get(k)))).collect())
}
/// project a polynomial through size() and the index operator
pub fn put_poly<C: Codec>(e: &mut Value, key: &str, p: &Polynomial<C::T>) {
    let mut re = vec![]; let mut im = vec![];
    for i in 0..p.size() { let (a, b) = C::enc(&p[i]); re.push(a); if let Some(b) = b { im.push(b); } }
    e[key] = Value::from(re);
    if C::KIND == "c" { e[format!("{}i", key)] = Value::from(im); }
}
fn put_val<C: Codec>(e: &mut Value, key: &str, x: &C::T) { let (a, b) = C::enc(x); e[key] = a; if let Some(b) = b { e[format!("{}i", key)] = b; } }
fn same<C: Codec>(a: &Polynomial<C::T>, b: &Polynomial<C::T>) -> bool { a.size() == b.size() && (0..a.size()).all(|i| a[i] == b[i]) }

fn base<C: Codec>(case: &Value, op: &str, form: &str, p: &Polynomial<C::T>, q: Option<&Polynomial<C::T>>) -> Value {
    let mut e = json!({"op": op, "kind": C::KIND, "ty": C::TY, "cid": geti(case, "cid"), "form": form, "panic": false, "intact": true});
    put_poly::<C>(&mut e, "p", p);
    if let Some(q) = q { put_poly::<C>(&mut e, "q", q); }
    e
}

/// an operation returning a polynomial
fn poly_op<C: Codec>(case: &Value, out: &mut Out, op: &str, form: &str, p: &Polynomial<C::T>, q: Option<&Polynomial<C::T>>,
                     extra: &dyn Fn(&mut Value), f: &dyn Fn(&Polynomial<C::T>, Option<&Polynomial<C::T>>) -> Polynomial<C::T>) -> Option<Polynomial<C::T>> {
    poly_op_live::<C>(case, out, op, form, p, q, None, extra, f)
}
/// `live`: call on this long-lived object instead of a fresh copy of p (sequences on one object); p is then the independent model of its state
fn poly_op_live<C: Codec>(case: &Value, out: &mut Out, op: &str, form: &str, p: &Polynomial<C::T>, q: Option<&Polynomial<C::T>>, live: Option<&Polynomial<C::T>>,
                     extra: &dyn Fn(&mut Value), f: &dyn Fn(&Polynomial<C::T>, Option<&Polynomial<C::T>>) -> Polynomial<C::T>) -> Option<Polynomial<C::T>> {
    let mut e = base::<C>(case, op, form, p, q);
    extra(&mut e);
    let (pc, qc) = (p.clone(), q.cloned());
    let tgt: &Polynomial<C::T> = live.unwrap_or(&pc);
    let r = guarded(|| f(tgt, qc.as_ref()));
    e["intact"] = json!(same::<C>(tgt, p) && match (&qc, q) { (Some(a), Some(b)) => same::<C>(a, b), _ => true });
    let res = match r { Ok(x) => { put_poly::<C>(&mut e, "r", &x); Some(x) }
        Err(_) => { e["panic"] = json!(true); e["r"] = json!([]); if C::KIND == "c" { e["ri"] = json!([]); } None } };
    out.ev(e); res
}
/// an operation returning a scalar
fn val_op<C: Codec>(case: &Value, out: &mut Out, op: &str, p: &Polynomial<C::T>, q: Option<&Polynomial<C::T>>,
                    extra: &dyn Fn(&mut Value), f: &dyn Fn() -> C::T) {
    val_op_live::<C>(case, out, op, p, q, None, extra, f)
}
fn val_op_live<C: Codec>(case: &Value, out: &mut Out, op: &str, p: &Polynomial<C::T>, q: Option<&Polynomial<C::T>>, live: Option<&Polynomial<C::T>>,
                    extra: &dyn Fn(&mut Value), f: &dyn Fn() -> C::T) {
    let mut e = base::<C>(case, op, "ref", p, q);
    extra(&mut e);
    match guarded(f) { Ok(x) => put_val::<C>(&mut e, "v", &x),
        Err(_) => { e["panic"] = json!(true); e["v"] = if C::KIND == "q" { json!([0, 1]) } else { json!(0) }; if C::KIND == "c" { e["vi"] = json!(0); } } }
    if let Some(t) = live { e["intact"] = json!(same::<C>(t, p)); }
    out.ev(e);
}

fn scalars<C: Codec>(case: &Value, key: &str) -> Vec<(Value, Option<Value>)> {
    let a = arr(&case[key]); let b = arr(&case[format!("{}i", key)]);
    a.iter().enumerate().map(|(k, x)| (x.clone(), if C::KIND == "c" { Some(b.get(k).cloned().unwrap_or(json!(0))) } else { None })).collect()
}
fn set_sc(e: &mut Value, key: &str, s: &(Value, Option<Value>)) { e[key] = s.0.clone(); if let Some(i) = &s.1 { e[format!("{}i", key)] = i.clone(); } }

/// Sequence on ONE object: observers, a mutator (IndexMut, coeffs()[i] = v, coeffs().push / pop, trim), the same observers again ...
/// Every observer is called on the live object and judged (by TLC, through the usual events) against the CURRENT coefficients, which are
/// tracked independently in a plain Vec; `intact` = the object's coefficients agree with that model after the call.
fn run_seq<C: Codec>(case: &Value, out: &mut Out) {
    let a = arr(&case["p"]); let b = case.get("pi").map(arr);
    let mut mv: Vec<C::T> = a.iter().enumerate().map(|(k, x)| C::dec(x, b.as_ref().and_then(|y| y.get(k)))).collect();
    let mut obj = Polynomial::<C::T>::new(mv.clone());
    let q = poly_from::<C>(&case["q"], case.get("qi"));
    let xs = scalars::<C>(case, "xs"); let ss = scalars::<C>(case, "ss");
    let zero = <C::T as ohsl::Zero>::zero();
    for (k, st) in case["steps"].as_array().unwrap().iter().enumerate() {
        let v = || C::dec(&st["v"], st.get("vi"));
        match gets(st, "op") {
            "set" => { let i = getu(st, "i"); obj[i] = v(); mv[i] = v(); }
            "cset" => { let i = getu(st, "i"); obj.coeffs()[i] = v(); mv[i] = v(); }
            "push" => { obj.coeffs().push(v()); mv.push(v()); }
            "pop" => { obj.coeffs().pop(); mv.pop(); }
            "trim" => { obj.trim(); while mv.len() > 1 && mv[mv.len() - 1] == zero { mv.pop(); } }
            "obs" => {
                let m = Polynomial::<C::T>::new(mv.clone());
                let live = Some(&obj); let o = &obj;
                let tag = |e: &mut Value| { e["step"] = json!(k); };
                // single-entry memos: the LAST call before a mutation and the FIRST call after it use the same arguments (bracket)
                let bracket = |out: &mut Out| {
                    if let Some(x) = xs.first() { let xv = C::dec(&x.0, x.1.as_ref());
                        val_op_live::<C>(case, out, "eval", &m, None, live, &|e| { tag(e); set_sc(e, "x", x); }, &|| o.eval(xv));
                        val_op_live::<C>(case, out, "derivative_at", &m, None, live, &|e| { tag(e); e["n"] = json!(1); set_sc(e, "x", x); }, &|| o.derivative_at(xv, 1)); }
                    poly_op_live::<C>(case, out, "derivative_n", "ref", &m, None, live, &|e| { tag(e); e["n"] = json!(1); }, &|a, _| a.derivative_n(1));
                    if let Some(s) = ss.first() { let sv = C::dec(&s.0, s.1.as_ref());
                        poly_op_live::<C>(case, out, "scale", "ref", &m, None, live, &|e| { tag(e); set_sc(e, "s", s); }, &|a, _| a * sv); }
                    poly_op_live::<C>(case, out, "mul", "ref", &m, Some(&q), live, &tag, &|a, b| a * b.unwrap());
                    poly_op_live::<C>(case, out, "derivative", "ref", &m, None, live, &tag, &|a, _| a.derivative());
                };
                bracket(out);
                // the same arguments before and after every mutation (a value remembered per argument must not survive), plus varying ones
                for (j, x) in xs.iter().enumerate() { let xv = C::dec(&x.0, x.1.as_ref());
                    val_op_live::<C>(case, out, "eval", &m, None, live, &|e| { tag(e); set_sc(e, "x", x); }, &|| o.eval(xv));
                    for n in [j % 3, (k + j) % (mv.len() + 1)] {
                        val_op_live::<C>(case, out, "derivative_at", &m, None, live, &|e| { tag(e); e["n"] = json!(n); set_sc(e, "x", x); }, &|| o.derivative_at(xv, n)); } }
                for n in [0usize, 1, 2, k % (mv.len() + 1)] {
                    poly_op_live::<C>(case, out, "derivative_n", "ref", &m, None, live, &|e| { tag(e); e["n"] = json!(n); }, &|a, _| a.derivative_n(n)); }
                poly_op_live::<C>(case, out, "derivative", "ref", &m, None, live, &tag, &|a, _| a.derivative());
                poly_op_live::<C>(case, out, "neg", "ref", &m, None, live, &tag, &|a, _| -a);
                for s in &ss { let sv = C::dec(&s.0, s.1.as_ref());
                    poly_op_live::<C>(case, out, "scale", "ref", &m, None, live, &|e| { tag(e); set_sc(e, "s", s); }, &|a, _| a * sv); }
                poly_op_live::<C>(case, out, "add", "ref", &m, Some(&q), live, &tag, &|a, b| a + b.unwrap());
                poly_op_live::<C>(case, out, "sub", "ref", &m, Some(&q), live, &tag, &|a, b| a - b.unwrap());
                poly_op_live::<C>(case, out, "mul", "ref", &m, Some(&q), live, &tag, &|a, b| a * b.unwrap());
                poly_op_live::<C>(case, out, "mul", "ref", &q, Some(&m), None, &tag, &|a, _| a * o);              // the object as right operand
                poly_op_live::<C>(case, out, "mul", "alias", &m, Some(&m), live, &tag, &|a, _| a * a);
                { let mut e = base::<C>(case, "is_zero", "ref", &m, None); tag(&mut e);
                  match guarded(|| o.is_zero()) { Ok(b) => e["b"] = json!(b), Err(_) => { e["panic"] = json!(true); e["b"] = json!(false); } } e["intact"] = json!(same::<C>(o, &m)); out.ev(e); }
                { let mut e = base::<C>(case, "degree", "ref", &m, None); tag(&mut e);
                  match guarded(|| o.degree()) { Ok(Ok(d)) => { e["ok"] = json!(true); e["d"] = json!(d); } Ok(Err(_)) => { e["ok"] = json!(false); e["d"] = json!(-1); }
                      Err(_) => { e["panic"] = json!(true); e["ok"] = json!(false); e["d"] = json!(-1); } } out.ev(e); }
                { let mut e = base::<C>(case, "size", "ref", &m, None); tag(&mut e); e["d"] = json!(o.size()); out.ev(e); }
                bracket(out);
            }
            "obsz" => {
                // light observation: is_zero(), degree(), size(), one evaluation - used around single writes that flip the zero-ness
                let m = Polynomial::<C::T>::new(mv.clone()); let o = &obj;
                let tag = |e: &mut Value| { e["step"] = json!(k); };
                for _ in 0..2 {
                    { let mut e = base::<C>(case, "is_zero", "ref", &m, None); tag(&mut e);
                      match guarded(|| o.is_zero()) { Ok(b) => e["b"] = json!(b), Err(_) => { e["panic"] = json!(true); e["b"] = json!(false); } } e["intact"] = json!(same::<C>(o, &m)); out.ev(e); }
                    { let mut e = base::<C>(case, "degree", "ref", &m, None); tag(&mut e);
                      match guarded(|| o.degree()) { Ok(Ok(d)) => { e["ok"] = json!(true); e["d"] = json!(d); } Ok(Err(_)) => { e["ok"] = json!(false); e["d"] = json!(-1); }
                          Err(_) => { e["panic"] = json!(true); e["ok"] = json!(false); e["d"] = json!(-1); } } out.ev(e); }
                    { let mut e = base::<C>(case, "size", "ref", &m, None); tag(&mut e); e["d"] = json!(o.size()); out.ev(e); }
                    if let Some(x) = xs.first() { let xv = C::dec(&x.0, x.1.as_ref());
                        val_op_live::<C>(case, out, "eval", &m, None, Some(o), &|e| { tag(e); set_sc(e, "x", x); }, &|| o.eval(xv)); }
                    poly_op_live::<C>(case, out, "trim", "ref", &m, None, None, &tag, &|a, _| { let mut t = a.clone(); t.trim(); t });
                }
            }
            other => { eprintln!("TOOL-ERROR unknown poly step {}", other); std::process::exit(2) }
        }
    }
}

/// Build an object with the coefficients `c` through a HISTORY, so that hidden storage (spare Vec capacity) and internal state differ
/// from those of a freshly constructed or cloned polynomial.
fn build<C: Codec>(c: &[C::T], hist: &str, junk: C::T) -> Polynomial<C::T> {
    let zero = <C::T as ohsl::Zero>::zero();
    let trimmable = !c.is_empty() && (c.len() == 1 || c[c.len() - 1] != zero);
    match hist {
        "cap" => { let mut v = Vec::with_capacity(12); for x in c { v.push(*x); } Polynomial::new(v) }
        "pushpop" => { let mut v = c.to_vec(); while v.len() < 12 { v.push(junk); } let mut p = Polynomial::new(v); while p.size() > c.len() { p.coeffs().pop(); } p }
        "refill" => { let mut p = Polynomial::new(vec![junk; 12]); p.coeffs().clear(); for x in c { p.coeffs().push(*x); } p }
        "trimmed" if trimmable => { let mut v = c.to_vec(); while v.len() < 12 { v.push(zero); } let mut p = Polynomial::new(v); p.trim(); p }
        "trunc" | "trimmed" => { let mut v = c.to_vec(); while v.len() < 12 { v.push(junk); } let mut p = Polynomial::new(v); p.coeffs().truncate(c.len()); p }
        "result" => { let a = Polynomial::new(c.iter().map(|x| *x - junk).collect::<Vec<C::T>>()); let b = Polynomial::new(vec![junk; c.len()]); &a + &b }
        "indexed" => { let mut p = Polynomial::new(vec![junk; c.len()]); for (i, x) in c.iter().enumerate() { p[i] = *x; } p }
        _ => Polynomial::new(c.to_vec()),
    }
}

/// Histories and moves: operands are built through histories (hist_p / hist_q); every observer is called on the operand, the operand ITSELF
/// (not a clone) is then consumed by / passed to each operation, and every observer is called on the result.  Events are the usual ones.
fn run_hist<C: Codec>(case: &Value, out: &mut Out) {
    let dec = |key: &str| -> Vec<C::T> { let a = arr(&case[key]); let b = case.get(format!("{}i", key).as_str()).map(arr); a.iter().enumerate().map(|(k, x)| C::dec(x, b.as_ref().and_then(|y| y.get(k)))).collect() };
    let (pc, qc) = (dec("p"), dec("q"));
    let (hp, hq) = (gets(case, "hist_p").to_string(), gets(case, "hist_q").to_string());
    let xs = scalars::<C>(case, "xs"); let ss = scalars::<C>(case, "ss");
    let junk = C::dec(&json!(7), Some(&json!(0)));
    let (x0, s0) = (&xs[0], &ss[0]); let (xv, sv) = (C::dec(&x0.0, x0.1.as_ref()), C::dec(&s0.0, s0.1.as_ref()));
    // all observers on a live object; logged or only called (to fill whatever the object remembers)
    let observe = |out: &mut Out, o: &Polynomial<C::T>, log: bool, step: usize| {
        if !log { let _ = guarded(|| { let _ = o.derivative(); let _ = o.derivative_n(2); let _ = o.derivative_at(xv, 1); let _ = o.eval(xv); let _ = o.degree(); let _ = o.is_zero(); o.size() }); return; }
        let m = Polynomial::<C::T>::new((0..o.size()).map(|i| o[i]).collect());
        let tag = |e: &mut Value| { e["step"] = json!(step); e["hist_p"] = json!(hp.clone()); };
        poly_op_live::<C>(case, out, "derivative", "ref", &m, None, Some(o), &tag, &|a, _| a.derivative());
        poly_op_live::<C>(case, out, "derivative_n", "ref", &m, None, Some(o), &|e| { tag(e); e["n"] = json!(2); }, &|a, _| a.derivative_n(2));
        val_op_live::<C>(case, out, "derivative_at", &m, None, Some(o), &|e| { tag(e); e["n"] = json!(1); set_sc(e, "x", x0); }, &|| o.derivative_at(xv, 1));
        val_op_live::<C>(case, out, "eval", &m, None, Some(o), &|e| { tag(e); set_sc(e, "x", x0); }, &|| o.eval(xv));
        { let mut e = base::<C>(case, "degree", "ref", &m, None); tag(&mut e);
          match guarded(|| o.degree()) { Ok(Ok(d)) => { e["ok"] = json!(true); e["d"] = json!(d); } Ok(Err(_)) => { e["ok"] = json!(false); e["d"] = json!(-1); } Err(_) => { e["panic"] = json!(true); e["ok"] = json!(false); e["d"] = json!(-1); } } out.ev(e); }
        { let mut e = base::<C>(case, "is_zero", "ref", &m, None); tag(&mut e);
          match guarded(|| o.is_zero()) { Ok(b) => e["b"] = json!(b), Err(_) => { e["panic"] = json!(true); e["b"] = json!(false); } } out.ev(e); }
    };
    let mp = Polynomial::<C::T>::new(pc.clone()); let mq = Polynomial::<C::T>::new(qc.clone());
    let ops: [(&str, &str, usize); 16] = [("neg", "own", 0), ("scale", "own", 0), ("add", "own", 0), ("add", "own", 1), ("sub", "own", 0), ("sub", "own", 1), ("mul", "own", 0), ("mul", "own", 1),
                                         ("neg", "ref", 0), ("scale", "ref", 0), ("add", "ref", 0), ("add", "ref", 1), ("sub", "ref", 0), ("sub", "ref", 1), ("mul", "ref", 0), ("mul", "ref", 1)];
    for (k, (op, form, pos)) in ops.iter().enumerate() {
        // fresh operands through their histories; the history-built P sits at position `pos` (0 left, 1 right)
        let p = build::<C>(&pc, &hp, junk); let q = build::<C>(&qc, &hq, junk);
        observe(out, &p, k % 4 == 0, k); observe(out, &q, false, k);
        let own = *form == "own";
        let mut e = if *pos == 0 { base::<C>(case, op, form, &mp, if matches!(*op, "neg" | "scale") { None } else { Some(&mq) }) } else { base::<C>(case, op, form, &mq, Some(&mp)) };
        e["step"] = json!(k); e["hist_p"] = json!(hp.clone()); e["hist_q"] = json!(hq.clone()); e["pos"] = json!(pos);
        if *op == "scale" { set_sc(&mut e, "s", s0); }
        let r = guarded(move || match (*op, own, *pos) {
            ("neg", true, _) => -p, ("neg", false, _) => -&p,
            ("scale", true, _) => p * sv, ("scale", false, _) => &p * sv,
            ("add", true, 0) => p + q, ("add", true, _) => q + p, ("add", false, 0) => &p + &q, ("add", false, _) => &q + &p,
            ("sub", true, 0) => p - q, ("sub", true, _) => q - p, ("sub", false, 0) => &p - &q, ("sub", false, _) => &q - &p,
            ("mul", true, 0) => p * q, ("mul", true, _) => q * p, ("mul", false, 0) => &p * &q, (_, _, _) => &q * &p });
        match r { Ok(res) => { put_poly::<C>(&mut e, "r", &res); out.ev(e); observe(out, &res, true, k); }
                  Err(_) => { e["panic"] = json!(true); e["r"] = json!([]); if C::KIND == "c" { e["ri"] = json!([]); } out.ev(e); } }
    }
}

/// Two live objects related by Clone (or by `&p + &empty`, a clone of a clone, a clone that outlives its original): mutators and observers are
/// interleaved on both, the observers with THE SAME arguments on one object and then on the other; each call is judged against that object's
/// own model state (two plain Vecs; events carry obj = 1 / 2).  Nothing may be shared between the two objects.
fn run_twin<C: Codec>(case: &Value, out: &mut Out) {
    let a = arr(&case["p"]); let b = case.get("pi").map(arr);
    let pv: Vec<C::T> = a.iter().enumerate().map(|(k, x)| C::dec(x, b.as_ref().and_then(|y| y.get(k)))).collect();
    let xs = scalars::<C>(case, "xs"); let ss = scalars::<C>(case, "ss");
    let (x0, s0) = (&xs[0], &ss[0]); let (xv, sv) = (C::dec(&x0.0, x0.1.as_ref()), C::dec(&s0.0, s0.1.as_ref()));
    let vals: Vec<C::T> = scalars::<C>(case, "vals").iter().map(|v| C::dec(&v.0, v.1.as_ref())).collect();
    let zero = <C::T as ohsl::Zero>::zero();
    let mode = gets(case, "mode");
    // observers with fixed arguments; `first` is observed, then `second`, with the same argument, order by order
    let obs1 = |out: &mut Out, o: &Polynomial<C::T>, mv: &Vec<C::T>, obj: usize, step: usize, n: usize| {
        let m = Polynomial::<C::T>::new(mv.clone());
        let tag = |e: &mut Value| { e["step"] = json!(step); e["obj"] = json!(obj); };
        val_op_live::<C>(case, out, "derivative_at", &m, None, Some(o), &|e| { tag(e); e["n"] = json!(n); set_sc(e, "x", x0); }, &|| o.derivative_at(xv, n));
        poly_op_live::<C>(case, out, "derivative_n", "ref", &m, None, Some(o), &|e| { tag(e); e["n"] = json!(n); }, &|a, _| a.derivative_n(n));
        if n == 1 { poly_op_live::<C>(case, out, "derivative", "ref", &m, None, Some(o), &tag, &|a, _| a.derivative()); }
        if n == 0 { val_op_live::<C>(case, out, "eval", &m, None, Some(o), &|e| { tag(e); set_sc(e, "x", x0); }, &|| o.eval(xv));
            let mut e = base::<C>(case, "degree", "ref", &m, None); tag(&mut e);
            match guarded(|| o.degree()) { Ok(Ok(d)) => { e["ok"] = json!(true); e["d"] = json!(d); } Ok(Err(_)) => { e["ok"] = json!(false); e["d"] = json!(-1); } Err(_) => { e["panic"] = json!(true); e["ok"] = json!(false); e["d"] = json!(-1); } } out.ev(e); }
    };
    let both = |out: &mut Out, x: &Polynomial<C::T>, mx: &Vec<C::T>, ox: usize, y: &Polynomial<C::T>, my: &Vec<C::T>, oy: usize, step: usize| {
        for n in [1usize, 2, 0, 1] { obs1(out, x, mx, ox, step, n); obs1(out, y, my, oy, step, n); }
    };
    let mut ma = pv.clone(); let mut pa = Polynomial::<C::T>::new(pv.clone());
    if mode == "obsclone" { for n in [0usize, 1, 2] { obs1(out, &pa, &ma, 1, 0, n); } }
    let mut pb = match mode { "addempty" => &pa + &Polynomial::<C::T>::empty(), "cloneclone" => { let c = pa.clone(); c.clone() }, _ => pa.clone() };
    let mut mb = pv.clone();
    if mode == "outlive" { let keep = pa.clone(); drop(pa); pa = keep.clone(); drop(keep); }
    both(out, &pa, &ma, 1, &pb, &mb, 2, 1);
    let mut k = 0usize; let mut nv = |old: C::T| -> C::T { k += 1; let v = vals[k % vals.len()]; if v == old { vals[(k + 1) % vals.len()] } else { v } };
    // every mutator, alternately on the first and on the second object; after each: the edited object first, then the other
    for (st, m) in ["set", "cset", "push", "pop", "neg", "scale", "zerotrim", "set"].iter().enumerate() {
        let on_a = st % 2 == 0;
        { let (o, mv) = if on_a { (&mut pa, &mut ma) } else { (&mut pb, &mut mb) };
          match *m {
            "set" => { let i = st % mv.len(); let v = nv(mv[i]); o[i] = v; mv[i] = v; }
            "cset" => { let i = (st + 1) % mv.len(); let v = nv(mv[i]); o.coeffs()[i] = v; mv[i] = v; }
            "push" => { let v = nv(zero); let v = if v == zero { vals[0] } else { v }; o.coeffs().push(v); mv.push(v); }
            "pop" => { if mv.len() > 2 { o.coeffs().pop(); mv.pop(); } }
            "neg" => { let t = std::mem::replace(o, Polynomial::<C::T>::empty()); *o = -t; for x in mv.iter_mut() { *x = zero - *x; } }
            "scale" => { let t = std::mem::replace(o, Polynomial::<C::T>::empty()); *o = t * sv; for x in mv.iter_mut() { *x = *x * sv; } }
            _ => { let l = mv.len() - 1; if l >= 1 { o[l] = zero; mv[l] = zero; o.trim(); while mv.len() > 1 && mv[mv.len() - 1] == zero { mv.pop(); } } }
          } }
        if on_a { both(out, &pa, &ma, 1, &pb, &mb, 2, st + 2); } else { both(out, &pb, &mb, 2, &pa, &ma, 1, st + 2); }
    }
    // a clone taken now, the original dropped: the clone must carry on alone
    let pc = pb.clone(); drop(pb); let mc = mb.clone();
    both(out, &pc, &mc, 2, &pa, &ma, 1, 20);
}

pub fn run<C: Codec>(case: &Value, out: &mut Out) {
    if gets(case, "bat") == "seq" { return run_seq::<C>(case, out); }
    if gets(case, "bat") == "twin" { return run_twin::<C>(case, out); }
    if gets(case, "bat") == "hist" { return run_hist::<C>(case, out); }
    let p = poly_from::<C>(&case["p"], case.get("pi"));
    let q = poly_from::<C>(&case["q"], case.get("qi"));
    let own = gets(case, "form") == "own";
    let form = if own { "own" } else { "ref" };
    let bat = gets(case, "bat");
    let xs = scalars::<C>(case, "xs"); let ss = scalars::<C>(case, "ss");
    let none = |_: &mut Value| {};
    // ---- binary ring operations, by reference or consuming
    let sum = poly_op::<C>(case, out, "add", form, &p, Some(&q), &none, &|a, b| if own { a.clone() + b.unwrap().clone() } else { a + b.unwrap() });
    let dif = poly_op::<C>(case, out, "sub", form, &p, Some(&q), &none, &|a, b| if own { a.clone() - b.unwrap().clone() } else { a - b.unwrap() });
    let prd = poly_op::<C>(case, out, "mul", form, &p, Some(&q), &none, &|a, b| if own { a.clone() * b.unwrap().clone() } else { a * b.unwrap() });
    // value of the result = combination of the operands' values
    if let Some(x) = xs.first() {
        let xv = C::dec(&x.0, x.1.as_ref());
        for (sub, res) in [("add", &sum), ("sub", &dif), ("mul", &prd)] {
            if let Some(r) = res { if p.size() > 0 && q.size() > 0 {
                val_op::<C>(case, out, "evalres", &p, Some(&q), &|e| { e["sub"] = json!(sub); set_sc(e, "x", x); }, &|| r.eval(xv));
            } }
        }
    }
    if bat == "full" || bat == "alias" { alias_and_chains::<C>(case, out, &p, &q); }
    if bat != "full" { return; }
    // ---- unary operations on p
    poly_op::<C>(case, out, "neg", form, &p, None, &none, &|a, _| if own { -(a.clone()) } else { -a });
    for s in &ss { let sv = C::dec(&s.0, s.1.as_ref());
        poly_op::<C>(case, out, "scale", form, &p, None, &|e| set_sc(e, "s", s), &|a, _| if own { a.clone() * sv } else { a * sv }); }
    for x in &xs { let xv = C::dec(&x.0, x.1.as_ref());
        val_op::<C>(case, out, "eval", &p, None, &|e| set_sc(e, "x", x), &|| p.eval(xv)); }
    poly_op::<C>(case, out, "derivative", "ref", &p, None, &none, &|a, _| a.derivative());
    let maxn = p.size() + if case.get("beyond").and_then(|v| v.as_i64()).unwrap_or(0) == 1 { 1 } else { 0 };
    for n in 0..=maxn {
        poly_op::<C>(case, out, "derivative_n", "ref", &p, None, &|e| e["n"] = json!(n), &|a, _| a.derivative_n(n));
        if let Some(x) = xs.get(n % xs.len().max(1)) { let xv = C::dec(&x.0, x.1.as_ref());
            val_op::<C>(case, out, "derivative_at", &p, None, &|e| { e["n"] = json!(n); set_sc(e, "x", x); }, &|| p.derivative_at(xv, n)); }
    }
    poly_op::<C>(case, out, "trim", "ref", &p, None, &none, &|a, _| { let mut t = a.clone(); t.trim(); t });
    { let mut e = base::<C>(case, "is_zero", "ref", &p, None);
      match guarded(|| p.is_zero()) { Ok(b) => e["b"] = json!(b), Err(_) => { e["panic"] = json!(true); e["b"] = json!(false); } } out.ev(e); }
    { let mut e = base::<C>(case, "degree", "ref", &p, None);
      match guarded(|| p.degree()) { Ok(Ok(d)) => { e["ok"] = json!(true); e["d"] = json!(d); } Ok(Err(_)) => { e["ok"] = json!(false); e["d"] = json!(-1); }
          Err(_) => { e["panic"] = json!(true); e["ok"] = json!(false); e["d"] = json!(-1); } } out.ev(e); }
    { let mut e = base::<C>(case, "size", "ref", &p, None); e["d"] = json!(p.size()); out.ev(e); }
}

/// the SAME object on both sides of every by-reference binary operator (&p * &p, &p + &p, &p - &p), and chained expressions
/// that reuse one object; checked against Poly.tla like any other call (q = p in the event)
fn alias_and_chains<C: Codec>(case: &Value, out: &mut Out, p: &Polynomial<C::T>, q: &Polynomial<C::T>) {
    let none = |_: &mut Value| {};
    poly_op::<C>(case, out, "mul", "alias", p, Some(p), &none, &|a, _| a * a);
    poly_op::<C>(case, out, "add", "alias", p, Some(p), &none, &|a, _| a + a);
    poly_op::<C>(case, out, "sub", "alias", p, Some(p), &none, &|a, _| a - a);
    // (p*p)*p, (p+p)-p: one object used three times
    poly_op::<C>(case, out, "cube", "chain", p, None, &none, &|a, _| &(a * a) * a);
    poly_op::<C>(case, out, "lin", "chain", p, None, &none, &|a, _| &(a + a) - a);
    // p*q - q*p (zero), p*p + q*q
    poly_op::<C>(case, out, "comm", "chain", p, Some(q), &none, &|a, b| &(a * b.unwrap()) - &(b.unwrap() * a));
    poly_op::<C>(case, out, "sumsq", "chain", p, Some(q), &none, &|a, b| &(a * a) + &(b.unwrap() * b.unwrap()));
}

/// calls the crate refuses (panic / Err), under guarded(), in every element type; used by the "poison" cases
fn refuse(kind: &str) {
    use ohsl::Cmplx;
    let _ = guarded(|| match kind {
        "evalempty" => { let _ = Polynomial::<f64>::new(vec![]).eval(2.0); }
        "derivempty" => { let _ = Polynomial::<Rat>::new(vec![]).derivative(); }
        "trimempty" => { let mut p = Polynomial::<Cmplx>::new(vec![]); p.trim(); }
        "index" => { let p = Polynomial::<Rat>::new(vec![Rat::int(1)]); let _ = p[3]; }
        "indexmut" => { let mut p = Polynomial::<f64>::new(vec![1.0]); p[2] = 5.0; }
        "deg0roots" => { let _ = Polynomial::<f64>::new(vec![7.0]).roots(false); }
        "derivat" => { let _ = Polynomial::<Cmplx>::new(vec![Cmplx::new(1.0, 0.0)]).derivative_at(Cmplx::new(1.0, 0.0), 3); }
        _ => { let _ = Polynomial::<Rat>::new(vec![Rat::int(1), Rat::int(2)]).polydiv(&Polynomial::<Rat>::new(vec![Rat::int(0), Rat::int(0)])); }
    });
}

pub fn exec(case: &Value, out: &mut Out) {
    if let Some(k) = case.get("poison").and_then(|v| v.as_str()) {
        // a refused call, IMMEDIATELY followed on this thread by the ordinary battery - and once more
        refuse(k);
        let mut c = case.clone(); c.as_object_mut().unwrap().remove("poison");
        exec(&c, out); exec(&c, out); return;
    }
    match gets(case, "ty") { "rat" => run::<RatI>(case, out), "f64" => run::<F64I>(case, out), "cx" => run::<CxI>(case, out), "ratq" => run::<RatQ>(case, out),
        t => { eprintln!("TOOL-ERROR unknown type {}", t); std::process::exit(2) } }
}

// ------------------------------------------------------------------ case generation (impl -> spec)
fn coeffs(rng: &mut StdRng, len: usize, lim: i64, lead_nz: bool) -> Vec<i64> {
    let mut v: Vec<i64> = (0..len).map(|_| if rng.gen_bool(0.15) { 0 } else { rng.gen_range(-lim..=lim) }).collect();
    if lead_nz && len > 0 && v[len - 1] == 0 { v[len - 1] = if rng.gen_bool(0.5) { 1 } else { -lim }; }
    v
}
/// force one of the special exact values 0, 1, -1 into one position (constant, inner, leading; never 0 in the leading one)
fn special(rng: &mut StdRng, mut v: Vec<i64>, k: usize) -> Vec<i64> {
    let n = v.len(); if n == 0 { return v; }
    let pos = match k % 3 { 0 => 0, 1 => n - 1, _ => rng.gen_range(0..n) };
    let val = [1i64, -1, 0][rng.gen_range(0..3)];
    v[pos] = if pos == n - 1 && val == 0 { 1 } else { val };
    v
}
fn qcoeffs(rng: &mut StdRng, len: usize) -> Vec<Value> {
    (0..len).map(|_| { let d = [1i64, 1, 2, 3][rng.gen_range(0..4)]; let n = if rng.gen_bool(0.15) { 0 } else { rng.gen_range(-6..=6i64) }; jrat(Rat::new(n as i128, d as i128)) }).collect()
}

pub fn gen(tier: &str, seed: u64, out: &mut Out) {
    let quick = tier == "quick";
    let mut rng = rng(seed, 11);
    let mut cid = 0i64;
    let mut push = |out: &mut Out, mut c: Value| { cid += 1; c["cid"] = json!(cid); c["suite"] = json!("poly"); out.raw(&c); };
    let tys = ["rat", "f64", "cx"];
    // (a) every pair of lengths 0..9 (degree 0..8 and the empty polynomial), either order, both forms
    let reps = if quick { 1 } else { 6 };
    for lp in 0..=9usize { for lq in 0..=9usize { for rep in 0..reps {
        let ty = tys[(lp + 2 * lq + rep) % 3];
        let lead = rng.gen_bool(0.7);
        let (pp, qq) = (coeffs(&mut rng, lp, 9, lead), coeffs(&mut rng, lq, 9, lead));
        let (pp, qq) = if (lp + lq + rep) % 3 == 0 { (special(&mut rng, pp, lq), special(&mut rng, qq, lp)) } else { (pp, qq) };
        let mut c = json!({"ty": ty, "p": pp, "q": qq,
                           "form": if (lp + lq + rep) % 2 == 0 { "ref" } else { "own" }, "bat": if quick && (lp + lq) % 2 == 1 { "pair" } else { "full" },
                           "xs": [rng.gen_range(-2..=2i64), -2, 2, 1, 0, -1], "ss": [rng.gen_range(-9..=9i64), 0, -1], "beyond": if rep % 2 == 1 { 1 } else { 0 }});
        if ty == "cx" {
            c["pi"] = json!(coeffs(&mut rng, lp, 9, false)); c["qi"] = json!(coeffs(&mut rng, lq, 9, false));
            // |x| <= 2 in the complex plane
            let pts: [(i64, i64); 6] = [(0, 1), (1, 1), (-1, 1), (0, -2), (1, -1), (-2, 0)];
            let k = rng.gen_range(0..6);
            c["xs"] = json!((0..6).map(|j| pts[(j + k) % 6].0).collect::<Vec<i64>>()); c["xsi"] = json!((0..6).map(|j| pts[(j + k) % 6].1).collect::<Vec<i64>>());
            c["ssi"] = json!([rng.gen_range(-9..=9i64), 1, 0]);
        }
        push(out, c);
    } } }
    // (a5) RUNS of equal coefficients (all equal; a window of 3..5 equal non-zero values at every position; blocks a,a,b,b,..):
    //      value coincidences between neighbouring coefficients, which random draws from -9..9 almost never produce at three
    //      places in a row (incremental "k*a_k from (k-1)*a_(k-1)" schemes, run-length shortcuts)
    for len in 3..=9usize { for ty in tys {
        let mut pats: Vec<(Vec<i64>, Vec<i64>)> = vec![];
        for c in [1i64, -3, 7] { pats.push((vec![c; len], vec![if c == 1 { 0 } else { 2 }; len])); }
        for w in 3..=5usize { if w > len { continue; } for s0 in 0..=(len - w) {
            if quick && (s0 + w + len) % 2 == 1 && s0 + w != len { continue; }
            let c = [2i64, -5, 4][(s0 + w) % 3]; let ci = [-1i64, 3, 0][(s0 + len) % 3];
            let mut re: Vec<i64> = (0..len).map(|i| ((i as i64 * 5 + s0 as i64) % 7) - 3).collect(); let mut im: Vec<i64> = (0..len).map(|i| ((i as i64 * 3 + w as i64) % 5) - 2).collect();
            for i in s0..s0 + w { re[i] = c; im[i] = ci; }
            if re[len - 1] == 0 { re[len - 1] = 1; }
            pats.push((re, im));
        } }
        pats.push(((0..len).map(|i| if (i / 2) % 2 == 0 { 3 } else { -2 }).collect(), (0..len).map(|i| if (i / 3) % 2 == 0 { 1 } else { -1 }).collect()));
        for (k, (re, im)) in pats.into_iter().enumerate() {
            let lq = 1 + (k + len) % 3;
            let mut c = json!({"ty": ty, "p": re, "q": coeffs(&mut rng, lq, 9, true), "form": if (k + len) % 2 == 0 { "ref" } else { "own" }, "bat": "full",
                               "xs": [1, -1, 2, 0, -2, 1], "ss": [rng.gen_range(-9..=9i64), 0, -1], "beyond": (k % 2) as i64});
            if ty == "cx" { c["pi"] = json!(im); c["qi"] = json!(coeffs(&mut rng, lq, 9, false));
                c["xs"] = json!([0, 1, -1, 0, 1, -2]); c["xsi"] = json!([1, 1, 1, -2, -1, 0]); c["ssi"] = json!([rng.gen_range(-9..=9i64), 1, 0]); }
            push(out, c);
        }
    } }
    // (a2) aliasing: the same object on both sides, every length 0..9 (degree 0..8 and empty), every element type
    for len in 0..=9usize { for ty in ["rat", "f64", "cx", "ratq"] { for rep in 0..(if quick { 1 } else { 4 }) {
        if ty == "ratq" && len > 5 { continue; }
        let base = coeffs(&mut rng, len, 9, true); let basei = coeffs(&mut rng, len, 9, false);
        let mut c = if ty == "ratq" { json!({"ty": ty, "p": qcoeffs(&mut rng, len), "q": qcoeffs(&mut rng, (len + rep) % 4)}) }
                    else { json!({"ty": ty, "p": special(&mut rng, base, rep), "q": coeffs(&mut rng, (len + 2 * rep + 1) % 10, 9, true)}) };
        c["form"] = json!("ref"); c["bat"] = json!("alias"); c["xs"] = if ty == "ratq" { json!([[1, 2]]) } else { json!([2]) }; c["ss"] = json!([]); c["beyond"] = json!(0);
        if ty == "cx" { c["pi"] = json!(special(&mut rng, basei, rep + 1)); c["qi"] = json!(coeffs(&mut rng, (len + 2 * rep + 1) % 10, 9, false)); c["xsi"] = json!([1]); c["ssi"] = json!([]); }
        push(out, c);
    } } }
    // (a3) sequences on one object: observers / mutator / observers ... through every mutator (no stale internal state)
    for len in 1..=8usize { for ty in tys { for rep in 0..(if quick { 1 } else { 6 }) {
        let cxs = ty == "cx";
        let mut cur = coeffs(&mut rng, len, 9, true); let mut curi = if cxs { coeffs(&mut rng, len, 9, false) } else { vec![0; len] };
        let (p0, p0i) = (cur.clone(), curi.clone());
        let mut steps: Vec<Value> = vec![json!({"op": "obs"})];
        let nv = |old: i64| -> i64 { if old >= 0 { -old - 1 } else { -old + 2 } };            // always different from the old value, |v| <= 11
        let order = [[0usize, 1, 2, 3], [2, 3, 1, 0], [1, 0, 3, 2], [3, 2, 0, 1]][(len + rep) % 4];
        for m in order {
            match m {
                0 | 1 => { let i = rng.gen_range(0..cur.len()); cur[i] = nv(cur[i]); curi[i] = if cxs { nv(curi[i]) } else { 0 };
                           if i == cur.len() - 1 && cur[i] == 0 && curi[i] == 0 { cur[i] = 1; }
                           steps.push(json!({"op": if m == 0 { "set" } else { "cset" }, "i": i, "v": cur[i], "vi": curi[i]})); }
                2 => { let v = rng.gen_range(1..=9i64); let vi = if cxs { rng.gen_range(-9..=9i64) } else { 0 }; cur.push(v); curi.push(vi); steps.push(json!({"op": "push", "v": v, "vi": vi})); }
                _ => { if cur.len() > 1 { cur.pop(); curi.pop(); steps.push(json!({"op": "pop"})); } else { cur[0] = nv(cur[0]); steps.push(json!({"op": "set", "i": 0, "v": cur[0], "vi": curi[0]})); } }
            }
            steps.push(json!({"op": "obs"}));
        }
        // zero the leading coefficient through IndexMut, observe, trim, observe
        if cur.len() > 1 { let l = cur.len() - 1; cur[l] = 0; curi[l] = 0; steps.push(json!({"op": "set", "i": l, "v": 0, "vi": 0})); steps.push(json!({"op": "obs"}));
            steps.push(json!({"op": "trim"})); steps.push(json!({"op": "obs"})); }
        let mut c = json!({"ty": ty, "bat": "seq", "form": "ref", "p": p0, "q": coeffs(&mut rng, (len + rep) % 5 + 1, 9, true), "xs": [2, -1, 1, -2], "ss": [3, -2], "beyond": 0, "steps": steps});
        if cxs { c["pi"] = json!(p0i); c["qi"] = json!(coeffs(&mut rng, (len + rep) % 5 + 1, 9, false)); c["xsi"] = json!([0, 1, -1, 0]); c["ssi"] = json!([1, 0]); }
        push(out, c);
    } } }
    // (a4) single writes that flip the zero-ness of one object: zero -> non-zero lead -> ... -> zero again (one coefficient at a time) -> non-zero;
    //      empty -> push; is_zero() / degree() / size() / eval observed (twice) before and after every write
    for ty in tys { for n in 1..=4usize { for start in ["zero", "nonzero", "empty"] { for wr in ["set", "cset"] { for rep in 0..(if quick { 1 } else { 4 }) {
        let cxs = ty == "cx";
        let nz = |rng: &mut StdRng| -> (i64, i64) { loop { let a = rng.gen_range(-3..=3i64); let b = if cxs { rng.gen_range(-3..=3i64) } else { 0 }; if a != 0 || b != 0 { return if cxs && rng.gen_bool(0.3) { (0, if b != 0 { b } else { 1 }) } else { (a, b) }; } } };
        let mut cur: Vec<(i64, i64)> = match start { "zero" => vec![(0, 0); n], "empty" => vec![], _ => (0..n).map(|_| nz(&mut rng)).collect() };
        let p0 = cur.clone();
        let mut steps: Vec<Value> = vec![json!({"op": "obsz"})];
        if start == "empty" { for _ in 0..n { let v = nz(&mut rng); cur.push(v); steps.push(json!({"op": "push", "v": v.0, "vi": v.1})); steps.push(json!({"op": "obsz"})); } }
        if start == "zero" { let order: Vec<usize> = if rep % 2 == 0 { (0..n).rev().collect() } else { (0..n).collect() };
            for i in order { let v = nz(&mut rng); cur[i] = v; steps.push(json!({"op": wr, "i": i, "v": v.0, "vi": v.1})); steps.push(json!({"op": "obsz"})); } }
        for i in 0..cur.len() { cur[i] = (0, 0); steps.push(json!({"op": wr, "i": i, "v": 0, "vi": 0})); steps.push(json!({"op": "obsz"})); }
        if !cur.is_empty() { let i = rng.gen_range(0..cur.len()); let v = nz(&mut rng); cur[i] = v; steps.push(json!({"op": if wr == "set" { "cset" } else { "set" }, "i": i, "v": v.0, "vi": v.1})); steps.push(json!({"op": "obsz"}));
            cur[i] = (0, 0); steps.push(json!({"op": "set", "i": i, "v": 0, "vi": 0})); steps.push(json!({"op": "obsz"})); }
        let mut c = json!({"ty": ty, "bat": "seq", "form": "ref", "p": p0.iter().map(|c| c.0).collect::<Vec<i64>>(), "q": [1], "xs": [2], "ss": [], "beyond": 0, "steps": steps});
        if cxs { c["pi"] = json!(p0.iter().map(|c| c.1).collect::<Vec<i64>>()); c["qi"] = json!([0]); c["xsi"] = json!([1]); c["ssi"] = json!([]); }
        push(out, c);
    } } } } }
    // (a5) histories and moves: operands built through histories (spare capacity, earlier results, index writes ...), observed, then the operand
    //      ITSELF consumed by / passed to every operation in both positions, and the result observed
    let hists = ["plain", "cap", "pushpop", "refill", "trimmed", "trunc", "result", "indexed"];
    for (ti, ty) in tys.iter().enumerate() { for (hi, hp) in hists.iter().enumerate() { for combo in 0..4usize { for rep in 0..(if quick { 1 } else { 5 }) {
        let cxs = *ty == "cx";
        let (lp, lq) = match combo { 0 => { let a = rng.gen_range(1..=5usize); (a, a + rng.gen_range(1..=4usize)) }          // left shorter
                                     1 => { let b = rng.gen_range(1..=5usize); (b + rng.gen_range(1..=4usize), b) }          // left longer
                                     2 => { let a = rng.gen_range(1..=9usize); (a, a) }
                                     _ => if rep % 2 == 0 { (0, rng.gen_range(1..=6usize)) } else { (rng.gen_range(1..=6usize), 0) } };
        let hq = hists[(hi + 3 * combo + rep + ti) % hists.len()];
        let (x0, s0, xi0, si0) = ([2i64, -1, 1, -2][rng.gen_range(0..4)], [3i64, -2, -1, 2][rng.gen_range(0..4)], [1i64, 0, -1][rng.gen_range(0..3)], [1i64, 0, -2][rng.gen_range(0..3)]);
        let mut c = json!({"ty": ty, "bat": "hist", "form": "own", "p": coeffs(&mut rng, lp, 9, true), "q": coeffs(&mut rng, lq, 9, true), "hist_p": hp, "hist_q": hq,
                           "xs": [x0], "ss": [s0], "beyond": 0});
        if cxs { c["pi"] = json!(coeffs(&mut rng, lp, 9, false)); c["qi"] = json!(coeffs(&mut rng, lq, 9, false)); c["xsi"] = json!([xi0]); c["ssi"] = json!([si0]); }
        push(out, c);
    } } } }
    // (a6) a refused call (panic / Err) immediately followed by the ordinary battery on the same thread, twice
    for kind in ["evalempty", "derivempty", "trimempty", "index", "indexmut", "deg0roots", "derivat", "divzero"] { for ty in tys { for len in [2usize, 5, 9] {
        let mut c = json!({"ty": ty, "poison": kind, "p": coeffs(&mut rng, len, 9, true), "q": coeffs(&mut rng, (len + 3) % 8 + 1, 9, true), "form": if len % 2 == 0 { "ref" } else { "own" }, "bat": "full",
                           "xs": [2, -1], "ss": [3], "beyond": 0});
        if ty == "cx" { c["pi"] = json!(coeffs(&mut rng, len, 9, false)); c["qi"] = json!(coeffs(&mut rng, (len + 3) % 8 + 1, 9, false)); c["xsi"] = json!([1, 0]); c["ssi"] = json!([-1]); }
        push(out, c);
    } } }
    // (a7) sparse operands (deterministic): both factors of size 8..9 (and a few smaller) with exactly two non-zero coefficients, every position of
    //      the pair in p, several in q, equal exponent gaps (cross terms meet at the same power) and unequal ones; monomials; three terms
    { let mut k = 0usize;
      for (lp, lq) in [(8usize, 8usize), (8, 9), (9, 8), (9, 9), (5, 9), (9, 4)] { for g in 1..lp.min(lq) { for i in 0..lp - g {
          let qs: Vec<usize> = { let m = lq - g; let mut v = vec![0, m / 2, m - 1]; v.dedup(); v };
          for i2 in qs { for gq in [g, if g + 1 < lq - i2 { g + 1 } else { g }] {
              if i2 + gq >= lq { continue; }
              k += 1; let ty = tys[k % 3];
              let nzv = |rng: &mut StdRng| -> i64 { [1i64, -1, 2, -3, 5][rng.gen_range(0..5)] };
              let mut pv = vec![0i64; lp]; pv[i] = nzv(&mut rng); pv[i + g] = nzv(&mut rng);
              let mut qv = vec![0i64; lq]; qv[i2] = nzv(&mut rng); qv[i2 + gq] = nzv(&mut rng);
              if k % 7 == 0 && i + g + 1 < lp { pv[i + g + 1] = nzv(&mut rng); }              // a third term now and then
              let (x0, xi0) = ([2i64, -1, 1][k % 3], [0i64, 1, -1][k % 3]);
              let mut c = json!({"ty": ty, "p": pv, "q": qv, "form": if k % 2 == 0 { "ref" } else { "own" }, "bat": "pair", "xs": [x0], "ss": [], "beyond": 0});
              if ty == "cx" { let mut pi = vec![0i64; lp]; pi[i] = nzv(&mut rng); let mut qi = vec![0i64; lq]; qi[i2 + gq] = nzv(&mut rng); c["pi"] = json!(pi); c["qi"] = json!(qi); c["xsi"] = json!([xi0]); c["ssi"] = json!([]); }
              push(out, c);
          } }
      } } }
      // monomials times sparse / dense
      for lp in [4usize, 8, 9] { for i in 0..lp { k += 1; let ty = tys[k % 3]; let mut pv = vec![0i64; lp]; pv[i] = [1i64, -2, 3][k % 3];
          let mut c = json!({"ty": ty, "p": pv, "q": coeffs(&mut rng, 9, 9, true), "form": "ref", "bat": "pair", "xs": [2], "ss": [], "beyond": 0});
          if ty == "cx" { c["pi"] = json!(vec![0i64; lp]); c["qi"] = json!(coeffs(&mut rng, 9, 9, false)); c["xsi"] = json!([1]); c["ssi"] = json!([]); }
          push(out, c); } }
    }
    // (a8) two live objects related by Clone: interleaved mutators and observers, each judged against its own model
    for ty in tys { for mode in ["clone", "addempty", "obsclone", "cloneclone", "outlive"] { for len in [3usize, 4, 5, 7] { for rep in 0..(if quick { 1 } else { 4 }) {
        if quick && (len == 3 || len == 5) { continue; }
        let cxs = ty == "cx";
        let (tx, tsc, txi, tsi) = ([2i64, -1, 1, -2][(len + rep) % 4], [2i64, -1, 3][(len + rep) % 3], [1i64, 0, -1][(len + rep) % 3], [0i64, 1][rep % 2]);
        let mut c = json!({"ty": ty, "bat": "twin", "form": "ref", "mode": mode, "p": coeffs(&mut rng, len, 5, true), "q": [], "xs": [tx], "ss": [tsc],
                           "vals": [4, -3, 2, -5, 1, 3, -2, 5], "beyond": 0});
        if cxs { c["pi"] = json!(coeffs(&mut rng, len, 5, false)); c["qi"] = json!([]); c["xsi"] = json!([txi]); c["ssi"] = json!([tsi]); c["valsi"] = json!([1, 0, -2, 3, 0, -1, 2, 0]); }
        push(out, c);
    } } } }
    // (b) rational coefficients and scalars (Polynomial<Rat>), degree <= 4
    for _ in 0..(if quick { 40 } else { 600 }) {
        let (lp, lq) = (rng.gen_range(0..=5usize), rng.gen_range(0..=5usize));
        let xs: Vec<Value> = [(1i64, 2i64), (-1, 2), (2, 1), (-3, 2), (1, 3), (0, 1)].iter().map(|(n, d)| json!([n, d])).collect();
        let k = rng.gen_range(0..6);
        let c = json!({"ty": "ratq", "p": qcoeffs(&mut rng, lp), "q": qcoeffs(&mut rng, lq), "form": if rng.gen_bool(0.5) { "ref" } else { "own" }, "bat": "full",
                       "xs": (0..3).map(|j| xs[(j + k) % 6].clone()).collect::<Vec<Value>>(), "ss": [[1, 2], [-2, 3], [0, 1]], "beyond": 0});
        push(out, c);
    }
    // (c) special shapes: zero polynomials of every length, leading zeros (trim), cancelling sums
    for len in 0..=9usize { for ty in tys {
        let z = vec![0i64; len];
        let mut lz = coeffs(&mut rng, len, 9, true); let keep = rng.gen_range(0..=len); for k in keep..len { lz[k] = 0; }
        let neg: Vec<i64> = lz.iter().map(|x| -x).collect();
        for (p, q) in [(z.clone(), lz.clone()), (lz.clone(), neg), (lz.clone(), z.clone())] {
            let mut c = json!({"ty": ty, "p": p, "q": q, "form": "ref", "bat": "full", "xs": [2, -1], "ss": [0, 3], "beyond": 0});
            if ty == "cx" { c["pi"] = json!(vec![0i64; len]); c["qi"] = json!(vec![0i64; len]); c["xsi"] = json!([0, 1]); c["ssi"] = json!([0, -2]); }
            push(out, c);
        }
    } }
}
