//! Suite "vector": ohsl::Vector editing histories, arithmetic, reductions, norms, linspace/powspace (C15).
//! Element types: i64, Rat (exact), f64 (Vec64), Cmplx.  Data are small integers (exact in every element type);
//! a complex vector is logged as two integer sequences (real parts, imaginary parts).
use crate::dd::DD;
use crate::rat::Rat;
use crate::util::*;
use ohsl::{Cmplx, Vector};
use rand::rngs::StdRng;
use rand::Rng;
use serde_json::{json, Value};
use std::any::Any;

#[derive(Default)]
pub struct StepOut<T> { panic: bool, rv: Option<Vector<T>>, rs: Option<T>, ri: Option<i64>, rsv: Option<Vec<T>> }
fn none<T>() -> StepOut<T> { StepOut { panic: false, rv: None, rs: None, ri: None, rsv: None } }

fn arg_x<T: Elem>(op: &Value) -> T { T::from_ri(geti(op, "x"), if T::CX { op.get("xi").and_then(|v| v.as_i64()).unwrap_or(0) } else { 0 }) }
fn arg_v<T: Elem>(op: &Value) -> Vector<T> { vec_from::<T>(&op["v"], if T::CX { op.get("vi") } else { None }) }
fn down<T: 'static, U: 'static>(v: &Vector<T>) -> Option<&Vector<U>> { (v as &dyn Any).downcast_ref::<Vector<U>>() }
fn down_mut<T: 'static, U: 'static>(v: &mut Vector<T>) -> Option<&mut Vector<U>> { (v as &mut dyn Any).downcast_mut::<Vector<U>>() }
fn up<T: 'static, U: 'static>(v: Vector<U>) -> Option<Vector<T>> { (Box::new(v) as Box<dyn Any>).downcast::<Vector<T>>().ok().map(|b| *b) }

/// operations that exist for some element types only; returns false if the type has no such method
fn typed_mut<T: Elem>(v: &mut Vector<T>, name: &str, op: &Value) -> bool {
    let by = gets(op, "form") == "by";
    match name {
        "resize" => { let n = getu(op, "n");
            if let Some(w) = down_mut::<T, i64>(v) { w.resize(n) } else if let Some(w) = down_mut::<T, Rat>(v) { w.resize(n) } else if let Some(w) = down_mut::<T, f64>(v) { w.resize(n) } else { return false } }
        "sort" => {
            if let Some(w) = down_mut::<T, i64>(v) { if by { w.sort_by(|a, b| a.partial_cmp(b).unwrap()) } else { w.sort() } }
            else if let Some(w) = down_mut::<T, Rat>(v) { if by { w.sort_by(|a, b| a.partial_cmp(b).unwrap()) } else { w.sort() } }
            else if let Some(w) = down_mut::<T, f64>(v) { w.sort_by(|a, b| a.partial_cmp(b).unwrap()) } else { return false } }
        "sort_desc" => {
            if let Some(w) = down_mut::<T, i64>(v) { w.sort_by(|a, b| b.partial_cmp(a).unwrap()) }
            else if let Some(w) = down_mut::<T, Rat>(v) { w.sort_by(|a, b| b.partial_cmp(a).unwrap()) }
            else if let Some(w) = down_mut::<T, f64>(v) { w.sort_by(|a, b| b.partial_cmp(a).unwrap()) } else { return false } }
        _ => return false,
    }
    true
}

/// apply one operation (by name) to the real vector; None = this element type has no such operation
pub fn step<T: Elem>(v: &mut Vector<T>, op: &Value) -> Option<StepOut<T>> {
    let name = gets(op, "op").to_string();
    let form = gets(op, "form").to_string();
    let alias = op.get("alias").and_then(|a| a.as_bool()).unwrap_or(false);
    let mut supported = true;
    let r = guarded(|| {
        let mut o = none::<T>();
        match name.as_str() {
            "push" => v.push(arg_x::<T>(op)),
            "push_front" => v.push_front(arg_x::<T>(op)),
            "insert" => v.insert(getu(op, "i"), arg_x::<T>(op)),
            "pop" => o.rs = Some(v.pop()),
            "swap" => v.swap(getu(op, "i"), getu(op, "j")),
            "assign" => v.assign(arg_x::<T>(op)),
            "clear" => v.clear(),
            "set" => v[getu(op, "i")] = arg_x::<T>(op),
            "resize" | "sort" | "sort_desc" => supported = typed_mut(v, &name, op),
            "clone_from" => { let w = arg_v::<T>(op); v.clone_from(&w) }
            "eq" => { let w = arg_v::<T>(op); o.ri = Some((*v == w) as i64) }
            "ne" => { let w = arg_v::<T>(op); o.ri = Some((*v != w) as i64) }
            "add_assign" => *v += arg_v::<T>(op),
            "sub_assign" => *v -= arg_v::<T>(op),
            "add_scalar_assign" => *v += arg_x::<T>(op),
            "sub_scalar_assign" => *v -= arg_x::<T>(op),
            "mul_assign" => *v *= arg_x::<T>(op),
            "div_assign" => *v /= arg_x::<T>(op),
            "size" => o.ri = Some(v.size() as i64),
            "get" => o.rs = Some(v[getu(op, "i")]),
            "clone" => o.rv = Some(v.clone()),
            "find" => o.ri = Some(v.find(arg_x::<T>(op)) as i64),
            // aliased forms: the SAME object on both sides of a by-reference operation (&v + &v, &v - &v, v.dot(&v))
            "add" if alias => o.rv = Some(&*v + &*v),
            "sub" if alias => o.rv = Some(&*v - &*v),
            "dot" if alias => o.rs = Some(v.dot(&*v)),
            "add" => { let w = arg_v::<T>(op); o.rv = Some(match form.as_str() { "own" => v.clone() + w, "mixed" => v.clone() + &w, _ => &*v + &w }) }
            "sub" => { let w = arg_v::<T>(op); o.rv = Some(match form.as_str() { "own" => v.clone() - w, "mixed" => v.clone() - &w, _ => &*v - &w }) }
            "neg" => o.rv = Some(-(v.clone())),
            "mul_scalar" => {
                if form == "left" { if let Some(w) = down::<T, f64>(v) { o.rv = up::<T, f64>(geti(op, "x") as f64 * w.clone()); } else { o.rv = Some(v.clone() * arg_x::<T>(op)) } }
                else { o.rv = Some(v.clone() * arg_x::<T>(op)) } }
            "div_scalar" => o.rv = Some(v.clone() / arg_x::<T>(op)),
            "dot" => { let w = arg_v::<T>(op); o.rs = Some(v.dot(&w)) }
            "sum" => o.rs = Some(v.sum()),
            "product" => o.rs = Some(v.product()),
            "sum_slice" => o.rs = Some(v.sum_slice(getu(op, "a"), getu(op, "b"))),
            "product_slice" => o.rs = Some(v.product_slice(getu(op, "a"), getu(op, "b"))),
            "sum_from" => { let a = getu(op, "a"); o.rsv = Some((a..v.size()).map(|b| v.sum_slice(a, b)).collect()) }
            "product_from" => { let a = getu(op, "a"); o.rsv = Some((a..v.size()).map(|b| v.product_slice(a, b)).collect()) }
            "abs" => o.rv = Some(v.abs()),
            "norm_1" => o.rs = Some(v.norm_1()),
            "norm_inf" => { if let Some(w) = down::<T, f64>(v) { o.rs = Some(T::from_ri(f2i(w.norm_inf()), 0)) } else if let Some(w) = down::<T, Cmplx>(v) { o.rs = Some(T::from_ri(f2i(w.norm_inf()), 0)) } else { supported = false } }
            "conj" => { if let Some(w) = down::<T, Cmplx>(v) { o.rv = up::<T, Cmplx>(w.conj()) } else { supported = false } }
            "new" => o.rv = Some(Vector::<T>::new(getu(op, "n"), arg_x::<T>(op))),
            "zeros" => o.rv = Some(Vector::<T>::zeros(getu(op, "n"))),
            "ones" => o.rv = Some(Vector::<T>::ones(getu(op, "n"))),
            other => { eprintln!("TOOL-ERROR unknown vector op {}", other); std::process::exit(2) }
        }
        o
    });
    if !supported { return None; }
    Some(match r { Ok(x) => x, Err(_) => { let mut o = none::<T>(); o.panic = true; o } })
}
fn f2i(x: f64) -> i64 { if x.is_finite() && x == x.trunc() && x.abs() < SAT as f64 { x as i64 } else { BAD } }

fn negzero<T: 'static>(x: &T) -> bool {
    let z = |a: f64| a == 0.0 && a.is_sign_negative();
    if let Some(a) = (x as &dyn Any).downcast_ref::<f64>() { z(*a) } else if let Some(c) = (x as &dyn Any).downcast_ref::<Cmplx>() { z(c.real) || z(c.imag) } else { false }
}
fn isqrt_exact(s: i64) -> Option<i64> { if s < 0 { return None; } let r = (s as f64).sqrt().round() as i64; for c in [r - 1, r, r + 1] { if c >= 0 && c * c == s { return Some(c); } } None }
/// integer moduli of a complex vector given by its integer parts, if all of them are integers
/// (parts above 30 000 are left to the error measurement: the model's 32-bit arithmetic could not square them)
fn moduli(re: &[i64], im: &[i64]) -> Option<Vec<i64>> { re.iter().zip(im).map(|(a, b)| if a.abs() > 30_000 || b.abs() > 30_000 { None } else { isqrt_exact(a * a + b * b) }).collect() }

/// independent evaluation of the p-norm of f64 data (double-double accumulation, scaled by the largest entry)
fn ref_norm_p(x: &[f64], p: f64) -> f64 {
    let mx = x.iter().fold(0.0f64, |m, a| m.max(a.abs()));
    if mx == 0.0 || x.is_empty() { return 0.0; }
    let mut s = DD::ZERO;
    if p == 2.0 { for a in x { let t = a.abs() / mx; s = s.add(DD::prod(t, t)); } return mx * s.sqrt().to_f64(); }
    if p == 1.0 { for a in x { s = s.add(DD::from(a.abs())); } return s.to_f64(); }
    for a in x { s = s.add(DD::from((a.abs() / mx).powf(p))); }
    mx * s.to_f64().powf(1.0 / p)
}
fn ref_norm_1(x: &[f64]) -> f64 { let mut s = DD::ZERO; for a in x { s = s.add(DD::from(a.abs())); } s.to_f64() }
/// calibration aid: OHSL_CAL_SCALE=s divides every float unit by s (so that the worst error on the unchanged tree can be read off in
/// 1/s units); never set by bin/check
fn cal() -> f64 { std::env::var("OHSL_CAL_SCALE").ok().and_then(|v| v.parse::<f64>().ok()).filter(|v| *v >= 1.0).unwrap_or(1.0) }
fn nunit(n: usize, r: f64) -> f64 { 4.0 * (n.max(1) as f64) * f64::EPSILON * r.abs().max(f64::MIN_POSITIVE) / cal() }
/// unit for norm_p: s^(1/p) is computed with the rounded exponent fl(1/p), which costs |ln s| / p = |ln norm| further
/// half-units of rounding; the unit therefore grows with the binary exponent of the norm: 4 * (n + |log2 r|) * eps * |r|
fn punit(n: usize, r: f64) -> f64 { let l = if r.abs() > 0.0 && r.is_finite() { r.abs().log2().abs().ceil() } else { 0.0 }; 4.0 * (n.max(1) as f64 + l) * f64::EPSILON * r.abs().max(f64::MIN_POSITIVE) / cal() }

/// an f64 with a full 53-bit significand from integers: (hi * 2^26 + lo) * 2^e, or the util form {m, e} / integer
fn f64_of(v: &Value) -> f64 {
    if v.get("nz").is_some() { return -0.0; }
    if v.get("hi").is_some() { let hi = v["hi"].as_i64().unwrap() as f64; let lo = v["lo"].as_i64().unwrap() as f64; (hi * 67108864.0 + hi.signum() * lo) * (2.0f64).powi(v["e"].as_i64().unwrap() as i32) }
    else { f64_from(v) }
}
/// exact integer encoding of any finite f64 (the inverse of f64_of)
fn jf64_exact(x: f64) -> Value {
    if x == 0.0 { return if x.is_sign_negative() { json!({"nz": 1}) } else { json!(0) }; }
    let b = x.to_bits(); let ex = ((b >> 52) & 0x7ff) as i64; let fr = (b & ((1u64 << 52) - 1)) as i64;
    let (m, e) = if ex == 0 { (fr, -1074) } else { (fr | (1i64 << 52), ex - 1075) };
    let sg = if x < 0.0 { -1 } else { 1 };
    if m >> 26 == 0 { return json!({"m": sg * m, "e": e}); }
    json!({"hi": sg * (m >> 26), "lo": m & ((1 << 26) - 1), "e": e})
}
/// the f64 k units in the last place away from x (k may be negative), x finite and non-zero, no sign change
fn ulps(x: f64, k: i64) -> f64 { let b = x.to_bits() as i64; f64::from_bits((if x > 0.0 { b + k } else { b - k }) as u64) }
fn jf64(rng: &mut StdRng, emin: i32, emax: i32) -> Value {
    let hi: i64 = rng.gen_range(1 << 26..1 << 27) * if rng.gen_bool(0.5) { 1 } else { -1 };
    json!({"hi": hi, "lo": rng.gen_range(0..1i64 << 26), "e": rng.gen_range(emin..=emax) - 52})
}

// ------------------------------------------------------------------ stand-alone float checks
/// lhs <= rhs up to rounding, in units; a non-finite value on either side never passes
fn over(lhs: f64, rhs: f64, unit: f64) -> i64 { if !lhs.is_finite() || !rhs.is_finite() { SAT } else { units((lhs - rhs).max(0.0), unit) } }
/// |a - b| in units; non-finite values never pass
fn apart(a: f64, b: f64, unit: f64) -> i64 { if !a.is_finite() || !b.is_finite() { SAT } else { units((a - b).abs(), unit) } }

fn exec_fnorms(case: &Value, op: &Value, cid: i64, k: usize, out: &mut Out) {
    let xs: Vec<f64> = op["xs"].as_array().unwrap().iter().map(f64_of).collect();
    let ys: Vec<f64> = op["ys"].as_array().unwrap().iter().map(f64_of).collect();
    let p = f64_of(&op["p"]);
    // scaling factor: a power of two, or 0 (homogeneity at alpha = 0: every norm of 0 * x is 0)
    let sc = if op.get("alpha0").is_some() { 0.0 } else { (2.0f64).powi(geti(op, "k2") as i32) };
    let n = xs.len();
    let r = guarded(|| {
        let x = Vector::<f64>::create(xs.clone()); let y = Vector::<f64>::create(ys.clone());
        let xs2: Vec<f64> = xs.iter().map(|a| a * sc).collect(); let x2 = Vector::<f64>::create(xs2);
        let (n1, n2, np) = (x.norm_1(), x.norm_2(), x.norm_p(p));
        let (y1, y2, yp) = (y.norm_1(), y.norm_2(), y.norm_p(p));
        let u2 = apart(n2, ref_norm_p(&xs, 2.0), nunit(n, ref_norm_p(&xs, 2.0)));
        let upp = apart(np, ref_norm_p(&xs, p), punit(n, ref_norm_p(&xs, p)));
        let mut chain = over(n2, n1, nunit(n, n1));
        let mut nonneg = n1 >= 0.0 && n2 >= 0.0 && np >= 0.0 && y1 >= 0.0 && y2 >= 0.0 && yp >= 0.0;
        // numeric equality (== on finite values is bit-identity except for the sign of zero, which no norm defines)
        let hom1 = x2.norm_1() == sc * n1;
        let hom2 = apart(x2.norm_2(), sc * n2, nunit(n, sc * n2));
        let homp = apart(x2.norm_p(p), sc * np, punit(n, sc * np).max(sc * punit(n, np)));
        let mut homi = true;
        let z = &x + &y;
        let mut tri = over(z.norm_1(), n1 + y1, nunit(n, n1 + y1)).max(over(z.norm_2(), n2 + y2, nunit(n, n2 + y2))).max(over(z.norm_p(p), np + yp, punit(n, np + yp)));
        nonneg = nonneg && z.norm_1() >= 0.0 && z.norm_2() >= 0.0 && z.norm_p(p) >= 0.0;
        if n > 0 {
            let ni = x.norm_inf();
            nonneg = nonneg && ni >= 0.0 && z.norm_inf() >= 0.0;
            chain = chain.max(over(ni, n2, nunit(n, n2))).max(over(ni, np, punit(n, np))).max(over(np, n1, punit(n, n1)));
            homi = x2.norm_inf() == sc * ni;
            tri = tri.max(over(z.norm_inf(), ni + y.norm_inf(), nunit(n, ni + y.norm_inf())));
            // the inf-norm is the largest absolute value: exact
            let want = xs.iter().fold(0.0f64, |m, a| m.max(a.abs()));
            if ni != want { chain = SAT; }
        }
        json!({"u2": u2, "up": upp, "chain": chain, "tri": tri, "homp": homp.max(hom2), "nonneg": nonneg, "hom1": hom1, "homi": homi})
    });
    let mut e = match r { Ok(v) => { let mut v = v; v["panic"] = json!(false); v } Err(_) => json!({"panic": true}) };
    e["op"] = json!("fnorms"); e["ty"] = json!("f64"); e["cid"] = json!(cid); e["k"] = json!(k); e["n"] = json!(n); e["pre"] = json!([]); e["post"] = json!([]);
    e["p16"] = json!((p * 16.0).round() as i64); e["kind"] = json!(gets(op, "kind"));
    let _ = case; out.ev(e);
}

fn exec_space(op: &Value, cid: i64, k: usize, out: &mut Out) {
    let name = gets(op, "op"); let a = f64_of(&op["a"]); let b = f64_of(&op["b"]); let n = getu(op, "n");
    let p = if name == "powspace" { f64_of(&op["p"]) } else { 1.0 };
    let r = guarded(|| if name == "linspace" { Vector::<f64>::linspace(a, b, n) } else { Vector::<f64>::powspace(a, b, n, p) });
    let mut e = json!({"op": name, "ty": "f64", "cid": cid, "k": k, "n": n, "pre": [], "post": []});
    if let Some(u) = op.get("ulps") { e["ulps"] = u.clone(); }
    match r {
        Err(_) => { e["panic"] = json!(true); }
        Ok(v) => {
            let w = &v.vec; let len = w.len();
            e["panic"] = json!(false); e["len"] = json!(len);
            e["first_eq"] = json!(len > 0 && w[0] == a);
            e["last_units"] = json!(if len > 0 { units((w[len - 1] - b).abs(), f64::EPSILON * a.abs().max(b.abs()) / cal()) } else { SAT });
            let up = b >= a;
            let (nondec, noninc) = (w.windows(2).all(|t| t[1] >= t[0]), w.windows(2).all(|t| t[1] <= t[0]));
            // monotone in the direction of b - a; a == b has no direction: either one (NaN entries fail both)
            e["mono"] = json!(if b > a { nondec } else if b < a { noninc } else { nondec || noninc });
            e["strict"] = json!(w.windows(2).all(|t| if up { t[1] > t[0] } else { t[1] < t[0] }));
            // well separated: the smallest exact increment is far above the rounding error of the elements
            let m = (n as f64) - 1.0;
            let tmin = if name == "linspace" { 1.0 / m } else { (1.0 / m).powf(p).min(1.0 - ((m - 1.0) / m).powf(p)) };
            e["sep"] = json!(a != b && (b - a).abs() * tmin >= a.abs().max(b.abs()) * (2.0f64).powi(-30));
        }
    }
    out.ev(e);
}

// ------------------------------------------------------------------ one case = one history on one element type
pub fn run<T: Elem>(case: &Value, out: &mut Out) {
    let cid = geti(case, "cid");
    let mut v = vec_from::<T>(&case["init"], if T::CX { case.get("initi") } else { None });
    let mut first = true;
    for (k, op) in case["ops"].as_array().unwrap().iter().enumerate() {
        let name = gets(op, "op");
        if name == "fnorms" { exec_fnorms(case, op, cid, k, out); first = false; continue; }
        if name == "sweep" { exec_sweep(op, cid, k, out); first = false; continue; }
        if name == "csum" { exec_csum(op, cid, k, out); first = false; continue; }
        if name == "linspace" || name == "powspace" { exec_space(op, cid, k, out); first = false; continue; }
        let pre_re = jvec(&v, Part::Re); let pre_im = jvec(&v, Part::Im);
        // == / != against an operand built from the current value: "copy", "prefix" (shorter), "longer", "change" (one element differs)
        let made: Option<Value> = if let Some(mk) = op.get("mk").and_then(|m| m.as_str()) {
            let (mut a, mut b) = (ivec(&pre_re), ivec(&pre_im)); let n = a.len();
            match mk { "prefix" => { let m = n / 2; a.truncate(m); b.truncate(m); } "longer" => { a.push(3); b.push(0); } "change" => { if n > 0 { a[n - 1] += 1; } else { a.push(0); b.push(0); } } _ => {} }
            let mut o2 = op.clone(); o2["v"] = json!(a); o2["vi"] = json!(b); Some(o2) } else { None };
        let op = made.as_ref().unwrap_or(op);
        let mut e = op.clone();
        e["ty"] = json!(T::NAME); e["cid"] = json!(cid); e["k"] = json!(k);
        // an aliased call has no second operand of its own: the operand the specification is given is the logged pre-state
        if op.get("alias").and_then(|a| a.as_bool()).unwrap_or(false) { e["v"] = pre_re.clone(); if T::CX { e["vi"] = pre_im.clone(); } }
        // float-only norms of the current (integer-valued) f64 vector: error in units, measured here
        if name == "norm_2" || name == "norm_p" {
            let Some(w) = down::<T, f64>(&v) else { continue };
            let p = if name == "norm_2" { 2.0 } else { geti(op, "p") as f64 };
            let w2 = w.clone();
            let r = guarded(|| if name == "norm_2" { w2.norm_2() } else { w2.norm_p(p) });
            e["op"] = json!("norm_units"); e["which"] = json!(name);
            match r { Ok(got) => { let want = ref_norm_p(&w.vec, p); e["panic"] = json!(false); e["units"] = json!(units((got - want).abs(), if name == "norm_2" { nunit(w.size(), want) } else { punit(w.size(), want) })); }
                      Err(_) => { e["panic"] = json!(true); e["units"] = json!(SAT); } }
            if first { e["pre"] = pre_re.clone(); first = false; }
            e["post"] = jvec(&v, Part::Re);
            out.ev(e); continue;
        }
        if name == "real" {
            let Some(w) = down::<T, Cmplx>(&v) else { continue };
            let r = guarded(|| w.real());
            match r { Ok(rv) => { e["panic"] = json!(false); e["rv"] = jvec(&rv, Part::Re); } Err(_) => { e["panic"] = json!(true); e["rv"] = json!([]); } }
            if first { e["pre"] = pre_re.clone(); e["prei"] = pre_im.clone(); first = false; }
            e["post"] = jvec(&v, Part::Re); e["posti"] = jvec(&v, Part::Im);
            out.ev(e); continue;
        }
        let Some(so) = step(&mut v, op) else { continue };
        // complex moduli: exact events when every |z| is an integer, otherwise an error measurement in units
        if T::CX && matches!(name, "abs" | "norm_1" | "norm_inf") {
            let (re, im) = (ivec(&pre_re), ivec(&pre_im));
            match moduli(&re, &im) {
                Some(m) => { e["mods"] = json!(m); }
                None => {
                    let hyp: Vec<f64> = re.iter().zip(&im).map(|(a, b)| (*a as f64).hypot(*b as f64)).collect();
                    let n = re.len();
                    let u = if so.panic { SAT } else { match name {
                        "abs" => { let rv = so.rv.as_ref().unwrap(); let z = down::<T, Cmplx>(rv).unwrap();
                            if z.size() != n { SAT } else { (0..n).map(|i| if z[i].imag != 0.0 { SAT } else { units((z[i].real - hyp[i]).abs(), nunit(1, hyp[i])) }).max().unwrap_or(0) } }
                        "norm_1" => { let z = so.rs.unwrap(); let z = (&z as &dyn Any).downcast_ref::<Cmplx>().unwrap(); let want = ref_norm_1(&hyp);
                            if z.imag != 0.0 { SAT } else { units((z.real - want).abs(), nunit(n, want)) } }
                        _ => { let w = down::<T, Cmplx>(&v).unwrap(); let got = w.norm_inf(); let want = hyp.iter().fold(0.0f64, |m, a| m.max(*a)); units((got - want).abs(), nunit(1, want)) }
                    } };
                    e["op"] = json!("norm_units"); e["which"] = json!(name); e["units"] = json!(u);
                }
            }
        }
        if first { e["pre"] = pre_re.clone(); if T::CX { e["prei"] = pre_im.clone(); } first = false; }
        // adopt: the caller keeps the returned vector as the new value of its variable (x = x - y, x = Vector::zeros(n), ...)
        let adopt = op.get("adopt").and_then(|a| a.as_bool()).unwrap_or(false);
        if adopt && !so.panic && gets(&e, "op") != "norm_units" { if let Some(rv) = &so.rv { v = rv.clone(); } }
        e["post"] = jvec(&v, Part::Re); if T::CX { e["posti"] = jvec(&v, Part::Im); }
        e["panic"] = json!(so.panic);
        if gets(&e, "op") != "norm_units" {
            if let Some(rv) = &so.rv { e["rv"] = jvec(rv, Part::Re); if T::CX { e["rvi"] = jvec(rv, Part::Im); } }
            if let Some(rs) = &so.rs { let p = rs.to_ri(); e["ri"] = json!(p.0); if T::CX { e["rii"] = json!(p.1); } }
            if let Some(ri) = so.ri { e["ri"] = json!(ri); }
            // sign of zero: dot / sum / sum_slice / norm_1 accumulate from T::zero() = +0.0, so a zero result is +0.0 whatever the
            // signs of the zero terms (the integer projection cannot show this; floating-point element types only)
            if matches!(name, "dot" | "sum" | "sum_slice" | "sum_from" | "norm_1") && !so.panic && (T::NAME == "f64" || T::CX) {
                let mut nz = false;
                if let Some(rs) = &so.rs { nz = nz || negzero(rs); }
                if let Some(rsv) = &so.rsv { nz = nz || rsv.iter().any(|x| negzero(x)); }
                e["negz"] = json!(nz);
            }
            // Vec64: the threaded product next to the sequential one (default CPU affinity), same operands, aliased or two-object
            if name == "dot" { if let Some(w) = down::<T, f64>(&v) {
                let alias = op.get("alias").and_then(|a| a.as_bool()).unwrap_or(false);
                let other = if alias { None } else { Some(arg_v::<f64>(op)) };
                match guarded(|| match &other { None => w.dot_f64(w), Some(o) => w.dot_f64(o) }) {
                    Ok(r) => { e["pf"] = json!(false); e["rf"] = json!(f2i(r)); e["rfnegz"] = json!(r == 0.0 && r.is_sign_negative()); }
                    Err(_) => { e["pf"] = json!(true); e["rf"] = json!(BAD); e["rfnegz"] = json!(false); } }
            } }
            if let Some(rsv) = &so.rsv { e["rs"] = json!(rsv.iter().map(|x| x.to_ri().0).collect::<Vec<i64>>()); if T::CX { e["rsi"] = json!(rsv.iter().map(|x| x.to_ri().1).collect::<Vec<i64>>()); } }
            if so.panic {
                // a panicking call returns nothing: neutral values keep the event well-formed for the trace specification
                for (f, d) in [("rv", json!([])), ("rs", json!([])), ("ri", json!(BAD))] { if e.get(f).is_none() { e[f] = d; } }
                if T::CX { for (f, d) in [("rvi", json!([])), ("rsi", json!([])), ("rii", json!(BAD))] { if e.get(f).is_none() { e[f] = d; } } }
            }
        }
        out.ev(e);
    }
}

pub fn exec(case: &Value, out: &mut Out) {
    match gets(case, "ty") { "rat" => run::<Rat>(case, out), "f64" => run::<f64>(case, out), "i64" => run::<i64>(case, out), "cx" => run::<Cmplx>(case, out),
        t => { eprintln!("TOOL-ERROR unknown type {}", t); std::process::exit(2) } }
}

// ------------------------------------------------------------------ case generation
const TYS: [&str; 4] = ["i64", "rat", "f64", "cx"];
const MAXLEN: usize = 64;
const BOUND: i64 = 100_000;       // magnitude bound kept on every entry so that the model's 32-bit arithmetic cannot overflow

/// small integers; the special values 0, 1, -1 are drawn systematically, not only by chance
fn small(rng: &mut StdRng) -> i64 { if rng.gen_bool(0.25) { [0, 1, -1, 0][rng.gen_range(0..4)] } else { rng.gen_range(-9..=9) } }
fn maybe_adopt(mut o: Value, yes: bool) -> Value { if yes { o["adopt"] = json!(true); } o }
fn with_x(mut o: Value, rng: &mut StdRng, cx: bool, x: i64) -> Value { o["x"] = json!(x); if cx { o["xi"] = json!(small(rng)); } o }
fn with_v(mut o: Value, rng: &mut StdRng, cx: bool, n: usize, lo: i64, hi: i64) -> Value { o["v"] = rand_vec_json(rng, n, lo, hi); if cx { o["vi"] = rand_vec_json(rng, n, lo, hi); } o }
fn form3(rng: &mut StdRng) -> &'static str { ["ref", "mixed", "own"][rng.gen_range(0..3)] }

/// tracked facts about the vector under a history: length and a bound on the magnitude of the parts
struct Track { n: usize, b: i64, recent: Vec<(i64, i64)> }

fn rand_op(rng: &mut StdRng, t: &mut Track, ty: &str) -> Value {
    let cx = ty == "cx"; let f64ty = ty == "f64"; let ord = ty == "i64" || ty == "rat";
    loop {
        let n = t.n;
        let bad = rng.gen_bool(0.06);
        let ix = |rng: &mut StdRng, n: usize, bad: bool| -> i64 { if bad { (n + rng.gen_range(0..3)) as i64 } else if n == 0 { 0 } else { rng.gen_range(0..n) as i64 } };
        let pick = rng.gen_range(0..64);
        let o: Value = match pick {
            0..=3 => { if n >= MAXLEN { continue; } let x = small(rng); let o = with_x(json!({"op": "push"}), rng, cx, x); t.recent.push((x, o.get("xi").and_then(|v| v.as_i64()).unwrap_or(0))); t.n += 1; t.b = t.b.max(9); o }
            4..=5 => { if n >= MAXLEN { continue; } let x = small(rng); let o = with_x(json!({"op": "push_front"}), rng, cx, x); t.recent.push((x, o.get("xi").and_then(|v| v.as_i64()).unwrap_or(0))); t.n += 1; t.b = t.b.max(9); o }
            6..=8 => { if n >= MAXLEN { continue; } let p = if bad { (n + 1 + rng.gen_range(0..2)) as i64 } else { rng.gen_range(0..=n) as i64 }; let x = small(rng);
                       let o = with_x(json!({"op": "insert", "i": p}), rng, cx, x); if (p as usize) <= n { t.n += 1; t.b = t.b.max(9); t.recent.push((x, o.get("xi").and_then(|v| v.as_i64()).unwrap_or(0))); } o }
            9..=10 => { if n > 0 { t.n -= 1; } json!({"op": "pop"}) }
            11..=13 => { let b2 = bad && rng.gen_bool(0.5); json!({"op": "swap", "i": ix(rng, n, bad), "j": ix(rng, n, b2)}) }
            14..=15 => { if cx { continue; } let m = rng.gen_range(0..=MAXLEN); t.n = m; json!({"op": "resize", "n": m}) }
            16 => { let x = small(rng); let o = with_x(json!({"op": "assign"}), rng, cx, x); t.b = 9; o }
            17 => { if rng.gen_bool(0.6) { continue; } t.n = 0; json!({"op": "clear"}) }
            18..=19 => { if !(ord || f64ty) { continue; } json!({"op": "sort", "form": if ord && rng.gen_bool(0.6) { "std" } else { "by" }}) }
            20 => { if !(ord || f64ty) { continue; } json!({"op": "sort_desc"}) }
            21..=22 => { let x = small(rng); let i = ix(rng, n, bad); let o = with_x(json!({"op": "set", "i": i}), rng, cx, x); t.b = t.b.max(9); o }
            23..=26 => { // find: a value that was recently written (probably present), or a random one
                let (x, xi) = if !t.recent.is_empty() && rng.gen_bool(0.6) { t.recent[t.recent.len() - 1 - rng.gen_range(0..t.recent.len().min(6))] } else { (small(rng), small(rng)) };
                let mut o = json!({"op": "find", "x": x}); if cx { o["xi"] = json!(xi); } o }
            27..=28 => { if t.b + 9 > BOUND { continue; } let m = if bad { n + 1 } else { n }; let o = with_v(json!({"op": if pick == 27 { "add_assign" } else { "sub_assign" }}), rng, cx, m, -9, 9); if m == n { t.b += 9; } o }
            29 => { if t.b + 9 > BOUND { continue; } let x = small(rng); t.b += 9; with_x(json!({"op": "add_scalar_assign"}), rng, cx, x) }
            30 => { if t.b + 9 > BOUND { continue; } let x = small(rng); t.b += 9; with_x(json!({"op": "sub_scalar_assign"}), rng, cx, x) }
            31 => { let (s, si) = if cx { [(0, 1), (1, 1), (-1, 0), (2, 0), (1, -2), (0, 0)][rng.gen_range(0..6)] } else { ([-1, 1, 2, -2, 3, 0][rng.gen_range(0..6)], 0) };
                    let g = (s as i64).abs() + (si as i64).abs(); if t.b * g.max(1) > BOUND { continue; } t.b *= g.max(1);
                    let mut o = json!({"op": "mul_assign", "x": s}); if cx { o["xi"] = json!(si); } o }
            32 => { let (s, si) = if cx { [(1, 0), (-1, 0), (0, 1), (0, -1)][rng.gen_range(0..4)] } else { ([1, -1][rng.gen_range(0..2)], 0) };
                    let mut o = json!({"op": "div_assign", "x": s}); if cx { o["xi"] = json!(si); } o }
            33 => json!({"op": "size"}),
            34..=35 => json!({"op": "get", "i": ix(rng, n, bad)}),
            36 => maybe_adopt(json!({"op": "clone"}), rng.gen_bool(0.3)),
            // x = x + y, x = -x, x = x * s, x = Vector::zeros(n) ...: the returned vector becomes the value under test
            37..=38 if rng.gen_bool(0.25) => { let mut o = json!({"op": if pick == 37 { "add" } else { "sub" }, "alias": true});
                         if pick == 38 && rng.gen_bool(0.3) { o["adopt"] = json!(true); } else if pick == 37 && 2 * t.b <= BOUND && rng.gen_bool(0.3) { t.b *= 2; o["adopt"] = json!(true); } o }
            37..=38 => { let m = if bad { n + 1 } else { n }; let mut o = with_v(json!({"op": if pick == 37 { "add" } else { "sub" }}), rng, cx, m, -9, 9); o["form"] = json!(form3(rng));
                         if m == n && t.b + 9 <= BOUND && rng.gen_bool(0.3) { t.b += 9; o["adopt"] = json!(true); } o }
            39 => maybe_adopt(json!({"op": "neg"}), rng.gen_bool(0.3)),
            40..=41 => { let x = rng.gen_range(-3..=3); let mut o = with_x(json!({"op": "mul_scalar"}), rng, cx, x); if cx { o["xi"] = json!(rng.gen_range(-3..=3)); } o["form"] = json!(if f64ty && rng.gen_bool(0.5) { "left" } else { "own" });
                         let g = ((x as i64).abs() + if cx { geti(&o, "xi").abs() } else { 0 }).max(1); if t.b * g <= BOUND && rng.gen_bool(0.3) { t.b *= g; o["adopt"] = json!(true); } o }
            42..=43 => { if t.b <= 1000 && rng.gen_bool(0.3) { json!({"op": "dot", "alias": true}) } else { let m = if bad { n + 1 } else { n }; with_v(json!({"op": "dot"}), rng, cx, m, -9, 9) } }
            44 => json!({"op": "sum"}),
            45..=47 => { let (a, b) = if bad { if rng.gen_bool(0.5) { (ix(rng, n, false) + 1, 0) } else { (0, n as i64) } } else { if n == 0 { continue; } let a = rng.gen_range(0..n); (a as i64, rng.gen_range(a..n) as i64) };
                         json!({"op": "sum_slice", "a": a, "b": b}) }
            48..=49 => { if t.b > 300 || n == 0 { continue; } let a = rng.gen_range(0..n); let b = (a + rng.gen_range(0..3)).min(n - 1); json!({"op": "product_slice", "a": a, "b": b}) }
            50 => { if t.b > 300 || n == 0 || n > 3 { continue; } json!({"op": "product"}) }
            51 => json!({"op": "abs"}),
            52 => json!({"op": "norm_1"}),
            53 => { if !(f64ty || cx) { continue; } json!({"op": "norm_inf"}) }
            54 => { if !cx { continue; } json!({"op": if rng.gen_bool(0.5) { "conj" } else { "real" }}) }
            55 => { if !f64ty { continue; } json!({"op": "norm_2"}) }
            56 => { if !f64ty { continue; } json!({"op": "norm_p", "p": rng.gen_range(1..=8)}) }
            57 => { let x = small(rng); let m = rng.gen_range(0..=MAXLEN); let a = rng.gen_bool(0.3); if a { t.n = m; t.b = 9; } maybe_adopt(with_x(json!({"op": "new", "n": m}), rng, cx, x), a) }
            58 => { let m = rng.gen_range(0..=MAXLEN); let a = rng.gen_bool(0.3); if a { t.n = m; t.b = 9; } maybe_adopt(json!({"op": "zeros", "n": m}), a) }
            59 => { let m = rng.gen_range(0..=MAXLEN); let a = rng.gen_bool(0.3); if a { t.n = m; t.b = 9; } maybe_adopt(json!({"op": "ones", "n": m}), a) }
            // clone_from: the destination is longer / equal / shorter / empty relative to the source
            60 => { let m = match rng.gen_range(0..5) { 0 => 0, 1 => n, 2 => n / 2, 3 => (n + 1 + rng.gen_range(0..8)).min(MAXLEN), _ => rng.gen_range(0..=MAXLEN) }; t.n = m; t.b = 9; with_v(json!({"op": "clone_from"}), rng, cx, m, -9, 9) }
            61..=62 => json!({"op": if rng.gen_bool(0.5) { "eq" } else { "ne" }, "mk": (["copy", "prefix", "longer", "change"][rng.gen_range(0..4)])}),
            _ => { let m = if rng.gen_bool(0.5) { n } else { rng.gen_range(0..=MAXLEN) }; with_v(json!({"op": if rng.gen_bool(0.5) { "eq" } else { "ne" }}), rng, cx, m, -2, 2) }
        };
        return o;
    }
}

pub fn gen(tier: &str, seed: u64, out: &mut Out) {
    let quick = tier == "quick";
    let mut rng = rng(seed, 15);
    let mut cid = 0i64;
    let mut push = |out: &mut Out, mut c: Value| { cid += 1; c["cid"] = json!(cid); c["suite"] = json!("vector"); out.raw(&c); };
    let reps = if quick { 1 } else { 4 };
    // (a) every length 0..64: ALL index ranges of sum_slice (one event per start index), every observer
    for n in 0..=MAXLEN { for rep in 0..reps {
        let ty = TYS[(n + rep) % 4]; let cx = ty == "cx"; let f64ty = ty == "f64";
        let span = if (n + rep) % 2 == 0 { 9 } else { 2 };     // a narrow value range produces duplicates for find
        let init = rand_vec_json(&mut rng, n, -span, span); let initi = rand_vec_json(&mut rng, n, -span, span);
        let mut ops: Vec<Value> = (0..n).map(|a| json!({"op": "sum_from", "a": a})).collect();
        ops.push(json!({"op": "sum"})); ops.push(json!({"op": "size"})); ops.push(json!({"op": "clone"})); ops.push(json!({"op": "abs"})); ops.push(json!({"op": "norm_1"})); ops.push(json!({"op": "neg"}));
        if f64ty || cx { ops.push(json!({"op": "norm_inf"})); }
        if f64ty { ops.push(json!({"op": "norm_2"})); for p in [1, 3, 8] { ops.push(json!({"op": "norm_p", "p": p})); } }
        if cx { ops.push(json!({"op": "conj"})); ops.push(json!({"op": "real"})); }
        // find: every distinct value at its first position, an absent value
        let iv = ivec(&init); let ivi = ivec(&initi);
        for k in 0..n.min(6) { let j = rng.gen_range(0..n); let mut o = json!({"op": "find", "x": iv[j]}); if cx { o["xi"] = json!(ivi[j]); } ops.push(o); let _ = k; }
        { let mut o = json!({"op": "find", "x": 77}); if cx { o["xi"] = json!(0); } ops.push(o); }
        if cx && n > 0 { ops.push(json!({"op": "find", "x": iv[n - 1], "xi": 77})); }
        for f in ["ref", "mixed", "own"] { let mut o = with_v(json!({"op": "add"}), &mut rng, cx, n, -9, 9); o["form"] = json!(f); ops.push(o);
                                           let mut o = with_v(json!({"op": "sub"}), &mut rng, cx, n, -9, 9); o["form"] = json!(f); ops.push(o); }
        ops.push(with_v(json!({"op": "dot"}), &mut rng, cx, n, -9, 9));
        ops.push(with_v(json!({"op": "dot"}), &mut rng, cx, n + 1, -9, 9));
        ops.push(with_v(json!({"op": "add"}), &mut rng, cx, n + 1, -9, 9));
        { let mut o = json!({"op": "mul_scalar", "x": rng.gen_range(-5..=5), "form": "own"}); if cx { o["xi"] = json!(rng.gen_range(-5..=5)); } ops.push(o); }
        if f64ty { ops.push(json!({"op": "mul_scalar", "x": rng.gen_range(-5..=5), "form": "left"})); }
        // out-of-domain ranges
        ops.push(json!({"op": "sum_slice", "a": 0, "b": n})); ops.push(json!({"op": "sum_slice", "a": 1, "b": 0})); ops.push(json!({"op": "product_slice", "a": n, "b": n}));
        let mut c = json!({"ty": ty, "init": init, "ops": ops}); if cx { c["initi"] = initi; }
        push(out, c);
        // products: entries of modulus 1 with at most ten larger ones (bounded result), sometimes a zero
        let mut re = vec![0i64; n]; let mut im = vec![0i64; n];
        for k in 0..n { if cx { let u = [(1, 0), (-1, 0), (0, 1), (0, -1)][rng.gen_range(0..4)]; re[k] = u.0; im[k] = u.1; } else { re[k] = if rng.gen_bool(0.5) { 1 } else { -1 }; } }
        for _ in 0..rng.gen_range(0..=10usize.min(n)) { let k = rng.gen_range(0..n); if cx { let u = [(1, 1), (1, -1), (-1, 1), (2, 0), (0, -2), (-1, -1)][rng.gen_range(0..6)]; re[k] = u.0; im[k] = u.1; } else { re[k] = [2, -2, 3, -3][rng.gen_range(0..4)]; } }
        // at most ten entries of modulus up to 3: |product| <= 3^10
        { let big: Vec<usize> = (0..n).filter(|k| re[*k].abs() + im[*k].abs() > 1).collect(); for k in big.iter().skip(10) { re[*k] = 1; im[*k] = 0; } }
        if n > 3 && rng.gen_bool(0.25) { let k = rng.gen_range(0..n); re[k] = 0; im[k] = 0; }
        let mut ops: Vec<Value> = (0..n).map(|a| json!({"op": "product_from", "a": a})).collect();
        ops.push(json!({"op": "product"})); ops.push(json!({"op": "sum"}));
        if n > 0 { let a = rng.gen_range(0..n); ops.push(json!({"op": "product_slice", "a": a, "b": rng.gen_range(a..n)})); }
        let mut c = json!({"ty": ty, "init": re, "ops": ops}); if cx { c["initi"] = json!(im); }
        push(out, c);
    } }
    // (b) long random histories: 100-300 operations, the projected vector logged after each step
    let nh = if quick { 12 } else { 240 };
    for h in 0..nh {
        let ty = TYS[h % 4]; let cx = ty == "cx";
        let n = rng.gen_range(0..=12usize);
        let mut t = Track { n, b: 9, recent: vec![] };
        let steps = rng.gen_range(100..=300);
        let ops: Vec<Value> = (0..steps).map(|_| rand_op(&mut rng, &mut t, ty)).collect();
        let mut c = json!({"ty": ty, "init": rand_vec_json(&mut rng, n, -9, 9), "ops": ops}); if cx { c["initi"] = rand_vec_json(&mut rng, n, -9, 9); }
        push(out, c);
    }
    // (c) scalar division on exact multiples (the quotient is exact in every element type)
    for i in 0..(if quick { 24 } else { 400 }) {
        let ty = TYS[i % 4]; let cx = ty == "cx"; let n = rng.gen_range(0..=MAXLEN);
        let (s, t) = if cx { [(2, 0), (0, 3), (1, 1), (2, -1), (-3, 2), (0, -1)][rng.gen_range(0..6)] } else { ([2, -2, 3, -3, 5, 7, -1][rng.gen_range(0..7)], 0) };
        let (mut re, mut im) = (vec![0i64; n], vec![0i64; n]);
        for k in 0..n { let (a, b) = (small(&mut rng), if cx { small(&mut rng) } else { 0 }); re[k] = a * s - b * t; im[k] = a * t + b * s; }
        let mut d1 = json!({"op": "div_scalar", "x": s}); let mut d2 = json!({"op": "div_assign", "x": s}); if cx { d1["xi"] = json!(t); d2["xi"] = json!(t); }
        let mut c = json!({"ty": ty, "init": re, "ops": [d1, d2, {"op": "sum_from", "a": 0}]}); if cx { c["initi"] = json!(im); }
        if n == 0 { c["ops"] = json!([c["ops"][0].clone(), c["ops"][1].clone()]); }
        push(out, c);
    }
    // (d) complex vectors whose moduli are integers: abs / norm_1 / norm_inf exactly
    let pyth: [(i64, i64); 10] = [(3, 4), (4, 3), (5, 12), (12, 5), (6, 8), (8, 15), (0, 7), (7, 0), (0, 0), (20, 21)];
    for n in (0..=MAXLEN).step_by(if quick { 3 } else { 1 }) {
        let (mut re, mut im) = (vec![0i64; n], vec![0i64; n]);
        for k in 0..n { let (a, b) = pyth[rng.gen_range(0..pyth.len())]; re[k] = if rng.gen_bool(0.5) { a } else { -a }; im[k] = if rng.gen_bool(0.5) { b } else { -b }; }
        push(out, json!({"ty": "cx", "init": re, "initi": im, "ops": [{"op": "abs"}, {"op": "norm_1"}, {"op": "norm_inf"}, {"op": "conj"}, {"op": "real"}]}));
    }
    // (e) general f64 data: norm_2 / norm_p against a double-double reference, inequality chain, triangle inequality, homogeneity
    for n in 0..=MAXLEN { for _ in 0..(if quick { 2 } else { 24 }) {
        let wide = rng.gen_bool(0.3);
        let xs: Vec<Value> = (0..n).map(|_| if wide { jf64(&mut rng, -30, 30) } else { jf64(&mut rng, -3, 3) }).collect();
        let ys: Vec<Value> = (0..n).map(|_| if wide { jf64(&mut rng, -30, 30) } else { jf64(&mut rng, -3, 3) }).collect();
        let p = if rng.gen_bool(0.4) { json!(rng.gen_range(1..=8)) } else { json!({"m": rng.gen_range(16..=128), "e": -4}) };      // p in [1, 8]
        push(out, json!({"ty": "f64", "init": [], "ops": [{"op": "fnorms", "xs": xs, "ys": ys, "p": p, "k2": rng.gen_range(-40..=40)}]}));
    } }
    // (f) linspace / powspace, n >= 2
    for i in 0..(if quick { 300 } else { 6000 }) {
        let n = if i % 7 == 0 { 2 } else if i % 7 == 1 { 3 } else { rng.gen_range(2..=200) };
        let a = match i % 5 { 0 => json!(0), 1 => json!(rng.gen_range(-50..=50)), _ => jf64(&mut rng, -10, 10) };
        let b = match i % 6 { 0 => json!(rng.gen_range(-50..=50)), 5 => a.clone(), _ => jf64(&mut rng, -10, 10) };
        let op = if i % 2 == 0 { json!({"op": "linspace", "a": a, "b": b, "n": n}) }
                 else { let p = match i % 8 { 1 => json!(1), 3 => json!(2), 5 => json!({"m": 1, "e": -1}), _ => json!({"m": rng.gen_range(4..=64), "e": -4}) }; json!({"op": "powspace", "a": a, "b": b, "n": n, "p": p}) };
        push(out, json!({"ty": "f64", "init": [], "ops": [op]}));
    }
    // (g) ALL-ZERO vectors of every length 1..64, reached in every way the API offers (x - x, x * 0, x *= 0, x -= x,
    //     assign(0), clear + resize, Vector::zeros), under every norm and reduction: the expectation is exactly 0.
    //     In floating point x * 0 leaves -0.0 at the negative entries: signed zeros are part of the data.
    for n in 1..=MAXLEN { for (which, ty) in ["f64", TYS[[0usize, 1, 3][n % 3]]].into_iter().enumerate() {
        if !quick && which == 1 { for t2 in ["i64", "rat", "cx"] { if t2 != ty { zero_case(&mut rng, n, t2, false, &mut |c| push(out, c)); } } }
        zero_case(&mut rng, n, ty, quick && which == 1, &mut |c| push(out, c));
    } }
    // (h) special exact values, systematically for every length 1..64: entries +-1, a single non-zero entry, already sorted and
    //     reverse-sorted inputs with ties, all elements equal, duplicate maxima of opposite sign (incl. at index 0)
    for n in 1..=MAXLEN { for j in 0..(if quick { 3 } else { 6 }) {
        let kind = (n + j) % 6;
        let tys: Vec<&str> = if quick { vec![TYS[(n + j) % 4]] } else { TYS.to_vec() };
        for ty in tys { special_case(&mut rng, n, kind, ty, &mut |c| push(out, c)); }
    } }
    // (i) general f64 norms at the special points: all-zero x (with signed zeros), y = -x (x + y = 0), alpha = 0, a single
    //     non-zero entry, entries +-1, zeros / -0.0 / +-1 mixed into random data
    for n in 1..=MAXLEN { for kind in 0..6usize { for _ in 0..(if quick { 1 } else { 6 }) {
        let rf = |rng: &mut StdRng| -> f64 { f64_of(&jf64(rng, -3, 3)) };
        let mut xs: Vec<f64> = (0..n).map(|_| rf(&mut rng)).collect(); let mut ys: Vec<f64> = (0..n).map(|_| rf(&mut rng)).collect();
        match kind {
            0 => { for k in 0..n { xs[k] = if (k + n) % 2 == 0 { 0.0 } else { -0.0 }; } }
            1 => { for k in 0..n { ys[k] = -xs[k]; } }
            2 => {}
            3 => { let j = rng.gen_range(0..n); for k in 0..n { if k != j { xs[k] = if k % 3 == 0 { -0.0 } else { 0.0 }; } } }
            4 => { for k in 0..n { xs[k] = if rng.gen_bool(0.5) { 1.0 } else { -1.0 }; ys[k] = if rng.gen_bool(0.5) { 1.0 } else { -1.0 }; } }
            _ => { for k in 0..n { if rng.gen_bool(0.4) { xs[k] = [0.0, -0.0, 1.0, -1.0][rng.gen_range(0..4)]; } if rng.gen_bool(0.2) { ys[k] = -xs[k]; } } }
        }
        let p = if rng.gen_bool(0.5) { json!(rng.gen_range(1..=8)) } else { json!({"m": rng.gen_range(16..=128), "e": -4}) };
        let mut op = json!({"op": "fnorms", "kind": (["zero", "negx", "alpha0", "single", "pm1", "mixed"][kind]), "xs": xs.iter().map(|a| jf64_exact(*a)).collect::<Vec<Value>>(),
                            "ys": ys.iter().map(|a| jf64_exact(*a)).collect::<Vec<Value>>(), "p": p, "k2": rng.gen_range(-40..=40)});
        if kind == 2 || (kind == 5 && rng.gen_bool(0.3)) { op["alpha0"] = json!(1); }
        push(out, json!({"ty": "f64", "init": [], "ops": [op]}));
    } } }
    // (j) generated sequences whose end points coincide or are a few units in the last place apart (non-dyadic values):
    //     the step is below the rounding error, monotonicity is then decided by the formula; both directions; sizes 2..64
    let av: [f64; 10] = [0.1, 1.0 / 3.0, 0.7, 1e-5, 123.456, -0.1, -2.0 / 3.0, -1e5 / 7.0, 5e-9, 1e6 / 3.0];
    let ks: [i64; 16] = [1, -1, 2, -2, 3, -3, 4, -4, 5, -5, 6, -6, 7, -7, 8, -8];
    for n in 2..=MAXLEN { for kind in 0..4usize {
        let mut abk: Vec<(f64, i64)> = vec![];
        if quick { abk.push((av[(n + kind) % 10], 0)); for j in 0..3 { abk.push((av[(n + j + 3 * kind) % 10], ks[(n * 4 + kind * 5 + j * 7) % 16])); } }
        else { for a in av { abk.push((a, 0)); for k in ks { abk.push((a, k)); } } }
        for (a, k) in abk {
            let b = if k == 0 { a } else { ulps(a, k) };
            let op = match kind { 0 => json!({"op": "linspace", "a": jf64_exact(a), "b": jf64_exact(b), "n": n, "ulps": k}),
                                  1 => json!({"op": "powspace", "a": jf64_exact(a), "b": jf64_exact(b), "n": n, "p": 1, "ulps": k}),
                                  2 => json!({"op": "powspace", "a": jf64_exact(a), "b": jf64_exact(b), "n": n, "p": 2, "ulps": k}),
                                  _ => json!({"op": "powspace", "a": jf64_exact(a), "b": jf64_exact(b), "n": n, "p": {"m": 1, "e": -1}, "ulps": k}) };
            push(out, json!({"ty": "f64", "init": [], "ops": [op]}));
        }
    } }
    // (k) dot and the aliased by-reference forms (&v + &v, &v - &v, v.dot(&v)) for EVERY length 0..64 on EVERY element type
    //     (also in quick: block-size boundaries such as 31..33, 63, 64 are then met by each type); all entries non-zero and the
    //     second operand sign-matched, so that every product is positive and a dropped or repeated index always changes the sum
    for n in 0..=MAXLEN { for ty in TYS { for _ in 0..(if quick { 1 } else { 3 }) {
        let cx = ty == "cx";
        let nz = |rng: &mut StdRng| -> i64 { rng.gen_range(1..=9) * if rng.gen_bool(0.5) { 1 } else { -1 } };
        let x: Vec<i64> = (0..n).map(|_| nz(&mut rng)).collect(); let xi: Vec<i64> = (0..n).map(|_| nz(&mut rng)).collect();
        let w: Vec<i64> = x.iter().map(|a| a.signum() * rng.gen_range(1..=9)).collect(); let wi: Vec<i64> = vec![0; n];
        let mut ops = vec![json!({"op": "dot", "alias": true}), json!({"op": "dot", "v": w, "vi": wi}), with_v(json!({"op": "dot"}), &mut rng, cx, n, -9, 9),
                           json!({"op": "add", "alias": true}), json!({"op": "sub", "alias": true}), json!({"op": "add", "alias": true, "adopt": true}),
                           json!({"op": "dot", "alias": true}), json!({"op": "sub", "alias": true, "adopt": true}), json!({"op": "dot", "alias": true}), json!({"op": "norm_1"}),
                           // the empty vector reached through clear() and through resize(0): dot of two empty vectors is 0
                           json!({"op": "clear"}), json!({"op": "dot", "alias": true}), json!({"op": "dot", "v": [], "vi": []}),
                           json!({"op": "ones", "n": n, "adopt": true}), json!({"op": "dot", "alias": true}), json!({"op": "resize", "n": 0}), json!({"op": "dot", "alias": true}), json!({"op": "dot", "v": [], "vi": []})];
        if !cx { ops.insert(3, json!({"op": "norm_1"})); }
        let mut c = json!({"ty": ty, "init": x, "ops": ops}); if cx { c["initi"] = json!(xi); }
        push(out, c);
    } } }
    // (l) norm_p with exponents next to whole numbers (k -+ 1 ulp, 2 ulp, 1e-15 ... 1e-8 for k = 1..8, inside [1, 8]), the accumulated
    //     values of p = 1.0; p += 0.1 and p += 0.25, and 1 + 1e-9, on vectors whose k-norm and (k-1)-norm are far apart:
    //     the reference is evaluated with the same p (pow is smooth in p, the exponent must not be snapped or truncated)
    {
        let mut ps: Vec<f64> = vec![1.0 + 1e-9];
        for k in 1..=8 { let kf = k as f64; ps.push(kf);
            for d in [1e-15, 1e-13, 1e-12, 1e-10, 1e-8] { ps.push(kf - d); ps.push(kf + d); }
            for u in [1i64, 2] { ps.push(ulps(kf, -u)); ps.push(ulps(kf, u)); } }
        { let mut p = 1.0f64; while p <= 8.0 { ps.push(p); p += 0.1; } }
        { let mut p = 1.0f64; while p <= 8.0 { ps.push(p); p += 0.25; } }
        ps.retain(|p| *p >= 1.0 && *p <= 8.0);
        let fixed: [&[f64]; 6] = [&[3.0, 4.0], &[1.0, 1.0, 1.0, 1.0], &[1e-3, 2.5, 40.0, 7.0], &[-3.0, 4.0, 0.0, -12.0], &[0.5, -0.25, 0.125], &[1.0, -1.0, 2.0, -2.0, 3.0, -3.0, 1e3]];
        for (i, p) in ps.iter().enumerate() {
            let mut vs: Vec<Vec<f64>> = if quick { vec![fixed[i % 6].to_vec()] } else { fixed.iter().map(|v| v.to_vec()).collect() };
            for _ in 0..(if quick { 1 } else { 4 }) { let n = rng.gen_range(2..=8); vs.push((0..n).map(|_| f64_of(&jf64(&mut rng, -3, 3))).collect()); }
            if quick && i % 3 == 0 { vs.push(fixed[0].to_vec()); }
            for xs in vs {
                let ys: Vec<f64> = xs.iter().map(|_| f64_of(&jf64(&mut rng, -3, 3))).collect();
                let op = json!({"op": "fnorms", "kind": "pnear", "xs": xs.iter().map(|a| jf64_exact(*a)).collect::<Vec<Value>>(), "ys": ys.iter().map(|a| jf64_exact(*a)).collect::<Vec<Value>>(),
                                "p": jf64_exact(*p), "k2": rng.gen_range(-20..=20)});
                push(out, json!({"ty": "f64", "init": [], "ops": [op]}));
            }
        }
    }
    // (n) clone_from and == / != for destinations longer / equal / shorter / empty relative to the source, every element type
    { let szs = [0usize, 1, 2, 5, 31, 64];
      for (i, dn) in szs.iter().enumerate() { for (j2, sn) in szs.iter().enumerate() { for ty in TYS {
        if quick && (i + j2 + ty.len()) % 2 == 1 && *dn != 5 { continue; }
        let cx = ty == "cx";
        let mut ops = vec![json!({"op": "eq", "mk": "copy"}), json!({"op": "ne", "mk": "prefix"}), json!({"op": "eq", "mk": "longer"}), json!({"op": "eq", "mk": "prefix"}), json!({"op": "ne", "mk": "change"}),
                           with_v(json!({"op": "clone_from"}), &mut rng, cx, *sn, -9, 9), json!({"op": "size"}), json!({"op": "clone"}), json!({"op": "norm_1"}), json!({"op": "eq", "mk": "copy"}), json!({"op": "ne", "mk": "longer"}),
                           json!({"op": "push", "x": 4, "xi": 1}), with_v(json!({"op": "clone_from"}), &mut rng, cx, *sn / 2, -9, 9), json!({"op": "size"}), json!({"op": "dot", "alias": true}),
                           with_v(json!({"op": "clone_from"}), &mut rng, cx, *dn, -9, 9), json!({"op": "size"}), json!({"op": "eq", "mk": "copy"})];
        if *sn > 0 { ops.insert(9, json!({"op": "sum"})); }
        let mut c = json!({"ty": ty, "init": rand_vec_json(&mut rng, *dn, -9, 9), "ops": ops}); if cx { c["initi"] = rand_vec_json(&mut rng, *dn, -9, 9); }
        push(out, c);
      } } } }
    // (o) cancellation family, lengths 16..64: a few huge terms (2^52, 2^53, 2^60) that cancel - or combine exactly - in left-to-right
    //     order, at every residue position mod 8, among zeros, small integers and halves; all index ranges (starts 0..7 and a few more
    //     in quick); exactness is demanded exactly for the ranges whose left-to-right partial sums are all representable
    { let lens: Vec<usize> = if quick { (16..=64).step_by(3).collect() } else { (16..=64).collect() };
      for (ci, n) in lens.iter().enumerate() { for rep in 0..(if quick { 1 } else { 4 }) {
        let n = *n; let mut xs: Vec<(i64, usize)> = vec![(0, 1); n];
        let layout = (ci + rep) % 3; let res = (ci * 3 + rep) % 8;
        let small = |rng: &mut StdRng| -> (i64, usize) { match rng.gen_range(0..10) { 0..=3 => (0, 1), 4..=7 => (rng.gen_range(-3..=3), 1), _ => (if rng.gen_bool(0.5) { 1 } else { -1 }, 0) } };
        let hs = [2usize, 3, 4][rng.gen_range(0..3)]; let sg = if rng.gen_bool(0.5) { 1 } else { -1 };
        match layout {
            0 => { let p = res; let q = p + 1 + rng.gen_range(0..3); xs[p] = (sg, hs); xs[q] = (-sg, hs); for i in (q + 1)..n { xs[i] = small(&mut rng); } }      // pair first, small terms after
            1 => { for i in 0..res.max(2) { xs[i] = (1, 0); } if res.max(2) % 2 == 1 { xs[res.max(2)] = (1, 0); }                                                 // halves adding up to an integer, then 2^52, then integers
                   let p = res.max(2) + 2; xs[p] = (sg, 2); for i in (p + 1)..n { if rng.gen_bool(0.3) { xs[i] = (rng.gen_range(0..=2) * sg, 1); } } }
            _ => { let p = res; let q = p + 1; xs[p] = (sg, hs); xs[q] = (-sg, hs); let p2 = q + 4 + rng.gen_range(0..8); if p2 + 2 < n { xs[p2] = (-sg, 4); xs[p2 + 2] = (sg, 4); }
                   for i in (q + 1)..n { if xs[i] == (0, 1) && i != p2 + 1 { xs[i] = small(&mut rng); } } }
        }
        let ys: Vec<i64> = (0..n).map(|_| [1i64, -1, 2, 1][rng.gen_range(0..4)]).collect();
        let mut starts: Vec<usize> = if quick { (0..8).collect() } else { (0..n).collect() };
        if quick { for _ in 0..3 { starts.push(rng.gen_range(8..n)); } }
        let xj: Vec<Value> = xs.iter().map(|(m, si)| json!([m, si])).collect();
        let ops: Vec<Value> = starts.iter().map(|a| json!({"op": "csum", "xs": xj, "ys": ys, "a": a})).collect();
        push(out, json!({"ty": "f64", "init": [], "ops": ops}));
      } } }
    // (m) MAGNITUDE SWEEP: exactly representable vectors whose 2-norm is exactly representable, scaled by 2^k for EVERY k for which
    //     the definition's own intermediates stay in range (derived from the definition: entries and sums for the linear operations,
    //     -1070 <= k <= 1000; squares and their sum for norm_2 / complex moduli; products for dot and product_slice).  [1,2,2]
    //     (entries a factor 2 apart) is run at every k, so that ANY threshold on the exponent axis separates its entries at some k.
    {
        let bases: Vec<Vec<i64>> = vec![vec![1, 2, 2], vec![2, 3, 6], vec![3, 4], vec![5, 12], vec![8, 15], vec![20, 21], vec![7, 24], vec![9, 40], vec![6, 6, 7], vec![4, 4, 7], vec![1, 4, 8],
            vec![2, 6, 9], vec![12, 15, 16], vec![3, 3, 3, 3], vec![1, 1, 1, 1], vec![5, 5, 5, 5], vec![13], vec![1], vec![0, 5], vec![33, 544], vec![129, 8320], vec![201, 20200], vec![2, 2, 1, 4]];
        let pyth: [(i64, i64); 8] = [(3, 4), (5, 12), (8, 15), (0, 7), (7, 0), (20, 21), (6, 8), (12, 5)];
        for k in -1070..=1000i64 {
            let quad = k.abs() <= 520;
            let mut sel: Vec<usize> = if quick { if quad { vec![0, 1 + (k.rem_euclid(22)) as usize] } else { vec![(k.rem_euclid(23)) as usize] } } else { (0..bases.len()).collect() };
            if !quick && !quad { sel.truncate(6); }
            for bi in sel {
                let mut b: Vec<i64> = bases[bi].iter().map(|a| if rng.gen_bool(0.5) { -*a } else { *a }).collect();
                let rot = rng.gen_range(0..b.len()); b.rotate_left(rot);
                let n = b.len(); let sumsq: i64 = b.iter().map(|a| a * a).sum();
                let l2 = 64 - (sumsq.max(1) as u64).leading_zeros() as i64;                       // sumsq < 2^l2
                let has2 = 2 * k + l2 <= 1022 && 2 * k >= -1022;
                let c: Vec<i64> = (0..n).map(|_| rng.gen_range(1..=9) * if rng.gen_bool(0.5) { 1 } else { -1 }).collect();
                let j = rng.gen_range((-1000 - k).max(-1060)..=(1000 - k).min(1000));
                let sa = rng.gen_range(0..n); let sb = rng.gen_range(sa..n);
                let pa = rng.gen_range(0..n); let pb = (pa + rng.gen_range(0..3)).min(n - 1);
                let haspp = k.abs() * (pb - pa + 1) as i64 <= 1000;
                let hascx = k >= -511 && k <= 500;
                let m = n.min(3); let (mut zr, mut zi) = (vec![], vec![]);
                for _ in 0..m { let (p, q) = pyth[rng.gen_range(0..8)]; zr.push(if rng.gen_bool(0.5) { p } else { -p }); zi.push(if rng.gen_bool(0.5) { q } else { -q }); }
                let op = json!({"op": "sweep", "b": b, "c": c, "sk": k, "sj": j, "has2": has2 as i64, "hasd": 1, "hasdf": (!quick || k.rem_euclid(4) == 0) as i64, "haspp": haspp as i64, "hascx": hascx as i64, "sa": sa, "sb": sb, "pa": pa, "pb": pb, "zr": zr, "zi": zi});
                push(out, json!({"ty": "f64", "init": [], "ops": [op]}));
            }
        }
        // general (not exactly summable) data straddling every possible threshold: entries at 2^k, 2^(k-1), 2^(k-3), 2^(k-10) times small odd
        // numbers, for every k in the range admissible for the 2-norm; norm_2 / norm_p against the scaled double-double reference, the
        // order relations, homogeneity and the triangle inequality as for all general data (p limited so that the p-th powers stay in range)
        for k in -495..=495i32 { for _ in 0..(if quick { 1 } else { 3 }) {
            let odd = |rng: &mut StdRng| -> f64 { [1.0, 3.0, 5.0, 7.0][rng.gen_range(0..4)] * if rng.gen_bool(0.5) { 1.0 } else { -1.0 } };
            let mut xs: Vec<f64> = [0, 1, 3, 10].iter().map(|d| odd(&mut rng) * pow2(k - d)).collect(); let rot = rng.gen_range(0..4); xs.rotate_left(rot);
            let ys: Vec<f64> = [2, 0, 5, 1].iter().map(|d| odd(&mut rng) * pow2(k - d)).collect();
            let k2 = rng.gen_range((-495 - k).max(-40)..=(495 - k).min(40));
            let pmax = (1000.0 / ((k.abs().max((k + k2).abs()) + 15) as f64)).min(8.0);
            let p = if pmax >= 2.0 && rng.gen_bool(0.3) { json!(rng.gen_range(1..=(pmax as i64))) } else { json!({"m": rng.gen_range(16..=((pmax * 16.0) as i64).max(16)), "e": -4}) };
            let op = json!({"op": "fnorms", "kind": "sweep", "xs": xs.iter().map(|a| jf64_exact(*a)).collect::<Vec<Value>>(), "ys": ys.iter().map(|a| jf64_exact(*a)).collect::<Vec<Value>>(), "p": p, "k2": k2});
            push(out, json!({"ty": "f64", "init": [], "ops": [op]}));
        } }
    }
}

/// the observers run on a vector that must be all zeros
fn zero_obs(rng: &mut StdRng, ops: &mut Vec<Value>, n: usize, ty: &str, full: bool) {
    let cx = ty == "cx"; let f64ty = ty == "f64";
    ops.push(json!({"op": "norm_1"})); ops.push(json!({"op": "sum"})); ops.push(json!({"op": "abs"}));
    ops.push(with_v(json!({"op": "dot"}), rng, cx, n, -9, 9));
    // products of one sign only: 0.0 * negative = -0.0, -0.0 * positive = -0.0, ...; the sum is +0.0 all the same
    { let (lo, hi) = if rng.gen_bool(0.5) { (-9, -1) } else { (1, 9) }; ops.push(with_v(json!({"op": "dot"}), rng, cx, n, lo, hi)); }
    { let a = rng.gen_range(0..n); let b = rng.gen_range(a..n); ops.push(json!({"op": "sum_slice", "a": a, "b": b})); }
    if f64ty { ops.push(json!({"op": "norm_2"})); if full { for p in [1, 2, 3, 8] { ops.push(json!({"op": "norm_p", "p": p})); } } else { let p = [1, 2, 3, 8][rng.gen_range(0..4)]; ops.push(json!({"op": "norm_p", "p": p})); } }
    if f64ty || cx { ops.push(json!({"op": "norm_inf"})); }
    if full { let mut o = json!({"op": "find", "x": 0}); if cx { o["xi"] = json!(0); } ops.push(o); ops.push(json!({"op": "sort", "form": "by"})); ops.push(json!({"op": "sum_from", "a": 0})); ops.push(json!({"op": "neg"})); }
}
/// lite: the routes through x - x, x * 0, Vector::zeros and -(0) only (quick tier, element types other than f64)
fn zero_case(rng: &mut StdRng, n: usize, ty: &str, lite: bool, push: &mut dyn FnMut(Value)) {
    let cx = ty == "cx"; let f64ty = ty == "f64";
    let x = rand_vec_json(rng, n, -9, 9); let xi = rand_vec_json(rng, n, -9, 9);
    let withv = |name: &str, adopt: bool| -> Value { let mut o = json!({"op": name, "v": x.clone(), "form": "ref"}); if cx { o["vi"] = xi.clone(); } if adopt { o["adopt"] = json!(true); } o };
    let scal = |name: &str, form: &str, adopt: bool| -> Value { let mut o = json!({"op": name, "x": 0, "form": form}); if cx { o["xi"] = json!(0); } if adopt { o["adopt"] = json!(true); } o };
    let mut ops: Vec<Value> = vec![];
    ops.push(withv("sub", true)); zero_obs(rng, &mut ops, n, ty, true);                                            // x - x
    ops.push(withv("add", true)); ops.push(scal("mul_scalar", "own", true)); zero_obs(rng, &mut ops, n, ty, false);   // 0 + x = x, then x * 0
    if f64ty { ops.push(withv("add", true)); ops.push(scal("mul_scalar", "left", true)); zero_obs(rng, &mut ops, n, ty, false); }   // 0.0 * x
    if !lite {
    ops.push(withv("add", true)); ops.push(scal("mul_assign", "own", false)); zero_obs(rng, &mut ops, n, ty, false);   // x *= 0
    ops.push(withv("add", true)); ops.push(withv("sub_assign", false)); zero_obs(rng, &mut ops, n, ty, false);        // x -= x
    ops.push(withv("add", true)); ops.push(scal("assign", "own", false)); zero_obs(rng, &mut ops, n, ty, false);       // assign(0)
    if !cx { ops.push(withv("add", true)); ops.push(json!({"op": "clear"})); ops.push(json!({"op": "resize", "n": n})); zero_obs(rng, &mut ops, n, ty, false); }   // clear, resize: Default
    ops.push(json!({"op": "new", "n": n, "x": 0, "xi": 0, "adopt": true})); zero_obs(rng, &mut ops, n, ty, false);     // Vector::new(n, 0)
    }
    ops.push(json!({"op": "zeros", "n": n, "adopt": true})); zero_obs(rng, &mut ops, n, ty, false);                    // Vector::zeros(n)
    // -(0) = -0.0 in every entry; then one non-zero entry among the signed zeros
    ops.push(json!({"op": "neg", "adopt": true})); zero_obs(rng, &mut ops, n, ty, false);
    ops.push(json!({"op": "dot", "alias": true})); ops.push(json!({"op": "sum_from", "a": 0}));
    { let j = rng.gen_range(0..n); let mut o = json!({"op": "set", "i": j, "x": if rng.gen_bool(0.5) { 5 } else { -5 }}); if cx { o["xi"] = json!(0); } ops.push(o); }
    ops.push(json!({"op": "sum"})); ops.push(json!({"op": "norm_1"})); ops.push(json!({"op": "dot", "alias": true})); ops.push(with_v(json!({"op": "dot"}), rng, cx, n, -9, -1)); ops.push(json!({"op": "sum_from", "a": 0}));
    let mut c = json!({"ty": ty, "init": x, "ops": ops}); if cx { c["initi"] = xi.clone(); }
    push(c);
}

fn special_case(rng: &mut StdRng, n: usize, kind: usize, ty: &str, push: &mut dyn FnMut(Value)) {
    let cx = ty == "cx"; let f64ty = ty == "f64";
    let w: Vec<i64> = match kind {
        0 => (0..n).map(|k| if (k + n) % 2 == 0 { 1 } else { -1 }).collect(),
        1 => { let mut w = vec![0i64; n]; w[[0, n - 1, n / 2][n % 3]] = if n % 2 == 0 { 7 } else { -7 }; w }
        2 => (0..n).map(|k| (k / 2) as i64 - 3).collect(),
        3 => (0..n).map(|k| 3 - (k / 2) as i64).collect(),
        4 => vec![[0i64, 1, -1, 5][n % 4]; n],
        _ => { let mut w: Vec<i64> = (0..n).map(|_| rng.gen_range(-5..=5)).collect();
               let j1 = if n % 2 == 0 { 0 } else { rng.gen_range(0..n) }; let j2 = rng.gen_range(0..n);
               w[j2] = if n % 4 < 2 { 9 } else { -9 }; w[j1] = if n % 4 < 2 { -9 } else { 9 }; w }
    };
    // imaginary parts: zero (integer moduli, ties decided by the real parts) or the mirrored real parts
    let wi: Vec<i64> = if matches!(kind, 2 | 3) { w.iter().rev().cloned().collect() } else { vec![0; n] };
    let find = |j: usize| -> Value { let mut o = json!({"op": "find", "x": w[j]}); if cx { o["xi"] = json!(wi[j]); } o };
    let mut ops: Vec<Value> = vec![json!({"op": "norm_1"}), json!({"op": "abs"}), json!({"op": "sum"}), json!({"op": "neg"})];
    if f64ty || cx { ops.push(json!({"op": "norm_inf"})); }
    if f64ty { ops.push(json!({"op": "norm_2"})); for p in [1, 2, 5] { ops.push(json!({"op": "norm_p", "p": p})); } }
    { let mut o = json!({"op": "dot", "v": w.clone()}); if cx { o["vi"] = json!(wi.clone()); } ops.push(o); }
    ops.push(find(n - 1)); ops.push(find(n / 2)); ops.push(find(0));
    { let mut o = json!({"op": "find", "x": 0}); if cx { o["xi"] = json!(0); } ops.push(o); }
    { let mut o = json!({"op": "find", "x": 99}); if cx { o["xi"] = json!(0); } ops.push(o); }
    { let a = rng.gen_range(0..n); ops.push(json!({"op": "product_slice", "a": a, "b": (a + 2).min(n - 1)})); }
    if kind == 0 || (kind == 4 && w[0].abs() <= 1) { ops.push(json!({"op": "product"})); ops.push(json!({"op": "product_from", "a": 0})); }
    // sort / sort_desc on ties, on already sorted and on reverse-sorted input; find after sorting (first of equal elements)
    ops.push(json!({"op": "sort", "form": "std"})); ops.push(find(n / 2)); ops.push(json!({"op": "sort", "form": "by"}));
    ops.push(json!({"op": "sort_desc"})); ops.push(find(n - 1)); ops.push(json!({"op": "sort_desc"})); ops.push(json!({"op": "sort", "form": "std"}));
    if f64ty || cx { ops.push(json!({"op": "norm_inf"})); }
    let mut c = json!({"ty": ty, "init": w, "ops": ops}); if cx { c["initi"] = json!(wi); }
    push(c);
}

// ------------------------------------------------------------------ magnitude sweep (exact data scaled by 2^k for every admissible k)
/// 2^k exactly, for -1074 <= k <= 1023
fn pow2(k: i32) -> f64 { if k >= -1022 { f64::from_bits(((k + 1023) as u64) << 52) } else { f64::from_bits(1u64 << (k + 1074)) } }
/// the integer r / 2^k if r is exactly such an integer below 2^30, else BAD
fn mant(r: f64, k: i32) -> i64 {
    if r == 0.0 { return 0; }
    if !r.is_finite() { return BAD; }
    let b = r.abs().to_bits(); let ex = ((b >> 52) & 0x7ff) as i32; let fr = b & ((1u64 << 52) - 1);
    let (mut m, mut e) = if ex == 0 { (fr, -1074) } else { (fr | (1u64 << 52), ex - 1075) };
    while m & 1 == 0 { m >>= 1; e += 1; }
    let sh = e - k;
    if sh < 0 || sh > 30 || (m << sh) >= SAT as u64 { return BAD; }
    (m << sh) as i64 * if r < 0.0 { -1 } else { 1 }
}
fn exec_sweep(op: &Value, cid: i64, kk: usize, out: &mut Out) {
    let b = ivec(&op["b"]); let c = ivec(&op["c"]); let k = geti(op, "sk") as i32; let j = geti(op, "sj") as i32;
    let (has2, hasd, haspp, hascx) = (geti(op, "has2") == 1, geti(op, "hasd") == 1, geti(op, "haspp") == 1, geti(op, "hascx") == 1);
    let hasdf = geti(op, "hasdf") == 1;      // the threaded product spawns one thread per CPU: every 4th scale in the quick tier
    let (sa, sb, pa, pb) = (getu(op, "sa"), getu(op, "sb"), getu(op, "pa"), getu(op, "pb"));
    let zr = ivec(&op["zr"]); let zi = ivec(&op["zi"]); let ci: Vec<i64> = c.iter().rev().cloned().collect();
    let r = guarded(|| {
        let x = Vector::<f64>::create(b.iter().map(|a| *a as f64 * pow2(k)).collect());
        let y = Vector::<f64>::create(c.iter().map(|a| *a as f64 * pow2(j)).collect());
        let mut e = json!({"n1": mant(x.norm_1(), k), "ni": mant(x.norm_inf(), k), "s": mant(x.sum(), k), "ab": x.abs().vec.iter().map(|a| mant(*a, k)).collect::<Vec<i64>>(),
                           "ss": mant(x.sum_slice(sa, sb), k)});
        if has2 { e["r2"] = json!(mant(x.norm_2(), k)); }
        if hasd { e["d"] = json!(mant(x.dot(&y), k + j)); }
        if hasdf { e["df"] = json!(mant(x.dot_f64(&y), k + j)); }
        if haspp { e["pp"] = json!(mant(x.product_slice(pa, pb), k * (pb - pa + 1) as i32)); }
        if hascx {
            let z = Vector::<Cmplx>::create(zr.iter().zip(&zi).map(|(p, q)| Cmplx::new(*p as f64 * pow2(k), *q as f64 * pow2(k))).collect());
            let w = Vector::<Cmplx>::create(c.iter().zip(&ci).take(zr.len()).map(|(p, q)| Cmplx::new(*p as f64 * pow2(j), *q as f64 * pow2(j))).collect());
            let za = z.abs(); let zn1 = z.norm_1(); let zs = z.sum();
            e["cab"] = json!(za.vec.iter().map(|a| if a.imag != 0.0 { BAD } else { mant(a.real, k) }).collect::<Vec<i64>>());
            e["cn1"] = json!(if zn1.imag != 0.0 { BAD } else { mant(zn1.real, k) }); e["cni"] = json!(mant(z.norm_inf(), k));
            e["csr"] = json!(mant(zs.real, k)); e["csi"] = json!(mant(zs.imag, k));
            if hasd { let zd = z.dot(&w); e["cdr"] = json!(mant(zd.real, k + j)); e["cdi"] = json!(mant(zd.imag, k + j)); }
        }
        e
    });
    let mut e = match r { Ok(v) => { let mut v = v; v["panic"] = json!(false); v } Err(_) => json!({"panic": true}) };
    for f in ["b", "c", "sk", "sj", "has2", "hasd", "hasdf", "haspp", "hascx", "sa", "sb", "pa", "pb", "zr", "zi"] { e[f] = op[f].clone(); }
    e["ci"] = json!(ci.iter().take(zr.len()).cloned().collect::<Vec<i64>>()); e["cw"] = json!(c.iter().take(zr.len()).cloned().collect::<Vec<i64>>());
    e["op"] = json!("sweep"); e["ty"] = json!("f64"); e["cid"] = json!(cid); e["k"] = json!(kk); e["pre"] = json!([]); e["post"] = json!([]);
    out.ev(e);
}

// ------------------------------------------------------------------ cancellation family: range sums whose left-to-right evaluation is exact
const CS_SCALES: [i32; 5] = [-1, 0, 52, 53, 60];
/// a value in half-units is an f64 iff its odd part has at most 53 bits
fn repr_half(p: i128) -> bool { if p == 0 { return true; } let q = p.abs() >> p.abs().trailing_zeros(); q < (1i128 << 53) }
fn to_half(x: f64) -> Option<i128> { if !x.is_finite() || x.abs() >= 1e30 { return None; } let t = x * 2.0; if t.fract() != 0.0 { None } else { Some(t as i128) } }
fn exec_csum(op: &Value, cid: i64, kk: usize, out: &mut Out) {
    let xs: Vec<(i64, usize)> = op["xs"].as_array().unwrap().iter().map(|p| (p[0].as_i64().unwrap(), p[1].as_i64().unwrap() as usize)).collect();
    let ys = ivec(&op["ys"]); let a = getu(op, "a"); let n = xs.len();
    let half = |m: i64, si: usize| -> i128 { (m as i128) << (CS_SCALES[si] + 1) };
    let v = Vector::<f64>::create(xs.iter().map(|(m, si)| *m as f64 * pow2(CS_SCALES[*si])).collect());
    let w = Vector::<f64>::create(ys.iter().map(|y| *y as f64).collect());
    let r = guarded(|| {
        let (mut rs, mut ok, mut dem) = (vec![], vec![], vec![]);
        let mut p: i128 = 0; let mut exact_so_far = true; let mut coef = [0i64; 5];
        for b in a..n {
            p += half(xs[b].0, xs[b].1); coef[xs[b].1] += xs[b].0; exact_so_far = exact_so_far && repr_half(p);
            rs.push(coef.to_vec()); dem.push(exact_so_far); ok.push(to_half(v.sum_slice(a, b)) == Some(p));
        }
        let mut e = json!({"rs": rs, "ok": ok, "dem": dem});
        if a == 0 && n > 0 {
            e["sok"] = json!(to_half(v.sum()) == Some(p));
            // dot with small integer multipliers: the same left-to-right rule on the products
            let (mut q, mut dd, mut dc) = (0i128, true, [0i64; 5]);
            for i in 0..n { q += half(xs[i].0 * ys[i], xs[i].1); dc[xs[i].1] += xs[i].0 * ys[i]; dd = dd && repr_half(q); }
            e["dcoef"] = json!(dc.to_vec()); e["ddem"] = json!(dd); e["dok"] = json!(to_half(v.dot(&w)) == Some(q));
        }
        e
    });
    let mut e = match r { Ok(v) => { let mut v = v; v["panic"] = json!(false); v } Err(_) => json!({"panic": true}) };
    e["xs"] = op["xs"].clone(); e["ys"] = op["ys"].clone(); e["a"] = json!(a);
    e["op"] = json!("csum"); e["ty"] = json!("f64"); e["cid"] = json!(cid); e["k"] = json!(kk); e["pre"] = json!([]); e["post"] = json!([]);
    out.ev(e);
}
