//! Suite "mesh": ohsl::Mesh1D / ohsl::Mesh2D (C19) — every access path after write histories,
//! piecewise-linear interpolation, trapezium quadrature, file output/read round trip.
//!
//! Encoding (all integers, see spec/Trace_Mesh.tla): a grid x_k = X_k / 2^sx is given by its numerators
//! X_k (`xn`, `yn` with `sy`), nodal data D / 2^sv by the numerators D.  Everything the real code returns is
//! dyadic and is logged as the corresponding scaled integer (BAD if it is not exactly one):
//!   trapezium * 2^(sx+1+sv), 2-D trapezium * 2^(sx+sy+2+sv), square_trapezium * 2^(sx+sy+2+2sv),
//!   interpolated values * 2^sv as reduced rationals [n, d].
use crate::dd::DD;
use crate::rat::Rat;
use crate::util::*;
use ohsl::{Mesh1D, Mesh2D, Vector};
use rand::rngs::StdRng;
use rand::Rng;
use serde_json::{json, Value};

fn p2(k: i64) -> f64 { (2.0f64).powi(k as i32) }
fn f2i(x: f64) -> i64 { if x.is_finite() && x == x.trunc() && x.abs() < SAT as f64 { x as i64 } else { BAD } }

/// exact value of a finite f64 as a rational (None when the exponent is out of the i128 range used here)
fn f64_to_rat(x: f64) -> Option<Rat> {
    if !x.is_finite() { return None; }
    if x == 0.0 { return Some(Rat::int(0)); }
    let b = x.to_bits();
    let sign: i128 = if (b >> 63) != 0 { -1 } else { 1 };
    let ex = ((b >> 52) & 0x7ff) as i64;
    let fr = (b & ((1u64 << 52) - 1)) as i128;
    let (m, e) = if ex == 0 { (fr, -1074i64) } else { (fr | (1i128 << 52), ex - 1075) };
    if e >= 0 { if e > 60 { return None; } return Some(Rat::new(sign * m * (1i128 << e), 1)); }
    // strip trailing zero bits first so that the denominator is as small as possible
    let tz = (m.trailing_zeros() as i64).min(-e);
    let (m, e) = (m >> tz, e + tz);
    if -e > 100 { return None; }
    Some(Rat::new(sign * m, 1i128 << (-e)))
}

/// Element types the meshes are instantiated at.
pub trait MV: Copy + Clone + ohsl::Number + std::fmt::Debug + Send + Sync + 'static {
    const NAME: &'static str;
    const F64: bool;
    fn mk(d: i64, sv: i64) -> Self;
    /// numerator over 2^sv (BAD if the value is not such a dyadic number)
    fn sc(&self, sv: i64) -> i64;
    fn interp(_m: &Mesh1D<Self, f64>, _x: f64) -> Option<Vector<f64>> { None }
    fn trap1(_m: &Mesh1D<Self, f64>, _var: usize) -> Option<f64> { None }
    fn trap2(_m: &Mesh2D<Self>, _var: usize) -> Option<f64> { None }
    fn sqtrap2(_m: &Mesh2D<Self>, _var: usize) -> Option<f64> { None }
    /// output(path, p) followed by read(path) into a fresh mesh that starts with m0 nodes
    fn roundtrip(_m: &Mesh1D<Self, f64>, _path: &str, _p: usize, _m0: usize) -> Option<Mesh1D<f64, f64>> { None }
    fn to_f64(&self) -> f64;
}
impl MV for f64 {
    const NAME: &'static str = "f64";
    const F64: bool = true;
    fn mk(d: i64, sv: i64) -> f64 { d as f64 / p2(sv) }
    fn sc(&self, sv: i64) -> i64 { f2i(*self * p2(sv)) }
    fn interp(m: &Mesh1D<f64, f64>, x: f64) -> Option<Vector<f64>> { Some(m.get_interpolated_vars(x)) }
    fn trap1(m: &Mesh1D<f64, f64>, var: usize) -> Option<f64> { Some(m.trapezium(var)) }
    fn trap2(m: &Mesh2D<f64>, var: usize) -> Option<f64> { Some(m.trapezium(var)) }
    fn sqtrap2(m: &Mesh2D<f64>, var: usize) -> Option<f64> { Some(m.square_trapezium(var)) }
    fn roundtrip(m: &Mesh1D<f64, f64>, path: &str, p: usize, m0: usize) -> Option<Mesh1D<f64, f64>> {
        m.output(path, p);
        // the receiving mesh holds OTHER data on ANOTHER grid with m0 nodes (fewer / more / equally many): read() must replace all of it
        let mut r = Mesh1D::<f64, f64>::new(Vector::create((0..m0).map(|k| 1000.5 + 3.0 * k as f64).collect()), m.nvars());
        for k in 0..m0 { r.set_nodes_vars(k, Vector::create((0..m.nvars()).map(|v| 777.25 + (k + v) as f64).collect())); }
        r.read(path);
        Some(r)
    }
    fn to_f64(&self) -> f64 { *self }
}
impl MV for Rat {
    const NAME: &'static str = "rat";
    const F64: bool = false;
    fn mk(d: i64, sv: i64) -> Rat { Rat::new(d as i128, 1i128 << sv) }
    fn sc(&self, sv: i64) -> i64 { let r = *self * Rat::int(1i64 << sv); if r.d == 1 && r.n.abs() < SAT as i128 { r.n as i64 } else { BAD } }
    fn to_f64(&self) -> f64 { Rat::to_f64(self) }
}

fn jv<T: MV>(v: &Vector<T>, sv: i64) -> Value { Value::from(v.vec.iter().map(|x| x.sc(sv)).collect::<Vec<i64>>()) }
fn vec_of<T: MV>(v: &Value, sv: i64) -> Vector<T> { Vector::create(ivec(v).iter().map(|d| T::mk(*d, sv)).collect()) }
/// optional integer field (0 when absent)
fn geto(v: &Value, k: &str) -> i64 { v.get(k).and_then(|x| x.as_i64()).unwrap_or(0) }
/// node positions x_k = o + (X_k + F_k / 2^kf) / 2^s  (offset o, coarse numerators X, fine numerators F; every term and the sums are exact by construction of the cases)
fn nodes_of(xn: &Value, xf: Option<&Value>, s: i64, kf: i64, o: f64) -> Vector<f64> {
    let f = xf.map(ivec).unwrap_or_default();
    Vector::create(ivec(xn).iter().enumerate().map(|(k, x)| o + (*x as f64 / p2(s) + if k < f.len() { f[k] as f64 / p2(s + kf) } else { 0.0 })).collect())
}
/// coordinates relative to the offset, as numerators over 2^s
fn jnodes(v: &Vector<f64>, s: i64, o: f64) -> Value { Value::from(v.vec.iter().map(|x| f2i((*x - o) * p2(s))).collect::<Vec<i64>>()) }
/// an exact dyadic result y as (floor(y), (y - floor(y)) * 2^f): H + L / 2^f
fn split(y: f64, f: i64, o: &mut Value) { let h = y.floor(); o["ri"] = json!(f2i(h)); o["rl"] = json!(f2i((y - h) * p2(f))); }
fn jratv(v: &Vector<f64>, sv: i64) -> Value {
    Value::from(v.vec.iter().map(|x| match f64_to_rat(*x * p2(sv)) { Some(r) => jrat(r), None => json!([BAD, 1]) }).collect::<Vec<Value>>())
}

/// directory for the round-trip files: $MESH_DIR, else the directory of the events file (out/C19/...)
fn file_dir() -> String {
    if let Ok(d) = std::env::var("MESH_DIR") { if !d.is_empty() { return d; } }
    let a: Vec<String> = std::env::args().collect();
    let ev = a.get(4).cloned().unwrap_or_else(|| { eprintln!("TOOL-ERROR mesh: no events path"); std::process::exit(2) });
    let p = std::path::Path::new(&ev).parent().map(|p| p.to_path_buf()).unwrap_or_default();
    let s = if p.as_os_str().is_empty() { ".".to_string() } else { p.to_string_lossy().to_string() };
    if s.starts_with("/tmp") { eprintln!("TOOL-ERROR mesh: refusing to write files under /tmp"); std::process::exit(2) }
    s
}

// ------------------------------------------------------------------ projections (through get_nodes_vars)
fn proj1<T: MV>(m: &Mesh1D<T, f64>, sv: i64) -> Value {
    guarded(|| Value::from((0..m.nnodes()).map(|k| jv(&m.get_nodes_vars(k), sv)).collect::<Vec<Value>>())).unwrap_or_else(|_| json!([]))
}
fn proj1_index<T: MV>(m: &Mesh1D<T, f64>, sv: i64) -> Value {
    guarded(|| Value::from((0..m.nnodes()).map(|k| jv(&m[k], sv)).collect::<Vec<Value>>())).unwrap_or_else(|_| json!([]))
}
fn proj2<T: MV>(m: &Mesh2D<T>, sv: i64) -> Value {
    guarded(|| { let (nx, ny) = m.nnodes();
        Value::from((0..nx).map(|i| Value::from((0..ny).map(|j| jv(&m.get_nodes_vars(i, j), sv)).collect::<Vec<Value>>())).collect::<Vec<Value>>()) }).unwrap_or_else(|_| json!([]))
}
fn proj2_index<T: MV>(m: &Mesh2D<T>, sv: i64) -> Value {
    guarded(|| { let (nx, ny) = m.nnodes();
        Value::from((0..nx).map(|i| Value::from((0..ny).map(|j| jv(&m[(i, j)], sv)).collect::<Vec<Value>>())).collect::<Vec<Value>>()) }).unwrap_or_else(|_| json!([]))
}

struct Sc { sx: i64, sy: i64, sv: i64, ox: f64, oy: f64, kx: i64, ky: i64, xn: Vec<i64> }
fn sc_of(case: &Value) -> Sc { Sc { sx: geti(case, "sx"), sy: geto(case, "sy"), sv: geti(case, "sv"), ox: geto(case, "ox") as f64, oy: geto(case, "oy") as f64, kx: geto(case, "kx"), ky: geto(case, "ky"), xn: ivec(&case["xn"]) } }

// ------------------------------------------------------------------ 1-D
fn step1<T: MV>(m: &mut Mesh1D<T, f64>, op: &Value, sc: &Sc, cid: i64, k: usize) -> Option<Value> {
    let name = gets(op, "op").to_string();
    let f64only = matches!(name.as_str(), "interp" | "interp_off" | "interp_q" | "interp_any" | "trap" | "roundtrip");
    if f64only && !T::F64 { return None; }
    let mut e = op.clone();
    let r = guarded(|| {
        let mut o = json!({});
        match name.as_str() {
            "set" => m.set_nodes_vars(getu(op, "node"), vec_of::<T>(&op["v"], sc.sv)),
            "isetv" => m[getu(op, "node")] = vec_of::<T>(&op["v"], sc.sv),
            "iset" => m[getu(op, "node")][getu(op, "var")] = T::mk(geti(op, "x"), sc.sv),
            "get" => o["rv"] = jv(&m.get_nodes_vars(getu(op, "node")), sc.sv),
            "index" => o["rv"] = jv(&m[getu(op, "node")], sc.sv),
            "index_all" => o["rvars"] = Value::from((0..m.nnodes()).map(|k| jv(&m[k], sc.sv)).collect::<Vec<Value>>()),
            "coord" => o["ri"] = json!(f2i((m.coord(getu(op, "node")) - sc.ox) * p2(sc.sx))),
            "nodes" => o["rv"] = jnodes(&m.nodes(), sc.sx, sc.ox),
            "nnodes" => o["ri"] = json!(m.nnodes() as i64),
            "nvars" => o["ri"] = json!(m.nvars() as i64),
            "interp" => { let x = sc.ox + geti(op, "p") as f64 / p2(sc.sx + geti(op, "r")); o["rr"] = jratv(&T::interp(m, x).unwrap(), sc.sv); }
            // the dyadic point x_node + s / 2^(sx + r), relative to a node (the node position is taken from the case, not from the mesh)
            "interp_off" => { let x = sc.ox + sc.xn[getu(op, "node")] as f64 / p2(sc.sx) + geti(op, "s") as f64 / p2(sc.sx + geti(op, "r")); o["rr"] = jratv(&T::interp(m, x).unwrap(), sc.sv); }
            // a dyadic point in a cell whose width is not a power of two (TLC-generated grids): the f64 result is not exact;
            // logged rounded to 2^-20 (times 2^sv), TLC compares with the model's rational to within one such unit
            "interp_q" => { let x = sc.ox + geti(op, "p") as f64 / p2(sc.sx + geti(op, "r"));
                let got = T::interp(m, x).unwrap();
                o["rq"] = Value::from(got.vec.iter().map(|y| { let z = (*y * p2(sc.sv + 20)).round(); if z.is_finite() && z.abs() < SAT as f64 { z as i64 } else { BAD } }).collect::<Vec<i64>>()); }
            "interp_any" => {
                let x = f64::from_bits(u64::from_str_radix(gets(op, "xb"), 16).unwrap());
                let got = T::interp(m, x).unwrap();
                // reference in double-double: left + (right - left) * (x - x_l) / (x_r - x_l) in the cell containing x
                let xs = m.nodes(); let n = xs.size();
                let mut c = 0usize; for q in 0..n - 1 { if xs[q] <= x && x <= xs[q + 1] { c = q; } }
                let mut mx = 0.0f64; for q in 0..n { for v in 0..m.nvars() { mx = mx.max(m[q][v].to_f64().abs()); } }
                let mut us = vec![];
                for v in 0..m.nvars() {
                    let (l, r) = (m[c][v].to_f64(), m[c + 1][v].to_f64());
                    let t = DD::from(x).sub(DD::from(xs[c])).mulf(r - l).mulf(1.0 / (xs[c + 1] - xs[c]));   // r - l exact (small dyadics), 1/dx a power of two
                    let want = DD::from(l).add(t);
                    let err = DD::from(got[v]).sub(want).abs().to_f64();
                    us.push(units(err, 8.0 * f64::EPSILON * mx));
                }
                o["units"] = Value::from(us); o["cell"] = json!(c as i64);
            }
            "trap" => split(T::trap1(m, getu(op, "var")).unwrap() * p2(sc.sx + 1 + sc.sv), sc.kx, &mut o),
            "roundtrip" => {
                let p = getu(op, "p");
                // `slot`: ONE file name reused by all round trips of this case with the same slot (removed at the end of the case), so that an
                // output lands on a file that already holds an earlier, possibly LONGER output; without slot: a fresh file, removed at once.
                // `aux` {n, nv, p}: before that, another mesh (n nodes, nv variables, p digits) is printed to the same file by the real output().
                let slot = op.get("slot").and_then(|x| x.as_i64());
                let path = match slot { Some(sl) => slot_path(cid, sl), None => format!("{}/mesh_rt_{}_{}_{}.dat", file_dir(), std::process::id(), cid, k) };
                if let Some(a) = op.get("aux") {
                    let (an, anv) = (getu(a, "n"), getu(a, "nv"));
                    let mut aux = Mesh1D::<f64, f64>::new(Vector::create((0..an).map(|q| 5000.25 + 1.5 * q as f64).collect()), anv);
                    for q in 0..an { aux.set_nodes_vars(q, Vector::create((0..anv).map(|v| 31415.926535 + (q * 7 + v) as f64).collect())); }
                    aux.output(&path, getu(a, "p"));
                }
                let res = guarded(|| T::roundtrip(m, &path, p, getu(op, "m0")).unwrap());
                if slot.is_none() { let _ = std::fs::remove_file(&path); }
                let rb = match res { Ok(x) => x, Err(s) => panic!("{}", s) };
                let unit = (10.0f64).powi(-(p as i32));
                let n = m.nnodes().min(rb.nnodes()); let nv = m.nvars();
                o["nn"] = json!(rb.nnodes() as i64); o["nvr"] = json!(rb.nvars() as i64);
                // every accessor of the mesh that was read: nodes(), coord, get_nodes_vars, index
                let rn = rb.nodes();
                o["nu"] = Value::from((0..n).map(|q| if q < rn.size() { units((rn[q] - m.coord(q)).abs(), unit) } else { SAT }).collect::<Vec<i64>>());
                o["cu"] = Value::from((0..n).map(|q| units((rb.coord(q) - m.coord(q)).abs(), unit)).collect::<Vec<i64>>());
                o["vu"] = Value::from((0..n).map(|q| Value::from((0..nv).map(|v| if v < rb[q].size() { units((rb[q][v] - m[q][v].to_f64()).abs(), unit) } else { SAT }).collect::<Vec<i64>>())).collect::<Vec<Value>>());
                o["gu"] = Value::from((0..n).map(|q| { let g = rb.get_nodes_vars(q); Value::from((0..nv).map(|v| if v < g.size() { units((g[v] - m[q][v].to_f64()).abs(), unit) } else { SAT }).collect::<Vec<i64>>()) }).collect::<Vec<Value>>());
                // trapezium of the mesh that was read: nodes and values deviate by <= u each, hence |difference| <= u (L + 2 V (n-1) + 2 (n-1) u)
                let nn = m.nnodes(); let len = (m.coord(nn - 1) - m.coord(0)).abs();
                let mut vmx = 0.0f64; for q in 0..nn { for v in 0..nv { vmx = vmx.max(m[q][v].to_f64().abs()); } }
                let tunit = unit * (len + 2.0 * vmx * (nn - 1) as f64 + 2.0 * (nn - 1) as f64 * unit) * (1.0 + 1.0e-9);
                o["tu"] = Value::from((0..nv).map(|v| if rb.nnodes() == nn && rb.nvars() == nv { units((rb.trapezium(v) - T::trap1(m, v).unwrap()).abs(), tunit) } else { SAT }).collect::<Vec<i64>>());
            }
            other => { eprintln!("TOOL-ERROR unknown mesh1d op {}", other); std::process::exit(2) }
        }
        o
    });
    match r { Ok(o) => { e["panic"] = json!(false); for (kk, v) in o.as_object().unwrap() { e[kk] = v.clone(); } }
              Err(_) => { e["panic"] = json!(true); } }
    e["post"] = proj1(m, sc.sv);
    Some(e)
}

fn expand1(op: &Value, n: usize, nv: usize, xn: &[i64]) -> Vec<Value> {
    if gets(op, "op") != "readall" { return vec![op.clone()]; }
    let mut v = vec![json!({"op": "index_all"}), json!({"op": "nodes"}), json!({"op": "nnodes"}), json!({"op": "nvars"})];
    for k in 0..n { v.push(json!({"op": "get", "node": k})); v.push(json!({"op": "index", "node": k})); v.push(json!({"op": "coord", "node": k})); v.push(json!({"op": "interp", "p": xn[k], "r": 0})); }
    for q in 0..nv { v.push(json!({"op": "trap", "var": q})); }
    v
}

fn slot_path(cid: i64, slot: i64) -> String { format!("{}/mesh_rt_{}_{}_slot{}.dat", file_dir(), std::process::id(), cid, slot) }

fn run1<T: MV>(case: &Value, out: &mut Out) {
    let cid = geti(case, "cid");
    let sc = sc_of(case);
    let xn = ivec(&case["xn"]); let nv = getu(case, "nv");
    let mut m = Mesh1D::<T, f64>::new(nodes_of(&case["xn"], case.get("xf"), sc.sx, sc.kx, sc.ox), nv);
    let mut first = true; let mut k = 0usize;
    for op0 in case["ops"].as_array().unwrap() {
        for op in expand1(op0, xn.len(), nv, &xn) {
            // the history starts from the model's fresh mesh (all zeros), NOT from a projection of the implementation
            let pre = if first { Some(json!({"xn": case["xn"], "yn": [], "xf": case.get("xf").cloned().unwrap_or_else(|| Value::from(vec![0i64; xn.len()])), "kx": sc.kx, "nv": nv, "vars": vec![vec![0i64; nv]; xn.len()]})) } else { None };
            if let Some(mut e) = step1(&mut m, &op, &sc, cid, k) {
                e["cid"] = json!(cid); e["k"] = json!(k); e["kind"] = json!("m1"); e["ty"] = json!(T::NAME);
                if let Some(p) = pre { e["pre"] = p; first = false; }
                out.ev(e);
            }
            k += 1;
        }
    }
    // the reused round-trip files of this case
    for op in case["ops"].as_array().unwrap() { if let Some(sl) = op.get("slot").and_then(|x| x.as_i64()) { let _ = std::fs::remove_file(slot_path(cid, sl)); } }
}

// ------------------------------------------------------------------ 2-D
fn sect<T: MV>(s: &Mesh1D<T, f64>, scale: i64, off: f64, sv: i64, o: &mut Value) {
    o["rn"] = jnodes(&s.nodes(), scale, off); o["rnv"] = json!(s.nvars() as i64);
    o["rvars"] = proj1(s, sv); o["rivars"] = proj1_index(s, sv);
}

fn step2<T: MV>(m: &mut Mesh2D<T>, op: &Value, sc: &Sc) -> Option<Value> {
    let name = gets(op, "op").to_string();
    if matches!(name.as_str(), "trap" | "sq_trap") && !T::F64 { return None; }
    let mut e = op.clone();
    let r = guarded(|| {
        let mut o = json!({});
        match name.as_str() {
            "set" => m.set_nodes_vars(getu(op, "i"), getu(op, "j"), vec_of::<T>(&op["v"], sc.sv)),
            "isetv" => m[(getu(op, "i"), getu(op, "j"))] = vec_of::<T>(&op["v"], sc.sv),
            "iset" => m[(getu(op, "i"), getu(op, "j"))][getu(op, "var")] = T::mk(geti(op, "x"), sc.sv),
            "assign" => m.assign(T::mk(geti(op, "x"), sc.sv)),
            "apply" => {
                // F(x, y) = (a + b X + c Y + d X Y) / 2^sv on the scaled integer coordinates X = x 2^sx, Y = y 2^sy
                let (a, b, c, d) = (geti(op, "a"), geti(op, "b"), geti(op, "c"), geti(op, "d"));
                let (fx, fy, sv, ox, oy) = (p2(sc.sx), p2(sc.sy), sc.sv, sc.ox, sc.oy);
                let f = move |x: f64, y: f64| -> T { let (xx, yy) = (f2i((x - ox) * fx), f2i((y - oy) * fy)); T::mk(a + b * xx + c * yy + d * xx * yy, sv) };
                m.apply(&f, getu(op, "var"));
            }
            "get" => o["rv"] = jv(&m.get_nodes_vars(getu(op, "i"), getu(op, "j")), sc.sv),
            "index" => o["rv"] = jv(&m[(getu(op, "i"), getu(op, "j"))], sc.sv),
            "index_all" => { let (nx, ny) = m.nnodes();
                o["rvars"] = Value::from((0..nx).map(|i| Value::from((0..ny).map(|j| jv(&m[(i, j)], sc.sv)).collect::<Vec<Value>>())).collect::<Vec<Value>>()); }
            "coord" => { let (x, y) = m.coord(getu(op, "i"), getu(op, "j")); o["rv"] = json!([f2i((x - sc.ox) * p2(sc.sx)), f2i((y - sc.oy) * p2(sc.sy))]); }
            "xnodes" => o["rv"] = jnodes(&m.xnodes(), sc.sx, sc.ox),
            "ynodes" => o["rv"] = jnodes(&m.ynodes(), sc.sy, sc.oy),
            "nnodes" => { let (nx, ny) = m.nnodes(); o["rv"] = json!([nx as i64, ny as i64]); }
            "nvars" => o["ri"] = json!(m.nvars() as i64),
            "xsec_x" => { let s = m.cross_section_xnode(getu(op, "i")); sect(&s, sc.sy, sc.oy, sc.sv, &mut o); }
            "xsec_y" => { let s = m.cross_section_ynode(getu(op, "j")); sect(&s, sc.sx, sc.ox, sc.sv, &mut o); }
            "vam" => { let a = m.var_as_matrix(getu(op, "var")); let mut d = vec![];
                for i in 0..a.rows() { for j in 0..a.cols() { d.push(a[(i, j)].sc(sc.sv)); } }
                o["rm"] = json!({"r": a.rows(), "c": a.cols(), "d": d}); }
            "trap" => split(T::trap2(m, getu(op, "var")).unwrap() * p2(sc.sx + sc.sy + 2 + sc.sv), sc.kx + sc.ky, &mut o),
            "sq_trap" => split(T::sqtrap2(m, getu(op, "var")).unwrap() * p2(sc.sx + sc.sy + 2 + 2 * sc.sv), sc.kx + sc.ky, &mut o),
            other => { eprintln!("TOOL-ERROR unknown mesh2d op {}", other); std::process::exit(2) }
        }
        o
    });
    match r { Ok(o) => { e["panic"] = json!(false); for (kk, v) in o.as_object().unwrap() { e[kk] = v.clone(); } }
              Err(_) => { e["panic"] = json!(true); } }
    e["post"] = proj2(m, sc.sv);
    Some(e)
}

fn expand2(op: &Value, nx: usize, ny: usize, nv: usize) -> Vec<Value> {
    if gets(op, "op") != "readall" { return vec![op.clone()]; }
    let mut v = vec![json!({"op": "index_all"}), json!({"op": "nnodes"}), json!({"op": "nvars"}), json!({"op": "xnodes"}), json!({"op": "ynodes"})];
    for i in 0..nx { v.push(json!({"op": "xsec_x", "i": i})); }
    for j in 0..ny { v.push(json!({"op": "xsec_y", "j": j})); }
    for q in 0..nv { v.push(json!({"op": "vam", "var": q})); v.push(json!({"op": "trap", "var": q})); v.push(json!({"op": "sq_trap", "var": q})); }
    v
}

fn run2<T: MV>(case: &Value, out: &mut Out) {
    let cid = geti(case, "cid");
    let sc = sc_of(case);
    let nv = getu(case, "nv");
    let (nx, ny) = (ivec(&case["xn"]).len(), ivec(&case["yn"]).len());
    let mut m = Mesh2D::<T>::new(nodes_of(&case["xn"], case.get("xf"), sc.sx, sc.kx, sc.ox), nodes_of(&case["yn"], case.get("yf"), sc.sy, sc.ky, sc.oy), nv);
    let mut first = true; let mut k = 0usize;
    for op0 in case["ops"].as_array().unwrap() {
        for op in expand2(op0, nx, ny, nv) {
            let pre = if first { Some(json!({"xn": case["xn"], "yn": case["yn"], "xf": case.get("xf").cloned().unwrap_or_else(|| Value::from(vec![0i64; nx])), "yf": case.get("yf").cloned().unwrap_or_else(|| Value::from(vec![0i64; ny])),
                                                    "kx": sc.kx, "ky": sc.ky, "nv": nv, "vars": vec![vec![vec![0i64; nv]; ny]; nx]})) } else { None };
            if let Some(mut e) = step2(&mut m, &op, &sc) {
                e["cid"] = json!(cid); e["k"] = json!(k); e["kind"] = json!("m2"); e["ty"] = json!(T::NAME);
                if let Some(p) = pre { e["pre"] = p; first = false; }
                out.ev(e);
            }
            k += 1;
        }
    }
}

// ------------------------------------------------------------------ nodal values AT the nodes, bit for bit
/// kind "nx": grids whose spacings have inexact reciprocals (k/64 with odd k >= 47, k/1000, k/3, ...) and arbitrary f64 data (given as bit
/// patterns).  The query point is the node coordinate as stored (read back from the mesh); `want` is the value that was stored (from the case),
/// `got` what get_interpolated_vars returns: both logged as bit patterns, compared by the trace spec.
/// LAST node: only the last cell contains it, the unchanged code evaluates left + fl((right-left)/dx)*dx there, which is not exact on such
/// grids (measured, see c19.py note); there the deviation is logged in units of 8 eps max|data| as for interior points.
fn run_nx(case: &Value, out: &mut Out) {
    let cid = geti(case, "cid");
    let fr = |v: &Value| v[0].as_i64().unwrap() as f64 / v[1].as_i64().unwrap() as f64;
    let mut xs = vec![fr(&case["x0"])]; for st in case["steps"].as_array().unwrap() { let l = *xs.last().unwrap(); xs.push(l + fr(st)); }
    let n = xs.len();
    let data: Vec<Vec<f64>> = case["data"].as_array().unwrap().iter().map(|r| r.as_array().unwrap().iter().map(|h| f64::from_bits(u64::from_str_radix(h.as_str().unwrap(), 16).unwrap())).collect()).collect();
    let nv = data[0].len();
    let mut m = Mesh1D::<f64, f64>::new(Vector::create(xs), nv);
    for k in 0..n { if k % 2 == 0 { m.set_nodes_vars(k, Vector::create(data[k].clone())); } else { m[k] = Vector::create(data[k].clone()); } }
    let mut mx = 0.0f64; for r in &data { for v in r { mx = mx.max(v.abs()); } }
    for k in 0..n {
        let mut e = json!({"cid": cid, "k": k, "kind": "nx", "ty": "f64", "op": "interp_node", "node": k, "nn": n, "mode": case["mode"]});
        let r = guarded(|| { let x = m.coord(k); (m.get_interpolated_vars(x), x) });
        match r {
            Ok((got, x)) => { e["panic"] = json!(false); e["xb"] = json!(bits(x));
                e["got"] = Value::from(got.vec.iter().map(|y| bits(*y)).collect::<Vec<String>>());
                e["want"] = Value::from(data[k].iter().map(|y| bits(*y)).collect::<Vec<String>>());
                e["units"] = Value::from((0..nv).map(|v| if v < got.size() { units((got[v] - data[k][v]).abs(), 8.0 * f64::EPSILON * mx) } else { SAT }).collect::<Vec<i64>>()); }
            Err(_) => { e["panic"] = json!(true); e["got"] = json!([]); e["want"] = json!([]); e["units"] = json!([]); }
        }
        out.ev(e);
    }
}

pub fn exec(case: &Value, out: &mut Out) {
    if gets(case, "kind") == "nx" { return run_nx(case, out); }
    match (gets(case, "kind"), gets(case, "ty")) {
        ("m1", "f64") => run1::<f64>(case, out), ("m1", "rat") => run1::<Rat>(case, out),
        ("m2", "f64") => run2::<f64>(case, out), ("m2", "rat") => run2::<Rat>(case, out),
        (k, t) => { eprintln!("TOOL-ERROR unknown mesh case kind/type {}/{}", k, t); std::process::exit(2) }
    }
}

// ------------------------------------------------------------------ case generation (impl -> spec)
/// round trips that REUSE one file name: (slot 1) a longer file first -- a bigger mesh (n + 4 nodes), more variables (4, when this mesh has 1),
/// more digits (10 then 3) -- then this mesh over it; (slot 2) the reverse orders as controls: smaller first, fewer digits first
fn rt_sequence(rng: &mut StdRng, n: usize, nv: usize, ops: &mut Vec<Value>) {
    let big_nv = if nv == 1 { 4 } else { nv };
    ops.push(json!({"op": "roundtrip", "p": rng.gen_range(2..=5), "m0": n, "slot": 1, "aux": {"n": n + 4, "nv": big_nv, "p": 10}}));      // big then small
    ops.push(json!({"op": "roundtrip", "p": 10, "m0": 1, "slot": 1}));                                                                     // more digits over fewer
    ops.push(json!({"op": "roundtrip", "p": 3, "m0": n + 3, "slot": 1}));                                                                   // fewer digits over more
    ops.push(json!({"op": "roundtrip", "p": rng.gen_range(0..=2), "m0": n, "slot": 1, "aux": {"n": n, "nv": big_nv, "p": 12}}));           // same size, more variables / digits first
    ops.push(json!({"op": "roundtrip", "p": 8, "m0": n, "slot": 2, "aux": {"n": 1, "nv": 1, "p": 2}}));                                    // controls: small then big
    ops.push(json!({"op": "roundtrip", "p": 3, "m0": n, "slot": 2}));
    ops.push(json!({"op": "roundtrip", "p": 11, "m0": n - 1, "slot": 2}));
}

/// a non-uniform dyadic grid with n nodes: numerators and the scale exponent s (x_k = X_k / 2^s), spacings 2^-k, 0 <= k <= 9
fn grid(rng: &mut StdRng, n: usize, wide: bool) -> (Vec<i64>, i64) {
    let (klo, khi) = if wide { (0i64, 9i64) } else { let lo = rng.gen_range(0..=8i64); (lo, (lo + rng.gen_range(1..=4)).min(9)) };
    loop {
        let ks: Vec<i64> = (0..n - 1).map(|_| rng.gen_range(klo..=khi)).collect();
        if n >= 3 && ks.iter().all(|k| *k == ks[0]) { continue; }       // non-uniform
        let s = *ks.iter().max().unwrap();
        let x0: i64 = rng.gen_range(-4..=4) * (1i64 << s) + rng.gen_range(0..(1i64 << s));
        let mut xs = vec![x0]; for k in &ks { let l = *xs.last().unwrap(); xs.push(l + (1i64 << (s - k))); }
        return (xs, s);
    }
}
fn rv(rng: &mut StdRng, nv: usize, vmax: i64) -> Vec<i64> { (0..nv).map(|_| rng.gen_range(-vmax..=vmax)).collect() }

fn gen1(rng: &mut StdRng, n: usize, nv: usize, ty: &str, wide: bool, len: usize, ox: i64) -> Value {
    let (xs, sx) = grid(rng, n, wide);
    let oxf = ox as f64;
    let sv = rng.gen_range(0..=3i64);
    let vmax = 1000i64;
    let f64ty = ty == "f64";
    let mut ops: Vec<Value> = vec![];
    let write = |rng: &mut StdRng, ops: &mut Vec<Value>| {
        let node = rng.gen_range(0..n);
        match rng.gen_range(0..10) {
            0..=4 => ops.push(json!({"op": "set", "node": node, "v": rv(rng, nv, vmax)})),
            5 => ops.push(json!({"op": "set", "node": n + rng.gen_range(0..2), "v": rv(rng, nv, vmax)})),           // no such node
            6 => { let l = if nv > 1 && rng.gen_bool(0.5) { nv - 1 } else { nv + 1 }; ops.push(json!({"op": "set", "node": node, "v": rv(rng, l, vmax)})) }   // wrong length
            7 => ops.push(json!({"op": "isetv", "node": node, "v": rv(rng, nv, vmax)})),
            _ => ops.push(json!({"op": "iset", "node": node, "var": rng.gen_range(0..nv), "x": rng.gen_range(-vmax..=vmax)})),
        }
        // read the written node back through both paths
        if rng.gen_bool(0.5) { ops.push(json!({"op": "get", "node": node})); } else { ops.push(json!({"op": "index", "node": node})); }
    };
    // a first round that touches every node, in random order
    let mut order: Vec<usize> = (0..n).collect(); for i in (1..n).rev() { order.swap(i, rng.gen_range(0..=i)); }
    for node in order { if node == 0 || node == n - 1 || rng.gen_bool(0.85) { ops.push(json!({"op": "set", "node": node, "v": rv(rng, nv, vmax)})); } }
    // first and last node through every accessor
    for node in [0, n - 1] { ops.push(json!({"op": "get", "node": node})); ops.push(json!({"op": "index", "node": node})); ops.push(json!({"op": "coord", "node": node})); }
    for round in 0..len {
        for _ in 0..rng.gen_range(1..=4) { write(rng, &mut ops); }
        match (round + n) % 4 { 0 => ops.push(json!({"op": "index_all"})), 1 => ops.push(json!({"op": "nodes"})), 2 => ops.push(json!({"op": (["nnodes", "nvars"][rng.gen_range(0..2)])})), _ => ops.push(json!({"op": "coord", "node": rng.gen_range(0..n)})) }
        if !f64ty { continue; }
        // interpolation: every node, every mid-cell, interior dyadic points, arbitrary interior points
        let r = rng.gen_range(1..=3i64); let f = 1i64 << r;
        if round == 0 {
            for k in 0..n { ops.push(json!({"op": "interp", "p": xs[k] * f, "r": r})); }
            for k in 0..n - 1 { ops.push(json!({"op": "interp", "p": (xs[k] + xs[k + 1]) * (f / 2), "r": r})); }
        }
        for _ in 0..3 { let p = rng.gen_range(xs[0] * f..=xs[n - 1] * f); ops.push(json!({"op": "interp", "p": p, "r": r})); }
        for q in 0..4 {
            let c = rng.gen_range(0..n - 1);
            let c = if q == 0 && round == 0 { 0 } else if q == 1 && round == 0 { n - 2 } else { c };      // first and last cell
            let (xl, xr) = (oxf + xs[c] as f64 / p2(sx), oxf + xs[c + 1] as f64 / p2(sx));
            // q < 2: anywhere in the cell; otherwise just outside the 1e-6 exclusion zone of one of its end nodes
            let x = if q < 2 { xl + rng.gen::<f64>() * (xr - xl) } else { let dlt = 1.0e-6 * (1.0 + 3.0 * rng.gen::<f64>()) + 1.0e-9; if rng.gen_bool(0.5) { xl + dlt } else { xr - dlt } };
            let x = (x * p2(60)).round() / p2(60);
            let okd = xs.iter().all(|k| (oxf + (*k as f64) / p2(sx) - x).abs() >= 1.0e-6) && x > xl && x < xr;
            if okd { ops.push(json!({"op": "interp_any", "xb": bits(x)})); }
        }
        ops.push(json!({"op": "trap", "var": rng.gen_range(0..nv)}));
        // file round trip into a mesh with equally many / fewer / more nodes (always on another grid, holding other data)
        ops.push(json!({"op": "roundtrip", "p": rng.gen_range(0..=12), "m0": ([n, 1, n + 3, n - 1][round % 4])}));
    }
    if f64ty { for v in 0..nv { ops.push(json!({"op": "trap", "var": v})); } rt_sequence(rng, n, nv, &mut ops); }
    json!({"kind": "m1", "ty": ty, "sx": sx, "sy": 0, "sv": sv, "ox": ox, "xn": xs, "yn": [], "nv": nv, "ops": ops})
}

/// 1-D, large coordinates: interpolation on BOTH sides of every node at the dyadic distances 2^-12 .. 2^-18 (exact) and at
/// 1e-6 .. 4e-6 (units); adjacent cells have different slopes.  Grid relative to the offset ox (0: the grid straddles 0).
fn gen_near(rng: &mut StdRng, n: usize, nv: usize, ox: i64) -> Value {
    let sx = rng.gen_range(1..=4i64);
    let oxf = ox as f64;
    let xs = loop {
        let ks: Vec<i64> = (0..n - 1).map(|_| rng.gen_range(0..=sx)).collect();
        if ks.iter().all(|k| *k == ks[0]) { continue; }
        let mut xs = vec![0i64]; for k in &ks { let l = *xs.last().unwrap(); xs.push(l + (1i64 << (sx - k))); }
        // ox = 0: put an interior node (or a cell interior) at / around the origin
        let shift = if ox == 0 { xs[rng.gen_range(1..n - 1)] + rng.gen_range(0..2) } else { rng.gen_range(0..(1i64 << sx)) };
        break xs.iter().map(|x| x - shift).collect::<Vec<i64>>();
    };
    let sv = rng.gen_range(0..=1i64);
    let mut ops: Vec<Value> = vec![];
    // zig-zag data: the slopes of adjacent cells differ in sign
    let data: Vec<Vec<i64>> = (0..n).map(|k| (0..nv).map(|v| { let a = rng.gen_range(100..=500i64); if (k + v) % 2 == 0 { a } else { -a } }).collect()).collect();
    for k in 0..n { ops.push(json!({"op": "set", "node": k, "v": data[k]})); }
    let r = 18 - sx;
    for k in 0..n {
        for side in [-1i64, 1] {
            if (k == 0 && side < 0) || (k == n - 1 && side > 0) { continue; }
            for j in 12..=18i64 { ops.push(json!({"op": "interp", "p": xs[k] * (1i64 << r) + side * (1i64 << (18 - j)), "r": r, "near": j})); }
            for q in 0..2 {
                let dlt = if q == 0 { 1.0e-6 + 1.0e-9 + 1.0e-7 * rng.gen::<f64>() } else { 1.0e-6 * (1.0 + 3.0 * rng.gen::<f64>()) + 1.0e-9 };
                let xk = oxf + xs[k] as f64 / p2(sx);
                let x = xk + side as f64 * dlt;
                if (x - xk).abs() >= 1.0e-6 { ops.push(json!({"op": "interp_any", "xb": bits(x), "near": 0})); }
            }
        }
        ops.push(json!({"op": "interp", "p": xs[k] * (1i64 << r), "r": r, "near": 99}));
    }
    for v in 0..nv { ops.push(json!({"op": "trap", "var": v})); }
    ops.push(json!({"op": "nodes"})); ops.push(json!({"op": "coord", "node": 0})); ops.push(json!({"op": "coord", "node": n - 1}));
    ops.push(json!({"op": "roundtrip", "p": rng.gen_range(9..=12), "m0": n}));
    json!({"kind": "m1", "ty": "f64", "sx": sx, "sy": 0, "sv": sv, "ox": ox, "xn": xs, "yn": [], "nv": nv, "ops": ops, "family": "near"})
}

/// real widths 2^e of a grid mixing WIDE cells (16, 64, 1024, 2^20) with narrow ones (2^-9 .. 1) in a given order pattern ('W' / 'N')
fn wide_widths(rng: &mut StdRng, pat: &str, wide_e: i64) -> Vec<i64> {
    pat.chars().map(|c| if c == 'W' { if rng.gen_bool(0.7) { wide_e } else { [4i64, 6, 10][rng.gen_range(0..3)].min(wide_e) } } else { -rng.gen_range(0..=9i64) }).collect()
}
/// 1-D, wide cells next to narrow ones: interpolation on both sides of every node at 2^-12 .. 2^-19 and at 1e-6 .. 4e-6.
/// Points inside narrow cells are exact events (interp_off), points inside wide cells are judged in units (interp_any).
fn gen_wide1(rng: &mut StdRng, pat: &str, wide_e: i64, nv: usize) -> Value {
    let (es, sx) = loop {
        let es = wide_widths(rng, pat, wide_e);
        let sx = -*es.iter().min().unwrap();                                     // finest width 2^-sx
        let total: i64 = es.iter().map(|e| 1i64 << (e + sx)).sum();
        if total < (1i64 << 29) + (1i64 << 28) { break (es, sx); }
    };
    let n = es.len() + 1;
    let mut xs = vec![rng.gen_range(-3..=3i64)]; for e in &es { let l = *xs.last().unwrap(); xs.push(l + (1i64 << (e + sx))); }
    let sv = rng.gen_range(0..=1i64);
    let mut ops: Vec<Value> = vec![];
    // zig-zag data: slopes of adjacent cells differ in sign (and, with the widths, by orders of magnitude)
    for k in 0..n { let v: Vec<i64> = (0..nv).map(|q| { let a = rng.gen_range(200..=500i64); if (k + q) % 2 == 0 { a } else { -a } }).collect(); ops.push(json!({"op": "set", "node": k, "v": v})); }
    let r = 19 - sx;
    let xr = |k: usize| xs[k] as f64 / p2(sx);
    for k in 0..n {
        ops.push(json!({"op": "interp", "p": xs[k], "r": 0, "wide": 99}));
        for side in [-1i64, 1] {
            if (k == 0 && side < 0) || (k == n - 1 && side > 0) { continue; }
            let e = if side < 0 { es[k - 1] } else { es[k] };                    // width exponent of the cell the point lies in
            for j in 12..=19i64 {
                if e <= 1 { ops.push(json!({"op": "interp_off", "node": k, "s": side * (1i64 << (19 - j)), "r": r, "wide": j})); }
                else { ops.push(json!({"op": "interp_any", "xb": bits(xr(k) + side as f64 / p2(j)), "wide": j})); }
            }
            for q in 0..3 {
                let dlt = match q { 0 => 1.0e-6 + 1.0e-9 + 1.0e-7 * rng.gen::<f64>(), 1 => 2.0e-6, _ => 1.0e-6 * (1.0 + 3.0 * rng.gen::<f64>()) + 1.0e-9 };
                let x = xr(k) + side as f64 * dlt;
                if (x - xr(k)).abs() >= 1.0e-6 { ops.push(json!({"op": "interp_any", "xb": bits(x), "wide": 0})); }
            }
        }
    }
    ops.push(json!({"op": "nodes"})); ops.push(json!({"op": "index_all"}));
    ops.push(json!({"op": "roundtrip", "p": rng.gen_range(9..=12), "m0": n}));
    json!({"kind": "m1", "ty": "f64", "sx": sx, "sy": 0, "sv": sv, "ox": 0, "xn": xs, "yn": [], "nv": nv, "ops": ops, "family": "wide"})
}
/// one direction with wide and narrow cells for the QUADRATURES: positions in units 2^-k (k = finest narrow exponent allowed, <= 9), split into the
/// integer part (coarse numerators, scale 2^0) and the k fractional bits (fine numerators, K = k), so that TLC's sums stay small.
/// Returns (coarse, fine, k, bound) with bound >= sum of |coarse widths| and >= sum of |fine differences|.
fn wide_dir(rng: &mut StdRng, pat: &str, wide_e: i64, k: i64) -> (Vec<i64>, Vec<i64>, i64, i64) {
    let es: Vec<i64> = wide_widths(rng, pat, wide_e).iter().map(|e| (*e).max(-k)).collect();
    let m = 1i64 << k;
    let mut pos = vec![rng.gen_range(-2 * m..=2 * m)]; for e in &es { let l = *pos.last().unwrap(); pos.push(l + (1i64 << (e + k))); }
    let a: Vec<i64> = pos.iter().map(|p| p.div_euclid(m)).collect(); let f: Vec<i64> = pos.iter().map(|p| p.rem_euclid(m)).collect();
    let n = a.len();
    let bound = (a[n - 1] - a[0] + 1).max((0..n - 1).map(|i| (f[i + 1] - f[i]).abs()).sum::<i64>()).max(1);
    (a, f, k, bound)
}
/// quadratures on grids with wide cells: 1-D (ypat = None) or 2-D.  The finest narrow width is coarsened until the integer sums fit.
fn gen_wide_quad(rng: &mut StdRng, xpat: &str, xe: i64, ypat: Option<&str>, ye: i64, nv: usize) -> Value {
    if let Some(yp) = ypat {
        for k in (0..=9i64).rev() {
            let (xs, xf, kx, bx) = wide_dir(rng, xpat, xe, k); let (ys, yf, ky, by) = wide_dir(rng, yp, ye, k);
            let vmax = ((((1i64 << 28) / (4 * bx * by)) as f64).sqrt().floor() as i64).min(300);      // all four partial sums < 2^28; f64: 28 + kx + ky <= 46 bits
            if vmax < 3 && k > 0 { continue; }
            let vmax = vmax.max(2);
            let (nx, ny) = (xs.len(), ys.len());
            let data = bilinear_data(rng, nx, ny, nv, vmax);
            let mut ops: Vec<Value> = vec![];
            for i in 0..nx { for j in 0..ny { ops.push(json!({"op": "set", "i": i, "j": j, "v": data[i][j]})); } }
            for v in 0..nv { ops.push(json!({"op": "trap", "var": v})); ops.push(json!({"op": "sq_trap", "var": v})); }
            ops.push(json!({"op": "index_all"})); ops.push(json!({"op": "vam", "var": nv - 1}));
            return json!({"kind": "m2", "ty": "f64", "sx": 0, "sy": 0, "sv": 0, "kx": kx, "ky": ky, "xn": xs, "yn": ys, "xf": xf, "yf": yf, "nv": nv, "ops": ops, "family": "wideq"});
        }
        unreachable!()
    } else {
        let (xs, xf, kx, bx) = wide_dir(rng, xpat, xe, 9); let nx = xs.len();
        let vmax = ((1i64 << 27) / (2 * bx)).min(500).max(2);
        let data = bilinear_data(rng, nx, 1, nv, vmax);
        let mut ops: Vec<Value> = vec![];
        for k in 0..nx { ops.push(json!({"op": "set", "node": k, "v": data[k][0]})); }
        for v in 0..nv { ops.push(json!({"op": "trap", "var": v})); }
        ops.push(json!({"op": "index_all"}));
        json!({"kind": "m1", "ty": "f64", "sx": 0, "sy": 0, "sv": rng.gen_range(0..=1i64), "kx": kx, "xn": xs, "xf": xf, "yn": [], "nv": nv, "ops": ops, "family": "wideq"})
    }
}

/// coarse numerators 0, a, 2a, ... and fine numerators (cumulated 0/1 perturbations, mode 1) or zeros (mode 0: exactly uniform)
fn fine_dir(rng: &mut StdRng, n: usize, a: i64, mode: u8) -> (Vec<i64>, Vec<i64>) {
    let xs: Vec<i64> = (0..n as i64).map(|k| k * a).collect();
    if mode == 0 { return (xs, vec![0; n]); }
    loop {
        let es: Vec<i64> = (0..n - 1).map(|_| rng.gen_range(0..=1)).collect();
        if es.iter().all(|e| *e == 0) || (n > 2 && es.iter().all(|e| *e == 1)) { continue; }
        let mut f = vec![0i64]; for e in &es { let l = *f.last().unwrap(); f.push(l + e); }
        return (xs, f);
    }
}

/// 1-D nearly uniform grid: spacings h (1 + e 2^-K), e in {0,1}; exact trapezium as a split number
fn gen_fine1(rng: &mut StdRng, n: usize, nv: usize, k: i64, ox: i64) -> Value {
    let sx = rng.gen_range(0..=3i64); let a = rng.gen_range(1..=2i64);
    let (xs, xf) = fine_dir(rng, n, a, if k == 0 { 0 } else { 1 });
    let sv = rng.gen_range(0..=1i64);
    let (c0, c1) = (rng.gen_range(-200..=200i64), rng.gen_range(-60..=60i64));
    let mut ops: Vec<Value> = vec![];
    for q in 0..n { ops.push(json!({"op": "set", "node": q, "v": (0..nv).map(|v| c0 + c1 * q as i64 + (v as i64) * 7 + rng.gen_range(-3..=3)).collect::<Vec<i64>>()})); }
    for v in 0..nv { ops.push(json!({"op": "trap", "var": v})); }
    ops.push(json!({"op": "index_all"}));
    ops.push(json!({"op": "roundtrip", "p": 12, "m0": n}));
    json!({"kind": "m1", "ty": "f64", "sx": sx, "sy": 0, "sv": sv, "ox": ox, "kx": k, "xn": xs, "xf": xf, "yn": [], "nv": nv, "ops": ops, "family": "fine"})
}


fn gen2(rng: &mut StdRng, nx: usize, ny: usize, nv: usize, ty: &str, wide: bool, quad: bool, len: usize) -> Value {
    let (xs, sx) = grid(rng, nx, wide); let (ys, sy) = grid(rng, ny, wide);
    let sv = rng.gen_range(0..=2i64);
    let (lx, ly) = (xs[nx - 1] - xs[0], ys[ny - 1] - ys[0]);
    // magnitude budget: 4 * Lx * Ly * V^2 < 2^28 when quadratures are logged (TLC recomputes them in 32-bit integers)
    let vmax = if quad { (((1i64 << 28) / (4 * lx * ly)) as f64).sqrt().floor().min(1000.0).max(1.0) as i64 } else { 1000 };
    let f64ty = ty == "f64";
    let (ax, ay) = (xs.iter().map(|x| x.abs()).max().unwrap().max(1), ys.iter().map(|y| y.abs()).max().unwrap().max(1));
    let mut ops: Vec<Value> = vec![];
    let mut order: Vec<(usize, usize)> = (0..nx).flat_map(|i| (0..ny).map(move |j| (i, j))).collect();
    for i in (1..order.len()).rev() { order.swap(i, rng.gen_range(0..=i)); }
    // a first round that touches most nodes with pairwise different data (misplaced elements show)
    for (i, j) in order.iter().take(if len <= 2 { (nx * ny).min(24) } else { nx * ny }) {
        if rng.gen_bool(0.8) { ops.push(json!({"op": "set", "i": i, "j": j, "v": rv(rng, nv, vmax)})); }
    }
    // the four corner nodes through get and index
    for (c, (i, j)) in [(0, 0), (nx - 1, ny - 1), (0, ny - 1), (nx - 1, 0)].iter().enumerate() {
        ops.push(json!({"op": "iset", "i": i, "j": j, "var": c % nv, "x": rng.gen_range(1..=vmax)}));
        ops.push(json!({"op": (["get", "index"][c % 2]), "i": i, "j": j})); }
    for round in 0..len {
        for _ in 0..rng.gen_range(1..=4) {
            let (i, j) = (rng.gen_range(0..nx), rng.gen_range(0..ny));
            match rng.gen_range(0..14) {
                0..=3 => ops.push(json!({"op": "set", "i": i, "j": j, "v": rv(rng, nv, vmax)})),
                4 => ops.push(json!({"op": "set", "i": nx + rng.gen_range(0..2), "j": j, "v": rv(rng, nv, vmax)})),                 // no such node (x)
                5 => ops.push(json!({"op": "set", "i": i, "j": ny + rng.gen_range(0..2), "v": rv(rng, nv, vmax)})),                 // no such node (y): row-major alias of (i+1, .)
                6 => ops.push(json!({"op": "set", "i": i, "j": j, "v": rv(rng, nv + 1, vmax)})),                                     // wrong length
                7 => ops.push(json!({"op": "isetv", "i": i, "j": j, "v": rv(rng, nv, vmax)})),
                8 | 9 => ops.push(json!({"op": "iset", "i": i, "j": j, "var": rng.gen_range(0..nv), "x": rng.gen_range(-vmax..=vmax)})),
                10 => { if rng.gen_bool(0.3) { ops.push(json!({"op": "assign", "x": rng.gen_range(-vmax..=vmax)})); } }
                _ => {
                    // apply a bilinear function of the (scaled) coordinates, |value| <= vmax (quad) or < 2^28
                    let cap = if quad { vmax } else { 1i64 << 26 };
                    let a = rng.gen_range(-(cap / 4).max(1)..=(cap / 4).max(1));
                    let bb = (cap / 4 / ax).min(50); let cc = (cap / 4 / ay).min(50); let dd = (cap / 4 / (ax * ay)).min(3);
                    let b = if bb > 0 { rng.gen_range(-bb..=bb) } else { 0 }; let c = if cc > 0 { rng.gen_range(-cc..=cc) } else { 0 };
                    let d = if dd > 0 { rng.gen_range(-dd..=dd) } else { 0 };
                    ops.push(json!({"op": "apply", "var": rng.gen_range(0..nv), "a": a, "b": b, "c": c, "d": d}));
                }
            }
            if rng.gen_bool(0.6) { ops.push(json!({"op": (["get", "index"][rng.gen_range(0..2)]), "i": i, "j": j})); }
        }
        // first, last, then random cross-sections / variables
        let pick = |rng: &mut StdRng, n: usize| -> usize { match round { 0 => 0, 1 => n - 1, _ => rng.gen_range(0..n) } };
        ops.push(json!({"op": "xsec_x", "i": pick(rng, nx)}));
        ops.push(json!({"op": "xsec_y", "j": pick(rng, ny)}));
        ops.push(json!({"op": "vam", "var": pick(rng, nv)}));
        match (round + nx + ny) % 4 { 0 => ops.push(json!({"op": "index_all"})), 1 => ops.push(json!({"op": (["xnodes", "ynodes"][rng.gen_range(0..2)])})),
                          2 => ops.push(json!({"op": (["nnodes", "nvars"][rng.gen_range(0..2)])})), _ => ops.push(json!({"op": "coord", "i": rng.gen_range(0..nx), "j": rng.gen_range(0..ny)})) }
        if f64ty && quad { let v = rng.gen_range(0..nv); ops.push(json!({"op": "trap", "var": v})); ops.push(json!({"op": "sq_trap", "var": rng.gen_range(0..nv)})); }
    }
    let offs = [0i64, 0, 64, -64, 4096, -4096];
    let (ox, oy) = (offs[rng.gen_range(0..offs.len())], offs[rng.gen_range(0..offs.len())]);
    json!({"kind": "m2", "ty": ty, "sx": sx, "sy": sy, "sv": sv, "ox": ox, "oy": oy, "xn": xs, "yn": ys, "nv": nv, "ops": ops})
}

/// 2-D with nearly uniform / exactly uniform / ordinary directions.  dir mode: 0 exactly uniform, 1 nearly uniform (K = kx / ky), 2 ordinary
/// non-uniform dyadic.  Bilinear nodal data with integer coefficients (plus a small perturbation); exact split expectations.
fn gen_fine2(rng: &mut StdRng, nx: usize, ny: usize, nv: usize, mx: u8, kx: i64, my: u8, ky: i64) -> Value {
    let mut dir = |rng: &mut StdRng, n: usize, mode: u8| -> (Vec<i64>, Vec<i64>, i64) {
        if mode == 2 { let (xs, s) = grid(rng, n, false); (xs, vec![0; n], s) } else { let a = rng.gen_range(1..=2i64); let (xs, f) = fine_dir(rng, n, a, mode); (xs, f, rng.gen_range(0..=2i64)) } };
    let (xs, xf, sx) = dir(rng, nx, mx); let (ys, yf, sy) = dir(rng, ny, my);
    let (kx, ky) = (if mx == 1 { kx } else { 0 }, if my == 1 { ky } else { 0 });
    let (lx, ly) = (xs[nx - 1] - xs[0] + 1, ys[ny - 1] - ys[0] + 1);
    // budgets: TLC recomputes 4 Lx Ly V^2 in 32-bit integers (< 2^28); the f64 result has kx + ky more fractional bits (< 2^51 in all)
    let bits = (28i64).min(51 - kx - ky);
    let vmax = ((((1i64 << bits) / (4 * lx * ly)) as f64).sqrt().floor() as i64).min(1000).max(2);
    let mut ops: Vec<Value> = vec![];
    let (a, b, c, d) = (rng.gen_range(-vmax / 4..=vmax / 4), (vmax / 4 / nx as i64).min(9), (vmax / 4 / ny as i64).min(9), (vmax / 4 / (nx * ny) as i64).min(3));
    let (b, c, d) = (if b > 0 { rng.gen_range(-b..=b) } else { 0 }, if c > 0 { rng.gen_range(-c..=c) } else { 0 }, if d > 0 { rng.gen_range(-d..=d) } else { 0 });
    for i in 0..nx { for j in 0..ny {
        let v: Vec<i64> = (0..nv).map(|q| { let (ii, jj) = (i as i64, j as i64); (a + b * ii + c * jj + d * ii * jj + q as i64 + if rng.gen_bool(0.3) { rng.gen_range(-1..=1) } else { 0 }).clamp(-vmax, vmax) }).collect();
        ops.push(json!({"op": "set", "i": i, "j": j, "v": v}));
    } }
    for v in 0..nv { ops.push(json!({"op": "trap", "var": v})); ops.push(json!({"op": "sq_trap", "var": v})); }
    ops.push(json!({"op": "vam", "var": nv - 1})); ops.push(json!({"op": "index_all"}));
    let (ox, oy) = ([0i64, 64, -64][rng.gen_range(0..3)], [0i64, 64, -64][rng.gen_range(0..3)]);
    json!({"kind": "m2", "ty": "f64", "sx": sx, "sy": sy, "sv": rng.gen_range(0..=1i64), "ox": ox, "oy": oy, "kx": kx, "ky": ky, "xn": xs, "yn": ys, "xf": xf, "yf": yf, "nv": nv, "ops": ops, "family": "fine"})
}

/// Non-uniform cell widths (integers, in units 2^-s) whose SUMMARY statistics look uniform.  fam: 0 first = last = mean (n >= 5),
/// 1 first = last only, 2 first = mean only, 3 palindromic, 4 random permutation of {b,..,b, b-d, b+d}, 5 two alternating widths,
/// 6 one odd cell in the middle.  `small`: perturbation 1 on a base width 16 (relative difference ~6%), else base 2..8.
fn stat_widths(rng: &mut StdRng, n: usize, fam: usize, small: bool) -> Vec<i64> {
    let m = n - 1;                                   // number of cells, >= 3
    let b: i64 = if small { 16 } else { [2i64, 4, 6, 8][rng.gen_range(0..4)] };
    let d: i64 = if small { 1 } else { rng.gen_range(1..b) };
    let fam = if fam == 0 && m < 4 { 3 } else { fam };
    let mut w = vec![b; m];
    match fam {
        0 => { // interior pairs +d / -d: sum (hence mean) unchanged, first and last untouched
            let mut idx: Vec<usize> = (1..m - 1).collect(); for i in (1..idx.len()).rev() { idx.swap(i, rng.gen_range(0..=i)); }
            let pairs = (idx.len() / 2).min(1 + rng.gen_range(0..2)); for q in 0..pairs.max(1) { w[idx[2 * q]] += d; w[idx[2 * q + 1]] -= d; } }
        1 => { for i in 1..m - 1 { w[i] = b + rng.gen_range(1..=d.max(2)); } }
        2 => { w[m - 1] = b + d; w[rng.gen_range(1..m - 1)] = b - d; }
        3 => { loop { for i in 0..(m + 1) / 2 { let x = (b + rng.gen_range(-d..=d)).max(1); w[i] = x; w[m - 1 - i] = x; } if w.iter().any(|x| *x != w[0]) { break; } } }
        4 => { w[0] = b - d; w[1] = b + d; for i in (1..m).rev() { w.swap(i, rng.gen_range(0..=i)); } }
        5 => { let a = (b - d).max(1); for i in 0..m { if i % 2 == 1 { w[i] = a; } } }
        _ => { w[m / 2] = if rng.gen_bool(0.5) { b + d } else { b - d }; }
    }
    w
}
fn from_widths(rng: &mut StdRng, w: &[i64]) -> Vec<i64> { let mut xs = vec![rng.gen_range(-20..=20i64)]; for d in w { let l = *xs.last().unwrap(); xs.push(l + d); } xs }
/// bilinear integer data a + b i + c j + d i j (+ variable number) with non-zero slopes, inside [-vmax, vmax]
fn bilinear_data(rng: &mut StdRng, nx: usize, ny: usize, nv: usize, vmax: i64) -> Vec<Vec<Vec<i64>>> {
    let (mx, my) = ((nx - 1) as i64, (ny.max(2) - 1) as i64);
    let sgn = |rng: &mut StdRng| if rng.gen_bool(0.5) { 1i64 } else { -1 };
    let room = vmax - nv as i64;
    let b = sgn(rng) * (room / 4 / mx).clamp(1, 7); let c = if ny > 1 { sgn(rng) * (room / 4 / my).clamp(1, 5) } else { 0 };
    let d = if ny > 1 && room / 4 >= mx * my { sgn(rng) * (room / 4 / (mx * my)).clamp(1, 3) } else { 0 };
    let a = rng.gen_range(-(room / 8).max(1)..=(room / 8).max(1));
    (0..nx).map(|i| (0..ny).map(|j| (0..nv).map(|q| { let (ii, jj) = (i as i64, j as i64); (a + b * ii + c * jj + d * ii * jj + q as i64).clamp(-vmax, vmax) }).collect()).collect()).collect()
}
/// 1-D mesh whose widths have uniform-looking summary statistics
fn gen_stat1(rng: &mut StdRng, n: usize, nv: usize, fam: usize, small: bool) -> Value {
    let w = stat_widths(rng, n, fam, small); let xs = from_widths(rng, &w);
    let data = bilinear_data(rng, n, 1, nv, 500);
    let mut ops: Vec<Value> = vec![];
    for k in 0..n { ops.push(json!({"op": if k % 2 == 0 { "set" } else { "isetv" }, "node": k, "v": data[k][0]})); }
    for v in 0..nv { ops.push(json!({"op": "trap", "var": v})); }
    ops.push(json!({"op": "nodes"})); ops.push(json!({"op": "index_all"}));
    ops.push(json!({"op": "roundtrip", "p": rng.gen_range(6..=12), "m0": n}));
    rt_sequence(rng, n, nv, &mut ops);
    json!({"kind": "m1", "ty": "f64", "sx": rng.gen_range(0..=6i64), "sy": 0, "sv": rng.gen_range(0..=2i64), "ox": ([0i64, 64, -64][rng.gen_range(0..3)]), "xn": xs, "yn": [], "nv": nv, "ops": ops, "family": "stat", "fam": fam})
}
/// 2-D mesh, family famx in x and famy in y (7 = ordinary random dyadic grid)
fn gen_stat2(rng: &mut StdRng, nx: usize, ny: usize, nv: usize, famx: usize, famy: usize, small: bool) -> Value {
    let mut dir = |rng: &mut StdRng, n: usize, fam: usize| -> (Vec<i64>, i64) {
        if fam == 7 { grid(rng, n, false) } else { let w = stat_widths(rng, n, fam, small); (from_widths(rng, &w), rng.gen_range(0..=5i64)) } };
    let (xs, sx) = dir(rng, nx, famx); let (ys, sy) = dir(rng, ny, famy);
    let (lx, ly) = (xs[nx - 1] - xs[0], ys[ny - 1] - ys[0]);
    let vmax = ((((1i64 << 28) / (4 * lx * ly)) as f64).sqrt().floor() as i64).min(1000).max(3);
    let data = bilinear_data(rng, nx, ny, nv, vmax);
    let mut ops: Vec<Value> = vec![];
    for i in 0..nx { for j in 0..ny { ops.push(json!({"op": "set", "i": i, "j": j, "v": data[i][j]})); } }
    for v in 0..nv { ops.push(json!({"op": "trap", "var": v})); ops.push(json!({"op": "sq_trap", "var": v})); }
    ops.push(json!({"op": "xsec_x", "i": nx - 1})); ops.push(json!({"op": "xsec_y", "j": 0})); ops.push(json!({"op": "vam", "var": 0})); ops.push(json!({"op": "xnodes"})); ops.push(json!({"op": "ynodes"}));
    json!({"kind": "m2", "ty": "f64", "sx": sx, "sy": sy, "sv": rng.gen_range(0..=1i64), "ox": ([0i64, 64][rng.gen_range(0..2)]), "oy": ([0i64, -64][rng.gen_range(0..2)]),
           "xn": xs, "yn": ys, "nv": nv, "ops": ops, "family": "stat", "fam": famx * 10 + famy})
}

/// case of kind "nx" (see run_nx).  mode: 0 data 1.0 everywhere, 1 small integers, 2 general floats, 3 huge next to small (2^53, 1), 4 mixed signs / magnitudes
fn gen_nx(rng: &mut StdRng, n: usize, nv: usize, mode: usize, uniform: bool) -> Value {
    let sp: [(i64, i64); 16] = [(49, 64), (103, 64), (47, 64), (57, 64), (1, 10), (3, 10), (7, 10), (1, 3), (2, 3), (5, 3), (3, 8), (51, 1000), (333, 1000), (1001, 1000), (49, 128), (99, 64)];
    let first = sp[rng.gen_range(0..sp.len())];
    let steps: Vec<(i64, i64)> = (0..n - 1).map(|_| if uniform { first } else { sp[rng.gen_range(0..sp.len())] }).collect();
    let x0 = [(0i64, 1i64), (-1, 3), (1, 10), (-7, 10), (5, 1), (-64, 1)][rng.gen_range(0..6)];
    let data: Vec<Vec<String>> = (0..n).map(|k| (0..nv).map(|v| { let y: f64 = match mode {
        0 => 1.0,
        1 => rng.gen_range(-32..=32i64) as f64,
        2 => (rng.gen::<f64>() - 0.5) * 2000.0,
        3 => if (k + v) % 2 == 0 { 9007199254740992.0 } else { 1.0 },
        _ => { let e = rng.gen_range(-20..=40); let y = (1.0 + rng.gen::<f64>()) * p2(e); if rng.gen_bool(0.5) { y } else { -y } } };
        bits(if y == 0.0 { 0.0 } else { y }) }).collect()).collect();
    json!({"kind": "nx", "ty": "f64", "mode": mode, "x0": [x0.0, x0.1], "steps": steps.iter().map(|s| json!([s.0, s.1])).collect::<Vec<Value>>(), "data": data, "nv": nv})
}

pub fn gen(tier: &str, seed: u64, out: &mut Out) {
    let quick = tier == "quick";
    let mut rng = rng(seed, 19);
    let mut cid = 0i64;
    let mut push = |out: &mut Out, mut c: Value| { cid += 1; c["cid"] = json!(cid); c["suite"] = json!("mesh"); out.raw(&c); };
    // (a) 1-D: every node count 2..12, f64 (all operations) and Rat (access paths)
    let reps = if quick { 2 } else { 12 };
    for n in 2..=12usize { for rep in 0..reps {
        let nv = 1 + (n + rep) % 4;
        let offs = [0i64, 64, -4096, 0, 1 << 20, -64, 4096, 0, -(1 << 20)];
        push(out, gen1(&mut rng, n, nv, "f64", rep % 2 == 0, if quick { 4 } else { 6 }, offs[(n + 3 * rep) % offs.len()]));
        if rep % 2 == 0 { push(out, gen1(&mut rng, n, 1 + (n + rep + 1) % 4, "rat", rep % 4 == 0, 3, 0)); }
    } }
    // (a') 1-D at large coordinates, both signs, and straddling 0: both sides of every node at dyadic and at 1e-6-scale distances
    let reps = if quick { 2 } else { 8 };
    for (q, ox) in [0i64, 64, -64, 4096, -4096, 1 << 20, -(1 << 20)].iter().enumerate() { for rep in 0..reps {
        push(out, gen_near(&mut rng, 3 + (q + 2 * rep) % 4, [1, 4, 2, 3][(q + rep) % 4], *ox));
    } }
    // (a'') 1-D nearly uniform (and exactly uniform, K = 0) grids
    let reps = if quick { 1 } else { 4 };
    for (q, k) in [0i64, 12, 16, 19, 20, 21, 22, 24, 27, 30].iter().enumerate() { for rep in 0..reps {
        for n in [3usize, [2, 5, 12, 8][(q + rep) % 4]] { push(out, gen_fine1(&mut rng, n, [1, 4, 2, 3][(q + rep) % 4], *k, [0i64, 64, -64][(q + rep) % 3])); }
    } }
    // (b') 2-D: nearly uniform in x, in y, in both (kx + ky <= 28), against an exactly uniform / ordinary other direction; exactly uniform grids
    for (q, k) in [12i64, 16, 19, 20, 21, 22, 24, 27, 30].iter().enumerate() { for rep in 0..reps {
        let (nx, ny) = ([3usize, 4, 6, 12, 5][(q + rep) % 5], [4usize, 3, 5, 3, 2][(q + 2 * rep) % 5]);
        let nv = [1usize, 4, 2][(q + rep) % 3];
        push(out, gen_fine2(&mut rng, nx, ny, nv, 1, *k, [0u8, 2][(q + rep) % 2], 0));
        push(out, gen_fine2(&mut rng, ny, nx, nv, [2u8, 0][(q + rep) % 2], 0, 1, *k));
    } }
    for (kx, ky) in [(12i64, 12i64), (13, 15), (14, 14), (12, 16)] { push(out, gen_fine2(&mut rng, 3 + (kx as usize) % 3, 3 + (ky as usize) % 4, 1 + (kx as usize) % 4, 1, kx, 1, ky)); }
    push(out, gen_fine2(&mut rng, 4, 3, 2, 0, 0, 0, 0)); push(out, gen_fine2(&mut rng, 5, 4, 1, 0, 0, 2, 0)); push(out, gen_fine2(&mut rng, 3, 6, 4, 2, 0, 0, 0));
    // (c) grids with uniform-looking summary statistics (first / last / mean / min / max / multiset of the cell widths) but non-uniform interior
    let reps = if quick { 1 } else { 5 };
    for fam in 0..7usize { for rep in 0..reps {
        for (q, n) in [[5usize, 9, 12, 6, 7][(fam + rep) % 5], [4usize, 8, 5, 11, 10][(fam + 2 * rep) % 5]].iter().enumerate() {
            push(out, gen_stat1(&mut rng, *n, [1usize, 4, 2, 3][(fam + rep + q) % 4], fam, q == 1 && (fam + rep) % 2 == 0)); }
        // the same family in both directions (coincidence in x AND y at once), then against an ordinary grid in the other direction
        let (nx, ny) = ([5usize, 6, 12, 7, 9][(fam + rep) % 5], [5usize, 8, 5, 4, 6][(fam + 3 * rep) % 5]);
        push(out, gen_stat2(&mut rng, nx, ny, [1usize, 2, 4][(fam + rep) % 3], fam, fam, false));
        push(out, gen_stat2(&mut rng, ny + 1, nx.min(9), 1 + (fam + rep) % 3, fam, fam, false));
        if fam == 0 { for (ax, ay) in [(5usize, 5usize), (6, 9), (12, 5), (7, 6)] { push(out, gen_stat2(&mut rng, ax, ay, 1 + (ax + rep) % 2, 0, 0, ax == 6)); } }
        push(out, gen_stat2(&mut rng, ny.max(5), nx.min(8), 1 + (fam + rep) % 2, fam, (fam + 1 + rep) % 7, (fam + rep) % 2 == 0 && nx <= 7));
        if (fam + rep) % 2 == 0 { push(out, gen_stat2(&mut rng, 5 + fam % 3, 4 + rep % 4, 1, fam, 7, false)); } else { push(out, gen_stat2(&mut rng, 4 + rep % 4, 5 + fam % 3, 1, 7, fam, false)); }
    } }
    // (d) WIDE cells (16, 64, 1024, 2^20) next to narrow ones (2^-9 .. 1) in every order: interpolation around every node; quadratures
    let pats = ["WN", "NW", "WW", "NWN", "WNW", "NWWN", "WNNW", "NNWNN"];
    let reps = if quick { 1 } else { 5 };
    for (q, we) in [4i64, 6, 10, 20].iter().enumerate() { for rep in 0..reps { for (pi, pat) in pats.iter().enumerate() {
        if quick && (pi + q + rep) % 2 == 1 && pi > 2 { continue; }
        if *we == 20 && pat.matches('W').count() > 1 && pat.len() > 3 && rep % 2 == 1 { continue; }
        push(out, gen_wide1(&mut rng, pat, *we, [1usize, 2, 4, 3][(pi + q + rep) % 4]));
    }
        for (pi, pat) in ["WN", "NWN", "WW", "NWWN"].iter().enumerate() {
            push(out, gen_wide_quad(&mut rng, pat, *we, None, 0, 1 + (pi + rep) % 4));
            if *we <= 10 || pi < 2 { push(out, gen_wide_quad(&mut rng, pat, *we, Some(["NW", "NNN", "WN", "NWN"][(pi + q + rep) % 4]), (*we).min(6), 1 + (pi + q) % 2)); }
        }
    } }
    // (e) nodal values AT the nodes, bit for bit, on grids whose spacings have inexact reciprocals
    let reps = if quick { 2 } else { 12 };
    for mode in 0..5usize { for rep in 0..reps { for n in [3usize, 4, 6, 9, 12] {
        push(out, gen_nx(&mut rng, n, [1usize, 4, 2, 3][(mode + rep + n) % 4], mode, (rep + n) % 3 == 0));
    } } }
    // (b) 2-D: every shape 2..12 x 2..12
    let reps = if quick { 1 } else { 6 };
    for nx in 2..=12usize { for ny in 2..=12usize { for rep in 0..reps {
        let nv = 1 + (nx + 2 * ny + rep) % 4;
        let ty = if (nx + ny + rep) % 3 == 0 { "rat" } else { "f64" };
        let quad = (nx * 3 + ny + rep) % 4 != 0;
        push(out, gen2(&mut rng, nx, ny, nv, ty, (nx + ny + rep) % 2 == 0, quad, if quick { 3 } else { 5 }));
    } } }
}
