//! Suite "newton": the six Newton solvers (C17).
//! The user closures are the observation points: every call is recorded (which closure, at which point,
//! bit patterns) and logged as one `eval` event; the driver logs `parameters()` before/after and the result.
//! Per case three solves on ONE Newton object: call 1 and call 2 with the case's limit (repeatability),
//! call 3 after `iterations(limit + 1)` (prefix closure: decides hook-free what a failed solve must carry).
//! Values are f64 bit patterns (16 hex digits); complex values contribute two patterns (re, im).
use crate::util::*;
use ohsl::newton::Newton;
use ohsl::{Cmplx, Mat64, Matrix, Vec64, Vector};
use rand::rngs::StdRng;
use rand::Rng;
use serde_json::{json, Value};
use std::cell::RefCell;
use std::io::Write;

const EPS: f64 = f64::EPSILON;
fn c(re: f64, im: f64) -> Cmplx { Cmplx::new(re, im) }
fn hexf(v: &Value) -> f64 { f64::from_bits(u64::from_str_radix(v.as_str().unwrap_or("7ff8000000000000"), 16).unwrap()) }
fn jhex(x: f64) -> Value { json!(bits(x)) }
/// complex vector <-> flat array of hex patterns [re0, im0, re1, im1, ...]
fn cvec_from(v: &Value) -> Vec<Cmplx> { let a: Vec<f64> = v.as_array().map(|a| a.iter().map(hexf).collect()).unwrap_or_default(); a.chunks(2).map(|p| c(p[0], if p.len() > 1 { p[1] } else { 0.0 })).collect() }
fn jcvec(v: &[Cmplx]) -> Value { Value::from(v.iter().flat_map(|z| [jhex(z.real), jhex(z.imag)]).collect::<Vec<Value>>()) }
/// the bit patterns logged for a point of the given variant (real variants: real parts only)
fn pbits(v: &[Cmplx], cx: bool) -> Value { if cx { jcvec(v) } else { Value::from(v.iter().map(|z| jhex(z.real)).collect::<Vec<Value>>()) } }

fn cexp(z: Cmplx) -> Cmplx { let e = z.real.exp(); c(e * z.imag.cos(), e * z.imag.sin()) }
fn ccos(z: Cmplx) -> Cmplx { c(z.real.cos() * z.imag.cosh(), -z.real.sin() * z.imag.sinh()) }
fn csin(z: Cmplx) -> Cmplx { c(z.real.sin() * z.imag.cosh(), z.real.cos() * z.imag.sinh()) }
const NAN: f64 = f64::NAN;

/// run f with fd 1 redirected to /dev/null (Newton<Cmplx>::solve prints every iteration)
fn quiet<R>(f: impl FnOnce() -> R) -> R {
    let _ = std::io::stdout().flush();
    unsafe {
        let saved = libc::dup(1);
        let null = libc::open(b"/dev/null\0".as_ptr() as *const libc::c_char, libc::O_WRONLY);
        if saved < 0 || null < 0 { return f(); }
        libc::dup2(null, 1); libc::close(null);
        let r = f();
        let _ = std::io::stdout().flush();
        libc::dup2(saved, 1); libc::close(saved);
        r
    }
}

// ------------------------------------------------------------------ function families
/// A family instance: scalar families use component 0 only.  All coefficients complex (real variants: imag = 0).
///  poly      f = s * prod (z - r_i)                        (roots in `r`)
///  exp       f = e^z - k[0]
///  cos       f = cos z - z
///  lin       f = a[0] (z - r[0])
///  dbl       f = (z - r[0])^2                              (double root: protocol only)
///  atan      f = atan(re z)                                 (divergent from far guesses: protocol only)
///  rootfree  real: z^2 + 1; complex scalar: e^z; complex systems: |z|^2 + 1
///  nondiff   sqrt |z|
///  nan       NaN
///  const     k[i]
///  nanrow    (systems) equation p is undefined: NaN always (mode 0), sqrt(re z_p - t) + 1 (mode 1) or acos(re z_p) + 1 (mode 2) - root-free and
///            NaN from the second step on; every other equation is linear and decoupled, a_i (z_i - r_i): converged at once or after one step
///  slow      z^2 (double root at 0: the iterates halve; with tol = 1e-300 the criterion is never met within 50 steps)
///  sys_sin   F_i = a_i x_i + sum_j b_ij sin x_j + k_i        (real)
///  sys_sq    F_i = a_i z_i + sum_j b_ij z_j^2 + k_i
///  sys_lin   F_i = a_i (z_i - r_i) + sum_j b_ij (z_j - r_j)
///  perm      (systems) the equations are listed in the order perm: output row i is equation perm[i] (same root, same Newton
///            iterates in exact arithmetic; the Jacobian is then NOT diagonally dominant as listed: the linear solve must pivot)
pub struct Fam { name: String, n: usize, cx: bool, s: Cmplx, r: Vec<Cmplx>, a: Vec<Cmplx>, b: Vec<Cmplx>, k: Vec<Cmplx>, perm: Vec<usize>, nest: Option<Level>, np: usize, nmode: i64, nt: f64, reent: i64, reuse: bool }
impl Fam {
    fn from(case: &Value) -> Fam {
        let v = gets(case, "variant");
        let g = |key: &str| case.get(key).map(cvec_from).unwrap_or_default();
        Fam { name: gets(case, "fam").to_string(), n: getu(case, "n"), cx: matches!(v, "cx" | "cvec" | "cvecj"),
              s: g("s").first().copied().unwrap_or(c(1.0, 0.0)), r: g("r"), a: g("a"), b: g("b"), k: g("k"),
              perm: case.get("perm").map(|p| ivec(p).iter().map(|x| *x as usize).collect()).unwrap_or_default(),
              nest: case.get("nest").filter(|v| v.is_object()).map(Level::from),
              np: case.get("p").and_then(|v| v.as_u64()).unwrap_or(0) as usize, nmode: case.get("pm").and_then(|v| v.as_i64()).unwrap_or(0), nt: case.get("t").map(hexf).unwrap_or(0.0), reent: case.get("reent").and_then(|v| v.as_i64()).unwrap_or(0),
              // the inner result enters the function value only if the CASE limit leaves the inner solve room to converge (the same decision in every call of the case)
              reuse: case.get("limit").and_then(|v| v.as_u64()).unwrap_or(0) >= 4 }
    }
    fn scalar(&self, z: Cmplx) -> Cmplx {
        match self.name.as_str() {
            "poly" => { let mut p = self.s; for r in &self.r { p = p * (z - *r); } p }
            "exp" => cexp(z) - self.k[0],
            "cos" => ccos(z) - z,
            "lin" => self.a[0] * (z - self.r[0]),
            "dbl" => (z - self.r[0]) * (z - self.r[0]),
            "atan" => c(z.real.atan(), 0.0),
            "rootfree" => if self.cx { cexp(z) } else { z * z + c(1.0, 0.0) },
            "nondiff" => c(z.abs().sqrt(), 0.0),
            "nan" => c(NAN, if self.cx { NAN } else { 0.0 }),
            "const" => self.k[0],
            "slow" => z * z,
            "nest" => { let l = self.nest.as_ref().unwrap(); l.g(&[z])[0] - l.base(&l.star)[0] }
            other => { eprintln!("TOOL-ERROR unknown scalar family {}", other); std::process::exit(2) }
        }
    }
    fn rows<X: Clone>(&self, v: Vec<X>, w: usize) -> Vec<X> {
        if self.perm.len() * w != v.len() { return v; }
        self.perm.iter().flat_map(|p| v[p * w..(p + 1) * w].to_vec()).collect()
    }
    fn system(&self, z: &[Cmplx]) -> Vec<Cmplx> {
        let n = self.n;
        if self.name == "nest" { let l = self.nest.as_ref().unwrap(); let g = l.g(z); let g0 = l.base(&l.star); return (0..n).map(|i| g[i] - g0[i]).collect(); }
        let v: Vec<Cmplx> = (0..n).map(|i| match self.name.as_str() {
            "sys_sin" => { let mut s = self.a[i] * z[i]; for j in 0..n { s = s + self.b[i * n + j] * csin(z[j]); } s + self.k[i] }
            "sys_sq" => { let mut s = self.a[i] * z[i]; for j in 0..n { s = s + self.b[i * n + j] * z[j] * z[j]; } s + self.k[i] }
            "sys_lin" => { let mut s = self.a[i] * (z[i] - self.r[i]); for j in 0..n { s = s + self.b[i * n + j] * (z[j] - self.r[j]); } s }
            "rootfree" => if self.cx { c(z[i].abs_sqr() + 1.0, 0.0) } else { z[i] * z[i] + c(1.0, 0.0) },
            "nondiff" => c(z[i].abs().sqrt(), 0.0),
            "nan" => c(NAN, if self.cx { NAN } else { 0.0 }),
            "const" => self.k[i],
            "slow" => z[i] * z[i],
            "nanrow" => if i == self.np { let x = z[i].real; c(match self.nmode { 0 => NAN, 1 => (x - self.nt).sqrt() + 1.0, _ => x.acos() + 1.0 }, 0.0) } else { self.a[i] * (z[i] - self.r[i]) },
            other => { eprintln!("TOOL-ERROR unknown system family {}", other); std::process::exit(2) }
        }).collect();
        self.rows(v, 1)
    }
    /// exact Jacobian (row-major n x n) for solve_jacobian
    fn jac(&self, z: &[Cmplx]) -> Vec<Cmplx> {
        let n = self.n; let mut m = vec![c(0.0, 0.0); n * n];
        for i in 0..n { for j in 0..n {
            let d = if i == j { 1.0 } else { 0.0 };
            m[i * n + j] = match self.name.as_str() {
                "sys_sin" => self.a[i] * d + self.b[i * n + j] * ccos(z[j]),
                "sys_sq" => self.a[i] * d + self.b[i * n + j] * z[j] * 2.0,
                "sys_lin" => self.a[i] * d + self.b[i * n + j],
                "rootfree" => if self.cx { c(2.0 * z[j].real * d, 0.0) } else { z[j] * (2.0 * d) },
                "slow" => z[j] * (2.0 * d),
                "nanrow" => if i != j { c(0.0, 0.0) } else if i == self.np { let x = z[i].real; c(match self.nmode { 0 => NAN, 1 => 0.5 / (x - self.nt).sqrt(), _ => -1.0 / (1.0 - x * x).sqrt() }, 0.0) } else { self.a[i] },
                "nondiff" => c(d * z[j].real.signum() / (2.0 * z[j].abs().sqrt()), 0.0),
                "nan" => c(NAN, if self.cx { NAN } else { 0.0 }),
                _ => c(0.0, 0.0),
            };
        } }
        self.rows(m, n)
    }
}

// ------------------------------------------------------------------ nested / re-entrant use: functions defined through Newton solves
/// One level of a nested family.  G(u)_i = a_i u_i + sum_j b_ij sin u_j + c_i (w(u)_{i mod n'} - w*_{i mod n'}), where w(u) in C^{n'} is the
/// solution - computed by a REAL ohsl Newton solve of kind `kind`, inside the user function - of the child level's equation
/// G'(w) = G'(w*) + P u - P u*  ((P u)_l = u_{l mod n}),  so that w(u*) = w* exactly and every constant is known in closed form.
/// `fixed`: the child's right-hand side does not depend on u (w = w* throughout; used for a real solve inside a complex function).
/// The outer function is F(x) = G_0(x) - G_0(x*), G_0(x*) = a x* + b sin x*: smooth, simple root x*, diagonally dominant Jacobian
/// (|a_i| - gs sum_j |b_ij| - |c_i| / gap' >= gap), whatever the function does internally.
pub struct Level { n: usize, kind: String, a: Vec<Cmplx>, b: Vec<Cmplx>, c: Vec<Cmplx>, star: Vec<Cmplx>, fixed: bool, child: Option<Box<Level>> }
thread_local! { static ON_THREAD: std::cell::Cell<bool> = std::cell::Cell::new(false); }
impl Level {
    fn from(v: &Value) -> Level {
        Level { n: getu(v, "n"), kind: gets(v, "kind").to_string(), a: cvec_from(&v["a"]), b: cvec_from(&v["b"]), c: cvec_from(&v["c"]), star: cvec_from(&v["star"]),
                fixed: v["fixed"].as_bool().unwrap_or(false), child: v.get("child").filter(|c| c.is_object()).map(|c| Box::new(Level::from(c))) }
    }
    fn is_real(&self) -> bool { matches!(self.kind.as_str(), "f64" | "vec" | "vecj") }
    /// the closed-form part a u + b sin u
    fn base(&self, u: &[Cmplx]) -> Vec<Cmplx> { let n = self.n; (0..n).map(|i| { let mut s = self.a[i] * u[i]; for j in 0..n { s = s + self.b[i * n + j] * csin(u[j]); } s }).collect() }
    /// G(u): the closed-form part plus the coupling to the child's solution (a Newton solve per evaluation)
    fn g(&self, u: &[Cmplx]) -> Vec<Cmplx> {
        let mut r = self.base(u);
        if let Some(ch) = &self.child {
            let w = if ON_THREAD.with(|f| f.get()) {
                // the same inner solve, carried out on a second thread while this thread is in the middle of its own solve
                std::thread::scope(|s| s.spawn(|| ch.solve_for(u, &self.star, self.fixed)).join().unwrap_or_else(|_| vec![c(NAN, NAN); ch.n]))
            } else { ch.solve_for(u, &self.star, self.fixed) };
            for i in 0..self.n { let l = i % ch.n; let d = w[l] - ch.star[l]; r[i] = r[i] + self.c[i] * if self.is_real() { c(d.real, 0.0) } else { d }; }
        }
        r
    }
    /// solve G(w) = G(w*) + P u - P u* with the ohsl solver `kind`, from the first-order guess w* + (rhs - rhs*) / a
    fn solve_for(&self, u: &[Cmplx], ustar: &[Cmplx], fixed: bool) -> Vec<Cmplx> {
        let n = self.n; let pn = u.len();
        let shift: Vec<Cmplx> = (0..n).map(|l| if fixed { c(0.0, 0.0) } else { let d = u[l % pn] - ustar[l % pn]; if self.is_real() { c(d.real, 0.0) } else { d } }).collect();
        let g0 = self.base(&self.star);
        // (a fixed right-hand side would make the guess the solution itself: start 0.2 away so that the solve does real work)
        let guess: Vec<Cmplx> = (0..n).map(|l| self.star[l] + shift[l] / self.a[l] + c(if fixed { 0.2 } else { 0.0 }, 0.0)).collect();
        let h = |w: &[Cmplx]| -> Vec<Cmplx> { let g = self.g(w); (0..n).map(|l| g[l] - g0[l] - shift[l]).collect() };
        let hj = |w: &[Cmplx]| -> Vec<Cmplx> { let mut m = vec![c(0.0, 0.0); n * n]; for i in 0..n { for j in 0..n { m[i * n + j] = self.b[i * n + j] * ccos(w[j]) + if i == j { self.a[i] } else { c(0.0, 0.0) }; } } m };
        let take = |r: Result<Vec<Cmplx>, Vec<Cmplx>>| match r { Ok(v) => v, Err(v) => v };
        match self.kind.as_str() {
            "f64" => { let mut o = Newton::<f64>::new(guess[0].real); o.tolerance(1.0e-13); o.iterations(50);
                       let r = o.solve(&|x: f64| h(&[c(x, 0.0)])[0].real); vec![c(match r { Ok(v) => v, Err(v) => v }, 0.0)] }
            "cx" => { let mut o = Newton::<Cmplx>::new(guess[0]); o.tolerance(1.0e-13); o.iterations(50);
                      let r = quiet(|| o.solve(&|z: Cmplx| h(&[z])[0])); vec![match r { Ok(v) => v, Err(v) => v }] }
            "vec" | "vecj" => { let mut o = Newton::<Vec64>::new(to_vec64(&guess)); o.tolerance(1.0e-13); o.iterations(50);
                      let f = |x: Vec64| to_vec64(&h(&from_vec64(&x))); let j = |x: Vec64| to_mat64(&hj(&from_vec64(&x)), n);
                      let r = if self.kind == "vecj" { o.solve_jacobian(&f, &j) } else { o.solve(&f) };
                      take(r.map(|x| from_vec64(&x)).map_err(|x| from_vec64(&x))) }
            _ => { let mut o = Newton::<Vector<Cmplx>>::new(Vector::<Cmplx>::create(guess.clone())); o.tolerance(1.0e-13); o.iterations(50);
                      let f = |z: Vector<Cmplx>| Vector::<Cmplx>::create(h(&z.vec)); let j = |z: Vector<Cmplx>| to_cmat(&hj(&z.vec), n);
                      let r = if self.kind == "cvecj" { o.solve_jacobian(&f, &j) } else { o.solve(&f) };
                      take(r.map(|x| x.vec.clone()).map_err(|x| x.vec.clone())) }
        }
    }
}

// ------------------------------------------------------------------ the solver object, one of four types
enum Nw { F(Newton<f64>), C(Newton<Cmplx>), V(Newton<Vec64>), W(Newton<Vector<Cmplx>>) }
type Rec = RefCell<Vec<(bool, Vec<Cmplx>)>>;
fn to_vec64(z: &[Cmplx]) -> Vec64 { Vec64::create(z.iter().map(|v| v.real).collect()) }
fn from_vec64(x: &Vec64) -> Vec<Cmplx> { x.vec.iter().map(|v| c(*v, 0.0)).collect() }
fn to_mat64(m: &[Cmplx], n: usize) -> Mat64 { let mut a = Mat64::new(n, n, 0.0); for i in 0..n { for j in 0..n { a[(i, j)] = m[i * n + j].real; } } a }
fn to_cmat(m: &[Cmplx], n: usize) -> Matrix<Cmplx> { let mut a = Matrix::<Cmplx>::new(n, n, c(0.0, 0.0)); for i in 0..n { for j in 0..n { a[(i, j)] = m[i * n + j]; } } a }

impl Nw {
    fn new(variant: &str, guess: &[Cmplx], tol: f64, delta: f64, limit: usize) -> Nw {
        macro_rules! cfg { ($o:expr) => {{ let mut o = $o; o.tolerance(tol); o.delta(delta); o.iterations(limit); o }} }
        match variant {
            "f64" => Nw::F(cfg!(Newton::<f64>::new(guess[0].real))),
            "cx" => Nw::C(cfg!(Newton::<Cmplx>::new(guess[0]))),
            "vec" | "vecj" => Nw::V(cfg!(Newton::<Vec64>::new(to_vec64(guess)))),
            "cvec" | "cvecj" => Nw::W(cfg!(Newton::<Vector<Cmplx>>::new(Vector::<Cmplx>::create(guess.to_vec())))),
            v => { eprintln!("TOOL-ERROR unknown newton variant {}", v); std::process::exit(2) }
        }
    }
    fn set_tol(&mut self, x: f64) { match self { Nw::F(o) => o.tolerance(x), Nw::C(o) => o.tolerance(x), Nw::V(o) => o.tolerance(x), Nw::W(o) => o.tolerance(x) } }
    fn set_delta(&mut self, x: f64) { match self { Nw::F(o) => o.delta(x), Nw::C(o) => o.delta(x), Nw::V(o) => o.delta(x), Nw::W(o) => o.delta(x) } }
    fn set_guess(&mut self, g: &[Cmplx]) { match self { Nw::F(o) => o.guess(g[0].real), Nw::C(o) => o.guess(g[0]), Nw::V(o) => o.guess(to_vec64(g)), Nw::W(o) => o.guess(Vector::<Cmplx>::create(g.to_vec())) } }
    fn set_limit(&mut self, m: usize) { match self { Nw::F(o) => o.iterations(m), Nw::C(o) => o.iterations(m), Nw::V(o) => o.iterations(m), Nw::W(o) => o.iterations(m) } }
    /// parameters() as strings [tol bits, delta bits, max_iter, guess bits...]; the vector variants have no
    /// parameters() (it needs T: Copy), their configuration is observable through behaviour only
    fn params(&self) -> Value {
        match self {
            Nw::F(o) => { let (t, d, m, g) = o.parameters(); json!([bits(t), bits(d), m.to_string(), bits(g)]) }
            Nw::C(o) => { let (t, d, m, g) = o.parameters(); json!([bits(t), bits(d), m.to_string(), bits(g.real), bits(g.imag)]) }
            _ => json!(["n/a"]),
        }
    }
    /// one solve; every closure call is recorded; a panic is data
    /// SAME-OBJECT re-entrancy (fam.reent): while this object is in the middle of a solve, its own user function calls solve on this very
    /// object (1: inner problem t - tau(y) = 0, converges at once; 2: inner root-free problem, uses the whole budget, result discarded;
    /// 3: a second object B is solved whose function calls back into this object).  tau(y) = y/2 + 1/4 is the closed-form inner result:
    /// the returned correction s - tau is zero up to rounding, so the outer function keeps its analytic root.  The inner calls are not recorded.
    fn reent(&self, fam: &Fam, variant: &str, cfg: &Cfg, y: &[Cmplx]) -> Vec<Cmplx> {
        let zero = vec![c(0.0, 0.0); y.len()];
        if fam.reent == 0 { return zero; }
        let tau: Vec<Cmplx> = y.iter().map(|z| *z * 0.5 + c(0.25, 0.0)).collect();
        let usable = fam.reuse;
        let s = match fam.reent {
            1 => self.plain_solve(variant, 1, &tau, None, usable),
            2 => { let _ = self.plain_solve(variant, 2, &tau, None, usable); return zero; }
            _ => { let b = Nw::new(variant, &cfg.guess, cfg.tol, cfg.delta, cfg.limit); b.plain_solve(variant, 1, &tau, Some(self), usable) }
        };
        if usable && s.len() == tau.len() { s.iter().zip(tau.iter()).map(|(a, b)| *a - *b).collect() } else { zero }
    }
    /// an unrecorded solve on this object; kind 1: t - tau (plus, with a callback object, the zero correction of a solve on THAT object), kind 2: root-free
    fn plain_solve(&self, variant: &str, kind: i64, tau: &[Cmplx], callback: Option<&Nw>, usable: bool) -> Vec<Cmplx> {
        let n = tau.len();
        let val = |t: &[Cmplx], cx: bool| -> Vec<Cmplx> {
            let mut v: Vec<Cmplx> = (0..n).map(|i| if kind == 1 { t[i] - tau[i] } else if !cx { t[i] * t[i] + c(1.0, 0.0) } else if n == 1 && matches!(variant, "cx") { cexp(t[i]) } else { c(t[i].abs_sqr() + 1.0, 0.0) }).collect();
            if let Some(cb) = callback { let s2 = cb.plain_solve(variant, 1, tau, None, usable); if usable && s2.len() == n { for i in 0..n { v[i] = v[i] + (s2[i] - tau[i]); } } }
            v };
        let jv = |t: &[Cmplx], cx: bool| -> Vec<Cmplx> { let mut m = vec![c(0.0, 0.0); n * n]; for i in 0..n { m[i * n + i] = if kind == 1 { c(1.0, 0.0) } else if cx { c(2.0 * t[i].real, 0.0) } else { t[i] * 2.0 }; } m };
        let take = |r: Result<Vec<Cmplx>, Vec<Cmplx>>| match r { Ok(v) => v, Err(v) => v };
        match self {
            Nw::F(o) => { let r = o.solve(&|x: f64| val(&[c(x, 0.0)], false)[0].real); vec![c(match r { Ok(v) => v, Err(v) => v }, 0.0)] }
            Nw::C(o) => { let r = o.solve(&|z: Cmplx| val(&[z], true)[0]); vec![match r { Ok(v) => v, Err(v) => v }] }
            Nw::V(o) => { let f = |x: Vec64| to_vec64(&val(&from_vec64(&x), false)); let j = |x: Vec64| to_mat64(&jv(&from_vec64(&x), false), n);
                          let r = if variant == "vecj" { o.solve_jacobian(&f, &j) } else { o.solve(&f) }; take(r.map(|x| from_vec64(&x)).map_err(|x| from_vec64(&x))) }
            Nw::W(o) => { let f = |z: Vector<Cmplx>| Vector::<Cmplx>::create(val(&z.vec, true)); let j = |z: Vector<Cmplx>| to_cmat(&jv(&z.vec, true), n);
                          let r = if variant == "cvecj" { o.solve_jacobian(&f, &j) } else { o.solve(&f) }; take(r.map(|x| x.vec.clone()).map_err(|x| x.vec.clone())) }
        }
    }
    fn solve(&self, fam: &Fam, variant: &str, rec: &Rec, cap: usize, cfg: &Cfg) -> Result<Result<Vec<Cmplx>, Vec<Cmplx>>, String> {
        let n = fam.n;
        let add = |v: Vec<Cmplx>, y: &[Cmplx]| -> Vec<Cmplx> { if fam.reent == 0 { return v; } let d = self.reent(fam, variant, cfg, y); v.iter().zip(d.iter()).map(|(a, b)| *a + *b).collect() };
        // watchdog: a solver that never stops evaluating is cut off by a panic raised from inside the user closure
        // (data, reported as a violation of "bounded work"), instead of hanging the harness
        let tick = |rec: &Rec| { if rec.borrow().len() > cap { panic!("verif: evaluation budget exceeded"); } };
        match self {
            Nw::F(o) => { let f = |x: f64| -> f64 { tick(rec); rec.borrow_mut().push((false, vec![c(x, 0.0)])); add(vec![fam.scalar(c(x, 0.0))], &[c(x, 0.0)])[0].real };
                guarded(|| o.solve(&f)).map(|r| r.map(|x| vec![c(x, 0.0)]).map_err(|x| vec![c(x, 0.0)])) }
            Nw::C(o) => { let f = |z: Cmplx| -> Cmplx { tick(rec); rec.borrow_mut().push((false, vec![z])); add(vec![fam.scalar(z)], &[z])[0] };
                quiet(|| guarded(|| o.solve(&f))).map(|r| r.map(|z| vec![z]).map_err(|z| vec![z])) }
            Nw::V(o) => {
                let f = |x: Vec64| -> Vec64 { tick(rec); let z = from_vec64(&x); rec.borrow_mut().push((false, z.clone())); if z.len() != n { return x; } to_vec64(&add(fam.system(&z), &z)) };
                let j = |x: Vec64| -> Mat64 { tick(rec); let z = from_vec64(&x); rec.borrow_mut().push((true, z.clone())); to_mat64(&fam.jac(&z), n) };
                let r = if variant == "vecj" { guarded(|| o.solve_jacobian(&f, &j)) } else { guarded(|| o.solve(&f)) };
                r.map(|r| r.map(|x| from_vec64(&x)).map_err(|x| from_vec64(&x))) }
            Nw::W(o) => {
                let f = |z: Vector<Cmplx>| -> Vector<Cmplx> { tick(rec); rec.borrow_mut().push((false, z.vec.clone())); if z.size() != n { return z; } Vector::<Cmplx>::create(add(fam.system(&z.vec), &z.vec)) };
                let j = |z: Vector<Cmplx>| -> Matrix<Cmplx> { tick(rec); rec.borrow_mut().push((true, z.vec.clone())); to_cmat(&fam.jac(&z.vec), n) };
                let r = if variant == "cvecj" { guarded(|| o.solve_jacobian(&f, &j)) } else { guarded(|| o.solve(&f)) };
                r.map(|r| r.map(|x| x.vec.clone()).map_err(|x| x.vec.clone())) }
        }
    }
}

/// model cases (TLC-generated: variant, n, limit, R, ok) -> concrete family: linear map with exact guess (R = 1),
/// linear map with a guess 0.75 away (R = 2), root-free map (R = 0)
fn concretise(case: &Value) -> Value {
    let mut k = case.clone();
    let v = gets(case, "variant"); let n = getu(case, "n"); let r = geti(case, "R");
    let cx = matches!(v, "cx" | "cvec" | "cvecj"); let sys = !matches!(v, "f64" | "cx");
    let im = |x: f64| if cx { x } else { 0.0 };
    let root: Vec<Cmplx> = (0..n).map(|i| c(0.5 + 0.25 * i as f64, im(-0.25 + 0.125 * i as f64))).collect();
    let guess: Vec<Cmplx> = if r == 1 { root.clone() } else { root.iter().map(|z| *z + c(0.75, im(0.5))).collect() };
    // tol 1e-4: one step of a finite-difference Newton on a linear map lands within ~1e-7 of the root (rounding of the quotients)
    k["tol"] = jhex(1.0e-4); k["delta"] = jhex(1.0e-8);
    k["guess"] = jcvec(&guess);
    if r == 0 { k["fam"] = json!("rootfree"); k["basin"] = json!(false); }
    else {
        k["fam"] = json!(if sys { "sys_lin" } else { "lin" }); k["basin"] = json!(true); k["root"] = jcvec(&root); k["r"] = jcvec(&root);
        k["a"] = jcvec(&(0..n).map(|i| c(4.0 + i as f64, im(1.0))).collect::<Vec<_>>());
        k["b"] = jcvec(&(0..n * n).map(|q| c(if q % 2 == 0 { 0.25 } else { -0.25 }, im(0.125))).collect::<Vec<_>>());
    }
    k["expect"] = json!(if case["ok"].as_bool().unwrap_or(false) { "ok" } else { "err" });
    k
}

// ------------------------------------------------------------------ exec
/// what the harness configured (the begin event carries it; Trace_Newton compares parameters() with it)
#[derive(Clone)]
struct Cfg { tol: f64, delta: f64, limit: usize, guess: Vec<Cmplx> }
struct Ctx<'a> { cid: i64, mode: &'a str, variant: &'a str, fam: &'a Fam, basin: bool, root: &'a [Cmplx] }

/// one solve: begin, one eval event per closure call, end
fn one_solve(out: &mut Out, x: &Ctx, call: i64, nw: &Nw, cfg: &Cfg, expect: &str) {
    let (cx, n) = (x.fam.cx, x.fam.n);
    let pb = nw.params();
    out.ev(json!({"op": "begin", "mode": x.mode, "cid": x.cid, "call": call, "variant": x.variant, "n": n, "maxit": cfg.limit, "pb": pb, "g": pbits(&cfg.guess, cx),
                  "tolb": bits(cfg.tol), "deltab": bits(cfg.delta)}));
    let rec: Rec = RefCell::new(vec![]);
    // (re-entrant cases run an inner solve per evaluation: a tighter budget keeps a non-terminating solver cheap to expose; it is still above the work bound)
    let cap = if x.fam.reent != 0 { 2 * (cfg.limit + 1) * (2 * n + 3) + 20 } else { 50 * (cfg.limit + 1) * (2 * n + 3) + 200 };
    let res = nw.solve(x.fam, x.variant, &rec, cap, cfg);
    for (idx, (isjac, z)) in rec.borrow().iter().enumerate() {
        out.ev(json!({"op": "eval", "cid": x.cid, "call": call, "idx": idx + 1, "fn": if *isjac { "jac" } else { "f" }, "x": pbits(z, cx)}));
    }
    let pa = nw.params();
    let mut e = json!({"op": "end", "cid": x.cid, "call": call, "maxit": cfg.limit, "pa": pa, "basin": x.basin, "expect": expect, "cnt": rec.borrow().len()});
    match res {
        Ok(r) => {
            let ok = r.is_ok(); let v = match r { Ok(v) => v, Err(v) => v };
            let (mut du, mut duppm) = (0i64, 0i64);
            if ok && x.basin {
                // distance to the analytically known root in units of 8 (tol + delta^2 C_f + eps (|x*| + 1)), C_f = 1
                let dist = if v.len() == x.root.len() { v.iter().zip(x.root.iter()).map(|(a, b)| (*a - *b).abs()).fold(0.0f64, |m, d| if d > m || d.is_nan() { d } else { m }) } else { f64::INFINITY };
                let rn = x.root.iter().map(|z| z.abs()).fold(0.0f64, f64::max);
                let unit = 8.0 * (cfg.tol + cfg.delta * cfg.delta + EPS * (rn + 1.0));
                du = units(dist, unit); duppm = units(dist, unit * 1.0e-6);
            }
            let fin = v.iter().all(|z| z.real.is_finite() && z.imag.is_finite());
            e["ok"] = json!(ok); e["panic"] = json!(false); e["r"] = pbits(&v, cx); e["du"] = json!(du); e["duppm"] = json!(duppm); e["fin"] = json!(fin);
            // the class of known_findings.json: success reported with non-finite components because a NaN residual in a position >= 1 is ignored
            if ok && !fin && x.fam.name == "nanrow" && x.fam.np >= 1 { e["kf"] = json!("nan_residual_ignored_tail"); }
        }
        Err(_) => { e["ok"] = json!(false); e["panic"] = json!(true); e["r"] = json!([]); e["du"] = json!(0); e["duppm"] = json!(0); e["fin"] = json!(false); }
    }
    out.ev(e);
}

/// the limits of a ladder case, in execution order (limit 1 first: it defines the per-step cost)
const LADDER: [usize; 9] = [1, 0, 2, 3, 5, 8, 13, 20, 50];

pub fn exec(case0: &Value, out: &mut Out) {
    let case = if case0.get("R").is_some() { concretise(case0) } else { case0.clone() };
    let variant = gets(&case, "variant").to_string();
    let fam = Fam::from(&case);
    let root = case.get("root").map(cvec_from).unwrap_or_default();
    let kind = if gets(&case, "kind").is_empty() { "std" } else { gets(&case, "kind") };
    let x = Ctx { cid: geti(&case, "cid"), mode: kind, variant: &variant, fam: &fam, basin: case["basin"].as_bool().unwrap_or(false), root: &root };
    let mut cfg = Cfg { tol: hexf(&case["tol"]), delta: hexf(&case["delta"]), limit: getu(&case, "limit"), guess: cvec_from(&case["guess"]) };
    let expect = gets(&case, "expect").to_string();
    let mut nw = Nw::new(&variant, &cfg.guess, cfg.tol, cfg.delta, cfg.limit);
    match kind {
        // three solves on one object: limit m twice (repeatability), then m + 1 (prefix closure)
        "std" => for call in 1..=3i64 {
            if call == 3 { cfg.limit += 1; nw.set_limit(cfg.limit); }
            // model cases: the verdict is the model's closed form for THIS call's limit (criterion first met at step R)
            let exp_call = match case.get("R").and_then(|r| r.as_i64()) { Some(r) => if r >= 1 && r <= cfg.limit as i64 { "ok".to_string() } else { "err".to_string() }, None => expect.clone() };
            // "thr": during call 2 every inner solve of a nested function runs on a second thread while this thread is mid-solve;
            // call 2 must still be bit-identical to call 1
            ON_THREAD.with(|f| f.set(call == 2 && case["thr"].as_bool().unwrap_or(false)));
            one_solve(out, &x, call, &nw, &cfg, &exp_call);
            ON_THREAD.with(|f| f.set(false));
        },
        // solve, reconfigure through the setters (any order / combination), solve again; then a FRESH object with the final configuration
        "seq" => {
            one_solve(out, &x, 1, &nw, &cfg, &expect);
            for op in case["ops"].as_array().map(|a| a.as_slice()).unwrap_or(&[]) {
                match gets(op, "set") {
                    "tol" => { cfg.tol = hexf(&op["v"]); nw.set_tol(cfg.tol); }
                    "delta" => { cfg.delta = hexf(&op["v"]); nw.set_delta(cfg.delta); }
                    "limit" => { cfg.limit = getu(op, "v"); nw.set_limit(cfg.limit); }
                    "guess" => { cfg.guess = cvec_from(&op["v"]); nw.set_guess(&cfg.guess); }
                    s => { eprintln!("TOOL-ERROR unknown setter {}", s); std::process::exit(2) }
                }
            }
            let e2 = gets(&case, "expect2").to_string();
            one_solve(out, &x, 2, &nw, &cfg, &e2);
            let fresh = Nw::new(&variant, &cfg.guess, cfg.tol, cfg.delta, cfg.limit);
            one_solve(out, &x, 3, &fresh, &cfg, &e2);
        }
        // never-converging function, limits 1, 0, 2, 3, 5, 8, 13, 20, 50 on one object
        "ladder" => for (k, m) in LADDER.iter().enumerate() {
            cfg.limit = *m; nw.set_limit(*m);
            one_solve(out, &x, k as i64 + 1, &nw, &cfg, "err");
        },
        k => { eprintln!("TOOL-ERROR unknown newton case kind {}", k); std::process::exit(2) }
    }
}

// ------------------------------------------------------------------ case generation
/// limit from which a basin case must report success: twice the worst observed step count (calibrated, see c17.py)
const NEED: usize = 14;
const COS_ROOT: f64 = 0.739_085_133_215_160_6;   // cos x = x (0.73908513321516064165531208767387... rounded)
const VARIANTS: [&str; 6] = ["f64", "cx", "vec", "vecj", "cvec", "cvecj"];

fn unif(rng: &mut StdRng, lo: f64, hi: f64) -> f64 { rng.gen_range(lo..=hi) }
fn pick_tol(rng: &mut StdRng) -> f64 { match rng.gen_range(0..10) { 0 => 1.0e-12, 1 => 1.0e-4, _ => (10.0f64).powf(-unif(rng, 4.0, 12.0)) } }
fn pick_delta(rng: &mut StdRng) -> f64 { match rng.gen_range(0..10) { 0 => 1.0e-7, 1 => 1.0e-6, 2 => (2.0f64).powi(-26), 3 => 1.0e-9, _ => 1.0e-8 } }
fn unit_dir(rng: &mut StdRng, cx: bool) -> Cmplx { if cx { let t = unif(rng, 0.0, std::f64::consts::TAU); c(t.cos(), t.sin()) } else { c(if rng.gen_bool(0.5) { 1.0 } else { -1.0 }, 0.0) } }

/// a scalar family with a simple root, the root, and a radius inside the provable quadratic-convergence basin
/// (radius rho <= m1 / (2 M2) with m1 = inf |f'|, M2 = sup |f''| on the disc; see c17.py for the derivations)
fn scalar_basin(rng: &mut StdRng, cx: bool) -> (Value, Cmplx, f64) {
    match rng.gen_range(0..5) {
        0 => { let w = c(unif(rng, -2.0, 2.0), if cx { unif(rng, -1.5, 1.5) } else { 0.0 });
               (json!({"fam": "exp", "k": jcvec(&[cexp(w)])}), w, 0.25) }       // rho e^{2 rho} <= 1/2
        1 => (json!({"fam": "cos"}), c(COS_ROOT, 0.0), if cx { 0.3 } else { 0.5 }),
        _ => {
            let deg = rng.gen_range(1..=5usize);
            // separated roots: distinct points of the integer grid in [-4,4] (x [-3,3]i), jittered by at most 0.2
            let mut roots: Vec<Cmplx> = vec![];
            while roots.len() < deg {
                let g = c(rng.gen_range(-4..=4) as f64, if cx { rng.gen_range(-3..=3) as f64 } else { 0.0 });
                if roots.iter().all(|r| (*r - g).abs() >= 0.9) { roots.push(g); }
            }
            let mut taken: Vec<Cmplx> = vec![];
            for g in roots.iter() { let z = *g + c(unif(rng, -0.2, 0.2), if cx { unif(rng, -0.2, 0.2) } else { 0.0 }); taken.push(z); }
            let roots = taken;
            let s = unit_dir(rng, cx) * unif(rng, 0.5, 2.0);
            let t = rng.gen_range(0..deg);
            let rho0: f64 = 0.25;
            let mut d1 = s.abs(); for k in 0..deg { if k != t { d1 *= (roots[t] - roots[k]).abs(); } }
            let mut m2 = 0.0; for i in 0..deg { for j in 0..deg { if i != j { let mut p = s.abs(); for k in 0..deg { if k != i && k != j { p *= (roots[t] - roots[k]).abs() + rho0; } } m2 += p; } } }
            let rho = if m2 > 0.0 { rho0.min(d1 / (3.0 * m2)) } else { rho0 };
            (json!({"fam": "poly", "s": jcvec(&[s]), "r": jcvec(&roots), "t": t}), roots[t], rho)
        }
    }
}

/// a diagonally dominant nonlinear system (gap >= 1.05 everywhere the iterates live), its root and a basin radius
fn system_basin(rng: &mut StdRng, cx: bool, n: usize) -> (Value, Vec<Cmplx>, f64) {
    let sin = !cx && rng.gen_bool(0.5);
    let (bmax, gsup, xmax, rmax): (f64, f64, f64, f64) = if sin { (1.0, 1.0, 2.0, 1.0) } else { (0.5, 3.0, 1.0, 0.5) };   // gsup = sup |g'| on the ball
    let rz = |rng: &mut StdRng, m: f64| -> Cmplx { if cx { unit_dir(rng, true) * unif(rng, 0.0, m) } else { c(unif(rng, -m, m), 0.0) } };
    let root: Vec<Cmplx> = (0..n).map(|_| rz(rng, xmax)).collect();
    let b: Vec<Cmplx> = (0..n * n).map(|_| if rng.gen_bool(0.2) { c(0.0, 0.0) } else { rz(rng, bmax) }).collect();
    let rows: Vec<f64> = (0..n).map(|i| (0..n).map(|j| b[i * n + j].abs()).sum()).collect();
    let a: Vec<Cmplx> = (0..n).map(|i| unit_dir(rng, cx) * (1.05 + gsup * rows[i] + unif(rng, 0.0, 3.0))).collect();
    let gap = (0..n).map(|i| a[i].abs() - gsup * rows[i]).fold(f64::INFINITY, f64::min);
    let lip = (if sin { 1.0 } else { 2.0 }) * rows.iter().cloned().fold(0.0, f64::max);
    let rad = 0.999 * if lip > 0.0 { rmax.min(gap / (2.0 * lip)) } else { rmax };
    let g = |z: Cmplx| if sin { csin(z) } else { z * z };
    let k: Vec<Cmplx> = (0..n).map(|i| { let mut s = a[i] * root[i]; for j in 0..n { s = s + b[i * n + j] * g(root[j]); } c(-s.real, -s.imag) }).collect();
    (json!({"fam": if sin { "sys_sin" } else { "sys_sq" }, "a": jcvec(&a), "b": jcvec(&b), "k": jcvec(&k)}), root, rad)
}

// ------------------------------------------------------------------ special values in roots and guesses
/// -1, 0, -0, 1, +-2^k: values at which a "scaled" step, a sign test or a relative quantity degenerates
const SPECIALS: [f64; 10] = [-1.0, 0.0, -0.0, 1.0, 0.5, -0.5, 2.0, -2.0, 0.25, -0.25];
fn poly_rho(s: Cmplx, roots: &[Cmplx], t: usize) -> f64 {
    let deg = roots.len(); let rho0: f64 = 0.25;
    let mut d1 = s.abs(); for k in 0..deg { if k != t { d1 *= (roots[t] - roots[k]).abs(); } }
    let mut m2 = 0.0; for i in 0..deg { for j in 0..deg { if i != j { let mut p = s.abs(); for k in 0..deg { if k != i && k != j { p *= (roots[t] - roots[k]).abs() + rho0; } } m2 += p; } } }
    if m2 > 0.0 { rho0.min(d1 / (3.0 * m2)) } else { rho0 }
}
/// scalar family (polynomial in product form, or e^z - k) whose root is `v + off` with |off| <= 0.9 rho when `near` (so that v itself is a
/// legal guess), or exactly `v` otherwise; returns (family, root, rho)
fn scalar_at(rng: &mut StdRng, cx: bool, v: Cmplx, near: bool) -> (Value, Cmplx, f64) {
    let dir = unit_dir(rng, cx);
    if rng.gen_bool(0.3) && v.abs() <= 2.0 {
        let w = if near { v + dir * unif(rng, 0.02, 0.2) } else { v };
        return (json!({"fam": "exp", "k": jcvec(&[cexp(w)])}), w, 0.25);
    }
    let deg = rng.gen_range(1..=4usize);
    let mut roots: Vec<Cmplx> = vec![v];
    // bounded search: the greedy placement can block the whole grid (e.g. 0, -3, 3), then the degree stays lower
    let mut tries = 0; while roots.len() < deg && tries < 200 { tries += 1; let g = c(rng.gen_range(-4..=4) as f64, if cx { rng.gen_range(-3..=3) as f64 } else { 0.0 }); if roots.iter().all(|r| (*r - g).abs() >= 1.2) { roots.push(g); } }
    let s = unit_dir(rng, cx) * unif(rng, 0.5, 2.0);
    if near { let mut off = 0.05; for _ in 0..8 { roots[0] = v + dir * off; let rho = poly_rho(s, &roots, 0); if off <= 0.9 * rho { break; } off = 0.5 * rho; } }
    let rho = poly_rho(s, &roots, 0);
    (json!({"fam": "poly", "s": jcvec(&[s]), "r": jcvec(&roots), "t": 0}), roots[0], rho)
}
/// move the root of a sys_sin / sys_sq family (the constant terms are recomputed; gap, Lipschitz constant and radius do not depend on the root
/// as long as |root_j| stays within the family's range)
fn retarget(k: &mut Value, n: usize, root: &[Cmplx]) {
    let sin = gets(k, "fam") == "sys_sin"; let a = cvec_from(&k["a"]); let b = cvec_from(&k["b"]);
    let g = |z: Cmplx| if sin { csin(z) } else { z * z };
    let kk: Vec<Cmplx> = (0..n).map(|i| { let mut s = a[i] * root[i]; for j in 0..n { s = s + b[i * n + j] * g(root[j]); } c(-s.real, -s.imag) }).collect();
    k["k"] = jcvec(&kk);
}
/// a basin case with special values: mode 0 root components special; 1 guess components special (root a little off); 2 guess = root exactly
/// (special); 3 all components equal (root and guess)
fn special_case(rng: &mut StdRng, v: &str, n: usize, mode: usize) -> Value {
    let cx = matches!(v, "cx" | "cvec" | "cvecj"); let sys = !matches!(v, "f64" | "cx");
    let sp = |rng: &mut StdRng, lim: f64| -> Cmplx { loop { let x = SPECIALS[rng.gen_range(0..SPECIALS.len())]; if x.abs() <= lim {
        return c(x, if cx && rng.gen_bool(0.5) { let y = SPECIALS[rng.gen_range(0..SPECIALS.len())]; if (x * x + y * y).sqrt() <= lim { y } else { 0.0 } } else { 0.0 }); } } };
    let (mut k, root, guess, rad);
    if sys {
        let (k0, _r0, rad0) = system_basin(rng, cx, n); k = k0; rad = rad0;
        let lim = if gets(&k, "fam") == "sys_sin" { 2.0 } else { 1.0 };
        let mut vals: Vec<Cmplx> = (0..n).map(|_| sp(rng, lim)).collect();
        if mode == 3 { let v0 = vals[0]; for x in vals.iter_mut() { *x = v0; } }
        // offsets point towards 0 (for |v| at the edge of the family's range) or anywhere (v = 0)
        let offs: Vec<Cmplx> = vals.iter().map(|z| { let d = if z.abs() > 0.0 { c(-z.real / z.abs(), -z.imag / z.abs()) } else { unit_dir(rng, cx) }; d * (rad * unif(rng, 0.2, 0.9)) }).collect();
        let off0 = offs[0];
        root = match mode { 1 => vals.iter().zip(offs.iter()).map(|(z, d)| *z + *d).collect(), _ => vals.clone() };
        guess = match mode { 0 => root.iter().map(|z| *z + unit_dir(rng, cx) * (rad * unif(rng, 0.0, 0.9))).collect::<Vec<_>>(),
                             1 => vals.clone(), 2 => root.clone(), _ => root.iter().map(|z| *z + off0).collect() };
        retarget(&mut k, n, &root);
    } else {
        let val = sp(rng, 4.0);
        let (k0, r0, rho) = scalar_at(rng, cx, val, mode == 1); k = k0; rad = rho; root = vec![r0];
        guess = match mode { 1 => vec![val], 2 => vec![r0], _ => vec![r0 + unit_dir(rng, cx) * (rho * unif(rng, 0.0, 0.9))] };
    }
    let limit = if rng.gen_bool(0.85) { rng.gen_range(NEED..=30) } else { rng.gen_range(1..NEED) };
    let tol = if rng.gen_bool(0.6) { (10.0f64).powf(-unif(rng, 9.0, 12.0)) } else { pick_tol(rng) };
    k["variant"] = json!(v); k["n"] = json!(n); k["tol"] = jhex(tol); k["delta"] = jhex(pick_delta(rng)); k["limit"] = json!(limit);
    k["guess"] = jcvec(&guess); k["root"] = jcvec(&root); k["basin"] = json!(true); k["rad"] = jhex(rad); k["special"] = json!(mode);
    k["expect"] = json!(if limit >= NEED { "ok" } else { "any" });
    k
}

// ------------------------------------------------------------------ generation of nested families
fn kind_cx(kind: &str) -> bool { matches!(kind, "cx" | "cvec" | "cvecj") }
/// one level; `child` = (level, gap, Lipschitz bound) of the level below.  Returns (level, gap, L): |a_i| - gs sum|b_ij| - |c_i|/gap' >= gap,
/// L bounds the Lipschitz constant of the Jacobian (gs = 1.3 >= sup |cos|, |sin| on the complex strip |Im| <= 0.6, 1 on the reals)
fn make_level(rng: &mut StdRng, kind: &str, n: usize, child: Option<(Value, f64, f64)>, gap_target: f64, fixed_child: bool) -> (Value, f64, f64) {
    let cx = kind_cx(kind); let gs = if cx { 1.3 } else { 1.0 };
    let rz = |rng: &mut StdRng, m: f64| -> Cmplx { if cx { unit_dir(rng, true) * unif(rng, 0.0, m) } else { c(unif(rng, -m, m), 0.0) } };
    let b: Vec<Cmplx> = (0..n * n).map(|_| if rng.gen_bool(0.2) { c(0.0, 0.0) } else { rz(rng, 0.5 / n as f64) }).collect();
    let rows: Vec<f64> = (0..n).map(|i| gs * (0..n).map(|j| b[i * n + j].abs()).sum::<f64>()).collect();
    let (cc, cterm, lpsi): (Vec<Cmplx>, Vec<f64>, f64) = match &child {
        Some((_, g, l)) => { let cc: Vec<Cmplx> = (0..n).map(|_| unit_dir(rng, cx) * unif(rng, 0.3, 1.0)).collect(); let ct = cc.iter().map(|z| z.abs() / g).collect(); (cc, ct, l / (g * g * g)) }
        None => (vec![c(0.0, 0.0); n], vec![0.0; n], 0.0) };
    let a: Vec<Cmplx> = (0..n).map(|i| unit_dir(rng, cx) * (gap_target + rows[i] + cterm[i] + unif(rng, 0.0, 1.0))).collect();
    let gap = (0..n).map(|i| a[i].abs() - rows[i] - cterm[i]).fold(f64::INFINITY, f64::min);
    let lip = rows.iter().cloned().fold(0.0, f64::max) + cc.iter().map(|z| z.abs()).fold(0.0, f64::max) * lpsi;
    let star: Vec<Cmplx> = (0..n).map(|_| c(unif(rng, -1.5, 1.5), if cx { unif(rng, -0.3, 0.3) } else { 0.0 })).collect();
    let mut v = json!({"n": n, "kind": kind, "a": jcvec(&a), "b": jcvec(&b), "c": jcvec(&cc), "star": jcvec(&star), "fixed": fixed_child});
    if let Some((ch, _, _)) = child { v["child"] = ch; }
    (v, gap, lip)
}
/// a nested case: outer variant `outer` (finite-difference system or scalar solver) of size n whose function solves a `ckind` system of
/// size cn per evaluation; `gkind`: a further level below that (the child's function itself calls a solver)
fn nested_case(rng: &mut StdRng, outer: &str, n: usize, ckind: &str, cn: usize, gkind: Option<(&str, usize)>, thr: bool) -> Value {
    let ocx = kind_cx(outer);
    let grand = gkind.map(|(k, m)| make_level(rng, k, m, None, 2.0, false));
    // a real solve below a complex function cannot take the complex argument: its right-hand side is fixed
    let gfixed = gkind.map(|(k, _)| !kind_cx(k) && kind_cx(ckind)).unwrap_or(false);
    let child = make_level(rng, ckind, cn, grand, 2.0, gfixed);
    let cfixed = !kind_cx(ckind) && ocx;
    let gt = 1.05 + unif(rng, 0.0, 1.0);
    let (lv, gap, lip) = make_level(rng, outer, n, Some(child), gt, cfixed);
    let rad = 0.999 * (if ocx { 0.3f64 } else { 1.0 }).min(if lip > 0.0 { gap / (2.0 * lip) } else { 1.0 });
    let root = cvec_from(&lv["star"]);
    let u = if rng.gen_bool(0.15) { 0.999 } else { unif(rng, 0.0, 0.999) };
    let guess: Vec<Cmplx> = root.iter().map(|z| *z + unit_dir(rng, ocx) * (u * rad * unif(rng, 0.3, 1.0))).collect();
    let limit = if rng.gen_bool(0.85) { rng.gen_range(NEED..=30) } else { rng.gen_range(1..NEED) };
    json!({"fam": "nest", "nest": lv, "variant": outer, "n": n, "tol": jhex(pick_tol(rng).max(1.0e-11)), "delta": jhex(pick_delta(rng)), "limit": limit, "thr": thr,
           "guess": jcvec(&guess), "root": jcvec(&root), "basin": true, "rad": jhex(rad), "expect": if limit >= NEED { "ok" } else { "any" },
           "shape": format!("{}{} <- {}{}{}", outer, n, ckind, cn, gkind.map(|(k, m)| format!(" <- {}{}", k, m)).unwrap_or_default())})
}

/// Systems whose Jacobians have exact structural zeros in a prescribed arrangement (the dense Gaussian elimination
/// behind the system variants must eliminate PAST a zero multiplier / search pivots PAST a zero entry), with coupling
/// close to the dominance limit: per row sup|g'| * sum_j |b_ij| = rho * |a_i|, rho in {0.95, 0.9, 0.8}, scaled so that the
/// dominance gap is still >= 1.05 on the ball.  Same function forms as system_basin (sys_sin / sys_sq), same basin theorem.
///   cycf / cycb   row i couples to i+1 / i-1 (mod n)          lower / upper   row i couples to (some) j < i / j > i
///   arrow         row 0 couples to all, row i > 0 to 0         block           2-blocks, dense inside, chained to the next block
///   sparse        1-2 random off-diagonals per row
fn rand_perm(rng: &mut StdRng, n: usize) -> Vec<usize> { let mut p: Vec<usize> = (0..n).collect(); for i in (1..n).rev() { p.swap(i, rng.gen_range(0..=i)); } if n >= 2 && p.iter().enumerate().all(|(i, x)| i == *x) { p.swap(0, n - 1); } p }
const PATTERNS: [&str; 7] = ["cycf", "cycb", "lower", "upper", "arrow", "block", "sparse"];
fn pattern(rng: &mut StdRng, pat: &str, n: usize, i: usize) -> Vec<usize> {
    let mut s: Vec<usize> = match pat {
        "cycf" => vec![(i + 1) % n],
        "cycb" => vec![(i + n - 1) % n],
        "lower" => (0..i).filter(|_| rng.gen_bool(0.7)).collect(),
        "upper" => (i + 1..n).filter(|_| rng.gen_bool(0.7)).collect(),
        "arrow" => if i == 0 { (1..n).collect() } else { vec![0] },
        "block" => { let b0 = i - i % 2; let mut v: Vec<usize> = (b0..(b0 + 2).min(n)).filter(|j| *j != i).collect(); if i % 2 == 0 && b0 + 2 < n { v.push(b0 + 2); } if i % 2 == 1 && b0 >= 2 && rng.gen_bool(0.5) { v.push(b0 - 1); } v }
        _ => { let k = rng.gen_range(1..=2usize); let mut v = vec![]; while v.len() < k { let j = rng.gen_range(0..n); if j != i && !v.contains(&j) { v.push(j); } } v }
    };
    if matches!(pat, "lower") && i > 0 && s.is_empty() { s.push(rng.gen_range(0..i)); }
    if matches!(pat, "upper") && i + 1 < n && s.is_empty() { s.push(rng.gen_range(i + 1..n)); }
    s
}
fn system_structured(rng: &mut StdRng, cx: bool, n: usize, pat: &str) -> (Value, Vec<Cmplx>, f64) {
    let sin = !cx && rng.gen_bool(0.5);
    // sine: |g'| <= 1 everywhere, roots near 0 (cos >= 0.95); squares: roots of modulus 0.9..1, ball radius <= 0.04, |g'| = 2|z| <= 2.1
    let (gsup, rmax): (f64, f64) = if sin { (1.0, 1.0) } else { (2.1, 0.04) };
    let root: Vec<Cmplx> = (0..n).map(|_| if sin { c(unif(rng, -0.3, 0.3), 0.0) } else { unit_dir(rng, cx) * unif(rng, 0.9, 1.0) }).collect();
    let rho = match rng.gen_range(0..10) { 0 | 1 => 0.8, 2 | 3 => 0.9, _ => 0.95 };
    let mut b = vec![c(0.0, 0.0); n * n]; let mut a = vec![c(0.0, 0.0); n];
    for i in 0..n {
        let s = pattern(rng, pat, n, i);
        if s.is_empty() { a[i] = unit_dir(rng, cx) * unif(rng, 1.05, 4.0); continue; }
        let total = 1.06 * rho / (1.0 - rho) * unif(rng, 1.0, 1.3) / gsup;           // sum_j |b_ij|
        let w: Vec<f64> = s.iter().map(|_| unif(rng, 0.5, 1.0)).collect(); let ws: f64 = w.iter().sum();
        for (q, j) in s.iter().enumerate() { b[i * n + *j] = unit_dir(rng, cx) * (total * w[q] / ws); }
        a[i] = unit_dir(rng, cx) * (gsup * total / rho);
    }
    let rows: Vec<f64> = (0..n).map(|i| (0..n).map(|j| b[i * n + j].abs()).sum()).collect();
    let gap = (0..n).map(|i| a[i].abs() - gsup * rows[i]).fold(f64::INFINITY, f64::min);
    let lip = (if sin { 1.0 } else { 2.0 }) * rows.iter().cloned().fold(0.0, f64::max);
    let rad = 0.999 * if lip > 0.0 { rmax.min(gap / (2.0 * lip)) } else { rmax };
    let g = |z: Cmplx| if sin { csin(z) } else { z * z };
    let k: Vec<Cmplx> = (0..n).map(|i| { let mut s = a[i] * root[i]; for j in 0..n { s = s + b[i * n + j] * g(root[j]); } c(-s.real, -s.imag) }).collect();
    (json!({"fam": if sin { "sys_sin" } else { "sys_sq" }, "pat": pat, "rho": jhex(rho), "gap": jhex(gap), "a": jcvec(&a), "b": jcvec(&b), "k": jcvec(&k)}), root, rad)
}

pub fn gen(tier: &str, seed: u64, out: &mut Out) {
    let quick = tier == "quick";
    let mut rng = rng(seed, 17);
    let mut cid = 0i64;
    let mut push = |out: &mut Out, mut k: Value| { cid += 1; k["cid"] = json!(cid); k["suite"] = json!("newton"); out.raw(&k); };
    // (a) convergence half: families with analytically known simple roots, guesses throughout the provable basin,
    //     tol 1e-12..1e-4, limits 0..50; success is REQUIRED from limit NEED on, and whenever success is reported
    //     the point must be within one unit of the root
    let reps = if quick { 36 } else { 400 };
    for v in VARIANTS { for rep in 0..reps {
        let cx = matches!(v, "cx" | "cvec" | "cvecj"); let sys = !matches!(v, "f64" | "cx");
        let n = if sys { 1 + (rep % 6) } else { 1 };
        let (mut k, root, rad) = if sys { system_basin(&mut rng, cx, n) } else { let (k, r, rho) = scalar_basin(&mut rng, cx); (k, vec![r], rho) };
        // guess: anywhere in the ball (sup norm for systems), the boundary included now and then
        let u = if rng.gen_bool(0.15) { 0.999 } else { unif(&mut rng, 0.0, 0.999) };
        let guess: Vec<Cmplx> = root.iter().map(|z| { let d = unit_dir(&mut rng, cx) * (u * rad * if sys { unif(&mut rng, 0.0, 1.0) } else { 1.0 }); *z + d }).collect();
        let limit = match rng.gen_range(0..10) { 0 => 0, 1 => 1, 2 | 3 | 4 => rng.gen_range(NEED..=50), _ => rng.gen_range(2..NEED) };
        k["variant"] = json!(v); k["n"] = json!(n); k["tol"] = jhex(pick_tol(&mut rng)); k["delta"] = jhex(pick_delta(&mut rng)); k["limit"] = json!(limit);
        k["guess"] = jcvec(&guess); k["root"] = jcvec(&root); k["basin"] = json!(true); k["rad"] = jhex(rad);
        k["expect"] = json!(if limit >= NEED { "ok" } else { "any" });
        if sys && n >= 2 && rng.gen_bool(0.25) { k["perm"] = json!(rand_perm(&mut rng, n)); }
        push(out, k);
    } }
    // (a6) nested / re-entrant use: the user function solves a Newton problem per evaluation (inner size equal / smaller / larger,
    //      scalar in system, system in scalar, complex in real, real in complex, user-Jacobian inner, two levels deep); half of the cases
    //      run the inner solves of call 2 on a second thread while the first is mid-solve
    for rep in 0..(if quick { 1 } else { 6 }) {
        let mut list: Vec<(&str, usize, &str, usize, Option<(&str, usize)>)> = vec![];
        for (o, k) in [("vec", "vec"), ("cvec", "cvec")] { for n in 1..=3usize { for cn in 1..=3usize { list.push((o, n, k, cn, None)); } } }
        list.extend([("vec", 2, "f64", 1, None), ("vec", 3, "cx", 1, None), ("cvec", 2, "cx", 1, None), ("cvec", 2, "f64", 1, None),
                     ("f64", 1, "vec", 2, None), ("f64", 1, "vec", 1, None), ("f64", 1, "cvec", 2, None), ("f64", 1, "f64", 1, None), ("cx", 1, "cvec", 3, None), ("cx", 1, "vec", 2, None), ("cx", 1, "cx", 1, None),
                     ("vec", 2, "cvec", 2, None), ("vec", 3, "cvec", 2, None), ("cvec", 2, "vec", 2, None), ("cvec", 3, "vec", 1, None),
                     ("vec", 2, "vecj", 2, None), ("vec", 2, "vecj", 3, None), ("cvec", 2, "cvecj", 2, None),
                     ("vec", 2, "vec", 2, Some(("vec", 2))), ("vec", 2, "vec", 3, Some(("vec", 1))), ("vec", 2, "vecj", 2, Some(("vec", 2))), ("vec", 2, "cvec", 2, Some(("vec", 2))),
                     ("cvec", 2, "cvec", 2, Some(("cvec", 2))), ("cvec", 2, "cvec", 1, Some(("vec", 2))), ("f64", 1, "vec", 2, Some(("vec", 2))), ("vec", 3, "f64", 1, Some(("vec", 3)))]);
        for (q, (o, n, k, cn, g)) in list.into_iter().enumerate() { let k = nested_case(&mut rng, o, n, k, cn, g, (q + rep) % 2 == 1); push(out, k); }
    }
    // (a7) SAME-OBJECT re-entrancy: the user function of a solve calls solve on the very object that is solving (reent 1: inner problem converging
    //      at once; 2: inner root-free problem using the whole budget; 3: a second object whose function calls back into the first), every variant;
    //      in-basin outer problems must succeed, root-free outer problems must stop within the budget (the evaluation watchdog turns a hang into a panic)
    for rep in 0..(if quick { 2 } else { 10 }) { for v in VARIANTS { for re in 1..=3i64 { for outer in ["basin", "rootfree"] {
        let cx = matches!(v, "cx" | "cvec" | "cvecj"); let sys = !matches!(v, "f64" | "cx");
        let n = if sys { 1 + (rep + re as usize) % 3 } else { 1 };
        let mut k;
        if outer == "basin" {
            let (k0, root, rad) = if sys { system_basin(&mut rng, cx, n) } else { let (k, r, rho) = scalar_basin(&mut rng, cx); (k, vec![r], rho) };
            k = k0;
            let guess: Vec<Cmplx> = root.iter().map(|z| *z + unit_dir(&mut rng, cx) * (unif(&mut rng, 0.0, 0.999) * rad * if sys { unif(&mut rng, 0.0, 1.0) } else { 1.0 })).collect();
            let limit = if rng.gen_bool(0.85) { rng.gen_range(NEED..=24) } else { rng.gen_range(1..NEED) };
            k["guess"] = jcvec(&guess); k["root"] = jcvec(&root); k["basin"] = json!(true); k["limit"] = json!(limit); k["expect"] = json!(if limit >= NEED { "ok" } else { "any" });
            k["tol"] = jhex(pick_tol(&mut rng).max(1.0e-11));
        } else {
            let im = |rng: &mut StdRng, m: f64| if cx { unif(rng, -m, m) } else { 0.0 };
            let guess: Vec<Cmplx> = (0..n).map(|_| if cx && !sys { c(unif(&mut rng, -1.0, 1.0), unif(&mut rng, -1.0, 1.0)) } else { c(unif(&mut rng, 0.3, 3.0) * if rng.gen_bool(0.5) { 1.0 } else { -1.0 }, im(&mut rng, 2.0)) }).collect();
            k = json!({"fam": "rootfree", "guess": jcvec(&guess), "basin": false, "limit": rng.gen_range(2..=20), "expect": "err", "tol": jhex(pick_tol(&mut rng))});
        }
        k["variant"] = json!(v); k["n"] = json!(n); k["delta"] = jhex(pick_delta(&mut rng)); k["reent"] = json!(re);
        push(out, k);
    } } } }
    // (a5) special values: roots and / or guesses with components exactly -1, 0, -0, 1, +-2^k, all equal, guess = root; every variant
    for _ in 0..(if quick { 3 } else { 30 }) { for v in VARIANTS { for mode in 0..4usize {
        let sys = !matches!(v, "f64" | "cx");
        if !sys && mode == 3 { continue; }
        let n = if sys { rng.gen_range(1..=4usize) } else { 1 };
        let k = special_case(&mut rng, v, n, mode);
        push(out, k);
    } } }
    // (a2) systems with structural zeros in the Jacobian, every arrangement x n = 3..6 x the four system variants,
    //      coupling near the dominance limit; mostly with limits from NEED on, where success is required
    let reps = if quick { 2 } else { 8 };
    for _ in 0..reps { for v in ["vec", "vecj", "cvec", "cvecj"] { for pat in PATTERNS { for n in 3..=6usize {
        let cx = matches!(v, "cvec" | "cvecj");
        let (mut k, root, rad) = system_structured(&mut rng, cx, n, pat);
        let u = if rng.gen_bool(0.15) { 0.999 } else { unif(&mut rng, 0.0, 0.999) };
        let guess: Vec<Cmplx> = root.iter().map(|z| *z + unit_dir(&mut rng, cx) * (u * rad * unif(&mut rng, 0.0, 1.0))).collect();
        let limit = if rng.gen_bool(0.75) { rng.gen_range(NEED..=30) } else { rng.gen_range(2..NEED) };
        k["variant"] = json!(v); k["n"] = json!(n); k["tol"] = jhex(pick_tol(&mut rng)); k["delta"] = jhex(pick_delta(&mut rng)); k["limit"] = json!(limit);
        k["guess"] = jcvec(&guess); k["root"] = jcvec(&root); k["basin"] = json!(true); k["rad"] = jhex(rad);
        k["expect"] = json!(if limit >= NEED { "ok" } else { "any" });
        if rng.gen_bool(0.5) { k["perm"] = json!(rand_perm(&mut rng, n)); }
        push(out, k);
    } } } }
    // (a3) ladders: never-converging functions, limits 1, 0, 2, 3, 5, 8, 13, 20, 50 on one object, all six variants:
    //      exactly m steps under limit m (closure calls = m x those under limit 1)
    let dims: &[usize] = if quick { &[1, 3] } else { &[1, 2, 3, 4, 5, 6] };
    for rep in 0..(if quick { 1 } else { 3 }) { for v in VARIANTS { for fam in ["rootfree", "slow", "const", "nondiff"] {
        let cx = matches!(v, "cx" | "cvec" | "cvecj"); let sys = !matches!(v, "f64" | "cx");
        for n in (if sys { dims } else { &[1usize][..] }) {
            let n = *n;
            let im = |rng: &mut StdRng, m: f64| if cx { unif(rng, -m, m) } else { 0.0 };
            let guess: Vec<Cmplx> = (0..n).map(|_| match fam {
                "nondiff" => c(unif(&mut rng, 0.5, 2.0) * if rng.gen_bool(0.5) { 1.0 } else { -1.0 }, 0.0),
                "rootfree" if cx && !sys => c(unif(&mut rng, -1.0, 1.0), unif(&mut rng, -1.0, 1.0)),
                "rootfree" => c(unif(&mut rng, 0.3, 3.0) * if rng.gen_bool(0.5) { 1.0 } else { -1.0 }, im(&mut rng, 2.0)),
                "slow" => c(unif(&mut rng, 0.5, 2.0) * if rng.gen_bool(0.5) { 1.0 } else { -1.0 }, im(&mut rng, 1.0)),
                _ => c(unif(&mut rng, -3.0, 3.0), im(&mut rng, 3.0)),
            }).collect();
            let tol = if fam == "slow" { 1.0e-300 } else { pick_tol(&mut rng) };
            let mut k = json!({"kind": "ladder", "fam": fam, "variant": v, "n": n, "tol": jhex(tol), "delta": jhex(pick_delta(&mut rng)), "limit": 1,
                               "guess": jcvec(&guess), "basin": false, "expect": "err"});
            if fam == "const" { k["k"] = jcvec(&(0..n).map(|_| unit_dir(&mut rng, cx) * unif(&mut rng, 0.5, 2.0)).collect::<Vec<_>>()); }
            push(out, k);
        }
    } } }
    // (a4) reconfiguration sequences: solve, then every ordered arrangement of every non-empty subset of the four setters
    //      (64), plus "set to the value it already has", guess(root), iterations(0); solve again; compare with a fresh object
    let names = ["tol", "delta", "limit", "guess"];
    let mut arrs: Vec<Vec<(usize, bool)>> = vec![];          // (setter, same-value?)
    for mask in 1..16u32 { let items: Vec<usize> = (0..4).filter(|i| mask >> i & 1 == 1).collect();
        let mut perms: Vec<Vec<usize>> = vec![vec![]];
        for _ in 0..items.len() { perms = perms.into_iter().flat_map(|p| items.iter().filter(|i| !p.contains(i)).map(|i| { let mut q = p.clone(); q.push(*i); q }).collect::<Vec<_>>()).collect(); }
        for p in perms { arrs.push(p.into_iter().map(|i| (i, false)).collect()); } }
    for i in 0..4 { arrs.push(vec![(i, true)]); }
    arrs.push(vec![(3, true), (1, true), (0, true), (2, true)]);
    arrs.push(vec![(0, true), (3, false)]); arrs.push(vec![(2, false), (1, true)]);
    let vsets: Vec<Vec<&str>> = if quick { (0..arrs.len()).map(|i| vec![VARIANTS[i % 6], VARIANTS[(i / 6 + i + 3) % 6]]).collect() } else { (0..arrs.len()).map(|_| VARIANTS.to_vec()).collect() };
    for (ai, arr) in arrs.iter().enumerate() { for v in vsets[ai].iter() {
        let v = *v;
        let cx = matches!(v, "cx" | "cvec" | "cvecj"); let sys = !matches!(v, "f64" | "cx");
        let n = if sys { 1 + (ai % 4) } else { 1 };
        // every third case: the double root z^2 (linear convergence: the step count depends strongly on the tolerance, so a stale
        // tolerance cannot hide behind a quadratic jump); the others: basin families with known roots
        let slow = ai % 3 == 1;
        let (mut k, root, rad) = if slow { (json!({"fam": "slow"}), vec![c(0.0, 0.0); n], 0.0) }
                                 else if sys { system_basin(&mut rng, cx, n) } else { let (k, r, rho) = scalar_basin(&mut rng, cx); (k, vec![r], rho) };
        let mut pt = |rng: &mut StdRng| -> Vec<Cmplx> {
            if slow { return (0..n).map(|_| unit_dir(rng, cx) * unif(rng, 0.5, 2.0)).collect(); }
            root.iter().map(|z| *z + unit_dir(rng, cx) * (unif(rng, 0.0, 0.999) * rad * if sys { unif(rng, 0.0, 1.0) } else { 1.0 })).collect() };
        let ptol = |rng: &mut StdRng| if slow { (10.0f64).powf(-unif(rng, 3.0, 6.0)) } else { pick_tol(rng) };
        let (tol1, delta1, guess1) = (ptol(&mut rng), pick_delta(&mut rng), pt(&mut rng));
        let limit1 = if rng.gen_bool(0.5) { rng.gen_range(NEED..=20) } else { rng.gen_range(0..6) };
        let (mut limit2, mut guess2) = (limit1, guess1.clone());
        let mut ops: Vec<Value> = vec![]; let mut at_root = false;
        for (i, same) in arr.iter() {
            let val = match (*i, *same) {
                (0, true) => jhex(tol1), (1, true) => jhex(delta1), (2, true) => json!(limit1), (3, true) => jcvec(&guess1),
                (0, _) => { let mut x = ptol(&mut rng); if x / tol1 < 30.0 && tol1 / x < 30.0 { x = if tol1 > 3.0e-8 { tol1 / 1000.0 } else { tol1 * 1000.0 }; } jhex(x) }
                (1, _) => jhex(if delta1 == 1.0e-8 { 1.0e-7 } else { 1.0e-8 }),
                (2, _) => { let mut m = match rng.gen_range(0..6) { 0 => 0, 1 => 1, 2 => rng.gen_range(2..NEED), _ => rng.gen_range(NEED..=25) }; if m == limit1 { m += 1; } limit2 = m; json!(m) }
                _ => { at_root = rng.gen_bool(0.3); guess2 = if at_root { root.clone() } else { pt(&mut rng) }; jcvec(&guess2) }
            };
            ops.push(json!({"set": names[*i], "v": val, "same": same}));
        }
        k["kind"] = json!("seq"); k["variant"] = json!(v); k["n"] = json!(n); k["tol"] = jhex(tol1); k["delta"] = jhex(delta1); k["limit"] = json!(limit1);
        k["guess"] = jcvec(&guess1); k["root"] = jcvec(&root); k["basin"] = json!(!slow); k["ops"] = Value::from(ops);
        k["expect"] = json!(if limit1 == 0 { "err" } else if slow { "any" } else if limit1 >= NEED { "ok" } else { "any" });
        k["expect2"] = json!(if limit2 == 0 { "err" } else if slow { "any" } else if limit2 >= NEED || at_root { "ok" } else { "any" });
        push(out, k);
    } }
    // (b2) an undefined equation while the others have converged: dimension 2..5, every position p, every system variant; NaN always / from
    //      the second step on; the other components of the guess at their roots (residual exactly 0) or one linear step away.  Must fail.
    let dims: &[usize] = if quick { &[2, 3, 5] } else { &[2, 3, 4, 5] };
    for rep in 0..(if quick { 1 } else { 4 }) { for v in ["vec", "vecj", "cvec", "cvecj"] { for n in dims { for p in 0..*n {
        let n = *n; let cx = matches!(v, "cvec" | "cvecj");
        let pm = (p + n + rep) % 3; let tt = unif(&mut rng, -1.0, 1.0);
        let root: Vec<Cmplx> = (0..n).map(|_| c(unif(&mut rng, -2.0, 2.0), if cx { unif(&mut rng, -1.0, 1.0) } else { 0.0 })).collect();
        let at_root = rng.gen_bool(0.5);
        let guess: Vec<Cmplx> = (0..n).map(|i| if i == p { c(match pm { 1 => tt + unif(&mut rng, 0.5, 2.0), 2 => unif(&mut rng, -0.9, 0.9), _ => unif(&mut rng, -2.0, 2.0) }, 0.0) }
                                             else if at_root { root[i] } else { root[i] + unit_dir(&mut rng, cx) * unif(&mut rng, 0.1, 1.0) }).collect();
        let a: Vec<Cmplx> = (0..n).map(|_| unit_dir(&mut rng, cx) * unif(&mut rng, 1.0, 3.0)).collect();
        let limit = if rng.gen_bool(0.2) { 1 } else { rng.gen_range(2..=8) };
        push(out, json!({"fam": "nanrow", "variant": v, "n": n, "p": p, "pm": pm, "t": jhex(tt), "a": jcvec(&a), "r": jcvec(&root), "tol": jhex(pick_tol(&mut rng).max(1.0e-10)),
                         "delta": jhex(pick_delta(&mut rng)), "limit": limit, "guess": jcvec(&guess), "basin": false, "expect": "err"}));
    } } } }
    // (b) termination / failure half: root-free, non-differentiable, NaN-producing, constant functions (failure is
    //     provable: the stopping criterion can never be met), plus a double root and a divergent iteration (protocol only)
    let reps = if quick { 24 } else { 240 };
    for v in VARIANTS { for rep in 0..reps {
        let cx = matches!(v, "cx" | "cvec" | "cvecj"); let sys = !matches!(v, "f64" | "cx");
        let n = if sys { 1 + (rep % 6) } else { 1 };
        let fams: &[&str] = if sys { &["rootfree", "nondiff", "nan", "const"] } else { &["rootfree", "nondiff", "nan", "const", "dbl", "atan"] };
        let fam = fams[(rep / 2) % fams.len()];
        let im = |rng: &mut StdRng, m: f64| if cx { unif(rng, -m, m) } else { 0.0 };
        let guess: Vec<Cmplx> = (0..n).map(|_| match fam {
            "nondiff" => c(unif(&mut rng, 0.5, 2.0) * if rng.gen_bool(0.5) { 1.0 } else { -1.0 }, 0.0),
            "rootfree" if cx && !sys => c(unif(&mut rng, -1.0, 1.0), unif(&mut rng, -1.0, 1.0)),
            "rootfree" => c(unif(&mut rng, 0.3, 3.0) * if rng.gen_bool(0.5) { 1.0 } else { -1.0 }, im(&mut rng, 2.0)),
            "atan" => c(unif(&mut rng, 1.5, 3.0), 0.0),
            _ => c(unif(&mut rng, -3.0, 3.0), im(&mut rng, 3.0)),
        }).collect();
        let hi = if sys && n >= 4 { 20 } else { 50 };
        let limit = match rng.gen_range(0..10) { 0 => 0, 1 => 1, 2 | 3 => rng.gen_range(9..=hi), _ => rng.gen_range(2..=8) };
        let mut k = json!({"fam": fam, "variant": v, "n": n, "tol": jhex(pick_tol(&mut rng)), "delta": jhex(pick_delta(&mut rng)), "limit": limit,
                           "guess": jcvec(&guess), "basin": false, "expect": if matches!(fam, "dbl" | "atan") { "any" } else { "err" }});
        if fam == "const" { k["k"] = jcvec(&(0..n).map(|_| unit_dir(&mut rng, cx) * unif(&mut rng, 0.5, 2.0)).collect::<Vec<_>>()); }
        if fam == "dbl" { k["r"] = jcvec(&[c(unif(&mut rng, -2.0, 2.0), im(&mut rng, 1.0))]); }
        push(out, k);
    } }
}
