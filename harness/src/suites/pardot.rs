//! Suite "pardot": Vector<f64>::dot_f64 (scoped worker threads) against the sequential dot product and the exact
//! integer value, for a chosen number of workers (C16).  The worker count of dot_f64 is num_cpus::get(), which
//! follows the CPU affinity mask of the calling thread: every case narrows the mask in-process with
//! sched_setaffinity to `want` CPUs, observes num_cpus::get(), runs, and restores the original mask.
use crate::dd::DD;
use crate::util::*;
use ohsl::Vector;
use rand::Rng;
use serde_json::{json, Value};
use std::sync::atomic::{AtomicBool, Ordering};
use std::sync::Arc;

fn get_affinity() -> Vec<usize> {
    unsafe {
        let mut set: libc::cpu_set_t = std::mem::zeroed();
        if libc::sched_getaffinity(0, std::mem::size_of::<libc::cpu_set_t>(), &mut set) != 0 { return vec![0]; }
        (0..libc::CPU_SETSIZE as usize).filter(|c| libc::CPU_ISSET(*c, &set)).collect()
    }
}
fn set_affinity(cpus: &[usize]) -> bool {
    unsafe {
        let mut set: libc::cpu_set_t = std::mem::zeroed();
        libc::CPU_ZERO(&mut set);
        for c in cpus { libc::CPU_SET(*c, &mut set); }
        libc::sched_setaffinity(0, std::mem::size_of::<libc::cpu_set_t>(), &set) == 0
    }
}
/// restores the mask even if something below unwinds
struct Restore(Vec<usize>);
impl Drop for Restore { fn drop(&mut self) { set_affinity(&self.0); } }

/// busy-loop threads competing for the same (narrowed) CPUs while the product runs
struct Load { stop: Arc<AtomicBool>, hs: Vec<std::thread::JoinHandle<u64>> }
impl Load {
    fn start(n: usize) -> Load {
        let stop = Arc::new(AtomicBool::new(false));
        let hs = (0..n).map(|i| { let s = stop.clone(); std::thread::spawn(move || { let mut a = i as u64 + 1; while !s.load(Ordering::Relaxed) { for _ in 0..1000 { a = a.wrapping_mul(6364136223846793005).wrapping_add(1442695040888963407); } std::hint::black_box(a); } a }) }).collect();
        Load { stop, hs }
    }
    fn finish(self) { self.stop.store(true, Ordering::Relaxed); for h in self.hs { let _ = h.join(); } }
}

fn f2i(x: f64) -> i64 { if x.is_finite() && x == x.trunc() && x.abs() < SAT as f64 { x as i64 } else { BAD } }

struct Runs { panic: bool, r: [f64; 3], d: f64 }
fn runs(x: &Vector<f64>, y: &Vector<f64>) -> Runs { runs_n(x, y, 3) }
fn runs_n(x: &Vector<f64>, y: &Vector<f64>, reps: usize) -> Runs {
    let mut o = Runs { panic: false, r: [f64::NAN; 3], d: f64::NAN };
    for k in 0..reps { match guarded(|| x.dot_f64(y)) { Ok(v) => o.r[k] = v, Err(_) => o.panic = true } }
    match guarded(|| x.dot(y)) { Ok(v) => o.d = v, Err(_) => o.panic = true }
    o
}

pub fn exec(case: &Value, out: &mut Out) {
    if gets(case, "data") == "scarce" { return exec_scarce(case, out); }
    if gets(case, "data") == "over" { return exec_over(case, out); }
    if gets(case, "data") == "zero" { return exec_zero(case, out); }
    let cid = geti(case, "cid");
    let len = getu(case, "len"); let want = getu(case, "want").max(1);
    let mode = gets(case, "mode"); let float = gets(case, "data") == "float";
    let mut rng = rng(geti(case, "seed") as u64, 16);
    // CPUs usable by this process: the affinity mask, further limited by a cgroup quota if there is one (num_cpus accounts for both)
    let orig = get_affinity(); let avail = orig.len().min(num_cpus::get()).max(1);
    let _restore = Restore(orig.clone());
    // data: integer-valued with all products non-zero and exact partial sums, or general floats
    let (xi, yi): (Vec<i64>, Vec<i64>) = if float { (vec![], vec![]) } else {
        ((0..len).map(|_| rng.gen_range(1..=9) * if rng.gen_bool(0.5) { 1 } else { -1 }).collect(), (0..len).map(|_| rng.gen_range(1..=9) * if rng.gen_bool(0.5) { 1 } else { -1 }).collect()) };
    let (xf, yf): (Vec<f64>, Vec<f64>) = if float {
        let mut g = |_: usize| -> f64 { let m: f64 = rng.gen_range(0.5..1.0); let e: i32 = rng.gen_range(-8..=8); m * (2.0f64).powi(e) * if rng.gen_bool(0.5) { 1.0 } else { -1.0 } };
        ((0..len).map(&mut g).collect(), (0..len).map(&mut g).collect()) } else { (xi.iter().map(|a| *a as f64).collect(), yi.iter().map(|a| *a as f64).collect()) };
    let x = Vector::<f64>::create(xf.clone()); let y = Vector::<f64>::create(yf.clone());
    let exact: i128 = xi.iter().zip(&yi).map(|(a, b)| (*a as i128) * (*b as i128)).sum();
    // reference and unit for general data: reassociation changes the sum by at most ~ n * eps * sum |x_i y_i|
    let (dref, sabs) = { let mut s = DD::ZERO; let mut a = DD::ZERO; for k in 0..len { s = s.add(DD::prod(xf[k], yf[k])); a = a.add(DD::prod(xf[k], yf[k]).abs()); } (s.to_f64(), a.to_f64()) };
    // (OHSL_CAL_SCALE=s divides the unit by s: calibration aid, never set by bin/check)
    let cal = std::env::var("OHSL_CAL_SCALE").ok().and_then(|v| v.parse::<f64>().ok()).filter(|v| *v >= 1.0).unwrap_or(1.0);
    let unit = (len.max(1) as f64) * f64::EPSILON * sabs.max(f64::MIN_POSITIVE) / cal;

    let emit = |out: &mut Out, phase: &str, want: usize, nt: usize, r: &Runs, prev: Option<f64>| {
        let mut e = json!({"op": if float { "pardot_f" } else { "pardot" }, "cid": cid, "mode": mode, "phase": phase, "len": len, "nt": nt, "want": want, "avail": avail,
                           "panic": r.panic, "r1": bits(r.r[0]), "r2": bits(r.r[1]), "r3": bits(r.r[2]), "d": bits(r.d)});
        if float { e["units"] = json!(units((r.r[0] - r.d).abs(), unit)); e["uref"] = json!(units((r.r[0] - dref).abs(), unit)); }
        else {
            e["ri"] = json!(f2i(r.r[0])); e["di"] = json!(f2i(r.d));
            if len <= 200 { e["x"] = json!(xi); e["y"] = json!(yi); } else { e["exact"] = json!(if exact.abs() < SAT as i128 { exact as i64 } else { BAD - 1 }); }
            if let Some(p) = prev { e["prev"] = json!(bits(p)); }
        }
        out.ev(e);
    };

    let k = want.min(avail);
    // the allowed CPUs rotate with the case number so that the runs spread over the machine
    let off = (cid.max(0) as usize) % avail.max(1);
    let cpus: Vec<usize> = (0..avail).map(|j| orig[(off + j) % avail]).collect();
    if !set_affinity(&cpus[..k]) { eprintln!("TOOL-ERROR sched_setaffinity failed"); std::process::exit(2) }
    let nt = num_cpus::get();
    match mode {
        "repeat" => {
            // long inexact vectors: many repetitions under one configuration must give ONE bit pattern (no work stealing, no completion order)
            let reps = getu(case, "reps").max(2);
            let mut pats: Vec<u64> = Vec::with_capacity(reps); let mut panic = false;
            for _ in 0..reps { match guarded(|| x.dot_f64(&y)) { Ok(v) => pats.push(v.to_bits()), Err(_) => panic = true } }
            let d = guarded(|| x.dot(&y)).unwrap_or(f64::NAN);
            let first = pats.first().map(|b| f64::from_bits(*b)).unwrap_or(f64::NAN);
            let mut u = pats.clone(); u.sort(); u.dedup();
            out.ev(json!({"op": "pardot_r", "cid": cid, "mode": mode, "phase": "repeat", "len": len, "nt": nt, "want": want, "avail": avail, "panic": panic, "reps": reps,
                          "distinct": u.len(), "r1": bits(first), "d": bits(d), "units": units((first - d).abs(), unit), "uref": units((first - dref).abs(), unit)}));
        }
        "load" => {
            // first without, then with busy threads competing for the same CPUs: the value must not move
            let r0 = runs(&x, &y);
            emit(out, "quiet", want, nt, &r0, None);
            let load = Load::start(k + 1);
            let r1 = runs(&x, &y);
            load.finish();
            emit(out, "loaded", want, nt, &r1, Some(r0.r[0]));
        }
        "narrow" => {
            // first call under the wider mask, then under a narrower one (the worker count is re-read on every call)
            let r0 = runs(&x, &y);
            emit(out, "wide", want, nt, &r0, None);
            let want2 = getu(case, "want2").max(1); let k2 = want2.min(avail);
            if !set_affinity(&cpus[..k2]) { eprintln!("TOOL-ERROR sched_setaffinity failed"); std::process::exit(2) }
            let nt2 = num_cpus::get();
            let r1 = runs(&x, &y);
            emit(out, "narrow", want2, nt2, &r1, Some(r0.r[0]));
        }
        _ => {
            let r0 = runs(&x, &y); emit(out, "plain", want, nt, &r0, None);
            // aliased call: the SAME object on both sides, x.dot_f64(&x) (and x.dot(&x)); `two` is the two-object call x.dot_f64(&x.clone())
            // (exact data: one aliased call - repetition is judged on the two-object runs above and on the float data)
            let ra = runs_n(&x, &x, if float { 3 } else { 1 });
            let xc = x.clone();
            // (on exact data the two-object call is implied by the exact value; it is made when the case asks for it)
            let want_two = float || case.get("two").and_then(|t| t.as_bool()).unwrap_or(false);
            let two = if want_two { guarded(|| x.dot_f64(&xc)) } else { Ok(ra.r[0]) };
            let mut e = json!({"op": if float { "pardot_f" } else { "pardot" }, "cid": cid, "mode": mode, "phase": "alias", "len": len, "nt": nt, "want": want, "avail": avail,
                               "panic": ra.panic || two.is_err(), "r1": bits(ra.r[0]), "d": bits(ra.d)});
            if want_two { e["two"] = json!(bits(two.unwrap_or(f64::NAN))); }
            if float { e["r2"] = json!(bits(ra.r[1])); e["r3"] = json!(bits(ra.r[2])); }
            if float {
                let (mut sq, mut sa) = (DD::ZERO, DD::ZERO); for k in 0..len { sq = sq.add(DD::prod(xf[k], xf[k])); sa = sa.add(DD::prod(xf[k], xf[k]).abs()); }
                let unit2 = (len.max(1) as f64) * f64::EPSILON * sa.to_f64().max(f64::MIN_POSITIVE) / cal;
                e["units"] = json!(units((ra.r[0] - ra.d).abs(), unit2)); e["uref"] = json!(units((ra.r[0] - sq.to_f64()).abs(), unit2));
            } else {
                let ex2: i128 = xi.iter().map(|a| (*a as i128) * (*a as i128)).sum();
                e["ri"] = json!(f2i(ra.r[0])); e["di"] = json!(f2i(ra.d));
                if len <= 200 { e["x"] = json!(xi); e["y"] = json!(xi); } else { e["exact"] = json!(if ex2 < SAT as i128 { ex2 as i64 } else { BAD - 1 }); }
            }
            out.ev(e);
        }
    }
}

pub fn gen(tier: &str, seed: u64, out: &mut Out) {
    if tier == "child" { return child_scarce(out); }
    let quick = tier == "quick";
    let mut rng = rng(seed, 17);
    let mut cid = 0i64;
    let mut push = |out: &mut Out, mut c: Value| { cid += 1; c["cid"] = json!(cid); c["suite"] = json!("pardot"); c["seed"] = json!((seed % 1_000_000) as i64 * 100_003 % 1_000_000_007 + cid); out.raw(&c); };
    // (a) EVERY length 0..200 x EVERY worker count 1..16, integer data
    for rep in 0..(if quick { 1 } else { 3 }) { let _ = rep;
        for want in 1..=16usize { for len in 0..=200usize { push(out, json!({"len": len, "want": want, "mode": "plain", "data": "int", "two": !quick || (len + want) % 4 == 0})); } } }
    // (b) under load and (c) under a narrower affinity than at the first call; lengths around the worker count
    for want in 1..=16usize {
        let mut lens: Vec<usize> = vec![0, 1, want.saturating_sub(1), want, want + 1, 2 * want - 1, 2 * want + 1, 37, 200];
        for _ in 0..(if quick { 2 } else { 30 }) { lens.push(rng.gen_range(0..=200)); }
        for (j, len) in lens.into_iter().enumerate() {
            if !quick || (j + want) % 4 == 0 { push(out, json!({"len": len, "want": want, "mode": "load", "data": "int"})); }
            if want >= 2 { push(out, json!({"len": len, "want": want, "want2": rng.gen_range(1..want), "mode": "narrow", "data": "int"})); }
            // (d) data whose products are not exactly summable: judged up to reassociation
            push(out, json!({"len": len, "want": want, "mode": "plain", "data": "float"}));
            if !quick { push(out, json!({"len": len, "want": want, "mode": "load", "data": "float"})); }
        }
    }
    // (f) overflowing sums of strictly positive finite data: +inf is the only admissible value (no reassociation of non-negative
    //     finite terms gives anything else); every worker count, lengths 2..200 around the worker count (all of them in thorough)
    let shapes = ["all", "first", "middle", "last", "ends", "xy"];
    for want in 1..=16usize {
        let mut lens: Vec<usize> = vec![2, 3, 4, want.max(2), want + 1, 2 * want, 2 * want + 1, 4 * want + 3, 17, 64, 200];
        if quick { for _ in 0..2 { lens.push(rng.gen_range(2..=200)); } } else { lens = (2..=200).collect(); }
        for (j, len) in lens.into_iter().enumerate() {
            let ns = if quick { 1 } else if j % 8 == 0 { 6 } else { 2 };
            for s in 0..ns { push(out, json!({"len": len, "want": want, "mode": "plain", "data": "over", "shape": shapes[(j + want + 3 * s) % 6]})); }
        }
        for _ in 0..(if quick { 1 } else { 6 }) { push(out, json!({"len": rng.gen_range(201..=100_000), "want": want, "mode": "plain", "data": "over", "shape": shapes[rng.gen_range(0..6)]})); }
    }
    // (g) signed zeros: every product +0.0 / -0.0 (all negative, all positive, mixed, one non-zero product among them); the sum is
    //     +0.0 (or the one product) bit for bit; every worker count, a spread of lengths (every length 0..200 in thorough)
    let zshapes = ["neg", "pos", "mix", "one"];
    for want in 1..=16usize {
        let mut lens: Vec<usize> = vec![0, 1, 2, 3, want.saturating_sub(1), want, want + 1, 2 * want, 2 * want + 1, 4 * want + 3, 33, 64, 200];
        if quick { for _ in 0..3 { lens.push(rng.gen_range(0..=200)); } } else { lens = (0..=200).collect(); }
        for (j, len) in lens.into_iter().enumerate() {
            let ns = if quick { 2 } else if j % 8 == 0 { 4 } else { 2 };
            for s in 0..ns { push(out, json!({"len": len, "want": want, "mode": "plain", "data": "zero", "shape": zshapes[(j + want + s) % 4]})); }
        }
        for _ in 0..(if quick { 1 } else { 4 }) { push(out, json!({"len": rng.gen_range(201..=50_000), "want": want, "mode": "plain", "data": "zero", "shape": zshapes[rng.gen_range(0..4)]})); }
    }
    // (h) thread shortage: the address space is limited to the current size + headroom MiB in a child process, so that some or all of the
    //     worker threads cannot be created; lengths below / at the worker count and long ones; full and narrow affinity
    for rep in 0..(if quick { 1 } else { 4 }) { let _ = rep;
        for headroom in [1, 3, 5, 9, 17] { for want in [16usize, 3] { for len in [want - 1, want, 64, 1000, 100_000] {
            push(out, json!({"len": len, "want": want, "mode": "scarce", "data": "scarce", "headroom": headroom}));
        } } } }
    // (i) block sizes and thresholds in the LONG range.  Exact integer data at lengths w * B * k (every worker's slice is exactly k blocks of
    //     B) and the neighbours -1 / +1, B in {2^j, 3 * 2^j, 5 * 2^j} up to 2^17, k in 1..3, every worker count w: a seeded sample in quick,
    //     the full grid (total length up to 2^22) in thorough
    let mut bs: Vec<usize> = vec![]; for jx in 0..=17 { for m in [1usize, 3, 5] { let b = m << jx; if b <= 1 << 17 { bs.push(b); } } }
    let mut grid: Vec<(usize, usize, usize)> = vec![];
    for w in 1..=16usize { for b in &bs { for k in 1..=3usize { if w * b * k > 200 && w * b * k <= 1 << 22 { grid.push((w, *b, k)); } } } }
    if quick { let mut pick = vec![]; for _ in 0..70 { pick.push(grid[rng.gen_range(0..grid.len())]); } grid = pick; grid.retain(|g| g.0 * g.1 * g.2 <= 1 << 20); }
    for (w, b, k) in grid { for dl in [0i64, -1, 1] { if quick && dl != 0 && rng.gen_bool(0.5) { continue; }
        push(out, json!({"len": (w * b * k) as i64 + dl, "want": w, "mode": "plain", "data": "int", "two": false, "blk": b, "blkk": k})); } }
    //     Long inexact vectors repeated 30-50 times at a few worker counts: one single bit pattern
    let longs: Vec<(usize, usize)> = if quick { vec![(1 << 20, 2), (1 << 20, 16), (1 << 21, 3), (1 << 21, 16), (3 << 20, 7)] }
                                     else { let mut v = vec![]; for l in [1usize << 20, 1 << 21, 3 << 20] { for w in [2usize, 3, 7, 16] { v.push((l, w)); } } v };
    for (l, w) in longs { push(out, json!({"len": l, "want": w, "mode": "repeat", "data": "float", "reps": if quick { 30 } else { 50 }})); }
    // (e) random longer vectors up to 10^5
    for i in 0..(if quick { 32 } else { 320 }) {
        let want = 1 + i % 16; let len = if i % 4 == 0 { rng.gen_range(201..=2000) } else { rng.gen_range(2001..=100_000) };
        let mode = ["plain", "load", "narrow", "plain"][i % 4];
        let mut c = json!({"len": len, "want": want, "mode": mode, "data": if i % 8 >= 6 { "float" } else { "int" }});
        if mode == "narrow" { c["want2"] = json!(rng.gen_range(1..=want.max(2) - 1)); }
        push(out, c);
    }
}

/// Overflowing sums: strictly positive finite data, every single product finite, at least two products of about 1e308, so that the
/// exact sum (and every reassociation of it) overflows: dot_f64, the aliased call and the sequential dot must all return +inf.
/// shape: "all" (every product big), "first" / "middle" / "last" (a run of big products in that part only), "ends" (one big product at
/// each end: for two or more workers every partial sum is finite and only the total overflows), "xy" (x != y: about 1e160 * 1.5e148).
fn exec_over(case: &Value, out: &mut Out) {
    let cid = geti(case, "cid"); let len = getu(case, "len").max(2); let want = getu(case, "want").max(1); let shape = gets(case, "shape");
    let mut rng = rng(geti(case, "seed") as u64, 18);
    let orig = get_affinity(); let avail = orig.len().min(num_cpus::get()).max(1);
    let _restore = Restore(orig.clone());
    let run = (len / 6).max(2).min(len);
    let big = |k: usize| -> bool { match shape { "first" => k < run, "last" => k >= len - run, "middle" => { let s = (len - run) / 2; k >= s && k < s + run } "ends" => k == 0 || k == len - 1, _ => true } };
    let (xf, yf): (Vec<f64>, Vec<f64>) = if shape == "xy" {
        ((0..len).map(|_| 1e160 * rng.gen_range(0.62..1.0)).collect(), (0..len).map(|_| 1.5e148 * rng.gen_range(1.0..1.15)).collect())
    } else {
        let x: Vec<f64> = (0..len).map(|k| if big(k) { if rng.gen_bool(0.5) { 1e154 } else { 1.0e154 * rng.gen_range(1.0..1.3) } } else { rng.gen_range(1..=9) as f64 }).collect();
        (x.clone(), x)
    };
    let x = Vector::<f64>::create(xf.clone()); let y = Vector::<f64>::create(yf.clone());
    let k = want.min(avail); let off = (cid.max(0) as usize) % avail.max(1);
    let cpus: Vec<usize> = (0..avail).map(|j| orig[(off + j) % avail]).collect();
    if !set_affinity(&cpus[..k]) { eprintln!("TOOL-ERROR sched_setaffinity failed"); std::process::exit(2) }
    let nt = num_cpus::get();
    let r = runs(&x, &y);
    // what makes +inf the only admissible value, certified on the inputs
    let prods: Vec<f64> = (0..len).map(|i| xf[i] * yf[i]).collect();
    let mut e = json!({"op": "pardot_inf", "cid": cid, "mode": "plain", "phase": shape, "len": len, "nt": nt, "want": want, "avail": avail, "panic": r.panic,
                       "r1": bits(r.r[0]), "r2": bits(r.r[1]), "r3": bits(r.r[2]), "d": bits(r.d),
                       "allpos": xf.iter().chain(yf.iter()).all(|a| a.is_finite() && *a > 0.0), "prodfinite": prods.iter().all(|p| p.is_finite()),
                       "nbig": prods.iter().filter(|p| **p >= 9.0e307).count()});
    if shape != "xy" {
        // the aliased call on the same object (x = y here): squares of 1e154 are finite, their sum is not
        let ra = runs_n(&x, &x, 1);
        e["a1"] = json!(bits(ra.r[0])); e["ad"] = json!(bits(ra.d)); if ra.panic { e["panic"] = json!(true); }
    }
    out.ev(e);
}

/// Signed zeros on exact data: every product is +0.0 or -0.0 (shape "neg": all -0.0, "pos": all +0.0, "mix": both), or all but one
/// ("one").  The sequential definition accumulates from +0.0, and +0.0 + (-0.0) = +0.0: the sum of zero products is +0.0 whatever
/// their signs, bit for bit, also in the threaded product.  Results are compared as bit patterns.
fn exec_zero(case: &Value, out: &mut Out) {
    let cid = geti(case, "cid"); let len = getu(case, "len"); let want = getu(case, "want").max(1); let shape = gets(case, "shape");
    let mut rng = rng(geti(case, "seed") as u64, 19);
    let orig = get_affinity(); let avail = orig.len().min(num_cpus::get()).max(1);
    let _restore = Restore(orig.clone());
    let mag = |rng: &mut rand::rngs::StdRng| -> f64 { rng.gen_range(1..=9) as f64 };
    let (mut xf, mut yf) = (vec![0.0f64; len], vec![0.0f64; len]);
    let flip = cid % 2 == 0;      // which operand holds the zeros' sign
    for k in 0..len {
        let neg = match shape { "neg" => true, "pos" => false, _ => rng.gen_bool(0.5) };
        // a zero times a non-zero: the sign of the product is the product of the signs
        let zneg = if flip { rng.gen_bool(0.5) } else { k % 2 == 0 };
        xf[k] = if zneg { -0.0 } else { 0.0 };
        yf[k] = mag(&mut rng) * if zneg != neg { -1.0 } else { 1.0 };
        if rng.gen_bool(0.15) { yf[k] = if zneg != neg { -0.0 } else { 0.0 }; }       // zero times zero
        if (k + cid as usize) % 3 == 0 { let t = xf[k]; xf[k] = yf[k]; yf[k] = t; }   // zeros on either side
    }
    let mut val: i64 = 0;
    if shape == "one" && len > 0 { let j = rng.gen_range(0..len); xf[j] = mag(&mut rng) * if rng.gen_bool(0.5) { -1.0 } else { 1.0 }; yf[j] = mag(&mut rng) * if rng.gen_bool(0.5) { -1.0 } else { 1.0 }; val = (xf[j] * yf[j]) as i64; }
    let x = Vector::<f64>::create(xf.clone()); let y = Vector::<f64>::create(yf.clone());
    let k = want.min(avail); let off = (cid.max(0) as usize) % avail.max(1);
    let cpus: Vec<usize> = (0..avail).map(|j| orig[(off + j) % avail]).collect();
    if !set_affinity(&cpus[..k]) { eprintln!("TOOL-ERROR sched_setaffinity failed"); std::process::exit(2) }
    let nt = num_cpus::get();
    let r = runs(&x, &y);
    let ra = runs_n(&x, &x, 1);           // aliased: squares of zeros are +0.0
    let prods: Vec<f64> = (0..len).map(|i| xf[i] * yf[i]).collect();
    let isz = |p: &f64| *p == 0.0;
    out.ev(json!({"op": "pardot_z", "cid": cid, "mode": "plain", "phase": shape, "len": len, "nt": nt, "want": want, "avail": avail, "panic": r.panic || ra.panic,
                  "r1": bits(r.r[0]), "r2": bits(r.r[1]), "r3": bits(r.r[2]), "d": bits(r.d), "ri": f2i(r.r[0]), "a1": bits(ra.r[0]), "ad": bits(ra.d),
                  "npos": prods.iter().filter(|p| isz(p) && p.is_sign_positive()).count(), "nneg": prods.iter().filter(|p| isz(p) && p.is_sign_negative()).count(),
                  "nnon": prods.iter().filter(|p| !isz(p)).count(), "val": val}));
}

// ------------------------------------------------------------------ thread shortage (C16): cases run in a CHILD process
/// Parent side: re-invoke this binary (`gen pardot child 0 /dev/stdout`, the case in OHSL_PARDOT_CASE) and copy the events the child
/// prints.  A child that dies or hangs yields no event: no verdict for that case, never a violation, never a tool error.
fn exec_scarce(case: &Value, out: &mut Out) {
    let Ok(exe) = std::env::current_exe() else { return };
    let Ok(mut ch) = std::process::Command::new(exe).args(["gen", "pardot", "child", "0", "/dev/stdout"]).env("OHSL_PARDOT_CASE", case.to_string())
        .stdin(std::process::Stdio::null()).stdout(std::process::Stdio::piped()).stderr(std::process::Stdio::null()).spawn() else { return };
    // the output is a few hundred bytes (below the pipe buffer): wait first, with a deadline, then read
    let t0 = std::time::Instant::now();
    loop {
        match ch.try_wait() { Ok(Some(_)) => break, Ok(None) => {}, Err(_) => return }
        if t0.elapsed().as_secs() >= 30 { let _ = ch.kill(); let _ = ch.wait(); return; }
        std::thread::sleep(std::time::Duration::from_millis(2));
    }
    let mut s = String::new();
    if let Some(mut so) = ch.stdout.take() { use std::io::Read; if so.read_to_string(&mut s).is_err() { return; } }
    for line in s.lines() { if line.starts_with('{') { if let Ok(v) = serde_json::from_str::<Value>(line) { if v["op"] == "pardot_s" { out.ev(v); } } } }
}

fn vm_size() -> u64 { std::fs::read_to_string("/proc/self/statm").ok().and_then(|s| s.split_whitespace().next().and_then(|t| t.parse::<u64>().ok())).unwrap_or(0) * 4096 }

/// Child side: everything is allocated and the sequential reference computed BEFORE the address-space limit is lowered to the current
/// size plus `headroom` MiB (a new thread needs a 2 MiB stack: creation fails with EAGAIN, as at the thread limit of a loaded machine);
/// dot_f64 is called twice under the limit; the limit is restored; then the events are written.  Demand: a returned value is exact.
fn child_scarce(out: &mut Out) {
    let Ok(cs) = std::env::var("OHSL_PARDOT_CASE") else { return };
    let Ok(case) = serde_json::from_str::<Value>(&cs) else { return };
    let cid = geti(&case, "cid"); let len = getu(&case, "len"); let want = getu(&case, "want").max(1); let headroom = geti(&case, "headroom").max(0) as u64;
    let mut rng = rng(geti(&case, "seed") as u64, 20);
    let orig = get_affinity(); let avail = orig.len().min(num_cpus::get()).max(1);
    let k = want.min(avail);
    if !set_affinity(&orig[..k]) { return; }
    let nt = num_cpus::get();
    let xi: Vec<f64> = (0..len).map(|_| (rng.gen_range(1..=9) * if rng.gen_bool(0.5) { 1 } else { -1 }) as f64).collect();
    let yi: Vec<f64> = (0..len).map(|_| (rng.gen_range(1..=9) * if rng.gen_bool(0.5) { 1 } else { -1 }) as f64).collect();
    let x = Vector::<f64>::create(xi); let y = Vector::<f64>::create(yi);
    let d = x.dot(&y);
    let mut res: Vec<Result<f64, Box<dyn std::any::Any + Send>>> = Vec::with_capacity(4);
    let vm = vm_size(); if vm == 0 { return; }
    let mut old: libc::rlimit = unsafe { std::mem::zeroed() };
    if unsafe { libc::getrlimit(libc::RLIMIT_AS, &mut old) } != 0 { return; }
    let tight = libc::rlimit { rlim_cur: (vm + headroom * 1024 * 1024) as libc::rlim_t, rlim_max: old.rlim_max };
    if unsafe { libc::setrlimit(libc::RLIMIT_AS, &tight) } != 0 { return; }
    for _ in 0..2 { res.push(std::panic::catch_unwind(std::panic::AssertUnwindSafe(|| x.dot_f64(&y)))); }
    unsafe { libc::setrlimit(libc::RLIMIT_AS, &old); }
    for (call, r) in res.iter().enumerate() {
        let (returned, eq, rb) = match r { Ok(v) => (true, v.to_bits() == d.to_bits(), bits(*v)), Err(_) => (false, false, String::new()) };
        out.raw(&json!({"op": "pardot_s", "cid": cid, "mode": "scarce", "phase": if call == 0 { "first" } else { "second" }, "len": len, "nt": nt, "want": want, "avail": avail,
                        "headroom": headroom, "returned": returned, "equal_bits": eq, "r1": rb, "d": bits(d), "panic": !returned}));
    }
}
