//! Suite "gauss": Matrix::solve_basic / solve_lu (C01) and Matrix::determinant / inverse (C02)
//! over Matrix<Rat> (exact), Matrix<f64> and Matrix<Cmplx>.
//!
//! A case is one matrix (+ right-hand side) and the list of calls to make on it:
//!   {cid, suite, ty: "rat"|"f64"|"cx", kind: "solve"|"det", n,
//!    a: {r,c,d:[int mantissas]}, ai: {..imaginary mantissas (cx)}, ae: [binary exponent per entry] (floats),
//!    b: [..], bi: [..], be: [..]            (kind = "solve")
//!    inv: bool                              (kind = "det": also call inverse(); only for nonsingular input)
//!    want / wdet                            (expected exact results when the case was produced by TLC)}
//! entry value = (a + i*ai) * 2^ae.  `exec` is a deterministic function of the case.
//!
//! Events (one per call; the acceptance conditions live in spec/Trace_Gauss.tla):
//!   solve   rat: a, b, x ([n,d] pairs), len          float: len, units (backward error, double-double residual)
//!   agree   rat: x1, x2                              float: units
//!   det     rat: a, det [n,d], post                  float: units, pre/post bit patterns (+ a, dex for integer input)
//!   inverse rat: a, inv {r,c,d:[pairs]}, post        float: rows, cols, runits, lunits, pre/post bit patterns
use crate::dd::{CDD, DD};
use crate::rat::Rat;
use crate::util::*;
use ohsl::{Cmplx, Matrix, Vector};
use rand::rngs::StdRng;
use rand::seq::SliceRandom;
use rand::Rng;
use serde_json::{json, Value};

const EPS: f64 = f64::EPSILON; // 2^-52
const ENTRY_CAP: i128 = 1024; // Gauss!EntryCap
const NUM_CAP: i128 = 131072; // Gauss!NumCap

// ------------------------------------------------------------------ element types
fn pow2(e: i64) -> f64 {
    if !(-1022..=1023).contains(&e) { eprintln!("TOOL-ERROR exponent {} out of range", e); std::process::exit(2) }
    f64::from_bits(((e + 1023) as u64) << 52)
}
pub trait GEl: Elem + PartialOrd {
    /// (re + i im) / d * 2^e
    fn mk(re: i64, im: i64, e: i64, d: i64) -> Self;
    /// re * 2^er + i * im * 2^ei (an arbitrary f64 / pair of f64 given exactly; mantissas below 2^53)
    fn mk2(re: i64, er: i64, im: i64, ei: i64) -> Self;
    /// from a float pair (float element types only)
    fn fc(re: f64, im: f64) -> Self;
    fn c(&self) -> (f64, f64);
    fn hex(&self) -> String;
    /// the exact value (exact element type only)
    fn as_rat(&self) -> Rat { Rat::int(0) }
}
impl GEl for f64 {
    fn mk(re: i64, _im: i64, e: i64, d: i64) -> f64 { (if d == 1 { re as f64 } else { re as f64 / d as f64 }) * pow2(e) }
    fn mk2(re: i64, er: i64, _im: i64, _ei: i64) -> f64 { re as f64 * pow2(er) }
    fn fc(re: f64, _im: f64) -> f64 { re }
    fn c(&self) -> (f64, f64) { (*self, 0.0) }
    fn hex(&self) -> String { bits(*self) }
}
impl GEl for Cmplx {
    fn mk(re: i64, im: i64, e: i64, d: i64) -> Cmplx { if d == 1 { Cmplx::new(re as f64 * pow2(e), im as f64 * pow2(e)) } else { Cmplx::new(re as f64 / d as f64 * pow2(e), im as f64 / d as f64 * pow2(e)) } }
    fn mk2(re: i64, er: i64, im: i64, ei: i64) -> Cmplx { Cmplx::new(re as f64 * pow2(er), im as f64 * pow2(ei)) }
    fn fc(re: f64, im: f64) -> Cmplx { Cmplx::new(re, im) }
    fn c(&self) -> (f64, f64) { (self.real, self.imag) }
    fn hex(&self) -> String { format!("{}{}", bits(self.real), bits(self.imag)) }
}
impl GEl for Rat {
    fn mk(re: i64, _im: i64, e: i64, d: i64) -> Rat { if e != 0 || d != 1 { eprintln!("TOOL-ERROR exponent on an exact case"); std::process::exit(2) } Rat::int(re) }
    fn fc(_re: f64, _im: f64) -> Rat { eprintln!("TOOL-ERROR float recipe on the exact type"); std::process::exit(2) }
    fn mk2(_re: i64, _er: i64, _im: i64, _ei: i64) -> Rat { eprintln!("TOOL-ERROR float-encoded case on the exact type"); std::process::exit(2) }
    fn c(&self) -> (f64, f64) { (self.to_f64(), 0.0) }
    fn hex(&self) -> String { format!("{}/{}", self.n, self.d) }
    fn as_rat(&self) -> Rat { *self }
}

fn opt_ivec(case: &Value, k: &str, len: usize) -> Vec<i64> {
    match case.get(k) { Some(v) if v.is_array() => ivec(v), Some(v) if v.is_object() => ivec(&v["d"]), _ => vec![0; len] }
}
fn build_mat<T: GEl>(case: &Value) -> Matrix<T> {
    let n = getu(case, "n");
    let re = ivec(&case["a"]["d"]); let im = opt_ivec(case, "ai", n * n); let ex = opt_ivec(case, "ae", n * n);
    if re.len() != n * n || im.len() != n * n || ex.len() != n * n { eprintln!("TOOL-ERROR malformed gauss case {}", case); std::process::exit(2) }
    let div = case.get("adiv").and_then(|v| v.as_i64()).unwrap_or(1);
    let mut m = Matrix::<T>::new(n, n, T::from_ri(0, 0));
    // aie: separate binary exponents of the imaginary mantissas (entries given as exact f64 values)
    let exi = if case.get("aie").is_some() { Some(opt_ivec(case, "aie", n * n)) } else { None };
    for i in 0..n { for j in 0..n { let k = i * n + j; m[(i, j)] = match &exi { Some(ei) => T::mk2(re[k], ex[k], im[k], ei[k]), None => T::mk(re[k], im[k], ex[k], div) }; } }
    m
}
fn build_rhs<T: GEl>(case: &Value) -> Vector<T> {
    let n = getu(case, "n");
    let re = ivec(&case["b"]); let im = opt_ivec(case, "bi", n); let ex = opt_ivec(case, "be", n);
    let exi = if case.get("bie").is_some() { Some(opt_ivec(case, "bie", n)) } else { None };
    Vector::create((0..n).map(|k| match &exi { Some(ei) => T::mk2(re[k], ex[k], im[k], ei[k]), None => T::mk(re[k], im[k], ex[k], 1) }).collect())
}

// ------------------------------------------------------------------ measurements (double-double; trusted)
fn cd<T: GEl>(x: &T) -> CDD { let (r, i) = x.c(); CDD::from(r, i) }
fn mat_cdd<T: GEl>(m: &Matrix<T>) -> Vec<CDD> { let mut v = Vec::new(); for i in 0..m.rows() { for j in 0..m.cols() { v.push(cd(&m[(i, j)])); } } v }
fn vec_cdd<T: GEl>(x: &Vector<T>) -> Vec<CDD> { x.vec.iter().map(cd).collect() }
/// maximum that propagates NaN
fn nmax(a: f64, b: f64) -> f64 { if a.is_nan() || b.is_nan() { f64::NAN } else { a.max(b) } }
fn mat_norm_inf(a: &[CDD], n: usize) -> f64 { let mut m = 0.0; for i in 0..n { let mut s = 0.0; for j in 0..n { s += a[i * n + j].abs(); } m = nmax(m, s); } m }
fn mat_norm_1(a: &[CDD], n: usize) -> f64 { let mut m = 0.0; for j in 0..n { let mut s = 0.0; for i in 0..n { s += a[i * n + j].abs(); } m = nmax(m, s); } m }
fn mat_norm_max(a: &[CDD]) -> f64 { a.iter().fold(0.0, |m, z| nmax(m, z.abs())) }
fn mat_norm_frob(a: &[CDD]) -> f64 { a.iter().map(|z| { let t = z.abs(); t * t }).sum::<f64>().sqrt() }
fn vec_norm_inf(x: &[CDD]) -> f64 { x.iter().fold(0.0, |m, z| nmax(m, z.abs())) }
/// A*x - b
fn residual(a: &[CDD], x: &[CDD], b: &[CDD], n: usize) -> Vec<CDD> {
    (0..n).map(|i| { let mut s = CDD::ZERO; for j in 0..n { s = s.add(a[i * n + j].mul(x[j])); } s.sub(b[i]) }).collect()
}
fn matmul_minus_id(x: &[CDD], y: &[CDD], n: usize) -> Vec<CDD> {
    let mut r = Vec::with_capacity(n * n);
    for i in 0..n { for j in 0..n { let mut s = CDD::ZERO; for k in 0..n { s = s.add(x[i * n + k].mul(y[k * n + j])); } if i == j { s = s.sub(CDD::from(1.0, 0.0)); } r.push(s); } }
    r
}
fn cscale(z: CDD, s: f64) -> CDD { CDD { re: DD { hi: z.re.hi * s, lo: z.re.lo * s }, im: DD { hi: z.im.hi * s, lo: z.im.lo * s } } }
/// z / w with the divisor scaled to magnitude ~1 first (so that |w|^2 neither overflows nor underflows)
fn cdiv(z: CDD, w: CDD) -> CDD {
    let m = w.re.hi.abs().max(w.im.hi.abs());
    if !(m > 0.0) || !m.is_finite() { return CDD::from(f64::NAN, f64::NAN); }
    let e = ((m.to_bits() >> 52) & 0x7ff) as i64 - 1023;
    let e = e.clamp(-1000, 1000);
    let s = pow2(-e);
    cscale(z.div(cscale(w, s)), s)
}
/// || |L| |U| ||_inf of the LU factorisation with partial pivoting (double-double), or None when a pivot choice is ambiguous
/// (two candidates within 1e-6 relative: another correct tie-break could take the other row) or an entry is outside 2^+-900.
/// Every implementation that pivots on a row of largest magnitude obtains these factors up to rounding, and then
/// |b - A x| <= gamma_3n |L||U||x| componentwise (Higham, Thm 9.4) - a bound without the worst-case growth 2^(n-1).
struct RefLu { m: Vec<f64>, norm: f64 }     // m = P^T |L||U| (rows in the order of A), norm = its infinity norm
/// the same in plain (complex) f64 arithmetic for large orders: the factors only enter a bound, their own rounding
/// errors (relative 1e-16 times the growth) are irrelevant
fn ref_lu_fast(a: &[CDD], n: usize) -> Option<RefLu> {
    let mut m: Vec<Cf> = a.iter().map(|z| (z.re.hi, z.im.hi)).collect(); let mut perm: Vec<usize> = (0..n).collect();
    let ab = |z: Cf| z.0.hypot(z.1);
    for k in 0..n {
        let mut p = k; let mut best = ab(m[k * n + k]); let mut second = 0.0f64;
        for i in k + 1..n { let v = ab(m[i * n + k]); if v > best { second = best; best = v; p = i; } else if v > second { second = v; } }
        if !(best > 0.0) || !best.is_finite() || second > best * (1.0 - 1e-6) { return None; }
        if p != k { for j in 0..n { m.swap(k * n + j, p * n + j); } perm.swap(k, p); }
        let piv = m[k * n + k]; let d = piv.0 * piv.0 + piv.1 * piv.1;
        for i in k + 1..n { let z = m[i * n + k]; let f = ((z.0 * piv.0 + z.1 * piv.1) / d, (z.1 * piv.0 - z.0 * piv.1) / d); m[i * n + k] = f;
            if f != (0.0, 0.0) { for j in k + 1..n { let t = cf_mul(f, m[k * n + j]); m[i * n + j] = (m[i * n + j].0 - t.0, m[i * n + j].1 - t.1); } } }
    }
    let av: Vec<f64> = m.iter().map(|z| ab(*z)).collect();
    let mut out = vec![0.0f64; n * n]; let mut norm = 0.0f64;
    for i in 0..n {
        let mut row = vec![0.0f64; n];
        for j in i..n { row[j] = av[i * n + j]; }
        for k in 0..i { let l = av[i * n + k]; if l != 0.0 { for j in k..n { row[j] += l * av[k * n + j]; } } }
        let rs: f64 = row.iter().sum(); norm = nmax(norm, rs); for j in 0..n { out[perm[i] * n + j] = row[j]; }
    }
    if norm.is_finite() && norm > 0.0 { Some(RefLu { m: out, norm }) } else { None }
}
fn ref_lu(a: &[CDD], n: usize) -> Option<RefLu> {
    if n > 160 { return ref_lu_fast(a, n); }
    let mut m = a.to_vec(); let mut perm: Vec<usize> = (0..n).collect();
    for z in &m { let v = z.abs(); if !v.is_finite() || (v != 0.0 && (v < pow2(-1010) || v > pow2(1010))) { return None; } }
    for k in 0..n {
        let mut p = k; let mut best = m[k * n + k].abs(); let mut second = 0.0f64;
        for i in k + 1..n { let v = m[i * n + k].abs(); if v > best { second = best; best = v; p = i; } else if v > second { second = v; } }
        if !(best > 0.0) || second > best * (1.0 - 1e-6) { return None; }
        if p != k { for j in 0..n { m.swap(k * n + j, p * n + j); } perm.swap(k, p); }
        let piv = m[k * n + k];
        for i in k + 1..n { let f = cdiv(m[i * n + k], piv); m[i * n + k] = f; if f.abs() != 0.0 { for j in k + 1..n { let t = f.mul(m[k * n + j]); m[i * n + j] = m[i * n + j].sub(t); } } }
    }
    let ab: Vec<f64> = m.iter().map(|z| z.abs()).collect();
    let mut out = vec![0.0f64; n * n]; let mut norm = 0.0f64;
    for i in 0..n {
        let mut rs = 0.0;
        for j in 0..n { let mut s = if i <= j { ab[i * n + j] } else { 0.0 }; for k in 0..i.min(j + 1) { s += ab[i * n + k] * ab[k * n + j]; } out[perm[i] * n + j] = s; rs += s; }
        norm = nmax(norm, rs);
    }
    if norm.is_finite() && norm > 0.0 { Some(RefLu { m: out, norm }) } else { None }
}
fn ref_lu_absprod(a: &[CDD], n: usize) -> Option<f64> { ref_lu(a, n).map(|r| r.norm) }
/// componentwise residual in units of eps (|L||U||x|)_i, the scaling-invariant form of the same bound: max over the rows
fn cw_units(res: &[CDD], rl: &RefLu, x: &[CDD], n: usize, scale: f64) -> i64 {
    let mut worst = 0i64;
    for i in 0..n { let den: f64 = (0..n).map(|k| rl.m[i * n + k] * x[k].abs()).sum(); let r = res[i].abs();
        let u = if r == 0.0 { 0 } else { units(r, EPS * den / scale) }; worst = worst.max(u); }
    worst
}
/// reference determinant: elimination with partial pivoting in (complex) double-double
fn det_ref(a: &[CDD], n: usize) -> CDD {
    let mut m = a.to_vec(); let mut det = CDD::from(1.0, 0.0);
    for k in 0..n {
        let mut p = k; let mut best = m[k * n + k].abs();
        for i in k + 1..n { let v = m[i * n + k].abs(); if v > best { best = v; p = i; } }
        if !(best > 0.0) { return CDD::ZERO; }
        if p != k { for j in 0..n { m.swap(k * n + j, p * n + j); } det = CDD::ZERO.sub(det); }
        let piv = m[k * n + k];
        det = det.mul(piv);
        for i in k + 1..n { let f = cdiv(m[i * n + k], piv); for j in k..n { let t = f.mul(m[k * n + j]); m[i * n + j] = m[i * n + j].sub(t); } }
    }
    det
}

// ------------------------------------------------------------------ exact helpers (generator side / references)
/// the fraction-free determinant exactly as Gauss!Bareiss computes it; also returns the largest intermediate magnitude
fn bareiss(a: &[i64], n: usize) -> Option<(i128, i128)> {
    if n == 0 { return Some((1, 1)); }
    let mut m: Vec<i128> = a.iter().map(|x| *x as i128).collect();
    let mut big: i128 = m.iter().map(|x| x.abs()).max().unwrap_or(0);
    let mut prev: i128 = 1; let mut sign: i128 = 1;
    for k in 0..n - 1 {
        let r = (k..n).find(|r| m[r * n + k] != 0);
        let r = match r { Some(r) => r, None => return Some((0, big)) };
        if r != k { for j in 0..n { m.swap(k * n + j, r * n + j); } sign = -sign; }
        let mut nx = m.clone();
        for i in k + 1..n { for j in k + 1..n {
            let p1 = m[k * n + k].checked_mul(m[i * n + j])?; let p2 = m[i * n + k].checked_mul(m[k * n + j])?;
            let d = p1.checked_sub(p2)?;
            big = big.max(p1.abs()).max(p2.abs()).max(d.abs());
            nx[i * n + j] = d / prev;
        } }
        prev = m[k * n + k];
        m = nx;
    }
    let d = sign * m[n * n - 1];
    Some((d, big.max(d.abs())))
}
fn bareiss_fits(a: &[i64], n: usize) -> Option<i64> {
    if a.iter().any(|x| (*x as i128).abs() > ENTRY_CAP) { return None; }
    match bareiss(a, n) { Some((d, big)) if big < (1 << 30) => Some(d as i64), _ => None }
}
/// own exact solver (Gauss-Jordan over Rat, first nonzero pivot): X with A X = B, None if singular
fn rat_solve(a: &[i64], n: usize, rhs: &[Vec<i64>]) -> Option<Vec<Vec<Rat>>> {
    let w = rhs.len();
    let mut m: Vec<Vec<Rat>> = (0..n).map(|i| { let mut r: Vec<Rat> = (0..n).map(|j| Rat::int(a[i * n + j])).collect(); for c in 0..w { r.push(Rat::int(rhs[c][i])); } r }).collect();
    for k in 0..n {
        let p = (k..n).find(|r| !m[*r][k].is_zero())?;
        m.swap(k, p);
        let piv = m[k][k];
        for j in 0..n + w { m[k][j] = m[k][j] / piv; }
        for i in 0..n { if i != k && !m[i][k].is_zero() { let f = m[i][k]; for j in 0..n + w { let t = f * m[k][j]; m[i][j] = m[i][j] - t; } } }
    }
    Some((0..w).map(|c| (0..n).map(|i| m[i][n + c]).collect()).collect())
}
fn gcd(a: i128, b: i128) -> i128 { let (mut a, mut b) = (a.abs(), b.abs()); while b != 0 { let t = a % b; a = b; b = t; } a }
/// the magnitude condition under which Gauss!Solves can evaluate A x = b without overflow
fn seq_fits(x: &[Rat]) -> bool {
    let mut l: i128 = 1;
    for v in x { if v.d > NUM_CAP || v.n.abs() > NUM_CAP { return false; } l = l / gcd(l, v.d) * v.d; if l > NUM_CAP { return false; } }
    x.iter().all(|v| (v.n * (l / v.d)).abs() <= NUM_CAP)
}
fn solve_fits(a: &[i64], n: usize, b: &[i64]) -> bool {
    if a.iter().chain(b.iter()).any(|x| (*x as i128).abs() > ENTRY_CAP) { return false; }
    match rat_solve(a, n, &[b.to_vec()]) { Some(x) => seq_fits(&x[0]), None => false }
}
fn inverse_fits(a: &[i64], n: usize) -> bool {
    if a.iter().any(|x| (*x as i128).abs() > ENTRY_CAP) { return false; }
    let id: Vec<Vec<i64>> = (0..n).map(|j| (0..n).map(|i| if i == j { 1 } else { 0 }).collect()).collect();
    match rat_solve(a, n, &id) {
        Some(cols) => cols.iter().all(|c| seq_fits(c)) && (0..n).all(|i| { let row: Vec<Rat> = (0..n).map(|j| cols[j][i]).collect(); seq_fits(&row) }),
        None => false }
}
/// determinant of the Gaussian-integer matrix re + i*im modulo p = 2^31 - 1 (p = 3 mod 4, so F_p[i] is a field):
/// a nonzero value PROVES that the matrix is nonsingular
const P: i128 = 2147483647;
fn fp(x: i128) -> i128 { ((x % P) + P) % P }
fn fmul(a: (i128, i128), b: (i128, i128)) -> (i128, i128) { (fp(a.0 * b.0 - a.1 * b.1), fp(a.0 * b.1 + a.1 * b.0)) }
fn fpow(mut b: i128, mut e: i128) -> i128 { let mut r = 1; while e > 0 { if e & 1 == 1 { r = r * b % P; } b = b * b % P; e >>= 1; } r }
fn finv(a: (i128, i128)) -> (i128, i128) { let nrm = fp(a.0 * a.0 + a.1 * a.1); let ni = fpow(nrm, P - 2); (fp(a.0 * ni), fp(-a.1 * ni)) }
fn nonsingular_mod_p(re: &[i64], im: &[i64], n: usize) -> bool {
    let mut m: Vec<(i128, i128)> = (0..n * n).map(|k| (fp(re[k] as i128), fp(im[k] as i128))).collect();
    for k in 0..n {
        let p = match (k..n).find(|r| m[r * n + k] != (0, 0)) { Some(p) => p, None => return false };
        if p != k { for j in 0..n { m.swap(k * n + j, p * n + j); } }
        let pi = finv(m[k * n + k]);
        for i in k + 1..n { let f = fmul(m[i * n + k], pi); if f != (0, 0) { for j in k..n { let t = fmul(f, m[k * n + j]); m[i * n + j] = (fp(m[i * n + j].0 - t.0), fp(m[i * n + j].1 - t.1)); } } }
    }
    true
}

// ------------------------------------------------------------------ exec
fn hexes<T: GEl>(m: &Matrix<T>) -> Value {
    if m.rows() > 16 {   // large matrices: one FNV-1a hash over all bit patterns instead of n^2 strings
        let mut h: u64 = 0xcbf29ce484222325; for i in 0..m.rows() { for j in 0..m.cols() { for byte in m[(i, j)].hex().bytes() { h ^= byte as u64; h = h.wrapping_mul(0x100000001b3); } } }
        return json!([format!("{:016x}", h)]);
    }
    let mut v = Vec::new(); for i in 0..m.rows() { for j in 0..m.cols() { v.push(m[(i, j)].hex()); } } Value::from(v) }
fn is_rat<T: GEl>() -> bool { T::NAME == "rat" }
/// FNV-1a hash of the operands (identifies the input in events that do not carry the matrix itself)
fn operand_hash(case: &Value) -> String {
    let mut h: u64 = 0xcbf29ce484222325;
    for k in ["a", "ai", "ae", "aie", "adiv", "b", "bi", "be", "bie", "steps", "recipe", "n"] { if let Some(v) = case.get(k) { for byte in format!("{}={};", k, v).bytes() { h ^= byte as u64; h = h.wrapping_mul(0x100000001b3); } } }
    format!("{:016x}", h)
}
/// the fields every event of a case carries
fn meta_of(case: &Value) -> Value {
    let mut m = json!({"cid": geti(case, "cid"), "n": geti(case, "n"), "fam": gets(case, "fam"), "h": operand_hash(case)});
    if let Some(k) = case.get("mixk") { m["k"] = k.clone(); m["mix"] = json!(true); }
    // cw: magnitudes are mixed WITHIN the matrix (independent row / column scalings): only the scaling-invariant componentwise
    // measures are meaningful; dete: the matrix is 2^(row + column exponents) times an integer matrix with determinant detm
    for k in ["cw", "detm", "dete", "inv"] { if let Some(v) = case.get(k) { m[k] = v.clone(); } }
    m
}
fn base_event<T: GEl>(meta: &Value, op: &str) -> Value { let mut e = meta.clone(); e["op"] = json!(op); e["ty"] = json!(T::NAME); e }
/// a Rat element as [n, d] (saturating to [BAD, 1]); only called for the exact element type
fn rat_of<T: GEl>(v: &T) -> Value { jrat(v.as_rat()) }
/// the CURRENT entries as integers: Some((re, im)) iff every entry is an exact integer below 2^30
fn int_proj<T: GEl>(m: &Matrix<T>) -> Option<(Vec<i64>, Vec<i64>)> {
    let (mut re, mut im) = (Vec::new(), Vec::new());
    for i in 0..m.rows() { for j in 0..m.cols() { let (a, b) = m[(i, j)].to_ri(); if a == BAD || b == BAD { return None; } re.push(a); im.push(b); } }
    Some((re, im))
}

/// solve_basic and solve_lu, each on its own clone of `a0`, and their agreement
fn q_solve<T: GEl>(meta: &Value, a0: &Matrix<T>, b: &Vector<T>, want: Option<&Value>, out: &mut Out) {
    let n = a0.rows();
    let ac = mat_cdd(a0); let bc = vec_cdd(b);
    let na = mat_norm_inf(&ac, n); let nb = vec_norm_inf(&bc);
    let sharp = if is_rat::<T>() { None } else { ref_lu(&ac, n) };
    let cw = flag(meta, "cw", false);
    let mut results: Vec<Option<Vector<T>>> = Vec::new();
    for solver in ["basic", "lu"] {
        let mut m = a0.clone();
        let r = guarded(|| if solver == "basic" { m.solve_basic(b) } else { m.solve_lu(b) });
        let mut e = base_event::<T>(meta, "solve");
        e["solver"] = json!(solver);
        match &r {
            Err(_) => { e["panic"] = json!(true); }
            Ok(x) => {
                e["panic"] = json!(false); e["len"] = json!(x.size());
                if is_rat::<T>() {
                    e["a"] = jmat(a0, Part::Re); e["b"] = jvec(b, Part::Re);
                    e["x"] = Value::from(x.vec.iter().take(n).map(rat_of).collect::<Vec<Value>>());
                    if let Some(w) = want { e["want"] = w.clone(); }
                } else if x.size() == n {
                    let xc = vec_cdd(x);
                    let res = residual(&ac, &xc, &bc, n);
                    let (err, unit) = (vec_norm_inf(&res), EPS * (na * vec_norm_inf(&xc) + nb));
                    if !cw { e["units"] = json!(units(err, unit)); e["units_m"] = json!(units(err, unit / 1000.0)); }
                    if let Some(rl) = &sharp {
                        if !cw { let su = EPS * rl.norm * vec_norm_inf(&xc); e["sunits"] = json!(units(err, su)); e["sunits_m"] = json!(units(err, su / 1000.0)); }
                        e["cunits"] = json!(cw_units(&res, rl, &xc, n, 1.0)); e["cunits_m"] = json!(cw_units(&res, rl, &xc, n, 1000.0));
                    } else if cw { e["cunits"] = json!(if err.is_finite() { 0 } else { SAT }); e["noref"] = json!(true); }
                } else { e["units"] = json!(SAT); }
            }
        }
        out.ev(e);
        results.push(r.ok());
    }
    if results[0].is_none() || results[1].is_none() {
        // a solver that panicked cannot agree with the other one: logged, and rejected by the trace specification
        let mut e = base_event::<T>(meta, "agree"); e["panic"] = json!(true); out.ev(e);
    }
    if let (Some(x1), Some(x2)) = (&results[0], &results[1]) {
        let mut e = base_event::<T>(meta, "agree"); e["panic"] = json!(false);
        if is_rat::<T>() {
            e["len1"] = json!(x1.size()); e["len2"] = json!(x2.size());
            e["x1"] = Value::from(x1.vec.iter().take(n).map(rat_of).collect::<Vec<Value>>());
            e["x2"] = Value::from(x2.vec.iter().take(n).map(rat_of).collect::<Vec<Value>>());
        } else if x1.size() == n && x2.size() == n {
            let (c1, c2) = (vec_cdd(x1), vec_cdd(x2));
            let d: Vec<CDD> = (0..n).map(|i| c1[i].sub(c2[i])).collect();
            let zero = vec![CDD::ZERO; n];
            let ad = residual(&ac, &d, &zero, n);
            let (err, unit) = (vec_norm_inf(&ad), EPS * (na * nmax(vec_norm_inf(&c1), vec_norm_inf(&c2)) + nb));
            if !cw { e["units"] = json!(units(err, unit)); e["units_m"] = json!(units(err, unit / 1000.0)); }
            if let Some(rl) = &sharp {
                if !cw { let su = EPS * rl.norm * nmax(vec_norm_inf(&c1), vec_norm_inf(&c2)); e["sunits"] = json!(units(err, su)); }
                let xm: Vec<CDD> = (0..n).map(|i| CDD::from(c1[i].abs() + c2[i].abs(), 0.0)).collect();
                e["cunits"] = json!(cw_units(&ad, rl, &xm, n, 1.0));
            } else if cw { e["cunits"] = json!(if err.is_finite() { 0 } else { SAT }); e["noref"] = json!(true); }
        } else { e["units"] = json!(SAT); }
        out.ev(e);
    }
}

/// determinant() of the object, judged against its current entries
fn q_det<T: GEl>(meta: &Value, a0: &Matrix<T>, wdet: Option<&Value>, out: &mut Out) {
    let n = a0.rows();
    let pre = hexes(a0); let pre_int = jmat(a0, Part::Re);
    let r = guarded(|| a0.determinant());
    let mut e = base_event::<T>(meta, "det");
    match r {
        Err(_) => { e["panic"] = json!(true); }
        Ok(d) => {
            e["panic"] = json!(false);
            if is_rat::<T>() {
                e["a"] = pre_int; e["det"] = rat_of(&d); e["post"] = jmat(a0, Part::Re);
                if let Some(w) = wdet { e["wdet"] = w.clone(); }
            } else {
                let ac = mat_cdd(a0);
                // integer input: the exact determinant (recomputed by TLC from the logged matrix); otherwise double-double elimination
                let exact = match int_proj(a0) { Some((re, im)) if im.iter().all(|x| *x == 0) => bareiss_fits(&re, n).map(|x| (x, re)), _ => None };
                let cw = flag(meta, "cw", false);
                // D1 * A0 * D2 with power-of-two scalings: det = det(A0) * 2^(sum of the exponents), exactly
                let scaled_exact = match (meta.get("detm").and_then(|v| v.as_i64()), meta.get("dete").and_then(|v| v.as_i64())) {
                    (Some(mm), Some(ee)) if ee.abs() <= 1000 => Some(CDD::from(mm as f64 * pow2(ee.clamp(-1000, 1000)), 0.0)), _ => None };
                let reference = match (&exact, scaled_exact) { (Some((x, _)), _) => CDD::from(*x as f64, 0.0), (None, Some(r)) => r, _ => det_ref(&ac, n) };
                let err = cd(&d).sub(reference).abs();
                let unit = (n as f64) * EPS * mat_norm_frob(&ac).powi(n as i32);
                if !cw { e["units"] = json!(units(err, unit)); e["units_m"] = json!(units(err, unit / 1000.0)); }
                // scaling-invariant first-order bound: |det(A + dA) - det A| <= |det A| tr(|A^-1| |dA|), |dA| <= gamma_n |L||U|
                let dabs = reference.abs();
                let mut have = false;
                // only for input that is PROVABLY nonsingular (exact arithmetic of the generator)
                if flag(meta, "inv", false) && dabs > 0.0 && dabs.is_finite() { if let (Some(rl), Some(xi)) = (ref_lu(&ac, n), cdd_inverse(&ac, n)) {
                    let mut tr = 0.0f64; for i in 0..n { for j in 0..n { tr += xi[i * n + j].abs() * rl.m[j * n + i]; } }
                    if tr.is_finite() && tr > 0.0 { let su = EPS * dabs * tr; e["sdunits"] = json!(units(err, su)); e["sdunits_m"] = json!(units(err, su / 1000.0)); have = true; }
                } }
                if cw && !have { e["sdunits"] = json!(if err.is_finite() && cd(&d).abs().is_finite() { 0 } else { SAT }); e["noref"] = json!(true); }
                if let Some((x, re)) = exact { e["a"] = json!({"r": n, "c": n, "d": re}); e["dex"] = json!(x); }
                e["pre"] = pre; e["post"] = hexes(a0);
            }
        }
    }
    out.ev(e);
}

/// inverse() of the object (nonsingular input only); `lres`: also judge the left residual (needs moderate conditioning)
fn q_inverse<T: GEl>(meta: &Value, a0: &Matrix<T>, lres: bool, out: &mut Out) {
    let n = a0.rows();
    let pre = hexes(a0); let pre_int = jmat(a0, Part::Re);
    let r = guarded(|| a0.inverse());
    let mut e = base_event::<T>(meta, "inverse");
    match r {
        Err(_) => { e["panic"] = json!(true); }
        Ok(x) => {
            e["panic"] = json!(false);
            if is_rat::<T>() {
                e["a"] = pre_int; e["post"] = jmat(a0, Part::Re);
                let mut d = Vec::new(); for i in 0..x.rows() { for j in 0..x.cols() { d.push(rat_of(&x[(i, j)])); } }
                e["inv"] = json!({"r": x.rows(), "c": x.cols(), "d": d});
            } else {
                e["rows"] = json!(x.rows()); e["cols"] = json!(x.cols());
                if x.rows() == n && x.cols() == n {
                    let ac = mat_cdd(a0); let xc = mat_cdd(&x);
                    let (na, n1, nx) = (mat_norm_inf(&ac, n), mat_norm_1(&ac, n), mat_norm_max(&xc));
                    let (rerr, runit) = (mat_norm_max(&matmul_minus_id(&ac, &xc, n)), EPS * na * nx);
                    let cw = flag(meta, "cw", false);
                    let rmat = matmul_minus_id(&ac, &xc, n);
                    if !cw { e["runits"] = json!(units(rerr, runit)); e["runits_m"] = json!(units(rerr, runit / 1000.0)); }
                    if let Some(rl) = ref_lu(&ac, n) {
                        if !cw { let su = EPS * rl.norm * nx; e["srunits"] = json!(units(rerr, su)); e["srunits_m"] = json!(units(rerr, su / 1000.0)); }
                        let (mut w, mut wm) = (0i64, 0i64);
                        for j in 0..n { let col: Vec<CDD> = (0..n).map(|i| rmat[i * n + j]).collect(); let xj: Vec<CDD> = (0..n).map(|i| xc[i * n + j]).collect();
                            w = w.max(cw_units(&col, &rl, &xj, n, 1.0)); wm = wm.max(cw_units(&col, &rl, &xj, n, 1000.0)); }
                        e["crunits"] = json!(w); e["crunits_m"] = json!(wm);
                    } else if cw { e["crunits"] = json!(if rerr.is_finite() { 0 } else { SAT }); e["noref"] = json!(true); }
                    if lres && !cw {
                        let (lerr, lunit) = (mat_norm_max(&matmul_minus_id(&xc, &ac, n)), EPS * (n as f64) * (na * nx) * (n1 * nx));
                        e["lunits"] = json!(units(lerr, lunit)); e["lunits_m"] = json!(units(lerr, lunit / 1000.0));
                    }
                } else { e["runits"] = json!(SAT); e["crunits"] = json!(SAT); if lres { e["lunits"] = json!(SAT); } }
                e["pre"] = pre; e["post"] = hexes(a0);
            }
        }
    }
    out.ev(e);
}

/// large systems are described by a recipe (family, order, seed) instead of n^2 numbers; the construction is deterministic
fn recipe_build<T: GEl>(case: &Value) -> (Matrix<T>, Vector<T>) {
    let n = getu(case, "n"); let rc = &case["recipe"]; let mut rng = rng(geti(rc, "rseed") as u64, 77); let cx = T::CX;
    let mut a = vec![(0.0f64, 0.0f64); n * n]; let mut x = vec![(0.0f64, 0.0f64); n];
    match gets(rc, "fam") {
        "hint" => { // integers in -2..2, a dominant diagonal, rows permuted (exchanges are needed); integer solution, b = A x exactly
            let p = rand_perm(&mut rng, n);
            for i in 0..n { for j in 0..n { let v = if i == j { (2 * n as i64 + rng.gen_range(1..5)) * if rng.gen_bool(0.5) { 1 } else { -1 } } else { rng.gen_range(-2..=2) };
                a[p[i] * n + j] = (v as f64, if cx && i != j { rng.gen_range(-2..=2) as f64 } else { 0.0 }); } }
            for j in 0..n { x[j] = (rng.gen_range(-3..=3) as f64, if cx { rng.gen_range(-3..=3) as f64 } else { 0.0 }); }
        }
        _ => { // dense 20-bit values in (-1, 1) with a moderately strengthened, permuted diagonal (well conditioned), b = A x_true
            let p = rand_perm(&mut rng, n);
            for i in 0..n { for j in 0..n { let v = rng.gen_range(-(1i64 << 20)..(1i64 << 20)) as f64 * pow2(-20) + if i == j { (n as f64).sqrt() } else { 0.0 };
                a[p[i] * n + j] = (v, if cx { rng.gen_range(-(1i64 << 20)..(1i64 << 20)) as f64 * pow2(-20) } else { 0.0 }); } }
            for j in 0..n { x[j] = (rng.gen_range(0.5..1.5) * if rng.gen_bool(0.5) { 1.0 } else { -1.0 }, if cx { rng.gen_range(-1.0..1.0) } else { 0.0 }); }
        }
    }
    let b = matvec_cf(&a, &x, n);
    let mut m = Matrix::<T>::new(n, n, T::from_ri(0, 0)); for i in 0..n { for j in 0..n { m[(i, j)] = T::fc(a[i * n + j].0, a[i * n + j].1); } }
    (m, Vector::create(b.iter().map(|z| T::fc(z.0, z.1)).collect()))
}
fn run_solve<T: GEl>(case: &Value, out: &mut Out) {
    if case.get("recipe").is_some() { let (a0, b) = recipe_build::<T>(case); return q_solve(&meta_of(case), &a0, &b, None, out); }
    let a0 = build_mat::<T>(case); let b = build_rhs::<T>(case);
    q_solve(&meta_of(case), &a0, &b, case.get("want"), out);
}
fn flag(case: &Value, k: &str, default: bool) -> bool { case.get(k).and_then(|v| v.as_bool()).unwrap_or(default) }
fn run_det<T: GEl>(case: &Value, out: &mut Out) {
    let a0 = if case.get("recipe").is_some() { recipe_build::<T>(case).0 } else { build_mat::<T>(case) }; let meta = meta_of(case);
    // nodet: the determinant itself is outside the floating-point range (extremely scaled input); only inverse() is called
    if !flag(case, "nodet", false) { q_det(&meta, &a0, case.get("wdet"), out); }
    if flag(case, "inv", false) { q_inverse(&meta, &a0, flag(case, "lres", true), out); }
}

// ---- sequences on ONE Matrix object: queries interleaved with mutators; every query is judged against the
//      entries the object holds at that moment (a stale memoised factorisation / determinant / inverse shows up here)
fn sval<T: GEl>(st: &Value, k: &str) -> T { let ki = format!("{}i", k); T::mk(geti(st, k), st.get(&ki).and_then(|v| v.as_i64()).unwrap_or(0), 0, 1) }
fn svec<T: GEl>(st: &Value, k: &str) -> Vector<T> {
    let re = ivec(&st[k]); let ki = format!("{}i", k); let im = st.get(&ki).map(ivec).unwrap_or_else(|| vec![0; re.len()]);
    Vector::create((0..re.len()).map(|q| T::mk(re[q], im[q], 0, 1)).collect())
}
fn smat<T: GEl>(st: &Value, k: &str, n: usize) -> Matrix<T> {
    let re = ivec(&st[k]); let ki = format!("{}i", k); let im = st.get(&ki).map(ivec).unwrap_or_else(|| vec![0; re.len()]);
    let mut m = Matrix::<T>::new(n, n, T::from_ri(0, 0)); for i in 0..n { for j in 0..n { m[(i, j)] = T::mk(re[i * n + j], im[i * n + j], 0, 1); } } m
}
/// apply one mutator of the public API to the object
fn mutate<T: GEl>(m: &mut Matrix<T>, st: &Value) {
    let n = m.rows(); let own = gets(st, "form") == "own";
    match gets(st, "op") {
        "set" => m[(getu(st, "i"), getu(st, "j"))] = sval::<T>(st, "x"),
        "set_row" => m.set_row(getu(st, "i"), svec::<T>(st, "v")),
        "set_col" => m.set_col(getu(st, "j"), svec::<T>(st, "v")),
        "swap_rows" => m.swap_rows(getu(st, "i"), getu(st, "i2")),
        "swap_elem" => m.swap_elem(getu(st, "i"), getu(st, "j"), getu(st, "i2"), getu(st, "j2")),
        "fill" => m.fill(sval::<T>(st, "x")),
        "fill_diag" => m.fill_diag(sval::<T>(st, "x")),
        "fill_band" => m.fill_band(geti(st, "off") as isize, sval::<T>(st, "x")),
        "fill_tridiag" => m.fill_tridiag(sval::<T>(st, "lo"), sval::<T>(st, "di"), sval::<T>(st, "up")),
        "fill_row" => m.fill_row(getu(st, "i"), sval::<T>(st, "x")),
        "fill_col" => m.fill_col(getu(st, "j"), sval::<T>(st, "x")),
        "add_assign" => { let b = smat::<T>(st, "b", n); if own { *m += b } else { *m += &b } }
        "sub_assign" => { let b = smat::<T>(st, "b", n); if own { *m -= b } else { *m -= &b } }
        "mul_assign" => *m *= sval::<T>(st, "s"),
        "div_assign" => *m /= sval::<T>(st, "s"),
        "add_scalar_assign" => *m += sval::<T>(st, "s"),
        "sub_scalar_assign" => *m -= sval::<T>(st, "s"),
        "transpose_in_place" => m.transpose_in_place(),
        "resize" => m.resize(n, n),
        o => { eprintln!("TOOL-ERROR unknown gauss mutator {}", o); std::process::exit(2) }
    }
}
/// kappa_inf <= 1e8 by an own double-double Gauss-Jordan inverse (domain filter for the left inverse residual)
fn kappa_ok(a: &[CDD], n: usize) -> bool {
    match cdd_inverse(a, n) { Some(x) => { let kappa = mat_norm_inf(a, n) * mat_norm_inf(&x, n); kappa.is_finite() && kappa <= 1e8 } None => false }
}
/// own double-double Gauss-Jordan inverse (partial pivoting); None if a pivot column vanishes
fn cdd_inverse(a: &[CDD], n: usize) -> Option<Vec<CDD>> {
    // LU with partial pivoting, then forward / back substitution per column (intermediate values stay of the size of the
    // inverse's entries, also when rows and columns are scaled very differently)
    let mut m = a.to_vec(); let mut perm: Vec<usize> = (0..n).collect();
    for k in 0..n {
        let mut p = k; let mut best = m[k * n + k].abs();
        for i in k + 1..n { let v = m[i * n + k].abs(); if v > best { best = v; p = i; } }
        if !(best > 0.0) || !best.is_finite() { return None; }
        if p != k { for j in 0..n { m.swap(k * n + j, p * n + j); } perm.swap(k, p); }
        let piv = m[k * n + k];
        for i in k + 1..n { let f = cdiv(m[i * n + k], piv); m[i * n + k] = f; if f.abs() != 0.0 { for j in k + 1..n { let t = f.mul(m[k * n + j]); m[i * n + j] = m[i * n + j].sub(t); } } }
    }
    let mut x = vec![CDD::ZERO; n * n];
    for c in 0..n {
        let mut y: Vec<CDD> = (0..n).map(|i| if perm[i] == c { CDD::from(1.0, 0.0) } else { CDD::ZERO }).collect();
        for i in 0..n { for k in 0..i { let t = m[i * n + k].mul(y[k]); y[i] = y[i].sub(t); } }
        for i in (0..n).rev() { for k in i + 1..n { let t = m[i * n + k].mul(y[k]); y[i] = y[i].sub(t); } y[i] = cdiv(y[i], m[i * n + i]); }
        for i in 0..n { x[i * n + c] = y[i]; }
    }
    Some(x)
}
fn run_seq<T: GEl>(case: &Value, out: &mut Out) {
    let n = getu(case, "n");
    let mut m = build_mat::<T>(case);
    let base = meta_of(case);
    for (k, st) in case["steps"].as_array().unwrap().iter().enumerate() {
        let mut meta = base.clone(); meta["k"] = json!(k);
        // the domain of each query is decided on the object's CURRENT entries (exact integer arithmetic, trusted)
        let cur = if m.rows() == n && m.cols() == n { int_proj(&m) } else { None };
        let nonsing = cur.as_ref().map(|(re, im)| nonsingular_mod_p(re, im, n)).unwrap_or(false);
        match gets(st, "op") {
            "det" => { meta["inv"] = json!(nonsing); if let Some((re, _)) = &cur { if !is_rat::<T>() || bareiss_fits(re, n).is_some() { q_det(&meta, &m, None, out); } } }
            "inverse" => { if let Some((re, _)) = &cur { if nonsing && guarded(|| if is_rat::<T>() { inverse_fits(re, n) } else { kappa_ok(&mat_cdd(&m), n) }).unwrap_or(false) { q_inverse(&meta, &m, true, out); } } }
            "solve" => { if let Some((re, _)) = &cur { let b = svec::<T>(st, "b"); if nonsing && (!is_rat::<T>() || guarded(|| solve_fits(re, n, &ivec(&st["b"]))).unwrap_or(false)) { q_solve(&meta, &m, &b, None, out); } } }
            // calls whose results are discarded: they give a memoising implementation the opportunity to cache
            "prime" => { let _ = guarded(|| m.determinant()); if nonsing { let _ = guarded(|| m.inverse()); } }
            _ => { let _ = guarded(|| mutate(&mut m, st)); }
        }
    }
}

fn run<T: GEl>(case: &Value, out: &mut Out) {
    match gets(case, "kind") { "solve" => run_solve::<T>(case, out), "det" => run_det::<T>(case, out), "seq" => run_seq::<T>(case, out),
        k => { eprintln!("TOOL-ERROR unknown gauss case kind {}", k); std::process::exit(2) } }
}
/// a part of a history whose results are not logged: every LU-based entry point is called once (panics are caught)
fn run_quiet<T: GEl>(part: &Value) {
    let a0 = build_mat::<T>(part); let n = a0.rows();
    let b = if part.get("b").is_some() { build_rhs::<T>(part) } else { Vector::create((0..n).map(|i| a0[(i, 0)]).collect()) };
    let _ = guarded(|| a0.determinant());
    if gets(part, "kind") == "solve" || flag(part, "inv", false) {
        let _ = guarded(|| a0.inverse());
        let mut c = a0.clone(); let _ = guarded(|| c.solve_lu(&b));
        let mut c = a0.clone(); let _ = guarded(|| c.solve_basic(&b));
    }
    let mut c = a0.clone(); let _ = guarded(|| c.lu_decomp_in_place());
}
/// a part that makes the entry points PANIC part-way (exact arithmetic overflowing after a row exchange and an elimination
/// step, a right-hand side of the wrong length, a singular system): whatever such a call leaves behind (thread-local or static
/// scratch, half-updated buffers) must not influence the calls that follow.  The panicking calls themselves are not judged.
fn run_poison<T: GEl>(part: &Value) {
    let a0 = match guarded(|| build_mat::<T>(part)) { Ok(m) => m, Err(_) => return };
    let b: Vector<T> = Vector::create(ivec(&part["b"]).iter().map(|v| T::mk(*v, 0, 0, 1)).collect());
    for entry in part["order"].as_array().map(|a| a.iter().map(|v| v.as_str().unwrap_or("").to_string()).collect::<Vec<_>>()).unwrap_or_default() {
        match entry.as_str() {
            "basic" => { let mut c = a0.clone(); let _ = guarded(|| c.solve_basic(&b)); }
            "lu" => { let mut c = a0.clone(); let _ = guarded(|| c.solve_lu(&b)); }
            "decomp" => { let mut c = a0.clone(); let _ = guarded(|| c.lu_decomp_in_place()); }
            "det" => { let _ = guarded(|| a0.determinant()); }
            _ => { let _ = guarded(|| a0.inverse()); }
        }
    }
}
/// kind "mix": a HISTORY of calls of different sizes, element types and entry points in one case (so that a replay
/// re-executes the whole history): state leaking from one call into the next (static / thread-local scratch, capacity reuse)
fn run_mix(case: &Value, out: &mut Out) {
    for (k, part) in case["parts"].as_array().unwrap().iter().enumerate() {
        let mut p = part.clone(); p["cid"] = case["cid"].clone(); p["mixk"] = json!(k);
        if gets(&p, "kind") == "poison" {
            match gets(&p, "ty") { "rat" => run_poison::<Rat>(&p), "f64" => run_poison::<f64>(&p), _ => run_poison::<Cmplx>(&p) }
        } else if flag(&p, "quiet", false) {
            match gets(&p, "ty") { "rat" => run_quiet::<Rat>(&p), "f64" => run_quiet::<f64>(&p), _ => run_quiet::<Cmplx>(&p) }
        } else { exec(&p, out); }
    }
}
pub fn exec(case: &Value, out: &mut Out) {
    if gets(case, "kind") == "mix" { return run_mix(case, out); }
    match gets(case, "ty") { "rat" => run::<Rat>(case, out), "f64" => run::<f64>(case, out), "cx" => run::<Cmplx>(case, out),
        t => { eprintln!("TOOL-ERROR unknown type {}", t); std::process::exit(2) } }
}

// ------------------------------------------------------------------ case generation
/// integer mantissas (real, imaginary) and binary exponents of an n x n matrix
#[derive(Clone)]
struct Gm { n: usize, re: Vec<i64>, im: Vec<i64>, ex: Vec<i64>, uni: i64 }   // uni: binary exponent common to ALL entries (tiny ones included)
impl Gm {
    fn zeros(n: usize) -> Gm { Gm { n, re: vec![0; n * n], im: vec![0; n * n], ex: vec![0; n * n], uni: 0 } }
    fn set(&mut self, i: usize, j: usize, v: (i64, i64)) { self.re[i * self.n + j] = v.0; self.im[i * self.n + j] = v.1; }
    fn get(&self, i: usize, j: usize) -> (i64, i64) { (self.re[i * self.n + j], self.im[i * self.n + j]) }
    fn permute_rows(&self, p: &[usize]) -> Gm { let n = self.n; let mut g = Gm::zeros(n); for i in 0..n { for j in 0..n { g.set(i, j, self.get(p[i], j)); g.ex[i * n + j] = self.ex[p[i] * n + j]; } } g }
    fn permute_cols(&self, p: &[usize]) -> Gm { let n = self.n; let mut g = Gm::zeros(n); for i in 0..n { for j in 0..n { g.set(i, j, self.get(i, p[j])); g.ex[i * n + j] = self.ex[i * n + p[j]]; } } g }
    /// mantissas with the tiny entries (exponent <= -50 relative to the rest) set to zero: the matrix whose exact
    /// nonsingularity decides the nonsingularity of the floating-point matrix
    fn nonsingular(&self) -> bool {
        let (mut re, mut im) = (self.re.clone(), self.im.clone());
        for k in 0..self.n * self.n { if self.ex[k] <= TINY_MARK { re[k] = 0; im[k] = 0; } }
        nonsingular_mod_p(&re, &im, self.n)
    }
}
/// exponents at or below this mark are "tiny" entries (individually scaled), everything above is row+column scaling
const TINY_MARK: i64 = -5000;
/// a tiny entry is stored with exponent TINY_MARK - t and means 2^-t relative scale; resolved when the case is written
fn tiny_exp(t: i64) -> i64 { TINY_MARK - t }

struct Draw { cx: bool, amax: i64 }
impl Draw {
    fn any(&self, rng: &mut StdRng) -> (i64, i64) { (rng.gen_range(-self.amax..=self.amax), if self.cx { rng.gen_range(-self.amax..=self.amax) } else { 0 }) }
    fn nz(&self, rng: &mut StdRng) -> (i64, i64) { loop { let v = self.any(rng); if v != (0, 0) { return v; } } }
}
fn rand_perm(rng: &mut StdRng, n: usize) -> Vec<usize> { let mut p: Vec<usize> = (0..n).collect(); p.shuffle(rng); p }
/// permutation that is a product of exactly t transpositions applied to the identity (parity = t mod 2)
fn perm_of_transpositions(rng: &mut StdRng, n: usize, t: usize) -> Vec<usize> {
    let mut p: Vec<usize> = (0..n).collect();
    if n >= 2 { for _ in 0..t { let i = rng.gen_range(0..n); let mut j = rng.gen_range(0..n - 1); if j >= i { j += 1; } p.swap(i, j); } }
    p
}

fn fam_dense(rng: &mut StdRng, n: usize, d: &Draw) -> Gm { let mut g = Gm::zeros(n); for i in 0..n { for j in 0..n { g.set(i, j, d.any(rng)); } } g }
fn fam_sparse(rng: &mut StdRng, n: usize, d: &Draw) -> Gm {
    // a permuted nonzero diagonal keeps the pattern structurally nonsingular; a few more entries per row
    let p = rand_perm(rng, n); let mut g = Gm::zeros(n);
    for i in 0..n { g.set(i, p[i], d.nz(rng)); for j in 0..n { if j != p[i] && rng.gen_bool(0.25) { g.set(i, j, d.nz(rng)); } } }
    g
}
/// columns 0..s upper triangular with nonzero diagonal; in column s the rows s.. hold zero / tiny values except row r.
/// Elimination therefore meets a zero (tiny) leading pivot exactly at step s and must exchange with row r.
fn fam_zeropiv(rng: &mut StdRng, n: usize, d: &Draw, s: usize, r: usize, tiny: i64, shuffle: bool) -> Gm {
    let mut g = Gm::zeros(n);
    for i in 0..n { for j in 0..n {
        if j < s { if i < j { g.set(i, j, d.any(rng)); } else if i == j { g.set(i, j, d.nz(rng)); } }
        else if j == s { if i < s || i == r { g.set(i, j, d.nz(rng)); } else if tiny > 0 { g.set(i, j, d.nz(rng)); g.ex[i * n + j] = tiny_exp(tiny); } }
        else { g.set(i, j, d.any(rng)); }
    } }
    if shuffle {
        // permute the rows: within the first s rows and within the rest (the forced exchange stays at step s)
        let mut p: Vec<usize> = (0..n).collect(); p[..s].shuffle(rng); p[s..].shuffle(rng);
        g = g.permute_rows(&p);
    }
    g
}
fn fam_triangular(rng: &mut StdRng, n: usize, d: &Draw, upper: bool, zero_diag: Option<usize>) -> Gm {
    let mut g = Gm::zeros(n);
    for i in 0..n { for j in 0..n { if i == j { if zero_diag != Some(i) { g.set(i, j, d.nz(rng)); } } else if (j > i) == upper { g.set(i, j, d.any(rng)); } } }
    g
}
fn fam_permtri(rng: &mut StdRng, n: usize, d: &Draw) -> Gm {
    let up = rng.gen_bool(0.5); let g = fam_triangular(rng, n, d, up, None);
    let (p, q) = (rand_perm(rng, n), rand_perm(rng, n));
    g.permute_rows(&p).permute_cols(&q)
}
/// signed / scaled permutation matrix built from t transpositions, optionally with small extra entries
fn fam_permlike(rng: &mut StdRng, n: usize, d: &Draw, t: usize, extras: bool) -> Gm {
    let p = perm_of_transpositions(rng, n, t); let mut g = Gm::zeros(n);
    let big = Draw { cx: d.cx, amax: d.amax.max(1) };
    for i in 0..n { let mut v = big.nz(rng); if extras { v = (v.0 * 3, v.1 * 3); } g.set(i, p[i], v); }
    if extras { for i in 0..n { for j in 0..n { if j != p[i] && rng.gen_bool(0.3) { g.set(i, j, (rng.gen_range(-1..=1), if d.cx { rng.gen_range(-1..=1) } else { 0 })); } } } }
    g
}
fn add_scaling(rng: &mut StdRng, g: &mut Gm, row_spread: i64, col_spread: i64, uniform: i64) {
    let n = g.n;
    let r: Vec<i64> = (0..n).map(|_| if row_spread > 0 { rng.gen_range(-row_spread..=row_spread) } else { 0 }).collect();
    let c: Vec<i64> = (0..n).map(|_| if col_spread > 0 { rng.gen_range(-col_spread..=col_spread) } else { 0 }).collect();
    for i in 0..n { for j in 0..n { let k = i * n + j; if g.ex[k] > TINY_MARK { g.ex[k] += r[i] + c[j] + uniform; } } }
}
/// make row `dst` a copy / combination of other rows (rank deficiency by construction)
fn dup_row(g: &mut Gm, dst: usize, src: usize, src2: Option<usize>) {
    for j in 0..g.n { let a = g.get(src, j); let b = src2.map(|s| g.get(s, j)).unwrap_or((0, 0)); g.set(dst, j, (a.0 + b.0, a.1 + b.1)); }
}
fn dup_col(g: &mut Gm, dst: usize, src: usize) { for i in 0..g.n { let a = g.get(i, src); g.set(i, dst, a); } }
fn zero_row(g: &mut Gm, i: usize) { for j in 0..g.n { g.set(i, j, (0, 0)); } }
fn zero_col(g: &mut Gm, j: usize) { for i in 0..g.n { g.set(i, j, (0, 0)); } }
fn fam_lowrank(rng: &mut StdRng, n: usize, d: &Draw, rank: usize) -> Gm {
    // (n x rank) * (rank x n) with entries in -1..1 (Gaussian integers for cx)
    let s = Draw { cx: d.cx, amax: 1 };
    let u: Vec<(i64, i64)> = (0..n * rank).map(|_| s.any(rng)).collect(); let v: Vec<(i64, i64)> = (0..rank * n).map(|_| d.any(rng)).collect();
    let mut g = Gm::zeros(n);
    for i in 0..n { for j in 0..n { let mut acc = (0i64, 0i64); for k in 0..rank { let (a, b) = (u[i * rank + k], v[k * n + j]); acc = (acc.0 + a.0 * b.0 - a.1 * b.1, acc.1 + a.0 * b.1 + a.1 * b.0); } g.set(i, j, acc); } }
    g
}

/// resolve the tiny markers into real binary exponents
fn final_exps(g: &Gm) -> Vec<i64> { g.ex.iter().zip(g.re.iter().zip(g.im.iter())).map(|(e, (r, i))| if *r == 0 && *i == 0 { 0 } else { g.uni + if *e <= TINY_MARK { -(TINY_MARK - *e) } else { *e } }).collect() }

/// cases are collected first: the histories ("mix" cases) are assembled from them and written in front
struct Sink<'a> { out: &'a mut Out, buf: Vec<Value>, counts: std::collections::BTreeMap<String, i64> }
impl<'a> Sink<'a> {
    fn push(&mut self, mut c: Value) { c["suite"] = json!("gauss");
        *self.counts.entry(format!("{}/{}/{}", gets(&c, "kind"), gets(&c, "ty"), gets(&c, "fam"))).or_insert(0) += 1;
        self.buf.push(c); }
    fn finish(&mut self, mixes: Vec<Value>) {
        let mut cid = 0i64;
        for mut c in mixes.into_iter().chain(std::mem::take(&mut self.buf).into_iter()) { cid += 1; c["cid"] = json!(cid); c["suite"] = json!("gauss"); self.out.raw(&c); }
    }
}
fn case_json(ty: &str, kind: &str, fam: &str, g: &Gm) -> Value {
    let n = g.n;
    let mut c = json!({"ty": ty, "kind": kind, "fam": fam, "n": n, "a": {"r": n, "c": n, "d": g.re}});
    if ty == "cx" { c["ai"] = json!({"r": n, "c": n, "d": g.im}); }
    let ex = final_exps(g);
    if ty != "rat" && ex.iter().any(|e| *e != 0) { c["ae"] = json!(ex); }
    if ty == "rat" && g.uni != 0 { eprintln!("TOOL-ERROR scaled exact case"); std::process::exit(2) }
    c
}
const RAT_AMAX: [i64; 9] = [9, 9, 9, 9, 4, 3, 2, 1, 1];

/// ---- C01: nonsingular systems
fn gen_solve(tier: &str, seed: u64, sink: &mut Sink) {
    let quick = tier == "quick";
    let mut rng = rng(seed, 101);
    let reps = if quick { 3 } else { 40 };
    for n in 1..=8usize { for ty in ["rat", "f64", "cx"] {
        let cx = ty == "cx"; let rat = ty == "rat";
        let small = Draw { cx, amax: if rat { RAT_AMAX[n] } else { 9 } };
        let wide = Draw { cx, amax: if rat { RAT_AMAX[n] } else { 1 << 20 } };
        // one attempt = (family name, matrix, right-hand-side exponent); rejected unless provably nonsingular (and, for
        // the exact type, small enough for TLC's 32-bit integers)
        let emit = |rng: &mut StdRng, sink: &mut Sink, fam: &str, make: &mut dyn FnMut(&mut StdRng) -> (Gm, i64)| {
            for _try in 0..400 {
                let (g, bexp) = make(rng);
                if !g.nonsingular() { continue; }
                let bmax = if rat { RAT_AMAX[n].min(3) } else { 9 };
                let b: Vec<i64> = (0..n).map(|_| rng.gen_range(-bmax..=bmax)).collect();
                let bi: Vec<i64> = (0..n).map(|_| if cx { rng.gen_range(-bmax..=bmax) } else { 0 }).collect();
                if rat && !solve_fits(&g.re, n, &b) { continue; }
                let mut c = case_json(ty, "solve", fam, &g);
                c["b"] = json!(b); if cx { c["bi"] = json!(bi); }
                if bexp != 0 { c["be"] = json!(vec![bexp; n]); }
                sink.push(c); return;
            }
        };
        for _ in 0..reps {
            emit(&mut rng, sink, "dense", &mut |r| (fam_dense(r, n, &small), 0));
            emit(&mut rng, sink, "sparse", &mut |r| (fam_sparse(r, n, &small), 0));
            emit(&mut rng, sink, "permtri", &mut |r| (fam_permtri(r, n, &small), 0));
            if !rat {
                emit(&mut rng, sink, "dense20", &mut |r| { let mut g = fam_dense(r, n, &wide); add_scaling(r, &mut g, 0, 0, -20); (g, 0) });
                // graded rows / columns: ratios up to 2^20 ~ 1e6 along each axis
                emit(&mut rng, sink, "graded", &mut |r| { let mut g = fam_dense(r, n, &small); let (rs, cs) = [(10, 0), (0, 10), (10, 10)][r.gen_range(0..3)]; add_scaling(r, &mut g, rs, cs, 0); (g, 0) });
                // uniformly scaled by 2^(+-332) ~ 1e(+-100); the right-hand side with the same, the opposite or no scaling
                emit(&mut rng, sink, "scaled", &mut |r| { let mut g = if r.gen_bool(0.5) { fam_dense(r, n, &small) } else { fam_sparse(r, n, &small) };
                    let s: i64 = if r.gen_bool(0.5) { 332 } else { -332 }; add_scaling(r, &mut g, 0, 0, s);
                    let bexp = if cx { [s, 0][r.gen_range(0..2)] } else { [s, 0, -s][r.gen_range(0..3)] }; (g, bexp) });
            }
        }
        // zero / tiny leading pivot at every elimination step s, exchange partner r = last row and one random row
        if n >= 2 {
            let zreps = if quick { 1 } else { 8 };
            for _ in 0..zreps { for s in 0..n - 1 {
                // exact zero, and leading pivots of relative size 2^-20 ~ 1e-6, 2^-40 ~ 1e-12, 2^-57 ~ 1e-17, 2^-997 ~ 1e-300
                let tinies: Vec<i64> = if rat { vec![0] } else { vec![0, 20, 40, 57, 997] };
                for tiny in tinies {
                    let rs = [n - 1, rng.gen_range(s + 1..n)];
                    for (q, r0) in rs.iter().enumerate() {
                        let shuffle = q == 1;
                        emit(&mut rng, sink, if tiny == 0 { "zeropiv" } else { "tinypiv" }, &mut |r| (fam_zeropiv(r, n, &small, s, *r0, tiny, shuffle), 0));
                    }
                }
            } }
        }
    } }
}

/// ---- C02: determinants of arbitrary (also singular) matrices, inverses of nonsingular ones
fn gen_det(tier: &str, seed: u64, sink: &mut Sink) {
    let quick = tier == "quick";
    let mut rng = rng(seed, 202);
    let reps = if quick { 2 } else { 25 };
    for n in 1..=8usize { for ty in ["rat", "f64", "cx"] {
        let cx = ty == "cx"; let rat = ty == "rat";
        let amax = if rat { [9, 9, 9, 9, 3, 2, 2, 1, 1][n] } else { 9 };
        let small = Draw { cx, amax };
        let emit = |rng: &mut StdRng, sink: &mut Sink, fam: &str, want_singular: bool, make: &mut dyn FnMut(&mut StdRng) -> Gm| {
            for _try in 0..400 {
                let g = make(rng);
                let nonsing = g.nonsingular();
                if want_singular && nonsing { continue; }
                let mut inv = nonsing;
                if rat {
                    if bareiss_fits(&g.re, n).is_none() { continue; }
                    if inv && !inverse_fits(&g.re, n) { inv = false; }
                } else if inv {
                    // the left-residual guard of Trace_Gauss assumes kappa * 8 n^3 2^(n-1) * eps < 1: keep kappa_inf <= 1e8
                    inv = cond_ok(&g, cx);
                }
                let mut c = case_json(ty, "det", fam, &g);
                c["inv"] = json!(inv); c["sing"] = json!(!nonsing);
                sink.push(c); return;
            }
        };
        for _ in 0..reps {
            emit(&mut rng, sink, "dense", false, &mut |r| fam_dense(r, n, &small));
            emit(&mut rng, sink, "sparse", false, &mut |r| fam_sparse(r, n, &small));
            emit(&mut rng, sink, "triangular", false, &mut |r| { let up = r.gen_bool(0.5); fam_triangular(r, n, &small, up, None) });
            emit(&mut rng, sink, "permtri", false, &mut |r| fam_permtri(r, n, &small));
            // permutation-like with a chosen number of transpositions: both parities at every order
            for t in [0usize, 1, 2, 3] { if t < n.max(1) || t == 0 {
                emit(&mut rng, sink, if t % 2 == 0 { "perm_even" } else { "perm_odd" }, false, &mut |r| fam_permlike(r, n, &small, t, false));
                emit(&mut rng, sink, if t % 2 == 0 { "permx_even" } else { "permx_odd" }, false, &mut |r| fam_permlike(r, n, &small, t, true));
            } }
            // singular families
            emit(&mut rng, sink, "zero_row", true, &mut |r| { let mut g = fam_dense(r, n, &small); zero_row(&mut g, r.gen_range(0..n)); g });
            emit(&mut rng, sink, "zero_col", true, &mut |r| { let mut g = fam_dense(r, n, &small); zero_col(&mut g, r.gen_range(0..n)); g });
            emit(&mut rng, sink, "sing_triangular", true, &mut |r| { let z = r.gen_range(0..n); let up = r.gen_bool(0.5); fam_triangular(r, n, &small, up, Some(z)) });
            if n >= 2 {
                emit(&mut rng, sink, "dup_row", true, &mut |r| { let mut g = fam_dense(r, n, &small); let p = rand_perm(r, n); dup_row(&mut g, p[0], p[1], None); g });
                emit(&mut rng, sink, "dup_col", true, &mut |r| { let mut g = fam_dense(r, n, &small); let p = rand_perm(r, n); dup_col(&mut g, p[0], p[1]); g });
                emit(&mut rng, sink, "lowrank", true, &mut |r| { let k = r.gen_range(1..n); fam_lowrank(r, n, &small, k) });
                emit(&mut rng, sink, "zero_rowcol", true, &mut |r| { let mut g = fam_sparse(r, n, &small); zero_row(&mut g, r.gen_range(0..n)); zero_col(&mut g, r.gen_range(0..n)); g });
            }
            if n >= 3 { emit(&mut rng, sink, "sum_row", true, &mut |r| { let mut g = fam_dense(r, n, &Draw { cx, amax: (amax / 2).max(1) }); let p = rand_perm(r, n); dup_row(&mut g, p[0], p[1], Some(p[2])); g }); }
            if !rat {
                emit(&mut rng, sink, "graded", false, &mut |r| { let mut g = fam_dense(r, n, &small); add_scaling(r, &mut g, 5, 5, 0); g });
                // uniform scaling keeps ||A||_F^n inside the floating-point range: |exponent| * n <= 880
                emit(&mut rng, sink, "scaled", false, &mut |r| { let mut g = fam_dense(r, n, &small); let s = (880 / n as i64).min(332); let s = if r.gen_bool(0.5) { s } else { -s }; add_scaling(r, &mut g, 0, 0, s); g });
                emit(&mut rng, sink, "scaled_sing", true, &mut |r| { let mut g = fam_dense(r, n, &small); zero_col(&mut g, r.gen_range(0..n)); let s = (880 / n as i64).min(332); let s = if r.gen_bool(0.5) { s } else { -s }; add_scaling(r, &mut g, 0, 0, s); g });
            }
        }
        emit(&mut rng, sink, "zero", true, &mut |_r| Gm::zeros(n));
        emit(&mut rng, sink, "identity", false, &mut |_r| { let mut g = Gm::zeros(n); for i in 0..n { g.set(i, i, (1, 0)); } g });
        emit(&mut rng, sink, "ones", n >= 2, &mut |_r| { let mut g = Gm::zeros(n); for i in 0..n { for j in 0..n { g.set(i, j, (1, 0)); } } g });
        emit(&mut rng, sink, "reversal", false, &mut |_r| { let mut g = Gm::zeros(n); for i in 0..n { g.set(i, n - 1 - i, (1, 0)); } g });
        emit(&mut rng, sink, "cyclic", false, &mut |_r| { let mut g = Gm::zeros(n); for i in 0..n { g.set(i, (i + 1) % n, (1, 0)); } g });
        // floats: in column s every candidate except one (possibly the diagonal itself) is tiny: only a search over ALL rows s.. by magnitude finds it
        if n >= 2 && !rat { for s in 0..n - 1 { for tiny in [20i64, 40, 57, 997] {
            emit(&mut rng, sink, "tinypiv", false, &mut |r| { let r0 = r.gen_range(s..n); fam_zeropiv(r, n, &small, s, r0, tiny, true) });
            emit(&mut rng, sink, "tinybelow", false, &mut |r| fam_zeropiv(r, n, &small, s, s, tiny, false));
        } } }
        // forced exchanges at step s (as in C01): exchange counts of every size
        if n >= 2 { for s in 0..n - 1 { emit(&mut rng, sink, "zeropiv", false, &mut |r| { let r0 = r.gen_range(s + 1..n); fam_zeropiv(r, n, &small, s, r0, 0, true) }); } }
    } }
}
fn cond_ok(g: &Gm, _cx: bool) -> bool {
    let n = g.n; let ex = final_exps(g);
    let a: Vec<CDD> = (0..n * n).map(|k| CDD::from(g.re[k] as f64 * pow2(ex[k]), g.im[k] as f64 * pow2(ex[k]))).collect();
    kappa_ok(&a, n)
}

/// tier: "quick" | "thorough", optionally followed by ":c01" or ":c02" to generate one property's cases only
pub fn gen(tier: &str, seed: u64, out: &mut Out) {
    let mut it = tier.split(':'); let t = it.next().unwrap_or("quick"); let which = it.next().unwrap_or("");
    let mut sink = Sink { out, buf: Vec::new(), counts: Default::default() };
    let mut mixes = Vec::new();
    if which != "c02" {
        gen_solve(t, seed, &mut sink); gen_solve_hard(t, seed, &mut sink); gen_seq(t, seed, "c01", &mut sink); gen_ill(t, seed, &mut sink); gen_banded(t, seed, "solve", &mut sink);
        mixes.extend(gen_mix(t, seed, "solve", &sink.buf));
        gen_sweep(t, seed, "solve", &mut sink); gen_wilkinson(t, seed, "solve", &mut sink); gen_large(t, seed, &mut sink); gen_rowcol(t, seed, "solve", &mut sink); gen_structured(t, seed, "solve", &mut sink); gen_huge(t, seed, "solve", &mut sink);
    }
    let mark = sink.buf.len();
    if which != "c01" {
        gen_det(t, seed, &mut sink); gen_det_hard(t, seed, &mut sink); gen_seq(t, seed, "c02", &mut sink); gen_banded(t, seed, "det", &mut sink);
        mixes.extend(gen_mix(t, seed, "det", &sink.buf[mark..]));
        gen_sweep(t, seed, "det", &mut sink); gen_wilkinson(t, seed, "det", &mut sink); gen_rowcol(t, seed, "det", &mut sink); gen_structured(t, seed, "det", &mut sink); gen_huge(t, seed, "det", &mut sink);
    }
    if std::env::var("GAUSS_COUNTS").is_ok() { for (k, v) in &sink.counts { eprintln!("{} {}", k, v); } }
    sink.finish(mixes);
}

// ------------------------------------------------------------------ hardening families (special exact values, extreme magnitudes, sequences)
fn b_random(rng: &mut StdRng, n: usize, cx: bool, bmax: i64) -> Vec<(i64, i64)> { (0..n).map(|_| (rng.gen_range(-bmax..=bmax), if cx { rng.gen_range(-bmax..=bmax) } else { 0 })).collect() }
/// one solve case; false if the matrix is not provably nonsingular or (exact type) too large for TLC's integers
fn push_solve(sink: &mut Sink, ty: &str, fam: &str, g: &Gm, b: &[(i64, i64)], bexp: &[i64], adiv: i64) -> bool {
    let n = g.n;
    if !g.nonsingular() { return false; }
    let bre: Vec<i64> = b.iter().map(|v| v.0).collect(); let bim: Vec<i64> = b.iter().map(|v| v.1).collect();
    if ty == "rat" && (adiv != 1 || g.ex.iter().any(|e| *e != 0) || !solve_fits(&g.re, n, &bre)) { return false; }
    let mut c = case_json(ty, "solve", fam, g);
    c["b"] = json!(bre); if ty == "cx" { c["bi"] = json!(bim); }
    if ty != "rat" && bexp.iter().any(|e| *e != 0) { c["be"] = json!(bexp); }
    if adiv != 1 { c["adiv"] = json!(adiv); }
    sink.push(c); true
}
/// one determinant / inverse case.  det: call determinant(); inverse() is called iff the matrix is provably nonsingular;
/// graded: the conditioning is only due to scaling (left residual not judged)
fn push_det(sink: &mut Sink, ty: &str, fam: &str, g: &Gm, adiv: i64, det: bool, graded: bool) -> bool {
    let n = g.n; let rat = ty == "rat";
    if rat && (adiv != 1 || g.ex.iter().any(|e| *e != 0) || bareiss_fits(&g.re, n).is_none()) { return false; }
    let nonsing = g.nonsingular();
    let inv = nonsing && (!rat || inverse_fits(&g.re, n));
    if !det && !inv { return false; }
    let mut c = case_json(ty, "det", fam, g);
    c["inv"] = json!(inv); c["sing"] = json!(!nonsing);
    if !det { c["nodet"] = json!(true); }
    if inv && !rat { c["lres"] = json!(!graded && adiv == 1 && cond_ok(g, ty == "cx")); }
    if adiv != 1 { c["adiv"] = json!(adiv); }
    sink.push(c); true
}
/// rows U_1, ..., U_{n-1}, U_0 of an upper triangular U: every elimination step must exchange with the LAST row
fn fam_cyc_upper(rng: &mut StdRng, n: usize, d: &Draw) -> Gm {
    let u = fam_triangular(rng, n, d, true, None);
    let p: Vec<usize> = (0..n).map(|i| (i + 1) % n).collect();
    u.permute_rows(&p)
}
/// units of the element type: +-1 (and +-i for complex); `fifth`: also (+-3 +-4i), (+-4 +-3i) meaning x/5 (modulus exactly 1)
fn unit_value(rng: &mut StdRng, cx: bool, fifth: bool) -> (i64, i64) {
    let s = |rng: &mut StdRng| if rng.gen_bool(0.5) { 1 } else { -1 };
    let k = if fifth { 5 } else { 1 };
    if !cx { return (k * s(rng), 0); }
    match rng.gen_range(0..if fifth { 4 } else { 2 }) { 0 => (k * s(rng), 0), 1 => (0, k * s(rng)), 2 => (3 * s(rng), 4 * s(rng)), _ => (4 * s(rng), 3 * s(rng)) }
}
fn gmul(a: (i64, i64), b: (i64, i64)) -> (i64, i64) { (a.0 * b.0 - a.1 * b.1, a.0 * b.1 + a.1 * b.0) }
/// A = P L U with L unit lower, entries of L in {0, +-1}, U upper with unit-modulus diagonal: EVERY pivot of any
/// maximal-magnitude elimination has modulus exactly 1, with non-zero entries below it.  Returns (mantissas, divisor).
fn fam_unitpiv(rng: &mut StdRng, n: usize, d: &Draw, fifth: bool) -> (Gm, i64) {
    let k = if fifth { 5 } else { 1 };
    let mut l = Gm::zeros(n); let mut u = Gm::zeros(n);
    for i in 0..n { for j in 0..n {
        if i == j { l.set(i, j, (1, 0)); u.set(i, j, unit_value(rng, d.cx, fifth)); }
        else if i > j { l.set(i, j, ([-1, 1, 1, 0][rng.gen_range(0..4)], 0)); }
        else { let v = d.any(rng); u.set(i, j, (v.0 * k, v.1 * k)); }
    } }
    let mut g = Gm::zeros(n);
    for i in 0..n { for j in 0..n { let mut acc = (0, 0); for q in 0..n { let t = gmul(l.get(i, q), u.get(q, j)); acc = (acc.0 + t.0, acc.1 + t.1); } g.set(i, j, acc); } }
    let p = rand_perm(rng, n);
    (g.permute_rows(&p), k)
}
fn fam_identity(n: usize) -> Gm { let mut g = Gm::zeros(n); for i in 0..n { g.set(i, i, (1, 0)); } g }
fn fam_unit_tri(rng: &mut StdRng, n: usize, d: &Draw, upper: bool) -> Gm { let mut g = fam_triangular(rng, n, d, upper, None); for i in 0..n { g.set(i, i, (1, 0)); } g }
/// elementary matrices: identity plus one off-diagonal entry / one scaled row / two rows exchanged
fn fam_elementary(rng: &mut StdRng, n: usize, d: &Draw, kind: usize) -> Gm {
    let mut g = fam_identity(n);
    if n == 1 { if kind == 1 { g.set(0, 0, d.nz(rng)); } return g; }
    let p = rand_perm(rng, n);
    match kind { 0 => g.set(p[0], p[1], d.nz(rng)), 1 => g.set(p[0], p[0], d.nz(rng)), _ => { g.set(p[0], p[0], (0, 0)); g.set(p[1], p[1], (0, 0)); g.set(p[0], p[1], (1, 0)); g.set(p[1], p[0], (1, 0)); } }
    g
}
fn fam_diagonal(rng: &mut StdRng, n: usize, d: &Draw, zeros: usize) -> Gm {
    let mut g = Gm::zeros(n); let p = rand_perm(rng, n);
    for i in 0..n { g.set(i, i, d.nz(rng)); } for q in 0..zeros.min(n) { g.set(p[q], p[q], (0, 0)); } g
}
/// column s is zero on and below the diagonal AFTER s elimination steps (first s columns upper triangular): the
/// factorisation meets an all-zero pivot column exactly at stage s
fn fam_zerostage(rng: &mut StdRng, n: usize, d: &Draw, s: usize, shuffle: bool) -> Gm {
    let mut g = Gm::zeros(n);
    for i in 0..n { for j in 0..n {
        if j < s { if i < j { g.set(i, j, d.any(rng)); } else if i == j { g.set(i, j, d.nz(rng)); } }
        else if j == s { if i < s { g.set(i, j, d.nz(rng)); } }
        else { g.set(i, j, d.any(rng)); }
    } }
    if shuffle { let mut p: Vec<usize> = (0..n).collect(); p[..s].shuffle(rng); p[s..].shuffle(rng); g = g.permute_rows(&p); }
    g
}
/// dense, column k an integer combination of the columns before it (k = 0: zero column)
fn fam_depcol(rng: &mut StdRng, n: usize, d: &Draw, k: usize) -> Gm {
    let mut g = fam_dense(rng, n, d);
    let w: Vec<i64> = (0..k).map(|_| rng.gen_range(-1..=1)).collect();
    for i in 0..n { let mut acc = (0, 0); for q in 0..k { let v = g.get(i, q); acc = (acc.0 + w[q] * v.0, acc.1 + w[q] * v.1); } g.set(i, k, acc); }
    g
}
/// per-row / per-column binary exponents +-e, half of each sign (the product of the scale factors is 1 for even n)
fn balanced_exps(rng: &mut StdRng, n: usize, e: i64) -> Vec<i64> { let mut v: Vec<i64> = (0..n).map(|i| if i < (n + 1) / 2 { -e } else { e }).collect(); if n % 2 == 1 { v[0] = 0; } v.shuffle(rng); v }
fn scale_rows_cols(g: &mut Gm, r: &[i64], c: &[i64]) { let n = g.n; for i in 0..n { for j in 0..n { g.ex[i * n + j] += r[i] + c[j]; } } }

/// right-hand sides with exact special values: zero vector, unit vectors, leading zeros, a column / a row of A itself
fn special_rhs(rng: &mut StdRng, g: &Gm, cx: bool, all_units: bool) -> Vec<(String, Vec<(i64, i64)>, Vec<i64>)> {
    let n = g.n; let ex = final_exps(g); let mut v = Vec::new();
    v.push(("b_zero".to_string(), vec![(0, 0); n], vec![0; n]));
    let ks: Vec<usize> = if all_units { (0..n).collect() } else { vec![rng.gen_range(0..n)] };
    for k in ks { v.push((format!("b_e{}", k), (0..n).map(|i| if i == k { (1, 0) } else { (0, 0) }).collect(), vec![0; n])); }
    if n >= 2 { let z = rng.gen_range(1..n); let r = b_random(rng, n, cx, 3); v.push(("b_lead0".to_string(), (0..n).map(|i| if i < z { (0, 0) } else if r[i] == (0, 0) { (1, 0) } else { r[i] }).collect(), vec![0; n])); }
    let j = rng.gen_range(0..n); v.push(("b_col".to_string(), (0..n).map(|i| g.get(i, j)).collect(), (0..n).map(|i| ex[i * n + j]).collect()));
    let i = rng.gen_range(0..n); v.push(("b_row".to_string(), (0..n).map(|j| g.get(i, j)).collect(), (0..n).map(|j| ex[i * n + j]).collect()));
    v
}

/// ---- C01 hardening: special exact values (class 2) and extreme magnitudes (class 3)
fn gen_solve_hard(tier: &str, seed: u64, sink: &mut Sink) {
    let quick = tier == "quick";
    let mut rng = rng(seed, 303);
    let reps = if quick { 1 } else { 6 };
    for _rep in 0..reps { for n in 1..=8usize { for ty in ["rat", "f64", "cx"] {
        let cx = ty == "cx"; let rat = ty == "rat";
        let small = Draw { cx, amax: if rat { RAT_AMAX[n].min(3) } else { 9 } };
        // (2) exchanges at every step x special right-hand sides; exact unit pivots; exactly structured matrices
        let mut fams: Vec<(String, Gm, i64, bool)> = Vec::new();     // (name, matrix, divisor, all unit vectors?)
        fams.push(("cyc_upper".into(), fam_cyc_upper(&mut rng, n, &small), 1, true));
        fams.push(("dense".into(), fam_dense(&mut rng, n, &small), 1, true));
        if n >= 2 { let s = rng.gen_range(0..n - 1); let r0 = rng.gen_range(s + 1..n); fams.push(("zeropiv".into(), fam_zeropiv(&mut rng, n, &small, s, r0, 0, true), 1, true)); }
        { let (g, k) = fam_unitpiv(&mut rng, n, &small, false); fams.push(("unitpiv".into(), g, k, true)); }
        if cx { let (g, k) = fam_unitpiv(&mut rng, n, &small, true); fams.push(("unitpiv5".into(), g, k, false)); }
        fams.push(("identity".into(), fam_identity(n), 1, false));
        let up = rng.gen_bool(0.5); fams.push(("unit_tri".into(), fam_unit_tri(&mut rng, n, &small, up), 1, false));
        let kind = rng.gen_range(0..3); fams.push(("elementary".into(), fam_elementary(&mut rng, n, &small, kind), 1, false));
        let t = rng.gen_range(0..4); fams.push(("permutation".into(), fam_permlike(&mut rng, n, &Draw { cx, amax: 1 }, t, false), 1, false));
        fams.push(("diagonal".into(), fam_diagonal(&mut rng, n, &small, 0), 1, false));
        for (name, g, k, all) in &fams {
            let b = b_random(&mut rng, n, cx, 3);
            push_solve(sink, ty, name, g, &b, &vec![0; n], *k);
            for (bn, b, be) in special_rhs(&mut rng, g, cx, *all) { push_solve(sink, ty, &format!("{}+{}", name, bn), g, &b, &be, *k); }
        }
        if rat { continue; }
        // (3) extreme magnitudes: uniform scaling, balanced row / column grading (pivot products under/overflow), tiny column / row
        // Complex<f64> multiplies and divides by the textbook formulas (|w|^2, products of two entries): its stated range is
        // 1e+-100 ~ 2^+-332 (C13), and entries of ONE system may differ by at most ~2^400 before intermediate products leave the range
        let scales: Vec<i64> = if cx { vec![60, 200, 332] } else { vec![60, 200, 400, 500] };
        for s0 in scales { for sign in [-1i64, 1] {
            let s = sign * s0;
            let base = match rng.gen_range(0..4) { 0 => fam_dense(&mut rng, n, &small), 1 => fam_sparse(&mut rng, n, &small), 2 => fam_cyc_upper(&mut rng, n, &small),
                _ => if n >= 2 { let st = rng.gen_range(0..n - 1); let r0 = rng.gen_range(st + 1..n); fam_zeropiv(&mut rng, n, &small, st, r0, 0, true) } else { fam_dense(&mut rng, n, &small) } };
            let mut g = base; add_scaling(&mut rng, &mut g, 0, 0, s);
            let b = b_random(&mut rng, n, cx, 9);
            let mut bexps = vec![s]; if s0 <= 400 && !(cx && s0 > 200) { bexps.push(0); if !cx { bexps.push(-s); } }
            let be = bexps[rng.gen_range(0..bexps.len())];
            push_solve(sink, ty, &format!("uscale{}{}", if s < 0 { "m" } else { "p" }, s0), &g, &b, &vec![be; n], 1);
        } }
        for e in [60i64, 200, 400] {
            if cx && e > 200 { continue; }
            // P * diag(t, .., 1/t, ..) with small mantissas: determinant O(1), every partial pivot product under/overflows
            { let mut g = fam_permlike(&mut rng, n, &Draw { cx, amax: 3 }, n, false); let r = balanced_exps(&mut rng, n, e); scale_rows_cols(&mut g, &r, &vec![0; n]);
              let b = b_random(&mut rng, n, cx, 9); let rows_scaled = rng.gen_bool(0.5);
              push_solve(sink, ty, &format!("baldiag{}", e), &g, &b, &(if rows_scaled { r.clone() } else { vec![0; n] }), 1); }
            // D1 * B (rows) and B * D2 (columns), B well conditioned small integers; both axes only up to 2^+-200
            { let mut g = fam_dense(&mut rng, n, &small); let r = balanced_exps(&mut rng, n, e); scale_rows_cols(&mut g, &r, &vec![0; n]);
              let b = b_random(&mut rng, n, cx, 9); push_solve(sink, ty, &format!("balrows{}", e), &g, &b, &r, 1); }
            { let mut g = fam_dense(&mut rng, n, &small); let c = balanced_exps(&mut rng, n, e); scale_rows_cols(&mut g, &vec![0; n], &c);
              let b = b_random(&mut rng, n, cx, 9); push_solve(sink, ty, &format!("balcols{}", e), &g, &b, &vec![0; n], 1); }
            if e <= 200 { let mut g = fam_dense(&mut rng, n, &small); let r = balanced_exps(&mut rng, n, e); let c = balanced_exps(&mut rng, n, e); scale_rows_cols(&mut g, &r, &c);
              let b = b_random(&mut rng, n, cx, 9); push_solve(sink, ty, &format!("balboth{}", e), &g, &b, &r, 1); }
            // one tiny column / one tiny row
            { let mut g = fam_dense(&mut rng, n, &small); let mut c = vec![0; n]; c[rng.gen_range(0..n)] = -e; scale_rows_cols(&mut g, &vec![0; n], &c);
              let b = b_random(&mut rng, n, cx, 9); push_solve(sink, ty, &format!("tinycol{}", e), &g, &b, &vec![0; n], 1); }
            { let mut g = fam_dense(&mut rng, n, &small); let mut r = vec![0; n]; r[rng.gen_range(0..n)] = -e; scale_rows_cols(&mut g, &r, &vec![0; n]);
              let b = b_random(&mut rng, n, cx, 9); let scaled = rng.gen_bool(0.5); push_solve(sink, ty, &format!("tinyrow{}", e), &g, &b, &(if scaled { r.clone() } else { vec![0; n] }), 1); }
        }
    } } }
}

/// ---- C02 hardening: special exact values (class 2) and extreme magnitudes (class 3)
fn gen_det_hard(tier: &str, seed: u64, sink: &mut Sink) {
    let quick = tier == "quick";
    let mut rng = rng(seed, 404);
    let reps = if quick { 1 } else { 6 };
    // ||A||_F^n (the unit of the float determinant bound) and the determinant itself must stay inside the f64 range
    let det_ok = |n: usize, e: i64| (e + 8) * (n as i64) <= 1000;
    for _rep in 0..reps { for n in 1..=8usize { for ty in ["rat", "f64", "cx"] {
        let cx = ty == "cx"; let rat = ty == "rat";
        let small = Draw { cx, amax: if rat { [9, 9, 9, 9, 3, 2, 2, 1, 1][n] } else { 9 } };
        // (2) exactly structured matrices and exact unit pivots
        push_det(sink, ty, "cyc_upper", &fam_cyc_upper(&mut rng, n, &small), 1, true, false);
        { let (g, k) = fam_unitpiv(&mut rng, n, &small, false); push_det(sink, ty, "unitpiv", &g, k, true, false); }
        if cx { let (g, k) = fam_unitpiv(&mut rng, n, &small, true); push_det(sink, ty, "unitpiv5", &g, k, true, false); }
        for up in [false, true] { push_det(sink, ty, "unit_tri", &fam_unit_tri(&mut rng, n, &small, up), 1, true, false); }
        for kind in 0..3 { push_det(sink, ty, "elementary", &fam_elementary(&mut rng, n, &small, kind), 1, true, false); }
        push_det(sink, ty, "diagonal", &fam_diagonal(&mut rng, n, &small, 0), 1, true, false);
        let nz = 1 + rng.gen_range(0..2); push_det(sink, ty, "diagonal_sing", &fam_diagonal(&mut rng, n, &small, nz), 1, true, false);
        // an all-zero pivot column at EVERY stage s (structurally, and as a dependent column of a dense matrix)
        for s in 0..n {
            push_det(sink, ty, "zerostage", &fam_zerostage(&mut rng, n, &small, s, true), 1, true, false);
            push_det(sink, ty, "depcol", &fam_depcol(&mut rng, n, &Draw { cx, amax: small.amax.min(2) }, s), 1, true, false);
        }
        if rat { continue; }
        // (3) extreme magnitudes
        for s0 in [60i64, 200, if cx { 332 } else { 400 }] { for sign in [-1i64, 1] {
            let mut g = if rng.gen_bool(0.5) { fam_dense(&mut rng, n, &small) } else { fam_cyc_upper(&mut rng, n, &small) };
            add_scaling(&mut rng, &mut g, 0, 0, sign * s0);
            push_det(sink, ty, &format!("uscale{}{}", if sign < 0 { "m" } else { "p" }, s0), &g, 1, det_ok(n, s0), false);
            if det_ok(n, s0) { let mut z = fam_dense(&mut rng, n, &small); zero_col(&mut z, rng.gen_range(0..n)); add_scaling(&mut rng, &mut z, 0, 0, sign * s0);
                push_det(sink, ty, &format!("uscale_sing{}", s0), &z, 1, true, false); }
        } }
        for e in [60i64, 100, 200, 400] {
            if cx && e > 200 { continue; }     // see gen_solve_hard: dynamic range of the textbook complex division
            { let mut g = fam_permlike(&mut rng, n, &Draw { cx, amax: 3 }, n, false); let r = balanced_exps(&mut rng, n, e); scale_rows_cols(&mut g, &r, &vec![0; n]);
              push_det(sink, ty, &format!("baldiag{}", e), &g, 1, det_ok(n, e), true); }
            { let mut g = fam_dense(&mut rng, n, &small); let r = balanced_exps(&mut rng, n, e); scale_rows_cols(&mut g, &r, &vec![0; n]);
              push_det(sink, ty, &format!("balrows{}", e), &g, 1, det_ok(n, e), true); }
            { let mut g = fam_dense(&mut rng, n, &small); let c = balanced_exps(&mut rng, n, e); scale_rows_cols(&mut g, &vec![0; n], &c);
              push_det(sink, ty, &format!("balcols{}", e), &g, 1, det_ok(n, e), true); }
            { let mut g = fam_dense(&mut rng, n, &small); let mut c = vec![0; n]; c[rng.gen_range(0..n)] = -e; scale_rows_cols(&mut g, &vec![0; n], &c);
              push_det(sink, ty, &format!("tinycol{}", e), &g, 1, true, true); }
        }
    } } }
}

// ---- sequences on one object
const MUTATORS: [&str; 21] = ["set", "set_row", "set_col", "swap_rows", "swap_elem", "fill", "fill_diag", "fill_band", "fill_tridiag", "fill_row", "fill_col",
    "add_assign", "sub_assign", "mul_assign", "div_assign", "add_scalar_assign", "sub_scalar_assign", "transpose_in_place", "resize", "mul_div", "set_same"];
/// one mutator step (integer-valued so that the exact type stays within integers); "mul_div" is `*= s` then `/= s`
/// (two steps, the matrix returns to its old value), "set_same" writes the value an entry already has through IndexMut
fn mutator_steps(rng: &mut StdRng, name: &str, n: usize, d: &Draw, cur: &Gm) -> Vec<Value> {
    let cxv = |st: &mut Value, k: &str, v: (i64, i64)| { st[k] = json!(v.0); if d.cx { st[format!("{}i", k)] = json!(v.1); } };
    let vecv = |rng: &mut StdRng, st: &mut Value, k: &str| { let v: Vec<(i64, i64)> = (0..n).map(|_| d.any(rng)).collect(); st[k] = json!(v.iter().map(|x| x.0).collect::<Vec<i64>>()); if d.cx { st[format!("{}i", k)] = json!(v.iter().map(|x| x.1).collect::<Vec<i64>>()); } };
    let (i, j) = (rng.gen_range(0..n), rng.gen_range(0..n)); let (i2, j2) = (rng.gen_range(0..n), rng.gen_range(0..n));
    let mut st = json!({"op": name});
    match name {
        "set" => { st["i"] = json!(i); st["j"] = json!(j); let mut v = d.nz(rng); if v == cur.get(i, j) { v = (v.0 + 1, v.1); } cxv(&mut st, "x", v); }
        "set_same" => { st["op"] = json!("set"); st["i"] = json!(i); st["j"] = json!(j); cxv(&mut st, "x", cur.get(i, j)); }
        "set_row" => { st["i"] = json!(i); vecv(rng, &mut st, "v"); }
        "set_col" => { st["j"] = json!(j); vecv(rng, &mut st, "v"); }
        "swap_rows" => { st["i"] = json!(i); st["i2"] = json!(if n > 1 { (i + 1 + rng.gen_range(0..n - 1)) % n } else { i }); }
        "swap_elem" => { st["i"] = json!(i); st["j"] = json!(j); st["i2"] = json!(i2); st["j2"] = json!(j2); }
        "fill" | "fill_diag" | "fill_row" | "fill_col" => { st["i"] = json!(i); st["j"] = json!(j); cxv(&mut st, "x", d.nz(rng)); }
        "fill_band" => { st["off"] = json!(rng.gen_range(-1..=1)); cxv(&mut st, "x", d.nz(rng)); }
        "fill_tridiag" => { cxv(&mut st, "lo", d.any(rng)); cxv(&mut st, "di", d.nz(rng)); cxv(&mut st, "up", d.any(rng)); }
        "add_assign" | "sub_assign" => { let b = fam_sparse(rng, n, d); st["b"] = json!(b.re); if d.cx { st["bi"] = json!(b.im); } st["form"] = json!(if rng.gen_bool(0.5) { "own" } else { "ref" }); }
        "mul_assign" => { st["s"] = json!([2, -1, 3, -2][rng.gen_range(0..4)]); }
        "div_assign" => { st["s"] = json!(-1); }
        "add_scalar_assign" | "sub_scalar_assign" => { st["s"] = json!([1, -1, 2][rng.gen_range(0..3)]); }
        "mul_div" => { let s = [2, 3, -2][rng.gen_range(0..3)]; return vec![json!({"op": "mul_assign", "s": s}), json!({"op": "Q"}), json!({"op": "div_assign", "s": s})]; }
        _ => {}
    }
    vec![st]
}
/// which = "c01": queries are solves on clones (two right-hand sides), primed by discarded determinant()/inverse() calls;
/// which = "c02": queries are determinant() and inverse()
fn gen_seq(tier: &str, seed: u64, which: &str, sink: &mut Sink) {
    let quick = tier == "quick";
    let mut rng = rng(seed, if which == "c01" { 505 } else { 606 });
    let ns: Vec<usize> = if quick { vec![2, 3, 4] } else { vec![1, 2, 3, 4, 5] };
    let reps = if quick { 1 } else { 4 };
    for _rep in 0..reps { for &n in &ns { for ty in ["rat", "f64", "cx"] { for (mi, name) in MUTATORS.iter().enumerate() {
        let cx = ty == "cx";
        let d = Draw { cx, amax: [3, 3, 3, 3, 2, 1][n] };
        let mut g = fam_dense(&mut rng, n, &d);
        for _ in 0..50 { if g.nonsingular() { break; } g = fam_dense(&mut rng, n, &d); }
        let query = |rng: &mut StdRng| -> Vec<Value> {
            if which == "c01" {
                let mk = |rng: &mut StdRng| { let b = b_random(rng, n, cx, 3); let mut s = json!({"op": "solve", "b": b.iter().map(|x| x.0).collect::<Vec<i64>>()}); if cx { s["bi"] = json!(b.iter().map(|x| x.1).collect::<Vec<i64>>()); } s };
                vec![json!({"op": "prime"}), mk(rng), mk(rng)]
            } else { vec![json!({"op": "det"}), json!({"op": "inverse"})] }
        };
        let mut steps = query(&mut rng);
        // the mutator under test first, then two more (so that every mutator also follows a primed state of another one)
        for q in 0..3 {
            let name = if q == 0 { *name } else { MUTATORS[(mi + 7 * q + rng.gen_range(0..3)) % MUTATORS.len()] };
            for st in mutator_steps(&mut rng, name, n, &d, &g) { if gets(&st, "op") == "Q" { steps.extend(query(&mut rng)); } else { steps.push(st); } }
            steps.extend(query(&mut rng));
        }
        let mut c = case_json(ty, "seq", &format!("seq_{}", name), &g);
        c["steps"] = Value::from(steps);
        sink.push(c);
    } } } }
}

// ------------------------------------------------------------------ ill-conditioned nonsingular systems (C01: backward stability is independent of conditioning)
type Cf = (f64, f64);
fn cf_mul(a: Cf, b: Cf) -> Cf { (a.0 * b.0 - a.1 * b.1, a.0 * b.1 + a.1 * b.0) }
fn cf_add(a: Cf, b: Cf) -> Cf { (a.0 + b.0, a.1 + b.1) }
/// x = m * 2^e exactly, |m| < 2^53
fn split_f64(x: f64) -> (i64, i64) {
    if x == 0.0 { return (0, 0); }
    if !x.is_finite() { eprintln!("TOOL-ERROR non-finite generated entry"); std::process::exit(2) }
    let bits = x.to_bits(); let neg = (bits >> 63) == 1; let ef = ((bits >> 52) & 0x7ff) as i64; let fr = (bits & ((1u64 << 52) - 1)) as i64;
    let (mut m, mut e) = if ef == 0 { (fr, -1074) } else { (fr | (1i64 << 52), ef - 1075) };
    while m & 1 == 0 { m >>= 1; e += 1; }
    (if neg { -m } else { m }, e)
}
fn matvec_cf(a: &[Cf], x: &[Cf], n: usize) -> Vec<Cf> { (0..n).map(|i| (0..n).fold((0.0, 0.0), |s, j| cf_add(s, cf_mul(a[i * n + j], x[j])))).collect() }
fn matmul_cf(a: &[Cf], b: &[Cf], n: usize) -> Vec<Cf> { let mut c = vec![(0.0, 0.0); n * n]; for i in 0..n { for j in 0..n { for k in 0..n { c[i * n + j] = cf_add(c[i * n + j], cf_mul(a[i * n + k], b[k * n + j])); } } } c }
/// Householder reflector I - 2 v v^* / (v^* v) for a random (complex) v
fn householder(rng: &mut StdRng, n: usize, cx: bool) -> Vec<Cf> {
    let v: Vec<Cf> = (0..n).map(|_| (rng.gen_range(-1.0..1.0), if cx { rng.gen_range(-1.0..1.0) } else { 0.0 })).collect();
    let nv: f64 = v.iter().map(|z| z.0 * z.0 + z.1 * z.1).sum::<f64>().max(1e-3);
    let mut q = vec![(0.0, 0.0); n * n];
    for i in 0..n { for j in 0..n { let p = cf_mul(v[i], (v[j].0, -v[j].1)); q[i * n + j] = ((if i == j { 1.0 } else { 0.0 }) - 2.0 * p.0 / nv, -2.0 * p.1 / nv); } }
    q
}
/// certificate of nonsingularity: elimination with partial pivoting in double-double (error ~1e-30) never meets a pivot
/// below 1e-22 * max|a|
fn dd_nonsingular(a: &[Cf], n: usize) -> bool { dd_pivots_above(a, n, 1e-22) }
/// every pivot of (double-double) elimination with partial pivoting is at least rel * max|a|.  With rel = 1e-8 the pivots
/// computed in f64 (error ~1e-13 max|a| for the structures used) cannot vanish: the elimination does not break down, which
/// is the hypothesis of the backward-error theorem (a matrix with cond >> 1/eps may legitimately yield a zero pivot)
fn dd_pivots_above(a: &[Cf], n: usize, rel: f64) -> bool {
    let mut m: Vec<CDD> = a.iter().map(|z| CDD::from(z.0, z.1)).collect();
    let amax = mat_norm_max(&m);
    if !(amax > 0.0) || !amax.is_finite() { return false; }
    for k in 0..n {
        let mut p = k; let mut best = m[k * n + k].abs();
        for i in k + 1..n { let v = m[i * n + k].abs(); if v > best { best = v; p = i; } }
        if !(best > rel * amax) { return false; }
        if p != k { for j in 0..n { m.swap(k * n + j, p * n + j); } }
        let piv = m[k * n + k];
        for i in k + 1..n { let f = cdiv(m[i * n + k], piv); for j in k..n { let t = f.mul(m[k * n + j]); m[i * n + j] = m[i * n + j].sub(t); } }
    }
    true
}
fn push_float_solve(sink: &mut Sink, ty: &str, fam: &str, n: usize, a: &[Cf], b: &[Cf]) -> bool {
    if !dd_nonsingular(a, n) { return false; }
    let cx = ty == "cx";
    let enc = |v: &[Cf]| -> (Vec<i64>, Vec<i64>, Vec<i64>, Vec<i64>) { let mut r = (vec![], vec![], vec![], vec![]); for z in v { let (m, e) = split_f64(z.0); let (mi, ei) = split_f64(if cx { z.1 } else { 0.0 }); r.0.push(m); r.1.push(e); r.2.push(mi); r.3.push(ei); } r };
    let (am, ae, aim, aie) = enc(a); let (bm, be, bim, bie) = enc(b);
    if ae.iter().chain(aie.iter()).chain(be.iter()).chain(bie.iter()).any(|e| *e < -1000 || *e > 900) { return false; }
    let mut c = json!({"ty": ty, "kind": "solve", "fam": fam, "n": n, "a": {"r": n, "c": n, "d": am}, "ae": ae, "b": bm, "be": be});
    if cx { c["ai"] = json!({"r": n, "c": n, "d": aim}); c["aie"] = json!(aie); c["bi"] = json!(bim); c["bie"] = json!(bie); }
    sink.push(c); true
}

/// Hilbert, Lotkin, Cauchy, Vandermonde on clustered nodes, Pascal, nearly parallel rows / columns, prescribed singular
/// values (cond up to 1e14) - each with b = A * x_true for an O(1) x_true and with a random b.  No conditioning limit:
/// the backward-error bound of GEPP does not depend on cond(A).
fn gen_ill(tier: &str, seed: u64, sink: &mut Sink) {
    let quick = tier == "quick";
    let mut rng = rng(seed, 707);
    let reps = if quick { 1 } else { 6 };
    for _rep in 0..reps { for n in 3..=8usize { for ty in ["f64", "cx"] {
        let cx = ty == "cx";
        let rnd = |rng: &mut StdRng| -> Cf { (rng.gen_range(-1.0..1.0), if cx { rng.gen_range(-1.0..1.0) } else { 0.0 }) };
        let mut fams: Vec<(String, Vec<Cf>)> = Vec::new();
        let real = |f: &dyn Fn(usize, usize) -> f64| -> Vec<Cf> { let mut v = Vec::new(); for i in 0..n { for j in 0..n { v.push((f(i, j), 0.0)); } } v };
        // complexified: A + i * (A with shifted indices) keeps the ill-conditioning pattern with genuinely complex entries
        let cplx = |f: &dyn Fn(usize, usize) -> f64| -> Vec<Cf> { let mut v = Vec::new(); for i in 0..n { for j in 0..n { v.push((f(i, j), if cx { 0.5 * f(i + 1, j + 1) } else { 0.0 })); } } v };
        let hilb = |i: usize, j: usize| 1.0 / ((i + j + 1) as f64);
        fams.push(("hilbert".into(), real(&hilb))); if cx { fams.push(("hilbert_cx".into(), cplx(&hilb))); }
        fams.push(("lotkin".into(), cplx(&|i, j| if i == 0 { 1.0 } else { 1.0 / ((i + j + 1) as f64) })));
        fams.push(("cauchy".into(), cplx(&|i, j| 1.0 / ((i + 1) as f64 + j as f64 + 0.5))));
        for sh in [4i64, 6] { fams.push((format!("vander{}", sh), real(&|i, j| (1.0 + (i as f64) * pow2(-sh)).powi(j as i32)))); }
        { let bin = |i: usize, j: usize| { let mut c = 1.0f64; for k in 0..j { c = c * ((i + j - k) as f64) / ((k + 1) as f64); } c.round() };
          let s = rng.gen_range(-8..=8i64); fams.push(("pascal".into(), real(&|i, j| bin(i, j) * pow2(s * (i as i64 % 2))))); }
        // nearly parallel rows / columns: u v^T + t B
        for t in [20i64, 30, 38, 45] {
            let u: Vec<Cf> = (0..n).map(|_| { let z = rnd(&mut rng); (z.0 + 1.5, z.1) }).collect(); let v: Vec<Cf> = (0..n).map(|_| { let z = rnd(&mut rng); (z.0 + 1.5, z.1) }).collect();
            let b: Vec<Cf> = (0..n * n).map(|_| (rng.gen_range(-9..=9) as f64, if cx { rng.gen_range(-9..=9) as f64 } else { 0.0 })).collect();
            let mut a = Vec::new(); for i in 0..n { for j in 0..n { let p = cf_mul(u[i], v[j]); a.push((p.0 + pow2(-t) * b[i * n + j].0, p.1 + pow2(-t) * b[i * n + j].1)); } }
            fams.push((format!("parallel{}", t), a));
        }
        // prescribed singular values: Q1 * diag(sigma) * Q2, geometric from 1 to 10^-c, or all 1 except one / two small ones
        for c in [8i32, 10, 12, 14] { for mode in 0..2 {
            let sig: Vec<f64> = (0..n).map(|k| if mode == 0 { 10f64.powf(-(c as f64) * (k as f64) / ((n - 1) as f64)) } else if k + 1 + (c as usize % 3 % 2) >= n { 10f64.powi(-c) } else { 1.0 }).collect();
            let q1 = householder(&mut rng, n, cx); let q2 = householder(&mut rng, n, cx);
            let d: Vec<Cf> = (0..n * n).map(|k| if k / n == k % n { (sig[k / n], 0.0) } else { (0.0, 0.0) }).collect();
            fams.push((format!("sv{}_{}", c, mode), matmul_cf(&matmul_cf(&q1, &d, n), &q2, n)));
        } }
        for (name, a) in &fams {
            let xt: Vec<Cf> = (0..n).map(|_| { let z = rnd(&mut rng); (if z.0 < 0.0 { z.0 - 0.5 } else { z.0 + 0.5 }, z.1) }).collect();
            push_float_solve(sink, ty, &format!("ill_{}+b_Ax", name), n, a, &matvec_cf(a, &xt, n));
            let ones: Vec<Cf> = vec![(1.0, 0.0); n];
            if rng.gen_bool(0.5) { push_float_solve(sink, ty, &format!("ill_{}+b_A1", name), n, a, &matvec_cf(a, &ones, n)); }
            let br: Vec<Cf> = (0..n).map(|_| rnd(&mut rng)).collect();
            push_float_solve(sink, ty, &format!("ill_{}+b_rand", name), n, a, &br);
        }
    } } }
}

// ------------------------------------------------------------------ histories and banded / small-diagonal matrices
/// histories of 8 calls whose sizes zig-zag (8, 1, 7, 2, ...), mixing element types; about 40 % of the parts are quiet
fn gen_mix(tier: &str, seed: u64, kind: &str, pool: &[Value]) -> Vec<Value> {
    let mut rng = rng(seed, if kind == "solve" { 808 } else { 809 });
    let cand: Vec<&Value> = pool.iter().filter(|c| gets(c, "kind") == kind).collect();
    let mut out = Vec::new();
    if cand.is_empty() { return out; }
    let nmix = if tier == "quick" { 60 } else { 500 };
    for m in 0..nmix {
        // choose parts so that all sizes occur: one candidate per target size where available
        let mut parts: Vec<Value> = Vec::new();
        let mut sizes: Vec<usize> = (1..=8).collect(); sizes.shuffle(&mut rng);
        for target in sizes { for _ in 0..30 { let c = cand[rng.gen_range(0..cand.len())]; if getu(c, "n") == target { parts.push(c.clone()); break; } } }
        parts.sort_by_key(|c| std::cmp::Reverse(getu(c, "n")));
        let mut zig = Vec::new(); let (mut lo, mut hi) = (0usize, parts.len());
        while lo < hi { zig.push(parts[lo].clone()); lo += 1; if lo < hi { hi -= 1; zig.push(parts[hi].clone()); } }
        if m % 3 == 1 { zig.reverse(); }
        let mut nlogged = 0; let zl = zig.len();
        for (k, p) in zig.iter_mut().enumerate() { p.as_object_mut().unwrap().remove("cid"); let quiet = k + 1 < zl && rng.gen_bool(0.4); if quiet { p["quiet"] = json!(true); } else { nlogged += 1; } }
        if nlogged == 0 { continue; }
        // two thirds of the histories are poisoned: a panicking call is placed immediately in front of logged parts
        if m % 3 != 2 {
            let mut with: Vec<Value> = Vec::new();
            for p in zig.into_iter() {
                if !flag(&p, "quiet", false) && rng.gen_bool(0.5) { let like = getu(&p, "n"); with.push(poison_part(&mut rng, like)); }
                with.push(p);
            }
            zig = with;
        }
        out.push(json!({"kind": "mix", "ty": "mix", "fam": "mix", "n": zig.len(), "parts": zig}));
    }
    out
}
/// see run_poison; `like`: order of the part that follows (the poisoned call has the same or a different order)
fn poison_part(rng: &mut StdRng, like: usize) -> Value {
    let n = if rng.gen_bool(0.5) { like.max(2) } else { rng.gen_range(2..=7) };
    let mut order: Vec<&str> = vec!["basic", "lu", "decomp", "det", "inv"]; order.shuffle(rng);
    if rng.gen_bool(0.5) { order.truncate(1 + rng.gen_range(0..2)); }
    let mode = rng.gen_range(0..3);
    let (ty, a, b): (&str, Vec<i64>, Vec<i64>) = match mode {
        0 => { // exact arithmetic that overflows i128 after the first exchange and elimination step
            let n = n.max(3);
            let big = |rng: &mut StdRng| rng.gen_range(100_000_000_000_000_000i64..4_000_000_000_000_000_000i64) * if rng.gen_bool(0.5) { 1 } else { -1 };
            let mut a: Vec<i64> = (0..n * n).map(|_| big(rng)).collect(); a[0] = rng.gen_range(1..1000);
            ("rat", a, (0..n).map(|_| rng.gen_range(-9..=9)).collect()) }
        1 => { // right-hand side of the wrong length
            let ty = ["rat", "f64", "cx"][rng.gen_range(0..3)];
            let a: Vec<i64> = (0..n * n).map(|_| rng.gen_range(-9..=9)).collect(); let len = if rng.gen_bool(0.5) { n + 1 } else { n - 1 };
            (ty, a, (0..len).map(|_| rng.gen_range(-9..=9)).collect()) }
        _ => { // singular: an exchange at step 0, then two identical rows (exact division by zero)
            let mut a: Vec<i64> = (0..n * n).map(|_| rng.gen_range(-9..=9)).collect(); a[0] = 0; a[n] = 5;
            let (r1, r2) = (n - 1, n - 2); for j in 0..n { a[r1 * n + j] = a[r2 * n + j]; }
            ("rat", a, (0..n).map(|_| rng.gen_range(-9..=9)).collect()) }
    };
    let n = (a.len() as f64).sqrt().round() as usize;
    let fam = ["poison_overflow", "poison_mismatch", "poison_singular"][mode];
    json!({"kind": "poison", "quiet": true, "ty": ty, "n": n, "fam": fam, "a": {"r": n, "c": n, "d": a}, "b": b, "order": order})
}
/// small-integer band matrices stored densely, with a small diagonal and larger sub-diagonals: the exchange at step k brings up
/// a row that reaches further to the right than the row it replaces; and lower triangular + one super-diagonal likewise
fn fam_banded(rng: &mut StdRng, n: usize, d: &Draw, kl: usize, ku: usize) -> Gm {
    let mut g = Gm::zeros(n);
    let small = Draw { cx: d.cx, amax: 1 };
    for i in 0..n { for j in 0..n {
        if i == j { g.set(i, j, small.any(rng)); }
        else if i > j && i - j <= kl { g.set(i, j, (rng.gen_range(2..=d.amax.max(2)) * if rng.gen_bool(0.5) { 1 } else { -1 }, if d.cx { rng.gen_range(-1..=1) } else { 0 })); }
        else if j > i && j - i <= ku { g.set(i, j, d.any(rng)); }
    } }
    g
}
fn gen_banded(tier: &str, seed: u64, kind: &str, sink: &mut Sink) {
    let mut rng = rng(seed, 910);
    let reps = if tier == "quick" { 2 } else { 12 };
    for _rep in 0..reps { for n in 2..=8usize { for ty in ["rat", "f64", "cx"] {
        let cx = ty == "cx"; let rat = ty == "rat";
        let d = Draw { cx, amax: if rat { [4, 4, 4, 4, 3, 3, 2, 2, 2][n] } else { 6 } };
        for (kl, ku) in [(1usize, 1usize), (1, 2), (2, 1), (2, 2), (n - 1, 1), (n - 1, 0)] {
            let name = if kl == n - 1 { format!("lowtri_ku{}", ku) } else { format!("band_{}_{}", kl, ku) };
            for _try in 0..40 {
                let g = fam_banded(&mut rng, n, &d, kl, ku);
                let ok = if kind == "solve" { let b = b_random(&mut rng, n, cx, 3); push_solve(sink, ty, &name, &g, &b, &vec![0; n], 1) }
                         else { g.nonsingular() && push_det(sink, ty, &name, &g, 1, true, false) };
                if ok { break; }
            }
        }
    } } }
}

// ------------------------------------------------------------------ wave 7: exponent sweep, growth adversaries, sizes beyond 8
fn push_float_det(sink: &mut Sink, ty: &str, fam: &str, n: usize, a: &[Cf], det: bool) -> bool {
    if !dd_nonsingular(a, n) { return false; }
    let cx = ty == "cx";
    let (mut am, mut ae, mut aim, mut aie) = (vec![], vec![], vec![], vec![]);
    for z in a { let (m, e) = split_f64(z.0); let (mi, ei) = split_f64(if cx { z.1 } else { 0.0 }); am.push(m); ae.push(e); aim.push(mi); aie.push(ei); }
    let cd: Vec<CDD> = a.iter().map(|z| CDD::from(z.0, z.1)).collect();
    let mut c = json!({"ty": ty, "kind": "det", "fam": fam, "n": n, "a": {"r": n, "c": n, "d": am}, "ae": ae, "inv": true, "sing": false, "lres": kappa_ok(&cd, n)});
    if cx { c["ai"] = json!({"r": n, "c": n, "d": aim}); c["aie"] = json!(aie); }
    if !det { c["nodet"] = json!(true); }
    sink.push(c); true
}
/// the binary exponents of the sweep: the whole range in steps of 25 plus the places where products of two entries leave the range
fn sweep_grid(lim: i64) -> Vec<i64> {
    let mut g: Vec<i64> = (-40..=40).map(|q| q * 25).collect();
    g.extend([511, 512, 513, 537, 538, 600, -511, -512, -513, -537, -538, -600]);
    g.retain(|k| k.abs() <= lim); g.sort(); g.dedup(); g
}
/// zero / tiny leading pivot systems (an exchange is REQUIRED) scaled by 2^k for every k of the grid: pivoting must not depend on
/// the common magnitude of the entries.  kind = "solve": both solvers; kind = "det": determinant where representable, inverse
fn gen_sweep(tier: &str, seed: u64, kind: &str, sink: &mut Sink) {
    let mut rng = rng(seed, if kind == "solve" { 1101 } else { 1102 });
    let reps = if tier == "quick" { 1 } else { 4 };
    for _rep in 0..reps { for ty in ["f64", "cx"] {
        let cx = ty == "cx";
        // Complex<f64>::abs() squares the entries: the crate's complex range ends near 2^+-500
        let cxlim: i64 = std::env::var("GAUSS_CX_LIM").ok().and_then(|v| v.parse().ok()).unwrap_or(500);   // diagnostic override only
        let lim = if cx { cxlim } else if kind == "solve" { 1000 } else { 950 };
        let small = Draw { cx, amax: 3 };
        for k in sweep_grid(lim) { for n in [2usize, 3, 4, 5] {
            if (k.abs() > 900 || cx && k.abs() > 450 && cxlim == 500) && n > 3 { continue; }
            for _try in 0..30 {
                let s = rng.gen_range(0..n - 1); let r0 = rng.gen_range(s + 1..n);
                // the leading pivot is exactly zero, or tiny (2^-57 relative) where that is still representable
                let tiny = if k - 60 > -1000 && rng.gen_bool(0.4) { 57 } else { 0 };
                let mut g = fam_zeropiv(&mut rng, n, &small, s, r0, tiny, true);
                if !g.nonsingular() { continue; }
                g.uni = k;
                let name = format!("sweep{}", if tiny > 0 { "_tiny" } else { "" });
                let ok = if kind == "solve" { let b = b_random(&mut rng, n, cx, 3); push_solve(sink, ty, &name, &g, &b, &vec![k; n], 1) }
                         else { push_det(sink, ty, &name, &g, 1, (k.abs() + 6) * (n as i64) <= 1000, false) };
                if ok { break; }
            }
        } }
    } }
}
/// growth-factor adversaries: diagonal d_j (1 + noise), strictly lower entries -rho d_j (1 + noise), last column ones (+ noise);
/// also transposed and with permuted rows.  Partial pivoting keeps every multiplier <= 1 whatever rho is.
fn gen_wilkinson(tier: &str, seed: u64, kind: &str, sink: &mut Sink) {
    let mut rng = rng(seed, if kind == "solve" { 1201 } else { 1202 });
    let reps = if tier == "quick" { 1 } else { 4 };
    for _rep in 0..reps { for ty in ["f64", "cx"] { for n in 2..=8usize { for rho in [0.9f64, 1.5, 3.0, 8.0, 12.0, 15.5, 31.0, 100.0, 1000.0] { for variant in 0..3 {
        let cx = ty == "cx";
        let noise = |rng: &mut StdRng| 1.0 + rng.gen_range(-0.03..0.03);
        let phase: Cf = if cx { (0.6, 0.8) } else { (1.0, 0.0) };
        let dscale = [1.0, 0.1, 3.7][rng.gen_range(0..3)];
        let mut a = vec![(0.0, 0.0); n * n];
        let d: Vec<f64> = (0..n).map(|j| dscale * (1.0 + 0.01 * j as f64) * noise(&mut rng)).collect();
        for i in 0..n { for j in 0..n {
            let v = if j == n - 1 { dscale * noise(&mut rng) } else if i == j { d[j] } else if i > j { -rho * d[j] * noise(&mut rng) } else { 0.0 };
            a[i * n + j] = cf_mul((v, 0.0), phase);
        } }
        if variant == 1 { let t: Vec<Cf> = (0..n * n).map(|q| a[(q % n) * n + q / n]).collect(); a = t; }
        if variant == 2 { let p = rand_perm(&mut rng, n); let t: Vec<Cf> = (0..n * n).map(|q| a[p[q / n] * n + q % n]).collect(); a = t; }
        let name = format!("wilk{}_{}", rho, ["plain", "transposed", "permuted"][variant]);
        if kind == "solve" {
            let xt: Vec<Cf> = (0..n).map(|_| (rng.gen_range(0.5..1.5), if cx { rng.gen_range(-1.0..1.0) } else { 0.0 })).collect();
            push_float_solve(sink, ty, &name, n, &a, &matvec_cf(&a, &xt, n));
        } else { push_float_det(sink, ty, &name, n, &a, true); }
    } } } } }
}

/// orders beyond 8 (31..129, around powers of two): banded, block and sparse-structured systems that are NOT diagonally dominant
/// (rows are exchanged, the band fills in).  20-bit random values; nonsingular modulo 2^31-1.  Judged by the |L||U| bound.
fn gen_large(tier: &str, seed: u64, sink: &mut Sink) {
    let mut rng = rng(seed, 1301);
    let sizes: Vec<usize> = if tier == "quick" { vec![31, 32, 33, 40, 48, 64, 65, 100, 128, 129] } else { vec![9, 12, 16, 17, 24, 31, 32, 33, 40, 48, 63, 64, 65, 80, 100, 127, 128, 129] };
    let reps = if tier == "quick" { 1 } else { 3 };
    for _rep in 0..reps { for &n in &sizes { for ty in ["f64", "cx"] {
        let cx = ty == "cx";
        let d = Draw { cx, amax: 1 << 20 };
        let structures: Vec<(String, Box<dyn Fn(usize, usize) -> bool>)> = vec![
            ("band_2_1".into(), Box::new(|i, j| i <= j + 2 && j <= i + 1)),
            ("band_3_3".into(), Box::new(|i, j| i <= j + 3 && j <= i + 3)),
            ("band_4_0".into(), Box::new(|i, j| i <= j + 4 && j <= i)),
            ("band_2_5".into(), Box::new(|i, j| i <= j + 2 && j <= i + 5)),
            ("blocktri4".into(), Box::new(|i, j| { let (bi, bj) = (i / 4, j / 4); bi == bj || bi == bj + 1 || (bj == bi + 1 && (i + j) % 3 == 0) })),
            ("arrow_band".into(), Box::new(move |i, j| i == n - 1 || j == n - 1 || (i <= j + 2 && j <= i))),
            ("sparse_perm".into(), Box::new(|i, j| (i * 7 + 3) % 11 == j % 11 || i == j || (i + 2 * j) % 13 == 0)),
        ];
        for (name, inside) in &structures {
            for _try in 0..10 {
                let mut g = Gm::zeros(n);
                for i in 0..n { for j in 0..n { if inside(i, j) { g.set(i, j, d.nz(&mut rng)); } } }
                add_scaling(&mut rng, &mut g, 0, 0, -20);
                let vals: Vec<Cf> = (0..n * n).map(|q| (g.re[q] as f64 * pow2(g.ex[q]), g.im[q] as f64 * pow2(g.ex[q]))).collect();
                if !dd_pivots_above(&vals, n, 1e-8) { continue; }     // numerically singular (e.g. long random triangular bands): outside the domain
                let b = b_random(&mut rng, n, cx, 9);
                if push_solve(sink, ty, &format!("large_{}", name), &g, &b, &vec![0; n], 1) { break; }
            }
        }
    } } }
}

// ------------------------------------------------------------------ wave 8: magnitudes mixed within one matrix, structured matrices, poisoned histories
/// A = D1 * A0 * D2: A0 small integers (exact model: det(A) = det(A0) * 2^(sum of exponents)), D1 / D2 powers of two drawn
/// independently per row / column.  Row exponents span at most 600 (a multiplier a_ik / a_kk must stay representable), column
/// exponents up to 1200 apart (entries 2^1074 times smaller than the largest of their own row); every entry, solution component
/// and inverse entry stays inside the f64 range.  Judged by the scaling-invariant componentwise measures only (cw).
fn gen_rowcol(tier: &str, seed: u64, kind: &str, sink: &mut Sink) {
    let mut rng = rng(seed, if kind == "solve" { 1401 } else { 1402 });
    let reps = if tier == "quick" { 3 } else { 16 };
    let cset: [i64; 7] = [-600, -300, -100, 0, 100, 300, 600];
    let rset: [i64; 5] = [-300, -100, 0, 100, 300];
    for _rep in 0..reps { for n in 2..=8usize { for ty in ["f64", "cx"] { for mode in 0..4 {
        let cx = ty == "cx";
        let d = Draw { cx, amax: if n <= 6 { 99 } else { 30 } };
        for _try in 0..40 {
            let mut g = match mode { 0 => fam_dense(&mut rng, n, &d), 1 => fam_sparse(&mut rng, n, &d),
                2 => { let s = rng.gen_range(0..n - 1); let r0 = rng.gen_range(s + 1..n); fam_zeropiv(&mut rng, n, &d, s, r0, 0, true) }
                _ => fam_cyc_upper(&mut rng, n, &d) };
            if !g.nonsingular() { continue; }
            // complex entries are squared by Complex::abs and by the division: half the exponent range
            let div = if cx { 2 } else { 1 };
            let mut c: Vec<i64> = (0..n).map(|_| cset[rng.gen_range(0..7)] / div).collect();
            if kind == "det" && rng.gen_bool(0.6) {
                // few extreme columns, so that every partial product of the pivots (hence the determinant) stays representable
                c = vec![0; n]; let p = rand_perm(&mut rng, n); c[p[0]] = -600 / div; c[p[1]] = [500, 560, 300][rng.gen_range(0..3)] / div;
                if n > 3 && rng.gen_bool(0.5) { c[p[2]] = -100 / div; }
            }
            let r: Vec<i64> = match mode { 0 | 2 => (0..n).map(|_| rset[rng.gen_range(0..5)] / div).collect(), _ => vec![0; n] };
            // at least one row must hold entries more than 2^1074 apart (f64) when the column exponents allow it
            let spread = c.iter().max().unwrap() - c.iter().min().unwrap();
            if spread < if cx { 500 } else { 1100 } && rng.gen_bool(0.7) { continue; }
            scale_rows_cols(&mut g, &r, &c);
            let pos: i64 = r.iter().chain(c.iter()).filter(|e| **e > 0).sum(); let neg: i64 = r.iter().chain(c.iter()).filter(|e| **e < 0).sum();
            let det_ok = pos <= 950 / div && neg >= -950 / div;      // every partial product of pivots is representable
            let name = format!("rowcol{}", mode);
            let ok = if kind == "solve" {
                let b = b_random(&mut rng, n, cx, 9);
                let mut done = push_solve(sink, ty, &name, &g, &b, &r, 1);
                if done { let last = sink.buf.len() - 1; sink.buf[last]["cw"] = json!(true); }
                done = done && true; done
            } else {
                let done = push_det(sink, ty, &name, &g, 1, det_ok, true);
                if done { let last = sink.buf.len() - 1; sink.buf[last]["cw"] = json!(true);
                    if cx { } else if let Some((dm, _)) = bareiss(&g.re, n) { if dm.abs() < (1i128 << 53) { sink.buf[last]["detm"] = json!(dm as i64); sink.buf[last]["dete"] = json!(r.iter().sum::<i64>() + c.iter().sum::<i64>()); } } }
                done
            };
            if ok { break; }
        }
    } } } }
}

const STRUCTS: [&str; 10] = ["symcancel", "symcancel_minor0", "symcancel_minor2", "skewdiag", "persym", "toeplitz", "circulant", "arrowhead", "blocksing", "symdominant"];
/// small-integer matrices with a recognisable structure (the kind a fast path would test for) that nevertheless NEED row exchanges
fn fam_structured(rng: &mut StdRng, n: usize, d: &Draw, which: &str) -> Gm {
    let mut g = Gm::zeros(n);
    let neg = |v: (i64, i64)| (-v.0, -v.1);
    let add = |a: (i64, i64), b: (i64, i64)| (a.0 + b.0, a.1 + b.1);
    match which {
        "symcancel" | "symcancel_minor0" | "symcancel_minor2" | "symdominant" => {
            for i in 0..n { for j in i + 1..n { let v = if rng.gen_bool(0.75) { d.any(rng) } else { (0, 0) }; g.set(i, j, v); g.set(j, i, v); } }
            if which == "symcancel_minor0" && n >= 3 {
                // row 0: off-diagonal entries cancel in the SIGNED sum and a_00 = 0: the leading 1 x 1 minor vanishes
                for j in 1..n { g.set(0, j, (0, 0)); g.set(j, 0, (0, 0)); }
                let t = d.nz(rng); let p = 1 + rng.gen_range(0..n - 2); g.set(0, p, t); g.set(p, 0, t); g.set(0, p + 1, neg(t)); g.set(p + 1, 0, neg(t));
            }
            if which == "symcancel_minor2" && n >= 4 {
                // the leading 2 x 2 block is t * [[1, 1], [1, 1]] (rank one); the signed sums of rows 0 and 1 are made to cancel below
                let t = d.nz(rng); g.set(0, 1, t); g.set(1, 0, t);
            }
            for i in 0..n {
                let mut sum = (0, 0); let mut abs_sum = 0; for j in 0..n { if j != i { sum = add(sum, g.get(i, j)); abs_sum += g.get(i, j).0.abs() + g.get(i, j).1.abs(); } }
                let dv = if which == "symdominant" { (abs_sum + 1, 0) }                    // genuinely dominant: no exchange needed (control)
                         else if which == "symcancel_minor0" && i == 0 { (0, 0) }
                         else if which == "symcancel_minor2" && i < 2 { g.get(0, 1) }
                         else { let s = if rng.gen_bool(0.5) { 1 } else { -1 }; let extra = [0, 0, 1][rng.gen_range(0..3)];
                                if sum == (0, 0) { (s * extra, 0) } else { (s * (sum.0 + extra * sum.0.signum()), s * (sum.1 + extra * sum.1.signum())) } };
                g.set(i, i, dv);
            }
        }
        "skewdiag" => { for i in 0..n { for j in i + 1..n { let v = d.any(rng); g.set(i, j, v); g.set(j, i, neg(v)); } if rng.gen_bool(0.6) { g.set(i, i, (rng.gen_range(-1..=1), 0)); } } }
        "persym" => { for i in 0..n { for j in 0..n { if i + j <= n - 1 { let v = d.any(rng); g.set(i, j, v); g.set(n - 1 - j, n - 1 - i, v); } } } }
        "toeplitz" => { let t: Vec<(i64, i64)> = (0..2 * n - 1).map(|_| d.any(rng)).collect(); for i in 0..n { for j in 0..n { g.set(i, j, t[i + n - 1 - j]); } } }
        "circulant" => { let c: Vec<(i64, i64)> = (0..n).map(|_| d.any(rng)).collect(); for i in 0..n { for j in 0..n { g.set(i, j, c[(j + n - i) % n]); } } }
        "arrowhead" => { let tip = if rng.gen_bool(0.5) { 0 } else { n - 1 };
            for i in 0..n { g.set(i, i, if rng.gen_bool(0.8) { d.any(rng) } else { (0, 0) }); g.set(tip, i, d.nz(rng)); g.set(i, tip, d.nz(rng)); } }
        _ => { // blocksing: the leading k x k block is singular (a repeated row), the whole matrix usually is not
            let k = 2 + rng.gen_range(0..n - 3);
            for i in 0..n { for j in 0..n { g.set(i, j, d.any(rng)); } }
            for j in 0..k { let v = g.get(0, j); g.set(k - 1, j, v); }
        }
    }
    g
}
fn gen_structured(tier: &str, seed: u64, kind: &str, sink: &mut Sink) {
    let mut rng = rng(seed, if kind == "solve" { 1501 } else { 1502 });
    let reps = if tier == "quick" { 2 } else { 10 };
    for _rep in 0..reps { for n in [5usize, 6, 7, 8, 9, 10, 12] { for ty in ["rat", "f64", "cx"] { for which in STRUCTS {
        if n > 8 && _rep % 2 == 1 { continue; }
        let cx = ty == "cx"; let rat = ty == "rat";
        let d = Draw { cx, amax: if rat { if n <= 6 { 3 } else if n <= 8 { 2 } else { 1 } } else { 5 } };
        for _try in 0..25 {
            let g = fam_structured(&mut rng, n, &d, which);
            let ok = if kind == "solve" { let b = b_random(&mut rng, n, cx, 3); push_solve(sink, ty, &format!("st_{}", which), &g, &b, &vec![0; n], 1) }
                     else { let done = (which == "blocksing" || g.nonsingular()) && push_det(sink, ty, &format!("st_{}", which), &g, 1, true, false);
                            // exact inverses of order > 8 are expensive to validate (2 n cross-multiplied systems per event): determinant only
                            if done && rat && n > 8 { let last = sink.buf.len() - 1; sink.buf[last]["inv"] = json!(false); }
                            done };
            if ok { break; }
        }
    } } } }
}

/// orders around and beyond a cache panel / block size of 256 (quick) and 512, 1024 (thorough): "all n x n"
fn gen_huge(tier: &str, seed: u64, kind: &str, sink: &mut Sink) {
    let quick = tier == "quick";
    let mut k = 0u64;
    let mut push = |sink: &mut Sink, ty: &str, fam: &str, n: usize| {
        k += 1;
        let mut c = json!({"ty": ty, "kind": kind, "fam": format!("huge_{}", fam), "n": n, "recipe": {"fam": fam, "rseed": seed * 1000 + k}});
        if kind == "det" { c["inv"] = json!(true); c["nodet"] = json!(true); c["cw"] = json!(true); c["lres"] = json!(false); c["sing"] = json!(false); }
        sink.push(c);
    };
    if kind == "solve" {
        let sizes: Vec<usize> = if quick { vec![255, 256, 257, 258, 300] } else { vec![255, 256, 257, 258, 300, 511, 512, 513, 1025] };
        for &n in &sizes { push(sink, "f64", "hdense", n); push(sink, "f64", "hint", n); }
        for n in if quick { vec![257usize, 260] } else { vec![257usize, 260, 513] } { push(sink, "cx", "hdense", n); push(sink, "cx", "hint", n); }
    } else {
        for n in if quick { vec![257usize] } else { vec![257usize, 300, 513] } { push(sink, "f64", "hdense", n); if n < 400 { push(sink, "cx", "hint", n); } }
    }
}
