//! Suite "text" (X02): everything in the crate that turns values into text -- Display / Debug of Complex, Vector, Matrix,
//! Polynomial, Tridiagonal, Banded (with the formatter flags a caller may pass), the file writers Vector::output,
//! Matrix::output, Mesh1D::output, Mesh2D::output / output_var (with their precision argument) -- and the constants of
//! src/constant.rs.  See spec/Trace_Text.tla for the meaning of every field of an event.
//!
//! A case carries an ALPHABET of numbers (f64 as 16 hex digits of the bit pattern, i64 as decimal strings); the content of
//! the object is given by 1-based indices into it (element = [k] or [kre, kim]).  The text produced by the real code is cut
//! into lines and tokens by `lex`; every printed number is compared with EVERY alphabet entry, so the event says for each
//! token which values it can denote, and TLC decides whether the right value stands at the right place:
//!   u[k] = 0 iff str::parse of the printed number gives alphabet value k (numerically; NaN to NaN)
//!   q[k] = exact decimal distance |printed - value k| in half units of the last printed decimal (0, 1, 2 or 9), only when a
//!          precision was requested; computed with exact decimal arithmetic on digit vectors (`Dec`), not with floats.
use crate::util::*;
use ohsl::{Banded, Cmplx, Complex, Matrix, Mesh1D, Mesh2D, Polynomial, Tridiagonal, Vector};
use rand::rngs::StdRng;
use rand::Rng;
use serde_json::{json, Value};

// ------------------------------------------------------------------ exact decimals
/// (-1)^neg * dig / 10^nf, dig most significant first (leading zeros allowed, at least one integer digit)
#[derive(Clone, Debug)]
pub struct Dec { neg: bool, dig: Vec<u8>, nf: usize }
fn halve(dig: &[u8], nf: &mut usize) -> Vec<u8> {
    let mut r = 0u8; let mut out = Vec::with_capacity(dig.len() + 1);
    for d in dig { let cur = r * 10 + *d; out.push(cur / 2); r = cur % 2; }
    if r == 1 { out.push(5); *nf += 1; }
    out
}
impl Dec {
    fn is_zero(&self) -> bool { self.dig.iter().all(|d| *d == 0) }
    /// the exact decimal expansion of a finite f64
    fn from_f64(x: f64) -> Dec {
        let b = x.to_bits(); let neg = b >> 63 == 1; let ex = ((b >> 52) & 0x7ff) as i64; let fr = b & ((1u64 << 52) - 1);
        let (m, e) = if ex == 0 { (fr, -1074i64) } else { (fr | (1u64 << 52), ex - 1075) };
        let mut dig: Vec<u8> = m.to_string().bytes().map(|c| c - b'0').collect(); let mut nf = 0usize;
        if e >= 0 { for _ in 0..e { let mut c = 0u8; for d in dig.iter_mut().rev() { let v = *d * 2 + c; *d = v % 10; c = v / 10; } if c > 0 { dig.insert(0, c); } } }
        else if m != 0 { for _ in 0..(-e) { dig = halve(&dig, &mut nf); } }
        while nf > 0 && *dig.last().unwrap() == 0 { dig.pop(); nf -= 1; }
        Dec { neg, dig, nf }
    }
    /// a plain decimal "[-+]ddd[.ddd]"
    fn from_str(s: &str) -> Option<Dec> {
        let (neg, b) = if let Some(r) = s.strip_prefix('-') { (true, r) } else { (false, s.strip_prefix('+').unwrap_or(s)) };
        let (ip, fp) = match b.split_once('.') { Some((a, c)) => { if c.is_empty() { return None; } (a, c) } None => (b, "") };
        if ip.is_empty() || ip.len() + fp.len() > 4000 || !ip.bytes().all(|c| c.is_ascii_digit()) || !fp.bytes().all(|c| c.is_ascii_digit()) { return None; }
        Some(Dec { neg, dig: ip.bytes().chain(fp.bytes()).map(|c| c - b'0').collect(), nf: fp.len() })
    }
    fn ilen(&self) -> usize { self.dig.len() - self.nf }
    /// |self| with f decimals, left padded to len digits
    fn aligned(&self, f: usize, len: usize) -> Vec<u8> {
        let mut v = vec![0u8; len - (self.dig.len() + f - self.nf)]; v.extend_from_slice(&self.dig); v.extend(std::iter::repeat(0u8).take(f - self.nf)); v
    }
}
fn add_abs(a: &[u8], b: &[u8]) -> Vec<u8> { let mut o = vec![0u8; a.len()]; let mut c = 0u8; for i in (0..a.len()).rev() { let v = a[i] + b[i] + c; o[i] = v % 10; c = v / 10; } o }
fn sub_abs(a: &[u8], b: &[u8]) -> Vec<u8> { let mut o = vec![0u8; a.len()]; let mut br = 0i8; for i in (0..a.len()).rev() { let mut v = a[i] as i8 - b[i] as i8 - br; if v < 0 { v += 10; br = 1; } else { br = 0; } o[i] = v as u8; } o }
/// |a - b| in half units of 10^-d: 0 equal, 1 <= 1/2 unit, 2 <= 1 unit, 9 more
fn dist_units(a: &Dec, b: &Dec, d: usize) -> i64 {
    let f = a.nf.max(b.nf).max(d + 1); let li = a.ilen().max(b.ilen()) + 1; let len = li + f;
    let (x, y) = (a.aligned(f, len), b.aligned(f, len));
    let diff = if a.neg == b.neg || a.is_zero() || b.is_zero() { if x >= y { sub_abs(&x, &y) } else { sub_abs(&y, &x) } } else { add_abs(&x, &y) };
    if diff.iter().all(|c| *c == 0) { return 0; }
    let mut half = vec![0u8; len]; half[li + d] = 5;
    let mut unit = vec![0u8; len]; unit[li + d - 1] = 1;
    if diff <= half { 1 } else if diff <= unit { 2 } else { 9 }
}

// ------------------------------------------------------------------ alphabet
#[derive(Clone, Copy, Debug)]
pub enum Val { F(f64), I(i64) }
impl Val {
    fn f(&self) -> f64 { match self { Val::F(x) => *x, Val::I(i) => *i as f64 } }
    fn i(&self) -> i64 { match self { Val::I(i) => *i, Val::F(x) => *x as i64 } }
}
fn alpha_of(case: &Value) -> Vec<Val> {
    let ints = matches!(gets(case, "ty"), "i64" | "cxi");
    case["alpha"].as_array().unwrap().iter().map(|s| { let s = s.as_str().unwrap();
        if ints { Val::I(s.parse::<i64>().unwrap()) } else { Val::F(f64::from_bits(u64::from_str_radix(s, 16).unwrap())) } }).collect()
}
struct Cx { alpha: Vec<Val>, decs: Vec<Option<Dec>>, info: Value, dir: String, cid: i64, k: usize }
fn mkcx(case: &Value) -> Cx {
    let alpha = alpha_of(case);
    let decs: Vec<Option<Dec>> = alpha.iter().map(|v| match v { Val::F(x) if x.is_finite() => Some(Dec::from_f64(*x)), Val::I(i) => Dec::from_str(&i.to_string()), _ => None }).collect();
    let ex: Vec<i64> = decs.iter().map(|d| d.as_ref().map(|d| d.nf as i64).unwrap_or(0)).collect();
    let fin: Vec<bool> = alpha.iter().map(|v| match v { Val::F(x) => x.is_finite(), _ => true }).collect();
    let z: Vec<bool> = alpha.iter().map(|v| match v { Val::F(x) => *x == 0.0, Val::I(i) => *i == 0 }).collect();
    Cx { alpha, decs, info: json!({"ex": ex, "fin": fin, "z": z, "abits": case["alpha"]}), dir: file_dir(), cid: geti(case, "cid"), k: 0 }
}
/// the round-trip criterion
fn rt(s: &str, v: &Val) -> i64 {
    match v {
        Val::F(v) => match s.parse::<f64>() { Ok(x) => if x == *v || (x.is_nan() && v.is_nan()) { 0 } else { 9 }, Err(_) => 9 },
        Val::I(v) => match s.parse::<i128>() { Ok(x) => if x == *v as i128 { 0 } else { 9 }, Err(_) => 9 },
    }
}
fn is_number(s: &str) -> bool { !s.is_empty() && (s.parse::<f64>().is_ok() || s.parse::<i128>().is_ok()) && s.bytes().any(|c| c.is_ascii_digit() || c == b'N' || c == b'f') }

// ------------------------------------------------------------------ lexer
struct Tk { t: &'static str, comps: Vec<String>, e: i64 }
fn word(w: &str) -> Tk { if w == "*" { Tk { t: "s", comps: vec![], e: -1 } } else if is_number(w) { Tk { t: "n", comps: vec![w.to_string()], e: -1 } } else { Tk { t: "w", comps: vec![], e: -1 } } }
fn lex_line(line: &str) -> Vec<Tk> {
    let cs: Vec<char> = line.chars().map(|c| if c == '[' || c == ']' { ' ' } else { c }).collect();
    let mut out = vec![]; let mut i = 0;
    while i < cs.len() {
        let c = cs[i];
        if c.is_whitespace() || c == ',' { i += 1; continue; }
        if c == '(' {
            let mut j = i + 1; while j < cs.len() && cs[j] != ')' { j += 1; }
            let inner: String = cs[i + 1..j.min(cs.len())].iter().collect();
            let parts: Vec<String> = inner.split(',').map(|p| p.trim().to_string()).collect();
            if j < cs.len() && parts.len() == 2 && parts.iter().all(|p| is_number(p)) { out.push(Tk { t: "c", comps: parts, e: -1 }); } else { out.push(Tk { t: "w", comps: vec![], e: -1 }); }
            i = j + 1; continue;
        }
        let mut j = i; while j < cs.len() && !cs[j].is_whitespace() && cs[j] != ',' && cs[j] != '(' { j += 1; }
        let w: String = cs[i..j].iter().collect(); out.push(word(&w)); i = j;
    }
    out
}
/// "2.5x^3 - x^2 + 0x - 1": the monomials, the sign of the separator folded into the coefficient, an omitted coefficient = 1
fn lex_poly(line: &str) -> Vec<Tk> {
    let bad = || vec![Tk { t: "w", comps: vec![], e: -1 }];
    let ws: Vec<&str> = line.split_whitespace().collect();
    if ws.is_empty() { return vec![]; }
    if ws.len() % 2 == 0 { return bad(); }
    let mut out = vec![];
    let mut k = 0;
    while k < ws.len() {
        let (neg, w) = if k == 0 { (false, ws[0]) } else { match ws[k - 1] { "+" => (false, ws[k]), "-" => (true, ws[k]), _ => return bad() } };
        let (coef, e): (String, i64) = if let Some(p) = w.find("x^") { match w[p + 2..].parse::<i64>() { Ok(e) if e >= 0 => (w[..p].to_string(), e), _ => return bad() } }
            else if let Some(c) = w.strip_suffix('x') { (c.to_string(), 1) } else { (w.to_string(), 0) };
        let coef = if coef.is_empty() { "1".to_string() } else if coef == "-" { "-1".to_string() } else if coef == "+" { "1".to_string() } else { coef };
        let coef = if neg { if let Some(r) = coef.strip_prefix('-') { r.to_string() } else { format!("-{}", coef.strip_prefix('+').unwrap_or(&coef)) } } else { coef };
        if !is_number(&coef) { return bad(); }
        out.push(Tk { t: "t", comps: vec![coef], e });
        k += if k == 0 { 2 } else { 2 };
    }
    out
}
fn iv_of(s: &str) -> i64 {
    if let Ok(i) = s.parse::<i64>() { return if i.unsigned_abs() < SAT as u64 { i } else { BAD }; }
    match s.parse::<f64>() { Ok(x) if x == x.trunc() && x.abs() < SAT as f64 => x as i64, _ => BAD }
}
fn jtok(cx: &Cx, t: &Tk, p: i64) -> Value {
    let mut u = vec![]; let mut q = vec![]; let mut d = vec![]; let mut iv = vec![];
    for s in &t.comps {
        u.push(cx.alpha.iter().map(|v| rt(s, v)).collect::<Vec<i64>>());
        let dec = Dec::from_str(s);
        d.push(dec.as_ref().map(|x| x.nf as i64).unwrap_or(-1));
        iv.push(iv_of(s));
        if p >= 0 { q.push(cx.alpha.iter().zip(cx.decs.iter()).map(|(v, dv)| match (&dec, dv) { (Some(a), Some(b)) => dist_units(a, b, a.nf), _ => rt(s, v) }).collect::<Vec<i64>>()); }
    }
    json!({"t": t.t, "u": u, "q": q, "d": d, "iv": iv, "e": t.e})
}
/// the text as lines of tokens; `nl`: the text ends with a newline (the empty piece after it is not a line)
fn lex(cx: &Cx, text: &str, p: i64, poly: bool) -> (Value, bool) {
    let mut ls: Vec<&str> = text.split('\n').collect();
    let nl = ls.len() > 1 && ls.last() == Some(&"");
    if nl { ls.pop(); }
    let v = Value::from(ls.iter().map(|l| Value::from((if poly { lex_poly(l) } else { lex_line(l) }).iter().map(|t| jtok(cx, t, p)).collect::<Vec<Value>>())).collect::<Vec<Value>>());
    (v, nl)
}

// ------------------------------------------------------------------ element types
fn ix(el: &Value, c: usize) -> usize { (el[c].as_i64().unwrap_or(1) - 1).max(0) as usize }
pub trait TE: Clone + std::fmt::Display + std::fmt::Debug + 'static { fn mk(a: &[Val], el: &Value) -> Self; }
impl TE for f64 { fn mk(a: &[Val], el: &Value) -> f64 { a[ix(el, 0)].f() } }
impl TE for i64 { fn mk(a: &[Val], el: &Value) -> i64 { a[ix(el, 0)].i() } }
impl TE for Cmplx { fn mk(a: &[Val], el: &Value) -> Cmplx { Cmplx::new(a[ix(el, 0)].f(), a[ix(el, 1)].f()) } }
impl TE for Complex<i64> { fn mk(a: &[Val], el: &Value) -> Complex<i64> { Complex::new(a[ix(el, 0)].i(), a[ix(el, 1)].i()) } }
fn els<T: TE>(a: &[Val], v: &Value) -> Vec<T> { v.as_array().map(|x| x.iter().map(|e| T::mk(a, e)).collect()).unwrap_or_default() }

// ------------------------------------------------------------------ renderings
type Rendered = (String, &'static str, i64, Result<String, String>);
/// Display with the flags a caller may pass (name, requested precision or -1)
fn disp<T: std::fmt::Display>(x: &T, flags: bool) -> Vec<Rendered> {
    let mut v: Vec<Rendered> = vec![("disp".into(), "", -1, guarded(|| format!("{}", x)))];
    if flags {
        v.push(("disp".into(), ".3", 3, guarded(|| format!("{:.3}", x))));
        v.push(("disp".into(), ".0", 0, guarded(|| format!("{:.0}", x))));
        v.push(("disp".into(), "12", -1, guarded(|| format!("{:12}", x))));
        v.push(("disp".into(), ">14.1", 1, guarded(|| format!("{:>14.1}", x))));
        v.push(("disp".into(), "+", -1, guarded(|| format!("{:+}", x))));
        v.push(("disp".into(), "010.2", 2, guarded(|| format!("{:010.2}", x))));
    }
    v
}
fn dbg<T: std::fmt::Debug>(x: &T, flags: bool) -> Vec<Rendered> {
    let mut v: Vec<Rendered> = vec![("dbg".into(), "", -1, guarded(|| format!("{:?}", x)))];
    if flags {
        v.push(("dbg".into(), "#", -1, guarded(|| format!("{:#?}", x))));
        v.push(("dbg".into(), ".2", 2, guarded(|| format!("{:.2?}", x))));
        v.push(("dbg".into(), "9", -1, guarded(|| format!("{:9?}", x))));
    }
    v
}
fn file_dir() -> String {
    if let Ok(d) = std::env::var("TEXT_DIR") { if !d.is_empty() { return d; } }
    let a: Vec<String> = std::env::args().collect();
    let ev = a.get(4).cloned().unwrap_or_else(|| ".".to_string());
    let p = std::path::Path::new(&ev).parent().map(|p| p.to_path_buf()).unwrap_or_default();
    let s = if p.as_os_str().is_empty() { ".".to_string() } else { p.to_string_lossy().to_string() };
    if s.starts_with("/tmp") { eprintln!("TOOL-ERROR text: refusing to write files under /tmp"); std::process::exit(2) }
    s
}
/// run a file writer: optionally over a longer stale file of the same name; the file is read back and removed
fn filed(cx: &mut Cx, stale: bool, f: impl FnOnce(&str)) -> Result<String, String> {
    cx.k += 1;
    let path = format!("{}/text_out_{}_{}_{}.dat", cx.dir, std::process::id(), cx.cid, cx.k);
    let _ = std::fs::remove_file(&path);
    if stale { std::fs::write(&path, "7.5 7.5 7.5 7.5 7.5 7.5 7.5 7.5 7.5\n".repeat(60)).unwrap(); }
    let r = guarded(|| f(&path));
    let t = std::fs::read_to_string(&path).unwrap_or_else(|_| "unreadable".to_string());
    let _ = std::fs::remove_file(&path);
    r.map(|_| t)
}
/// one event per rendering
fn emit(cx: &Cx, out: &mut Out, base: &Value, kind: &str, rs: Vec<Rendered>, poly: bool) {
    let plains: Vec<(String, Option<String>)> = rs.iter().filter(|r| r.1.is_empty()).map(|r| (r.0.clone(), r.3.clone().ok())).collect();
    for (what, fl, p, r) in rs {
        let plain: Option<String> = plains.iter().find(|x| x.0 == what).and_then(|x| x.1.clone());
        let mut e = base.clone();
        e["op"] = json!(format!("{}_{}", kind, what)); e["fl"] = json!(fl); e["p"] = json!(p);
        for (k, v) in cx.info.as_object().unwrap() { e[k] = v.clone(); }
        match r {
            Ok(t) => { let (l, nl) = lex(cx, &t, p, poly && what == "disp"); e["panic"] = json!(false); e["lines"] = l; e["nl"] = json!(nl);
                       e["same"] = json!(plain.as_deref() == Some(t.as_str())); e["len"] = json!(t.len().min(SAT as usize) as i64);
                       e["neg0"] = json!(t.contains("-0 ") || t.contains("-0,") || t.contains("-0.0") || t.ends_with("-0")); }
            Err(_) => { e["panic"] = json!(true); e["lines"] = json!([]); e["nl"] = json!(false); e["same"] = json!(false); e["len"] = json!(0); e["neg0"] = json!(false); }
        }
        out.ev(e);
    }
}

fn run_cx<T: TE>(case: &Value, out: &mut Out) {
    let cx = mkcx(case); let z: T = T::mk(&cx.alpha, &case["v"]);
    let base = json!({"cid": cx.cid, "ty": case["ty"], "v": case["v"]});
    let fl = case["flags"].as_bool().unwrap_or(false);
    let mut rs = disp(&z, fl); rs.extend(dbg(&z, fl));
    emit(&cx, out, &base, "cx", rs, false);
}
fn run_vec<T: TE>(case: &Value, out: &mut Out) {
    let mut cx = mkcx(case); let v: Vector<T> = Vector::create(els::<T>(&cx.alpha, &case["v"]));
    let base = json!({"cid": cx.cid, "ty": case["ty"], "v": case["v"]});
    let fl = case["flags"].as_bool().unwrap_or(false);
    let mut rs = disp(&v, fl); rs.extend(dbg(&v, fl));
    let st = case["stale"].as_bool().unwrap_or(false);
    rs.push(("out".into(), "", -1, filed(&mut cx, st, |p| v.output(p))));
    emit(&cx, out, &base, "vec", rs, false);
}
fn run_mat<T: TE + ohsl::Number>(case: &Value, out: &mut Out) {
    let mut cx = mkcx(case); let a = &case["a"]; let (r, c) = (getu(a, "r"), getu(a, "c"));
    let d = els::<T>(&cx.alpha, &a["d"]);
    let zero = T::mk(&cx.alpha, &json!([1, 1]));
    let mut m = Matrix::<T>::new(r, c, zero);
    for i in 0..r { for j in 0..c { m[(i, j)] = d[i * c + j].clone(); } }
    let base = json!({"cid": cx.cid, "ty": case["ty"], "a": a});
    let fl = case["flags"].as_bool().unwrap_or(false);
    let mut rs = disp(&m, fl); rs.extend(dbg(&m, fl));
    let st = case["stale"].as_bool().unwrap_or(false);
    rs.push(("out".into(), "", -1, filed(&mut cx, st, |p| m.output(p))));
    emit(&cx, out, &base, "mat", rs, false);
}
fn run_poly<T: TE + ohsl::Zero + ohsl::Signed + PartialOrd>(case: &Value, out: &mut Out) {
    let cx = mkcx(case); let p = Polynomial::<T>::new(els::<T>(&cx.alpha, &case["v"]));
    let base = json!({"cid": cx.cid, "ty": case["ty"], "v": case["v"]});
    let fl = case["flags"].as_bool().unwrap_or(false);
    let mut rs = disp(&p, fl); rs.extend(dbg(&p, fl));
    emit(&cx, out, &base, "poly", rs, true);
}
fn run_tri<T: TE>(case: &Value, out: &mut Out) {
    let cx = mkcx(case); let t = &case["tri"];
    let base = json!({"cid": cx.cid, "ty": case["ty"], "tri": t});
    let made = guarded(|| Tridiagonal::<T>::with_vecs(els::<T>(&cx.alpha, &t["sub"]), els::<T>(&cx.alpha, &t["main"]), els::<T>(&cx.alpha, &t["sup"])));
    let m = match made { Ok(m) => m, Err(_) => { eprintln!("TOOL-ERROR text: tridiagonal case {} cannot be built", cx.cid); std::process::exit(2) } };
    let fl = case["flags"].as_bool().unwrap_or(false);
    let mut rs = disp(&m, fl); rs.extend(dbg(&m, fl));
    emit(&cx, out, &base, "tri", rs, false);
}
fn run_band<T: TE + ohsl::Number + ohsl::Signed + PartialOrd + Copy + std::ops::Neg<Output = T>>(case: &Value, out: &mut Out) {
    let cx = mkcx(case); let b = &case["band"]; let (n, m1, m2) = (getu(b, "n"), getu(b, "m1"), getu(b, "m2"));
    let d = els::<T>(&cx.alpha, &b["d"]);
    let mut m = Banded::<T>::new(n, m1, m2, T::mk(&cx.alpha, &b["fill"]));
    for i in 0..n { for j in 0..n { if !(j > i + m2 || i > j + m1) { m[(i, j)] = d[i * n + j]; } } }
    let base = json!({"cid": cx.cid, "ty": case["ty"], "band": b});
    let fl = case["flags"].as_bool().unwrap_or(false);
    let mut rs = disp(&m, fl); rs.extend(dbg(&m, fl));
    emit(&cx, out, &base, "band", rs, false);
}
fn run_m1<T: TE + ohsl::Number>(case: &Value, out: &mut Out) {
    let mut cx = mkcx(case); let m = &case["m"]; let nv = getu(case, "nv");
    let nodes: Vec<f64> = els::<f64>(&cx.alpha, &m["nodes"]);
    let mut mesh = Mesh1D::<T, f64>::new(Vector::create(nodes.clone()), nv);
    for i in 0..nodes.len() { mesh.set_nodes_vars(i, Vector::create(els::<T>(&cx.alpha, &m["vars"][i]))); }
    let base = json!({"cid": cx.cid, "ty": case["ty"], "m": m});
    let mut rs: Vec<Rendered> = vec![];
    for (n, p) in ivec(&case["ps"]).iter().enumerate() { let pp = *p as usize; rs.push(("out".into(), "p", *p, filed(&mut cx, n % 2 == 0, |f| mesh.output(f, pp)))); }
    emit(&cx, out, &base, "m1", rs, false);
}
fn run_m2<T: TE + ohsl::Number>(case: &Value, out: &mut Out) {
    let mut cx = mkcx(case); let m = &case["m"]; let nv = getu(case, "nv");
    let (xn, yn) = (els::<f64>(&cx.alpha, &m["xn"]), els::<f64>(&cx.alpha, &m["yn"]));
    let mut mesh = Mesh2D::<T>::new(Vector::create(xn.clone()), Vector::create(yn.clone()), nv);
    for i in 0..xn.len() { for j in 0..yn.len() { mesh.set_nodes_vars(i, j, Vector::create(els::<T>(&cx.alpha, &m["vars"][i][j]))); } }
    let base = json!({"cid": cx.cid, "ty": case["ty"], "m": m});
    let mut rs: Vec<Rendered> = vec![];
    for (n, p) in ivec(&case["ps"]).iter().enumerate() { let pp = *p as usize; rs.push(("out".into(), "p", *p, filed(&mut cx, n % 2 == 1, |f| mesh.output(f, pp)))); }
    emit(&cx, out, &base, "m2", rs, false);
    for (n, p) in ivec(&case["ps"]).iter().enumerate() {
        let var = n % nv.max(1); let pp = *p as usize;
        let mut b = base.clone(); b["var"] = json!(var);
        let r = filed(&mut cx, n % 2 == 0, |f| mesh.output_var(f, var, pp));
        emit(&cx, out, &b, "m2", vec![("outvar".into(), "p", *p, r)], false);
    }
}

// ------------------------------------------------------------------ constants
/// digits [i, f1..f60] of a non-negative decimal < 10 with at most 60 decimals
fn digits61(dig: &[u8], nf: usize) -> Value {
    let il = dig.len() - nf;
    if dig[..il.saturating_sub(1)].iter().any(|d| *d != 0) || il == 0 || (nf > 60 && dig[il + 60..].iter().any(|d| *d != 0)) { return json!([BAD]); }
    let mut v: Vec<i64> = vec![dig[il - 1] as i64];
    for k in 0..60 { v.push(if k < nf { dig[il + k] as i64 } else { 0 }); }
    json!(v)
}
/// the exact midpoint of two positive finite f64
fn midpoint(a: f64, b: f64) -> Value {
    let (x, y) = (Dec::from_f64(a), Dec::from_f64(b));
    let f = x.nf.max(y.nf); let len = x.ilen().max(y.ilen()) + 1 + f;
    let s = add_abs(&x.aligned(f, len), &y.aligned(f, len));
    let mut nf = f; let h = halve(&s, &mut nf);
    digits61(&h, nf)
}
fn run_const(case: &Value, out: &mut Out) {
    let cid = geti(case, "cid");
    let cs: [(&str, f64); 11] = [("PI", ohsl::constant::PI), ("PI_2", ohsl::constant::PI_2), ("PI_4", ohsl::constant::PI_4), ("FRAC_1_PI", ohsl::constant::FRAC_1_PI),
        ("FRAC_2_PI", ohsl::constant::FRAC_2_PI), ("TAU", ohsl::constant::TAU), ("SQRTPI", ohsl::constant::SQRTPI), ("SQRT2", ohsl::constant::SQRT2),
        ("SQRT1_2", ohsl::constant::SQRT1_2), ("E", ohsl::constant::E), ("EULER", ohsl::constant::EULER)];
    for (name, x) in cs {
        let ok = x.is_finite() && x > 0.0 && x < 10.0;
        let (lo, hi) = if ok { (midpoint(f64::from_bits(x.to_bits() - 1), x), midpoint(x, f64::from_bits(x.to_bits() + 1))) } else { (json!([BAD]), json!([BAD])) };
        out.ev(json!({"op": "const", "cid": cid, "name": name, "bits": bits(x), "shown": format!("{:?}", x), "lo": lo, "hi": hi, "panic": false, "ty": "f64"}));
    }
    let i = ohsl::constant::I;
    out.ev(json!({"op": "const_i", "cid": cid, "iv": [iv_of(&format!("{}", i.real)), iv_of(&format!("{}", i.imag))], "bits": format!("{} {}", bits(i.real), bits(i.imag)), "panic": false, "ty": "cx"}));
}

pub fn exec(case: &Value, out: &mut Out) {
    let bad = |t: &str| -> ! { eprintln!("TOOL-ERROR text: kind {} has no element type {}", gets(case, "kind"), t); std::process::exit(2) };
    let ty = gets(case, "ty");
    match gets(case, "kind") {
        "cx" => match ty { "cx" => run_cx::<Cmplx>(case, out), "cxi" => run_cx::<Complex<i64>>(case, out), t => bad(t) },
        "vec" => match ty { "f64" => run_vec::<f64>(case, out), "i64" => run_vec::<i64>(case, out), "cx" => run_vec::<Cmplx>(case, out), "cxi" => run_vec::<Complex<i64>>(case, out), t => bad(t) },
        "mat" => match ty { "f64" => run_mat::<f64>(case, out), "i64" => run_mat::<i64>(case, out), "cx" => run_mat::<Cmplx>(case, out), t => bad(t) },
        "poly" => match ty { "f64" => run_poly::<f64>(case, out), "i64" => run_poly::<i64>(case, out), t => bad(t) },
        "tri" => match ty { "f64" => run_tri::<f64>(case, out), "i64" => run_tri::<i64>(case, out), "cx" => run_tri::<Cmplx>(case, out), t => bad(t) },
        "band" => match ty { "f64" => run_band::<f64>(case, out), "i64" => run_band::<i64>(case, out), t => bad(t) },
        "m1" => match ty { "f64" => run_m1::<f64>(case, out), "cx" => run_m1::<Cmplx>(case, out), t => bad(t) },
        "m2" => match ty { "f64" => run_m2::<f64>(case, out), "cx" => run_m2::<Cmplx>(case, out), t => bad(t) },
        "const" => run_const(case, out),
        k => { eprintln!("TOOL-ERROR unknown text kind {}", k); std::process::exit(2) }
    }
}

// ------------------------------------------------------------------ case generation (impl -> spec)
fn hx(x: f64) -> String { format!("{:016x}", x.to_bits()) }
const SPECIALS: [f64; 40] = [0.0, -0.0, f64::NAN, f64::INFINITY, f64::NEG_INFINITY, 1e300, -1e300, 1e-300, 5e-324, f64::MAX, f64::MIN_POSITIVE, 1e16, 1e15, 123456789.125,
    1e-5, 1e-7, 0.1, -0.5, -0.25, 1.0, -1.0, 0.3, 0.6666666666666666, 1e21, 1.5e-10, 9.5, 0.95, 0.995, 2.5, 0.5, 1.5, 0.125, 0.0625, -0.05, 9.999999999999999e22, 4.35, 0.45,
    -2.675, 1234567.890625, -7.0];
/// an alphabet of `n` distinct numbers (as bit patterns); family: 0 dyadic, 1 decimal fractions, 2 specials, 3 mixed
fn alphabet(rng: &mut StdRng, n: usize, fam: usize, ints: bool) -> Vec<String> {
    let mut v: Vec<String> = vec![];
    if ints {
        let pool = [0i64, 1, -1, 7, -7, 10, -10, 42, -999, 123456789, i64::MAX, i64::MIN + 1, 2, -2, 100, -35];
        v.push("0".into());
        while v.len() < n { let x = if rng.gen_bool(0.5) { pool[rng.gen_range(0..pool.len())] } else { rng.gen_range(-5000..=5000) }; let s = x.to_string(); if !v.contains(&s) { v.push(s); } }
        return v;
    }
    v.push(hx(0.0));
    while v.len() < n {
        let f = if fam == 3 { rng.gen_range(0..3) } else { fam };
        let x = match f {
            0 => rng.gen_range(-999..=999) as f64 / [1.0, 2.0, 4.0, 8.0, 64.0][rng.gen_range(0..5)],
            1 => { let k = rng.gen_range(-9999..=9999) as f64; [k / 10.0, k / 1000.0, k / 3.0, k / 7.0 * 1e-6, k * 0.01, k / 7.0 * 1e9][rng.gen_range(0..6)] }
            _ => SPECIALS[rng.gen_range(0..SPECIALS.len())],
        };
        let s = hx(x); if !v.contains(&s) { v.push(s); }
    }
    v
}
fn rel(rng: &mut StdRng, na: usize, nc: usize) -> Value { Value::from((0..nc).map(|_| rng.gen_range(1..=na as i64)).collect::<Vec<i64>>()) }
fn rels(rng: &mut StdRng, na: usize, nc: usize, n: usize) -> Value { Value::from((0..n).map(|_| rel(rng, na, nc)).collect::<Vec<Value>>()) }
fn nc_of(ty: &str) -> usize { if ty == "cx" || ty == "cxi" { 2 } else { 1 } }
const PS: [i64; 24] = [0, 1, 2, 3, 4, 5, 6, 7, 8, 9, 10, 11, 12, 13, 14, 15, 16, 17, 18, 20, 30, 60, 320, 1100];

pub fn gen(tier: &str, seed: u64, out: &mut Out) {
    let quick = tier == "quick";
    let mut rng = rng(seed, 202);
    let mut cid = 0i64;
    let mut push = |out: &mut Out, mut c: Value| { cid += 1; c["cid"] = json!(cid); c["suite"] = json!("text"); out.raw(&c); };
    let reps = if quick { 1 } else { 5 };
    push(out, json!({"kind": "const", "ty": "f64", "alpha": []}));
    let mut h = 0usize;
    for rep in 0..reps {
        // Complex: every family, both component types
        for fam in 0..4 { for ty in ["cx", "cxi"] { for _ in 0..3 {
            let a = alphabet(&mut rng, 6, fam, ty == "cxi"); let v = rel(&mut rng, 6, 2);
            push(out, json!({"kind": "cx", "ty": ty, "alpha": a, "v": v, "flags": true}));
        } } }
        // Vector: every length 0..6
        for n in 0..=6usize { for ty in ["f64", "i64", "cx", "cxi"] { h += 1;
            let a = alphabet(&mut rng, 6, h % 4, ty == "i64" || ty == "cxi"); let v = rels(&mut rng, 6, nc_of(ty), n);
            push(out, json!({"kind": "vec", "ty": ty, "alpha": a, "v": v, "flags": h % 3 == 0, "stale": h % 2 == 0}));
        } }
        // Matrix: every shape 0..6 x 0..6
        for r in 0..=6usize { for c in 0..=6usize { for ty in ["f64", "i64", "cx"] { h += 1;
            if quick && ty != "f64" && (r + c + h) % 3 != 0 { continue; }
            let a = alphabet(&mut rng, 6, h % 4, ty == "i64"); let d = rels(&mut rng, 6, nc_of(ty), r * c);
            push(out, json!({"kind": "mat", "ty": ty, "alpha": a, "a": {"r": r, "c": c, "d": d}, "flags": h % 5 == 0, "stale": h % 2 == 1}));
        } } }
        // Polynomial: 0..6 coefficients; leading coefficient 1, -1, 0, NaN, anything
        for n in 0..=6usize { for ty in ["f64", "i64"] { for lead in 0..5usize { h += 1;
            let ints = ty == "i64";
            let mut a = alphabet(&mut rng, 6, h % 4, ints);
            a[1] = if ints { "1".into() } else { hx(1.0) }; a[2] = if ints { "-1".into() } else { hx(-1.0) };
            if !ints { a[3] = hx(f64::NAN); a[4] = hx(-0.0); }
            a.dedup(); let mut seen = vec![]; a.retain(|x| if seen.contains(x) { false } else { seen.push(x.clone()); true });
            let na = a.len();
            let mut v: Vec<Value> = (0..n).map(|_| rel(&mut rng, na, 1)).collect();
            if n > 0 { let want = match lead { 0 => a.iter().position(|x| *x == if ints { "1".to_string() } else { hx(1.0) }), 1 => a.iter().position(|x| *x == if ints { "-1".to_string() } else { hx(-1.0) }),
                                               2 => Some(0), 3 => if ints { None } else { a.iter().position(|x| *x == hx(f64::NAN)) }, _ => None };
                         if let Some(k) = want { v[n - 1] = json!([k as i64 + 1]); } }
            push(out, json!({"kind": "poly", "ty": ty, "alpha": a, "v": v, "flags": h % 4 == 0}));
        } } }
        // Tridiagonal: n = 1..6
        for n in 1..=6usize { for ty in ["f64", "i64", "cx"] { h += 1;
            let a = alphabet(&mut rng, 6, h % 4, ty == "i64"); let nc = nc_of(ty);
            push(out, json!({"kind": "tri", "ty": ty, "alpha": a, "tri": {"n": n, "sub": rels(&mut rng, 6, nc, n - 1), "main": rels(&mut rng, 6, nc, n), "sup": rels(&mut rng, 6, nc, n - 1)}, "flags": h % 4 == 0}));
        } }
        // Banded: n = 0..6, every pair of bandwidths 0..3
        for n in 0..=6usize { for m1 in 0..=3usize { for m2 in 0..=3usize { h += 1;
            if quick && n > 3 && (n + m1 + 2 * m2) % 3 != 0 { continue; }
            let ty = if h % 3 == 0 { "i64" } else { "f64" };
            let a = alphabet(&mut rng, 6, h % 4, ty == "i64");
            push(out, json!({"kind": "band", "ty": ty, "alpha": a, "band": {"n": n, "m1": m1, "m2": m2, "fill": rel(&mut rng, 6, 1), "d": rels(&mut rng, 6, 1, n * n)}, "flags": h % 7 == 0}));
        } } }
        // Mesh1D / Mesh2D writers: every precision of PS, values of every family
        for n in 0..=6usize { for ty in ["f64", "cx"] { for nv in 1..=2usize { h += 1;
            let a = alphabet(&mut rng, 8, h % 4, false); let nc = nc_of(ty);
            let mut ps: Vec<i64> = (0..if quick { 3 } else { 6 }).map(|k| PS[(h * 5 + k * 7 + rep) % PS.len()]).collect(); ps.dedup();
            let vars: Vec<Value> = (0..n).map(|_| rels(&mut rng, 8, nc, nv)).collect();
            push(out, json!({"kind": "m1", "ty": ty, "alpha": a, "nv": nv, "m": {"nodes": rels(&mut rng, 8, 1, n), "vars": vars}, "ps": ps}));
        } } }
        for nx in 0..=3usize { for ny in 0..=3usize { for ty in ["f64", "cx"] { h += 1;
            let nv = 1 + h % 2; let a = alphabet(&mut rng, 8, h % 4, false); let nc = nc_of(ty);
            let mut ps: Vec<i64> = (0..if quick { 2 } else { 4 }).map(|k| PS[(h * 3 + k * 11 + rep) % PS.len()]).collect(); ps.dedup();
            let vars: Vec<Value> = (0..nx).map(|_| Value::from((0..ny).map(|_| rels(&mut rng, 8, nc, nv)).collect::<Vec<Value>>())).collect();
            push(out, json!({"kind": "m2", "ty": ty, "alpha": a, "nv": nv, "m": {"xn": rels(&mut rng, 8, 1, nx), "yn": rels(&mut rng, 8, 1, ny), "vars": vars}, "ps": ps}));
        } } }
    }
}
