//! Exact rationals over i128 implementing ohsl's numeric traits, so that every generic
//! container of the crate can be instantiated at an exact element type.
use std::cmp::Ordering;
use std::fmt;
use std::ops::*;

#[derive(Clone, Copy)]
pub struct Rat { pub n: i128, pub d: i128 }

fn gcd(a: i128, b: i128) -> i128 { let (mut a, mut b) = (a.abs(), b.abs()); while b != 0 { let t = a % b; a = b; b = t; } a }

impl Rat {
    pub fn new(n: i128, d: i128) -> Rat {
        if d == 0 { panic!("Rat: division by zero"); }
        let g = gcd(n, d); let s = if d < 0 { -1 } else { 1 };
        if g == 0 { return Rat { n: 0, d: 1 }; }
        Rat { n: s * n / g, d: s * d / g }
    }
    pub fn int(n: i64) -> Rat { Rat { n: n as i128, d: 1 } }
    pub fn is_int(&self) -> bool { self.d == 1 }
    pub fn to_f64(&self) -> f64 { self.n as f64 / self.d as f64 }
    pub fn is_zero(&self) -> bool { self.n == 0 }
}
impl Default for Rat { fn default() -> Rat { Rat { n: 0, d: 1 } } }
impl fmt::Debug for Rat { fn fmt(&self, f: &mut fmt::Formatter<'_>) -> fmt::Result { write!(f, "{}/{}", self.n, self.d) } }
impl fmt::Display for Rat { fn fmt(&self, f: &mut fmt::Formatter<'_>) -> fmt::Result { write!(f, "{}/{}", self.n, self.d) } }
impl PartialEq for Rat { fn eq(&self, o: &Rat) -> bool { self.n == o.n && self.d == o.d } }
impl Eq for Rat {}
impl PartialOrd for Rat { fn partial_cmp(&self, o: &Rat) -> Option<Ordering> { Some(self.cmp(o)) } }
impl Ord for Rat { fn cmp(&self, o: &Rat) -> Ordering { (self.n * o.d).cmp(&(o.n * self.d)) } }
impl Add for Rat { type Output = Rat; fn add(self, o: Rat) -> Rat { let g = gcd(self.d, o.d); Rat::new(self.n * (o.d / g) + o.n * (self.d / g), (self.d / g) * o.d) } }
impl Sub for Rat { type Output = Rat; fn sub(self, o: Rat) -> Rat { self + (-o) } }
impl Mul for Rat { type Output = Rat; fn mul(self, o: Rat) -> Rat {
    let g1 = gcd(self.n, o.d).max(1); let g2 = gcd(o.n, self.d).max(1);
    Rat::new((self.n / g1) * (o.n / g2), (self.d / g2) * (o.d / g1)) } }
impl Div for Rat { type Output = Rat; fn div(self, o: Rat) -> Rat { if o.n == 0 { panic!("Rat: division by zero"); } self * Rat::new(o.d, o.n) } }
impl Neg for Rat { type Output = Rat; fn neg(self) -> Rat { Rat { n: -self.n, d: self.d } } }
impl AddAssign for Rat { fn add_assign(&mut self, o: Rat) { *self = *self + o; } }
impl SubAssign for Rat { fn sub_assign(&mut self, o: Rat) { *self = *self - o; } }
impl MulAssign for Rat { fn mul_assign(&mut self, o: Rat) { *self = *self * o; } }
impl DivAssign for Rat { fn div_assign(&mut self, o: Rat) { *self = *self / o; } }
impl ohsl::Zero for Rat { fn zero() -> Rat { Rat { n: 0, d: 1 } } }
impl ohsl::One for Rat { fn one() -> Rat { Rat { n: 1, d: 1 } } }
impl ohsl::Number for Rat {}
impl ohsl::Signed for Rat { fn abs(&self) -> Rat { Rat { n: self.n.abs(), d: self.d } } }
